import PyamgV.Proofs.ExtC03YGen
import PyamgV.Proofs.ExtC09XToCsc

/-! PyamgV (extension E55, C03): MEANING of `C03Y.bsrToCsr` (the point rows of BSR arrays, what `bsr_gauss_seidel` / `bsr_jacobi`
traverse and what `tocsr()` produces): stored row `p` of the result lists exactly `bsrRow M p` -- for every stored block of block
row `p / bs`, in storage order, the `bs` entries of its row `p % bs` -- and therefore **the dense form of the point rows is the
dense form of the BSR arrays** (`csrDense (bsrToCsr M) = bsrDense M` for positive block size). -/
set_option linter.unusedSectionVars false
namespace PyamgV.C03Y
open PyamgV PyamgV.K

variable {𝕜 : Type} [Field 𝕜] [DecidableEq 𝕜]

/-- the row lists the model concatenates -/
def bsrRows (M : Bsr 𝕜) : List (List (Nat × 𝕜)) := (List.range (M.nb * M.bs)).map (bsrRow M)

theorem bsrToCsr_ap (M : Bsr 𝕜) :
    (bsrToCsr M).ap = ((List.range (M.nb * M.bs + 1)).map (fun p => ExtC09X.offs (bsrRows M) p)).toArray := rfl
theorem bsrToCsr_aj (M : Bsr 𝕜) : (bsrToCsr M).aj = ((bsrRows M).flatten.map (·.1)).toArray := rfl
theorem bsrToCsr_ax (M : Bsr 𝕜) : (bsrToCsr M).ax = ((bsrRows M).flatten.map (·.2)).toArray := rfl

/-- **stored row `p` of the point arrays lists exactly the entries `bsrRow M p`** -/
theorem bsrToCsr_row (M : Bsr 𝕜) (p : Nat) (hp : p < M.nb * M.bs) :
    ((bsrToCsr M).jjs p).map (fun jj => (rdN (bsrToCsr M).aj jj, rd (bsrToCsr M).ax jj)) = bsrRow M p := by
  have hlen : (bsrRows M).length = M.nb * M.bs := by simp [bsrRows]
  have hp' : p < (bsrRows M).length := by rw [hlen]; exact hp
  have hLp : (bsrRows M)[p] = bsrRow M p := by simp [bsrRows]
  have hjjs : (bsrToCsr M).jjs p = List.range' (ExtC09X.offs (bsrRows M) p) (bsrRow M p).length := by
    unfold Csr.jjs
    rw [bsrToCsr_ap, ExtC09X.rdN_toArray_map_range, ExtC09X.rdN_toArray_map_range, if_pos (by omega), if_pos (by omega),
      ExtC09X.offs_succ _ p hp', hLp]
    congr 1
    omega
  rw [hjjs]
  apply List.ext_getElem
  · simp
  · intro t h1 h2
    simp only [List.length_map, List.length_range'] at h1
    have ht : t < (bsrRows M)[p].length := by rw [hLp]; exact h1
    have hget := ExtC09X.flatten_getElem? (bsrRows M) p t hp' ht
    simp only [List.getElem_map, List.getElem_range', Nat.one_mul]
    rw [bsrToCsr_aj, bsrToCsr_ax]
    unfold K.rdN K.rd
    simp only [Array.getD_eq_getD_getElem?, List.getElem?_toArray, List.getElem?_map, hget, Option.map_some,
      Option.getD_some]
    simp [hLp]

theorem sum_filter_pairs {ι : Type} (L : List ι) (f : ι → Nat) (g : ι → 𝕜) (q : Nat) :
    ((L.filter (fun i => decide (f i = q))).map g).sum =
      (((L.map (fun i => (f i, g i))).filter (fun e => decide (e.1 = q))).map (·.2)).sum := by
  induction L with
  | nil => simp
  | cons a L ih =>
    by_cases h : f a = q
    · simp [h, ih]
    · simp [h, ih]

theorem range_filter_eq_sum (bs l0 : Nat) (h : l0 < bs) (v : Nat → 𝕜) :
    (((List.range bs).filter (fun l => decide (l = l0))).map v).sum = v l0 := by
  induction bs with
  | zero => omega
  | succ m ih =>
    rw [List.range_succ, List.filter_append, List.map_append, List.sum_append]
    by_cases hm : l0 = m
    · subst hm
      have : (List.range l0).filter (fun l => decide (l = l0)) = [] := by
        apply List.filter_eq_nil_iff.2
        intro l hl
        have := List.mem_range.1 hl
        simp only [decide_eq_true_eq]
        omega
      rw [this]; simp
    · rw [ih (by omega)]
      have : ¬ (m = l0) := fun hh => hm hh.symm
      simp [this]

/-- inside one block: the entries of row `k` whose point column is `q` -/
theorem block_filter_sum (bs : Nat) (hbs : 0 < bs) (J : Nat) (v : Nat → 𝕜) (q : Nat) :
    ((((List.range bs).map (fun l => (J * bs + l, v l))).filter (fun e => decide (e.1 = q))).map (·.2)).sum =
      if J = q / bs then v (q % bs) else 0 := by
  rw [← sum_filter_pairs (List.range bs) (fun l => J * bs + l) v q]
  by_cases hJ : J = q / bs
  · rw [if_pos hJ]
    have hcongr : (List.range bs).filter (fun l => decide (J * bs + l = q)) =
        (List.range bs).filter (fun l => decide (l = q % bs)) := by
      apply List.filter_congr
      intro l hl
      have hl' := List.mem_range.1 hl
      apply decide_eq_decide.2
      have hdm := Nat.div_add_mod q bs
      have h2 : bs * (q / bs) = q / bs * bs := Nat.mul_comm _ _
      subst hJ
      constructor <;> intro h <;> omega
    rw [hcongr]
    exact range_filter_eq_sum bs (q % bs) (Nat.mod_lt _ hbs) v
  · rw [if_neg hJ]
    have hfil : (List.range bs).filter (fun l => decide (J * bs + l = q)) = [] := by
      apply List.filter_eq_nil_iff.2
      intro l hl
      have hl' := List.mem_range.1 hl
      simp only [decide_eq_true_eq]
      intro h
      apply hJ
      subst h
      rw [Nat.mul_comm, Nat.mul_add_div hbs, Nat.div_eq_of_lt hl', Nat.add_zero]
    rw [hfil]; simp

theorem flatMap_filter_sum_blocks (L : List Nat) (col : Nat → Nat) (bs : Nat) (hbs : 0 < bs) (v : Nat → Nat → 𝕜) (q : Nat) :
    (((L.flatMap (fun jj => (List.range bs).map (fun l => (col jj * bs + l, v jj l)))).filter
      (fun e => decide (e.1 = q))).map (·.2)).sum =
      ((L.filter (fun jj => decide (col jj = q / bs))).map (fun jj => v jj (q % bs))).sum := by
  induction L with
  | nil => simp
  | cons jj L ih =>
    rw [List.flatMap_cons, List.filter_append, List.map_append, List.sum_append, ih,
      block_filter_sum bs hbs (col jj) (v jj) q]
    by_cases h : col jj = q / bs
    · rw [if_pos h, List.filter_cons_of_pos (by simpa using h)]; simp
    · rw [if_neg h, List.filter_cons_of_neg (by simpa using h)]; simp

/-- **the dense form of the point rows of BSR arrays is the dense form of the BSR arrays** -/
theorem csrDense_bsrToCsr (M : Bsr 𝕜) (hbs : 0 < M.bs) : csrDense (bsrToCsr M) = bsrDense M := by
  unfold csrDense bsrDense
  show (List.range (M.nb * M.bs)).map _ = (List.range (M.nb * M.bs)).map _
  apply List.map_congr_left
  intro p hp
  have hp' := List.mem_range.1 hp
  apply List.map_congr_left
  intro q _
  rw [foldl_ite_add, zero_add, foldl_ite_add, zero_add]
  rw [sum_filter_pairs ((bsrToCsr M).jjs p) (fun jj => rdN (bsrToCsr M).aj jj) (fun jj => rd (bsrToCsr M).ax jj) q,
    bsrToCsr_row M p hp']
  unfold bsrRow
  exact flatMap_filter_sum_blocks (M.jjs (p / M.bs)) (fun jj => rdN M.bj jj) M.bs hbs
    (fun jj l => rd M.bx (jj * (M.bs * M.bs) + (p % M.bs) * M.bs + l)) q

end PyamgV.C03Y
