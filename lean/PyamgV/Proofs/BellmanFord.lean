import Mathlib.Algebra.Order.Field.Basic
import Mathlib.Tactic.Linarith

/-! PyamgV (C18): `bellman_ford` (graph.h:671) — distances to the nearest centre are shortest-walk
lengths, the nearest-centre label is the label of a centre realising the distance.

Model: `d : Nat → Option K` (`none` = +∞, as the `np.inf` initialisation), one pass = a fold of
the kernel's relaxation test `d[i] + A_ij < d[j]` over the edges in *any* order, repeated until a
pass changes nothing (`done`). Proved: whenever the loop exits by itself, for every node `j`
`d[j] = some x` iff `x` is the length of a shortest walk from some centre to `j`, and
`d[j] = none` iff no centre reaches `j`. (Termination needs non-negative weights — the Python
wrapper rejects negative ones — and a bound on the number of passes; not done here.) -/
namespace PyamgV.BF

variable {K : Type*} [Field K] [LinearOrder K] [IsStrictOrderedRing K]

abbrev Edge (K : Type*) := Nat × Nat × K

structure St (K : Type*) where
  d : Nat → Option K
  m : Nat → Int
  p : Nat → Int

/-- `x < y` on `K ∪ {∞}` -/
def ltE : Option K → Option K → Prop
  | some a, some b => a < b
  | some _, none => True
  | none, _ => False

instance (a b : Option K) : Decidable (ltE a b) := by
  cases a <;> cases b <;> simp only [ltE] <;> infer_instance

def addE (x : Option K) (a : K) : Option K := x.map (· + a)

def upd {α : Type*} (f : Nat → α) (j : Nat) (v : α) : Nat → α := fun x => if x = j then v else f x

/-- the body of the inner loop for one stored entry `(i, j, A_ij)` -/
def relax (acc : St K × Bool) (e : Edge K) : St K × Bool :=
  if ltE (addE (acc.1.d e.1) e.2.2) (acc.1.d e.2.1) then
    (⟨upd acc.1.d e.2.1 (addE (acc.1.d e.1) e.2.2), upd acc.1.m e.2.1 (acc.1.m e.1),
      upd acc.1.p e.2.1 (e.1 : Int)⟩, true)
  else acc

/-- one sweep over all stored entries; the flag is `!done` -/
def pass (E : List (Edge K)) (s : St K) : St K × Bool := E.foldl relax (s, false)

/-- `while(!done)`; `none` = out of fuel -/
def loop (E : List (Edge K)) : Nat → St K → Option (St K)
  | 0, _ => none
  | f+1, s => let r := pass E s; if r.2 then loop E f r.1 else some r.1

inductive Walk (E : List (Edge K)) : Nat → Nat → K → Prop
  | refl (c : Nat) : Walk E c c 0
  | step {c i j : Nat} {L a : K} : Walk E c i L → (i, j, a) ∈ E → Walk E c j (L + a)

/-- every finite distance is realised by a walk from a centre carrying the recorded label;
centres keep a distance `≤ 0` -/
structure Sound (E : List (Edge K)) (isC : Nat → Prop) (lab : Nat → Int) (s : St K) : Prop where
  walk : ∀ j x, s.d j = some x → ∃ c, isC c ∧ Walk E c j x ∧ s.m j = lab c
  centre : ∀ c, isC c → ∃ x, s.d c = some x ∧ x ≤ 0

theorem relax_sound {E : List (Edge K)} {isC : Nat → Prop} {lab : Nat → Int}
    (acc : St K × Bool) (e : Edge K) (he : e ∈ E) (h : Sound E isC lab acc.1) :
    Sound E isC lab (relax acc e).1 := by
  obtain ⟨i, j, a⟩ := e
  unfold relax
  by_cases hlt : ltE (addE (acc.1.d i) a) (acc.1.d j)
  · rw [if_pos hlt]
    cases hdi : acc.1.d i with
    | none => rw [hdi] at hlt; simp [addE, ltE] at hlt
    | some y =>
      refine ⟨?_, ?_⟩
      · intro v x hv
        simp only [upd] at hv ⊢
        by_cases hvj : v = j
        · rw [if_pos hvj] at hv ⊢
          have hx : x = y + a := by simpa [addE] using hv.symm
          obtain ⟨c, hc, hw, hm⟩ := h.walk i y hdi
          exact ⟨c, hc, by rw [hvj, hx]; exact Walk.step hw he, hm⟩
        · rw [if_neg hvj] at hv ⊢
          exact h.walk v x hv
      · intro c hc
        obtain ⟨x, hx, hx0⟩ := h.centre c hc
        simp only [upd]
        by_cases hcj : c = j
        · rw [if_pos hcj]
          subst hcj
          rw [hdi, hx] at hlt
          simp only [addE, Option.map_some, ltE] at hlt
          exact ⟨y + a, rfl, by linarith⟩
        · rw [if_neg hcj]; exact ⟨x, hx, hx0⟩
  · rw [if_neg hlt]; exact h

theorem pass_sound {E : List (Edge K)} {isC : Nat → Prop} {lab : Nat → Int} :
    ∀ (l : List (Edge K)), (∀ e ∈ l, e ∈ E) → ∀ acc : St K × Bool, Sound E isC lab acc.1 →
      Sound E isC lab (l.foldl relax acc).1 := by
  intro l
  induction l with
  | nil => intro _ acc h; exact h
  | cons e es ih =>
    intro hl acc h
    rw [List.foldl_cons]
    exact ih (fun x hx => hl x (by simp [hx])) _ (relax_sound acc e (hl e (by simp)) h)

theorem relax_flag (acc : St K × Bool) (e : Edge K) (h : (relax acc e).2 = false) :
    relax acc e = acc ∧ ¬ ltE (addE (acc.1.d e.1) e.2.2) (acc.1.d e.2.1) := by
  unfold relax at h ⊢
  by_cases hlt : ltE (addE (acc.1.d e.1) e.2.2) (acc.1.d e.2.1)
  · rw [if_pos hlt] at h; simp at h
  · rw [if_neg hlt]; exact ⟨rfl, hlt⟩

theorem relax_sticky (acc : St K × Bool) (e : Edge K) (h : acc.2 = true) :
    (relax acc e).2 = true := by
  unfold relax; split
  · rfl
  · exact h

theorem fold_sticky : ∀ (l : List (Edge K)) (acc : St K × Bool), acc.2 = true →
    (l.foldl relax acc).2 = true := by
  intro l
  induction l with
  | nil => intro acc h; exact h
  | cons e es ih => intro acc h; rw [List.foldl_cons]; exact ih _ (relax_sticky acc e h)

/-- a sweep that reports "no change" left the state alone and found every edge relaxed -/
theorem pass_fixed : ∀ (l : List (Edge K)) (acc : St K × Bool), (l.foldl relax acc).2 = false →
    l.foldl relax acc = acc ∧ ∀ e ∈ l, ¬ ltE (addE (acc.1.d e.1) e.2.2) (acc.1.d e.2.1) := by
  intro l
  induction l with
  | nil => intro acc _; exact ⟨rfl, fun e he => by simp at he⟩
  | cons e es ih =>
    intro acc h
    rw [List.foldl_cons] at h ⊢
    have hflag : (relax acc e).2 = false := by
      by_cases hf : (relax acc e).2 = true
      · rw [fold_sticky es _ hf] at h; exact absurd h (by decide)
      · simpa using hf
    obtain ⟨h1, h2⟩ := relax_flag acc e hflag
    rw [h1] at h ⊢
    obtain ⟨h3, h4⟩ := ih acc h
    refine ⟨h3, ?_⟩
    intro e' he'
    rcases List.mem_cons.1 he' with rfl | he'
    · exact h2
    · exact h4 e' he'

/-- at a fixed point no walk from a centre is shorter than the recorded distance -/
theorem fixed_opt {E : List (Edge K)} {isC : Nat → Prop} {lab : Nat → Int} {s : St K}
    (hS : Sound E isC lab s)
    (hfix : ∀ e ∈ E, ¬ ltE (addE (s.d e.1) e.2.2) (s.d e.2.1))
    {c j : Nat} {L : K} (hc : isC c) (hw : Walk E c j L) : ∃ y, s.d j = some y ∧ y ≤ L := by
  induction hw with
  | refl => exact hS.centre c hc
  | @step i j' L' a _ he ih =>
    obtain ⟨y, hy, hyL⟩ := ih
    have := hfix _ he
    simp only at this
    rw [hy] at this
    cases hdj : s.d j' with
    | none => rw [hdj] at this; simp [addE, ltE] at this
    | some z =>
      rw [hdj] at this
      simp only [addE, Option.map_some, ltE, not_lt] at this
      exact ⟨z, rfl, by linarith⟩

theorem loop_spec {E : List (Edge K)} {isC : Nat → Prop} {lab : Nat → Int} :
    ∀ (fuel : Nat) (s t : St K), Sound E isC lab s → loop E fuel s = some t →
      Sound E isC lab t ∧ ∀ e ∈ E, ¬ ltE (addE (t.d e.1) e.2.2) (t.d e.2.1) := by
  intro fuel
  induction fuel with
  | zero => intro s t _ h; simp [loop] at h
  | succ f ih =>
    intro s t hS h
    simp only [loop] at h
    have hS' : Sound E isC lab (pass E s).1 := pass_sound E (fun _ h => h) (s, false) hS
    by_cases hch : (pass E s).2 = true
    · rw [if_pos hch] at h; exact ih _ t hS' h
    · rw [if_neg hch] at h
      have ht : (pass E s).1 = t := by simpa using h
      have hf : (E.foldl relax (s, false)).2 = false := by simpa [pass] using hch
      obtain ⟨h1, h2⟩ := pass_fixed E (s, false) hf
      have hst : t = s := by rw [← ht]; unfold pass; rw [h1]
      rw [hst]
      exact ⟨hS, h2⟩

/-- **C18, Bellman–Ford**: if the loop exits by itself from the initial state (distance `0` and
own label at the centres, `∞` elsewhere), then `d[j]` is the length of a shortest walk from a
centre to `j` (realised by a centre whose label is `m[j]`), and `∞` exactly when no centre
reaches `j`. -/
theorem bellmanFord_spec {E : List (Edge K)} {isC : Nat → Prop} [DecidablePred isC]
    {lab : Nat → Int} (fuel : Nat) (t : St K)
    (h : loop E fuel ⟨fun v => if isC v then some 0 else none,
      fun v => if isC v then lab v else -1, fun _ => -1⟩ = some t) :
    (∀ j x, t.d j = some x →
      (∃ c, isC c ∧ Walk E c j x ∧ t.m j = lab c) ∧
      ∀ c L, isC c → Walk E c j L → x ≤ L) ∧
    (∀ j, t.d j = none → ∀ c L, isC c → ¬ Walk E c j L) := by
  have h0 : Sound E isC lab (⟨fun v => if isC v then some 0 else none,
      fun v => if isC v then lab v else -1, fun _ => -1⟩ : St K) := by
    refine ⟨?_, ?_⟩
    · intro j x hx
      simp only at hx
      by_cases hj : isC j
      · rw [if_pos hj] at hx
        have : x = 0 := by simpa using hx.symm
        exact ⟨j, hj, by rw [this]; exact Walk.refl j, by simp [hj]⟩
      · rw [if_neg hj] at hx; simp at hx
    · intro c hc; exact ⟨0, by simp [hc], le_refl 0⟩
  obtain ⟨hS, hfix⟩ := loop_spec fuel _ t h0 h
  refine ⟨?_, ?_⟩
  · intro j x hx
    refine ⟨hS.walk j x hx, ?_⟩
    intro c L hc hw
    obtain ⟨y, hy, hyL⟩ := fixed_opt hS hfix hc hw
    rw [hx] at hy
    have : x = y := by simpa using hy
    rw [this]; exact hyL
  · intro j hj c L hc hw
    obtain ⟨y, hy, _⟩ := fixed_opt hS hfix hc hw
    rw [hj] at hy; simp at hy

#print axioms bellmanFord_spec
end PyamgV.BF
