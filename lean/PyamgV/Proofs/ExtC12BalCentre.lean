import PyamgV.Proofs.ExtC12BalKernel

/-! PyamgV (C12, extension E34): the bookkeeping invariant of balanced Lloyd clustering, part 2 —
`center_nodes` (`BalLloyd.centerNodes`) keeps it, leaves the cluster ids and sizes unchanged and moves every
centre inside its own cluster.

Ingredients: the counting sort of `center_nodes` (`Cptr` prefix sums, bucket fill of `C`, local indices `L`)
is correct when the size array is exact; Floyd–Warshall on non-negative weights keeps all entries
non-negative and the diagonal at 0; the selected centre is the old one or a node of the same bucket. -/
namespace PyamgV.BalLloyd
open PyamgV.Bal

/-! ### generic fold lemmas -/

theorem foldlM_range_inv {β : Type} (f : β → Nat → Option β) (Inv : Nat → β → Prop) :
    ∀ (m : Nat) (b0 r : β), Inv 0 b0 →
      (∀ i b b', i < m → Inv i b → f b i = some b' → Inv (i + 1) b') →
      (List.range m).foldlM f b0 = some r → Inv m r := by
  intro m
  induction m with
  | zero =>
    intro b0 r h0 _ hf
    simp only [List.range_zero, List.foldlM_nil] at hf
    injection hf with hf
    subst hf
    exact h0
  | succ m ih =>
    intro b0 r h0 hstep hf
    rw [List.range_succ, List.foldlM_append] at hf
    cases h1 : (List.range m).foldlM f b0 with
    | none => rw [h1] at hf; cases hf
    | some r1 =>
      rw [h1] at hf
      have hI := ih b0 r1 h0 (fun i b b' hi => hstep i b b' (by omega)) h1
      simp only [Option.bind_eq_bind, Option.bind_some, List.foldlM_cons, List.foldlM_nil] at hf
      cases h2 : f r1 m with
      | none => rw [h2] at hf; cases hf
      | some r2 =>
        rw [h2] at hf
        simp only [Option.bind_some] at hf
        injection hf with hf
        subst hf
        exact hstep m r1 r2 (by omega) hI h2

theorem foldl_range_inv {β : Type} (f : β → Nat → β) (Inv : Nat → β → Prop) :
    ∀ (m : Nat) (b0 : β), Inv 0 b0 → (∀ i b, i < m → Inv i b → Inv (i + 1) (f b i)) →
      Inv m ((List.range m).foldl f b0) := by
  intro m
  induction m with
  | zero => intro b0 h0 _; exact h0
  | succ m ih =>
    intro b0 h0 hstep
    rw [List.range_succ, List.foldl_append]
    simp only [List.foldl_cons, List.foldl_nil]
    exact hstep m _ (by omega) (ih b0 h0 (fun i b hi => hstep i b (by omega)))

/-! ### counting -/

theorem cnt_succ (i : Nat) (m : Array Int) (a : Nat) :
    cnt (i + 1) m a = cnt i m a + (if rdI m i = (a : Int) then 1 else 0) := by
  unfold cnt
  rw [Finset.sum_range_succ]

theorem cnt_nonneg (i : Nat) (m : Array Int) (a : Nat) : 0 ≤ cnt i m a := by
  unfold cnt
  apply Finset.sum_nonneg
  intro j _
  split <;> omega

theorem cnt_mono {i n : Nat} (h : i ≤ n) (m : Array Int) (a : Nat) : cnt i m a ≤ cnt n m a := by
  induction n with
  | zero => have : i = 0 := by omega
            subst this; exact le_refl _
  | succ n ih =>
    by_cases hi : i = n + 1
    · subst hi; exact le_refl _
    · have := ih (by omega)
      rw [cnt_succ]
      split <;> omega

theorem cnt_lt {i n : Nat} (h : i < n) (m : Array Int) (a : Nat) (hm : rdI m i = (a : Int)) :
    cnt i m a < cnt n m a := by
  have h1 := cnt_succ i m a
  rw [if_pos hm] at h1
  have h2 := cnt_mono (show i + 1 ≤ n by omega) m a
  omega

/-- `sum_{b<a} s[b]` -/
def pre (s : Array Int) (a : Nat) : Int := ∑ b ∈ Finset.range a, rdI s b

theorem pre_succ (s : Array Int) (a : Nat) : pre s (a + 1) = pre s a + rdI s a := by
  unfold pre
  rw [Finset.sum_range_succ]

theorem pre_mono {s : Array Int} {k : Nat} (hs : ∀ b, b < k → 0 ≤ rdI s b) {a b : Nat} (hab : a ≤ b)
    (hb : b ≤ k) : pre s a ≤ pre s b := by
  induction b with
  | zero => have : a = 0 := by omega
            subst this; exact le_refl _
  | succ b ih =>
    by_cases ha : a = b + 1
    · subst ha; exact le_refl _
    · have := ih (by omega) (by omega)
      rw [pre_succ]
      have := hs b (by omega)
      omega

theorem pre_nonneg {s : Array Int} {k : Nat} (hs : ∀ b, b < k → 0 ≤ rdI s b) {a : Nat} (ha : a ≤ k) :
    0 ≤ pre s a := by
  have := pre_mono hs (Nat.zero_le a) ha
  simpa [pre] using this

theorem prefixSums_spec (s : Array Int) :
    (prefixSums s).size = s.size ∧ ∀ a, a < s.size → rdI (prefixSums s) a = pre s a := by
  have h := foldl_range_inv
    (fun (acc : Array Int × Int) a => (acc.1.push acc.2, acc.2 + rdI s a))
    (fun i acc => acc.1.size = i ∧ acc.2 = pre s i ∧ ∀ a, a < i → rdI acc.1 a = pre s a)
    s.size (#[], 0) ⟨rfl, by simp [pre], fun a ha => by omega⟩
    (by
      intro i b _ ⟨h1, h2, h3⟩
      refine ⟨by simp [h1], by simp only; rw [h2, pre_succ], ?_⟩
      intro a ha
      simp only [rdI, Array.getD_eq_getD_getElem?, Array.getElem?_push, h1]
      by_cases hai : a = i
      · subst hai; simp [h2]
      · have := h3 a (by omega)
        simp only [rdI, Array.getD_eq_getD_getElem?] at this
        rw [if_neg hai]; exact this)
  unfold prefixSums
  exact ⟨h.1, h.2.2⟩

/-! ### the bucket fill of `C` -/

theorem rdU_set (a : OArr) (i j : Nat) (v : Option Nat) :
    rdU (a.setIfInBounds i v) j = if i = j ∧ i < a.size then v else rdU a j := getD_set a i j v none

theorem rdU_lt {a : OArr} {i g : Nat} (h : rdU a i = some g) : i < a.size := by
  by_contra hn
  simp [rdU, Array.getD_eq_getD_getElem?, Array.getElem?_eq_none (Nat.le_of_not_lt hn)] at h

def slotPos (s : Array Int) (a t : Nat) : Nat := (pre s a + (t : Int)).toNat

structure FInv (n k : Nat) (m s : Array Int) (i : Nat) (acc : Array Int × OArr) : Prop where
  sz : acc.1.size = k
  ptr : ∀ a, a < k → rdI acc.1 a = pre s a + cnt i m a
  slot : ∀ (a t : Nat), a < k → (t : Int) < cnt i m a →
    ∃ g, rdU acc.2 (slotPos s a t) = some g ∧ g < i ∧ rdI m g = (a : Int) ∧ cnt g m a = (t : Int)
  csz : acc.2.size = n

theorem fillStep_inv {n k : Nat} {m s : Array Int} (hs : ∀ a, a < k → rdI s a = cnt n m a)
    {i : Nat} (hi : i < n) {acc acc' : Array Int × OArr} (hI : FInv n k m s i acc)
    (hf : fillStep m acc i = some acc') : FInv n k m s (i + 1) acc' := by
  unfold fillStep at hf
  cases h1 : idx (rdI m i) acc.1.size with
  | none => rw [h1] at hf; cases hf
  | some a =>
    rw [h1] at hf
    simp only at hf
    cases h2 : idx (rdI acc.1 a) acc.2.size with
    | none => rw [h2] at hf; cases hf
    | some pos =>
      rw [h2] at hf
      injection hf with hf
      subst hf
      obtain ⟨hma, hak⟩ := idx_some h1
      rw [hI.sz] at hak
      obtain ⟨hpa, hps⟩ := idx_some h2
      rw [hI.ptr a hak] at hpa
      have hsnn : ∀ b, b < k → 0 ≤ rdI s b := fun b hb => by rw [hs b hb]; exact cnt_nonneg n m b
      have hc0 := cnt_nonneg i m a
      have hlt := cnt_lt hi m a hma
      refine ⟨by simp [hI.sz], ?_, ?_, by simp [hI.csz]⟩
      · intro b hb
        simp only [rdI_wrI, hI.sz]
        rw [cnt_succ, hma]
        by_cases hab : a = b
        · subst hab
          rw [if_pos ⟨rfl, hak⟩, if_pos rfl, hI.ptr a hak]; omega
        · rw [if_neg (fun h => hab h.1), if_neg (by omega), hI.ptr b hb]; omega
      · intro b t hb ht
        rw [cnt_succ, hma] at ht
        simp only [rdU_set]
        by_cases hnew : b = a ∧ (t : Int) = cnt i m a
        · obtain ⟨rfl, ht0⟩ := hnew
          have hpe : pos = slotPos s b t := by unfold slotPos; omega
          rw [if_pos ⟨hpe, hps⟩]
          exact ⟨i, rfl, by omega, hma, ht0.symm⟩
        · have ht' : (t : Int) < cnt i m b := by
            by_cases hba : b = a
            · subst hba
              rw [if_pos rfl] at ht
              have : ¬ (t : Int) = cnt i m b := fun h => hnew ⟨rfl, h⟩
              omega
            · rw [if_neg (by omega)] at ht; omega
          obtain ⟨g, g1, g2, g3, g4⟩ := hI.slot b t hb ht'
          have hne : ¬ (pos = slotPos s b t ∧ pos < acc.2.size) := by
            rintro ⟨hpe, _⟩
            unfold slotPos at hpe
            have hpb := pre_nonneg hsnn (show b ≤ k by omega)
            have hpa' := pre_nonneg hsnn (show a ≤ k by omega)
            have hcb := cnt_mono (show i ≤ n by omega) m b
            rcases Nat.lt_trichotomy b a with hlt' | heq | hgt
            · have h3 := pre_mono hsnn (show b + 1 ≤ a by omega) (show a ≤ k by omega)
              rw [pre_succ, hs b hb] at h3
              omega
            · subst heq
              have : ¬ (t : Int) = cnt i m b := fun h => hnew ⟨rfl, h⟩
              omega
            · have h3 := pre_mono hsnn (show a + 1 ≤ b by omega) (show b ≤ k by omega)
              rw [pre_succ, hs a hak] at h3
              omega
          rw [if_neg hne]
          exact ⟨g, g1, by omega, g3, g4⟩

/-- what `center_nodes` needs of `C`: slot `t` of bucket `a` holds the `t`-th node of cluster `a` -/
def Buckets (n k : Nat) (m s cptr : Array Int) (cc : OArr) : Prop :=
  ∀ (a t : Nat), a < k → (t : Int) < rdI s a →
    ∃ g, globOf cptr cc a t = some g ∧ g < n ∧ rdI m g = (a : Int) ∧ cnt g m a = (t : Int)

theorem fill_spec {n k : Nat} {m s : Array Int} (hss : s.size = k) (hs : ∀ a, a < k → rdI s a = cnt n m a)
    {cc : OArr} (hcc : cc.size = n) {f : Array Int × OArr}
    (hf : fill n m (prefixSums s) cc = some f) : Buckets n k m s (prefixSums s) f.2 ∧ f.2.size = n := by
  obtain ⟨p1, p2⟩ := prefixSums_spec s
  rw [hss] at p1 p2
  have h0 : FInv n k m s 0 (prefixSums s, cc) := by
    refine ⟨p1, fun a ha => by rw [p2 a ha]; simp [cnt], ?_, hcc⟩
    intro a t _ ht
    simp [cnt] at ht
    omega
  have hI := foldlM_range_inv (fillStep m) (fun i acc => i ≤ n → FInv n k m s i acc) n (prefixSums s, cc) f
    (fun _ => h0) (fun i b b' hi hb hstep _ => fillStep_inv hs hi (hb (by omega)) hstep) hf (le_refl n)
  refine ⟨?_, hI.csz⟩
  intro a t ha ht
  rw [hs a ha] at ht
  obtain ⟨g, g1, g2, g3, g4⟩ := hI.slot a t ha ht
  refine ⟨g, ?_, g2, g3, g4⟩
  have hsnn : ∀ b, b < k → 0 ≤ rdI s b := fun b hb => by rw [hs b hb]; exact cnt_nonneg n m b
  have hpa := pre_nonneg hsnn (show a ≤ k by omega)
  have hlt := rdU_lt g1
  unfold globOf
  have : idx (rdI (prefixSums s) a + (t : Int)) f.2.size = some (slotPos s a t) := by
    unfold idx slotPos
    rw [p2 a ha]
    unfold slotPos at hlt
    rw [if_pos ⟨by omega, hlt⟩]
  rw [this]
  exact g1

/-! ### the local indices `L` -/

theorem buckets_inj {n k : Nat} {m s cptr : Array Int} {cc : OArr} (hB : Buckets n k m s cptr cc)
    {a a' t t' g : Nat} (ha : a < k) (ha' : a' < k) (ht : (t : Int) < rdI s a) (ht' : (t' : Int) < rdI s a')
    (h1 : globOf cptr cc a t = some g) (h2 : globOf cptr cc a' t' = some g) : a = a' ∧ t = t' := by
  obtain ⟨g1, e1, _, m1, c1⟩ := hB a t ha ht
  obtain ⟨g2, e2, _, m2, c2⟩ := hB a' t' ha' ht'
  rw [h1] at e1; rw [h2] at e2
  injection e1 with e1; injection e2 with e2
  subst e1; subst e2
  have : a = a' := by omega
  subst this
  exact ⟨rfl, by omega⟩

/-- `L[C[Cptr[a] + t]] = t` -/
def LOK (k : Nat) (s cptr : Array Int) (cc l : OArr) : Prop :=
  ∀ (a t : Nat), a < k → (t : Int) < rdI s a → ∀ g, globOf cptr cc a t = some g → rdU l g = some t

theorem setL_spec {n k : Nat} {m s cptr : Array Int} {cc l l' : OArr} (hss : s.size = k)
    (hB : Buckets n k m s cptr cc) (hf : setL cptr s cc l = some l') :
    LOK k s cptr cc l' ∧ l'.size = l.size := by
  unfold setL at hf
  rw [hss] at hf
  have h := foldlM_range_inv _
    (fun a0 (l1 : OArr) => a0 ≤ k → l1.size = l.size ∧ ∀ (a t : Nat), a < a0 → (t : Int) < rdI s a →
      ∀ g, globOf cptr cc a t = some g → rdU l1 g = some t) k l l'
    (fun _ => ⟨rfl, fun a t ha => by omega⟩) ?_ hf (le_refl k)
  · exact ⟨fun a t ha ht g hg => h.2 a t ha ht g hg, h.1⟩
  · intro a0 b b' ha0 hb hstep _
    obtain ⟨hb1, hb2⟩ := hb (by omega)
    have h2 := foldlM_range_inv _
      (fun T (l1 : OArr) => l1.size = l.size ∧
        (∀ (a t : Nat), a < a0 → (t : Int) < rdI s a → ∀ g, globOf cptr cc a t = some g → rdU l1 g = some t) ∧
        (∀ (t : Nat), t < T → (t : Int) < rdI s a0 → ∀ g, globOf cptr cc a0 t = some g → rdU l1 g = some t))
      (rdI s a0).toNat b b' ⟨hb1, hb2, fun t ht => by omega⟩ ?_ hstep
    · refine ⟨h2.1, ?_⟩
      intro a t ha ht g hg
      by_cases haa : a = a0
      · subst haa
        exact h2.2.2 t (by omega) ht g hg
      · exact h2.2.1 a t (by omega) ht g hg
    · intro T l1 l2 hT ⟨i1, i2, i3⟩ hst
      cases hg : globOf cptr cc a0 T with
      | none => rw [hg] at hst; cases hst
      | some g0 =>
        rw [hg] at hst
        simp only at hst
        split at hst
        · rename_i hgl
          injection hst with hst
          subst hst
          have hTs : (T : Int) < rdI s a0 := by omega
          refine ⟨by simp [i1], ?_, ?_⟩
          · intro a t ha ht g hg'
            rw [rdU_set]
            by_cases hgg : g0 = g
            · subst hgg
              have := (buckets_inj hB (by omega) ha0 ht hTs hg' hg).1
              omega
            · rw [if_neg (fun h => hgg h.1)]; exact i2 a t ha ht g hg'
          · intro t ht hts g hg'
            rw [rdU_set]
            by_cases hgg : g0 = g
            · subst hgg
              have := (buckets_inj hB ha0 ha0 hts hTs hg' hg).2
              subst this
              rw [if_pos ⟨rfl, hgl⟩]
            · rw [if_neg (fun h => hgg h.1)]
              by_cases htT : t = T
              · subst htT
                rw [hg] at hg'
                injection hg' with hg'
                exact absurd hg' hgg
              · exact i3 t (by omega) hts g hg'
        · cases hst

/-! ### Floyd–Warshall keeps entries non-negative and the diagonal at 0 -/

theorem foldlM_list_inv {α β : Type} (f : β → α → Option β) (P : β → Prop) :
    ∀ (l : List α) (b r : β), P b → (∀ x ∈ l, ∀ b b', P b → f b x = some b' → P b') →
      l.foldlM f b = some r → P r := by
  intro l
  induction l with
  | nil =>
    intro b r hb _ hf
    simp only [List.foldlM_nil] at hf
    injection hf with hf
    subst hf
    exact hb
  | cons x xs ih =>
    intro b r hb hstep hf
    rw [List.foldlM_cons] at hf
    cases h1 : f b x with
    | none => rw [h1] at hf; cases hf
    | some b1 =>
      rw [h1] at hf
      exact ih b1 r (hstep x (by simp) b b1 hb h1) (fun y hy => hstep y (by simp [hy])) hf

def AllNN (D : Array (Option Rat)) : Prop := ∀ i x, rdO D i = some x → 0 ≤ x
def Diag0 (D : Array (Option Rat)) (N : Nat) : Prop := ∀ t, t < N → rdO D (t * N + t) = some 0

theorem idx2_inj {N i j t t' : Nat} (hj : j < N) (ht : t' < N) (h : i * N + j = t * N + t') :
    i = t ∧ j = t' := by
  rcases Nat.lt_trichotomy i t with hlt | heq | hgt
  · have := Nat.mul_le_mul_right N (show i + 1 ≤ t by omega)
    rw [Nat.succ_mul] at this
    omega
  · subst heq; exact ⟨rfl, by omega⟩
  · have := Nat.mul_le_mul_right N (show t + 1 ≤ i by omega)
    rw [Nat.succ_mul] at this
    omega

theorem entry_mem (A : Csr) {i jj : Nat} (hi : i < A.n) (hjj : jj ∈ A.jjs i) :
    (i, rdN A.aj jj, rdQ A.ax jj) ∈ A.entries := by
  unfold Csr.entries
  exact List.mem_flatMap.2 ⟨i, List.mem_range.2 hi, List.mem_map.2 ⟨jj, hjj, rfl⟩⟩

theorem allNN_wr {D : Array (Option Rat)} (h : AllNN D) (i : Nat) {v : Rat} (hv : 0 ≤ v) :
    AllNN (wrO D i (some v)) := by
  intro j x hx
  rw [rdO_wrO] at hx
  split at hx
  · injection hx with hx; rw [← hx]; exact hv
  · exact h j x hx

theorem fwEdges_nn {A : Csr} (hW : ∀ e ∈ A.entries, 0 ≤ e.2.2) {glob : Nat → Option Nat} {l : OArr}
    {m : Array Int} {a : Int} {N : Nat} {fw fw' : FW} (h0 : AllNN fw.D)
    (hf : fwEdges A glob l m a N fw = some fw') : AllNN fw'.D := by
  unfold fwEdges at hf
  refine foldlM_list_inv _ (fun fw => AllNN fw.D) _ fw fw' h0 ?_ hf
  intro _i _ b b' hb hst
  cases hg : glob _i with
  | none => rw [hg] at hst; cases hst
  | some i =>
    rw [hg] at hst
    simp only at hst
    split at hst
    · rename_i hin
      refine foldlM_list_inv _ (fun fw => AllNN fw.D) _ b b' hb ?_ hst
      intro jj hjj c c' hc hst2
      unfold fwEdge at hst2
      simp only at hst2
      split at hst2
      · cases hl : rdU l (rdN A.aj jj) with
        | none => rw [hl] at hst2; cases hst2
        | some _j =>
          rw [hl] at hst2
          simp only at hst2
          split at hst2
          · injection hst2 with hst2
            subst hst2
            exact allNN_wr hc _ (hW _ (entry_mem A hin hjj))
          · cases hst2
      · injection hst2 with hst2
        subst hst2
        exact hc
    · cases hst

theorem fwDiag_spec {glob : Nat → Option Nat} {N : Nat} {fw fw' : FW} (h0 : AllNN fw.D)
    (hf : fwDiag glob N fw = some fw') : AllNN fw'.D ∧ Diag0 fw'.D N := by
  unfold fwDiag at hf
  have h := foldlM_range_inv _
    (fun T (fw : FW) => AllNN fw.D ∧ ∀ t, t < T → rdO fw.D (t * N + t) = some 0) N fw fw'
    ⟨h0, fun t ht => by omega⟩ ?_ hf
  · exact h
  · intro T b b' hT ⟨i1, i2⟩ hst
    cases hg : glob T with
    | none => rw [hg] at hst; cases hst
    | some i =>
      rw [hg] at hst
      simp only at hst
      split at hst
      · rename_i hlt
        injection hst with hst
        subst hst
        refine ⟨allNN_wr i1 _ (le_refl 0), ?_⟩
        intro t ht
        show rdO (wrO b.D (T * N + T) (some 0)) (t * N + t) = some 0
        rw [rdO_wrO]
        by_cases htT : t = T
        · subst htT; rw [if_pos ⟨rfl, hlt.1⟩]
        · rw [if_neg (fun h => htT (idx2_inj hT (by omega) h.1).1.symm)]
          exact i2 t (by omega)
      · cases hst

theorem fwRelax_spec {tol : Rat} (h0 : 0 < tol) {N k i j : Nat} (hj : j < N) {fw : FW}
    (h : AllNN fw.D ∧ Diag0 fw.D N) : AllNN (fwRelax tol N k i fw j).D ∧ Diag0 (fwRelax tol N k i fw j).D N := by
  unfold fwRelax
  simp only
  split
  · rename_i hgt
    cases hik : rdO fw.D (i * N + k) with
    | none => rw [hik] at hgt; cases hd : rdO fw.D (i * N + j) <;> rw [hd] at hgt <;> simp [addO, gtTol] at hgt
    | some x =>
      cases hkj : rdO fw.D (k * N + j) with
      | none => rw [hik, hkj] at hgt; cases hd : rdO fw.D (i * N + j) <;> rw [hd] at hgt <;> simp [addO, gtTol] at hgt
      | some y =>
        have hx := h.1 _ x hik
        have hy := h.1 _ y hkj
        rw [hik, hkj] at hgt
        simp only [addO]
        refine ⟨allNN_wr h.1 _ (by linarith), ?_⟩
        intro t ht
        show rdO (wrO fw.D (i * N + j) (some (x + y))) (t * N + t) = some 0
        rw [rdO_wrO]
        rw [if_neg]
        · exact h.2 t ht
        · rintro ⟨he, _⟩
          obtain ⟨e1, e2⟩ := idx2_inj hj ht he
          subst e1; subst e2
          rw [h.2 _ ht] at hgt
          simp only [addO, gtTol, decide_eq_true_eq] at hgt
          linarith
  · exact h

theorem fwMain_spec {tol : Rat} (h0 : 0 < tol) {N : Nat} {fw : FW} (h : AllNN fw.D ∧ Diag0 fw.D N) :
    AllNN (fwMain tol N fw).D ∧ Diag0 (fwMain tol N fw).D N := by
  unfold fwMain
  refine foldl_range_inv _ (fun _ (fw : FW) => AllNN fw.D ∧ Diag0 fw.D N) N fw h ?_
  intro k b _ hb
  refine foldl_range_inv _ (fun _ (fw : FW) => AllNN fw.D ∧ Diag0 fw.D N) N b hb ?_
  intro i b2 _ hb2
  refine foldl_range_inv _ (fun _ (fw : FW) => AllNN fw.D ∧ Diag0 fw.D N) N b2 hb2 ?_
  intro j b3 hj hb3
  exact fwRelax_spec h0 hj hb3

theorem fwRun_spec {tol : Rat} (h0 : 0 < tol) {A : Csr} (hW : ∀ e ∈ A.entries, 0 ≤ e.2.2)
    {glob : Nat → Option Nat} {l : OArr} {m : Array Int} {a : Int} {N maxsize : Nat} {fw : FW}
    (hf : fwRun tol A glob l m a N maxsize = some fw) : AllNN fw.D ∧ Diag0 fw.D N := by
  unfold fwRun at hf
  split at hf
  · cases h1 : fwEdges A glob l m a N ⟨Array.replicate (maxsize * maxsize) none, Array.replicate (maxsize * maxsize) (-1)⟩ with
    | none => rw [h1] at hf; cases hf
    | some fw1 =>
      rw [h1] at hf
      simp only at hf
      cases h2 : fwDiag glob N fw1 with
      | none => rw [h2] at hf; cases hf
      | some fw2 =>
        rw [h2] at hf
        injection hf with hf
        subst hf
        have hnn0 : AllNN (Array.replicate (maxsize * maxsize) (none : Option Rat)) := by
          intro i x hx
          simp only [rdO, Array.getD_eq_getD_getElem?, Array.getElem?_replicate] at hx
          split at hx <;> cases hx
        exact fwMain_spec h0 (fwDiag_spec (fwEdges_nn hW hnn0 h1) h2)
  · cases hf

/-! ### selection and the update of `d, p, pc` -/

theorem select_spec {tol : Rat} {q : Nat → Option Rat} {glob : Nat → Option Nat} {l : OArr} {N c0 i : Nat}
    (hf : select tol q glob l N c0 = some i) : i = c0 ∨ ∃ t, t < N ∧ glob t = some i := by
  unfold select at hf
  refine foldlM_range_inv _ (fun _ i => i = c0 ∨ ∃ t, t < N ∧ glob t = some i) N c0 i (Or.inl rfl) ?_ hf
  intro T b b' hT hb hst
  cases hl : rdU l b with
  | none => rw [hl] at hst; cases hst
  | some li =>
    rw [hl] at hst
    simp only at hst
    split at hst
    · split at hst
      · exact Or.inr ⟨T, hT, hst⟩
      · injection hst with hst; subst hst; exact hb
    · cases hst

theorem moveStep_spec {fw : FW} {glob : Nat → Option Nat} {N _i _j : Nat} {st st' : St}
    (hf : moveStep fw glob N _i st _j = some st') :
    ∃ j, glob _j = some j ∧ j < st.d.size ∧ st'.m = st.m ∧ st'.s = st.s ∧
      st'.d = wrO st.d j (rdO fw.D (_i * N + _j)) ∧ st'.p.size = st.p.size ∧ st'.pc.size = st.pc.size := by
  unfold moveStep at hf
  cases hg : glob _j with
  | none => rw [hg] at hf; cases hf
  | some j =>
    rw [hg] at hf
    simp only at hf
    split at hf
    · rename_i hlt
      cases h1 : idx (rdI st.p j) st.pc.size with
      | none => rw [h1] at hf; cases hf
      | some kp =>
        rw [h1] at hf
        simp only at hf
        split at hf
        · cases hf
        · injection hf with hf
          subst hf
          exact ⟨j, rfl, hlt.1, rfl, rfl, rfl, by simp, by simp⟩
    · cases hf

structure MInv (fw : FW) (glob : Nat → Option Nat) (N _i : Nat) (st : St) (T : Nat) (st1 : St) : Prop where
  em : st1.m = st.m
  es : st1.s = st.s
  sd : st1.d.size = st.d.size
  sp : st1.p.size = st.p.size
  spc : st1.pc.size = st.pc.size
  dnn : ∀ j x, rdO st1.d j = some x → 0 ≤ x
  same : ∀ v, (∀ t, t < T → glob t ≠ some v) → rdO st1.d v = rdO st.d v
  wrote : ∀ t, t < T → ∀ g, glob t = some g → rdO st1.d g = rdO fw.D (_i * N + t)

theorem moveCentre_spec {fw : FW} (hD : AllNN fw.D) {glob : Nat → Option Nat} {N _i : Nat}
    (hinj : ∀ t t' g, t < N → t' < N → glob t = some g → glob t' = some g → t = t')
    {st st' : St} (hdnn : ∀ j x, rdO st.d j = some x → 0 ≤ x)
    (hf : moveCentre fw glob N _i st = some st') : MInv fw glob N _i st N st' := by
  unfold moveCentre at hf
  refine foldlM_range_inv _ (fun T st1 => MInv fw glob N _i st T st1) N st st'
    ⟨rfl, rfl, rfl, rfl, rfl, hdnn, fun _ _ => rfl, fun t ht => by omega⟩ ?_ hf
  intro T b b' hT hb hst
  obtain ⟨j, j1, j2, j3, j4, j5, j6, j7⟩ := moveStep_spec hst
  refine ⟨j3.trans hb.em, j4.trans hb.es, by rw [j5, size_wrO]; exact hb.sd, j6.trans hb.sp,
    j7.trans hb.spc, ?_, ?_, ?_⟩
  · intro v x hx
    rw [j5, rdO_wrO] at hx
    split at hx
    · exact hD _ x hx
    · exact hb.dnn v x hx
  · intro v hv
    rw [j5, rdO_wrO, if_neg]
    · exact hb.same v (fun t ht => hv t (by omega))
    · rintro ⟨he, _⟩
      subst he
      exact hv T (by omega) j1
  · intro t ht g hg
    rw [j5, rdO_wrO]
    by_cases htT : t = T
    · subst htT
      rw [j1] at hg
      injection hg with hg
      subst hg
      rw [if_pos ⟨rfl, j2⟩]
    · rw [if_neg]
      · exact hb.wrote t (by omega) g hg
      · rintro ⟨he, _⟩
        subst he
        exact htT (hinj t T j (by omega) hT hg j1)

/-! ### one cluster, all clusters -/

theorem rdN_set (c : Array Nat) (a b v : Nat) :
    rdN (c.setIfInBounds a v) b = if a = b ∧ a < c.size then v else rdN c b := getD_set c a b v 0

theorem clusterStep_spec {tol : Rat} (h0 : 0 < tol) {A : Csr} (hW : ∀ e ∈ A.entries, 0 ≤ e.2.2)
    {maxsize k : Nat} {m0 s0 cptr : Array Int} {cc l : OArr}
    (hB : Buckets A.n k m0 s0 cptr cc) (hL : LOK k s0 cptr cc l)
    {acc acc' : St × Array Nat × Bool} {a : Nat} (ha : a < k)
    (hK : KInv A.n k acc.2.1 acc.1) (hm : acc.1.m = m0) (hs : acc.1.s = s0)
    (hf : clusterStep tol A maxsize cptr cc l acc a = some acc') :
    KInv A.n k acc'.2.1 acc'.1 ∧ acc'.1.m = m0 ∧ acc'.1.s = s0 := by
  unfold clusterStep at hf
  simp only at hf
  cases h1 : fwRun tol A (globOf cptr cc a) l acc.1.m (Int.ofNat a) (rdI acc.1.s a).toNat maxsize with
  | none => rw [h1] at hf; cases hf
  | some fw =>
    rw [h1] at hf
    simp only at hf
    cases h2 : select tol (qOf fw.D (rdI acc.1.s a).toNat) (globOf cptr cc a) l (rdI acc.1.s a).toNat
        (rdN acc.2.1 a) with
    | none => rw [h2] at hf; cases hf
    | some i =>
      rw [h2] at hf
      simp only at hf
      split at hf
      · injection hf with hf
        subst hf
        exact ⟨hK, hm, hs⟩
      · rename_i hne
        cases h3 : rdU l i with
        | none => rw [h3] at hf; cases hf
        | some _i =>
          rw [h3] at hf
          simp only at hf
          cases h4 : moveCentre fw (globOf cptr cc a) (rdI acc.1.s a).toNat _i acc.1 with
          | none => rw [h4] at hf; cases hf
          | some st' =>
            rw [h4] at hf
            injection hf with hf
            subst hf
            simp only
            obtain ⟨hnn, hdiag⟩ := fwRun_spec h0 hW h1
            have hN : ∀ t : Nat, t < (rdI acc.1.s a).toNat → (t : Int) < rdI s0 a := by
              intro t ht; rw [← hs]; omega
            have hinj : ∀ t t' g, t < (rdI acc.1.s a).toNat → t' < (rdI acc.1.s a).toNat →
                globOf cptr cc a t = some g → globOf cptr cc a t' = some g → t = t' :=
              fun t t' g ht ht' e1 e2 => (buckets_inj hB ha ha (hN t ht) (hN t' ht') e1 e2).2
            have hM := moveCentre_spec hnn hinj hK.dnn h4
            obtain ⟨t0, ht0, hg0⟩ : ∃ t, t < (rdI acc.1.s a).toNat ∧ globOf cptr cc a t = some i := by
              rcases select_spec h2 with h | h
              · exact absurd h hne
              · exact h
            obtain ⟨g, e1, gn, gm, _⟩ := hB a t0 ha (hN t0 ht0)
            rw [hg0] at e1
            injection e1 with e1
            subst e1
            have hli := hL a t0 ha (hN t0 ht0) i hg0
            rw [h3] at hli
            injection hli with hli
            subst hli
            refine ⟨⟨hM.sd.trans hK.sd, by rw [hM.em]; exact hK.sm, hM.sp.trans hK.sp, hM.spc.trans hK.spc,
              by rw [hM.es]; exact hK.ss, by rw [Array.size_setIfInBounds]; exact hK.sc,
              by rw [hM.em]; exact hK.ids, by rw [hM.em, hM.es]; exact hK.cnt, hM.dnn, ?_⟩,
              hM.em.trans hm, hM.es.trans hs⟩
            intro b hb
            rw [rdN_set, hM.em]
            by_cases hab : a = b
            · subst hab
              rw [if_pos ⟨rfl, by rw [hK.sc]; exact ha⟩]
              refine ⟨gn, ?_, by rw [hm]; exact gm⟩
              rw [hM.wrote _i ht0 i hg0]
              exact hdiag _i ht0
            · rw [if_neg (fun h => hab h.1)]
              obtain ⟨c1, c2, c3⟩ := hK.cen b hb
              refine ⟨c1, ?_, c3⟩
              rw [hM.same _ ?_]
              · exact c2
              · intro t ht hgt
                obtain ⟨g', e1, _, gm', _⟩ := hB a t ha (hN t ht)
                rw [hgt] at e1
                injection e1 with e1
                subst e1
                rw [hm] at c3
                omega

/-- **`center_nodes` keeps the bookkeeping invariant**: cluster ids and sizes are untouched, every
(possibly moved) centre has distance 0 and lies in the cluster it names -/
theorem centerNodes_spec {tol : Rat} (h0 : 0 < tol) {A : Csr} (hW : ∀ e ∈ A.entries, 0 ≤ e.2.2)
    {maxsize k : Nat} {x y : LSt} {ch : Bool} (hK : KInv A.n k x.c x.st) (hcc : x.cc.size = A.n)
    (hf : centerNodes tol A maxsize x = some (y, ch)) :
    KInv A.n k y.c y.st ∧ y.st.m = x.st.m ∧ y.cc.size = A.n := by
  unfold centerNodes at hf
  split at hf
  · simp only at hf
    cases h1 : fill A.n x.st.m (prefixSums x.st.s) x.cc with
    | none => rw [h1] at hf; cases hf
    | some f =>
      rw [h1] at hf
      simp only at hf
      cases h2 : setL (prefixSums x.st.s) x.st.s f.2 x.l with
      | none => rw [h2] at hf; cases hf
      | some l =>
        rw [h2] at hf
        simp only at hf
        cases h3 : (List.range x.c.size).foldlM
            (clusterStep tol A maxsize (prefixSums x.st.s) f.2 l) (x.st, x.c, false) with
        | none => rw [h3] at hf; cases hf
        | some r =>
          rw [h3] at hf
          injection hf with hf
          injection hf with hf1 hf2
          subst hf1
          simp only
          obtain ⟨hB, hfs⟩ := fill_spec hK.ss hK.cnt hcc h1
          obtain ⟨hL, _⟩ := setL_spec hK.ss hB h2
          rw [hK.sc] at h3
          have h := foldlM_range_inv _
            (fun _ (acc : St × Array Nat × Bool) => KInv A.n k acc.2.1 acc.1 ∧ acc.1.m = x.st.m ∧ acc.1.s = x.st.s)
            k (x.st, x.c, false) r ⟨hK, rfl, rfl⟩
            (fun a b b' ha hb hst => clusterStep_spec h0 hW hB hL ha hb.1 hb.2.1 hb.2.2 hst) h3
          exact ⟨h.1, h.2.1, hfs⟩
  · cases hf

end PyamgV.BalLloyd
