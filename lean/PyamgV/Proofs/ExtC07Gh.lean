import PyamgV.Proofs.ExtC07Fgm

/-! PyamgV (C07, extension E11): **GMRES with Householder orthogonalisation** -- the executable model `ghStep` of
one cycle of `pyamg/krylov/_gmres_householder.py` (`Model/ExtC07Hh.lean`: the same Householder--Arnoldi process as
FGMRES with `pre = id`, operator `MA`, start residual `M (b − A x₀)`, and the update computed by the Horner scheme
`householder_hornerscheme`), as another orthonormal-basis instance of the Givens argument.

`hornerO_eq`: the Horner scheme returns `Σ_j y_j v_j`, `v_j = P_0 ⋯ P_j E_j`.
`gmres_hh_optimal`: after `m + 1 < n` inner iterations the recorded iterate minimises the 2-norm of the
preconditioned residual over `x₀ + span{v_0 … v_m}`. -/
namespace PyamgV.C07
open Finset

variable {K : Type} [Field K] [LinearOrder K] [IsStrictOrderedRing K]
variable {V : Type} [AddCommGroup V] [Module K V]
variable (A AH M : V →ₗ[K] V) (e : EForm K V) (E : Nat → V) (sqrt : K → K) (n : Nat) (b x0 : V)

theorem hhL_append_list : ∀ (l1 l2 : List V), hhL e (l1 ++ l2) = (hhL e l2).comp (hhL e l1)
  | [], _ => rfl
  | w :: l1, l2 => by
    simp only [List.cons_append, hhL]
    rw [hhL_append_list l1 l2]; rfl

/-- the Horner scheme, in closed form -/
theorem hornerO_eq : ∀ (ws : List V) (ys : List K) (j : Nat), ys.length ≤ ws.length →
    hornerO (HOps.ofModule A AH M e E) (0 : V) j ws ys =
      ∑ i ∈ range ys.length, F ys i • hhL e (ws.take (i + 1)).reverse (E (j + i))
  | [], [], _, _ => by simp [hornerO]
  | [], _ :: _, _, h => by simp at h
  | _ :: _, [], _, _ => by simp [hornerO]
  | w :: ws, y :: ys, j, h => by
    have ih := hornerO_eq ws ys (j + 1) (by simpa using h)
    simp only [hornerO]
    have ho : (HOps.ofModule A AH M e E).o = Ops.ofModule A AH M e := rfl
    have hadd : ∀ u v : V, (HOps.ofModule A AH M e E).o.add u v = u + v := fun _ _ => rfl
    have hsm : ∀ (c : K) (v : V), (HOps.ofModule A AH M e E).o.smul c v = c • v := fun _ _ => rfl
    have hbas : (HOps.ofModule A AH M e E).basis j = E j := rfl
    rw [hadd, hsm, hbas, ho, reflO_eq, ih, map_add, map_sum, List.length_cons, Finset.sum_range_succ']
    simp only [F, List.getD_cons_succ, List.getD_cons_zero, List.take_succ_cons, List.reverse_cons, map_smul]
    congr 1
    · refine Finset.sum_congr rfl (fun i _ => ?_)
      rw [hhL_append]
      simp only [LinearMap.comp_apply]
      rw [show j + 1 + i = j + (i + 1) by omega]

variable {e E} in
/-- by the leading zeros, `v_i = P_0 ⋯ P_i E_i` does not depend on the later reflectors -/
theorem hhL_take_eq {B : V →ₗ[K] V} {k : Nat} {β : K} {r : V} {ws zs : List V} {cols : List (List K)}
    (h : HhInv e E B k β r ws zs cols) (i : Nat) (_hi : i ≤ k) :
    hhL e (ws.take (i + 1)).reverse (E i) = hhL e ws.reverse (E i) := by
  conv_rhs => rw [← List.take_append_drop (i + 1) ws, List.reverse_append, hhL_append_list]
  simp only [LinearMap.comp_apply]
  congr 1
  symm
  apply hhL_fix
  intro w hw
  rw [List.mem_reverse] at hw
  obtain ⟨d, hd, rfl⟩ := List.getElem_of_mem hw
  rw [List.getElem_drop, e.symm]
  have hlen : i + 1 + d < ws.length := by
    rw [List.length_drop] at hd; omega
  have := h.lead (i + 1 + d) i (by rw [h.lws] at hlen; omega) (by omega)
  rwa [List.getD_eq_getElem _ _ hlen] at this

/-- the states of the GMRES(Householder) model over the module -/
def ghSeq (k : Nat) : HhSt K V :=
  iter (ghStep (HOps.ofModule A AH M e E) sqrt sgnK nzK n x0) k
    (hhInit (HOps.ofModule A AH M e E) sqrt sgnK (M (b - A x0)))

theorem gmresHh_eq (k : Nat) :
    gmresHh (HOps.ofModule A AH M e E) sqrt sgnK nzK n b x0 k = (ghSeq A AH M e E sqrt n b x0 k).xs := rfl

local notation "St" => ghSeq A AH M e E sqrt n b x0

/-- `−beta` of the code -/
def ghBeta : K := -(sgnK (e.a (E 0) (M (b - A x0))) * sqrt (e.a (M (b - A x0)) (M (b - A x0))))

variable (hdef : ∀ v, e.a v v = 0 → v = 0) (hsq : ∀ a, 0 ≤ a → sqrt a * sqrt a = a) (hsq0 : ∀ a, 0 ≤ sqrt a)
variable (hE : OrthoFam e E n)

include hdef hsq hsq0 hE in
/-- every state `k < n` of the GMRES(Householder) model carries the Householder--Arnoldi invariant for the
operator `MA` (with `z_j = v_j`) and the Givens invariant -/
theorem ghSeq_inv (hbeta : sqrt (e.a (M (b - A x0)) (M (b - A x0))) ≠ 0) : ∀ k, k < n →
    HhInv e E (M ∘ₗ A) k (ghBeta A M e E sqrt b x0) (M (b - A x0)) (St k).ws (St k).zs (St k).cols ∧
    GivL n k (ghBeta A M e E sqrt b x0) (St k).cols (St k).rcols (St k).cs (St k).sn (St k).g ∧
    FgDir e E (fun _ v => v) k (St k).ws (St k).zs := by
  intro k
  induction k with
  | zero =>
    intro hn
    obtain ⟨h1, h2⟩ := hhInv_init A AH M sqrt hsq hsq0 hE hn (M ∘ₗ A) (M (b - A x0)) hbeta
    refine ⟨h1, ?_, fun j hj => by omega⟩
    have hg : (St 0).g = [ghBeta A M e E sqrt b x0] := h2
    have h0 : (St 0).cols = [] ∧ (St 0).rcols = [] ∧ (St 0).cs = [] ∧ (St 0).sn = [] := ⟨rfl, rfl, rfl, rfl⟩
    rw [hg, h0.1, h0.2.1, h0.2.2.1, h0.2.2.2]
    exact givL_init n _
  | succ k ih =>
    intro hk
    obtain ⟨iH, iG, iD⟩ := ih (by omega)
    have hstep : St (k+1) = ghStep (HOps.ofModule A AH M e E) sqrt sgnK nzK n x0 (St k) := rfl
    rw [hstep]
    generalize St k = s at iH iG iD
    have hB : (fun v => (HOps.ofModule A AH M e E).o.M ((HOps.ofModule A AH M e E).o.A v)) =
        fun v => (M ∘ₗ A) v := rfl
    simp only [ghStep, hB]
    rw [iH.lcols]
    obtain ⟨sH, sz, sl, sstab⟩ := hhInv_step A AH M sqrt hdef hsq hsq0 hE (M ∘ₗ A) k hk _ _ s.ws s.zs s.cols iH
      (fun v => v) x0
    refine ⟨sH, givL_step sqrt hsq n k _ s.cols s.rcols s.cs s.sn s.g iG _ sl, ?_⟩
    intro j hj
    by_cases hjk : j < k
    · rw [getD_append_lt _ _ _ _ (by rw [iH.lzs]; exact hjk), sstab j (by omega)]
      exact iD j hjk
    · have : j = k := by omega
      subst this
      have := getD_append_len s.zs
        (hhArnoldi (HOps.ofModule A AH M e E) sqrt sgnK nzK n (fun v => v) (fun v => (M ∘ₗ A) v) s.ws j x0).z (0 : V)
      rw [iH.lzs] at this
      rw [sstab j (le_refl j)]
      exact this.trans sz

theorem ghSeq_xs_succ (m : Nat) (hl : (St m).cols.length = m) :
    (St (m+1)).xs = (St m).xs ++ [x0 + hornerO (HOps.ofModule A AH M e E) ((0 : K) • x0) 0 (St m).ws
      (backSub (St (m+1)).rcols (St (m+1)).g (m+1) [])] := by
  have hstep : St (m+1) = ghStep (HOps.ofModule A AH M e E) sqrt sgnK nzK n x0 (St m) := rfl
  rw [hstep]
  simp only [ghStep, hl]
  rfl

theorem ghSeq_ws_succ (m : Nat) : ∃ w, (St (m+1)).ws = (St m).ws ++ [w] := ⟨_, rfl⟩

include hdef hsq hsq0 hE in
/-- **GMRES (Householder), executable model of `_gmres_householder.py`, end to end**: after `m + 1 < n` inner
iterations the recorded iterate lies in `x₀ + span{v_0 … v_m}` (`v_j` = the orthonormal Householder--Arnoldi
vectors, which the model keeps as `zs`) and minimises `‖M (b − A x)‖₂` over it -/
theorem gmres_hh_optimal (m : Nat) (hmn : m + 1 < n)
    (hbeta : sqrt (e.a (M (b - A x0)) (M (b - A x0))) ≠ 0)
    (hnbr : ∀ i, i < m + 1 → Rent (St (m+1)).rcols i i ≠ 0) :
    ∃ xk, (St (m+1)).xs.getLast? = some xk ∧
      xk - x0 ∈ Submodule.span K (Set.range (fun j : Fin (m+1) => (St (m+1)).zs.getD j 0)) ∧
      ∀ x', x' - x0 ∈ Submodule.span K (Set.range (fun j : Fin (m+1) => (St (m+1)).zs.getD j 0)) →
        e.en (M b - (M ∘ₗ A) xk) ≤ e.en (M b - (M ∘ₗ A) x') := by
  obtain ⟨iH, iG, iD⟩ := ghSeq_inv A AH M e E sqrt n b x0 hdef hsq hsq0 hE hbeta (m+1) hmn
  obtain ⟨iHm, _, _⟩ := ghSeq_inv A AH M e E sqrt n b x0 hdef hsq hsq0 hE hbeta m (by omega)
  have hxs := ghSeq_xs_succ A AH M e E sqrt n b x0 m iHm.lcols
  obtain ⟨wn, hws⟩ := ghSeq_ws_succ A AH M e E sqrt n b x0 m
  set s := St (m+1) with hs
  set y := backSub s.rcols s.g (m+1) [] with hy
  have hylen : y.length = m + 1 := by
    obtain ⟨p, hl, he⟩ := backSub_suffix s.rcols s.g (m+1) []
    rw [hy, he]; simp [hl]
  have hr0 : M b - (M ∘ₗ A) x0 = ghBeta A M e E sqrt b x0 • hhL e s.ws.reverse (E 0) := by
    rw [← iH.hr0, map_sub]; rfl
  have hopt := givL_optimal e (M ∘ₗ A) n (m+1) hmn _ s.cols s.rcols s.cs s.sn s.g iG
    (fun l => hhL e s.ws.reverse (E l)) s.zs (fun i j hi hj => iH.orth hE hmn i j hi hj) iH.rel
    (M b) x0 hr0 hnbr
  rw [← hy] at hopt
  -- the Horner update is Σ y_j v_j = Σ y_j z_j
  have hupd : hornerO (HOps.ofModule A AH M e E) ((0 : K) • x0) 0 (St m).ws y =
      ∑ j ∈ range (m+1), F y j • s.zs.getD j 0 := by
    rw [zero_smul, hornerO_eq A AH M e E (St m).ws y 0 (by rw [hylen, iHm.lws]), hylen]
    refine Finset.sum_congr rfl (fun j hj => ?_)
    have hjm : j ≤ m := by have := Finset.mem_range.mp hj; omega
    rw [Nat.zero_add, hhL_take_eq iHm j hjm, iD j (by omega), hws]
    congr 1
    symm
    exact hhL_snoc_fix (St m).ws wn (E j) (by
      rw [e.symm]
      have := iH.lead (m+1) j (le_refl _) (by omega)
      rw [hws, ← iHm.lws, getD_append_len] at this
      exact this)
  refine ⟨x0 + ∑ j ∈ range (m+1), F y j • s.zs.getD j 0, by rw [hxs, List.getLast?_append, hupd]; rfl, ?_, hopt⟩
  rw [add_sub_cancel_left]
  refine Submodule.sum_mem _ (fun j hj => Submodule.smul_mem _ _ (Submodule.subset_span ?_))
  exact ⟨⟨j, Finset.mem_range.mp hj⟩, rfl⟩

#print axioms gmres_hh_optimal
end PyamgV.C07
