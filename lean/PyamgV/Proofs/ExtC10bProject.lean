import PyamgV.Proofs.ExtC10bInv
import PyamgV.Proofs.ExtC10bImmBsr
import PyamgV.Proofs.ExtC10bGmresArr
import Mathlib.Algebra.BigOperators.Ring.List

/-! PyamgV (extension E24, property C10): the executable constraint projection `C10M.projectDense` /
`satisfyDense` (dense model of `satisfy_constraints`, used by the cg / cgnr / gmres energy models) is
correct whenever it succeeds: `satisfyDense … U B = some U'` implies `U'·B = 0` for every `U` that is zero
outside the block pattern -- no per-instance hypothesis (`satisfyDense_annihilates`).  The local Gram
matrices are inverted by `Mat.inv`, exact by `inv_leftInv`.

Every loop of the projection is an accumulation (`Acc`, `Proofs/ExtC10bImmBsr.lean`), so repeated block
columns in a pattern row are harmless (they are counted twice in the Gram matrix and in the correction). -/
namespace PyamgV.C10b
open PyamgV PyamgV.C10M
set_option linter.unusedSectionVars false

variable {K : Type} [Field K] [DecidableEq K]

/-! ### list sums -/

theorem acc_foldl_list {ι : Type} (N : Nat) (step : Array K → ι → Array K) (δ : ι → Nat → K) :
    ∀ (l : List ι), (∀ t ∈ l, ∀ s : Array K, s.size = N → Acc s (step s t) (δ t)) →
      ∀ a : Array K, a.size = N → Acc a (l.foldl step a) (fun q => (l.map fun t => δ t q).sum) := by
  intro l
  induction l with
  | nil => intro _ a _; exact (Acc.refl a).congr (fun q => by simp)
  | cons t l ih =>
    intro h a ha
    rw [List.foldl_cons]
    have h0 := h t (List.mem_cons_self ..) a ha
    have h1 := ih (fun t' ht' => h t' (List.mem_cons_of_mem _ ht')) (step a t) (by rw [h0.1, ha])
    exact (h0.trans h1).congr (fun q => by simp)

theorem neg_list_sum {ι : Type} (l : List ι) (f : ι → K) : -(l.map f).sum = (l.map fun x => - f x).sum := by
  induction l with
  | nil => simp
  | cons x l ih => simp only [List.map_cons, List.sum_cons, neg_add, ih]

/-- `Σ_{q<m} [q = c]·v·g q = v·g c` -/
theorem sum_pick (m c : Nat) (v : K) (g : Nat → K) (hc : c < m) :
    ((List.range m).map fun q => (if q = c then v else 0) * g q).sum = v * g c := by
  induction m with
  | zero => omega
  | succ m ih =>
    rw [List.range_succ, List.map_append, List.sum_append]
    by_cases e : c = m
    · subst e
      have : ((List.range c).map fun q => (if q = c then v else 0) * g q).sum = 0 := by
        apply List.sum_eq_zero
        intro x hx
        obtain ⟨q, hq, rfl⟩ := List.mem_map.1 hx
        rw [List.mem_range] at hq
        rw [if_neg (by omega), zero_mul]
      rw [this]; simp
    · rw [ih (by omega)]
      simp [Ne.symm e]

/-- exchanging a sum over positions with a list sum -/
theorem sum_exchange {ι : Type} (m : Nat) (g : Nat → K) (f : ι → Nat → K) : ∀ l : List ι,
    ((List.range m).map fun q => (l.map fun x => f x q).sum * g q).sum =
      (l.map fun x => ((List.range m).map fun q => f x q * g q).sum).sum := by
  intro l
  induction l with
  | nil => simp
  | cons x l ih =>
    simp only [List.map_cons, List.sum_cons, add_mul]
    rw [List.sum_map_add, ih]

/-! ### one row -/

/-- the column loop of one row: `row[c] -= corr c` for every scalar column `c` of the listed blocks -/
def rowFold (cpb : Nat) (corr : Nat → K) (J : List Nat) (row0 : Array K) : Array K :=
  J.foldl (fun (row : Array K) jb =>
    (List.range cpb).foldl (fun (row : Array K) s =>
      row.setIfInBounds (jb * cpb + s) (row.getD (jb * cpb + s) 0 - corr (jb * cpb + s))) row) row0

theorem rowFold_acc (cpb : Nat) (corr : Nat → K) (J : List Nat) (row0 : Array K)
    (hJ : ∀ jb ∈ J, (jb + 1) * cpb ≤ row0.size) :
    Acc row0 (rowFold cpb corr J row0)
      (fun q => (J.map fun jb => ((List.range cpb).map fun s => if q = jb * cpb + s then - corr (jb * cpb + s) else 0).sum).sum) := by
  unfold rowFold
  refine acc_foldl_list row0.size _ (fun jb q => ((List.range cpb).map fun s => if q = jb * cpb + s then - corr (jb * cpb + s) else 0).sum)
    J ?_ row0 rfl
  intro jb hjb s hs
  refine acc_foldl_list row0.size _ (fun s q => if q = jb * cpb + s then - corr (jb * cpb + s) else 0) (List.range cpb) ?_ s hs
  intro t ht r hr
  rw [List.mem_range] at ht
  have hb : jb * cpb + t < r.size := by
    have := hJ jb hjb
    rw [Nat.add_mul, Nat.one_mul] at this
    omega
  have := acc_set r (jb * cpb + t) (- corr (jb * cpb + t)) hb
  rw [← sub_eq_add_neg] at this
  exact this

/-- the product of the corrected row with a column `g` of `B` -/
theorem rowFold_dot (cpb m : Nat) (corr : Nat → K) (J : List Nat) (row0 : Array K) (g : Nat → K)
    (hsz : row0.size = m) (hJ : ∀ jb ∈ J, (jb + 1) * cpb ≤ m) :
    ((List.range m).map fun q => (rowFold cpb corr J row0).getD q 0 * g q).sum =
      ((List.range m).map fun q => row0.getD q 0 * g q).sum -
        (J.map fun jb => ((List.range cpb).map fun s => corr (jb * cpb + s) * g (jb * cpb + s)).sum).sum := by
  obtain ⟨_, hacc⟩ := rowFold_acc cpb corr J row0 (fun jb h => by rw [hsz]; exact hJ jb h)
  have e1 : ((List.range m).map fun q => (rowFold cpb corr J row0).getD q 0 * g q) =
      (List.range m).map fun q => row0.getD q 0 * g q +
        (J.map fun jb => ((List.range cpb).map fun s => if q = jb * cpb + s then - corr (jb * cpb + s) else 0).sum).sum * g q := by
    apply List.map_congr_left
    intro q _
    rw [hacc q, add_mul]
  rw [e1, List.sum_map_add, sum_exchange, sub_eq_add_neg]
  congr 1
  rw [neg_list_sum]
  congr 1
  apply List.map_congr_left
  intro jb hjb
  rw [sum_exchange, neg_list_sum]
  congr 1
  apply List.map_congr_left
  intro s hs
  rw [List.mem_range] at hs
  have hc : jb * cpb + s < m := by
    have := hJ jb hjb
    rw [Nat.add_mul, Nat.one_mul] at this
    omega
  rw [sum_pick m (jb * cpb + s) _ g hc, neg_mul]

theorem sum_flatMap {ι : Type} (l : List ι) (f : ι → List K) :
    (l.flatMap f).sum = (l.map fun x => (f x).sum).sum := by
  induction l with
  | nil => simp
  | cons x l ih => simp only [List.flatMap_cons, List.sum_append, List.map_cons, List.sum_cons, ih]

theorem list_finset_comm {ι : Type} (n : Nat) (f : ι → Nat → K) : ∀ l : List ι,
    (l.map fun x => ∑ b ∈ Finset.range n, f x b).sum = ∑ b ∈ Finset.range n, (l.map fun x => f x b).sum := by
  intro l
  induction l with
  | nil => simp
  | cons x l ih => simp only [List.map_cons, List.sum_cons, ih, Finset.sum_add_distrib]

theorem list_sum_mul_right {ι : Type} (l : List ι) (f : ι → K) (r : K) :
    (l.map fun x => f x * r).sum = (l.map f).sum * r := by
  induction l with
  | nil => simp
  | cons x l ih => simp only [List.map_cons, List.sum_cons, ih, add_mul]

/-- the correction the model applies at column `c` of row `i`: `(Y_i Z B_cᴴ)` with the executable sums -/
def corrM (conj : K → K) (nd : Nat) (B Y Z : Mat K) (i c : Nat) : K :=
  sumL ((List.range nd).map (fun b =>
    ((Array.range nd).map (fun b => sumL ((List.range nd).map (fun a => Y.get i a * Z.get a b)))).getD b 0 *
      conj (B.get c b)))

/-- the local Gram matrix entry, as the model sums it -/
def gramM (conj : K → K) (cpb : Nat) (B : Mat K) (J : List Nat) (a b : Nat) : K :=
  sumL (J.flatMap (fun jb => (List.range cpb).map (fun t => conj (B.get (jb * cpb + t) a) * B.get (jb * cpb + t) b)))

/-- **one projected row annihilates `B`**: `row0` of length `m`, `y = row0·B`, `Z` a left inverse of the
local Gram matrix of the listed block columns (all inside the row) -/
theorem row_good (conj : K → K) (cpb nd m : Nat) (B Y Z : Mat K) (J : List Nat) (row0 : Array K) (i : Nat)
    (hsz : row0.size = m) (hJ : ∀ jb ∈ J, (jb + 1) * cpb ≤ m)
    (hy : ∀ a, a < nd → Y.get i a = ((List.range m).map fun q => row0.getD q 0 * B.get q a).sum)
    (hZ : ∀ a k, a < nd → k < nd →
      sumL ((List.range nd).map fun b => Z.get a b * gramM conj cpb B J b k) = if a = k then 1 else 0)
    (kk : Nat) (hkk : kk < nd) :
    ((List.range m).map fun q => (rowFold cpb (corrM conj nd B Y Z i) J row0).getD q 0 * B.get q kk).sum = 0 := by
  rw [rowFold_dot cpb m _ J row0 (fun q => B.get q kk) hsz hJ, ← hy kk hkk]
  -- the correction term
  have hcorr : ∀ c, corrM conj nd B Y Z i c =
      ∑ b ∈ Finset.range nd, (∑ a ∈ Finset.range nd, Y.get i a * Z.get a b) * conj (B.get c b) := by
    intro c
    unfold corrM
    rw [sumL_range_sum]
    apply Finset.sum_congr rfl
    intro b hb
    rw [Finset.mem_range] at hb
    rw [range_map_val _ _ b hb, sumL_range_sum]
  have hgram : ∀ b, gramM conj cpb B J b kk =
      (J.map fun jb => ((List.range cpb).map fun t => conj (B.get (jb * cpb + t) b) * B.get (jb * cpb + t) kk).sum).sum := by
    intro b
    unfold gramM
    rw [sumL_eq, sum_flatMap]
  have hsecond : (J.map fun jb => ((List.range cpb).map fun s =>
        corrM conj nd B Y Z i (jb * cpb + s) * B.get (jb * cpb + s) kk).sum).sum =
      ∑ b ∈ Finset.range nd, (∑ a ∈ Finset.range nd, Y.get i a * Z.get a b) * gramM conj cpb B J b kk := by
    have e1 : (J.map fun jb => ((List.range cpb).map fun s =>
          corrM conj nd B Y Z i (jb * cpb + s) * B.get (jb * cpb + s) kk).sum) =
        J.map fun jb => ∑ b ∈ Finset.range nd, ((List.range cpb).map fun s =>
          (∑ a ∈ Finset.range nd, Y.get i a * Z.get a b) * (conj (B.get (jb * cpb + s) b) * B.get (jb * cpb + s) kk)).sum := by
      apply List.map_congr_left
      intro jb _
      rw [← list_finset_comm]
      congr 1
      apply List.map_congr_left
      intro s _
      rw [hcorr, Finset.sum_mul]
      apply Finset.sum_congr rfl
      intro b _
      ring
    rw [e1, list_finset_comm]
    apply Finset.sum_congr rfl
    intro b _
    rw [hgram b, ← List.sum_map_mul_left]
    congr 1
    apply List.map_congr_left
    intro jb _
    rw [List.sum_map_mul_left]
  rw [hsecond]
  -- Σ_b (Σ_a y_a Z_ab) G_b,kk = Σ_a y_a (Σ_b Z_ab G_b,kk) = y_kk
  have : ∑ b ∈ Finset.range nd, (∑ a ∈ Finset.range nd, Y.get i a * Z.get a b) * gramM conj cpb B J b kk =
      Y.get i kk := by
    calc ∑ b ∈ Finset.range nd, (∑ a ∈ Finset.range nd, Y.get i a * Z.get a b) * gramM conj cpb B J b kk
        = ∑ b ∈ Finset.range nd, ∑ a ∈ Finset.range nd, Y.get i a * (Z.get a b * gramM conj cpb B J b kk) := by
          apply Finset.sum_congr rfl; intro b _
          rw [Finset.sum_mul]
          apply Finset.sum_congr rfl; intro a _
          ring
      _ = ∑ a ∈ Finset.range nd, ∑ b ∈ Finset.range nd, Y.get i a * (Z.get a b * gramM conj cpb B J b kk) :=
          Finset.sum_comm
      _ = ∑ a ∈ Finset.range nd, Y.get i a * (if a = kk then 1 else 0) := by
          apply Finset.sum_congr rfl; intro a ha
          rw [Finset.mem_range] at ha
          rw [← Finset.mul_sum, ← sumL_range_sum, hZ a kk ha hkk]
      _ = Y.get i kk := by
          rw [Finset.sum_eq_single kk]
          · rw [if_pos rfl, mul_one]
          · intro a _ hne; rw [if_neg hne, mul_zero]
          · intro h; exact absurd (Finset.mem_range.2 hkk) h
  rw [this, sub_self]

/-! ### the rows of one block row, all block rows -/

/-- rows `ib·rpb … ib·rpb + cnt − 1` replaced by `g i (row i)` -/
theorem blockGen_get (g : Nat → Array K → Array K) (base : Nat) : ∀ (cnt : Nat) (M : Mat K),
    ((List.range cnt).foldl (fun (M : Mat K) t =>
        M.setIfInBounds (base + t) (g (base + t) (M.getD (base + t) #[]))) M).size = M.size ∧
    ∀ i, ((List.range cnt).foldl (fun (M : Mat K) t =>
        M.setIfInBounds (base + t) (g (base + t) (M.getD (base + t) #[]))) M).getD i #[] =
      if base ≤ i ∧ i < base + cnt ∧ i < M.size then g i (M.getD i #[]) else M.getD i #[] := by
  intro cnt
  induction cnt with
  | zero =>
    intro M
    refine ⟨rfl, fun i => ?_⟩
    rw [if_neg (by omega)]; rfl
  | succ cnt ih =>
    intro M
    obtain ⟨h1, h2⟩ := ih M
    rw [List.range_succ, List.foldl_append, List.foldl_cons, List.foldl_nil]
    generalize (List.range cnt).foldl (fun (M : Mat K) t =>
        M.setIfInBounds (base + t) (g (base + t) (M.getD (base + t) #[]))) M = M1 at h1 h2
    refine ⟨by rw [Array.size_setIfInBounds, h1], fun i => ?_⟩
    rw [setRow_getD, h1]
    by_cases e : base + cnt = i
    · subst e
      by_cases hs : base + cnt < M.size
      · rw [if_pos ⟨rfl, hs⟩, if_pos ⟨by omega, by omega, hs⟩, h2, if_neg (by omega)]
      · rw [if_neg (fun h => hs h.2), if_neg (by omega), h2, if_neg (by omega)]
    · rw [if_neg (fun h => e h.1), h2]
      by_cases hc : base ≤ i ∧ i < base + cnt ∧ i < M.size
      · rw [if_pos hc, if_pos ⟨hc.1, by omega, hc.2.2⟩]
      · rw [if_neg hc, if_neg (by omega)]

/-- the body of the loop over the block rows of `projectDense` (`projectDense_eq` is `rfl`) -/
def projStep (conj : K → K) (rpb cpb nd : Nat) (pat : Pat) (Y B : Mat K) (st : Option (Mat K)) (ib : Nat) :
    Option (Mat K) :=
  match st with
  | none => none
  | some M =>
    let J := pat.getD ib #[]
    if J.isEmpty then some M else
    match (localBtB conj cpb nd B J).inv with
    | none => none
    | some Z =>
      some ((List.range rpb).foldl (fun (M : Mat K) t =>
        let i := ib * rpb + t
        let yz : Array K := (Array.range nd).map (fun b => sumL ((List.range nd).map (fun a => Y.get i a * Z.get a b)))
        let row := (M.getD i #[])
        let row := J.foldl (fun (row : Array K) jb =>
          (List.range cpb).foldl (fun (row : Array K) s =>
            let c := jb * cpb + s
            row.setIfInBounds c (row.getD c 0 - sumL ((List.range nd).map (fun b => yz.getD b 0 * conj (B.get c b))))) row) row
        M.setIfInBounds i row) M)

theorem projectDense_eq (conj : K → K) (rpb cpb nd : Nat) (pat : Pat) (A Y B : Mat K) :
    projectDense conj rpb cpb nd pat A Y B =
      (List.range pat.size).foldl (projStep conj rpb cpb nd pat Y B) (some A) := rfl

/-- the successful branch of `projStep` in terms of `rowFold` / `corrM` -/
theorem projStep_some (conj : K → K) (rpb cpb nd : Nat) (pat : Pat) (Y B M Z : Mat K) (ib : Nat)
    (hJ : ¬ (pat.getD ib #[]).isEmpty = true) (hZ : (localBtB conj cpb nd B (pat.getD ib #[])).inv = some Z) :
    projStep conj rpb cpb nd pat Y B (some M) ib =
      some ((List.range rpb).foldl (fun (M : Mat K) t =>
        M.setIfInBounds (ib * rpb + t)
          (rowFold cpb (corrM conj nd B Y Z (ib * rpb + t)) (pat.getD ib #[]).toList (M.getD (ib * rpb + t) #[]))) M) := by
  unfold projStep
  dsimp only
  rw [if_neg hJ, hZ]
  dsimp only
  congr 1
  apply List.foldl_ext
  intro M' t _
  unfold rowFold corrM
  rw [← Array.foldl_toList]

/-- a row that annihilates `B` -/
def GoodRow (m nd : Nat) (B : Mat K) (row : Array K) : Prop :=
  row.size = m ∧ ∀ kk, kk < nd → ((List.range m).map fun q => row.getD q 0 * B.get q kk).sum = 0

theorem div_eq_iff_block (rpb i k : Nat) (hr : 0 < rpb) : i / rpb = k ↔ k * rpb ≤ i ∧ i < k * rpb + rpb := by
  constructor
  · intro h
    subst h
    have h1 := Nat.div_mul_le_self i rpb
    have h2 := Nat.lt_div_mul_add hr (a := i)
    exact ⟨h1, h2⟩
  · rintro ⟨h1, h2⟩
    apply Nat.le_antisymm
    · have : i < (k + 1) * rpb := by rw [Nat.add_mul, Nat.one_mul]; exact h2
      exact Nat.lt_succ_iff.1 ((Nat.div_lt_iff_lt_mul hr).2 this)
    · exact (Nat.le_div_iff_mul_le hr).2 h1

/-- **`projectDense` with `y = U·B`**: whenever the dense projection succeeds on an `n × m` array `U` that
vanishes outside the block pattern (`nd` candidates, `B.cols = nd`, pattern blocks inside the rows), every
row of the result annihilates `B` -/
theorem satisfyDense_rows (conj : K → K) (rpb cpb nd : Nat) (pat : Pat) (U B U' : Mat K) (n m : Nat)
    (hr : 0 < rpb) (hU : Shaped n m U) (hUc : U.cols = m) (hB : B.cols = nd)
    (hpat : ∀ ib, ib < pat.size → ∀ jb ∈ (pat.getD ib #[]).toList, (jb + 1) * cpb ≤ m)
    (hzero : ∀ i j, i < n → j < m → ¬ ((pat.getD (i / rpb) #[]).contains (j / cpb) = true) → U.get i j = 0)
    (h : satisfyDense conj rpb cpb nd pat U B = some U') :
    U'.size = n ∧ ∀ i, i < n → GoodRow m nd B (U'.getD i #[]) := by
  unfold satisfyDense at h
  rw [projectDense_eq] at h
  -- rows of an empty pattern row are zero rows
  have zero_good : ∀ i, i < n → (pat.getD (i / rpb) #[]).isEmpty = true → GoodRow m nd B (U.getD i #[]) := by
    intro i hi hE
    refine ⟨hU.2 i hi, fun kk _ => ?_⟩
    apply List.sum_eq_zero
    intro x hx
    obtain ⟨q, hq, rfl⟩ := List.mem_map.1 hx
    rw [List.mem_range] at hq
    have : U.get i q = 0 := by
      apply hzero i q hi hq
      have hsz : (pat.getD (i / rpb) #[]).size = 0 := by
        simpa [Array.isEmpty_iff_size_eq_zero] using hE
      have : pat.getD (i / rpb) #[] = #[] := Array.eq_empty_of_size_eq_zero hsz
      rw [this]; simp
    show (U.getD i #[]).getD q 0 * _ = 0
    have e : (U.getD i #[]).getD q 0 = U.get i q := rfl
    rw [e, this, zero_mul]
  have hY : ∀ i a, i < n → a < nd → (Mat.mul U B).get i a = ((List.range m).map fun q => (U.getD i #[]).getD q 0 * B.get q a).sum := by
    intro i a hi ha
    unfold Mat.mul
    rw [ofFn_get' _ _ _ i a (by show i < U.size; rw [hU.1]; exact hi) (by rw [hB]; exact ha), hUc, sumL_eq]
    rfl
  have key : ∀ (k : Nat) (M' : Mat K), k ≤ pat.size →
      (List.range k).foldl (projStep conj rpb cpb nd pat (Mat.mul U B) B) (some U) = some M' →
      M'.size = n ∧ (∀ i, i < n → i / rpb < k → GoodRow m nd B (M'.getD i #[])) ∧
      (∀ i, i < n → k ≤ i / rpb → M'.getD i #[] = U.getD i #[]) := by
    intro k
    induction k with
    | zero =>
      intro M' _ h0
      simp only [List.range_zero, List.foldl_nil, Option.some.injEq] at h0
      rw [← h0]
      exact ⟨hU.1, fun i _ hlt => absurd hlt (Nat.not_lt_zero _), fun i _ _ => rfl⟩
    | succ k ih =>
      intro M' hk h0
      rw [List.range_succ, List.foldl_append, List.foldl_cons, List.foldl_nil] at h0
      cases hprev : (List.range k).foldl (projStep conj rpb cpb nd pat (Mat.mul U B) B) (some U) with
      | none => rw [hprev] at h0; simp [projStep] at h0
      | some M1 =>
        rw [hprev] at h0
        obtain ⟨i1, i2, i3⟩ := ih M1 (by omega) hprev
        by_cases hJ : (pat.getD k #[]).isEmpty = true
        · -- nothing to do in this block row
          have : projStep conj rpb cpb nd pat (Mat.mul U B) B (some M1) k = some M1 := by
            unfold projStep; dsimp only; rw [if_pos hJ]
          rw [this] at h0
          simp only [Option.some.injEq] at h0
          rw [← h0]
          refine ⟨i1, ?_, fun i hi hge => i3 i hi (by omega)⟩
          intro i hi hlt
          rcases Nat.lt_or_ge (i / rpb) k with hl | hg
          · exact i2 i hi hl
          · have e : i / rpb = k := by omega
            rw [i3 i hi (by omega)]
            exact zero_good i hi (by rw [e]; exact hJ)
        · cases hZ : (localBtB conj cpb nd B (pat.getD k #[])).inv with
          | none =>
            have : projStep conj rpb cpb nd pat (Mat.mul U B) B (some M1) k = none := by
              unfold projStep; dsimp only; rw [if_neg hJ, hZ]
            rw [this] at h0; cases h0
          | some Z =>
            rw [projStep_some conj rpb cpb nd pat (Mat.mul U B) B M1 Z k hJ hZ] at h0
            simp only [Option.some.injEq] at h0
            obtain ⟨b1, b2⟩ := blockGen_get
              (fun i row => rowFold cpb (corrM conj nd B (Mat.mul U B) Z i) (pat.getD k #[]).toList row) (k * rpb) rpb M1
            rw [h0] at b1 b2
            refine ⟨by rw [b1, i1], ?_, ?_⟩
            · intro i hi hlt
              rw [b2 i]
              rcases Nat.lt_or_ge (i / rpb) k with hl | hg
              · have : ¬ (k * rpb ≤ i ∧ i < k * rpb + rpb ∧ i < M1.size) := by
                  intro hc
                  have := (div_eq_iff_block rpb i k hr).2 ⟨hc.1, hc.2.1⟩
                  omega
                rw [if_neg this]
                exact i2 i hi hl
              · have e : i / rpb = k := by omega
                have hb := (div_eq_iff_block rpb i k hr).1 e
                rw [if_pos ⟨hb.1, hb.2, by rw [i1]; exact hi⟩, i3 i hi (by omega)]
                -- the projected row
                have hZl : ∀ a kk, a < nd → kk < nd →
                    sumL ((List.range nd).map fun b => Z.get a b * gramM conj cpb B (pat.getD k #[]).toList b kk) =
                      if a = kk then 1 else 0 := by
                  intro a kk ha hkk
                  have hrows : (localBtB conj cpb nd B (pat.getD k #[])).rows = nd := ofFn_size' _ _ _
                  have := inv_leftInv _ Z hZ a kk (by rw [hrows]; exact ha) (by rw [hrows]; exact hkk)
                  rw [hrows] at this
                  rw [← this]
                  congr 1
                  apply List.map_congr_left
                  intro b hb'
                  rw [List.mem_range] at hb'
                  unfold localBtB
                  rw [ofFn_get' _ _ _ b kk hb' hkk]
                  rfl
                refine ⟨?_, fun kk hkk => ?_⟩
                · rw [(rowFold_acc cpb _ _ _ (fun jb hjb => by
                    rw [hU.2 i hi]; exact hpat k (by omega) jb hjb)).1]
                  exact hU.2 i hi
                · exact row_good conj cpb nd m B (Mat.mul U B) Z (pat.getD k #[]).toList (U.getD i #[]) i
                    (hU.2 i hi) (hpat k (by omega)) (fun a ha => hY i a hi ha) hZl kk hkk
            · intro i hi hge
              rw [b2 i]
              have : ¬ (k * rpb ≤ i ∧ i < k * rpb + rpb ∧ i < M1.size) := by
                intro hc
                have := (div_eq_iff_block rpb i k hr).2 ⟨hc.1, hc.2.1⟩
                omega
              rw [if_neg this]
              exact i3 i hi (by omega)
  obtain ⟨k1, k2, k3⟩ := key pat.size U' (Nat.le_refl _) h
  refine ⟨k1, fun i hi => ?_⟩
  rcases Nat.lt_or_ge (i / rpb) pat.size with hl | hg
  · exact k2 i hi hl
  · rw [k3 i hi hg]
    apply zero_good i hi
    have : pat.getD (i / rpb) #[] = #[] := by
      simp [Array.getD_eq_getD_getElem?, Array.getElem?_eq_none hg]
    rw [this]; rfl

/-- **the executable projection annihilates `B`**, as matrices -/
theorem satisfyDense_annihilates (conj : K → K) (rpb cpb nd : Nat) (pat : Pat) (U B U' : Mat K) (n m : Nat)
    (hr : 0 < rpb) (hU : Shaped n m U) (hUc : U.cols = m) (hB : B.cols = nd)
    (hpat : ∀ ib, ib < pat.size → ∀ jb ∈ (pat.getD ib #[]).toList, (jb + 1) * cpb ≤ m)
    (hzero : ∀ i j, i < n → j < m → ¬ ((pat.getD (i / rpb) #[]).contains (j / cpb) = true) → U.get i j = 0)
    (h : satisfyDense conj rpb cpb nd pat U B = some U') :
    toMx n m U' * toMx m nd B = 0 := by
  obtain ⟨_, hgood⟩ := satisfyDense_rows conj rpb cpb nd pat U B U' n m hr hU hUc hB hpat hzero h
  funext i kk
  rw [Matrix.mul_apply]
  have := (hgood i.val i.isLt).2 kk.val kk.isLt
  rw [← sumL_eq, sumL_range_fin] at this
  exact this

/-- every row of the result of `projectDense` is the row of the input with corrections on the scalar
columns of its pattern blocks only -/
theorem projectDense_rowform (conj : K → K) (rpb cpb nd : Nat) (pat : Pat) (U Y B U' : Mat K) (n : Nat)
    (hr : 0 < rpb) (hn : U.size = n) (h : projectDense conj rpb cpb nd pat U Y B = some U') :
    U'.size = n ∧ ∀ i, i < n → ∃ corr : Nat → K,
      U'.getD i #[] = rowFold cpb corr (pat.getD (i / rpb) #[]).toList (U.getD i #[]) := by
  rw [projectDense_eq] at h
  have key : ∀ (k : Nat) (M' : Mat K), k ≤ pat.size →
      (List.range k).foldl (projStep conj rpb cpb nd pat Y B) (some U) = some M' →
      M'.size = n ∧ (∀ i, i < n → i / rpb < k → ∃ corr : Nat → K,
        M'.getD i #[] = rowFold cpb corr (pat.getD (i / rpb) #[]).toList (U.getD i #[])) ∧
      (∀ i, i < n → k ≤ i / rpb → M'.getD i #[] = U.getD i #[]) := by
    intro k
    induction k with
    | zero =>
      intro M' _ h0
      simp only [List.range_zero, List.foldl_nil, Option.some.injEq] at h0
      rw [← h0]
      exact ⟨hn, fun i _ hlt => absurd hlt (Nat.not_lt_zero _), fun i _ _ => rfl⟩
    | succ k ih =>
      intro M' hk h0
      rw [List.range_succ, List.foldl_append, List.foldl_cons, List.foldl_nil] at h0
      cases hprev : (List.range k).foldl (projStep conj rpb cpb nd pat Y B) (some U) with
      | none => rw [hprev] at h0; simp [projStep] at h0
      | some M1 =>
        rw [hprev] at h0
        obtain ⟨i1, i2, i3⟩ := ih M1 (by omega) hprev
        by_cases hJ : (pat.getD k #[]).isEmpty = true
        · have : projStep conj rpb cpb nd pat Y B (some M1) k = some M1 := by
            unfold projStep; dsimp only; rw [if_pos hJ]
          rw [this] at h0
          simp only [Option.some.injEq] at h0
          rw [← h0]
          refine ⟨i1, ?_, fun i hi hge => i3 i hi (by omega)⟩
          intro i hi hlt
          rcases Nat.lt_or_ge (i / rpb) k with hl | hg
          · exact i2 i hi hl
          · have e : i / rpb = k := by omega
            refine ⟨fun _ => 0, ?_⟩
            rw [i3 i hi (by omega), e]
            have hsz : (pat.getD k #[]).size = 0 := by
              simpa [Array.isEmpty_iff_size_eq_zero] using hJ
            rw [Array.eq_empty_of_size_eq_zero hsz]
            rfl
        · cases hZ : (localBtB conj cpb nd B (pat.getD k #[])).inv with
          | none =>
            have : projStep conj rpb cpb nd pat Y B (some M1) k = none := by
              unfold projStep; dsimp only; rw [if_neg hJ, hZ]
            rw [this] at h0; cases h0
          | some Z =>
            rw [projStep_some conj rpb cpb nd pat Y B M1 Z k hJ hZ] at h0
            simp only [Option.some.injEq] at h0
            obtain ⟨b1, b2⟩ := blockGen_get
              (fun i row => rowFold cpb (corrM conj nd B Y Z i) (pat.getD k #[]).toList row) (k * rpb) rpb M1
            rw [h0] at b1 b2
            refine ⟨by rw [b1, i1], ?_, ?_⟩
            · intro i hi hlt
              rw [b2 i]
              rcases Nat.lt_or_ge (i / rpb) k with hl | hg
              · have : ¬ (k * rpb ≤ i ∧ i < k * rpb + rpb ∧ i < M1.size) := by
                  intro hc
                  have := (div_eq_iff_block rpb i k hr).2 ⟨hc.1, hc.2.1⟩
                  omega
                rw [if_neg this]
                exact i2 i hi hl
              · have e : i / rpb = k := by omega
                have hb := (div_eq_iff_block rpb i k hr).1 e
                rw [if_pos ⟨hb.1, hb.2, by rw [i1]; exact hi⟩, i3 i hi (by omega), e]
                exact ⟨corrM conj nd B Y Z i, rfl⟩
            · intro i hi hge
              rw [b2 i]
              have : ¬ (k * rpb ≤ i ∧ i < k * rpb + rpb ∧ i < M1.size) := by
                intro hc
                have := (div_eq_iff_block rpb i k hr).2 ⟨hc.1, hc.2.1⟩
                omega
              rw [if_neg this]
              exact i3 i hi (by omega)
  obtain ⟨k1, k2, k3⟩ := key pat.size U' (Nat.le_refl _) h
  refine ⟨k1, fun i hi => ?_⟩
  rcases Nat.lt_or_ge (i / rpb) pat.size with hl | hg
  · exact k2 i hi hl
  · refine ⟨fun _ => 0, ?_⟩
    rw [k3 i hi hg]
    have : pat.getD (i / rpb) #[] = #[] := by
      simp [Array.getD_eq_getD_getElem?, Array.getElem?_eq_none hg]
    rw [this]; rfl

/-- **the executable projection stays inside the pattern**: entries outside the pattern blocks of a row
are those of the input -/
theorem projectDense_off (conj : K → K) (rpb cpb nd : Nat) (pat : Pat) (U Y B U' : Mat K) (n m : Nat)
    (hr : 0 < rpb) (hc : 0 < cpb) (hU : Shaped n m U)
    (hpat : ∀ ib, ib < pat.size → ∀ jb ∈ (pat.getD ib #[]).toList, (jb + 1) * cpb ≤ m)
    (h : projectDense conj rpb cpb nd pat U Y B = some U') :
    ∀ i j, i < n → ¬ ((pat.getD (i / rpb) #[]).contains (j / cpb) = true) → U'.get i j = U.get i j := by
  obtain ⟨_, hform⟩ := projectDense_rowform conj rpb cpb nd pat U Y B U' n hr hU.1 h
  intro i j hi hcont
  obtain ⟨corr, hrow⟩ := hform i hi
  unfold Mat.get
  rw [hrow]
  have hJ : ∀ jb ∈ (pat.getD (i / rpb) #[]).toList, (jb + 1) * cpb ≤ (U.getD i #[]).size := by
    intro jb hjb
    rw [hU.2 i hi]
    rcases Nat.lt_or_ge (i / rpb) pat.size with hl | hg
    · exact hpat _ hl jb hjb
    · have : pat.getD (i / rpb) #[] = #[] := by
        simp [Array.getD_eq_getD_getElem?, Array.getElem?_eq_none hg]
      rw [this] at hjb; simp at hjb
  rw [(rowFold_acc cpb corr _ _ hJ).2 j]
  have : ((pat.getD (i / rpb) #[]).toList.map fun jb =>
      ((List.range cpb).map fun s => if j = jb * cpb + s then - corr (jb * cpb + s) else 0).sum).sum = 0 := by
    apply List.sum_eq_zero
    intro x hx
    obtain ⟨jb, hjb, rfl⟩ := List.mem_map.1 hx
    apply List.sum_eq_zero
    intro y hy
    obtain ⟨s, hs, rfl⟩ := List.mem_map.1 hy
    rw [List.mem_range] at hs
    rw [if_neg]
    intro e
    apply hcont
    have : j / cpb = jb := by
      rw [e, Nat.mul_comm, Nat.mul_add_div hc, Nat.div_eq_of_lt hs, Nat.add_zero]
    rw [this]
    simpa using hjb
  beta_reduce
  rw [this, add_zero]

#print axioms satisfyDense_annihilates
#print axioms projectDense_off
end PyamgV.C10b
