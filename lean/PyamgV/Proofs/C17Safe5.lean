import PyamgV.Proofs.C17Safe4
import PyamgV.Proofs.ColoringLoop

/-! PyamgV (C17): `standard_aggregation` (smoothed_aggregation.h) in the `Ck` style, for **every**
structurally valid pattern (not only symmetric ones, unlike the functional theorem of C12).

The kernel has three passes over `x` (aggregate ids, with the sentinels `0` = unmarked and `-n` =
isolated) and writes the root list `y` at a cursor: `y[next_aggregate-1] = i` in pass 1 and
`y[next_aggregate] = i` in pass 3 (after `next_aggregate--`).  Pass 1 is easy (`next-1 ≤ i`).  The
pass-3 write needs a counting argument, because aggregates of pass 1 may have roots behind the
current row: with `zc lo x` = number of rows `v ≥ lo` that are still unmarked (`x[v] = 0`),
* pass 1, 2:  `(next - 1) + zc 0 x ≤ n`   (a new aggregate marks its own root; no write creates a zero),
* pass 3:     `next + zc i x ≤ n` at row `i` (a new aggregate is opened only at an unmarked row, the
  rewrite `x[i] = conv(x[i])` touches a row that is already behind the cursor, and the only other
  writes go to unmarked entries),
so at a pass-3 root (`x[i] = 0`, hence `zc i x ≥ 1`) `next ≤ n-1`.  Core Lean only. -/
namespace PyamgV.C17
open PyamgV.Ck

/-! ### counting unmarked rows -/

/-- number of rows `lo ≤ v < n` with `x[v] = 0` -/
def zc (lo n : Nat) (x : Array Int) : Nat :=
  (List.range n).countP (fun v => decide (lo ≤ v ∧ x.getD v 0 = 0))

theorem getD_setI (a : Array Int) (i j : Nat) (v : Int) :
    (a.setIfInBounds i v).getD j 0 = if i = j ∧ i < a.size then v else a.getD j 0 := by
  simp only [Array.getD_eq_getD_getElem?, Array.getElem?_setIfInBounds]
  by_cases h : i = j
  · subst h
    by_cases h2 : i < a.size <;> simp [h2]
  · simp [h]

theorem zc_le (lo n : Nat) (x : Array Int) : zc lo n x ≤ n := by
  have := List.countP_le_length (p := fun v => decide (lo ≤ v ∧ x.getD v 0 = 0)) (l := List.range n)
  simpa [zc] using this

/-- a write below `lo` does not change the count -/
theorem zc_set_below (lo n : Nat) (x : Array Int) (j : Nat) (v : Int) (hj : j < lo) :
    zc lo n (x.setIfInBounds j v) = zc lo n x := by
  unfold zc
  apply List.countP_congr
  intro m _
  by_cases hm : lo ≤ m
  · have hne : ¬ (j = m ∧ j < x.size) := fun h => by omega
    rw [getD_setI, if_neg hne]
  · simp [hm]

/-- a write that does not create a new zero (the old entry is zero or the new value is non-zero) does
not increase the count -/
theorem zc_set_le (lo n : Nat) (x : Array Int) (j : Nat) (v : Int) (h : x.getD j 0 = 0 ∨ v ≠ 0) :
    zc lo n (x.setIfInBounds j v) ≤ zc lo n x := by
  unfold zc
  apply List.countP_mono_left
  intro m _ hm
  simp only [decide_eq_true_eq] at hm ⊢
  refine ⟨hm.1, ?_⟩
  have h2 := hm.2
  rw [getD_setI] at h2
  by_cases hc : j = m ∧ j < x.size
  · rw [if_pos hc] at h2
    rcases h with h | h
    · rw [← hc.1]; exact h
    · exact absurd h2 h
  · rw [if_neg hc] at h2; exact h2

/-- marking an unmarked row `j ≥ lo` with a non-zero value decreases the count by one -/
theorem zc_set_mark (lo n : Nat) (x : Array Int) (j : Nat) (v : Int) (hlo : lo ≤ j) (hjn : j < n)
    (hjs : j < x.size) (hx : x.getD j 0 = 0) (hv : v ≠ 0) :
    zc lo n (x.setIfInBounds j v) + 1 = zc lo n x := by
  unfold zc
  symm
  apply PyamgV.Col.countP_flip List.nodup_range (k := j) (List.mem_range.2 hjn)
  · intro m _ hm
    have hne : ¬ (j = m ∧ j < x.size) := fun h => hm h.1.symm
    rw [getD_setI, if_neg hne]
  · rw [getD_setI, if_pos ⟨rfl, hjs⟩]
    simp [hv]
  · simp [hlo, hx]

/-- moving the lower end past row `i` -/
theorem zc_succ (i n : Nat) (x : Array Int) (hi : i < n) :
    zc i n x = zc (i+1) n x + (if x.getD i 0 = 0 then 1 else 0) := by
  unfold zc
  have hsplit := PyamgV.Col.countP_or_excl (l := List.range n)
    (p := fun v => decide (i + 1 ≤ v ∧ x.getD v 0 = 0))
    (q := fun v => decide (v = i ∧ x.getD i 0 = 0))
    (r := fun v => decide (i ≤ v ∧ x.getD v 0 = 0))
    (by
      intro m _
      by_cases h1 : i + 1 ≤ m
      · have : ¬ m = i := by omega
        have h2 : i ≤ m := by omega
        simp [h1, this, h2]
      · by_cases h2 : m = i
        · subst h2; simp
        · have : ¬ i ≤ m := by omega
          simp [h1, h2, this])
    (by
      intro m _ h
      simp only [decide_eq_true_eq] at h
      omega)
  rw [hsplit]
  congr 1
  by_cases hx : x.getD i 0 = 0
  · rw [if_pos hx]
    have := PyamgV.Col.countP_flip (l := List.range n) List.nodup_range (p := fun _ => false)
      (q := fun v => decide (v = i ∧ x.getD i 0 = 0)) (k := i) (List.mem_range.2 hi)
      (by intro m _ hm; simp [hm]) rfl (by simp [hx])
    rw [this]
    have h0 : (List.range n).countP (fun _ => false) = 0 := List.countP_eq_zero.2 (by simp)
    rw [h0]
  · rw [if_neg hx]
    apply List.countP_eq_zero.2
    intro m _ h
    simp only [decide_eq_true_eq] at h
    exact hx h.2

theorem zc_pos (i n : Nat) (x : Array Int) (hi : i < n) (hx : x.getD i 0 = 0) : 1 ≤ zc i n x := by
  rw [zc_succ i n x hi, if_pos hx]; omega

/-! ### writes with their value -/

theorem wr_eq (a : Array Int) (i : Int) (v : Int) (h0 : 0 ≤ i) (h1 : i.toNat < a.size) :
    Safe (Ck.wr a i v) (fun a' => a' = a.setIfInBounds i.toNat v) := by
  unfold Ck.wr; rw [if_pos ⟨h0, h1⟩]; exact ⟨rfl, rfl⟩

/-! ### the model -/

/-- the scan of pass 1 with its `break`: `(has_neighbors, has_aggregated_neighbors, broke)` -/
def saScan (aj x : Array Int) (i s e : Int) : Ck (Bool × Bool × Bool) :=
  forRange s e (false, false, false) (fun jj (acc : Bool × Bool × Bool) =>
    if acc.2.2 then pure acc
    else do
      let j ← Ck.rd aj jj
      if i ≠ j then do
        let xj ← Ck.rd x j
        if xj ≠ 0 then pure (true, true, true) else pure (true, acc.2.1, false)
      else pure acc)

def saPass1Row (n : Nat) (ap aj : Array Int) (i : Int) (st : Agg) : Ck Agg := do
  let xi ← Ck.rd st.1 i
  if xi ≠ 0 then pure st
  else do
    let s ← Ck.rd ap i
    let e ← Ck.rd ap (i+1)
    let sc ← saScan aj st.1 i s e
    if sc.1 = false then do
      let x ← Ck.wr st.1 i (-(n : Int))
      pure (x, st.2.1, st.2.2)
    else if sc.2.1 = false then do
      let x ← Ck.wr st.1 i st.2.2
      let y ← Ck.wr st.2.1 (st.2.2 - 1) i
      let x ← forRange s e x (fun jj (x : Array Int) => do
        let j ← Ck.rd aj jj
        Ck.wr x j st.2.2)
      pure (x, y, st.2.2 + 1)
    else pure st

def saPass2Row (ap aj : Array Int) (i : Int) (x : Array Int) : Ck (Array Int) := do
  let xi ← Ck.rd x i
  if xi ≠ 0 then pure x
  else do
    let s ← Ck.rd ap i
    let e ← Ck.rd ap (i+1)
    let r ← forRange s e (x, false) (fun jj (acc : Array Int × Bool) =>
      if acc.2 then pure acc
      else do
        let j ← Ck.rd aj jj
        let xj ← Ck.rd acc.1 j
        if xj > 0 then do
          let x' ← Ck.wr acc.1 i (-xj)
          pure (x', true)
        else pure acc)
    pure r.1

/-- the final renumbering of a marked entry -/
def saConv (n : Nat) (xi : Int) : Int :=
  if xi > 0 then xi - 1 else if xi = -(n : Int) then -1 else -xi - 1

def saPass3Row (n : Nat) (ap aj : Array Int) (i : Int) (st : Agg) : Ck Agg := do
  let xi ← Ck.rd st.1 i
  if xi ≠ 0 then do
    let x ← Ck.wr st.1 i (saConv n xi)
    pure (x, st.2.1, st.2.2)
  else do
    let s ← Ck.rd ap i
    let e ← Ck.rd ap (i+1)
    let x ← Ck.wr st.1 i st.2.2
    let y ← Ck.wr st.2.1 st.2.2 i
    let x ← forRange s e x (fun jj (x : Array Int) => do
      let j ← Ck.rd aj jj
      let xj ← Ck.rd x j
      if xj = 0 then Ck.wr x j st.2.2 else pure x)
    pure (x, y, st.2.2 + 1)

/-- `standard_aggregation`; the last component is the returned number of aggregates -/
def stdAgg (n : Nat) (ap aj x y : Array Int) : Ck Agg := do
  let x ← forRange 0 (n : Int) x (fun i (x : Array Int) => Ck.wr x i 0)
  let s1 ← forRange 0 (n : Int) (x, y, (1 : Int)) (saPass1Row n ap aj)
  let x2 ← forRange 0 (n : Int) s1.1 (saPass2Row ap aj)
  forRange 0 (n : Int) (x2, s1.2.1, s1.2.2 - 1) (saPass3Row n ap aj)

/-! ### safety -/

section
variable (n : Nat) (ap aj : Array Int) (hS : WFm (pat n ap aj) n)
include hS

theorem sa_rows (i : Int) (i0 : 0 ≤ i) (i1 : i < (n : Int)) :
    i.toNat < ap.size ∧ (i+1).toNat < ap.size ∧ (i+1).toNat = i.toNat + 1 := by
  have hsz : (pat n ap aj).ap.size = n + 1 := hS.ap_size
  have : ap.size = n + 1 := hsz
  omega

theorem sa_col (i : Int) (i0 : 0 ≤ i) (i1 : i < (n : Int)) (jj : Int)
    (h1 : ap.getD i.toNat 0 ≤ jj) (h2 : jj < ap.getD (i.toNat + 1) 0) :
    0 ≤ jj ∧ jj.toNat < aj.size ∧ 0 ≤ aj.getD jj.toNat 0 ∧ (aj.getD jj.toNat 0).toNat < n := by
  have hin : i.toNat < n := by omega
  have hr := row_range_m (pat n ap aj) hS i.toNat hin jj h1 h2
  have hc : 0 ≤ aj.getD jj.toNat 0 ∧ aj.getD jj.toNat 0 < (n : Int) := hS.cols jj.toNat hr.2.1
  have hc1 := hc.1
  have hc2 := hc.2
  exact ⟨hr.1, hr.2.1, hc.1, by omega⟩

theorem saScan_safe (x : Array Int) (hx : x.size = n) (i : Int) (i0 : 0 ≤ i) (i1 : i < (n : Int)) :
    Safe (saScan aj x i (ap.getD i.toNat 0) (ap.getD (i.toNat + 1) 0)) (fun _ => True) := by
  unfold saScan
  apply forRange_safe (fun _ => True) _ _ _ _ trivial
  intro jj j1 j2 acc _
  by_cases hb : acc.2.2 = true
  · rw [if_pos hb]; exact Safe.pure trivial
  · rw [if_neg hb]
    have hc := sa_col n ap aj hS i i0 i1 jj j1 j2
    refine Safe.bind (rd_safe aj jj hc.1 hc.2.1) (fun j hj => ?_)
    have hj' : j = aj.getD jj.toNat 0 := hj
    by_cases hij : i ≠ j
    · rw [if_pos hij]
      refine Safe.bind (rd_safe x j (by rw [hj']; exact hc.2.2.1) (by rw [hj', hx]; exact hc.2.2.2)) (fun xj _ => ?_)
      by_cases hz : xj ≠ 0
      · rw [if_pos hz]; exact Safe.pure trivial
      · rw [if_neg hz]; exact Safe.pure trivial
    · rw [if_neg hij]; exact Safe.pure trivial

/-- invariant of pass 1 at row `i` -/
def P1 (n : Nat) (i : Int) (st : Agg) : Prop :=
  st.1.size = n ∧ st.2.1.size = n ∧ 1 ≤ st.2.2 ∧ st.2.2 - 1 ≤ i ∧ st.2.2 - 1 + (zc 0 n st.1 : Int) ≤ (n : Int)

theorem saPass1Row_safe (hn : 1 ≤ n) (i : Int) (i0 : 0 ≤ i) (i1 : i < (n : Int)) (st : Agg)
    (hst : P1 n i st) : Safe (saPass1Row n ap aj i st) (P1 n (i + 1)) := by
  obtain ⟨h1, h2, h3, h4, h5⟩ := hst
  have hr := sa_rows n ap aj hS i i0 i1
  have hin : i.toNat < n := by omega
  unfold saPass1Row
  refine Safe.bind (rd_safe st.1 i i0 (by rw [h1]; exact hin)) (fun xi hxi => ?_)
  by_cases hnz : xi ≠ 0
  · rw [if_pos hnz]; exact Safe.pure ⟨h1, h2, h3, by omega, h5⟩
  · rw [if_neg hnz]
    have hx0 : st.1.getD i.toNat 0 = 0 := by
      have : xi = st.1.getD i.toNat 0 := hxi
      rw [← this]; exact Decidable.not_not.mp hnz
    refine Safe.bind (rd_safe ap i i0 hr.1) (fun s hs => ?_)
    refine Safe.bind (rd_safe ap (i+1) (by omega) hr.2.1) (fun e he => ?_)
    rw [hr.2.2] at he
    have hs' : s = ap.getD i.toNat 0 := hs
    have he' : e = ap.getD (i.toNat + 1) 0 := he
    rw [hs', he']
    refine Safe.bind (saScan_safe n ap aj hS st.1 h1 i i0 i1) (fun sc _ => ?_)
    by_cases hiso : sc.1 = false
    · rw [if_pos hiso]
      refine Safe.bind (wr_eq st.1 i _ i0 (by rw [h1]; exact hin)) (fun x' hx' => ?_)
      have hle := zc_set_le 0 n st.1 i.toNat (-(n : Int)) (Or.inr (by omega))
      rw [← hx'] at hle
      exact Safe.pure ⟨by rw [hx']; simpa using h1, h2, h3, by show st.2.2 - 1 ≤ i + 1; omega,
        by show st.2.2 - 1 + (zc 0 n x' : Int) ≤ n; omega⟩
    · rw [if_neg hiso]
      by_cases hagg : sc.2.1 = false
      · rw [if_pos hagg]
        refine Safe.bind (wr_eq st.1 i _ i0 (by rw [h1]; exact hin)) (fun x1 hx1 => ?_)
        have hmark := zc_set_mark 0 n st.1 i.toNat st.2.2 (Nat.zero_le _) hin (by rw [h1]; exact hin) hx0 (by omega)
        rw [← hx1] at hmark
        have hx1s : x1.size = n := by rw [hx1]; simpa using h1
        refine Safe.bind (wr_safe st.2.1 (st.2.2 - 1) i (by omega) (by rw [h2]; omega)) (fun y1 hy1 => ?_)
        refine Safe.bind (P := fun x2 : Array Int => x2.size = n ∧ zc 0 n x2 ≤ zc 0 n x1) ?_ (fun x2 hx2 => ?_)
        · apply forRange_safe (fun x2 : Array Int => x2.size = n ∧ zc 0 n x2 ≤ zc 0 n x1) _ _ _ _
            ⟨hx1s, Nat.le_refl _⟩
          intro jj j1 j2 xa hxa
          have hc := sa_col n ap aj hS i i0 i1 jj j1 j2
          refine Safe.bind (rd_safe aj jj hc.1 hc.2.1) (fun j hj => ?_)
          have hj' : j = aj.getD jj.toNat 0 := hj
          refine Safe.mono (wr_eq xa j st.2.2 (by rw [hj']; exact hc.2.2.1) (by rw [hj', hxa.1]; exact hc.2.2.2))
            (fun xb hxb => ?_)
          have hle := zc_set_le 0 n xa j.toNat st.2.2 (Or.inr (by omega))
          rw [← hxb] at hle
          exact ⟨by rw [hxb]; simpa using hxa.1, Nat.le_trans hle hxa.2⟩
        · exact Safe.pure ⟨hx2.1, by show y1.size = n; rw [hy1, h2], by show 1 ≤ st.2.2 + 1; omega,
            by show st.2.2 + 1 - 1 ≤ i + 1; omega,
            by show st.2.2 + 1 - 1 + (zc 0 n x2 : Int) ≤ n; have := hx2.2; omega⟩
      · rw [if_neg hagg]; exact Safe.pure ⟨h1, h2, h3, by omega, h5⟩

theorem saPass2Row_safe (i : Int) (i0 : 0 ≤ i) (i1 : i < (n : Int)) (x : Array Int) (hx : x.size = n) :
    Safe (saPass2Row ap aj i x) (fun x' => x'.size = n ∧ zc 0 n x' ≤ zc 0 n x) := by
  have hr := sa_rows n ap aj hS i i0 i1
  have hin : i.toNat < n := by omega
  unfold saPass2Row
  refine Safe.bind (rd_safe x i i0 (by rw [hx]; exact hin)) (fun xi _ => ?_)
  by_cases hnz : xi ≠ 0
  · rw [if_pos hnz]; exact Safe.pure ⟨hx, Nat.le_refl _⟩
  · rw [if_neg hnz]
    refine Safe.bind (rd_safe ap i i0 hr.1) (fun s hs => ?_)
    refine Safe.bind (rd_safe ap (i+1) (by omega) hr.2.1) (fun e he => ?_)
    rw [hr.2.2] at he
    have hs' : s = ap.getD i.toNat 0 := hs
    have he' : e = ap.getD (i.toNat + 1) 0 := he
    refine Safe.bind (P := fun r : Array Int × Bool => r.1.size = n ∧ zc 0 n r.1 ≤ zc 0 n x) ?_
      (fun r hr' => Safe.pure hr')
    apply forRange_safe (fun r : Array Int × Bool => r.1.size = n ∧ zc 0 n r.1 ≤ zc 0 n x) s e _ _
      ⟨hx, Nat.le_refl _⟩
    intro jj j1 j2 acc hacc
    by_cases hb : acc.2 = true
    · rw [if_pos hb]; exact Safe.pure hacc
    · rw [if_neg hb]
      have hc := sa_col n ap aj hS i i0 i1 jj (by rw [hs'] at j1; exact j1) (by rw [he'] at j2; exact j2)
      refine Safe.bind (rd_safe aj jj hc.1 hc.2.1) (fun j hj => ?_)
      have hj' : j = aj.getD jj.toNat 0 := hj
      refine Safe.bind (rd_safe acc.1 j (by rw [hj']; exact hc.2.2.1) (by rw [hj', hacc.1]; exact hc.2.2.2)) (fun xj _ => ?_)
      by_cases hpos : xj > 0
      · rw [if_pos hpos]
        refine Safe.bind (wr_eq acc.1 i (-xj) i0 (by rw [hacc.1]; exact hin)) (fun x' hx' => ?_)
        have hle := zc_set_le 0 n acc.1 i.toNat (-xj) (Or.inr (by omega))
        rw [← hx'] at hle
        exact Safe.pure ⟨by rw [hx']; simpa using hacc.1, Nat.le_trans hle hacc.2⟩
      · rw [if_neg hpos]; exact Safe.pure hacc

/-- invariant of pass 3 at row `i` -/
def P3 (n : Nat) (i : Int) (st : Agg) : Prop :=
  st.1.size = n ∧ st.2.1.size = n ∧ 0 ≤ st.2.2 ∧ st.2.2 + (zc i.toNat n st.1 : Int) ≤ (n : Int)

theorem saPass3Row_safe (i : Int) (i0 : 0 ≤ i) (i1 : i < (n : Int)) (st : Agg) (hst : P3 n i st) :
    Safe (saPass3Row n ap aj i st) (P3 n (i + 1)) := by
  obtain ⟨h1, h2, h3, h4⟩ := hst
  have hr := sa_rows n ap aj hS i i0 i1
  have hin : i.toNat < n := by omega
  have hi1 : (i + 1).toNat = i.toNat + 1 := hr.2.2
  have hsucc := zc_succ i.toNat n st.1 hin
  unfold saPass3Row
  refine Safe.bind (rd_safe st.1 i i0 (by rw [h1]; exact hin)) (fun xi hxi => ?_)
  have hxi' : xi = st.1.getD i.toNat 0 := hxi
  by_cases hnz : xi ≠ 0
  · rw [if_pos hnz]
    refine Safe.bind (wr_eq st.1 i _ i0 (by rw [h1]; exact hin)) (fun x' hx' => ?_)
    have hsame := zc_set_below (i.toNat + 1) n st.1 i.toNat (saConv n xi) (by omega)
    rw [← hx'] at hsame
    have hne : ¬ st.1.getD i.toNat 0 = 0 := by rw [← hxi']; exact hnz
    rw [if_neg hne] at hsucc
    exact Safe.pure ⟨by rw [hx']; simpa using h1, h2, h3,
      by show st.2.2 + (zc (i + 1).toNat n x' : Int) ≤ n; rw [hi1, hsame]; omega⟩
  · rw [if_neg hnz]
    have hx0 : st.1.getD i.toNat 0 = 0 := by rw [← hxi']; exact Decidable.not_not.mp hnz
    rw [if_pos hx0] at hsucc
    refine Safe.bind (rd_safe ap i i0 hr.1) (fun s hs => ?_)
    refine Safe.bind (rd_safe ap (i+1) (by omega) hr.2.1) (fun e he => ?_)
    rw [hr.2.2] at he
    have hs' : s = ap.getD i.toNat 0 := hs
    have he' : e = ap.getD (i.toNat + 1) 0 := he
    refine Safe.bind (wr_eq st.1 i st.2.2 i0 (by rw [h1]; exact hin)) (fun x1 hx1 => ?_)
    have hsame := zc_set_below (i.toNat + 1) n st.1 i.toNat st.2.2 (by omega)
    rw [← hx1] at hsame
    have hx1s : x1.size = n := by rw [hx1]; simpa using h1
    -- the root write: next ≤ n - 1 because row i itself is still unmarked
    refine Safe.bind (wr_safe st.2.1 st.2.2 i h3 (by rw [h2]; omega)) (fun y1 hy1 => ?_)
    refine Safe.bind (P := fun x2 : Array Int => x2.size = n ∧ zc (i.toNat + 1) n x2 ≤ zc (i.toNat + 1) n x1) ?_
      (fun x2 hx2 => ?_)
    · apply forRange_safe (fun x2 : Array Int => x2.size = n ∧ zc (i.toNat + 1) n x2 ≤ zc (i.toNat + 1) n x1)
        s e _ _ ⟨hx1s, Nat.le_refl _⟩
      intro jj j1 j2 xa hxa
      have hc := sa_col n ap aj hS i i0 i1 jj (by rw [hs'] at j1; exact j1) (by rw [he'] at j2; exact j2)
      refine Safe.bind (rd_safe aj jj hc.1 hc.2.1) (fun j hj => ?_)
      have hj' : j = aj.getD jj.toNat 0 := hj
      refine Safe.bind (rd_safe xa j (by rw [hj']; exact hc.2.2.1) (by rw [hj', hxa.1]; exact hc.2.2.2)) (fun xj hxj => ?_)
      by_cases hz : xj = 0
      · rw [if_pos hz]
        refine Safe.mono (wr_eq xa j st.2.2 (by rw [hj']; exact hc.2.2.1) (by rw [hj', hxa.1]; exact hc.2.2.2))
          (fun xb hxb => ?_)
        have hold : xa.getD j.toNat 0 = 0 := by
          have : xj = xa.getD j.toNat 0 := hxj
          rw [← this]; exact hz
        have hle := zc_set_le (i.toNat + 1) n xa j.toNat st.2.2 (Or.inl hold)
        rw [← hxb] at hle
        exact ⟨by rw [hxb]; simpa using hxa.1, Nat.le_trans hle hxa.2⟩
      · rw [if_neg hz]; exact Safe.pure hxa
    · exact Safe.pure ⟨hx2.1, by show y1.size = n; rw [hy1, h2], by show 0 ≤ st.2.2 + 1; omega,
        by show st.2.2 + 1 + (zc (i + 1).toNat n x2 : Int) ≤ n; rw [hi1]; have := hx2.2; omega⟩

/-- **`standard_aggregation`**: for every structurally valid `n × n` pattern with `n ≥ 1` and `x`, `y`
of length `n` (as `aggregation/aggregate.py` allocates them) no access leaves its array; the returned
count is between `0` and `n` -/
theorem stdAgg_safe (hn : 1 ≤ n) (x y : Array Int) (hx : x.size = n) (hy : y.size = n) :
    Safe (stdAgg n ap aj x y)
      (fun st => st.1.size = n ∧ st.2.1.size = n ∧ 0 ≤ st.2.2 ∧ st.2.2 ≤ (n : Int)) := by
  unfold stdAgg
  refine Safe.bind (P := fun x0 : Array Int => x0.size = n) ?_ (fun x0 hx0 => ?_)
  · apply forRange_safe (fun x' : Array Int => x'.size = n) 0 (n : Int) _ _ hx
    intro i i0 i1 x' hx'
    exact Safe.mono (wr_safe x' i 0 i0 (by rw [hx']; omega)) (fun a' h => by rw [h, hx'])
  have hz0 := zc_le 0 n x0
  refine Safe.bind (forRange_safe_idx (P1 n) 0 (n : Int) (by omega) (x0, y, (1 : Int)) (saPass1Row n ap aj)
    ⟨hx0, hy, Int.le_refl 1, by show (1 : Int) - 1 ≤ 0; omega, by show (1 : Int) - 1 + (zc 0 n x0 : Int) ≤ n; omega⟩
    (fun i i0 i1 st hst => saPass1Row_safe n ap aj hS hn i i0 i1 st hst)) (fun s1 hs1 => ?_)
  obtain ⟨a1, a2, a3, a4, a5⟩ := hs1
  refine Safe.bind (P := fun x2 : Array Int => x2.size = n ∧ zc 0 n x2 ≤ zc 0 n s1.1) ?_ (fun x2 hx2 => ?_)
  · apply forRange_safe (fun x2 : Array Int => x2.size = n ∧ zc 0 n x2 ≤ zc 0 n s1.1) 0 (n : Int) _ _
      ⟨a1, Nat.le_refl _⟩
    intro i i0 i1 xa hxa
    exact Safe.mono (saPass2Row_safe n ap aj hS i i0 i1 xa hxa.1) (fun xb hxb => ⟨hxb.1, Nat.le_trans hxb.2 hxa.2⟩)
  have key := forRange_safe_idx (P3 n) 0 (n : Int) (by omega) (x2, s1.2.1, s1.2.2 - 1) (saPass3Row n ap aj)
    ⟨hx2.1, a2, by show 0 ≤ s1.2.2 - 1; omega,
      by show s1.2.2 - 1 + (zc (0 : Int).toNat n x2 : Int) ≤ n; have := hx2.2; simp; omega⟩
    (fun i i0 i1 st hst => saPass3Row_safe n ap aj hS i i0 i1 st hst)
  refine Safe.mono key (fun st h => ⟨h.1, h.2.1, h.2.2.1, ?_⟩)
  have := h.2.2.2
  omega

end

end PyamgV.C17
