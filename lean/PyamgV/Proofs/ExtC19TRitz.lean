import PyamgV.Proofs.ExtC19THerm
import PyamgV.Proofs.ExtC19TCxField
import PyamgV.Proofs.ExtC19SVec
import Mathlib.Tactic.Linarith
import Mathlib.Tactic.Positivity

/-! PyamgV (C19, extension E52): **the complex Hermitian case of `_approximate_eigenvalues`**, scalars = pairs `Cx F`
over an ordered field `F` with an exact square root (`Model/ExtC19TCx.lean`).

Module level (`V` any `Cx F`-module with a definite Hermitian form `E`, `ExactC`): for the run
`cRun = aeRun (Ops.ofHerm ..) mDiv (sqrtC sqrt) ltC iszC (ofRe t) false v0 k` of the model

* `cmodel_orthonormal`, `cmodel_H_eq` (`H = V^H A V`), `cmodel_H_herm` (`H` Hermitian tridiagonal for `A = A^H`),
* `cmodel_ritz_rayleigh`: every eigenvalue `theta` of the leading block of `H` is the Rayleigh quotient of a vector
  `x != 0` -- it lies in the numerical range;
* `cmodel_ritz_real`: for Hermitian `A` every Ritz value is real; `cmodel_ritz_between`: `lo <= re theta <= hi` for
  all Rayleigh bounds of `re <x, A x>`; `cmodel_ritz_normSq_le`: `|theta|^2 <= rho^2` for the numerical radius;
  `cmodel_ritz_abs_le`: Hermitian `A` with `|<x, A x>| <= rho <x, x>` (`rho` = spectral radius): `theta` real,
  `|theta| <= rho`, and the number `absC sqrt theta` the code returns is `<= rho`;
* residual of a Ritz pair and breakdown = invariant subspace.

`Vector` level: `cvecRun` (the run the driver executes, over `F` instead of binary64) is carried by `toFn` onto the
module run on `Fin n -> Cx F` with the form `dotH cxRe n`; `cvec_*` restate the theorems for it; `approxEigCx_eq` ties
the list-level function of the driver to that run. -/
set_option linter.unusedSectionVars false
namespace PyamgV.C19T
open PyamgV.C07 PyamgV.CHerm PyamgV.C19S PyamgV.C07.CH

variable {F : Type} [Field F] [LinearOrder F] [IsStrictOrderedRing F]
variable {V : Type} [AddCommGroup V] [Module (Cx F) V]

/-- the order and zero tests of the model over an ordered field -/
abbrev ltF : F → F → Bool := fun a b => decide (a < b)
abbrev iszF : F → Bool := fun a => decide (a = 0)

variable (A AH M : V →ₗ[Cx F] V) (E : HForm (Cx F) F V) (sqrt : F → F) (t : F)

/-- the standing assumptions: definite Hermitian form measured by the real part, exact square root, positive
breakdown tolerance, start vector not zero -/
structure ExactC (v0 : V) : Prop where
  hdef : ∀ v, E.h v v = 0 → v = 0
  hre : ∀ z, E.re z = z.re
  hsq : ∀ a, 0 ≤ a → sqrt a * sqrt a = a
  htol : 0 < t
  hv0 : v0 ≠ 0

variable {E sqrt t}

theorem diag_re_nonneg (hre : ∀ z, E.re z = z.re) (v : V) : 0 ≤ (E.h v v).re := by
  rw [← hre]; exact E.nonneg v

theorem diag_eq_ofRe (v : V) : E.h v v = Cx.ofRe (E.h v v).re := Cx.eq_ofRe_of_star (E.self_star v)

theorem diag_re_pos (hdef : ∀ v, E.h v v = 0 → v = 0) (hre : ∀ z, E.re z = z.re) {v : V} (hv : v ≠ 0) :
    0 < (E.h v v).re := by
  refine lt_of_le_of_ne (diag_re_nonneg hre v) (fun h0 => hv (hdef v ?_))
  rw [diag_eq_ofRe v, ← h0]; rfl

theorem exactH_of_exactC {v0 : V} (hx : ExactC E sqrt t v0) :
    ExactH E (Cx.sqrtC sqrt) (Cx.ltC ltF) (Cx.iszC iszF) (Cx.ofRe t) where
  definite := hx.hdef
  sq v := sqrtC_mul_self sqrt hx.hsq (E.self_star v) (diag_re_nonneg hx.hre v)
  sq_star v := star_sqrtC sqrt _
  lt_ne v hlt := by
    rw [sqrtC_eq_ofRe] at hlt ⊢
    have h1 : ¬ sqrt (E.h v v).re < t := by
      intro hc
      have := (ltC_ofRe (sqrt (E.h v v).re) t).2 hc
      rw [this] at hlt; cases hlt
    have h2 : 0 < sqrt (E.h v v).re := lt_of_lt_of_le hx.htol (not_lt.mp h1)
    intro h0
    have := congrArg Cx.re h0
    simp at this
    exact (ne_of_gt h2) this
  isz_zero z hz := (iszC_iff z).1 hz

/-- the run of the model over the module, general (Arnoldi) branch, pairs over `F` -/
abbrev cRun (E : HForm (Cx F) F V) (sqrt : F → F) (t : F) (v0 : V) (k : Nat) : AeSt (Cx F) V :=
  arnRunH A AH M E (Cx.sqrtC sqrt) (Cx.ltC ltF) (Cx.iszC iszF) (Cx.ofRe t) v0 k

theorem cmodel_F {v0 : V} (hx : ExactC E sqrt t v0) (k : Nat) :
    ArnFH A E (cRun A AH M E sqrt t v0 k).cols.length (basisOf (cRun A AH M E sqrt t v0 k))
      (hEntry (cRun A AH M E sqrt t v0 k).cols) :=
  (aeRunH_inv A AH M E _ _ _ _ (exactH_of_exactC hx) v0 hx.hv0 k).toF

/-- **orthonormal basis** (conjugated inner product): `<v_i, v_j> = 0` for `i != j <= m`, `<v_i, v_i> = 1` for `i < m`
and for `i = m` unless the last pass detected a breakdown; `m + 1` vectors for `m` columns -/
theorem cmodel_orthonormal {v0 : V} (hx : ExactC E sqrt t v0) (k : Nat) :
    let s := cRun A AH M E sqrt t v0 k
    (∀ i j, i ≤ s.cols.length → j ≤ s.cols.length → i ≠ j → E.h (basisOf s i) (basisOf s j) = 0) ∧
    (∀ i, i < s.cols.length → E.h (basisOf s i) (basisOf s i) = 1) ∧
    (s.brk = false → E.h (basisOf s s.cols.length) (basisOf s s.cols.length) = 1) ∧
    s.vs.length = s.cols.length + 1 := by
  intro s
  have hI := aeRunH_inv A AH M E _ _ _ _ (exactH_of_exactC hx) v0 hx.hv0 k
  exact ⟨hI.toF.orth, hI.toF.unit, hI.last, hI.arn.len.symm⟩

/-- **`H = V^H A V`** on the leading block -/
theorem cmodel_H_eq {v0 : V} (hx : ExactC E sqrt t v0) (k : Nat) (i j : Nat)
    (hi : i < (cRun A AH M E sqrt t v0 k).cols.length) (hj : j < (cRun A AH M E sqrt t v0 k).cols.length) :
    E.h (basisOf (cRun A AH M E sqrt t v0 k) i) (A (basisOf (cRun A AH M E sqrt t v0 k) j))
      = hEntry (cRun A AH M E sqrt t v0 k).cols i j :=
  (cmodel_F A AH M hx k).entry i j hi hj

/-- `H` is upper Hessenberg and `A v_j = sum_{l <= m} H_{lj} v_l` for every column -/
theorem cmodel_relation {v0 : V} (hx : ExactC E sqrt t v0) (k : Nat) :
    let s := cRun A AH M E sqrt t v0 k
    (∀ i j, j + 1 < i → hEntry s.cols i j = 0) ∧
    (∀ j, j < s.cols.length → A (basisOf s j) = ∑ l ∈ Finset.range (s.cols.length + 1), hEntry s.cols l j • basisOf s l) :=
  ⟨(cmodel_F A AH M hx k).hess, (cmodel_F A AH M hx k).rel⟩

/-- Hermitian `A`: the leading block of `H` is Hermitian and tridiagonal -/
theorem cmodel_H_herm {v0 : V} (hx : ExactC E sqrt t v0) (hA : ∀ x y, E.h (A x) y = E.h x (A y)) (k : Nat) :
    let s := cRun A AH M E sqrt t v0 k
    (∀ i j, i < s.cols.length → j < s.cols.length → hEntry s.cols i j = star (hEntry s.cols j i)) ∧
    (∀ i j, i < s.cols.length → j < s.cols.length → i + 1 < j → hEntry s.cols i j = 0) :=
  ⟨(cmodel_F A AH M hx k).herm hA, (cmodel_F A AH M hx k).tridiag hA⟩

/-- **every Ritz value lies in the numerical range**: an eigenpair `(theta, y)` of the leading block of `H` gives
`x = V y != 0` with `<x, A x> = theta <x, x>` -/
theorem cmodel_ritz_rayleigh {v0 : V} (hx : ExactC E sqrt t v0) (k : Nat) (θ : Cx F) (y : Nat → Cx F)
    (hr : ArnF.IsRitz (cRun A AH M E sqrt t v0 k).cols.length (hEntry (cRun A AH M E sqrt t v0 k).cols) θ y) :
    ∃ x : V, x ≠ 0 ∧ E.h x (A x) = θ * E.h x x :=
  ⟨_, (cmodel_F A AH M hx k).rv_ne hr, (cmodel_F A AH M hx k).rayleigh hr⟩

/-- real and imaginary part of a Rayleigh quotient -/
theorem rayleigh_parts (hdef : ∀ v, E.h v v = 0 → v = 0) (hre : ∀ z, E.re z = z.re) {x : V} (hxne : x ≠ 0)
    {θ w : Cx F} (h : w = θ * E.h x x) :
    0 < (E.h x x).re ∧ w.re = θ.re * (E.h x x).re ∧ w.im = θ.im * (E.h x x).re := by
  have hp := diag_re_pos hdef hre hxne
  have him : (E.h x x).im = 0 := Cx.im_eq_zero_of_star (E.self_star x)
  refine ⟨hp, ?_, ?_⟩
  · rw [h, Cx.mul_re, him]; ring
  · rw [h, Cx.mul_im, him]; ring

/-- **Hermitian `A`: every Ritz value is real** -/
theorem cmodel_ritz_real {v0 : V} (hx : ExactC E sqrt t v0) (hA : ∀ x y, E.h (A x) y = E.h x (A y)) (k : Nat)
    (θ : Cx F) (y : Nat → Cx F)
    (hr : ArnF.IsRitz (cRun A AH M E sqrt t v0 k).cols.length (hEntry (cRun A AH M E sqrt t v0 k).cols) θ y) :
    θ.im = 0 := by
  obtain ⟨x, hxne, hray⟩ := cmodel_ritz_rayleigh A AH M hx k θ y hr
  obtain ⟨hp, _, h2⟩ := rayleigh_parts hx.hdef hx.hre hxne hray
  have him : (E.h x (A x)).im = 0 := Cx.im_eq_zero_of_star (E.herm_star' hA x)
  rw [him] at h2
  rcases mul_eq_zero.1 h2.symm with h | h
  · exact h
  · exact absurd h (ne_of_gt hp)

/-- **Ritz values within the numerical range**: `lo <= re theta <= hi` for all bounds `lo <x,x> <= re <x, A x> <= hi <x,x>`
(`lo = lambda_min`, `hi = lambda_max` for Hermitian `A`) -/
theorem cmodel_ritz_between {v0 : V} (hx : ExactC E sqrt t v0) (k : Nat) (lo hi : F)
    (hlo : ∀ x, lo * (E.h x x).re ≤ (E.h x (A x)).re) (hhi : ∀ x, (E.h x (A x)).re ≤ hi * (E.h x x).re)
    (θ : Cx F) (y : Nat → Cx F)
    (hr : ArnF.IsRitz (cRun A AH M E sqrt t v0 k).cols.length (hEntry (cRun A AH M E sqrt t v0 k).cols) θ y) :
    lo ≤ θ.re ∧ θ.re ≤ hi := by
  obtain ⟨x, hxne, hray⟩ := cmodel_ritz_rayleigh A AH M hx k θ y hr
  obtain ⟨hp, h1, _⟩ := rayleigh_parts hx.hdef hx.hre hxne hray
  have a := hlo x
  have b := hhi x
  rw [h1] at a b
  exact ⟨le_of_mul_le_mul_right a hp, le_of_mul_le_mul_right b hp⟩

/-- **`|theta|^2 <= rho^2`** whenever `|<x, A x>|^2 <= rho^2 <x, x>^2` (numerical radius; any `A`) -/
theorem cmodel_ritz_normSq_le {v0 : V} (hx : ExactC E sqrt t v0) (k : Nat) (ρ : F)
    (hray : ∀ x, Cx.normSq (E.h x (A x)) ≤ ρ ^ 2 * (E.h x x).re ^ 2)
    (θ : Cx F) (y : Nat → Cx F)
    (hr : ArnF.IsRitz (cRun A AH M E sqrt t v0 k).cols.length (hEntry (cRun A AH M E sqrt t v0 k).cols) θ y) :
    Cx.normSq θ ≤ ρ ^ 2 := by
  obtain ⟨x, hxne, hr'⟩ := cmodel_ritz_rayleigh A AH M hx k θ y hr
  obtain ⟨hp, h1, h2⟩ := rayleigh_parts hx.hdef hx.hre hxne hr'
  have a := hray x
  unfold Cx.normSq at a ⊢
  rw [h1, h2] at a
  have hp2 : 0 < (E.h x x).re ^ 2 := by positivity
  have : (θ.re * θ.re + θ.im * θ.im) * (E.h x x).re ^ 2 ≤ ρ ^ 2 * (E.h x x).re ^ 2 := by
    calc (θ.re * θ.re + θ.im * θ.im) * (E.h x x).re ^ 2
        = θ.re * (E.h x x).re * (θ.re * (E.h x x).re) + θ.im * (E.h x x).re * (θ.im * (E.h x x).re) := by ring
      _ ≤ _ := a
  exact le_of_mul_le_mul_right this hp2

/-- **Hermitian `A`, `|<x, A x>| <= rho <x, x>` (`rho` = spectral radius): every Ritz value is real with
`|theta| <= rho`** -/
theorem cmodel_ritz_abs_le {v0 : V} (hx : ExactC E sqrt t v0) (hA : ∀ x y, E.h (A x) y = E.h x (A y)) (k : Nat) (ρ : F)
    (hray : ∀ x, |(E.h x (A x)).re| ≤ ρ * (E.h x x).re)
    (θ : Cx F) (y : Nat → Cx F)
    (hr : ArnF.IsRitz (cRun A AH M E sqrt t v0 k).cols.length (hEntry (cRun A AH M E sqrt t v0 k).cols) θ y) :
    θ.im = 0 ∧ |θ.re| ≤ ρ := by
  refine ⟨cmodel_ritz_real A AH M hx hA k θ y hr, ?_⟩
  obtain ⟨x, hxne, hr'⟩ := cmodel_ritz_rayleigh A AH M hx k θ y hr
  obtain ⟨hp, h1, _⟩ := rayleigh_parts hx.hdef hx.hre hxne hr'
  have a := hray x
  rw [h1, abs_mul, abs_of_pos hp] at a
  exact le_of_mul_le_mul_right a hp

/-- `np.abs(theta)` as the model computes it (`absC sqrt`) is bounded by `rho` when `|theta|^2 <= rho^2` -/
theorem absC_le_of_normSq_le (hsq : ∀ a, 0 ≤ a → sqrt a * sqrt a = a) (hs0 : ∀ a, 0 ≤ sqrt a) {θ : Cx F} {ρ : F}
    (hρ : 0 ≤ ρ) (h : Cx.normSq θ ≤ ρ ^ 2) : (Cx.absC sqrt θ).re ≤ ρ := by
  have h1 := absC_sq sqrt hsq θ
  have h0 : 0 ≤ (Cx.absC sqrt θ).re := hs0 _
  by_contra hc
  have hc' : ρ < (Cx.absC sqrt θ).re := not_le.mp hc
  have : ρ ^ 2 < (Cx.absC sqrt θ).re * (Cx.absC sqrt θ).re := by nlinarith
  rw [h1] at this
  exact absurd h (not_le.mpr this)

/-- real `theta`: `|theta|^2 = (re theta)^2` -/
theorem normSq_of_real {θ : Cx F} (h : θ.im = 0) : Cx.normSq θ = θ.re ^ 2 := by
  unfold Cx.normSq; rw [h]; ring

/-- **the returned estimate**: for Hermitian `A` with `|<x, A x>| <= rho <x, x>`, the number `abs(theta)` computed
from any Ritz value of any run is `<= rho` -/
theorem cmodel_estimate_le {v0 : V} (hx : ExactC E sqrt t v0) (hs0 : ∀ a, 0 ≤ sqrt a)
    (hA : ∀ x y, E.h (A x) y = E.h x (A y)) (k : Nat) (ρ : F)
    (hray : ∀ x, |(E.h x (A x)).re| ≤ ρ * (E.h x x).re)
    (θ : Cx F) (y : Nat → Cx F)
    (hr : ArnF.IsRitz (cRun A AH M E sqrt t v0 k).cols.length (hEntry (cRun A AH M E sqrt t v0 k).cols) θ y) :
    (Cx.absC sqrt θ).re ≤ ρ := by
  obtain ⟨him, hle⟩ := cmodel_ritz_abs_le A AH M hx hA k ρ hray θ y hr
  have hρ : 0 ≤ ρ := le_trans (abs_nonneg _) hle
  apply absC_le_of_normSq_le hx.hsq hs0 hρ
  rw [normSq_of_real him]
  exact sq_le_sq' (neg_le_of_abs_le hle) (le_of_abs_le hle)

/-- residual of a Ritz pair: `A x - theta x = (H_{m,m-1} y_{m-1}) v_m`, `x = V y != 0` -/
theorem cmodel_residual {v0 : V} (hx : ExactC E sqrt t v0) (k : Nat) (θ : Cx F) (y : Nat → Cx F)
    (hr : ArnF.IsRitz (cRun A AH M E sqrt t v0 k).cols.length (hEntry (cRun A AH M E sqrt t v0 k).cols) θ y) :
    let s := cRun A AH M E sqrt t v0 k
    A (ArnF.rv s.cols.length (basisOf s) y) - θ • ArnF.rv s.cols.length (basisOf s) y
      = (hEntry s.cols s.cols.length (s.cols.length - 1) * y (s.cols.length - 1)) • basisOf s s.cols.length ∧
    ArnF.rv s.cols.length (basisOf s) y ≠ 0 :=
  ⟨(cmodel_F A AH M hx k).residual hr, (cmodel_F A AH M hx k).rv_ne hr⟩

/-- breakdown = invariant subspace -/
theorem cmodel_breakdown_eigen {v0 : V} (hx : ExactC E sqrt t v0) (k : Nat) (θ : Cx F) (y : Nat → Cx F)
    (hr : ArnF.IsRitz (cRun A AH M E sqrt t v0 k).cols.length (hEntry (cRun A AH M E sqrt t v0 k).cols) θ y)
    (h0 : hEntry (cRun A AH M E sqrt t v0 k).cols (cRun A AH M E sqrt t v0 k).cols.length
      ((cRun A AH M E sqrt t v0 k).cols.length - 1) = 0) :
    let s := cRun A AH M E sqrt t v0 k
    A (ArnF.rv s.cols.length (basisOf s) y) = θ • ArnF.rv s.cols.length (basisOf s) y ∧
    ArnF.rv s.cols.length (basisOf s) y ≠ 0 :=
  (cmodel_F A AH M hx k).eigen_of_breakdown hr h0

/-! ### the `Vector (Cx F) n` instance the driver runs -/
section vec
variable {n : Nat} (Am : Vector (Vector (Cx F) n) n)

/-- elementwise division, as in `approxEigVecG` -/
def cvDiv (v : Vector (Cx F) n) (c : Cx F) : Vector (Cx F) n := v.map (· / c)

theorem cvDiv_hom (v : Vector (Cx F) n) (c : Cx F) : toFn (cvDiv v c) = mDiv (toFn v) c := by
  funext i
  simp only [toFn, cvDiv, mDiv, Fin.getElem_fin, Vector.getElem_map, Pi.smul_apply, smul_eq_mul]
  ring

/-- the operations of `approxEigVecG Cx.conj` -/
abbrev cvOps : Ops (Cx F) (Vector (Cx F) n) := vecOps Cx.conj Am Am

/-- the module-level operations they are carried onto: `Fin n -> Cx F` with `<u, v> = sum conj(u_i) v_i` -/
abbrev cmOps : Ops (Cx F) (Fin n → Cx F) :=
  Ops.ofHerm (linOf Am) (linOf (vctrans star Am)) (linOf Am) (dotH cxRe n)

theorem cvOps_hom : OpsHom toFn (cvOps Am) (cmOps Am) := by
  have H := opsHomH_vec (cxRe (F := F)) Am Am
  exact ⟨H.add, H.sub, H.smul, H.dot, H.A, H.M⟩

/-- the run the driver executes (over `F` instead of binary64), either branch -/
abbrev cvecRun (sqrt : F → F) (t : F) (symmetric : Bool) (v0 : Vector (Cx F) n) (k : Nat) :
    AeSt (Cx F) (Vector (Cx F) n) :=
  aeRun (cvOps Am) cvDiv (Cx.sqrtC sqrt) (Cx.ltC ltF) (Cx.iszC iszF) (Cx.ofRe t) symmetric v0 k

/-- the module-level run of the general branch -/
abbrev cmodRun (sqrt : F → F) (t : F) (v0 : Vector (Cx F) n) (k : Nat) : AeSt (Cx F) (Fin n → Cx F) :=
  cRun (linOf Am) (linOf (vctrans star Am)) (linOf Am) (dotH cxRe n) sqrt t (toFn v0) k

theorem cvecRun_map (sqrt : F → F) (t : F) (v0 : Vector (Cx F) n) (k : Nat) :
    mapAe toFn (cvecRun Am sqrt t false v0 k) = cmodRun Am sqrt t v0 k :=
  aeRun_hom toFn _ _ (cvOps_hom Am) cvDiv mDiv cvDiv_hom _ _ _ _ false v0 k

theorem cvecRun_cols (sqrt : F → F) (t : F) (v0 : Vector (Cx F) n) (k : Nat) :
    (cvecRun Am sqrt t false v0 k).cols = (cmodRun Am sqrt t v0 k).cols ∧
    (cvecRun Am sqrt t false v0 k).brk = (cmodRun Am sqrt t v0 k).brk ∧
    (cvecRun Am sqrt t false v0 k).vs.map toFn = (cmodRun Am sqrt t v0 k).vs := by
  rw [← cvecRun_map]; exact ⟨rfl, rfl, rfl⟩

/-- the list-level function the driver calls (`approxEigCx`, binary64 in `approxEigCFloat`) is the `Vector` run of
`min(n, maxiter)` passes -/
theorem approxEigCx_eq (A : List (List (Cx F))) (symmetric : Bool) (maxiter : Nat) (v0 : List (Cx F))
    (A' : Vector (Vector (Cx F) v0.length) v0.length) (v0' : Vector (Cx F) v0.length)
    (hA : toMat? v0.length A = some A') (hv : toVec? v0.length v0 = some v0') (hm : min v0.length maxiter ≠ 0) :
    approxEigCx sqrt ltF iszF A (Cx.ofRe t) symmetric maxiter v0 =
      some (((cvecRun A' sqrt t symmetric v0' (min v0.length maxiter)).vs.map (·.toList)),
        (cvecRun A' sqrt t symmetric v0' (min v0.length maxiter)).cols,
        (cvecRun A' sqrt t symmetric v0' (min v0.length maxiter)).brk) := by
  simp only [approxEigCx, approxEigVecG, hA, hv, approxEig, hm, if_false]
  rfl

theorem exactC_vec (hsq : ∀ a, 0 ≤ a → sqrt a * sqrt a = a) (htol : 0 < t) (v0 : Vector (Cx F) n)
    (hv0 : toFn v0 ≠ 0) : ExactC (dotH (cxRe (F := F)) n) sqrt t (toFn v0) :=
  ⟨dotH_def cxRe, fun _ => rfl, hsq, htol, hv0⟩

/-- the basis of the vector run, read in `(Cx F)^n` -/
def cvecBasis (s : AeSt (Cx F) (Vector (Cx F) n)) (i : Nat) : Fin n → Cx F := (s.vs.map toFn).getD i 0

/-- `u^H v` -/
abbrev cdot (n : Nat) (u v : Fin n → Cx F) : Cx F := (dotH (cxRe (F := F)) n).h u v

/-- **orthonormal basis and `H = V^H A V` for the `Vector` run** -/
theorem cvec_orthonormal (hsq : ∀ a, 0 ≤ a → sqrt a * sqrt a = a) (htol : 0 < t) (v0 : Vector (Cx F) n)
    (hv0 : toFn v0 ≠ 0) (k : Nat) :
    let s := cvecRun Am sqrt t false v0 k
    (∀ i j, i ≤ s.cols.length → j ≤ s.cols.length → i ≠ j → cdot n (cvecBasis s i) (cvecBasis s j) = 0) ∧
    (∀ i, i < s.cols.length → cdot n (cvecBasis s i) (cvecBasis s i) = 1) ∧
    (s.brk = false → cdot n (cvecBasis s s.cols.length) (cvecBasis s s.cols.length) = 1) ∧
    (∀ i j, i < s.cols.length → j < s.cols.length →
      cdot n (cvecBasis s i) (linOf Am (cvecBasis s j)) = hEntry s.cols i j) := by
  intro s
  obtain ⟨hc, hb, hv⟩ := cvecRun_cols Am sqrt t v0 k
  have hx := exactC_vec hsq htol v0 hv0
  obtain ⟨o1, o2, o3, _⟩ := cmodel_orthonormal (linOf Am) (linOf (vctrans star Am)) (linOf Am) hx k
  have hbas : cvecBasis s = basisOf (cmodRun Am sqrt t v0 k) := by
    funext i; simp only [cvecBasis, basisOf]; rw [← hv]
  refine ⟨?_, ?_, ?_, ?_⟩
  · intro i j hi hj hij
    rw [hbas]; exact o1 i j (by rw [← hc]; exact hi) (by rw [← hc]; exact hj) hij
  · intro i hi
    rw [hbas]; exact o2 i (by rw [← hc]; exact hi)
  · intro hbf
    rw [hbas]
    have := o3 (by rw [← hb]; exact hbf)
    rw [← hc] at this; exact this
  · intro i j hi hj
    rw [hbas]
    have := cmodel_H_eq (linOf Am) (linOf (vctrans star Am)) (linOf Am) hx k i j
      (by rw [← hc]; exact hi) (by rw [← hc]; exact hj)
    rw [← hc] at this; exact this

/-- **`A = A^H` entrywise: `H` of the `Vector` run is Hermitian and tridiagonal** -/
theorem cvec_H_herm (hsq : ∀ a, 0 ≤ a → sqrt a * sqrt a = a) (htol : 0 < t) (v0 : Vector (Cx F) n)
    (hv0 : toFn v0 ≠ 0) (hA : IsHerm Am) (k : Nat) :
    let s := cvecRun Am sqrt t false v0 k
    (∀ i j, i < s.cols.length → j < s.cols.length → hEntry s.cols i j = star (hEntry s.cols j i)) ∧
    (∀ i j, i < s.cols.length → j < s.cols.length → i + 1 < j → hEntry s.cols i j = 0) := by
  intro s
  obtain ⟨hc, _, _⟩ := cvecRun_cols Am sqrt t v0 k
  have hx := exactC_vec hsq htol v0 hv0
  have := cmodel_H_herm (linOf Am) (linOf (vctrans star Am)) (linOf Am) hx (linOf_herm cxRe hA) k
  simp only at this
  rw [← hc] at this
  exact this

/-- **Ritz values of the `Vector` run** (general branch): in the numerical range; for a Hermitian matrix real, between
all Rayleigh bounds, and `|theta| <= rho`, also for the number `absC sqrt theta` the code returns -/
theorem cvec_ritz (hsq : ∀ a, 0 ≤ a → sqrt a * sqrt a = a) (htol : 0 < t) (v0 : Vector (Cx F) n)
    (hv0 : toFn v0 ≠ 0) (k : Nat) (θ : Cx F) (y : Nat → Cx F)
    (hr : ArnF.IsRitz (cvecRun Am sqrt t false v0 k).cols.length (hEntry (cvecRun Am sqrt t false v0 k).cols) θ y) :
    (∃ x : Fin n → Cx F, x ≠ 0 ∧ cdot n x (linOf Am x) = θ * cdot n x x) ∧
    (∀ lo hi, (∀ x, lo * (cdot n x x).re ≤ (cdot n x (linOf Am x)).re) →
      (∀ x, (cdot n x (linOf Am x)).re ≤ hi * (cdot n x x).re) → lo ≤ θ.re ∧ θ.re ≤ hi) ∧
    (∀ ρ, (∀ x, Cx.normSq (cdot n x (linOf Am x)) ≤ ρ ^ 2 * (cdot n x x).re ^ 2) → Cx.normSq θ ≤ ρ ^ 2) ∧
    (IsHerm Am → θ.im = 0 ∧ ∀ ρ, (∀ x, |(cdot n x (linOf Am x)).re| ≤ ρ * (cdot n x x).re) →
      |θ.re| ≤ ρ ∧ ((∀ a, 0 ≤ sqrt a) → (Cx.absC sqrt θ).re ≤ ρ)) := by
  obtain ⟨hc, _, _⟩ := cvecRun_cols Am sqrt t v0 k
  have hx := exactC_vec hsq htol v0 hv0
  rw [hc] at hr
  refine ⟨cmodel_ritz_rayleigh _ _ _ hx k θ y hr,
    fun lo hi hlo hhi => cmodel_ritz_between _ _ _ hx k lo hi hlo hhi θ y hr,
    fun ρ hray => cmodel_ritz_normSq_le _ _ _ hx k ρ hray θ y hr, ?_⟩
  intro hA
  have hA' := linOf_herm (cxRe (F := F)) hA
  refine ⟨cmodel_ritz_real _ _ _ hx hA' k θ y hr, fun ρ hray => ⟨?_, fun hs0 => ?_⟩⟩
  · exact (cmodel_ritz_abs_le _ _ _ hx hA' k ρ hray θ y hr).2
  · exact cmodel_estimate_le _ _ _ hx hs0 hA' k ρ hray θ y hr

end vec

#print axioms cmodel_ritz_abs_le
#print axioms cmodel_ritz_normSq_le
#print axioms cvec_orthonormal
#print axioms cvec_ritz
#print axioms approxEigCx_eq
end PyamgV.C19T
