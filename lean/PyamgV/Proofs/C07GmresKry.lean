import PyamgV.Proofs.C07GmresOpt

/-! PyamgV (C07, GMRES with modified Gram–Schmidt): without breakdown the Arnoldi basis the executable
model builds spans the preconditioned Krylov space, `span{v_0 … v_m} = K_{m+1}(MA, M r₀)`
(`gmres_basis_span`), so `gmres_mgs_model_optimal` is optimality over `x₀ + K_{m+1}(MA, M r₀)`:
`gmres_mgs_model_optimal_krylov`. -/
namespace PyamgV.C07
open Finset

variable {K : Type} [Field K] [LinearOrder K] [IsStrictOrderedRing K]
variable {V : Type} [AddCommGroup V] [Module K V]
variable (A AH M : V →ₗ[K] V) (e : EForm K V) (sqrt : K → K) (n : Nat) (b x0 : V)

local notation "St" => gmSeq A AH M e sqrt nzK n b x0

/-- basis vectors, once computed, stay where they are -/
theorem vs_stable (hsq : ∀ a, 0 ≤ a → sqrt a * sqrt a = a) (j : Nat) :
    ∀ d, (St (j + d)).vs.getD j 0 = (St j).vs.getD j 0
  | 0 => rfl
  | d+1 => by
    obtain ⟨w, hw⟩ := gmSeq_vs_succ A AH M e sqrt n b x0 (j + d)
    have : j + (d + 1) = (j + d) + 1 := by omega
    rw [this, hw, getD_append_lt _ _ _ _ (by
      rw [(givInv_all A AH M e sqrt n b x0 hsq (j + d)).lvs]; omega)]
    exact vs_stable hsq j d

/-- the vector and the column produced by step `m` -/
theorem step_new (m : Nat) (hsq : ∀ a, 0 ≤ a → sqrt a * sqrt a = a) :
    let a := GS.arnoldiStep e sqrt (M ∘ₗ A) (St m).vs ((St m).vs.getLast?.getD x0)
    (St (m+1)).vs.getD (m+1) 0 = a.1 ∧ (St (m+1)).cols.getD m [] = a.2 := by
  intro a
  have hstep : St (m+1) = gmresStep (Ops.ofModule A AH M e) sqrt posK nzK n x0 (St m) := rfl
  have hG := givInv_all A AH M e sqrt n b x0 hsq m
  rw [hstep]
  simp only [gmresStep, arnoldiO_eq]
  constructor
  · have := getD_append_len (St m).vs a.1 (0 : V)
    rw [hG.lvs] at this; exact this
  · have := getD_append_len (St m).cols a.2 ([] : List K)
    rw [hG.lcols] at this; exact this

/-- a non-zero new basis vector comes with a non-zero subdiagonal entry `H_{m+1,m}` -/
theorem arn_last (B : V →ₗ[K] V) (vs : List V) (vk : V)
    (h : (GS.arnoldiStep e sqrt B vs vk).1 ≠ 0) :
    F (GS.arnoldiStep e sqrt B vs vk).2 vs.length ≠ 0 := by
  unfold GS.arnoldiStep at h ⊢
  simp only at h ⊢
  have hl : (GS.orth e vs (B vk)).2.length = vs.length := orth_len e vs (B vk)
  have : F ((GS.orth e vs (B vk)).2 ++ [(GS.newCol e sqrt 0 (GS.orth e vs (B vk)).1).2]) vs.length =
      (GS.newCol e sqrt 0 (GS.orth e vs (B vk)).1).2 := by
    rw [← hl]; exact F_append_len _ _
  rw [this]
  unfold GS.newCol at h ⊢
  simp only at h ⊢
  by_cases hp : sqrt (e.a (GS.orth e vs (B vk)).1 (GS.orth e vs (B vk)).1) > 0
  · rw [if_pos hp]; exact ne_of_gt hp
  · rw [if_neg hp] at h; exact absurd rfl h

variable (hdef : ∀ v, e.a v v = 0 → v = 0) (hsq : ∀ a, 0 ≤ a → sqrt a * sqrt a = a) (hsq0 : ∀ a, 0 ≤ sqrt a)

/-- span of the first `j+1` basis vectors of state `m` -/
def vspan (m j : Nat) : Submodule K V :=
  Submodule.span K {v | ∃ l, l ≤ j ∧ v = (St m).vs.getD l 0}

include hdef hsq hsq0 in
/-- both inclusions, by induction on the state index -/
theorem basis_krylov (hbeta : sqrt (e.a (M (b - A x0)) (M (b - A x0))) ≠ 0) :
    ∀ m, (∀ j, j ≤ m → (St j).vs.getD j 0 ≠ 0) →
      (∀ j, j ≤ m → (St m).vs.getD j 0 ∈ PCG.kry A M e b x0 (j+1)) ∧
      (∀ j, j ≤ m → ((M ∘ₗ A) ^ j) (M (b - A x0)) ∈ vspan A AH M e sqrt n b x0 m j) := by
  intro m
  induction m with
  | zero =>
    intro _
    have hv0 : (St 0).vs.getD 0 0 =
        (1 / sqrt (e.a (M (b - A x0)) (M (b - A x0)))) • M (b - A x0) := by
      simp only [gmSeq, iter, gmresInit, Ops.ofModule, List.getD_cons_zero]
    constructor
    · intro j hj
      have : j = 0 := by omega
      subst this
      rw [hv0]
      exact Submodule.smul_mem _ _ (Submodule.subset_span ⟨0, by omega, by simp [PCG.seq, PCG.init]⟩)
    · intro j hj
      have : j = 0 := by omega
      subst this
      have : M (b - A x0) = sqrt (e.a (M (b - A x0)) (M (b - A x0))) • (St 0).vs.getD 0 0 := by
        rw [hv0, smul_smul, mul_one_div_cancel hbeta, one_smul]
      simp only [pow_zero, Module.End.one_apply]
      rw [this]
      exact Submodule.smul_mem _ _ (Submodule.subset_span ⟨0, le_refl 0, rfl⟩)
  | succ m ih =>
    intro hnz
    obtain ⟨ihP, ihQ⟩ := ih (fun j hj => hnz j (by omega))
    obtain ⟨w, hw⟩ := gmSeq_vs_succ A AH M e sqrt n b x0 m
    have hGm := givInv_all A AH M e sqrt n b x0 hsq m
    have hG := givInv_all A AH M e sqrt n b x0 hsq (m+1)
    have hA := gmres_model_arnoldi A AH M e sqrt nzK n b x0 hdef hsq hsq0 (m+1)
    have hold : ∀ j, j ≤ m → (St (m+1)).vs.getD j 0 = (St m).vs.getD j 0 := by
      intro j hj; rw [hw, getD_append_lt _ _ _ _ (by rw [hGm.lvs]; omega)]
    -- the Arnoldi relation for column m, split at the last term
    have hrel : (M ∘ₗ A) ((St (m+1)).vs.getD m 0) =
        ∑ l ∈ range (m+1), F ((St (m+1)).cols.getD m []) l • (St (m+1)).vs.getD l 0 +
          F ((St (m+1)).cols.getD m []) (m+1) • (St (m+1)).vs.getD (m+1) 0 := by
      rw [hA.rel m (by rw [hG.lcols]; omega), comb_eq_sum _ _ (hA.clen m (by rw [hG.lcols]; omega)),
        hG.lvs, Finset.sum_range_succ]
    have hsub : F ((St (m+1)).cols.getD m []) (m+1) ≠ 0 := by
      obtain ⟨h1, h2⟩ := step_new A AH M e sqrt n b x0 m hsq
      rw [h2]
      have := arn_last e sqrt (M ∘ₗ A) (St m).vs ((St m).vs.getLast?.getD x0)
        (by rw [← h1]; exact hnz (m+1) (le_refl _))
      rw [hGm.lvs] at this; exact this
    -- spans of the old state sit inside those of the new one
    have hvspan_old : ∀ j, j ≤ m → vspan A AH M e sqrt n b x0 m j ≤ vspan A AH M e sqrt n b x0 (m+1) j := by
      intro j hj
      apply Submodule.span_mono
      rintro v ⟨l, hl, rfl⟩
      exact ⟨l, hl, (hold l (by omega)).symm⟩
    have hvspan_mono : ∀ i j, i ≤ j → vspan A AH M e sqrt n b x0 (m+1) i ≤ vspan A AH M e sqrt n b x0 (m+1) j := by
      intro i j hij
      apply Submodule.span_mono
      rintro v ⟨l, hl, rfl⟩
      exact ⟨l, by omega, rfl⟩
    constructor
    · intro j hj
      by_cases hjm : j ≤ m
      · rw [hold j hjm]; exact ihP j hjm
      · have : j = m + 1 := by omega
        subst this
        -- H_{m+1,m} v_{m+1} = B v_m − Σ_{l ≤ m} H_{l m} v_l ∈ K_{m+2}
        have hBv : (M ∘ₗ A) ((St (m+1)).vs.getD m 0) ∈ PCG.kry A M e b x0 (m+2) := by
          rw [hold m (le_refl m)]
          exact PCG.MA_kry (ihP m (le_refl m))
        have hsum : ∑ l ∈ range (m+1), F ((St (m+1)).cols.getD m []) l • (St (m+1)).vs.getD l 0 ∈
            PCG.kry A M e b x0 (m+2) := by
          apply Submodule.sum_mem
          intro l hl
          have hlm : l ≤ m := by have := Finset.mem_range.mp hl; omega
          rw [hold l hlm]
          exact Submodule.smul_mem _ _ (PCG.kry_mono (by omega) (ihP l hlm))
        have hmem : F ((St (m+1)).cols.getD m []) (m+1) • (St (m+1)).vs.getD (m+1) 0 ∈
            PCG.kry A M e b x0 (m+2) := by
          have : F ((St (m+1)).cols.getD m []) (m+1) • (St (m+1)).vs.getD (m+1) 0 =
              (M ∘ₗ A) ((St (m+1)).vs.getD m 0) -
                ∑ l ∈ range (m+1), F ((St (m+1)).cols.getD m []) l • (St (m+1)).vs.getD l 0 := by
            rw [hrel]; abel
          rw [this]; exact Submodule.sub_mem _ hBv hsum
        have := Submodule.smul_mem _ (F ((St (m+1)).cols.getD m []) (m+1))⁻¹ hmem
        rwa [smul_smul, inv_mul_cancel₀ hsub, one_smul] at this
    · intro j hj
      by_cases hjm : j ≤ m
      · exact hvspan_old j hjm (ihQ j hjm)
      · have : j = m + 1 := by omega
        subst this
        rw [pow_succ', Module.End.mul_apply]
        -- B maps span{v_0..v_m} into span{v_0..v_{m+1}}
        have hB : ∀ v ∈ vspan A AH M e sqrt n b x0 (m+1) m,
            (M ∘ₗ A) v ∈ vspan A AH M e sqrt n b x0 (m+1) (m+1) := by
          intro v hv
          induction hv using Submodule.span_induction with
          | mem v hv =>
            obtain ⟨l, hl, rfl⟩ := hv
            rw [hA.rel l (by rw [hG.lcols]; omega), comb_eq_sum _ _ (hA.clen l (by rw [hG.lcols]; omega)), hG.lvs]
            apply Submodule.sum_mem
            intro i hi
            exact Submodule.smul_mem _ _ (Submodule.subset_span
              ⟨i, by have := Finset.mem_range.mp hi; omega, rfl⟩)
          | zero => simp
          | add u w _ _ hu hw => rw [map_add]; exact Submodule.add_mem _ hu hw
          | smul c u _ hu => rw [map_smul]; exact Submodule.smul_mem _ _ hu
        exact hB _ (hvspan_old m (le_refl m) (ihQ m (le_refl m)))

include hdef hsq hsq0 in
/-- **the Arnoldi basis spans the preconditioned Krylov space** -/
theorem gmres_basis_span (hbeta : sqrt (e.a (M (b - A x0)) (M (b - A x0))) ≠ 0) (m : Nat)
    (hnz : ∀ j, j ≤ m → (St j).vs.getD j 0 ≠ 0) :
    Submodule.span K (Set.range (fun j : Fin (m+1) => (St (m+1)).vs.getD j 0)) = PCG.kry A M e b x0 (m+1) := by
  obtain ⟨hP, hQ⟩ := basis_krylov A AH M e sqrt n b x0 hdef hsq hsq0 hbeta m hnz
  have hstab : ∀ j, j ≤ m → (St (m+1)).vs.getD j 0 = (St m).vs.getD j 0 := by
    intro j hj
    have h1 := vs_stable A AH M e sqrt n b x0 hsq j (m + 1 - j)
    have h2 := vs_stable A AH M e sqrt n b x0 hsq j (m - j)
    have e1 : j + (m + 1 - j) = m + 1 := by omega
    have e2 : j + (m - j) = m := by omega
    rw [e1] at h1; rw [e2] at h2
    rw [h1, h2]
  apply le_antisymm
  · apply Submodule.span_le.mpr
    rintro v ⟨j, rfl⟩
    have hj : (j : Nat) ≤ m := by have := j.2; omega
    show (St (m+1)).vs.getD j 0 ∈ PCG.kry A M e b x0 (m+1)
    rw [hstab j hj]
    exact PCG.kry_mono (by omega) (hP j hj)
  · apply Submodule.span_le.mpr
    rintro v ⟨j, hj, rfl⟩
    have hmem := hQ j (by omega)
    have hle : vspan A AH M e sqrt n b x0 m j ≤
        Submodule.span K (Set.range (fun j : Fin (m+1) => (St (m+1)).vs.getD j 0)) := by
      apply Submodule.span_le.mpr
      rintro w ⟨l, hl, rfl⟩
      refine Submodule.subset_span ⟨⟨l, by omega⟩, ?_⟩
      exact hstab l (by omega)
    have h0 : (PCG.seq A M e b x0 0).r = b - A x0 := rfl
    rw [h0]
    exact hle hmem

include hdef hsq hsq0 in
/-- **GMRES (MGS), executable model, C07 as stated**: after `m+1 < n` inner iterations without breakdown
the recorded iterate lies in `x₀ + K_{m+1}(MA, M r₀)` and minimises the 2-norm of the preconditioned
residual `M (b − A x)` over it -/
theorem gmres_mgs_model_optimal_krylov (m : Nat) (hmn : m + 1 < n)
    (hbeta : sqrt (e.a (M (b - A x0)) (M (b - A x0))) ≠ 0)
    (hnbv : ∀ i, i ≤ m + 1 → e.a ((St (m+1)).vs.getD i 0) ((St (m+1)).vs.getD i 0) ≠ 0)
    (hnbr : ∀ i, i < m + 1 → Rent (St (m+1)).rcols i i ≠ 0) :
    ∃ xk, (St (m+1)).xs.getLast? = some xk ∧ xk - x0 ∈ PCG.kry A M e b x0 (m+1) ∧
      ∀ x', x' - x0 ∈ PCG.kry A M e b x0 (m+1) →
        e.en (M b - (M ∘ₗ A) xk) ≤ e.en (M b - (M ∘ₗ A) x') := by
  have hnz : ∀ j, j ≤ m → (St j).vs.getD j 0 ≠ 0 := by
    intro j hj h0
    have h1 := vs_stable A AH M e sqrt n b x0 hsq j (m + 1 - j)
    have e1 : j + (m + 1 - j) = m + 1 := by omega
    rw [e1] at h1
    apply hnbv j (by omega)
    rw [h1, h0]; simp
  have hspan := gmres_basis_span A AH M e sqrt n b x0 hdef hsq hsq0 hbeta m hnz
  obtain ⟨xk, h1, h2, h3⟩ := gmres_mgs_model_optimal A AH M e sqrt n b x0 hdef hsq hsq0 m hmn hbeta hnbv hnbr
  rw [hspan] at h2 h3
  exact ⟨xk, h1, h2, h3⟩

#print axioms gmres_mgs_model_optimal_krylov
end PyamgV.C07
