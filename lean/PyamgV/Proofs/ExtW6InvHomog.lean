import PyamgV.Proofs.ExtC19bPinv

/-! PyamgV (wave 6, DESIGN 11.13): the executable Gauss-Jordan inverse `Mat.inv` is homogeneous of
degree -1.  For every regular `G` and every scalar `s ≠ 0` the inverse of (an executable matrix
representing) `s • G` exists and is `s⁻¹ •` the inverse of `G` -- there is no absolute pivot or
singular-value cutoff in the model, whatever the units of the matrix.  This is the model-side
statement behind the units part of the C03 check (`part_scaled_coarse`, stored seed C03-11): the
direct coarse solve of the cycle model scales exactly, so the cycle operator of `s • A` is `M / s`. -/
namespace PyamgV.C19
open Matrix
variable {K : Type} [Field K] [DecidableEq K]

/-- **homogeneity of the executable inverse** -/
theorem Mat.inv_homogeneous (n : Nat) (G Gs : Mat K) (s : K) (hs : s ≠ 0) (hn : G.rows = n)
    (hns : Gs.rows = n) (hdet : (toMx n n G).det ≠ 0) (hsc : toMx n n Gs = s • toMx n n G) :
    ∃ Z Zs, Mat.inv G = some Z ∧ Mat.inv Gs = some Zs ∧ toMx n n Zs = s⁻¹ • toMx n n Z := by
  have hdets : (toMx n n Gs).det ≠ 0 := by
    rw [hsc, Matrix.det_smul]
    simp only [Fintype.card_fin]
    exact mul_ne_zero (pow_ne_zero _ hs) hdet
  obtain ⟨Z, hZ, _, hZl⟩ := Mat.inv_total n G hn hdet
  obtain ⟨Zs, hZs, _, hZsl⟩ := Mat.inv_total n Gs hns hdets
  refine ⟨Z, Zs, hZ, hZs, ?_⟩
  rw [hsc] at hZsl
  have h1 : (s • toMx n n Zs) * toMx n n G = 1 := by
    rw [Matrix.smul_mul, ← Matrix.mul_smul]
    exact hZsl
  have hGZ : toMx n n G * toMx n n Z = 1 := mul_eq_one_comm.mp hZl
  have h2 : s • toMx n n Zs = toMx n n Z := by
    calc s • toMx n n Zs = (s • toMx n n Zs) * (toMx n n G * toMx n n Z) := by rw [hGZ, Matrix.mul_one]
      _ = ((s • toMx n n Zs) * toMx n n G) * toMx n n Z := by rw [Matrix.mul_assoc]
      _ = toMx n n Z := by rw [h1, Matrix.one_mul]
  rw [← h2, smul_smul, inv_mul_cancel₀ hs, one_smul]

/-- the solve with the scaled matrix is the unscaled solve divided by `s` (what the units part observes) -/
theorem Mat.inv_homogeneous_solve (n : Nat) (G Gs : Mat K) (s : K) (hs : s ≠ 0) (hn : G.rows = n)
    (hns : Gs.rows = n) (hdet : (toMx n n G).det ≠ 0) (hsc : toMx n n Gs = s • toMx n n G)
    (b : Fin n → K) :
    ∃ Z Zs, Mat.inv G = some Z ∧ Mat.inv Gs = some Zs ∧
      (toMx n n Zs).mulVec (s • b) = (toMx n n Z).mulVec b := by
  obtain ⟨Z, Zs, h1, h2, h3⟩ := Mat.inv_homogeneous n G Gs s hs hn hns hdet hsc
  refine ⟨Z, Zs, h1, h2, ?_⟩
  rw [h3, Matrix.mulVec_smul, Matrix.smul_mulVec, smul_smul, mul_inv_cancel₀ hs, one_smul]

/-- non-vacuity: a concrete regular rational matrix and its multiple by 2^-70 -/
example : Mat.inv (#[#[2, -1], #[-1, 2]] : Mat ℚ) = some #[#[2 / 3, 1 / 3], #[1 / 3, 2 / 3]] ∧
    Mat.inv (#[#[2 / 2 ^ 70, -1 / 2 ^ 70], #[-1 / 2 ^ 70, 2 / 2 ^ 70]] : Mat ℚ)
      = some #[#[2 ^ 70 * (2 / 3), 2 ^ 70 * (1 / 3)], #[2 ^ 70 * (1 / 3), 2 ^ 70 * (2 / 3)]] := by
  constructor <;> decide +kernel

end PyamgV.C19
