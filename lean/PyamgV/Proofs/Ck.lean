/-! PyamgV (C17, engineering): a tiny "checked execution" monad and its Hoare-style rules, so that
the bounds-safety proof of each native kernel is a short, uniform script instead of a bespoke
induction. `Ck α` carries a value and a flag that is cleared by any out-of-range access;
`x.Safe P` says "no access left its array and the result satisfies `P`". Core Lean only.

The kernel `gauss_seidel` is redone in this style at the end (compare `PyamgV.SafeSweep`). -/
namespace PyamgV.Ck

structure Ck (α : Type) where
  val : α
  ok : Bool

instance : Monad Ck where
  pure a := ⟨a, true⟩
  bind x f := ⟨(f x.val).val, x.ok && (f x.val).ok⟩

def Safe {α : Type} (x : Ck α) (P : α → Prop) : Prop := x.ok = true ∧ P x.val

theorem Safe.pure {α : Type} {P : α → Prop} {a : α} (h : P a) : Safe (pure a : Ck α) P :=
  ⟨rfl, h⟩

theorem Safe.bind {α β : Type} {x : Ck α} {f : α → Ck β} {P : α → Prop} {Q : β → Prop}
    (hx : Safe x P) (hf : ∀ a, P a → Safe (f a) Q) : Safe (x >>= f) Q := by
  obtain ⟨h1, h2⟩ := hx
  obtain ⟨h3, h4⟩ := hf x.val h2
  exact ⟨by show (x.ok && (f x.val).ok) = true; rw [h1, h3]; rfl, h4⟩

theorem Safe.mono {α : Type} {x : Ck α} {P Q : α → Prop} (hx : Safe x P) (h : ∀ a, P a → Q a) :
    Safe x Q := ⟨hx.1, h _ hx.2⟩

/-! ### checked array access with signed indices -/

def rd {α : Type} [Inhabited α] (a : Array α) (i : Int) : Ck α :=
  if 0 ≤ i ∧ i.toNat < a.size then ⟨a.getD i.toNat default, true⟩ else ⟨default, false⟩

def wr {α : Type} (a : Array α) (i : Int) (v : α) : Ck (Array α) :=
  if 0 ≤ i ∧ i.toNat < a.size then ⟨a.setIfInBounds i.toNat v, true⟩ else ⟨a, false⟩

theorem rd_safe {α : Type} [Inhabited α] (a : Array α) (i : Int) (h0 : 0 ≤ i)
    (h1 : i.toNat < a.size) : Safe (rd a i) (fun v => v = a.getD i.toNat default) := by
  unfold rd; rw [if_pos ⟨h0, h1⟩]; exact ⟨rfl, rfl⟩

theorem wr_safe {α : Type} (a : Array α) (i : Int) (v : α) (h0 : 0 ≤ i) (h1 : i.toNat < a.size) :
    Safe (wr a i v) (fun a' => a'.size = a.size) := by
  unfold wr; rw [if_pos ⟨h0, h1⟩]; exact ⟨rfl, by simp⟩

/-! ### loops -/

/-- `for(jj = s; jj < e; jj++)` -/
def forRange {σ : Type} (s e : Int) (init : σ) (body : Int → σ → Ck σ) : Ck σ :=
  (List.range (e - s).toNat).foldl (fun (acc : Ck σ) (k : Nat) => acc >>= body (s + (k : Int)))
    (pure init)

theorem forRange_safe {σ : Type} (Inv : σ → Prop) (s e : Int) (init : σ)
    (body : Int → σ → Ck σ) (h0 : Inv init)
    (hstep : ∀ jj, s ≤ jj → jj < e → ∀ st, Inv st → Safe (body jj st) Inv) :
    Safe (forRange s e init body) Inv := by
  unfold forRange
  have key : ∀ (m : Nat), m ≤ (e - s).toNat →
      Safe ((List.range m).foldl (fun (acc : Ck σ) (k : Nat) => acc >>= body (s + (k : Int)))
        (pure init)) Inv := by
    intro m
    induction m with
    | zero => intro _; exact Safe.pure h0
    | succ m ih =>
      intro hm
      rw [List.range_succ, List.foldl_append]
      simp only [List.foldl_cons, List.foldl_nil]
      exact Safe.bind (ih (by omega)) (fun st hst => hstep _ (by omega) (by omega) st hst)
  exact key _ (Nat.le_refl _)

/-- `for(i = start; i != stop; i += step)`; `none` = fuel exhausted -/
def forStride {σ : Type} (stop step : Int) (body : Int → σ → Ck σ) :
    Nat → Int → Ck σ → Option (Ck σ)
  | 0, i, st => if i = stop then some st else none
  | fuel+1, i, st => if i = stop then some st else forStride stop step body fuel (i + step) (st >>= body i)

/-- admissible strided ranges (as in `PyamgV.SafeSweep`) -/
structure Adm (n : Nat) (start stop step : Int) (k : Nat) : Prop where
  step_ne : step ≠ 0
  reach : stop = start + (k : Int) * step
  rows : ∀ j : Nat, j < k → 0 ≤ start + (j : Int) * step ∧ start + (j : Int) * step < (n : Int)

theorem forStride_safe {σ : Type} (Inv : σ → Prop) (n : Nat) (stop step : Int)
    (body : Int → σ → Ck σ)
    (hstep : ∀ i, 0 ≤ i → i < (n : Int) → ∀ st, Inv st → Safe (body i st) Inv) :
    ∀ (k : Nat) (start : Int), Adm n start stop step k → ∀ fuel, k ≤ fuel →
      ∀ st : Ck σ, Safe st Inv →
        ∃ r, forStride stop step body fuel start st = some r ∧ Safe r Inv := by
  intro k
  induction k with
  | zero =>
    intro start hadm fuel _ st hst
    have hs : start = stop := by have := hadm.reach; simp at this; exact this.symm
    cases fuel with
    | zero => exact ⟨st, by unfold forStride; rw [if_pos hs], hst⟩
    | succ f => exact ⟨st, by unfold forStride; rw [if_pos hs], hst⟩
  | succ k ih =>
    intro start hadm fuel hf st hst
    cases fuel with
    | zero => omega
    | succ f =>
      have hne : start ≠ stop := by
        intro he
        have h1 := hadm.reach
        have h2 : ((k + 1 : Nat) : Int) * step = 0 := by omega
        rcases Int.mul_eq_zero.mp h2 with h3 | h3
        · omega
        · exact hadm.step_ne h3
      have hrow := hadm.rows 0 (by omega)
      have hz0 : start + ((0 : Nat) : Int) * step = start := by simp
      rw [hz0] at hrow
      have hadm' : Adm n (start + step) stop step k := by
        refine ⟨hadm.step_ne, ?_, ?_⟩
        · have := hadm.reach
          rw [this]; push_cast; rw [Int.add_mul]; omega
        · intro j hj
          have := hadm.rows (j+1) (by omega)
          have e : start + step + (j : Int) * step = start + ((j + 1 : Nat) : Int) * step := by
            push_cast; rw [Int.add_mul]; omega
          rw [e]; exact this
      unfold forStride
      rw [if_neg hne]
      exact ih (start + step) hadm' f (by omega) _
        (Safe.bind hst (fun a ha => hstep start hrow.1 hrow.2 a ha))

/-! ### `gauss_seidel` again, in this style -/

structure Ops (α : Type) where
  mul : α → α → α
  add : α → α → α
  sub : α → α → α
  div : α → α → α
  zero : α
  isZero : α → Bool

structure Csr (α : Type) where
  n : Nat
  ap : Array Int
  aj : Array Int
  ax : Array α

structure WF {α : Type} (G : Csr α) : Prop where
  ap_size : G.ap.size = G.n + 1
  ap0 : 0 ≤ G.ap.getD 0 0
  mono : ∀ i, i < G.n → G.ap.getD i 0 ≤ G.ap.getD (i+1) 0
  last_j : G.ap.getD G.n 0 ≤ (G.aj.size : Int)
  last_x : G.ap.getD G.n 0 ≤ (G.ax.size : Int)
  cols : ∀ jj, jj < G.aj.size → 0 ≤ G.aj.getD jj 0 ∧ G.aj.getD jj 0 < (G.n : Int)

theorem ap_nonneg {α : Type} (G : Csr α) (h : WF G) : ∀ i, i ≤ G.n → 0 ≤ G.ap.getD i 0 := by
  intro i
  induction i with
  | zero => intro _; exact h.ap0
  | succ i ih => intro hi; exact Int.le_trans (ih (by omega)) (h.mono i (by omega))

theorem ap_le_last {α : Type} (G : Csr α) (h : WF G) :
    ∀ i, i ≤ G.n → G.ap.getD i 0 ≤ G.ap.getD G.n 0 := by
  intro i hi
  induction hd : G.n - i generalizing i with
  | zero => have : i = G.n := by omega
            subst this; exact Int.le_refl _
  | succ d ih =>
    have hlt : i < G.n := by omega
    exact Int.le_trans (h.mono i hlt) (ih (i+1) (by omega) (by omega))

/-- row range facts every row-loop proof needs: the visited `jj` are inside `Aj` and `Ax` -/
theorem row_range {α : Type} (G : Csr α) (h : WF G) (i : Nat) (hi : i < G.n) (jj : Int)
    (h1 : G.ap.getD i 0 ≤ jj) (h2 : jj < G.ap.getD (i+1) 0) :
    0 ≤ jj ∧ jj.toNat < G.aj.size ∧ jj.toNat < G.ax.size := by
  have a1 := ap_nonneg G h i (by omega)
  have a2 := ap_le_last G h (i+1) (by omega)
  have a3 := h.last_j
  have a4 := h.last_x
  omega

variable {α : Type} [Inhabited α]

def gsRow (o : Ops α) (G : Csr α) (b : Array α) (i : Int) (x : Array α) : Ck (Array α) := do
  let s ← rd G.ap i
  let e ← rd G.ap (i+1)
  let (rsum, diag) ← forRange s e (o.zero, o.zero) (fun jj (acc : α × α) => do
    let j ← rd G.aj jj
    let a ← rd G.ax jj
    if i = j then pure (acc.1, a)
    else do
      let xj ← rd x j
      pure (o.add acc.1 (o.mul a xj), acc.2))
  if o.isZero diag then pure x
  else do
    let bi ← rd b i
    wr x i (o.div (o.sub bi rsum) diag)

theorem gsRow_safe (o : Ops α) (G : Csr α) (hG : WF G) (b : Array α) (hb : b.size = G.n)
    (i : Int) (hi0 : 0 ≤ i) (hi1 : i < (G.n : Int)) (x : Array α) (hx : x.size = G.n) :
    Safe (gsRow o G b i x) (fun x' => x'.size = G.n) := by
  have hin : i.toNat < G.n := by omega
  have hs1 : (i+1).toNat = i.toNat + 1 := by omega
  unfold gsRow
  refine Safe.bind (rd_safe G.ap i hi0 (by rw [hG.ap_size]; omega)) (fun s hs => ?_)
  refine Safe.bind (rd_safe G.ap (i+1) (by omega) (by rw [hG.ap_size]; omega)) (fun e he => ?_)
  rw [hs1] at he
  refine Safe.bind (P := fun _ => True) ?_ (fun acc _ => ?_)
  · apply forRange_safe (fun _ => True) s e _ _ trivial
    intro jj h1 h2 st _
    have hr := row_range G hG i.toNat hin jj (by rw [hs] at h1; exact h1) (by rw [he] at h2; exact h2)
    refine Safe.bind (rd_safe G.aj jj hr.1 hr.2.1) (fun j hj => ?_)
    refine Safe.bind (rd_safe G.ax jj hr.1 hr.2.2) (fun a _ => ?_)
    by_cases hij : i = j
    · rw [if_pos hij]; exact Safe.pure trivial
    · rw [if_neg hij]
      have hc := hG.cols jj.toNat hr.2.1
      have hj' : j = G.aj.getD jj.toNat 0 := hj
      refine Safe.bind (rd_safe x j (by rw [hj']; exact hc.1) (by rw [hj', hx]; omega))
        (fun _ _ => Safe.pure trivial)
  · obtain ⟨rsum, diag⟩ := acc
    simp only
    by_cases hz : o.isZero diag = true
    · rw [if_pos hz]; exact Safe.pure hx
    · rw [if_neg hz]
      refine Safe.bind (rd_safe b i hi0 (by rw [hb]; exact hin)) (fun bi _ => ?_)
      exact Safe.mono (wr_safe x i _ hi0 (by rw [hx]; exact hin)) (fun a' h => by rw [h, hx])

/-- the whole strided sweep: terminates and stays in bounds for every admissible range -/
theorem sweep_safe (o : Ops α) (G : Csr α) (hG : WF G) (b : Array α) (hb : b.size = G.n)
    (start stop step : Int) (k : Nat) (hadm : Adm G.n start stop step k)
    (x : Array α) (hx : x.size = G.n) :
    ∃ r, forStride stop step (gsRow o G b) k start (pure x) = some r ∧
      Safe r (fun x' => x'.size = G.n) :=
  forStride_safe (fun x' => x'.size = G.n) G.n stop step (gsRow o G b)
    (fun i h0 h1 st hst => gsRow_safe o G hG b hb i h0 h1 st hst) k start hadm k (Nat.le_refl k)
    (pure x) (Safe.pure hx)

#print axioms sweep_safe
end PyamgV.Ck
