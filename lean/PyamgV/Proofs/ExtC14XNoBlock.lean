import PyamgV.Proofs.ExtC14XBlock

/-! PyamgV (C14, extension E40): `block=False` on BSR input (`A.tocsr()` + scalar measure + `amalgamate`), the symmetric
measure on BSR input, and the energy measure on complex and on BSR input. -/
namespace PyamgV.C14X
open PyamgV PyamgV.N PyamgV.C14

variable {α : Type}

/-! ### `A.tocsr()` -/

theorem scalarRows_length [OfNat α 0] (X : Spmm.Bsr α) : (scalarRows X).length = X.rows := by
  unfold scalarRows; simp

theorem scalarRows_getElem? [OfNat α 0] (X : Spmm.Bsr α) (i : Nat) (hi : i < X.rows) :
    (scalarRows X)[i]? = some ((Spmm.bsrToCsr X).row i) := by
  unfold scalarRows; simp [List.getElem?_map, List.getElem?_range hi]

/-- scalar row `i = I·br + r` of `A.tocsr()` lists, block after block of block row `I`, the `bc` entries of block row `r` -/
theorem scalarRow_eq [OfNat α 0] (X : Spmm.Bsr α) (i : Nat) (hi : i < X.rows) :
    (Spmm.bsrToCsr X).row i =
      (X.blockRow (i / X.br)).flatMap fun b => (List.range X.bc).map fun c => (b.1 * X.bc + c, X.blk b.2 (i % X.br) c) := by
  unfold Spmm.bsrToCsr
  rw [Spmm.ofRows_row]
  simp [List.getD_eq_getElem?_getD, List.getElem?_map, List.getElem?_range hi]

/-- a stored scalar entry of `A.tocsr()` is an entry of a stored block, at its place -/
theorem mem_scalarRow [OfNat α 0] (X : Spmm.Bsr α) (i : Nat) (hi : i < X.rows) (e : Nat × α) :
    e ∈ (Spmm.bsrToCsr X).row i ↔
      ∃ J jj c, (J, jj) ∈ X.blockRow (i / X.br) ∧ c < X.bc ∧ e = (J * X.bc + c, X.blk jj (i % X.br) c) := by
  rw [scalarRow_eq X i hi]
  simp only [List.mem_flatMap, List.mem_map, List.mem_range]
  constructor
  · rintro ⟨b, hb, c, hc, rfl⟩; exact ⟨b.1, b.2, c, hb, hc, rfl⟩
  · rintro ⟨J, jj, c, hb, hc, rfl⟩; exact ⟨(J, jj), hb, c, hc, rfl⟩

/-! ### `block=False` -/

/-- scalar kernel norm selected by `norm` -/
def sNorm (nrm re : α → Rat) (norm : String) : α → Rat := if norm = "min" then fun v => negQ (re v) else nrm

theorem classicalNoBlock_some [OfNat α 0] (nrm re : α → Rat) (real : Bool) (norm : String) (tiny θ : Rat)
    (X : Spmm.Bsr α) (out : List Row) (h : classicalNoBlock nrm re real norm tiny θ X = some out) :
    out = amalgIf X.br (pubClassical (sNorm nrm re norm) nrm (kTiny norm tiny) tiny θ (scalarRows X)) := by
  unfold classicalNoBlock at h
  unfold sNorm kTiny
  split at h
  · rename_i hn
    split at h
    · simp only [hn, if_true]; exact (Option.some.inj h).symm
    · cases h
  · rename_i hn
    split at h
    · simp only [hn, if_false]; exact (Option.some.inj h).symm
    · cases h

theorem classicalNoBlock_none_iff [OfNat α 0] (nrm re : α → Rat) (real : Bool) (norm : String) (tiny θ : Rat)
    (X : Spmm.Bsr α) :
    classicalNoBlock nrm re real norm tiny θ X = none ↔
      (norm ≠ "abs" ∧ norm ≠ "min" ∧ norm ≠ "fro") ∨ (norm = "min" ∧ real = false) := by
  unfold classicalNoBlock
  by_cases h2 : norm = "min"
  · subst h2; cases real <;> simp
  · by_cases h1 : norm = "abs"
    · subst h1; simp
    · by_cases h3 : norm = "fro"
      · subst h3; simp
      · simp [h1, h2, h3]

theorem mem_take_drop {β : Type} (l : List β) (a b : Nat) (r : β) :
    r ∈ (l.drop a).take b ↔ ∃ k, k < b ∧ l[a + k]? = some r := by
  rw [List.mem_iff_getElem?]
  constructor
  · rintro ⟨k, hk⟩
    rw [List.getElem?_take] at hk
    split at hk
    · rw [List.getElem?_drop] at hk; exact ⟨k, ‹_›, hk⟩
    · cases hk
  · rintro ⟨k, hk, h⟩
    refine ⟨k, ?_⟩
    rw [List.getElem?_take, if_pos hk, List.getElem?_drop]; exact h

theorem pubClassical_length (nrm absf : α → Rat) (tinyK tiny θ : Rat) (rows : List (RowOf α)) :
    (pubClassical nrm absf tinyK tiny θ rows).length = rows.length := by
  unfold pubClassical; exact mapRows_length _ _

/-- **`block=False`, blocksize > 1**: the result has one row per block row; nodal column `J` is stored in nodal row `I`
(with value one) iff some scalar row `i` of block row `I` of the scalar strength matrix (the CSR measure on `A.tocsr()`)
stores a column `j` of block column `J` — the entry-wise rule for that is `classical_public_rule` -/
theorem classicalNoBlock_rule [OfNat α 0] (nrm re : α → Rat) (real : Bool) (norm : String) (tiny θ : Rat)
    (X : Spmm.Bsr α) (out : List Row) (h : classicalNoBlock nrm re real norm tiny θ X = some out)
    (hbs : 1 < X.br) (I : Nat) (hI : I < X.rows / X.br) (c : Nat × Rat) :
    c ∈ out.getD I [] ↔ c.2 = 1 ∧ ∃ i j, i / X.br = I ∧ j / X.br = c.1 ∧
      j ∈ (pubClassicalRow (sNorm nrm re norm) nrm (kTiny norm tiny) tiny θ i ((Spmm.bsrToCsr X).row i)).map Prod.fst := by
  have hout := classicalNoBlock_some nrm re real norm tiny θ X out h
  unfold amalgIf at hout
  rw [if_pos hbs] at hout
  subst hout
  have hb0 : 0 < X.br := by omega
  have hlen : (pubClassical (sNorm nrm re norm) nrm (kTiny norm tiny) tiny θ (scalarRows X)).length = X.rows := by
    rw [pubClassical_length, scalarRows_length]
  rw [amalgamate_mem X.br hb0 _ I (by rw [hlen]; exact hI) c]
  have hle : (I + 1) * X.br ≤ X.rows := by
    have := Nat.div_mul_le_self X.rows X.br
    have : (I + 1) * X.br ≤ X.rows / X.br * X.br := Nat.mul_le_mul_right _ hI
    omega
  constructor
  · rintro ⟨h1, r, hr, cv, hcv, hJ⟩
    refine ⟨h1, ?_⟩
    obtain ⟨k, hk, hget⟩ := (mem_take_drop _ _ _ r).1 hr
    have hi : I * X.br + k < X.rows := by
      calc I * X.br + k < I * X.br + X.br := by omega
        _ = (I + 1) * X.br := by ring
        _ ≤ X.rows := hle
    rw [pubClassical_row, scalarRows_getElem? X _ hi] at hget
    simp only [Option.map_some, Option.some.injEq] at hget
    refine ⟨I * X.br + k, cv.1, ?_, hJ, ?_⟩
    · rw [Nat.mul_comm, Nat.mul_add_div hb0, Nat.div_eq_of_lt hk]; rfl
    · rw [hget]; exact List.mem_map.2 ⟨cv, hcv, rfl⟩
  · rintro ⟨h1, i, j, hiI, hjJ, hj⟩
    refine ⟨h1, ?_⟩
    obtain ⟨cv, hcv, rfl⟩ := List.mem_map.1 hj
    have hi : i < X.rows := by
      have h1 : i < (i / X.br + 1) * X.br := Nat.lt_mul_of_div_lt (by omega) hb0
      rw [hiI] at h1; omega
    refine ⟨_, (mem_take_drop _ _ _ _).2 ⟨i % X.br, Nat.mod_lt _ hb0, ?_⟩, cv, hcv, hjJ⟩
    have : I * X.br + i % X.br = i := by rw [← hiI, Nat.mul_comm]; exact Nat.div_add_mod i X.br
    rw [this, pubClassical_row, scalarRows_getElem? X _ hi]
    rfl

/-! ### rows of ones under `scale_rows_by_largest_entry` -/

theorem absQ_one : absQ (1 : Rat) = 1 := by unfold absQ; norm_num

theorem scaleRow_ones (tiny : Rat) (ht : 0 < tiny) (ht1 : tiny ≤ 1) (row : Row) (h : ∀ cv ∈ row, cv.2 = 1) :
    scaleRow tiny row = row := by
  cases hrow : row with
  | nil => simp [scaleRow]
  | cons c t =>
    rw [← hrow, scaleRow_eq tiny ht]
    have hmax : rowMax absQ tiny row = 1 := by
      have hge := rowMax_ge absQ tiny row
      have hc : c ∈ row := by rw [hrow]; exact List.mem_cons_self
      have h1 : (1 : Rat) ≤ rowMax absQ tiny row := by
        have := hge.2 c hc
        rw [h c hc, absQ_one] at this
        exact this
      rcases rowMax_attained absQ tiny row with h2 | ⟨cv, hcv, h2⟩
      · linarith
      · rw [← h2, h cv hcv, absQ_one]
    rw [hmax]
    conv_rhs => rw [← List.map_id row]
    apply List.map_congr_left
    intro cv _
    simp

/-! ### symmetric measure on BSR input -/

/-- `diags[K]` of the nodal matrix of block values `f`: `|Σ f(block)|` over the stored diagonal blocks of block row `K` -/
def symD [OfNat α 0] (X : Spmm.Bsr α) (f : List α → Rat) (K : Nat) : Rat :=
  (((redRows X f)[K]?).map (diagNorm absQ (· + ·) 0 K)).getD 0

theorem diagNorm_fold_skip (i : Nat) (l : Row) (d : Rat) (h : ∀ cv ∈ l, cv.1 ≠ i) :
    l.foldl (fun d cv => if cv.1 = i then d + cv.2 else d) d = d := by
  induction l generalizing d with
  | nil => rfl
  | cons c t ih =>
    simp only [List.foldl_cons]
    rw [if_neg (h c List.mem_cons_self)]
    exact ih d (fun cv hcv => h cv (List.mem_cons_of_mem _ hcv))

/-- a row with exactly one stored diagonal entry `v`: the kernel's `diags` value is `|v|` -/
theorem diagNorm_unique (i : Nat) (l₁ l₂ : Row) (v : Rat) (h1 : ∀ cv ∈ l₁, cv.1 ≠ i) (h2 : ∀ cv ∈ l₂, cv.1 ≠ i) :
    diagNorm absQ (· + ·) 0 i (l₁ ++ (i, v) :: l₂) = absQ v := by
  unfold diagNorm
  rw [List.foldl_append, diagNorm_fold_skip i l₁ 0 h1, List.foldl_cons]
  simp only [if_true]
  rw [diagNorm_fold_skip i l₂ _ h2, zero_add]

/-- canonical BSR (one stored diagonal block `jj` in block row `K`): `symD` is `|f(block jj)|` -/
theorem symD_unique [OfNat α 0] (X : Spmm.Bsr α) (f : List α → Rat) (K : Nat) (hK : K < X.rows / X.br)
    (b₁ b₂ : List (Nat × Nat)) (jj : Nat) (hrow : X.blockRow K = b₁ ++ (K, jj) :: b₂)
    (h1 : ∀ b ∈ b₁, b.1 ≠ K) (h2 : ∀ b ∈ b₂, b.1 ≠ K) :
    symD X f K = absQ (f (blkEntries X jj)) := by
  unfold symD
  rw [redRows_getElem? X f K hK]
  simp only [Option.map_some, Option.getD_some]
  unfold redRow
  rw [hrow, List.map_append, List.map_cons]
  apply diagNorm_unique
  · intro cv hcv; obtain ⟨b, hb, rfl⟩ := List.mem_map.1 hcv; exact h1 b hb
  · intro cv hcv; obtain ⟨b, hb, rfl⟩ := List.mem_map.1 hcv; exact h2 b hb

/-- **`symmetric_strength_of_connection` on BSR input, `θ ≠ 0`**: with `f_jj = sq(Σ |a|²)` the (Frobenius) value of stored
block `jj`, nodal column `J` is stored in row `I` iff block row `I` stores a block `(I,J)` that is a diagonal block or has
`f² ≥ θ² · symD I · symD J`; entries lie in `[0,1]`, a row with a kept block of normal value attains `1` -/
theorem symmetricBsr_rule [OfNat α 0] (sq : Rat → Rat) (nsq : α → Rat) (tiny θ : Rat) (ht : 0 < tiny) (hθ : θ ≠ 0)
    (X : Spmm.Bsr α) (hsqr : X.br = X.bc) (I : Nat) (hI : I < X.rows / X.br) :
    let f : List α → Rat := fun b => sq (blockFroG nsq b)
    ∃ out outI, symmetricBsr sq nsq tiny θ X = some out ∧ out.length = X.rows / X.br ∧ out[I]? = some outI ∧
      (∀ J, J ∈ outI.map Prod.fst ↔ ∃ jj, (J, jj) ∈ X.blockRow I ∧
        (I = J ∨ f (blkEntries X jj) * f (blkEntries X jj) ≥ θ * θ * symD X f I * symD X f J)) ∧
      (∀ jj, (I, jj) ∈ X.blockRow I → I ∈ outI.map Prod.fst) ∧
      (∀ cv ∈ outI, 0 ≤ cv.2 ∧ cv.2 ≤ 1) ∧
      ((∃ J jj, (J, jj) ∈ X.blockRow I ∧
          (I = J ∨ f (blkEntries X jj) * f (blkEntries X jj) ≥ θ * θ * symD X f I * symD X f J) ∧
          tiny ≤ absQ (f (blkEntries X jj))) → ∃ cv ∈ outI, cv.2 = 1) := by
  intro f
  have hlen : I < (redRows X f).length := by rw [redRows_length]; exact hI
  have hrow : (redRows X f).getD I [] = redRow X f I := by
    rw [List.getD_eq_getElem?_getD, redRows_getElem? X f I hI, Option.getD_some]
  obtain ⟨outI, ho, _, hcol, hdiag, hunit, hone⟩ :=
    modSymmetric_contract (0 : Rat) absQ (fun v => v * v) (· + ·) absQ_isMulModulus.toIsModulus tiny θ ht (redRows X f) I hlen
  refine ⟨_, outI, ?_, ?_, ho, ?_, ?_, hunit, ?_⟩
  · unfold symmetricBsr
    rw [if_neg (not_not.2 hsqr), if_neg hθ]
  · unfold pubSymmetric symmetric; simp [mapRows, redRows_length]
  · intro J
    rw [hcol J, hrow]
    constructor
    · rintro ⟨cv, hcv, rfl, hk⟩
      obtain ⟨jj, hjj, hv⟩ := (mem_redRow X f I cv).1 hcv
      rw [hv] at hk
      exact ⟨jj, hjj, hk⟩
    · rintro ⟨jj, hjj, hk⟩
      exact ⟨(J, f (blkEntries X jj)), (mem_redRow X f I _).2 ⟨jj, hjj, rfl⟩, rfl, hk⟩
  · intro jj hjj
    apply hdiag (f (blkEntries X jj))
    rw [hrow]
    exact (mem_redRow X f I _).2 ⟨jj, hjj, rfl⟩
  · rintro ⟨J, jj, hjj, hk, hn⟩
    apply hone
    rw [hrow]
    exact ⟨(J, f (blkEntries X jj)), (mem_redRow X f I _).2 ⟨jj, hjj, rfl⟩, hk, hn⟩

/-- **… `θ = 0`**: ones on the stored block pattern -/
theorem symmetricBsr_theta_zero [OfNat α 0] (sq : Rat → Rat) (nsq : α → Rat) (tiny : Rat) (ht : 0 < tiny) (ht1 : tiny ≤ 1)
    (X : Spmm.Bsr α) (hsqr : X.br = X.bc) (I : Nat) (hI : I < X.rows / X.br) :
    ∃ out, symmetricBsr sq nsq tiny 0 X = some out ∧ out.length = X.rows / X.br ∧
      out[I]? = some ((X.blockRow I).map fun b => (b.1, (1 : Rat))) := by
  refine ⟨(redRows X fun _ => 1).map fun r => scaleRow tiny (absRow absQ r), ?_, ?_, ?_⟩
  · unfold symmetricBsr
    rw [if_neg (not_not.2 hsqr), if_pos rfl]
  · simp [redRows_length]
  · rw [List.getElem?_map, redRows_getElem? X _ I hI]
    simp only [Option.map_some, Option.some.injEq]
    have habs : absRow absQ (redRow X (fun _ => 1) I) = redRow X (fun _ => 1) I := by
      unfold absRow redRow; simp [List.map_map, Function.comp_def, absQ_one]
    rw [habs, scaleRow_ones tiny ht ht1]
    · rfl
    · intro cv hcv
      obtain ⟨jj, _, hv⟩ := (mem_redRow X _ I cv).1 hcv
      exact hv

/-! ### the energy measure on complex input -/

theorem cEnVal_nonneg (sq : Rat → Rat) (hs : ∀ q, 0 ≤ sq q) (neg : Rat) (n : Nat) (A S : CMat) (i j : Nat) :
    0 ≤ cEnVal sq neg n A S i j := by
  unfold cEnVal
  simp only
  split
  · exact le_refl _
  · split
    · exact hs _
    · exact le_refl _

theorem cEnMeasure_row (sq : Rat → Rat) (neg : Rat) (n : Nat) (A S : CMat) (rows : List (RowOf CRat)) (i : Nat) :
    (cEnMeasure sq neg n A S rows)[i]? =
      (rows[i]?).map fun row => row.map fun cv => (cv.1, cEnVal sq neg n A S i cv.1) := by
  unfold cEnMeasure; rw [mapRows_getElem?]

/-- row `i` of the complex model's result is the (real) tail applied to the measure row -/
theorem energyFullC_row (sq : Rat → Rat) (ω neg tiny θ : Rat) (k : Nat) (rows : List (RowOf CRat)) (i : Nat) :
    (energyFullC sq ω neg tiny θ k rows)[i]? = (rows[i]?).map fun row =>
      energyTailRow tiny θ i (row.map fun cv =>
        (cv.1, cEnVal sq neg rows.length (cdense rows.length rows) (cS rows.length ω (cdense rows.length rows) (k + 1)) i cv.1)) := by
  unfold energyFullC
  simp only
  rw [mapRows_getElem?, cEnMeasure_row]
  cases rows[i]? <;> simp

theorem energyFullC_length (sq : Rat → Rat) (ω neg tiny θ : Rat) (k : Nat) (rows : List (RowOf CRat)) :
    (energyFullC sq ω neg tiny θ k rows).length = rows.length := by
  unfold energyFullC cEnMeasure; simp only [mapRows_length]

/-- **contract of `energy_based_strength_of_connection` on complex canonical CSR input** (model `energyFullC`), for every
square-root function, `ω`, `k`, `θ`: columns of row `i` inside the stored columns of row `i` of `A` plus the diagonal, the
diagonal always stored, entries in `[0,1]`, row maximum `1` -/
theorem energyFullC_contract (sq : Rat → Rat) (ω neg tiny θ : Rat) (ht : 0 < tiny) (ht1 : tiny ≤ 1) (k : Nat)
    (rows : List (RowOf CRat)) (i : Nat) (hi : i < rows.length) :
    ∃ out, (energyFullC sq ω neg tiny θ k rows)[i]? = some out ∧
      (∀ j ∈ out.map Prod.fst, j = i ∨ j ∈ (rows.getD i []).map Prod.fst) ∧
      i ∈ out.map Prod.fst ∧ (∀ cv ∈ out, 0 ≤ cv.2 ∧ cv.2 ≤ 1) ∧ ∃ cv ∈ out, cv.2 = 1 := by
  rw [energyFullC_row, List.getElem?_eq_getElem hi]
  refine ⟨_, rfl, ?_⟩
  have hc := energyTailRow_contract_any tiny θ ht ht1 i
    (rows[i].map fun cv => (cv.1, cEnVal sq neg rows.length (cdense rows.length rows)
      (cS rows.length ω (cdense rows.length rows) (k + 1)) i cv.1))
  refine ⟨?_, hc.2.1, hc.2.2.1, hc.2.2.2⟩
  intro j hj
  rcases hc.1 j hj with h | h
  · exact Or.inl h
  · right
    rw [List.getD_eq_getElem?_getD, List.getElem?_eq_getElem hi]
    simpa [List.map_map, Function.comp_def] using h

/-- **drop rule**: column `j` is stored in the returned row `i` iff `j = i` or `A` stores `(i, j)`, the energy measure
`m_ij = cEnVal … i j` is non-zero and `m_ij ≥ θ · max(tiny, max_{k≠i} m_ik)` -/
theorem energyFullC_rule (sq : Rat → Rat) (hs : ∀ q, 0 ≤ sq q) (ω neg tiny θ : Rat) (ht : 0 < tiny) (k : Nat)
    (rows : List (RowOf CRat)) (i : Nat) (hi : i < rows.length) (j : Nat) :
    let m : Row := (rows.getD i []).map fun cv =>
      (cv.1, cEnVal sq neg rows.length (cdense rows.length rows) (cS rows.length ω (cdense rows.length rows) (k + 1)) i cv.1)
    j ∈ ((energyFullC sq ω neg tiny θ k rows).getD i []).map Prod.fst ↔
      j = i ∨ ∃ cv ∈ m, cv.1 = j ∧ cv.2 ≠ 0 ∧ cv.2 ≥ θ * maxOff absQ tiny i m := by
  intro m
  have hrow : (energyFullC sq ω neg tiny θ k rows).getD i [] = energyTailRow tiny θ i m := by
    rw [List.getD_eq_getElem?_getD, energyFullC_row, List.getElem?_eq_getElem hi]
    simp only [Option.map_some, Option.getD_some]
    show _ = energyTailRow tiny θ i ((rows.getD i []).map _)
    rw [List.getD_eq_getElem?_getD, List.getElem?_eq_getElem hi]; rfl
  rw [hrow, energyTailRow_rule tiny θ ht i m j]
  have habs : ∀ cv ∈ m, absQ cv.2 = cv.2 := by
    intro cv hcv
    obtain ⟨c, _, rfl⟩ := List.mem_map.1 hcv
    have := cEnVal_nonneg sq hs neg rows.length (cdense rows.length rows)
      (cS rows.length ω (cdense rows.length rows) (k + 1)) i c.1
    unfold absQ; rw [if_neg (not_lt.2 this)]
  constructor
  · rintro (h | ⟨cv, hcv, h1, h2, h3⟩)
    · exact Or.inl h
    · rw [habs cv hcv] at h2 h3; exact Or.inr ⟨cv, hcv, h1, h2, h3⟩
  · rintro (h | ⟨cv, hcv, h1, h2, h3⟩)
    · exact Or.inl h
    · refine Or.inr ⟨cv, hcv, h1, ?_, ?_⟩ <;> rw [habs cv hcv] <;> assumption

/-! ### the energy measure on BSR input -/

theorem energyPreRow_cols (tiny θ : Rat) (i : Nat) (row : Row) :
    (energyPreRow tiny θ i row).map Prod.fst = (energyTailRow tiny θ i row).map Prod.fst := by
  unfold energyTailRow energyPreRow; rw [scaleRow_cols]

/-- **tail of the energy measure for BSR input**: nodal row `I` of the result holds ones; it stores the diagonal; nodal
column `J` is stored iff some scalar row `i` of block row `I` keeps (by the drop rule of `energy_tail_rule`, or as its
diagonal) a column `j` of block column `J` -/
theorem energyBsrTail_contract (tiny θ : Rat) (ht : 0 < tiny) (ht1 : tiny ≤ 1) (bs : Nat) (hbs : 0 < bs)
    (meas : List Row) (I : Nat) (hI : I < meas.length / bs) :
    ∃ out, (energyBsrTail tiny θ bs meas)[I]? = some out ∧
      (∀ cv ∈ out, cv.2 = 1) ∧ I ∈ out.map Prod.fst ∧
      (∀ J, J ∈ out.map Prod.fst ↔ ∃ i j, i / bs = I ∧ j / bs = J ∧
        j ∈ (energyTailRow tiny θ i (meas.getD i [])).map Prod.fst) ∧
      (∀ J ∈ out.map Prod.fst, ∃ i j, i / bs = I ∧ j / bs = J ∧ (j = i ∨ j ∈ (meas.getD i []).map Prod.fst)) := by
  set pre := mapRows (energyPreRow tiny θ) meas with hpre
  have hlenp : pre.length = meas.length := mapRows_length _ _
  have hIp : I < pre.length / bs := by rw [hlenp]; exact hI
  have hle : (I + 1) * bs ≤ meas.length := by
    have := Nat.div_mul_le_self meas.length bs
    have : (I + 1) * bs ≤ meas.length / bs * bs := Nat.mul_le_mul_right _ hI
    omega
  have hAlen : (amalgamate bs pre).length = pre.length / bs := by
    unfold amalgamate; simp [Nat.ne_of_gt hbs]
  have hmem := amalgamate_mem bs hbs pre I hIp
  have hones : ∀ cv ∈ (amalgamate bs pre).getD I [], cv.2 = 1 := fun cv hcv => ((hmem cv).1 hcv).1
  have hgetI : (amalgamate bs pre)[I]? = some ((amalgamate bs pre).getD I []) := by
    rw [List.getD_eq_getElem?_getD, List.getElem?_eq_getElem (by rw [hAlen]; exact hIp)]; simp
  -- membership of a nodal column
  have hcolsI : ∀ J, J ∈ ((amalgamate bs pre).getD I []).map Prod.fst ↔
      ∃ i j, i / bs = I ∧ j / bs = J ∧ j ∈ (energyTailRow tiny θ i (meas.getD i [])).map Prod.fst := by
    intro J
    constructor
    · intro hJ
      obtain ⟨c, hc, rfl⟩ := List.mem_map.1 hJ
      obtain ⟨_, r, hr, cv, hcv, hq⟩ := (hmem c).1 hc
      obtain ⟨k, hk, hget⟩ := (mem_take_drop _ _ _ r).1 hr
      have hi : I * bs + k < meas.length := by
        calc I * bs + k < I * bs + bs := by omega
          _ = (I + 1) * bs := by ring
          _ ≤ meas.length := hle
      rw [hpre, mapRows_getElem?, List.getElem?_eq_getElem hi] at hget
      simp only [Option.map_some, Option.some.injEq] at hget
      refine ⟨I * bs + k, cv.1, ?_, hq, ?_⟩
      · rw [Nat.mul_comm, Nat.mul_add_div hbs, Nat.div_eq_of_lt hk]; rfl
      · rw [← energyPreRow_cols, List.getD_eq_getElem?_getD, List.getElem?_eq_getElem hi, Option.getD_some, hget]
        exact List.mem_map.2 ⟨cv, hcv, rfl⟩
    · rintro ⟨i, j, hiI, hjJ, hj⟩
      have hi : i < meas.length := by
        have h1 : i < (i / bs + 1) * bs := Nat.lt_mul_of_div_lt (by omega) hbs
        rw [hiI] at h1; omega
      rw [← energyPreRow_cols] at hj
      obtain ⟨cv, hcv, rfl⟩ := List.mem_map.1 hj
      refine List.mem_map.2 ⟨(J, 1), (hmem (J, 1)).2 ⟨rfl, energyPreRow tiny θ i (meas.getD i []), ?_, cv, hcv, hjJ⟩, rfl⟩
      refine (mem_take_drop _ _ _ _).2 ⟨i % bs, Nat.mod_lt _ hbs, ?_⟩
      have : I * bs + i % bs = i := by rw [← hiI, Nat.mul_comm]; exact Nat.div_add_mod i bs
      rw [this, hpre, mapRows_getElem?, List.getElem?_eq_getElem hi, List.getD_eq_getElem?_getD,
        List.getElem?_eq_getElem hi]
      rfl
  refine ⟨(amalgamate bs pre).getD I [], ?_, hones, ?_, hcolsI, ?_⟩
  · unfold energyBsrTail
    rw [List.getElem?_map, ← hpre, hgetI]
    simp only [Option.map_some, Option.some.injEq]
    exact scaleRow_ones tiny ht ht1 _ hones
  · refine (hcolsI I).2 ⟨I * bs, I * bs, Nat.mul_div_cancel _ hbs, Nat.mul_div_cancel _ hbs, ?_⟩
    exact (energyTailRow_contract_any tiny θ ht ht1 (I * bs) _).2.1
  · intro J hJ
    obtain ⟨i, j, h1, h2, h3⟩ := (hcolsI J).1 hJ
    exact ⟨i, j, h1, h2, (energyTailRow_contract_any tiny θ ht ht1 i _).1 j h3⟩

/-- **contract of `energy_based_strength_of_connection` on real BSR input** (model `energyFullBsr`): `N` nodal rows of ones,
the nodal diagonal always stored, the nodal pattern inside the block pattern of `A` (through `A.tocsr()`, theorem
`bsr_tocsr_entries`) plus the diagonal -/
theorem energyFullBsr_contract (sq : Rat → Rat) (ω neg tiny θ : Rat) (ht : 0 < tiny) (ht1 : tiny ≤ 1) (k : Nat)
    (X : Spmm.Bsr Rat) (hbs : 0 < X.br) (I : Nat) (hI : I < X.rows / X.br) :
    ∃ out, (energyFullBsr sq ω neg tiny θ k X)[I]? = some out ∧
      (∀ cv ∈ out, cv.2 = 1) ∧ I ∈ out.map Prod.fst ∧
      (∀ J ∈ out.map Prod.fst, ∃ i j, i / X.br = I ∧ j / X.br = J ∧
        (j = i ∨ j ∈ ((Spmm.bsrToCsr X).row i).map Prod.fst)) := by
  unfold energyFullBsr
  simp only
  have hlen : (enMeasure sq neg (scalarRows X).length (dense (scalarRows X).length (scalarRows X))
      (enS (scalarRows X).length ω (dense (scalarRows X).length (scalarRows X)) (k + 1)) (scalarRows X)).length = X.rows := by
    unfold enMeasure; rw [mapRows_length, scalarRows_length]
  obtain ⟨out, h1, h2, h3, _, h5⟩ := energyBsrTail_contract tiny θ ht ht1 X.br hbs _ I (by rw [hlen]; exact hI)
  refine ⟨out, h1, h2, h3, ?_⟩
  intro J hJ
  obtain ⟨i, j, hi, hj, h⟩ := h5 J hJ
  refine ⟨i, j, hi, hj, h.imp id ?_⟩
  intro hmem
  by_cases hlt : i < X.rows
  · rw [List.getD_eq_getElem?_getD, enMeasure_row, scalarRows_getElem? X i hlt] at hmem
    simpa [List.map_map, Function.comp_def] using hmem
  · rw [List.getD_eq_getElem?_getD, List.getElem?_eq_none (by rw [hlen]; omega)] at hmem
    simp at hmem

/-- … complex BSR input (model `energyFullBsrC`) -/
theorem energyFullBsrC_contract (sq : Rat → Rat) (ω neg tiny θ : Rat) (ht : 0 < tiny) (ht1 : tiny ≤ 1) (k : Nat)
    (X : Spmm.Bsr CRat) (hbs : 0 < X.br) (I : Nat) (hI : I < X.rows / X.br) :
    ∃ out, (energyFullBsrC sq ω neg tiny θ k X)[I]? = some out ∧
      (∀ cv ∈ out, cv.2 = 1) ∧ I ∈ out.map Prod.fst ∧
      (∀ J ∈ out.map Prod.fst, ∃ i j, i / X.br = I ∧ j / X.br = J ∧
        (j = i ∨ j ∈ ((Spmm.bsrToCsr X).row i).map Prod.fst)) := by
  unfold energyFullBsrC
  simp only
  have hlen : (cEnMeasure sq neg (scalarRows X).length (cdense (scalarRows X).length (scalarRows X))
      (cS (scalarRows X).length ω (cdense (scalarRows X).length (scalarRows X)) (k + 1)) (scalarRows X)).length = X.rows := by
    unfold cEnMeasure; rw [mapRows_length, scalarRows_length]
  obtain ⟨out, h1, h2, h3, _, h5⟩ := energyBsrTail_contract tiny θ ht ht1 X.br hbs _ I (by rw [hlen]; exact hI)
  refine ⟨out, h1, h2, h3, ?_⟩
  intro J hJ
  obtain ⟨i, j, hi, hj, h⟩ := h5 J hJ
  refine ⟨i, j, hi, hj, h.imp id ?_⟩
  intro hmem
  by_cases hlt : i < X.rows
  · rw [List.getD_eq_getElem?_getD, cEnMeasure_row, scalarRows_getElem? X i hlt] at hmem
    simpa [List.map_map, Function.comp_def] using hmem
  · rw [List.getD_eq_getElem?_getD, List.getElem?_eq_none (by rw [hlen]; omega)] at hmem
    simp at hmem

end PyamgV.C14X
