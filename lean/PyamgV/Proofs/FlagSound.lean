import PyamgV.Model.Flag

/-! PyamgV (C05, decision table): if `change_smoothers` reports `symmetric_smoothing = True`, then
the per-level test `levelOk` holds for the smoother pair *actually installed on every level* —
including the levels beyond the shorter/longer list, which the code fills with the last entries
without testing them again. This is the bridge from the flag to the per-level hypothesis of
`Mop_sym` ("the post-smoother is the adjoint of the pre-smoother on every level"); what `levelOk`
accepts is then compared, pair by pair, with the kernels' adjointness theorems — and that is
where defect #4 shows: `levelOk` does not look at `omega`/`degree`, and accepts the
normal-equation smoothers. Core Lean only. -/
namespace PyamgV.Flag

def dflt : Cfg := ⟨none, none, none, none, none⟩

/-- the pair installed on level `i` -/
def preAt (pre : List Cfg) (i : Nat) : Cfg := pre.getD (min i (pre.length - 1)) dflt
def postAt (post : List Cfg) (i : Nat) : Cfg := post.getD (min i (post.length - 1)) dflt

theorem flag_sound (pre post : List Cfg) (nl : Nat) (hp : 1 ≤ pre.length) (hq : 1 ≤ post.length)
    (h : flag pre post nl = true) :
    ∀ i, i < nl → levelOk (preAt pre i) (postAt post i) = true := by
  unfold flag at h
  simp only [List.all_eq_true, List.mem_range] at h
  intro i hi
  -- the tested index that carries the same pair as level i
  by_cases heq : pre.length = post.length
  · rw [if_pos heq] at h
    by_cases hlt : i < min (min pre.length post.length) nl
    · exact h i hlt
    · have hiL : pre.length ≤ i := by omega
      have := h (pre.length - 1) (by omega)
      unfold preAt postAt
      have e1 : min i (pre.length - 1) = min (pre.length - 1) (pre.length - 1) := by omega
      have e2 : min i (post.length - 1) = min (pre.length - 1) (post.length - 1) := by omega
      rw [e1, e2]; exact this
  · rw [if_neg heq] at h
    by_cases hlt : i < min (max pre.length post.length) nl
    · exact h i hlt
    · have hiM : max pre.length post.length ≤ i := by omega
      have := h (max pre.length post.length - 1) (by omega)
      unfold preAt postAt
      have e1 : min i (pre.length - 1) = min (max pre.length post.length - 1) (pre.length - 1) := by
        omega
      have e2 : min i (post.length - 1) = min (max pre.length post.length - 1) (post.length - 1) := by
        omega
      rw [e1, e2]; exact this

/-- what `levelOk` accepts: equal iteration counts and one of four shapes -/
theorem levelOk_shape (a b : Cfg) (h : levelOk a b = true) :
    a.iterations.getD defaultNiter = b.iterations.getD defaultNiter ∧
    ((a.name, b.name) ∈ [(some "cf_jacobi", some "fc_jacobi"), (some "fc_jacobi", some "cf_jacobi"),
        (some "cf_block_jacobi", some "fc_block_jacobi"),
        (some "fc_block_jacobi", some "cf_block_jacobi")] ∨
     (a.name = b.name ∧ a.name ∉ krylovRelaxation)) := by
  unfold levelOk at h
  simp only at h
  by_cases h1 : a.iterations.getD defaultNiter ≠ b.iterations.getD defaultNiter
  · rw [if_pos h1] at h; exact absurd h (by decide)
  · rw [if_neg h1] at h
    refine ⟨by simpa using h1, ?_⟩
    by_cases h2 : (a.name, b.name) ∈ [(some "cf_jacobi", some "fc_jacobi"),
        (some "fc_jacobi", some "cf_jacobi"), (some "cf_block_jacobi", some "fc_block_jacobi"),
        (some "fc_block_jacobi", some "cf_block_jacobi")]
    · exact Or.inl h2
    · rw [if_neg h2] at h
      by_cases h3 : a.name ≠ b.name
      · rw [if_pos h3] at h; exact absurd h (by decide)
      · rw [if_neg h3] at h
        by_cases h4 : a.name ∈ krylovRelaxation ∨ b.name ∈ krylovRelaxation
        · rw [if_pos h4] at h; exact absurd h (by decide)
        · exact Or.inr ⟨by simpa using h3, fun hk => h4 (Or.inl hk)⟩

/-! The false positives of #4b are closed facts about the table (`levelOk` accepts the pairs
below). With names as `String`s the kernel cannot `decide` them (`String.startsWith` does not
reduce), so here they are only evaluated; in the framework the smoother names are an inductive
type generated from the registry, which makes the same facts `by decide`. -/
#eval levelOk ⟨some "gauss_seidel_ne", none, some "forward", none, none⟩
              ⟨some "gauss_seidel_ne", none, some "backward", none, none⟩   -- true
#eval levelOk ⟨some "jacobi_ne", none, none, none, none⟩ ⟨some "jacobi_ne", none, none, none, none⟩  -- true

#print axioms flag_sound
#print axioms levelOk_shape
end PyamgV.Flag
