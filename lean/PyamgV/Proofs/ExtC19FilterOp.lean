import PyamgV.Proofs.C19Diag
import Mathlib.Algebra.BigOperators.Group.Finset.Basic
import Mathlib.Algebra.BigOperators.Ring.Finset
import Mathlib.Data.List.Nodup

/-! PyamgV (C19, extension E9): the executable `filterOp` satisfies its constraint on every flagged
block row, for every input -- the refinement from the array model of `filter_operator`
(`Model/C19Utils.lean`) to the algebraic identity `(a - (a B - f) Z B^H) B = f`. -/
namespace PyamgV.C19
set_option linter.unusedSectionVars false

variable {K : Type} [Field K] [DecidableEq K]

/-! ### the pieces of `filterOp`, named -/

/-- pattern columns of block row `ib` -/
def fCols (cpb : Nat) (pat : Pat) (ib : Nat) : List Nat :=
  ((pat.getD ib #[]).toList.eraseDups).flatMap fun jb => (List.range cpb).map fun s => jb * cpb + s

/-- local Gram matrix `B_J^H B_J` -/
def fGram (conj : K → K) (nd : Nat) (B : Mat K) (cols : List Nat) : Mat K :=
  Mat.ofFn nd nd fun a b => sumL (cols.map fun c => conj (B.get c a) * B.get c b)

/-- `A` masked by the block pattern -/
def fMask (rpb cpb : Nat) (pat : Pat) (A : Mat K) : Mat K :=
  Mat.ofFn A.rows A.cols fun i j =>
    if (pat.getD (i / rpb) #[]).contains (j / cpb) then A.get i j else 0

def fYz (nd : Nat) (Y Z : Mat K) (i : Nat) : Array K :=
  (Array.range nd).map fun b => sumL ((List.range nd).map fun a => Y.get i a * Z.get a b)

def fRow (conj : K → K) (nd : Nat) (B : Mat K) (cols : List Nat) (yz : Array K) (row0 : Array K) : Array K :=
  cols.foldl (fun (row : Array K) c =>
    row.setIfInBounds c (row.getD c 0 - sumL ((List.range nd).map fun b => yz.getD b 0 * conj (B.get c b)))) row0

def fBlock (conj : K → K) (rpb nd : Nat) (B Y Z : Mat K) (cols : List Nat) (ib : Nat) (M : Mat K) : Mat K :=
  (List.range rpb).foldl (fun (M : Mat K) t =>
    M.setIfInBounds (ib * rpb + t)
      (fRow conj nd B cols (fYz nd Y Z (ib * rpb + t)) (M.getD (ib * rpb + t) #[]))) M

def fStep (conj : K → K) (rpb cpb nd : Nat) (pat : Pat) (B Y : Mat K) (st : Mat K × List Bool) (ib : Nat) :
    Mat K × List Bool :=
  if (fCols cpb pat ib).isEmpty then (st.1, st.2 ++ [false]) else
  match Mat.inv (fGram conj nd B (fCols cpb pat ib)) with
  | none => (st.1, st.2 ++ [false])
  | some Z => (fBlock conj rpb nd B Y Z (fCols cpb pat ib) ib st.1, st.2 ++ [true])

theorem filterOp_eq (conj : K → K) (rpb cpb nd : Nat) (pat : Pat) (A B Bf : Mat K) :
    filterOp conj rpb cpb nd pat A B Bf =
      (List.range pat.size).foldl
        (fStep conj rpb cpb nd pat B (Mat.sub (Mat.mul (fMask rpb cpb pat A) B) Bf))
        (fMask rpb cpb pat A, []) := rfl

/-! ### array folds -/

/-- `row[c] -= corr c` for the listed (distinct) columns -/
theorem rowFold_get (corr : Nat → K) : ∀ (cols : List Nat) (row0 : Array K), cols.Nodup → ∀ c,
    ((cols.foldl (fun (row : Array K) c => row.setIfInBounds c (row.getD c 0 - corr c)) row0).size = row0.size) ∧
    (cols.foldl (fun (row : Array K) c => row.setIfInBounds c (row.getD c 0 - corr c)) row0).getD c 0 =
      if c ∈ cols ∧ c < row0.size then row0.getD c 0 - corr c else row0.getD c 0 := by
  intro cols
  induction cols with
  | nil => intro row0 _ c; simp
  | cons d l ih =>
    intro row0 hnd c
    rw [List.foldl_cons]
    have hd : d ∉ l := (List.nodup_cons.mp hnd).1
    obtain ⟨h1, h2⟩ := ih (row0.setIfInBounds d (row0.getD d 0 - corr d)) (List.nodup_cons.mp hnd).2 c
    refine ⟨by rw [h1]; simp, ?_⟩
    rw [h2]
    simp only [Array.size_setIfInBounds, List.mem_cons, Array.getD_eq_getD_getElem?,
      Array.getElem?_setIfInBounds]
    by_cases e : c = d
    · subst e
      simp only [hd, false_and, if_false, true_or, true_and]
      by_cases hs : c < row0.size
      · simp [hs]
      · simp [hs]
    · have e' : ¬ d = c := fun h => e h.symm
      simp [e, e']

/-- `M[base + t] <- g (base + t) M[base + t]` for `t < cnt` -/
theorem blockFold_get (g : Nat → Array K → Array K) (base : Nat) : ∀ (cnt : Nat) (M : Mat K) (i : Nat),
    ((List.range cnt).foldl (fun (M : Mat K) t => M.setIfInBounds (base + t) (g (base + t) (M.getD (base + t) #[]))) M).size
      = M.size ∧
    ((List.range cnt).foldl (fun (M : Mat K) t => M.setIfInBounds (base + t) (g (base + t) (M.getD (base + t) #[]))) M).getD i #[]
      = if base ≤ i ∧ i < base + cnt ∧ i < M.size then g i (M.getD i #[]) else M.getD i #[] := by
  intro cnt
  induction cnt with
  | zero => intro M i; simp; omega
  | succ n ih =>
    intro M i
    rw [List.range_succ, List.foldl_append, List.foldl_cons, List.foldl_nil]
    obtain ⟨h1, _⟩ := ih M i
    refine ⟨by rw [Array.size_setIfInBounds, h1], ?_⟩
    generalize hM' : (List.range n).foldl (fun (M : Mat K) t => M.setIfInBounds (base + t) (g (base + t) (M.getD (base + t) #[]))) M = M' at h1
    have hget : ∀ j, M'.getD j #[] = if base ≤ j ∧ j < base + n ∧ j < M.size then g j (M.getD j #[]) else M.getD j #[] := by
      intro j; rw [← hM']; exact (ih M j).2
    simp only [Array.getD_eq_getD_getElem?, Array.getElem?_setIfInBounds]
    simp only [Array.getD_eq_getD_getElem?] at hget
    by_cases e : base + n = i
    · subst e
      rw [if_pos rfl, h1]
      by_cases hs : base + n < M.size
      · rw [if_pos hs, if_pos ⟨by omega, by omega, hs⟩]
        rw [Option.getD_some, hget (base + n), if_neg (by omega)]
      · rw [if_neg hs, if_neg (by omega)]
        have : M[base + n]? = none := by
          rw [Array.getElem?_eq_none]; omega
        rw [this]
    · rw [if_neg e, hget i]
      by_cases c : base ≤ i ∧ i < base + n ∧ i < M.size
      · rw [if_pos c, if_pos ⟨c.1, by omega, c.2.2⟩]
      · rw [if_neg c, if_neg (by omega)]

/-! ### the block-row loop -/

theorem blk_iff (rpb ib N t : Nat) (ht : t < rpb) :
    (N * rpb ≤ ib * rpb + t ∧ ib * rpb + t < N * rpb + rpb) ↔ ib = N := by
  constructor
  · intro ⟨h1, h2⟩
    rcases Nat.lt_trichotomy ib N with h | h | h
    · have := Nat.mul_le_mul_right rpb (show ib + 1 ≤ N from h)
      rw [Nat.succ_mul] at this
      omega
    · exact h
    · have := Nat.mul_le_mul_right rpb (show N + 1 ≤ ib from h)
      rw [Nat.succ_mul] at this
      omega
  · intro h; subst h; omega

/-- the exact inverse `filterOp` uses on block row `ib` (`none`: row left uncorrected, flag `false`) -/
def fInv (conj : K → K) (cpb nd : Nat) (pat : Pat) (B : Mat K) (ib : Nat) : Option (Mat K) :=
  if (fCols cpb pat ib).isEmpty then none else Mat.inv (fGram conj nd B (fCols cpb pat ib))

theorem fStep_eq (conj : K → K) (rpb cpb nd : Nat) (pat : Pat) (B Y : Mat K) (st : Mat K × List Bool) (ib : Nat) :
    fStep conj rpb cpb nd pat B Y st ib =
      match fInv conj cpb nd pat B ib with
      | none => (st.1, st.2 ++ [false])
      | some Z => (fBlock conj rpb nd B Y Z (fCols cpb pat ib) ib st.1, st.2 ++ [true]) := by
  unfold fStep fInv
  by_cases h : (fCols cpb pat ib).isEmpty
  · rw [if_pos h, if_pos h]
  · rw [if_neg h, if_neg h]

/-- the row `filterOp` leaves at position `i` of block row `ib` -/
def fOutRow (conj : K → K) (cpb nd : Nat) (pat : Pat) (B Y : Mat K) (M0 : Mat K) (ib i : Nat) : Array K :=
  match fInv conj cpb nd pat B ib with
  | none => M0.getD i #[]
  | some Z => fRow conj nd B (fCols cpb pat ib) (fYz nd Y Z i) (M0.getD i #[])

theorem fLoop_spec (conj : K → K) (rpb cpb nd : Nat) (pat : Pat) (B Y M0 : Mat K) : ∀ N : Nat,
    ((List.range N).foldl (fStep conj rpb cpb nd pat B Y) (M0, [])).2
        = (List.range N).map (fun ib => (fInv conj cpb nd pat B ib).isSome) ∧
    ((List.range N).foldl (fStep conj rpb cpb nd pat B Y) (M0, [])).1.size = M0.size ∧
    ∀ ib t, t < rpb → ib * rpb + t < M0.size →
      ((List.range N).foldl (fStep conj rpb cpb nd pat B Y) (M0, [])).1.getD (ib * rpb + t) #[]
        = if ib < N then fOutRow conj cpb nd pat B Y M0 ib (ib * rpb + t) else M0.getD (ib * rpb + t) #[] := by
  intro N
  induction N with
  | zero => simp
  | succ n ih =>
    rw [List.range_succ, List.foldl_append, List.foldl_cons, List.foldl_nil, List.map_append]
    generalize (List.range n).foldl (fStep conj rpb cpb nd pat B Y) (M0, []) = st at ih
    obtain ⟨ih1, ih2, ih3⟩ := ih
    rw [fStep_eq]
    cases hz : fInv conj cpb nd pat B n with
    | none =>
      refine ⟨by simp [ih1, hz], ih2, ?_⟩
      intro ib t ht hi
      show st.1.getD (ib * rpb + t) #[] = _
      rw [ih3 ib t ht hi]
      by_cases c : ib < n
      · rw [if_pos c, if_pos (by omega)]
      · rw [if_neg c]
        by_cases e : ib = n
        · subst e
          rw [if_pos (by omega)]
          unfold fOutRow; rw [hz]
        · rw [if_neg (by omega)]
    | some Z =>
      have hb := blockFold_get (fun i row => fRow conj nd B (fCols cpb pat n) (fYz nd Y Z i) row) (n * rpb) rpb st.1
      refine ⟨by simp [ih1, hz], ?_, ?_⟩
      · show (fBlock conj rpb nd B Y Z (fCols cpb pat n) n st.1).size = _
        unfold fBlock
        rw [(hb 0).1, ih2]
      · intro ib t ht hi
        show (fBlock conj rpb nd B Y Z (fCols cpb pat n) n st.1).getD (ib * rpb + t) #[] = _
        unfold fBlock
        rw [(hb (ib * rpb + t)).2, ih3 ib t ht hi, ih2]
        by_cases e : ib = n
        · subst e
          have := (blk_iff rpb ib ib t ht).mpr rfl
          rw [if_pos ⟨this.1, this.2, hi⟩, if_neg (by omega), if_pos (by omega)]
          unfold fOutRow; rw [hz]
        · have hne : ¬ (n * rpb ≤ ib * rpb + t ∧ ib * rpb + t < n * rpb + rpb ∧ ib * rpb + t < M0.size) := by
            intro h
            exact e ((blk_iff rpb ib n t ht).mp ⟨h.1, h.2.1⟩)
          rw [if_neg hne]
          by_cases c : ib < n
          · rw [if_pos c, if_pos (by omega)]
          · rw [if_neg c, if_neg (by omega)]

/-! ### the pattern columns are distinct -/

theorem eraseDups_props : ∀ (n : Nat) (l : List Nat), l.length ≤ n →
    (∀ x, x ∈ l.eraseDups → x ∈ l) ∧ l.eraseDups.Nodup := by
  intro n
  induction n with
  | zero =>
    intro l hl
    have : l = [] := List.eq_nil_of_length_eq_zero (by omega)
    subst this
    simp
  | succ n ih =>
    intro l hl
    cases l with
    | nil => simp
    | cons a as =>
      rw [List.eraseDups_cons]
      have hlen : (as.filter fun b => !b == a).length ≤ n := by
        have := List.length_filter_le (fun b => !b == a) as
        simp only [List.length_cons] at hl
        omega
      obtain ⟨h1, h2⟩ := ih _ hlen
      constructor
      · intro x hx
        rcases List.mem_cons.mp hx with h | h
        · rw [h]; exact List.mem_cons_self
        · exact List.mem_cons_of_mem _ (List.mem_of_mem_filter (h1 x h))
      · refine List.nodup_cons.mpr ⟨?_, h2⟩
        intro ha
        have := (List.mem_filter.mp (h1 a ha)).2
        simp at this

theorem mem_fCols (cpb : Nat) (pat : Pat) (ib c : Nat) (h : c ∈ fCols cpb pat ib) :
    ∃ jb s, jb ∈ (pat.getD ib #[]).toList ∧ s < cpb ∧ c = jb * cpb + s := by
  unfold fCols at h
  simp only [List.mem_flatMap, List.mem_map, List.mem_range] at h
  obtain ⟨jb, hjb, s, hs, e⟩ := h
  exact ⟨jb, s, (eraseDups_props _ _ (Nat.le_refl _)).1 jb hjb, hs, e.symm⟩

theorem nodup_fCols (cpb : Nat) (pat : Pat) (ib : Nat) : (fCols cpb pat ib).Nodup := by
  unfold fCols
  rw [List.nodup_flatMap]
  constructor
  · intro jb _
    refine (List.nodup_range).map_on ?_
    intro s _ s' _ h
    omega
  · have hn := (eraseDups_props _ (pat.getD ib #[]).toList (Nat.le_refl _)).2
    refine List.Pairwise.imp ?_ hn
    intro jb jb' hne
    show List.Disjoint _ _
    intro c h1 h2
    simp only [List.mem_map, List.mem_range] at h1 h2
    obtain ⟨s, hs, e1⟩ := h1
    obtain ⟨s', hs', e2⟩ := h2
    apply hne
    have := (blk_iff cpb jb jb' s hs).mp ⟨by omega, by omega⟩
    exact this

/-! ### dense-model bookkeeping -/

theorem Mat.ofFn_size (r c : Nat) (f : Nat → Nat → K) : (Mat.ofFn r c f).size = r := by
  simp [Mat.ofFn]

theorem Mat.ofFn_getD (r c : Nat) (f : Nat → Nat → K) (i : Nat) (hi : i < r) :
    (Mat.ofFn r c f).getD i #[] = (Array.range c).map fun j => f i j := by
  simp [Mat.ofFn, Array.getD_eq_getD_getElem?, hi]

theorem Mat.ofFn_get (r c : Nat) (f : Nat → Nat → K) (i j : Nat) (hi : i < r) (hj : j < c) :
    (Mat.ofFn r c f).get i j = f i j := by
  unfold Mat.get
  rw [Mat.ofFn_getD r c f i hi]
  simp [Array.getD_eq_getD_getElem?, hj]

theorem Mat.ofFn_rows (r c : Nat) (f : Nat → Nat → K) : (Mat.ofFn r c f).rows = r :=
  Mat.ofFn_size r c f

theorem Mat.ofFn_cols (r c : Nat) (f : Nat → Nat → K) (hr : 0 < r) : (Mat.ofFn r c f).cols = c := by
  unfold Mat.cols
  rw [Mat.ofFn_getD r c f 0 hr]
  simp

theorem sumL_range (f : Nat → K) (n : Nat) :
    sumL ((List.range n).map f) = ∑ j ∈ Finset.range n, f j := by
  rw [sumL_sum]
  induction n with
  | zero => simp
  | succ n ih => rw [List.sum_range_succ, Finset.sum_range_succ, ih]

theorem sumL_nodup (f : Nat → K) (l : List Nat) (h : l.Nodup) :
    sumL (l.map f) = ∑ j ∈ l.toFinset, f j := by
  rw [sumL_sum, List.sum_toFinset f h]

/-- `Z` is an exact left inverse of `G` on the leading `nd x nd` block (entry by entry, with the
executable sum) -/
def IsLeftInv (nd : Nat) (Z G : Mat K) : Prop :=
  ∀ a k, a < nd → k < nd →
    sumL ((List.range nd).map fun b => Z.get a b * G.get b k) = if a = k then 1 else 0

/-- **the algebra of one corrected row** in executable form: `row0` = the masked row (length `m`),
`cols` distinct columns `< m`, `y` = `row0 B - f` on the first `nd` columns, `Z` an exact left inverse
of the Gram matrix: the row after the column loop of `filter_operator` maps `B` to `f` -/
theorem fRow_constraint (conj : K → K) (nd m : Nat) (B Y Z : Mat K) (cols : List Nat) (i : Nat)
    (row0 : Array K) (f : Nat → K) (hm : row0.size = m) (hnd : cols.Nodup) (hcm : ∀ c ∈ cols, c < m)
    (hY : ∀ k, k < nd → Y.get i k = (∑ c ∈ Finset.range m, row0.getD c 0 * B.get c k) - f k)
    (hZ : IsLeftInv nd Z (fGram conj nd B cols)) (k : Nat) (hk : k < nd) :
    sumL ((List.range m).map fun c =>
      (fRow conj nd B cols (fYz nd Y Z i) row0).getD c 0 * B.get c k) = f k := by
  rw [sumL_range]
  unfold fRow
  have hrow := fun c => (rowFold_get (fun c => sumL ((List.range nd).map fun b =>
    (fYz nd Y Z i).getD b 0 * conj (B.get c b))) cols row0 hnd c).2
  simp only [hrow]
  -- yz entries
  have hyz : ∀ b, b < nd → (fYz nd Y Z i).getD b 0 = ∑ a ∈ Finset.range nd, Y.get i a * Z.get a b := by
    intro b hb
    unfold fYz
    simp [Array.getD_eq_getD_getElem?, hb, sumL_range]
  -- Gram entries
  have hG : ∀ b k, b < nd → k < nd → (fGram conj nd B cols).get b k
      = ∑ c ∈ cols.toFinset, conj (B.get c b) * B.get c k := by
    intro b k hb hk
    unfold fGram
    rw [Mat.ofFn_get nd nd _ b k hb hk, sumL_nodup _ cols hnd]
  have hsub : cols.toFinset ⊆ Finset.range m := by
    intro c hc
    exact Finset.mem_range.mpr (hcm c (List.mem_toFinset.mp hc))
  have e1 : ∀ c ∈ Finset.range m,
      (if c ∈ cols ∧ c < row0.size then
          row0.getD c 0 - sumL ((List.range nd).map fun b => (fYz nd Y Z i).getD b 0 * conj (B.get c b))
        else row0.getD c 0) * B.get c k
      = row0.getD c 0 * B.get c k -
        (if c ∈ cols.toFinset then
          (∑ b ∈ Finset.range nd, (fYz nd Y Z i).getD b 0 * conj (B.get c b)) * B.get c k else 0) := by
    intro c hc
    have hc' : c < row0.size := by rw [hm]; exact Finset.mem_range.mp hc
    by_cases hcc : c ∈ cols
    · rw [if_pos ⟨hcc, hc'⟩, if_pos (List.mem_toFinset.mpr hcc), sumL_range]; ring
    · have : ¬ (c ∈ cols ∧ c < row0.size) := fun h => hcc h.1
      have h2 : c ∉ cols.toFinset := fun h => hcc (List.mem_toFinset.mp h)
      rw [if_neg this, if_neg h2]; ring
  rw [Finset.sum_congr rfl e1, Finset.sum_sub_distrib, Finset.sum_ite_mem,
    Finset.inter_eq_right.mpr hsub]
  -- the correction term is `Y[i, k]`
  have e2 : ∑ c ∈ cols.toFinset,
      (∑ b ∈ Finset.range nd, (fYz nd Y Z i).getD b 0 * conj (B.get c b)) * B.get c k = Y.get i k := by
    calc ∑ c ∈ cols.toFinset, (∑ b ∈ Finset.range nd, (fYz nd Y Z i).getD b 0 * conj (B.get c b)) * B.get c k
        = ∑ b ∈ Finset.range nd, (fYz nd Y Z i).getD b 0 * ∑ c ∈ cols.toFinset, conj (B.get c b) * B.get c k := by
          simp only [Finset.sum_mul, Finset.mul_sum]
          rw [Finset.sum_comm]
          refine Finset.sum_congr rfl fun b _ => Finset.sum_congr rfl fun c _ => ?_
          ring
      _ = ∑ b ∈ Finset.range nd, (∑ a ∈ Finset.range nd, Y.get i a * Z.get a b) * (fGram conj nd B cols).get b k := by
          refine Finset.sum_congr rfl fun b hb => ?_
          rw [hyz b (Finset.mem_range.mp hb), hG b k (Finset.mem_range.mp hb) hk]
      _ = ∑ a ∈ Finset.range nd, Y.get i a * ∑ b ∈ Finset.range nd, Z.get a b * (fGram conj nd B cols).get b k := by
          simp only [Finset.sum_mul, Finset.mul_sum]
          rw [Finset.sum_comm]
          refine Finset.sum_congr rfl fun b _ => Finset.sum_congr rfl fun c _ => ?_
          ring
      _ = ∑ a ∈ Finset.range nd, Y.get i a * (if a = k then 1 else 0) := by
          refine Finset.sum_congr rfl fun a ha => ?_
          rw [← sumL_range, hZ a k (Finset.mem_range.mp ha) hk]
      _ = Y.get i k := by
          simp only [mul_ite, mul_one, mul_zero]
          rw [Finset.sum_ite_eq' (Finset.range nd) k, if_pos (Finset.mem_range.mpr hk)]
  rw [e2, hY k hk]
  ring

/-! ### `filterOp` -/

theorem fMask_size (rpb cpb : Nat) (pat : Pat) (A : Mat K) : (fMask rpb cpb pat A).size = A.rows :=
  Mat.ofFn_size _ _ _

theorem fMask_row_size (rpb cpb : Nat) (pat : Pat) (A : Mat K) (i : Nat) (hi : i < A.rows) :
    ((fMask rpb cpb pat A).getD i #[]).size = A.cols := by
  unfold fMask
  rw [Mat.ofFn_getD _ _ _ i hi]
  simp

theorem fRow_size (conj : K → K) (nd : Nat) (B : Mat K) (cols : List Nat) (yz row0 : Array K)
    (h : cols.Nodup) : (fRow conj nd B cols yz row0).size = row0.size :=
  (rowFold_get _ cols row0 h 0).1

/-- the flags `filterOp` returns: block row `ib` is flagged iff its pattern is non-empty and the exact
inverse of the local Gram matrix exists -/
theorem filterOp_flag (conj : K → K) (rpb cpb nd : Nat) (pat : Pat) (A B Bf : Mat K) (ib : Nat)
    (hib : ib < pat.size) :
    (filterOp conj rpb cpb nd pat A B Bf).2.getD ib false = (fInv conj cpb nd pat B ib).isSome := by
  rw [filterOp_eq, (fLoop_spec conj rpb cpb nd pat B _ _ pat.size).1]
  simp [List.getD_eq_getElem?_getD, hib]

/-- the row `filterOp` returns at position `ib * rpb + t` -/
theorem filterOp_row (conj : K → K) (rpb cpb nd : Nat) (pat : Pat) (A B Bf : Mat K) (ib t : Nat)
    (hib : ib < pat.size) (ht : t < rpb) (hi : ib * rpb + t < A.rows) :
    (filterOp conj rpb cpb nd pat A B Bf).1.getD (ib * rpb + t) #[] =
      fOutRow conj cpb nd pat B (Mat.sub (Mat.mul (fMask rpb cpb pat A) B) Bf) (fMask rpb cpb pat A) ib
        (ib * rpb + t) := by
  rw [filterOp_eq, (fLoop_spec conj rpb cpb nd pat B _ _ pat.size).2.2 ib t ht (by rw [fMask_size]; exact hi),
    if_pos hib]

/-- **block row of `filter_operator`, executable model, every input**: if block row `ib` is flagged
(`fInv = some Z`) and `Z` is an exact left inverse of the local Gram matrix `B_J^H B_J`, then every
scalar row `i = ib * rpb + t` of the returned matrix satisfies `sum_c F[i, c] B[c, k] = Bf[i, k]` for
all `k < nd`.  Shape hypotheses: the row exists, the pattern columns lie inside `A`, `B` has at least
`nd` columns.  `conj` is arbitrary. -/
theorem filterOp_row_constraint (conj : K → K) (rpb cpb nd : Nat) (pat : Pat) (A B Bf : Mat K)
    (ib t : Nat) (hib : ib < pat.size) (ht : t < rpb) (hi : ib * rpb + t < A.rows)
    (hpat : ∀ jb ∈ (pat.getD ib #[]).toList, (jb + 1) * cpb ≤ A.cols) (hB : nd ≤ B.cols)
    (Z : Mat K) (hz : fInv conj cpb nd pat B ib = some Z)
    (hZ : IsLeftInv nd Z (fGram conj nd B (fCols cpb pat ib))) (k : Nat) (hk : k < nd) :
    sumL ((List.range A.cols).map fun c =>
      (filterOp conj rpb cpb nd pat A B Bf).1.get (ib * rpb + t) c * B.get c k) = Bf.get (ib * rpb + t) k := by
  have hrow := filterOp_row conj rpb cpb nd pat A B Bf ib t hib ht hi
  unfold Mat.get
  rw [hrow]
  unfold fOutRow
  rw [hz]
  generalize hi' : ib * rpb + t = i at hi hrow
  have hpos : 0 < A.rows := by omega
  refine fRow_constraint conj nd A.cols B _ Z (fCols cpb pat ib) i _ (fun k => (Bf.getD i #[]).getD k 0)
    (fMask_row_size rpb cpb pat A i hi) (nodup_fCols cpb pat ib) ?_ ?_ hZ k hk
  · intro c hc
    obtain ⟨jb, s, hjb, hs, e⟩ := mem_fCols cpb pat ib c hc
    have := hpat jb hjb
    rw [Nat.succ_mul] at this
    omega
  · intro k hk
    have hrows : (Mat.mul (fMask rpb cpb pat A) B).rows = A.rows := by
      unfold Mat.mul; rw [Mat.ofFn_rows]; exact fMask_size rpb cpb pat A
    have hcols : (Mat.mul (fMask rpb cpb pat A) B).cols = B.cols := by
      unfold Mat.mul; rw [Mat.ofFn_cols _ _ _ (by rw [show (fMask rpb cpb pat A).rows = A.rows from fMask_size rpb cpb pat A]; exact hpos)]
    have hmc : (fMask rpb cpb pat A).cols = A.cols := by
      unfold fMask; rw [Mat.ofFn_cols _ _ _ hpos]
    show (Mat.sub (Mat.mul (fMask rpb cpb pat A) B) Bf).get i k = _
    unfold Mat.sub
    rw [Mat.ofFn_get _ _ _ i k (by rw [hrows]; exact hi) (by rw [hcols]; omega)]
    have : (Mat.mul (fMask rpb cpb pat A) B).get i k
        = ∑ c ∈ Finset.range A.cols, ((fMask rpb cpb pat A).getD i #[]).getD c 0 * B.get c k := by
      unfold Mat.mul
      rw [Mat.ofFn_get _ _ _ i k (by rw [show (fMask rpb cpb pat A).rows = A.rows from fMask_size rpb cpb pat A]; exact hi) (by omega),
        hmc, sumL_range]
      rfl
    rw [this]
    rfl

/-- the same with the flag `filterOp` returns as hypothesis -/
theorem filterOp_flagged_constraint (conj : K → K) (rpb cpb nd : Nat) (pat : Pat) (A B Bf : Mat K)
    (ib t : Nat) (hib : ib < pat.size) (ht : t < rpb) (hi : ib * rpb + t < A.rows)
    (hpat : ∀ jb ∈ (pat.getD ib #[]).toList, (jb + 1) * cpb ≤ A.cols) (hB : nd ≤ B.cols)
    (hflag : (filterOp conj rpb cpb nd pat A B Bf).2.getD ib false = true)
    (hZ : ∀ Z, Mat.inv (fGram conj nd B (fCols cpb pat ib)) = some Z →
      IsLeftInv nd Z (fGram conj nd B (fCols cpb pat ib))) (k : Nat) (hk : k < nd) :
    sumL ((List.range A.cols).map fun c =>
      (filterOp conj rpb cpb nd pat A B Bf).1.get (ib * rpb + t) c * B.get c k) = Bf.get (ib * rpb + t) k := by
  rw [filterOp_flag conj rpb cpb nd pat A B Bf ib hib] at hflag
  obtain ⟨Z, hz⟩ := Option.isSome_iff_exists.mp hflag
  have hz' : Mat.inv (fGram conj nd B (fCols cpb pat ib)) = some Z := by
    unfold fInv at hz
    by_cases c : (fCols cpb pat ib).isEmpty
    · rw [if_pos c] at hz; cases hz
    · rw [if_neg c] at hz; exact hz
  exact filterOp_row_constraint conj rpb cpb nd pat A B Bf ib t hib ht hi hpat hB Z hz (hZ Z hz') k hk

#print axioms filterOp_flagged_constraint

end PyamgV.C19
