import PyamgV.Proofs.ExtPyRtLemmas
/-! PyamgV (extension E31): dictionaries of the translator's run-time library (`Model/ExtPyRt.lean`):
lookups, membership, `==` between two dictionaries as a statement about lookups, comprehensions
over `.items()`. Used by the proofs about the generated `_same_parameters` / `change_smoothers`. -/
namespace PyamgV.ExtPy

abbrev Kvs := List (String × PyVal)
def keys (a : Kvs) : List String := a.map (·.1)

theorem lookup_isSome_iff (a : Kvs) (k : String) : (a.lookup k).isSome = true ↔ k ∈ keys a := by
  induction a with
  | nil => simp [keys]
  | cons kv r ih =>
    obtain ⟨k', v⟩ := kv
    by_cases h : k = k'
    · subst h; simp [List.lookup, keys]
    · have h' : (k == k') = false := by simpa using h
      simp [List.lookup, h', keys, h] at ih ⊢

theorem lookup_eq_none_iff (a : Kvs) (k : String) : a.lookup k = none ↔ k ∉ keys a := by
  rw [← lookup_isSome_iff]; cases a.lookup k <;> simp

theorem mem_of_lookup (a : Kvs) (k : String) (v : PyVal) (h : a.lookup k = some v) : (k, v) ∈ a := by
  induction a with
  | nil => simp at h
  | cons kv r ih =>
    obtain ⟨k', v'⟩ := kv
    by_cases hk : k = k'
    · subst hk; simp [List.lookup] at h; subst h; simp
    · have h' : (k == k') = false := by simpa using hk
      simp [List.lookup, h'] at h
      exact List.mem_cons_of_mem _ (ih h)

theorem lookup_of_mem (a : Kvs) (hn : (keys a).Nodup) (k : String) (v : PyVal) (h : (k, v) ∈ a) :
    a.lookup k = some v := by
  induction a with
  | nil => simp at h
  | cons kv r ih =>
    obtain ⟨k', v'⟩ := kv
    simp [keys] at hn
    rcases List.mem_cons.mp h with h | h
    · cases h; simp [List.lookup]
    · have hk : k ≠ k' := by
        intro e; subst e; exact hn.1 v (by assumption)
      have h' : (k == k') = false := by simpa using hk
      simp [List.lookup, h']
      exact ih (by simpa [keys] using hn.2) h

theorem lookup_filter_ne (a : Kvs) (s k : String) :
    (a.filter (fun kv => kv.1 != s)).lookup k = if k = s then none else a.lookup k := by
  induction a with
  | nil => simp
  | cons kv r ih =>
    obtain ⟨k', v⟩ := kv
    by_cases h1 : k' = s
    · subst h1
      simp [List.filter, ih]
      by_cases h2 : k = k'
      · simp [h2]
      · have h' : (k == k') = false := by simpa using h2
        simp [h2, List.lookup, h']
    · have hb : (k' != s) = true := by simpa using h1
      simp only [List.filter, hb]
      by_cases h2 : k = k'
      · subst h2; simp [List.lookup, h1]
      · have h' : (k == k') = false := by simpa using h2
        simp [List.lookup, h', ih]

theorem keys_filter_nodup (a : Kvs) (p : String × PyVal → Bool) (h : (keys a).Nodup) : (keys (a.filter p)).Nodup := by
  unfold keys at *
  exact List.Nodup.sublist (List.Sublist.map _ (List.filter_sublist)) h

/-! ### the dictionary operations on a `dict` and a string key -/

@[simp] theorem pyIn_dict (k : String) (a : Kvs) : pyIn (.str k) (.dict a) = .ok ((a.lookup k).isSome) := by
  have : a.any (fun kv => kv.1 == k) = (a.lookup k).isSome := by
    induction a with
    | nil => rfl
    | cons kv r ih =>
      obtain ⟨k', v⟩ := kv
      by_cases h : k = k'
      · subst h; simp [List.lookup]
      · have h' : (k == k') = false := by simpa using h
        have h'' : (k' == k) = false := by simpa using (fun e => h (Eq.symm e))
        simp [List.lookup, h', h'', ih]
  simp [pyIn, this]

@[simp] theorem pyDictGet_dict (a : Kvs) (k : String) (d : PyVal) :
    pyDictGet (.dict a) (.str k) d = .ok ((a.lookup k).getD d) := rfl

theorem pyGetItem_dict (a : Kvs) (k : String) (v : PyVal) (h : a.lookup k = some v) :
    pyGetItem (.dict a) (.str k) = .ok v := by
  simp [pyGetItem, h]

/-! ### `==` of two dictionaries -/

/-- `==` of two optional values (a key present on both sides with equal values, or absent on both) -/
def optEq : Option PyVal → Option PyVal → Bool
  | none, none => true
  | some v, some w => pyEq v w
  | _, _ => false

theorem dictSub_iff (a b : Kvs) :
    dictSub a b = true ↔ ∀ kv ∈ a, ∃ w, b.lookup kv.1 = some w ∧ pyEq kv.2 w = true := by
  induction a with
  | nil => simp [dictSub]
  | cons kv r ih =>
    obtain ⟨k, v⟩ := kv
    simp only [dictSub, Bool.and_eq_true, ih, List.mem_cons, forall_eq_or_imp]
    constructor
    · rintro ⟨h1, h2⟩
      refine ⟨?_, h2⟩
      cases hb : b.lookup k with
      | none => simp [hb] at h1
      | some w => simp [hb] at h1; exact ⟨w, rfl, h1⟩
    · rintro ⟨⟨w, hw, he⟩, h2⟩
      exact ⟨by simp [hw, he], h2⟩

/-- two dictionaries are `==` iff every key is absent on both sides or present with `==` values -/
theorem pyEq_dict_iff (a b : Kvs) (ha : (keys a).Nodup) :
    pyEq (.dict a) (.dict b) = true ↔ ∀ k, optEq (a.lookup k) (b.lookup k) = true := by
  have hall : (b.all (fun kv => a.any (fun kv' => kv'.1 == kv.1))) = true ↔ ∀ k, k ∈ keys b → k ∈ keys a := by
    simp [List.all_eq_true, List.any_eq_true, keys]
  simp only [pyEq, Bool.and_eq_true, dictSub_iff, hall]
  constructor
  · rintro ⟨h1, h2⟩ k
    cases hl : a.lookup k with
    | some v =>
      obtain ⟨w, hw, he⟩ := h1 (k, v) (mem_of_lookup a k v hl)
      simp [hw, optEq, he]
    | none =>
      cases hb : b.lookup k with
      | none => rfl
      | some w =>
        have : k ∈ keys b := (lookup_isSome_iff b k).mp (by simp [hb])
        have := (lookup_isSome_iff a k).mpr (h2 k this)
        simp [hl] at this
  · intro h
    constructor
    · rintro ⟨k, v⟩ hm
      have hl := lookup_of_mem a ha k v hm
      have := h k
      rw [hl] at this
      cases hb : b.lookup k with
      | none => simp [hb, optEq] at this
      | some w => simp [hb, optEq] at this; exact ⟨w, rfl, this⟩
    · intro k hk
      have hb := (lookup_isSome_iff b k).mpr hk
      have := h k
      cases hl : a.lookup k with
      | none => cases hbb : b.lookup k <;> simp [hl, hbb, optEq] at this hb
      | some v => exact (lookup_isSome_iff a k).mp (by simp [hl])

/-! ### comprehensions over `.items()` and dictionary construction -/

@[simp] theorem pyItems_dict (a : Kvs) :
    pyItems (.dict a) = .ok (.list (a.map (fun kv => .tuple [.str kv.1, kv.2]))) := rfl
@[simp] theorem pyIter_list (xs : List PyVal) : pyIter (.list xs) = .ok xs := rfl
@[simp] theorem pyIter_tuple (xs : List PyVal) : pyIter (.tuple xs) = .ok xs := rfl
@[simp] theorem pyUnpack_pair (x y : PyVal) : pyUnpack (.tuple [x, y]) 2 = .ok [x, y] := rfl

theorem pyComp_map_filter {α β : Type} (a : List α) (enc : α → PyVal) (F : PyVal → PyM (Option β))
    (p : α → Bool) (g : α → β) (hF : ∀ x, F (enc x) = .ok (if p x then some (g x) else none)) :
    pyComp (a.map enc) F = .ok ((a.filter p).map g) := by
  induction a with
  | nil => rfl
  | cons x r ih =>
    simp only [List.map, pyComp, hF, ih, ok_bind, pure_eq_ok, List.filter]
    cases p x <;> simp

theorem dictInsert_new (acc : Kvs) (k : String) (v : PyVal) (h : k ∉ keys acc) :
    dictInsert acc k v = acc ++ [(k, v)] := by
  have : acc.any (fun kv => kv.1 == k) = false := by
    simp [List.any_eq_false]
    intro k' v' hm e
    exact h (by simp [keys]; exact ⟨v', e ▸ hm⟩)
  simp [dictInsert, this]

theorem pyMkDictAux_nodup (l acc : Kvs) (h : (keys (acc ++ l)).Nodup) :
    pyMkDictAux (l.map (fun kv => (PyVal.str kv.1, kv.2))) acc = .ok (.dict (acc ++ l)) := by
  induction l generalizing acc with
  | nil => simp [pyMkDictAux]
  | cons kv r ih =>
    obtain ⟨k, v⟩ := kv
    have hk : k ∉ keys acc := by
      simp [keys, List.nodup_append] at h
      intro hm
      simp [keys] at hm
      obtain ⟨v', hv'⟩ := hm
      exact (h.2.2 k v' hv').1 rfl
    simp only [List.map, pyMkDictAux, dictInsert_new acc k v hk]
    have := ih (acc ++ [(k, v)]) (by simpa [List.append_assoc] using h)
    simpa [List.append_assoc] using this

theorem pyMkDict_nodup (l : Kvs) (h : (keys l).Nodup) :
    pyMkDict (l.map (fun kv => (PyVal.str kv.1, kv.2))) = .ok (.dict l) := by
  simpa [pyMkDict] using pyMkDictAux_nodup l [] (by simpa using h)

end PyamgV.ExtPy
