import PyamgV.Proofs.ExtCGVec
import PyamgV.Proofs.ExtCGRunHh
import PyamgV.Proofs.ExtC07Vec

/-! PyamgV (extension E43, properties C06/C07): complex `fgmres` / `gmres_householder` **for the `Vector K n` instance the
driver executes** (`hopsVec star A M`, ops `ext_cg_cycle hh|fg`, `ext_cg_full hh|fg`) and for the pairs `K = CP F`.

* `cfgStep_hom`, `cghStep_hom`: the models commute with maps that commute with the vector operations and the
  coordinate access; `chopsHom_vec`: `toFn` carries `hopsVec star A M` onto `HOps.ofHerm … (dotH R n) (stdE n)`;
* `cfgmres_vec_estimate`, `cfgmres_vec_optimal`, `cfgmres_vec_truthful`, `cgmres_hh_vec_estimate`,
  `cgmres_hh_vec_optimal_krylov`, `cgmres_hh_vec_truthful`; `…_cp_…` for pairs. -/
set_option linter.unusedSectionVars false
set_option linter.unusedVariables false
namespace PyamgV.ExtCG
open PyamgV.C07 PyamgV.CHerm PyamgV.C07.CH PyamgV.ExtC06 Finset

local notation "gF" => PyamgV.C07.F

/-! ### structural homomorphism -/
section hom
variable {K V W : Type} [Add K] [Sub K] [Mul K] [Div K] [Neg K] [OfNat K 0] [OfNat K 1] [OfNat K 2]
variable (φ : V → W) (hv : HOps K V) (hw : HOps K W) (H : HOpsHom φ hv hw)
include H

theorem chhDir_hom (conj : K → K) (prev : V → V) (prew : W → W) (hp : ∀ v, φ (prev v) = prew (φ v))
    (ws : List V) (k : Nat) (x0 : V) :
    φ (chhDir hv conj prev ws k x0) = chhDir hw conj prew (ws.map φ) k (φ x0) := by
  simp only [chhDir]
  rw [hp, applyHH_hom φ hv hw H, H.o.add, H.o.smul, H.basis, H.get, getLast_map, List.map_reverse, List.map_take]

theorem chhArnoldi_hom (conj sqrt sgn : K → K) (nz : K → Bool) (n : Nat) (prev opv : V → V) (prew opw : W → W)
    (hp : ∀ v, φ (prev v) = prew (φ v)) (hop : ∀ v, φ (opv v) = opw (φ v)) (ws : List V) (k : Nat) (x0 : V) :
    φ (chhArnoldi hv conj sqrt sgn nz n prev opv ws k x0).z =
      (chhArnoldi hw conj sqrt sgn nz n prew opw (ws.map φ) k (φ x0)).z ∧
    φ (chhArnoldi hv conj sqrt sgn nz n prev opv ws k x0).w =
      (chhArnoldi hw conj sqrt sgn nz n prew opw (ws.map φ) k (φ x0)).w ∧
    (chhArnoldi hv conj sqrt sgn nz n prev opv ws k x0).col =
      (chhArnoldi hw conj sqrt sgn nz n prew opw (ws.map φ) k (φ x0)).col := by
  have hz := chhDir_hom φ hv hw H conj prev prew hp ws k x0
  obtain ⟨h1, h2⟩ := hhCol_hom φ hv hw H sqrt sgn nz n k (applyHH hv.o ws (opv (chhDir hv conj prev ws k x0)))
  rw [applyHH_hom φ hv hw H, hop, hz] at h1 h2
  exact ⟨hz, h1, h2⟩

theorem cfgStep_hom (conj sqrt sgn : K → K) (nz : K → Bool) (n : Nat) (prev : Nat → V → V) (prew : Nat → W → W)
    (hp : ∀ j v, φ (prev j v) = prew j (φ v)) (x0 : V) (s : HhSt K V) :
    mapHh φ (cfgStep hv conj sqrt sgn nz n prev x0 s) = cfgStep hw conj sqrt sgn nz n prew (φ x0) (mapHh φ s) := by
  obtain ⟨h1, h2, h3⟩ := chhArnoldi_hom φ hv hw H conj sqrt sgn nz n (prev s.cols.length) hv.o.A
    (prew s.cols.length) hw.o.A (hp s.cols.length) H.o.A s.ws s.cols.length x0
  simp only [cfgStep, mapHh, List.map_append, List.map_cons, List.map_nil]
  rw [h1, h2, h3, combO_hom φ hv.o hw.o H.o]
  simp only [List.map_append, List.map_cons, List.map_nil, h1]

theorem cfgIter_hom (conj sqrt sgn : K → K) (nz : K → Bool) (n : Nat) (prev : Nat → V → V) (prew : Nat → W → W)
    (hp : ∀ j v, φ (prev j v) = prew j (φ v)) (b x0 : V) (k : Nat) :
    mapHh φ (iter (cfgStep hv conj sqrt sgn nz n prev x0) k (hhInit hv sqrt sgn (hv.o.sub b (hv.o.A x0)))) =
      iter (cfgStep hw conj sqrt sgn nz n prew (φ x0)) k
        (hhInit hw sqrt sgn (hw.o.sub (φ b) (hw.o.A (φ x0)))) := by
  have := iter_hom (cfgStep hv conj sqrt sgn nz n prev x0) (cfgStep hw conj sqrt sgn nz n prew (φ x0)) (mapHh φ)
    (cfgStep_hom φ hv hw H conj sqrt sgn nz n prev prew hp x0) k (hhInit hv sqrt sgn (hv.o.sub b (hv.o.A x0)))
  rw [hhInit_hom φ hv hw H, H.o.sub, H.o.A] at this
  exact this

theorem cghStep_hom (conj sqrt sgn : K → K) (nz : K → Bool) (n : Nat) (x0 : V) (s : HhSt K V) :
    mapHh φ (cghStep hv conj sqrt sgn nz n x0 s) = cghStep hw conj sqrt sgn nz n (φ x0) (mapHh φ s) := by
  obtain ⟨h1, h2, h3⟩ := chhArnoldi_hom φ hv hw H conj sqrt sgn nz n (fun v => v)
    (fun v => hv.o.M (hv.o.A v)) (fun v => v) (fun v => hw.o.M (hw.o.A v)) (fun _ => rfl)
    (fun v => by rw [H.o.M, H.o.A]) s.ws s.cols.length x0
  simp only [cghStep, mapHh, List.map_append, List.map_cons, List.map_nil]
  rw [h1, h2, h3, H.o.add, hornerO_hom φ hv hw H, H.o.smul]

theorem cghIter_hom (conj sqrt sgn : K → K) (nz : K → Bool) (n : Nat) (b x0 : V) (k : Nat) :
    mapHh φ (iter (cghStep hv conj sqrt sgn nz n x0) k (hhInit hv sqrt sgn (hv.o.M (hv.o.sub b (hv.o.A x0))))) =
      iter (cghStep hw conj sqrt sgn nz n (φ x0)) k
        (hhInit hw sqrt sgn (hw.o.M (hw.o.sub (φ b) (hw.o.A (φ x0))))) := by
  have := iter_hom (cghStep hv conj sqrt sgn nz n x0) (cghStep hw conj sqrt sgn nz n (φ x0)) (mapHh φ)
    (cghStep_hom φ hv hw H conj sqrt sgn nz n x0) k (hhInit hv sqrt sgn (hv.o.M (hv.o.sub b (hv.o.A x0))))
  rw [hhInit_hom φ hv hw H, H.o.M, H.o.sub, H.o.A] at this
  exact this

theorem chhEng_hom {F : Type} (conj sqrt sgn : K → K) (nz : K → Bool) (mod nrm : K → F) (n : Nat) (b : V) :
    EngHom φ (mapHh φ) (chhEng hv conj sqrt sgn nz mod nrm n b) (chhEng hw conj sqrt sgn nz mod nrm n (φ b)) where
  start x := by
    show mapHh φ (hhInit hv sqrt sgn (hv.o.M (hv.o.sub b (hv.o.A x)))) = _
    rw [hhInit_hom φ hv hw H, H.o.M, H.o.sub, H.o.A]; rfl
  step x s := cghStep_hom φ hv hw H conj sqrt sgn nz n x s
  est _ := rfl
  cur x s := by
    show φ (s.xs.getLast?.getD x) = (s.xs.map φ).getLast?.getD (φ x)
    rw [getLast_map]
  resn x := by
    show nrm (hv.o.dot (hv.o.M (hv.o.sub b (hv.o.A x))) (hv.o.M (hv.o.sub b (hv.o.A x)))) =
      nrm (hw.o.dot (hw.o.M (hw.o.sub (φ b) (hw.o.A (φ x)))) (hw.o.M (hw.o.sub (φ b) (hw.o.A (φ x)))))
    rw [H.o.dot, H.o.M, H.o.sub, H.o.A]

theorem cfgEng_hom {F : Type} (conj sqrt sgn : K → K) (nz : K → Bool) (mod nrm : K → F) (n : Nat)
    (prev : Nat → V → V) (prew : Nat → W → W) (hp : ∀ j v, φ (prev j v) = prew j (φ v)) (b : V) :
    EngHom φ (mapHh φ) (cfgEng hv conj sqrt sgn nz mod nrm n prev b)
      (cfgEng hw conj sqrt sgn nz mod nrm n prew (φ b)) where
  start x := by
    show mapHh φ (hhInit hv sqrt sgn (hv.o.sub b (hv.o.A x))) = _
    rw [hhInit_hom φ hv hw H, H.o.sub, H.o.A]; rfl
  step x s := cfgStep_hom φ hv hw H conj sqrt sgn nz n prev prew hp x s
  est _ := rfl
  cur x s := by
    show φ (s.xs.getLast?.getD x) = (s.xs.map φ).getLast?.getD (φ x)
    rw [getLast_map]
  resn x := by
    show nrm (hv.o.dot (hv.o.sub b (hv.o.A x)) (hv.o.sub b (hv.o.A x))) =
      nrm (hw.o.dot (hw.o.sub (φ b) (hw.o.A (φ x))) (hw.o.sub (φ b) (hw.o.A (φ x))))
    rw [H.o.dot, H.o.sub, H.o.A]
end hom

/-! ### the vector instance over a field with an involution -/
section vectors
variable {K : Type} [Field K] [StarRing K] [DecidableEq K]
variable {F₀ : Type} [Field F₀] [LinearOrder F₀] [IsStrictOrderedRing F₀] {n : Nat}
variable (R : ReMap K F₀)

/-- the `i`-th coordinate as a Hermitian inner product -/
theorem cdot_stdE (i : Nat) (v : Fin n → K) :
    (dotH R n).h (stdE n i) v = if h : i < n then v ⟨i, h⟩ else 0 := by
  rw [dotH_h]
  by_cases h : i < n
  · rw [dif_pos h, Finset.sum_eq_single ⟨i, h⟩]
    · simp [stdE]
    · intro j _ hj
      have : ¬ j.val = i := fun hji => hj (Fin.ext hji)
      simp [stdE, this]
    · intro hh; exact absurd (Finset.mem_univ _) hh
  · rw [dif_neg h]
    apply Finset.sum_eq_zero
    intro j _
    have : ¬ j.val = i := by have := j.2; omega
    simp [stdE, this]

theorem stdE_cortho : COrthoFam (dotH R n) (stdE (K := K) n) n := by
  intro i j hi hj
  rw [cdot_stdE, dif_pos hi]
  simp only [stdE]

variable (A M : Vector (Vector K n) n)

/-- the module-level operations `hopsVec star A M` is carried onto -/
def cmodHOps : HOps K (Fin n → K) :=
  HOps.ofHerm (linOf A) (linOf (vctrans star A)) (linOf M) (dotH R n) (stdE n)

theorem chopsHom_vec : HOpsHom toFn (hopsVec (star : K → K) A M) (cmodHOps R A M) := by
  refine ⟨opsHom_cvec R A M, ?_, ?_, ?_⟩
  · intro v i
    show v[i]?.getD 0 = (dotH R n).h (stdE n i) (toFn v)
    rw [cdot_stdE]
    by_cases h : i < n
    · rw [dif_pos h]; simp [toFn, h]
    · rw [dif_neg h]; simp [h]
  · intro i
    funext j
    simp [toFn, hopsVec, cmodHOps, HOps.ofHerm, stdE]
  · intro i v
    funext j
    show toFn (Vector.ofFn (fun l : Fin n => if l.val < i then 0 else v[l])) j =
      ((toFn v - ∑ l ∈ range i, (dotH R n).h (stdE n l) (toFn v) • stdE n l : Fin n → K)) j
    simp only [Pi.sub_apply, Finset.sum_apply, Pi.smul_apply, smul_eq_mul, stdE]
    by_cases hji : j.val < i
    · rw [Finset.sum_eq_single j.val]
      · rw [cdot_stdE, dif_pos j.2]
        simp [toFn, hji]
      · intro l _ hl
        have : ¬ j.val = l := fun h => hl h.symm
        simp [this]
      · intro h; exact absurd (Finset.mem_range.mpr hji) h
    · rw [Finset.sum_eq_zero]
      · simp [toFn, hji]
      · intro l hl
        have : ¬ j.val = l := by have := Finset.mem_range.mp hl; omega
        simp [this]

variable (sqrt : K → K) (hS : ExactSqrt R sqrt) (sqrtF : F₀ → F₀) (hsqF : ∀ a, 0 ≤ a → sqrtF a * sqrtF a = a)
  (b x0 : Vector K n) (pre : Nat → Vector K n → Vector K n)

local notation "sg" => csgn (star : K → K) sqrt nzK

/-- complex FGMRES on vectors -/
def cfVec (k : Nat) : HhSt K (Vector K n) :=
  iter (cfgStep (hopsVec star A M) star sqrt sg nzK n pre x0) k
    (hhInit (hopsVec star A M) sqrt sg ((hopsVec star A M).o.sub b ((hopsVec star A M).o.A x0)))

theorem cfVec_map (k : Nat) : mapHh toFn (cfVec A M sqrt b x0 pre k) =
    cfSeq (linOf A) (linOf (vctrans star A)) (linOf M) (dotH R n) (stdE n) sqrt n (preFn pre) (toFn b) (toFn x0) k :=
  cfgIter_hom toFn _ _ (chopsHom_vec R A M) star sqrt sg nzK n pre (preFn pre) (preFn_hom pre) b x0 k

/-- complex GMRES(Householder) on vectors -/
def cghVec (k : Nat) : HhSt K (Vector K n) :=
  iter (cghStep (hopsVec star A M) star sqrt sg nzK n x0) k
    (hhInit (hopsVec star A M) sqrt sg
      ((hopsVec star A M).o.M ((hopsVec star A M).o.sub b ((hopsVec star A M).o.A x0))))

theorem cghVec_map (k : Nat) : mapHh toFn (cghVec A M sqrt b x0 k) =
    cghSeq (linOf A) (linOf (vctrans star A)) (linOf M) (dotH R n) (stdE n) sqrt n (toFn b) (toFn x0) k :=
  cghIter_hom toFn _ _ (chopsHom_vec R A M) star sqrt sg nzK n b x0 k

/-- the true residual `b − A x`, computed with the operations of the executable model -/
def resV (x : Vector K n) : Vector K n := subV b (vmv A x)

theorem toFn_resV (x : Vector K n) : toFn (resV A b x) = toFn b - linOf A (toFn x) := by
  unfold resV; rw [toFn_subH, toFn_vmv]

/-- the iterates handed to `callback` in inner iteration `m` -/
def xkF (m : Nat) : Vector K n :=
  (cfgmresHh (hopsVec star A M) star sqrt sg nzK n pre b x0 (m + 1)).getLast?.getD x0
def xkH (m : Nat) : Vector K n :=
  (cgmresHh (hopsVec star A M) star sqrt sg nzK n b x0 (m + 1)).getLast?.getD x0

theorem toFn_xkF (m : Nat) : toFn (xkF A M sqrt b x0 pre m) =
    xF (linOf A) (linOf (vctrans star A)) (linOf M) (dotH R n) (stdE n) sqrt n (preFn pre) (toFn b) (toFn x0) m := by
  unfold xkF xF
  rw [← cfVec_map R A M sqrt b x0 pre (m + 1)]
  show _ = ((cfVec A M sqrt b x0 pre (m + 1)).xs.map toFn).getLast?.getD (toFn x0)
  rw [getLast_map]; rfl

theorem toFn_xkH (m : Nat) : toFn (xkH A M sqrt b x0 m) =
    xH (linOf A) (linOf (vctrans star A)) (linOf M) (dotH R n) (stdE n) sqrt n (toFn b) (toFn x0) m := by
  unfold xkH xH
  rw [← cghVec_map R A M sqrt b x0 (m + 1)]
  show _ = ((cghVec A M sqrt b x0 (m + 1)).xs.map toFn).getLast?.getD (toFn x0)
  rw [getLast_map]; rfl

theorem cfVec_g (k : Nat) : (cfVec A M sqrt b x0 pre k).g =
    (cfSeq (linOf A) (linOf (vctrans star A)) (linOf M) (dotH R n) (stdE n) sqrt n (preFn pre) (toFn b)
      (toFn x0) k).g := by
  rw [← cfVec_map R A M sqrt b x0 pre k]; rfl

theorem cghVec_g (k : Nat) : (cghVec A M sqrt b x0 k).g =
    (cghSeq (linOf A) (linOf (vctrans star A)) (linOf M) (dotH R n) (stdE n) sqrt n (toFn b) (toFn x0) k).g := by
  rw [← cghVec_map R A M sqrt b x0 k]; rfl

include hS in
/-- **C06 clause, complex `fgmres` on `Vector K n`**: `‖b − A x_{m+1}‖² = |g[m+1]|²` -/
theorem cfgmres_vec_estimate (m : Nat) (hmn : m + 1 < n) (hg : gF (cfVec A M sqrt b x0 pre (m + 1)).g (m + 1) ≠ 0) :
    normSqH R (resV A b (xkF A M sqrt b x0 pre m)) =
      R.re (star (gF (cfVec A M sqrt b x0 pre (m + 1)).g (m + 1)) * gF (cfVec A M sqrt b x0 pre (m + 1)).g (m + 1)) := by
  rw [cfVec_g R] at hg ⊢
  rw [normSqH_eq, toFn_resV, toFn_xkF R]
  exact cfgmres_estimate (linOf A) (linOf (vctrans star A)) (linOf M) (dotH R n) (stdE n) R (fun _ => rfl) sqrt hS
    (dotH_def R) n (preFn pre) (toFn b) (toFn x0) (stdE_cortho R) m hmn hg

include hS in
/-- **C07 clause, complex `fgmres` on `Vector K n`**: the iterate handed to `callback` lies in
`x₀ + span{z_0 … z_m}` (the directions the model stores) and minimises `‖b − A x‖₂` over it, for any preconditioner
maps -/
theorem cfgmres_vec_optimal (m : Nat) (hmn : m + 1 < n) (hg : gF (cfVec A M sqrt b x0 pre (m + 1)).g (m + 1) ≠ 0) :
    toFn (xkF A M sqrt b x0 pre m) - toFn x0 ∈ Submodule.span K
      ((fun j => ((cfVec A M sqrt b x0 pre (m + 1)).zs.map toFn).getD j 0) '' {j | j < m + 1}) ∧
    ∀ y : Vector K n, toFn y - toFn x0 ∈ Submodule.span K
        ((fun j => ((cfVec A M sqrt b x0 pre (m + 1)).zs.map toFn).getD j 0) '' {j | j < m + 1}) →
      normSqH R (resV A b (xkF A M sqrt b x0 pre m)) ≤ normSqH R (resV A b y) := by
  rw [cfVec_g R] at hg
  obtain ⟨_, h1, h2⟩ := cfgmres_optimal (linOf A) (linOf (vctrans star A)) (linOf M) (dotH R n) (stdE n) R
    (fun _ => rfl) sqrt hS (dotH_def R) n (preFn pre) (toFn b) (toFn x0) (stdE_cortho R) m hmn hg
  have hzs : (cfSeq (linOf A) (linOf (vctrans star A)) (linOf M) (dotH R n) (stdE n) sqrt n (preFn pre) (toFn b)
      (toFn x0) (m + 1)).zs = (cfVec A M sqrt b x0 pre (m + 1)).zs.map toFn := by
    rw [← cfVec_map R A M sqrt b x0 pre (m + 1)]; rfl
  rw [hzs, ← toFn_xkF R] at h1 h2
  refine ⟨h1, fun y hy => ?_⟩
  rw [normSqH_eq, normSqH_eq, toFn_resV, toFn_resV]
  exact h2 (toFn y) hy

include hS in
/-- **C06 clause, complex `gmres_householder` on `Vector K n`** -/
theorem cgmres_hh_vec_estimate (m : Nat) (hmn : m + 1 < n) (hg : gF (cghVec A M sqrt b x0 (m + 1)).g (m + 1) ≠ 0) :
    normSqH R (presV A M b (xkH A M sqrt b x0 m)) =
      R.re (star (gF (cghVec A M sqrt b x0 (m + 1)).g (m + 1)) * gF (cghVec A M sqrt b x0 (m + 1)).g (m + 1)) := by
  rw [cghVec_g R] at hg ⊢
  rw [normSqH_eq, toFn_presV, toFn_xkH R]
  exact cgmres_hh_estimate (linOf A) (linOf (vctrans star A)) (linOf M) (dotH R n) (stdE n) R (fun _ => rfl) sqrt hS
    (dotH_def R) n (toFn b) (toFn x0) (stdE_cortho R) m hmn hg

include hS in
/-- **C07 clause, complex `gmres_householder` on `Vector K n`** -/
theorem cgmres_hh_vec_optimal_krylov (m : Nat) (hmn : m + 1 < n)
    (hg : gF (cghVec A M sqrt b x0 (m + 1)).g (m + 1) ≠ 0) :
    toFn (xkH A M sqrt b x0 m) - toFn x0 ∈
      ckry (linOf M ∘ₗ linOf A) (linOf M (toFn b - linOf A (toFn x0))) (m + 1) ∧
    ∀ y : Vector K n, toFn y - toFn x0 ∈ ckry (linOf M ∘ₗ linOf A) (linOf M (toFn b - linOf A (toFn x0))) (m + 1) →
      normSqH R (presV A M b (xkH A M sqrt b x0 m)) ≤ normSqH R (presV A M b y) := by
  rw [cghVec_g R] at hg
  obtain ⟨h1, h2⟩ := cgmres_hh_optimal_krylov (linOf A) (linOf (vctrans star A)) (linOf M) (dotH R n) (stdE n) R
    (fun _ => rfl) sqrt hS (dotH_def R) n (toFn b) (toFn x0) (stdE_cortho R) m hmn hg
  rw [← toFn_xkH R] at h1 h2
  refine ⟨h1, fun y hy => ?_⟩
  rw [normSqH_eq, normSqH_eq, toFn_presV, toFn_presV]
  exact h2 (toFn y) hy

include hS hsqF in
/-- **complex `gmres_householder` on `Vector K n`, complete run** (op `ext_cg_full hh`) -/
theorem cgmres_hh_vec_truthful (thr : F₀) (hthr : 0 < thr) (stag : Vector K n → Vector K n → Bool) (d : C06.GDims)
    (hI : 1 ≤ d.maxInner) (hO : 1 ≤ d.maxOuter) (hmax : d.maxInner ≤ n) (x0 : Vector K n) :
    GTruthful (gRun (chhEng (hopsVec star A M) star sqrt sg nzK (modR R sqrtF) (nrmR R sqrtF) n b) ltF
        (fun a => a) thr stag d x0) x0
      (fun x => sqrtF (normSqH R (presV A M b x)))
      (fun x => ltF (sqrtF (normSqH R (presV A M b x))) thr) d :=
  gRun_truthful _ ltF _ thr stag d hI hO
    (estInv_hom ltF _ thr (chhEng_hom toFn _ _ (chopsHom_vec R A M) star sqrt sg nzK (modR R sqrtF) (nrmR R sqrtF) n b)
      d.maxInner
      (chh_estInv (linOf A) (linOf (vctrans star A)) (linOf M) (dotH R n) (stdE n) R (fun _ => rfl) sqrt hS
        (dotH_def R) sqrtF hsqF n (toFn b) (stdE_cortho R) thr hthr d.maxInner hmax)) x0

include hS hsqF in
/-- **complex `fgmres` on `Vector K n`, complete run** (op `ext_cg_full fg`), any preconditioner maps -/
theorem cfgmres_vec_truthful (thr : F₀) (hthr : 0 < thr) (stag : Vector K n → Vector K n → Bool) (d : C06.GDims)
    (hI : 1 ≤ d.maxInner) (hO : 1 ≤ d.maxOuter) (hmax : d.maxInner ≤ n) (x0 : Vector K n) :
    GTruthful (gRun (cfgEng (hopsVec star A M) star sqrt sg nzK (modR R sqrtF) (nrmR R sqrtF) n pre b) ltF
        (fun a => a) thr stag d x0) x0
      (fun x => sqrtF (normSqH R (resV A b x)))
      (fun x => ltF (sqrtF (normSqH R (resV A b x))) thr) d :=
  gRun_truthful _ ltF _ thr stag d hI hO
    (estInv_hom ltF _ thr (cfgEng_hom toFn _ _ (chopsHom_vec R A M) star sqrt sg nzK (modR R sqrtF) (nrmR R sqrtF) n
        pre (preFn pre) (preFn_hom pre) b) d.maxInner
      (cfg_estInv (linOf A) (linOf (vctrans star A)) (linOf M) (dotH R n) (stdE n) R (fun _ => rfl) sqrt hS
        (dotH_def R) sqrtF hsqF n (preFn pre) (toFn b) (stdE_cortho R) thr hthr d.maxInner hmax)) x0
end vectors

/-! ### pairs over an ordered field with an exact square root -/
section pairs
variable {F : Type} [Field F] [LinearOrder F] [IsStrictOrderedRing F] {n : Nat}
variable (sqrtF : F → F) (hsqF : ∀ a, 0 ≤ a → sqrtF a * sqrtF a = a)
variable (A M : Vector (Vector (CP F) n) n) (b x0 : Vector (CP F) n) (pre : Nat → Vector (CP F) n → Vector (CP F) n)

/-- `_mysign` of the pair model -/
abbrev sgnCP : CP F → CP F := csgn CP.conj (CP.sqrtRe sqrtF) nzK

include hsqF in
/-- **complex `fgmres` over pairs, C06 clause**: `|g[m+1]| = ‖b − A x_{m+1}‖₂` -/
theorem cfgmres_cp_estimate (m : Nat) (hmn : m + 1 < n)
    (hg : gF (cfVec A M (CP.sqrtRe sqrtF) b x0 pre (m + 1)).g (m + 1) ≠ 0) :
    CP.mod sqrtF (gF (cfVec A M (CP.sqrtRe sqrtF) b x0 pre (m + 1)).g (m + 1)) =
      sqrtF (vdot CP.conj (resV A b (xkF A M (CP.sqrtRe sqrtF) b x0 pre m))
        (resV A b (xkF A M (CP.sqrtRe sqrtF) b x0 pre m))).re := by
  rw [CP.mod_eq, ← normSqH_cp]
  exact congrArg sqrtF
    (cfgmres_vec_estimate cpRe A M (CP.sqrtRe sqrtF) (exactSqrt_cp sqrtF hsqF) b x0 pre m hmn hg).symm

include hsqF in
/-- **complex `fgmres` over pairs, C07 clause** -/
theorem cfgmres_cp_optimal (m : Nat) (hmn : m + 1 < n)
    (hg : gF (cfVec A M (CP.sqrtRe sqrtF) b x0 pre (m + 1)).g (m + 1) ≠ 0) :
    toFn (xkF A M (CP.sqrtRe sqrtF) b x0 pre m) - toFn x0 ∈ Submodule.span (CP F)
      ((fun j => ((cfVec A M (CP.sqrtRe sqrtF) b x0 pre (m + 1)).zs.map toFn).getD j 0) '' {j | j < m + 1}) ∧
    ∀ y : Vector (CP F) n, toFn y - toFn x0 ∈ Submodule.span (CP F)
        ((fun j => ((cfVec A M (CP.sqrtRe sqrtF) b x0 pre (m + 1)).zs.map toFn).getD j 0) '' {j | j < m + 1}) →
      (vdot CP.conj (resV A b (xkF A M (CP.sqrtRe sqrtF) b x0 pre m))
          (resV A b (xkF A M (CP.sqrtRe sqrtF) b x0 pre m))).re ≤ (vdot CP.conj (resV A b y) (resV A b y)).re :=
  cfgmres_vec_optimal cpRe A M (CP.sqrtRe sqrtF) (exactSqrt_cp sqrtF hsqF) b x0 pre m hmn hg

include hsqF in
/-- **complex `gmres_householder` over pairs, C06 clause** -/
theorem cgmres_hh_cp_estimate (m : Nat) (hmn : m + 1 < n)
    (hg : gF (cghVec A M (CP.sqrtRe sqrtF) b x0 (m + 1)).g (m + 1) ≠ 0) :
    CP.mod sqrtF (gF (cghVec A M (CP.sqrtRe sqrtF) b x0 (m + 1)).g (m + 1)) =
      sqrtF (vdot CP.conj (presV A M b (xkH A M (CP.sqrtRe sqrtF) b x0 m))
        (presV A M b (xkH A M (CP.sqrtRe sqrtF) b x0 m))).re := by
  rw [CP.mod_eq, ← normSqH_cp]
  exact congrArg sqrtF
    (cgmres_hh_vec_estimate cpRe A M (CP.sqrtRe sqrtF) (exactSqrt_cp sqrtF hsqF) b x0 m hmn hg).symm

include hsqF in
/-- **complex `gmres_householder` over pairs, C07 clause** -/
theorem cgmres_hh_cp_optimal_krylov (m : Nat) (hmn : m + 1 < n)
    (hg : gF (cghVec A M (CP.sqrtRe sqrtF) b x0 (m + 1)).g (m + 1) ≠ 0) :
    toFn (xkH A M (CP.sqrtRe sqrtF) b x0 m) - toFn x0 ∈
      ckry (linOf M ∘ₗ linOf A) (linOf M (toFn b - linOf A (toFn x0))) (m + 1) ∧
    ∀ y : Vector (CP F) n,
      toFn y - toFn x0 ∈ ckry (linOf M ∘ₗ linOf A) (linOf M (toFn b - linOf A (toFn x0))) (m + 1) →
      (vdot CP.conj (presV A M b (xkH A M (CP.sqrtRe sqrtF) b x0 m))
          (presV A M b (xkH A M (CP.sqrtRe sqrtF) b x0 m))).re ≤
        (vdot CP.conj (presV A M b y) (presV A M b y)).re :=
  cgmres_hh_vec_optimal_krylov cpRe A M (CP.sqrtRe sqrtF) (exactSqrt_cp sqrtF hsqF) b x0 m hmn hg

include hsqF in
/-- **complex `gmres_householder` over pairs, complete run**: the engine `cgmresFullFloat "hh"` runs in binary64 -/
theorem cgmres_hh_cp_truthful (thr : F) (hthr : 0 < thr)
    (stag : Vector (CP F) n → Vector (CP F) n → Bool) (d : C06.GDims)
    (hI : 1 ≤ d.maxInner) (hO : 1 ≤ d.maxOuter) (hmax : d.maxInner ≤ n) (x0 : Vector (CP F) n) :
    GTruthful (gRun (chhEng (hopsVec CP.conj A M) CP.conj (CP.sqrtRe sqrtF) (sgnCP sqrtF) nzK (CP.mod sqrtF)
        (fun z => sqrtF z.re) n b) ltF (fun a => a) thr stag d x0) x0
      (fun x => sqrtF (vdot CP.conj (presV A M b x) (presV A M b x)).re)
      (fun x => ltF (sqrtF (vdot CP.conj (presV A M b x) (presV A M b x)).re) thr) d := by
  have h := cgmres_hh_vec_truthful cpRe A M (CP.sqrtRe sqrtF) (exactSqrt_cp sqrtF hsqF) sqrtF hsqF b thr hthr stag d
    hI hO hmax x0
  have hmod : modR (cpRe (F := F)) sqrtF = CP.mod sqrtF := by funext z; exact (CP.mod_eq sqrtF z).symm
  rw [hmod] at h
  exact h

include hsqF in
/-- **complex `fgmres` over pairs, complete run** -/
theorem cfgmres_cp_truthful (thr : F) (hthr : 0 < thr)
    (stag : Vector (CP F) n → Vector (CP F) n → Bool) (d : C06.GDims)
    (hI : 1 ≤ d.maxInner) (hO : 1 ≤ d.maxOuter) (hmax : d.maxInner ≤ n) (x0 : Vector (CP F) n) :
    GTruthful (gRun (cfgEng (hopsVec CP.conj A M) CP.conj (CP.sqrtRe sqrtF) (sgnCP sqrtF) nzK (CP.mod sqrtF)
        (fun z => sqrtF z.re) n pre b) ltF (fun a => a) thr stag d x0) x0
      (fun x => sqrtF (vdot CP.conj (resV A b x) (resV A b x)).re)
      (fun x => ltF (sqrtF (vdot CP.conj (resV A b x) (resV A b x)).re) thr) d := by
  have h := cfgmres_vec_truthful cpRe A M (CP.sqrtRe sqrtF) (exactSqrt_cp sqrtF hsqF) sqrtF hsqF b pre thr hthr stag d
    hI hO hmax x0
  have hmod : modR (cpRe (F := F)) sqrtF = CP.mod sqrtF := by funext z; exact (CP.mod_eq sqrtF z).symm
  rw [hmod] at h
  exact h
end pairs

#print axioms cfgmres_cp_estimate
#print axioms cfgmres_cp_optimal
#print axioms cgmres_hh_cp_estimate
#print axioms cgmres_hh_cp_optimal_krylov
#print axioms cgmres_hh_cp_truthful
#print axioms cfgmres_cp_truthful
end PyamgV.ExtCG
