import PyamgV.Proofs.C07GmresGiv

/-! PyamgV (C07, GMRES with modified Gram–Schmidt): invariants of the Givens bookkeeping along the
states of the executable model over a `K`-module (`gmSeq`): list lengths, every stored rotated column
is `Q_{i+1}` applied to the Hessenberg column, `g` is `Q_k (β e₀)`, every rotation is a unit rotation
and zeroes its subdiagonal entry. -/
namespace PyamgV.C07
open Finset

variable {K : Type} [Field K] [LinearOrder K] [IsStrictOrderedRing K]
variable {V : Type} [AddCommGroup V] [Module K V]

theorem orth_len (e : EForm K V) : ∀ (vs : List V) (w : V), (GS.orth e vs w).2.length = vs.length
  | [], _ => rfl
  | q :: qs, w => by simp only [GS.orth, List.length_cons]; rw [orth_len e qs]

/-- the test `H[inner, inner+1] != 0` over a field -/
def nzK (a : K) : Bool := decide (a ≠ 0)
theorem nzK_true (a : K) (h : nzK a = true) : a ≠ 0 := by simpa [nzK] using h
theorem nzK_false (a : K) (h : nzK a = false) : a = 0 := by simpa [nzK] using h

theorem getD_append_lt {α : Type} (l : List α) (x d : α) (i : Nat) (h : i < l.length) :
    (l ++ [x]).getD i d = l.getD i d := by
  simp [List.getD_eq_getElem?_getD, List.getElem?_append, h]
theorem getD_append_len {α : Type} (l : List α) (x d : α) : (l ++ [x]).getD l.length d = x := by
  simp [List.getD_eq_getElem?_getD]

structure GivInv (n : Nat) (s : GmSt K V) (k : Nat) (β : K) : Prop where
  lcols : s.cols.length = k
  lrcols : s.rcols.length = k
  lcs : s.cs.length = k
  lsn : s.sn.length = k
  lg : s.g.length = k + 1
  lvs : s.vs.length = k + 1
  collen : ∀ i, i < k → (s.cols.getD i []).length = i + 2
  rc : ∀ i, i < k → F (s.rcols.getD i []) = Givens.Q (F s.cs) (F s.sn) (i + 1) (F (s.cols.getD i []))
  g : F s.g = Givens.Q (F s.cs) (F s.sn) k (fun r => if r = 0 then β else 0)
  unit : ∀ j, j < k → F s.cs j * F s.cs j + F s.sn j * F s.sn j = 1
  zero : ∀ j, j < k → j + 1 ≠ n →
    Givens.rot j (F s.cs j) (F s.sn j) (Givens.Q (F s.cs) (F s.sn) j (F (s.cols.getD j []))) (j + 1) = 0

variable (A AH M : V →ₗ[K] V) (e : EForm K V) (sqrt : K → K) (n : Nat) (b x0 : V)

theorem givInv_all (hsq : ∀ a, 0 ≤ a → sqrt a * sqrt a = a) (k : Nat) :
    GivInv n (gmSeq A AH M e sqrt nzK n b x0 k) k (sqrt (e.a (M (b - A x0)) (M (b - A x0)))) := by
  induction k with
  | zero =>
    simp only [gmSeq, iter, gmresInit, Ops.ofModule]
    refine ⟨rfl, rfl, rfl, rfl, rfl, rfl, by simp, by simp, ?_, by simp, by simp⟩
    funext l
    simp only [Givens.Q, F]
    cases l <;> simp
  | succ k ih =>
    have hstep : gmSeq A AH M e sqrt nzK n b x0 (k+1) =
        gmresStep (Ops.ofModule A AH M e) sqrt posK nzK n x0 (gmSeq A AH M e sqrt nzK n b x0 k) := rfl
    rw [hstep]
    generalize gmSeq A AH M e sqrt nzK n b x0 k = s at ih
    generalize sqrt (e.a (M (b - A x0)) (M (b - A x0))) = β at ih ⊢
    simp only [gmresStep, arnoldiO_eq]
    set col := (GS.arnoldiStep e sqrt (M ∘ₗ A) s.vs (s.vs.getLast?.getD x0)).2 with hcol
    have hcl : col.length = k + 2 := by
      simp only [hcol, GS.arnoldiStep, List.length_append, List.length_singleton]
      rw [orth_len, ih.lvs]
    rw [ih.lcols]
    have hspec := givensUpdate_spec sqrt nzK (k + 1 == n) s.cs s.sn s.g col k ih.lcs ih.lsn ih.lg hcl
    have hunit := givensUpdate_unit sqrt hsq nzK nzK_true (k + 1 == n) s.cs s.sn s.g col k
    set u := givensUpdate sqrt nzK (k + 1 == n) k s.cs s.sn s.g col with hu
    obtain ⟨hrc, hg, hrcl, hgl⟩ := hspec
    -- the coefficient functions agree with the old ones below k, and carry the new rotation at k
    have hcs_lt : ∀ j, j < k → F (s.cs ++ [u.c]) j = F s.cs j := fun j hj =>
      F_append_lt s.cs [u.c] j (by rw [ih.lcs]; exact hj)
    have hsn_lt : ∀ j, j < k → F (s.sn ++ [u.s]) j = F s.sn j := fun j hj =>
      F_append_lt s.sn [u.s] j (by rw [ih.lsn]; exact hj)
    have hcs_k : F (s.cs ++ [u.c]) k = u.c := by rw [← ih.lcs]; exact F_append_len s.cs u.c
    have hsn_k : F (s.sn ++ [u.s]) k = u.s := by rw [← ih.lsn]; exact F_append_len s.sn u.s
    have hQ : ∀ m, m ≤ k → ∀ w : Nat → K,
        Givens.Q (F (s.cs ++ [u.c])) (F (s.sn ++ [u.s])) m w = Givens.Q (F s.cs) (F s.sn) m w := by
      intro m hm w
      exact Q_congr _ _ _ _ m (fun j hj => ⟨hcs_lt j (by omega), hsn_lt j (by omega)⟩) w
    refine ⟨by simp [ih.lcols], by simp [ih.lrcols], by simp [ih.lcs], by simp [ih.lsn], hgl,
      by simp [ih.lvs], ?_, ?_, ?_, ?_, ?_⟩
    · intro i hi
      by_cases hik : i < k
      · rw [getD_append_lt _ _ _ _ (by rw [ih.lcols]; exact hik)]; exact ih.collen i hik
      · have : i = k := by omega
        subst this
        rw [← ih.lcols, getD_append_len, ih.lcols]; exact hcl
    · intro i hi
      by_cases hik : i < k
      · rw [getD_append_lt _ _ _ _ (by rw [ih.lrcols]; exact hik),
          getD_append_lt _ _ _ _ (by rw [ih.lcols]; exact hik), hQ (i+1) (by omega)]
        exact ih.rc i hik
      · have : i = k := by omega
        subst this
        have e1 : (s.rcols ++ [u.rc]).getD i [] = u.rc := by rw [← ih.lrcols]; exact getD_append_len _ _ _
        have e2 : (s.cols ++ [col]).getD i [] = col := by rw [← ih.lcols]; exact getD_append_len _ _ _
        rw [e1, e2, hrc]
        simp only [Givens.Q]
        rw [hcs_k, hsn_k, hQ i (le_refl i)]
    · rw [hg, ih.g]
      simp only [Givens.Q]
      rw [hcs_k, hsn_k, hQ k (le_refl k)]
    · intro j hj
      by_cases hjk : j < k
      · rw [hcs_lt j hjk, hsn_lt j hjk]; exact ih.unit j hjk
      · have : j = k := by omega
        subst this
        rw [hcs_k, hsn_k]; exact hunit
    · intro j hj hjn
      by_cases hjk : j < k
      · rw [hcs_lt j hjk, hsn_lt j hjk, hQ j (by omega),
          getD_append_lt _ _ _ _ (by rw [ih.lcols]; exact hjk)]
        exact ih.zero j hjk hjn
      · have : j = k := by omega
        subst this
        have e2 : (s.cols ++ [col]).getD j [] = col := by rw [← ih.lcols]; exact getD_append_len _ _ _
        rw [hcs_k, hsn_k, hQ j (le_refl j), e2]
        have hb : (j + 1 == n) = false := by simpa using hjn
        have hz := givensUpdate_zero sqrt nzK nzK_false s.cs s.sn s.g col j ih.lcs ih.lsn hcl
        simp only [hu, hb]
        exact hz

end PyamgV.C07
