import PyamgV.Proofs.ExtC14XModulus
import Mathlib.Tactic.FieldSimp

/-! PyamgV (C14, extension E40): the complex square root `csqrtS` of the energy model is the principal square root
whenever the real square root it is built from is exact. -/
namespace PyamgV.C14X
open PyamgV PyamgV.N PyamgV.C14

/-- **`csqrtS sq z` squares to `z` and has non-negative real part** for an exact real square root `sq` -/
theorem csqrtS_spec (sq : Rat → Rat) (hs : SqrtLike sq) (hex : ∀ q, 0 ≤ q → sq q * sq q = q) (z : CRat) :
    csqrtS sq z * csqrtS sq z = z ∧ 0 ≤ (csqrtS sq z).re := by
  unfold csqrtS
  by_cases h0 : z.re = 0 ∧ z.im = 0
  · rw [if_pos h0]
    refine ⟨CRat.ext' ?_ ?_, le_refl _⟩ <;> simp [h0.1, h0.2]
  · rw [if_neg h0]
    have hz : z ≠ 0 := by
      intro h; apply h0; rw [h]; exact ⟨rfl, rfl⟩
    have hnpos : 0 < CRat.normSq z := lt_of_le_of_ne (normSq_nonneg z) (fun h => hz ((normSq_eq_zero_iff z).1 h.symm))
    have hm : 0 < sq (CRat.normSq z) := hs.pos _ hnpos
    have hmm : sq (CRat.normSq z) * sq (CRat.normSq z) = z.re * z.re + z.im * z.im := hex _ (normSq_nonneg z)
    simp only
    set m := sq (CRat.normSq z) with hmdef
    by_cases hre : 0 ≤ z.re
    · rw [if_pos hre]
      have hq : 0 < (m + z.re) / 2 := by linarith
      have ha : 0 < sq ((m + z.re) / 2) := hs.pos _ hq
      have haa : sq ((m + z.re) / 2) * sq ((m + z.re) / 2) = (m + z.re) / 2 := hex _ (le_of_lt hq)
      set a := sq ((m + z.re) / 2) with hadef
      have hane : a ≠ 0 := ne_of_gt ha
      refine ⟨CRat.ext' ?_ ?_, le_of_lt ha⟩
      · simp only [CRat.mul_re]
        have h4 : 4 * (a * a) * (a * a) - z.im * z.im = 4 * (a * a) * z.re := by
          rw [haa]; nlinarith [hmm]
        field_simp
        nlinarith [h4]
      · simp only [CRat.mul_im]
        field_simp
        ring
    · rw [if_neg hre]
      have hre' : z.re < 0 := not_le.1 hre
      have hq : 0 < (m - z.re) / 2 := by linarith
      have hb : 0 < sq ((m - z.re) / 2) := hs.pos _ hq
      have hbb : sq ((m - z.re) / 2) * sq ((m - z.re) / 2) = (m - z.re) / 2 := hex _ (le_of_lt hq)
      set b := sq ((m - z.re) / 2) with hbdef
      have hbne : b ≠ 0 := ne_of_gt hb
      have habs : absQ z.im * absQ z.im = z.im * z.im := by
        rw [absQ_eq_abs]; exact abs_mul_abs_self _
      have h4 : z.im * z.im - 4 * (b * b) * (b * b) = 4 * (b * b) * z.re := by
        rw [hbb]; nlinarith [hmm]
      refine ⟨CRat.ext' ?_ ?_, div_nonneg (absQ_nonneg _) (by linarith)⟩
      · simp only [CRat.mul_re]
        have e : (if z.im < 0 then -b else b) * (if z.im < 0 then -b else b) = b * b := by split <;> ring
        rw [e]
        have : absQ z.im / (2 * b) * (absQ z.im / (2 * b)) = z.im * z.im / (4 * (b * b)) := by
          rw [div_mul_div_comm, habs]; ring_nf
        rw [this]
        field_simp
        nlinarith [h4]
      · simp only [CRat.mul_im]
        by_cases hi : z.im < 0
        · simp only [hi, if_true]
          have : absQ z.im = -z.im := by unfold absQ; rw [if_pos hi]
          rw [this]; field_simp; ring
        · simp only [hi, if_false]
          have : absQ z.im = z.im := by unfold absQ; rw [if_neg hi]
          rw [this]; field_simp; ring

end PyamgV.C14X
