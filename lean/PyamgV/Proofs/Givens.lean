import Mathlib.Algebra.Order.Field.Basic
import Mathlib.Algebra.BigOperators.Group.Finset.Basic
import Mathlib.Algebra.BigOperators.Ring.Finset
import Mathlib.Algebra.BigOperators.Fin
import Mathlib.Tactic.Ring
import Mathlib.Tactic.Linarith

/-! PyamgV (C07, GMRES): what the Givens sweep of `_gmres_mgs.py` / `_gmres_householder.py` /
`_fgmres.py` establishes. Rotation `j` acts on rows `j, j+1` with `c_j² + s_j² = 1` (the `lartg`
contract) and is chosen to zero entry `j+1` of the already-rotated column `j` of the Hessenberg
matrix. Then, with `Q` the product of the rotations: every rotated column `Q h_j` vanishes
below row `j`, `Q` preserves the Euclidean inner product, and therefore a solution `y` of the
triangular system `Σ_j y_j (Q h_j)_l = (Q βe₀)_l (l < k)` satisfies the **normal equations**
`⟨h_j, βe₀ − Σ_i y_i h_i⟩ = 0` — the hypothesis of `PyamgV.Gmres.gmres_optimal`. Vectors are
functions `Nat → K`, sums run over the first `k+1` rows. -/
namespace PyamgV.Givens
open Finset

variable {K : Type*} [Field K]

/-- one rotation acting on rows `i`, `i+1` -/
def rot (i : Nat) (c s : K) (u : Nat → K) : Nat → K :=
  fun l => if l = i then c * u i + s * u (i+1)
           else if l = i+1 then -s * u i + c * u (i+1) else u l

/-- the first `m` rotations, rotation `0` first -/
def Q (c s : Nat → K) : Nat → (Nat → K) → (Nat → K)
  | 0, u => u
  | m+1, u => rot m (c m) (s m) (Q c s m u)

def dotN (n : Nat) (u v : Nat → K) : K := ∑ l ∈ range n, u l * v l

theorem rot_add (i : Nat) (c s : K) (u v : Nat → K) :
    rot i c s (u + v) = rot i c s u + rot i c s v := by
  funext l; simp only [rot, Pi.add_apply]; split_ifs <;> ring

theorem rot_smul (i : Nat) (c s a : K) (u : Nat → K) :
    rot i c s (a • u) = a • rot i c s u := by
  funext l; simp only [rot, Pi.smul_apply, smul_eq_mul]; split_ifs <;> ring

theorem Q_add (c s : Nat → K) : ∀ m (u v : Nat → K), Q c s m (u + v) = Q c s m u + Q c s m v := by
  intro m
  induction m with
  | zero => intro u v; rfl
  | succ m ih => intro u v; simp only [Q]; rw [ih, rot_add]

theorem Q_smul (c s : Nat → K) : ∀ m (a : K) (u : Nat → K), Q c s m (a • u) = a • Q c s m u := by
  intro m
  induction m with
  | zero => intro a u; rfl
  | succ m ih => intro a u; simp only [Q]; rw [ih, rot_smul]

theorem Q_sum (c s : Nat → K) (m : Nat) (k : Nat) (y : Nat → K) (f : Nat → Nat → K) :
    Q c s m (fun l => ∑ i ∈ range k, y i * f i l) =
      fun l => ∑ i ∈ range k, y i * Q c s m (f i) l := by
  induction k with
  | zero =>
    simp only [range_zero, sum_empty]
    have : (fun _ : Nat => (0 : K)) = (0 : K) • (fun _ : Nat => (0 : K)) := by funext l; simp
    rw [this, Q_smul]; funext l; simp
  | succ k ih =>
    have h1 : (fun l => ∑ i ∈ range (k+1), y i * f i l) =
        (fun l => ∑ i ∈ range k, y i * f i l) + y k • f k := by
      funext l; simp [sum_range_succ]
    rw [h1, Q_add, Q_smul, ih]
    funext l; simp [sum_range_succ]

/-- a rotation with `c² + s² = 1` preserves the inner product of the first `n` rows -/
theorem rot_dot (n i : Nat) (hi : i + 1 < n) (c s : K) (hcs : c * c + s * s = 1)
    (u v : Nat → K) : dotN n (rot i c s u) (rot i c s v) = dotN n u v := by
  unfold dotN
  rw [← sub_eq_zero, ← sum_sub_distrib]
  rw [sum_eq_add (i) (i+1) (by omega)]
  · simp only [rot, if_true]
    have h1 : (i + 1 = i) = False := by simp
    simp only [h1, if_false, if_true]
    have e : (c * u i + s * u (i + 1)) * (c * v i + s * v (i + 1)) - u i * v i +
        ((-s * u i + c * u (i + 1)) * (-s * v i + c * v (i + 1)) - u (i + 1) * v (i + 1)) =
        (c * c + s * s - 1) * (u i * v i + u (i + 1) * v (i + 1)) := by ring
    rw [e, hcs]; ring
  · intro l _ hl
    simp only [rot, if_neg hl.1, if_neg hl.2]; ring
  · intro h; exact absurd (mem_range.2 (by omega)) h
  · intro h; exact absurd (mem_range.2 hi) h

theorem Q_dot (c s : Nat → K) (n : Nat) : ∀ m, m < n → (∀ j, j < m → c j * c j + s j * s j = 1) →
    ∀ u v, dotN n (Q c s m u) (Q c s m v) = dotN n u v := by
  intro m
  induction m with
  | zero => intro _ _ u v; rfl
  | succ m ih =>
    intro hm hcs u v
    simp only [Q]
    rw [rot_dot n m (by omega) _ _ (hcs m (by omega)), ih (by omega) (fun j hj => hcs j (by omega))]

/-- rotations below a zero tail keep the tail zero -/
theorem rot_tail (i p : Nat) (hp : i + 1 ≤ p) (c s : K) (u : Nat → K)
    (hu : ∀ l, p < l → u l = 0) : ∀ l, p < l → rot i c s u l = 0 := by
  intro l hl
  simp only [rot, if_neg (show l ≠ i by omega), if_neg (show l ≠ i + 1 by omega)]
  exact hu l hl

theorem Q_tail (c s : Nat → K) : ∀ m p, m ≤ p → ∀ u : Nat → K, (∀ l, p < l → u l = 0) →
    ∀ l, p < l → Q c s m u l = 0 := by
  intro m
  induction m with
  | zero => intro p _ u hu; exact hu
  | succ m ih =>
    intro p hp u hu
    simp only [Q]
    exact rot_tail m p (by omega) _ _ _ (ih p (by omega) u hu)

/-- a rotation acting where the vector is already zero keeps it zero there -/
theorem rot_zero_tail (i p : Nat) (hp : p < i) (c s : K) (u : Nat → K)
    (hu : ∀ l, p < l → u l = 0) : ∀ l, p < l → rot i c s u l = 0 := by
  intro l hl
  simp only [rot]
  split_ifs
  · rw [hu i hp, hu (i+1) (by omega)]; ring
  · rw [hu i hp, hu (i+1) (by omega)]; ring
  · exact hu l hl

/-- data of a Givens sweep over `k` Hessenberg columns -/
structure Sweep (K : Type*) [Field K] (k : Nat) where
  h : Nat → Nat → K                    -- column j, row l
  c : Nat → K
  s : Nat → K
  hess : ∀ j l, j + 1 < l → h j l = 0
  unit : ∀ j, j < k → c j * c j + s j * s j = 1
  zero : ∀ j, j < k → rot j (c j) (s j) (Q c s j (h j)) (j+1) = 0

variable {k : Nat}

/-- after all `k` rotations column `j` vanishes below row `j` -/
theorem col_upper (S : Sweep K k) (j : Nat) (hj : j < k) :
    ∀ l, j < l → Q S.c S.s k (S.h j) l = 0 := by
  -- after rotation j
  have hstep : ∀ l, j < l → Q S.c S.s (j+1) (S.h j) l = 0 := by
    intro l hl
    by_cases hl1 : l = j + 1
    · rw [hl1]; exact S.zero j hj
    · simp only [Q]
      apply rot_tail j (j+1) (Nat.le_refl _) _ _ _ (Q_tail S.c S.s j (j+1) (by omega) (S.h j)
        (fun l hl => S.hess j l hl)) l (by omega)
  -- later rotations act on zeros
  have hlater : ∀ d, ∀ l, j < l → Q S.c S.s (j + 1 + d) (S.h j) l = 0 := by
    intro d
    induction d with
    | zero => exact hstep
    | succ d ih =>
      have : j + 1 + (d + 1) = (j + 1 + d) + 1 := by omega
      rw [this]
      simp only [Q]
      exact rot_zero_tail (j + 1 + d) j (by omega) _ _ _ ih
  have hfin := hlater (k - (j + 1))
  have e : j + 1 + (k - (j + 1)) = k := by omega
  rw [e] at hfin
  exact hfin

/-- **normal equations from the triangular solve** -/
theorem normal_eq (S : Sweep K k) (β : K) (y : Nat → K)
    (hsolve : ∀ l, l < k → ∑ i ∈ range k, y i * Q S.c S.s k (S.h i) l =
      Q S.c S.s k (fun r => if r = 0 then β else 0) l) :
    ∀ j, j < k → dotN (k+1) (S.h j)
      (fun l => (if l = 0 then β else 0) - ∑ i ∈ range k, y i * S.h i l) = 0 := by
  intro j hj
  rw [← Q_dot S.c S.s (k+1) k (by omega) S.unit]
  have hlin : Q S.c S.s k (fun l => (if l = 0 then β else 0) - ∑ i ∈ range k, y i * S.h i l) =
      fun l => Q S.c S.s k (fun r => if r = 0 then β else 0) l -
        ∑ i ∈ range k, y i * Q S.c S.s k (S.h i) l := by
    have h1 : (fun l => (if l = 0 then β else 0) - ∑ i ∈ range k, y i * S.h i l) =
        (fun r => if r = 0 then β else 0) + (-1 : K) • (fun l => ∑ i ∈ range k, y i * S.h i l) := by
      funext l; simp [sub_eq_add_neg]
    rw [h1, Q_add, Q_smul, Q_sum]
    funext l; simp [sub_eq_add_neg]
  rw [hlin]
  unfold dotN
  apply sum_eq_zero
  intro l hl
  dsimp only
  by_cases hlk : l < k
  · rw [hsolve l hlk]; ring
  · have : l = k := by have := mem_range.1 hl; omega
    rw [this, col_upper S j hj k hj]; ring

end PyamgV.Givens
