import PyamgV.Proofs.ExtC20CompOrtho
import PyamgV.Proofs.ExtC20SpectrumReal

/-! PyamgV (C20, extension E45): **completeness of the closed-form spectrum of the Poisson matrices**.

1-D: the `n` vectors `v_k(j) = U_j(cos(k π/(n+1)))`, `k = 1..n`, are eigenvectors of `tridiag(-1,2,-1)` for the
pairwise DISTINCT eigenvalues `2 - 2 cos(k π/(n+1))` (`cos` strictly decreasing on `[0, π]`), hence pairwise
orthogonal (symmetric matrix), hence (`ExtC20CompOrtho`) a basis of `ℝ^n`.

N-D: the `prod grid` product vectors `V m = ⊗_i v_{k_i}` (`m ↔ (k_1..k_N)`, `kidx`) are pairwise orthogonal
(`⟨u ⊗ w, u' ⊗ w'⟩ = ⟨u, u'⟩ ⟨w, w'⟩`) and not zero, and are eigenvectors of the FD and FE matrices of the
`stencil_grid` model (E21) — so they are an orthogonal eigenbasis and all of `ExtC20CompOrtho` applies. -/
namespace PyamgV.C20.Comp
open Finset PyamgV.C20 PyamgV.Stencil

/-! ## 1-D -/

/-- `cos(k π / (n+1))` -/
noncomputable def cosk (n k : Nat) : ℝ := Real.cos ((k : ℝ) * Real.pi / ((n : ℝ) + 1))

/-- `cos(k π/(n+1))` is strictly decreasing in `k` on `0..n+1` -/
theorem cosk_lt (n k k' : Nat) (h : k < k') (hk' : k' ≤ n + 1) : cosk n k' < cosk n k := by
  have hn : (0 : ℝ) < (n : ℝ) + 1 := by positivity
  unfold cosk
  apply Real.strictAntiOn_cos
  · constructor
    · positivity
    · rw [div_le_iff₀ hn]
      have : (k : ℝ) ≤ (n : ℝ) + 1 := by exact_mod_cast (by omega : k ≤ n + 1)
      nlinarith [Real.pi_pos]
  · constructor
    · positivity
    · rw [div_le_iff₀ hn]
      have : (k' : ℝ) ≤ (n : ℝ) + 1 := by exact_mod_cast hk'
      nlinarith [Real.pi_pos]
  · apply div_lt_div_of_pos_right _ hn
    have : (k : ℝ) < (k' : ℝ) := by exact_mod_cast h
    nlinarith [Real.pi_pos]

theorem cosk_ne (n k k' : Nat) (h : k ≠ k') (hk : k ≤ n + 1) (hk' : k' ≤ n + 1) : cosk n k ≠ cosk n k' := by
  rcases Nat.lt_or_gt_of_ne h with h1 | h1
  · exact ne_of_gt (cosk_lt n k k' h1 hk')
  · exact ne_of_lt (cosk_lt n k' k h1 hk)

theorem triR_symm (c c' : Nat) : (triR c c' : ℝ) = triR c' c := by
  unfold triR
  by_cases h : c = c'
  · subst h; rfl
  · have h' : ¬ c' = c := fun e => h e.symm
    rw [if_neg h, if_neg h']
    by_cases h2 : c + 1 = c' ∨ c' + 1 = c
    · rw [if_pos h2, if_pos (Or.symm h2)]
    · rw [if_neg h2, if_neg (fun e => h2 (Or.symm e))]

/-- the `m`-th closed-form eigenvector (`m = 0..n-1`, `k = m + 1`) -/
noncomputable def V1 (n m : Nat) : Nat → ℝ := chebU (cosk n (m + 1))
/-- the `m`-th closed-form eigenvalue -/
noncomputable def lam1 (n m : Nat) : ℝ := 2 - 2 * cosk n (m + 1)

theorem ip_self_pos (n : Nat) (v : Nat → ℝ) (hn : 0 < n) (hv : v 0 = 1) : 0 < ip n v v := by
  have h : v 0 * v 0 ≤ ip n v v := by
    unfold ip
    exact Finset.single_le_sum (f := fun p => v p * v p) (fun p _ => mul_self_nonneg (v p)) (Finset.mem_range.2 hn)
  rw [hv] at h
  linarith

theorem lam1_ne (n m m' : Nat) (hm : m < n) (hm' : m' < n) (h : m ≠ m') : lam1 n m ≠ lam1 n m' := by
  unfold lam1
  have := cosk_ne n (m + 1) (m' + 1) (by omega) (by omega) (by omega)
  intro e
  apply this
  linarith

theorem V1_eig (n m : Nat) (hm : m < n) (p : Nat) (hp : p < n) : mv n triR (V1 n m) p = lam1 n m * V1 n m p :=
  mv_triR_cheb_root n _ (chebU_root_cos n (m + 1) (by omega) (by omega)) p hp

/-- **1-D: the Chebyshev vectors are an orthogonal eigenbasis of `tridiag(-1,2,-1)`** -/
theorem ortho1d (n : Nat) : OrthoEigen n triR (V1 n) (lam1 n) where
  symm := fun p _ q _ => triR_symm p q
  eig := V1_eig n
  orth := fun m hm m' hm' h =>
    orth_of_ne n triR (fun p _ q _ => triR_symm p q) (V1 n m) (V1 n m') (lam1 n m) (lam1 n m')
      (V1_eig n m hm) (V1_eig n m' hm') (lam1_ne n m m' hm hm' h)
  nz := fun m hm => ne_of_gt (ip_self_pos n (V1 n m) (by omega) rfl)

/-- transfer to a matrix with the same leading block -/
theorem OrthoEigen.congr_mat {n : Nat} {M M' V : Nat → Nat → ℝ} {lam : Nat → ℝ} (h : OrthoEigen n M V lam)
    (e : ∀ p < n, ∀ q < n, M' p q = M p q) : OrthoEigen n M' V lam where
  symm := fun p hp q hq => by rw [e p hp q hq, e q hq p hp, h.symm p hp q hq]
  eig := fun m hm p hp => by
    rw [← h.eig m hm p hp]
    unfold mv
    exact Finset.sum_congr rfl fun q hq => by rw [e p hp q (Finset.mem_range.1 hq)]
  orth := h.orth
  nz := h.nz

/-! ## N-D: index tuples and product vectors -/

/-- the multi-index `(k_1, .., k_N)`, `1 ≤ k_i ≤ g_i`, numbered `m` (row-major, like the grid points) -/
def kidx (grid : List Nat) (m : Nat) : List Nat := (coordsR grid m).map (· + 1)

theorem kidx_cons (g : Nat) (gs : List Nat) (m : Nat) :
    kidx (g :: gs) m = (m / prod gs + 1) :: kidx gs (m % prod gs) := rfl

theorem prod_pos_of_lt {g : Nat} {gs : List Nat} {m : Nat} (h : m < prod (g :: gs)) : 0 < prod gs := by
  rw [prod_cons] at h
  rcases Nat.eq_zero_or_pos (prod gs) with h0 | h0
  · rw [h0] at h; omega
  · exact h0

theorem kidx_valid : ∀ (grid : List Nat) (m : Nat), m < prod grid →
    List.Forall₂ (fun g k => 1 ≤ k ∧ k ≤ g) grid (kidx grid m) := by
  intro grid
  induction grid with
  | nil => intro m _; exact List.Forall₂.nil
  | cons g gs ih =>
    intro m hm
    have hP := prod_pos_of_lt hm
    rw [prod_cons] at hm
    rw [kidx_cons]
    refine List.Forall₂.cons ⟨Nat.le_add_left 1 _, ?_⟩ (ih _ (Nat.mod_lt _ hP))
    have : m / prod gs < g := (Nat.div_lt_iff_lt_mul hP).2 hm
    omega

/-- every valid index tuple has a number -/
theorem kidx_surj : ∀ (grid ks : List Nat), List.Forall₂ (fun g k => 1 ≤ k ∧ k ≤ g) grid ks →
    ∃ m < prod grid, kidx grid m = ks := by
  intro grid ks h
  induction h with
  | nil => exact ⟨0, by simp [prod], rfl⟩
  | @cons g k gs ks hk _ ih =>
    obtain ⟨r, hr, er⟩ := ih
    refine ⟨(k - 1) * prod gs + r, lt_prod_cons g gs (k - 1) r (by omega) hr, ?_⟩
    have hpos : 0 < prod gs := by omega
    rw [kidx_cons]
    have e1 : ((k - 1) * prod gs + r) / prod gs = k - 1 := by
      rw [Nat.mul_comm, Nat.mul_add_div hpos, Nat.div_eq_of_lt hr]; rfl
    have e2 : ((k - 1) * prod gs + r) % prod gs = r := by
      rw [Nat.mul_comm, Nat.mul_add_mod, Nat.mod_eq_of_lt hr]
    rw [e1, e2, er]
    congr 1
    omega

/-- different numbers give different tuples -/
theorem kidx_inj : ∀ (grid : List Nat) (m m' : Nat), m < prod grid → m' < prod grid →
    kidx grid m = kidx grid m' → m = m' := by
  intro grid
  induction grid with
  | nil => intro m m' hm hm' _; simp [prod] at hm hm'; omega
  | cons g gs ih =>
    intro m m' hm hm' h
    have hP := prod_pos_of_lt hm
    rw [kidx_cons, kidx_cons] at h
    injection h with h1 h2
    have h3 := ih _ _ (Nat.mod_lt _ hP) (Nat.mod_lt _ hP) h2
    have h4 : m / prod gs = m' / prod gs := by omega
    rw [← Nat.div_add_mod m (prod gs), ← Nat.div_add_mod m' (prod gs), h3, h4]

/-- the `m`-th product vector `⊗_i v_{k_i}`, `(k_i) = kidx grid m` (the eigenvector of E21's closed form) -/
noncomputable def Vnd (grid : List Nat) (m : Nat) : Nat → ℝ := tvec grid ((cosList grid (kidx grid m)).map chebU)

theorem Vnd_cons (g : Nat) (gs : List Nat) (m : Nat) :
    Vnd (g :: gs) m = fun p => V1 g (m / prod gs) (p / prod gs) * Vnd gs (m % prod gs) (p % prod gs) := by
  funext p
  rfl

theorem Vnd_zero (grid : List Nat) (m : Nat) : Vnd grid m 0 = 1 := poissonFD_spectrum_nonzero grid _

/-- `⟨u ⊗ w, u' ⊗ w'⟩ = ⟨u, u'⟩ ⟨w, w'⟩` -/
theorem ip_prod (g P : Nat) (hP : 0 < P) (u u' w w' : Nat → ℝ) :
    ip (g * P) (fun p => u (p / P) * w (p % P)) (fun p => u' (p / P) * w' (p % P)) = ip g u u' * ip P w w' := by
  unfold ip
  rw [sum_range_mul, Finset.sum_mul_sum]
  apply Finset.sum_congr rfl
  intro c _
  apply Finset.sum_congr rfl
  intro r hr
  have hr' := Finset.mem_range.1 hr
  have d1 : (c * P + r) / P = c := by
    rw [Nat.mul_comm, Nat.mul_add_div hP, Nat.div_eq_of_lt hr']; rfl
  have d2 : (c * P + r) % P = r := by
    rw [Nat.mul_comm, Nat.mul_add_mod, Nat.mod_eq_of_lt hr']
  show u ((c * P + r) / P) * w ((c * P + r) % P) * (u' ((c * P + r) / P) * w' ((c * P + r) % P)) = _
  rw [d1, d2]; ring

/-- **the product vectors are pairwise orthogonal** -/
theorem Vnd_orth : ∀ (grid : List Nat) (m : Nat), m < prod grid → ∀ m' < prod grid, m ≠ m' →
    ip (prod grid) (Vnd grid m) (Vnd grid m') = 0 := by
  intro grid
  induction grid with
  | nil => intro m hm m' hm' h; simp [prod] at hm hm'; omega
  | cons g gs ih =>
    intro m hm m' hm' h
    have hP := prod_pos_of_lt hm
    rw [prod_cons] at hm hm' ⊢
    rw [Vnd_cons, Vnd_cons, ip_prod g (prod gs) hP]
    by_cases hc : m / prod gs = m' / prod gs
    · have hr : m % prod gs ≠ m' % prod gs := by
        intro e
        apply h
        rw [← Nat.div_add_mod m (prod gs), ← Nat.div_add_mod m' (prod gs), e, hc]
      rw [ih _ (Nat.mod_lt _ hP) _ (Nat.mod_lt _ hP) hr, mul_zero]
    · rw [(ortho1d g).orth _ ((Nat.div_lt_iff_lt_mul hP).2 hm) _ ((Nat.div_lt_iff_lt_mul hP).2 hm') hc, zero_mul]

/-- none of them is the zero vector -/
theorem Vnd_nz (grid : List Nat) (m : Nat) (hm : m < prod grid) : ip (prod grid) (Vnd grid m) (Vnd grid m) ≠ 0 :=
  ne_of_gt (ip_self_pos _ _ (by omega) (Vnd_zero grid m))

/-- the closed-form FD eigenvalue of an index tuple: `Σ_i (2 - 2 cos(k_i π/(g_i+1)))` -/
noncomputable def eigFD (grid ks : List Nat) : ℝ := ((cosList grid ks).map fun c => 2 - 2 * c).sum
/-- the closed-form FE eigenvalue of an index tuple: `3^N - Π_i (1 + 2 cos(k_i π/(g_i+1)))` -/
noncomputable def eigFE (grid ks : List Nat) : ℝ :=
  (3 : ℝ) ^ grid.length - ((cosList grid ks).map fun c => 1 + 2 * c).prod

/-- the FD / FE matrix of the `stencil_grid` model as a real entry function -/
noncomputable def fdR (grid : List Nat) : Nat → Nat → ℝ := castM (fdEntry grid)
noncomputable def feR (grid : List Nat) : Nat → Nat → ℝ := castM (feEntry grid)

theorem rowdotK_fd (grid : List Nat) (w : Nat → ℝ) (p : Nat) :
    rowdotK (stencilGrid grid (poissonFD grid.length)) w p = mv (prod grid) (fdR grid) w p :=
  rowdotK_eq_mv (prod grid) _ (fun t ht => (poissonFD_inrange grid t ht).2) w p

theorem rowdotK_fe (grid : List Nat) (w : Nat → ℝ) (p : Nat) :
    rowdotK (stencilGrid grid (poissonFE grid.length)) w p = mv (prod grid) (feR grid) w p :=
  rowdotK_eq_mv (prod grid) _ (fun t ht => (poissonFE_inrange grid t ht).2) w p

/-- **FD: the product vectors are an orthogonal eigenbasis** -/
theorem fd_ortho (grid : List Nat) : OrthoEigen (prod grid) (fdR grid) (Vnd grid) (fun m => eigFD grid (kidx grid m)) where
  symm := fun p _ q _ => by
    have := poisson_entry_symm grid false p q
    unfold fdR castM fdEntry
    simp only [poissonStencil] at this
    exact congrArg _ this
  eig := fun m hm p hp => by
    rw [← rowdotK_fd]
    exact poissonFD_spectrum_real grid (kidx grid m) (kidx_valid grid m hm) p hp
  orth := Vnd_orth grid
  nz := Vnd_nz grid

/-- **FE: the product vectors are an orthogonal eigenbasis** -/
theorem fe_ortho (grid : List Nat) : OrthoEigen (prod grid) (feR grid) (Vnd grid) (fun m => eigFE grid (kidx grid m)) where
  symm := fun p _ q _ => by
    have := poisson_entry_symm grid true p q
    unfold feR castM feEntry
    simp only [poissonStencil] at this
    exact congrArg _ this
  eig := fun m hm p hp => by
    rw [← rowdotK_fe]
    exact poissonFE_spectrum_real grid (kidx grid m) (kidx_valid grid m hm) p hp
  orth := Vnd_orth grid
  nz := Vnd_nz grid

end PyamgV.C20.Comp
