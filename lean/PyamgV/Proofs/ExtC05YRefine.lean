import PyamgV.Proofs.ExtC09Block
import PyamgV.Proofs.ExtC05YAdj
import PyamgV.Model.ExtC05YCycle

/-! PyamgV (extension E36, property C05): **the executed polynomial smoother IS the operator of `poly_pair`**.

`applySmY` on a `chebyshev` / `richardson` smoother (`.ext (.poly c0 cs) _ k`) runs `pyPolynomial` of
`Model/ExtC09Block.lean` (the array model compared bit-for-bit with `relaxation.polynomial` by C09).  Read through
`vec` (array ↦ function) it always returns, and what it returns is `x + powM A p(A) k (b − A x)` with `A = csrLin`
the operator of the CSR matrix and `p(A) = polyOp A c0 cs` the operator `poly_pair` is about.  Hence the pre- and the
post-smoother the flag accepts for this family (equal coefficient lists, equal `iterations`) are an adjoint pair on the
executed model whenever the level matrix is symmetric. -/
namespace PyamgV.C05Y
open PyamgV PyamgV.K PyamgV.ExtC09

variable {R : Type} [Field R] [LinearOrder R] [IsStrictOrderedRing R] [DecidableEq R]

/-- the polynomial of `Proofs/ExtC09Block.lean` evaluated at an operator is `polyOp` of `Proofs/ExtSmoothers.lean` -/
theorem aeval_polyOf {V : Type} [AddCommGroup V] [Module R V] (T : V →ₗ[R] V) (c0 : R) (cs : List R) :
    Polynomial.aeval T (polyOf c0 cs) = polyOp T c0 cs := by
  induction cs using List.reverseRecOn with
  | nil =>
    simp [polyOf_nil, polyOp, Polynomial.aeval_C, Algebra.algebraMap_eq_smul_one, Module.End.one_eq_id]
  | append_singleton cs c ih =>
    rw [polyOf_snoc, polyOp_snoc, map_add, map_mul, Polynomial.aeval_C, Polynomial.aeval_X, ih,
      Algebra.algebraMap_eq_smul_one, Module.End.one_eq_id, Module.End.mul_eq_comp]

/-- `iterations = k` of the executed `polynomial`: always returns, keeps the size, and is the linear iteration with
operator `powM A p(A) k` -/
theorem pyPolynomial_linIter (A : Csr R) (b : Array R) (c0 : R) (cs : List R) (hb : b.size = A.n) :
    ∀ (k : Nat) (x : Array R), x.size = A.n →
      ∃ y, pyPolynomial A b (c0 :: cs) k x = some y ∧ y.size = A.n ∧
        vec y = vec x + powM (csrLin A) (polyOp (csrLin A) c0 cs) k (vec b - csrLin A (vec x)) := by
  intro k
  induction k with
  | zero =>
    intro x hx
    exact ⟨x, rfl, hx, by simp [powM]⟩
  | succ k ih =>
    intro x hx
    obtain ⟨y1, hy1, hs1, hv1⟩ := polyStep_eq A b x c0 cs hx hb
    obtain ⟨y, hy, hs, hv⟩ := ih y1 hs1
    refine ⟨y, ?_, hs, ?_⟩
    · show (polyStep A b (c0 :: cs) x).bind (iterO (polyStep A b (c0 :: cs)) k) = some y
      rw [hy1]; exact hy
    · rw [hv, hv1, aeval_polyOf, powM_succ']
      simp only [compM, LinearMap.add_apply, LinearMap.sub_apply, LinearMap.comp_apply, map_add, map_sub]
      abel

/-- **the executed `chebyshev` / `richardson` smoother of the extended cycle model is `x + powM A p(A) k (b − A x)`** -/
theorem executed_poly_smoother (ofRat : Rat → R) (conj : R → R) (c0 : Rat) (cs : List Rat) (sw : Sweep) (k : Nat)
    (A : Csr R) (C : List Nat) (x b : Array R) (hx : x.size = A.n) (hb : b.size = A.n) :
    ∃ y, applySmY ofRat conj (.ext (.poly c0 cs) sw k) A C x b = some y ∧ y.size = A.n ∧
      vec y = vec x + powM (csrLin A) (polyOp (csrLin A) (ofRat c0) (cs.map ofRat)) k (vec b - csrLin A (vec x)) := by
  show ∃ y, pyPolynomial A b ((c0 :: cs).map ofRat) k x = some y ∧ _
  rw [List.map_cons]
  exact pyPolynomial_linIter A b (ofRat c0) (cs.map ofRat) hb k x hx

/-- … and that operator is self-adjoint when the level matrix is symmetric: the pair (pre, post) with equal coefficients
and equal `iterations` is an adjoint pair on the executed model -/
theorem executed_poly_selfadj {e : EForm R (Nat → R)} (ofRat : Rat → R) (c0 : Rat) (cs : List Rat) (k : Nat) (A : Csr R)
    (hA : IsAdj e e (csrLin A) (csrLin A)) :
    IsAdj e e (powM (csrLin A) (polyOp (csrLin A) (ofRat c0) (cs.map ofRat)) k)
      (powM (csrLin A) (polyOp (csrLin A) (ofRat c0) (cs.map ofRat)) k) :=
  poly_pair e (csrLin A) hA (ofRat c0) (cs.map ofRat) k

end PyamgV.C05Y
