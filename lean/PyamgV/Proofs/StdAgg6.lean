import PyamgV.Proofs.StdAgg5

/-! PyamgV (C12, connectivity clause): every aggregate returned by `standard_aggregation` on a
symmetric strength graph is a connected subgraph — every member is the root, a neighbour of the
root, or a neighbour of such a member of the same aggregate (a walk of length ≤ 2 to the root
that stays inside the aggregate). -/
namespace PyamgV.Agg
open PyamgV

/-- classification of the final entries by their pass-1 entry (extracted from the proof of
`standardAggregation_spec`) -/
theorem final_cases (G : Graph) (hG : GraphOK G) (hn : 1 ≤ G.n) :
    (standardAggregation G).2.1 = (pass1 G).y ∧
    (standardAggregation G).2.2 = (pass1 G).next - 1 ∧
    ∀ i, i < G.n →
      (rd (pass1 G).x i = -(G.n : Int) ∧ rd (standardAggregation G).1 i = -1) ∨
      (1 ≤ rd (pass1 G).x i ∧ rd (pass1 G).x i < (pass1 G).next ∧
        rd (standardAggregation G).1 i = rd (pass1 G).x i - 1) ∨
      (rd (pass1 G).x i = 0 ∧ ∃ j ∈ G.adj i, 1 ≤ rd (pass1 G).x j ∧
        rd (pass1 G).x j < (pass1 G).next ∧
        rd (standardAggregation G).1 i = rd (pass1 G).x j - 1) := by
  let r := standardAggregation G
  let x := r.1; let y := r.2.1; let k := r.2.2
  obtain ⟨hP, _⟩ := pass1_PQ G hG
  have hcnt := pass1_count G hG hn
  have hnz1 : ∀ i, i < G.n → rd (pass1 G).x i = 0 → ∃ j ∈ G.adj i, j ≠ i ∧ 1 ≤ rd (pass1 G).x j :=
    fun i hi h0 => hP.zero i hi hi h0
  have hP2 := pass2_inv G (pass1 G).x hP.xsize hnz1
  have hnz2 : ∀ i, i < G.n → rd (pass2 G (pass1 G).x) i ≠ 0 := fun i hi => hP2.done i hi hi
  have hP3 := pass3_inv G { x := pass2 G (pass1 G).x, y := (pass1 G).y, next := (pass1 G).next - 1 }
    hP2.size hnz2
  have hx : ∀ i, i < G.n → rd x i = conv G.n (rd (pass2 G (pass1 G).x) i) := fun i hi => hP3.conv i hi hi
  have hy : y = (pass1 G).y := hP3.y
  have hk : k = (pass1 G).next - 1 := hP3.next
  have hn1 := hP.next1
  -- value of every final entry, by cases on the pass-1 entry
  have hval : ∀ i, i < G.n →
      (rd (pass1 G).x i = -(G.n : Int) ∧ rd x i = -1) ∨
      (1 ≤ rd (pass1 G).x i ∧ rd (pass1 G).x i < (pass1 G).next ∧ rd x i = rd (pass1 G).x i - 1) ∨
      (rd (pass1 G).x i = 0 ∧ ∃ j ∈ G.adj i, 1 ≤ rd (pass1 G).x j ∧ rd (pass1 G).x j < (pass1 G).next ∧
          rd x i = rd (pass1 G).x j - 1) := by
    intro i hi
    rcases hP.vals i hi with h0 | h0 | h0
    · right; right
      obtain ⟨j, hj, hj1, hje⟩ := hP2.att i hi h0 (hnz2 i hi)
      have hjn := hG.bound i hi j hj
      have hjlt : rd (pass1 G).x j < (pass1 G).next := by
        rcases hP.vals j hjn with h' | h' | h' <;> omega
      refine ⟨h0, j, hj, hj1, hjlt, ?_⟩
      rw [hx i hi, hje]; unfold conv
      rw [if_neg (by omega), if_neg (by omega)]; omega
    · left
      refine ⟨h0, ?_⟩
      rw [hx i hi, hP2.keep i (by omega), h0]; unfold conv
      rw [if_neg (by omega), if_pos rfl]
    · right; left
      refine ⟨h0.1, h0.2, ?_⟩
      rw [hx i hi, hP2.keep i (by omega)]; unfold conv
      rw [if_pos (by omega)]
  exact ⟨hy, hk, hval⟩

/-- **C12, standard aggregation: aggregates are connected.** -/
theorem standardAggregation_connected (G : Graph) (hG : GraphOK G) (hn : 1 ≤ G.n) :
    let r := standardAggregation G
    ∀ v, v < G.n → 0 ≤ rd r.1 v →
      let root := (rd r.2.1 (rd r.1 v).toNat).toNat
      rd r.1 root = rd r.1 v ∧
      (v = root ∨ v ∈ G.adj root ∨
        ∃ u ∈ G.adj v, rd r.1 u = rd r.1 v ∧ (u = root ∨ u ∈ G.adj root)) := by
  intro r v hv hx
  obtain ⟨hy, hk, hval⟩ := final_cases G hG hn
  obtain ⟨hP, _⟩ := pass1_PQ G hG
  show rd (standardAggregation G).1 _ = _ ∧ _
  rw [hy]
  -- a pass-1 member `m` of aggregate `a+1` keeps id `a` and sits next to its root
  have hmem : ∀ m, m < G.n → 1 ≤ rd (pass1 G).x m → rd (pass1 G).x m < (pass1 G).next →
      rd (standardAggregation G).1 m = rd (pass1 G).x m - 1 := by
    intro m hm h1 h2
    rcases hval m hm with ⟨h0, _⟩ | ⟨_, _, h3⟩ | ⟨h0, _⟩
    · omega
    · exact h3
    · omega
  rcases hval v hv with ⟨_, h⟩ | ⟨h1, h2, h3⟩ | ⟨h0, j, hj, h1, h2, h3⟩
  · rw [h] at hx; omega
  · have e1 : (rd (standardAggregation G).1 v).toNat = (rd (pass1 G).x v - 1).toNat := by rw [h3]
    rw [e1]
    obtain ⟨r0, rt, rx⟩ := hP.root (rd (pass1 G).x v) h1 h2
    refine ⟨?_, ?_⟩
    · rw [hmem _ rt (by omega) (by omega), rx, h3]
    · rcases hP.memb v hv h1 with h | h
      · exact Or.inl h
      · exact Or.inr (Or.inl h)
  · have hjn := hG.bound v hv j hj
    have e1 : (rd (standardAggregation G).1 v).toNat = (rd (pass1 G).x j - 1).toNat := by rw [h3]
    rw [e1]
    obtain ⟨r0, rt, rx⟩ := hP.root (rd (pass1 G).x j) h1 h2
    refine ⟨?_, ?_⟩
    · rw [hmem _ rt (by omega) (by omega), rx, h3]
    · right; right
      refine ⟨j, hj, ?_, ?_⟩
      · rw [hmem j hjn h1 h2, h3]
      · exact hP.memb j hjn h1

#print axioms standardAggregation_connected
end PyamgV.Agg
