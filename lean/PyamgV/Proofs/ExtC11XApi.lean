import PyamgV.Model.ExtC11XApi
import PyamgV.Proofs.C11Refine
import PyamgV.Proofs.ExtC11RefineOnePoint
import PyamgV.Proofs.ExtSpmm
import Mathlib.Data.List.GetD

/-! PyamgV (C11, extension E49): `injection_interpolation` / `one_point_interpolation` on BSR, CSC and CSR
input (`Model/ExtC11XApi.lean`).

* every stored block of a BSR result is the identity block (`identBlocks_blk`), and a BSR matrix with
  identity blocks on the pattern `(pp, pj)` means `pattern ⊗ I` (`identBsr_val`);
* injection: entry `(I*bs + r, J*bs + c)` is `1` iff `r = c`, `I` is a C-point and `J` its coarse index
  (`apiInjection_val`), for every input format;
* one-point on BSR: the index arrays are those of the scalar kernel model on the strength matrix (the
  arrays `one_point_array_refines` is about), and the matrix is `P_scalar ⊗ I` (`apiOnePoint_bsr_val`);
* CSC input: the wrappers run on `cscToCsr X`, a well-formed CSR matrix with the same dense meaning; the
  results that do not use the values (`by_val = False`, injection) depend on the shape only. -/
namespace PyamgV.C11XA
open PyamgV PyamgV.N PyamgV.C11M PyamgV.C11 PyamgV.C11X

theorem flat_getD2 {α : Type} (L : Nat) (g : Nat → Nat → α) (d : α) :
    ∀ m a t, a < m → t < L →
      ((List.range m).flatMap (fun a => (List.range L).map (fun t => g a t))).getD (a * L + t) d = g a t := by
  intro m
  induction m with
  | zero => intro a t ha; omega
  | succ m ih =>
    intro a t ha ht
    have hlen : ((List.range m).flatMap (fun a => (List.range L).map (fun t => g a t))).length = m * L := by
      clear ih ha
      induction m with
      | zero => simp
      | succ k ihk => rw [List.range_succ, List.flatMap_append, List.length_append, ihk]; simp; ring
    rw [List.range_succ, List.flatMap_append]
    by_cases ham : a < m
    · have hlt : a * L + t < m * L := by
        have : (a + 1) * L ≤ m * L := Nat.mul_le_mul_right L ham
        rw [Nat.add_mul] at this; omega
      rw [List.getD_append _ _ _ _ (by rw [hlen]; exact hlt)]
      exact ih a t ham ht
    · have hae : a = m := by omega
      subst hae
      rw [List.getD_append_right _ _ _ _ (by rw [hlen]; omega), hlen]
      simp only [List.flatMap_cons, List.flatMap_nil, List.append_nil]
      have : a * L + t - a * L = t := by omega
      rw [this, List.getD_eq_getElem _ _ (by simpa using ht)]
      simp

/-- **every stored block is the identity** -/
theorem identBlocks_blk (bs k jj r c : Nat) (hjj : jj < k) (hr : r < bs) (hc : c < bs) :
    Spmm.rd (identBlocks bs k) (jj * (bs * bs) + r * bs + c) = if r = c then 1 else 0 := by
  unfold identBlocks Spmm.rd
  have hlt : r * bs + c < bs * bs := by
    have : (r + 1) * bs ≤ bs * bs := Nat.mul_le_mul_right bs hr
    rw [Nat.add_mul] at this; omega
  have h := flat_getD2 (bs * bs) (fun _ t => if t / bs = t % bs then (1 : Rat) else 0) 0 k jj (r * bs + c) hjj hlt
  rw [Nat.add_assoc]
  have hta : ∀ (l : List Rat) (i : Nat), l.toArray.getD i 0 = l.getD i 0 := by
    intro l i; simp [Array.getD_eq_getD_getElem?, List.getD_eq_getElem?_getD]
  rw [hta, h]
  have hb : 0 < bs := by omega
  have h1 : (r * bs + c) / bs = r := by
    rw [Nat.mul_comm, Nat.mul_add_div hb, Nat.div_eq_of_lt hc]; rfl
  have h2 : (r * bs + c) % bs = c := by
    rw [Nat.mul_comm, Nat.mul_add_mod, Nat.mod_eq_of_lt hc]
  rw [h1, h2]

theorem identBlocks_one (k jj : Nat) (hjj : jj < k) : Spmm.rd (identBlocks 1 k) jj = 1 := by
  have := identBlocks_blk 1 k jj 0 0 hjj (by omega) (by omega)
  simpa using this

/-! ### identity blocks on a pattern = pattern ⊗ I -/

theorem fold_ident (aj : Array Nat) (bs k J r c : Nat) (hr : r < bs) (hc : c < bs) :
    ∀ (l : List Nat) (s : Rat), (∀ jj ∈ l, jj < k) →
      l.foldl (fun s jj => if Spmm.rdN aj jj = J then
          s + Spmm.rd (identBlocks bs k) (jj * (bs * bs) + r * bs + c) else s) s =
        if r = c then l.foldl (fun s jj => if Spmm.rdN aj jj = J then s + Spmm.rd (identBlocks 1 k) jj else s) s
        else s := by
  intro l
  induction l with
  | nil => intro s _; simp
  | cons jj l ih =>
    intro s hl
    have hjj : jj < k := hl jj (by simp)
    simp only [List.foldl_cons]
    rw [identBlocks_blk bs k jj r c hjj hr hc, identBlocks_one k jj hjj, ih _ (fun x hx => hl x (by simp [hx]))]
    by_cases hrc : r = c
    · simp [hrc]
    · simp [hrc]

/-- **a BSR matrix with identity blocks on the pattern `(pp, pj)` is `pattern ⊗ I`**: entry
`(I*bs + r, J*bs + c)` is the entry `(I, J)` of the scalar matrix with ones on the same pattern when
`r = c`, and `0` otherwise -/
theorem identBsr_val (n m bs k : Nat) (pp pj : Array Nat) (I J r c : Nat) (hI : I < n) (hr : r < bs) (hc : c < bs)
    (hk : Spmm.rdN pp (I + 1) ≤ k) :
    (⟨n * bs, m * bs, bs, bs, pp, pj, identBlocks bs k⟩ : Spmm.Bsr Rat).val (I * bs + r) (J * bs + c) =
      if r = c then (⟨n, m, pp, pj, identBlocks 1 k⟩ : Spmm.Csr Rat).val I J else 0 := by
  have hb : 0 < bs := by omega
  have hi : I * bs + r < n * bs := by
    have : (I + 1) * bs ≤ n * bs := Nat.mul_le_mul_right bs hI
    rw [Nat.add_mul] at this; omega
  have d1 : (I * bs + r) / bs = I := by rw [Nat.mul_comm, Nat.mul_add_div hb, Nat.div_eq_of_lt hr]; rfl
  have d2 : (I * bs + r) % bs = r := by rw [Nat.mul_comm, Nat.mul_add_mod, Nat.mod_eq_of_lt hr]
  have d3 : (J * bs + c) / bs = J := by rw [Nat.mul_comm, Nat.mul_add_div hb, Nat.div_eq_of_lt hc]; rfl
  have d4 : (J * bs + c) % bs = c := by rw [Nat.mul_comm, Nat.mul_add_mod, Nat.mod_eq_of_lt hc]
  unfold Spmm.Bsr.val Spmm.Csr.val
  simp only [if_pos hi, if_pos hI, d1, d2, d3, d4]
  unfold Spmm.Bsr.blockRow Spmm.Csr.row Spmm.rowVal Spmm.Bsr.blk
  rw [List.foldl_map, List.foldl_map]
  simp only
  have hmem : ∀ jj ∈ List.range' (Spmm.rdN pp I) (Spmm.rdN pp (I + 1) - Spmm.rdN pp I), jj < k := by
    intro jj hjj
    rw [List.mem_range'_1] at hjj
    omega
  exact fold_ident pj bs k J r c hr hc _ 0 hmem

/-! ### injection -/

theorem toNat_map_getD (a : Array Int) (j : Nat) : Spmm.rdN (a.map Int.toNat) j = (a.getD j 0).toNat := by
  unfold Spmm.rdN
  rw [Array.getD_eq_getD_getElem?, Array.getD_eq_getD_getElem?, Array.getElem?_map]
  cases a[j]? <;> simp

/-- the scalar injection pattern: row `I` holds `cidx I` alone when `I` is a C-point -/
theorem injection_scalar_val (n : Nat) (split : Array Int) (hv : Valid split n) (I J : Nat) (hI : I < n) :
    (⟨n, cidx (isC split) n, (injection n split).1.map Int.toNat, (injection n split).2.map Int.toNat,
        identBlocks 1 (cidx (isC split) n)⟩ : Spmm.Csr Rat).val I J =
      if isC split I = true ∧ J = cidx (isC split) I then 1 else 0 := by
  obtain ⟨h1, h2⟩ := injection_spec split n hv
  unfold Spmm.Csr.val
  simp only [if_pos hI]
  unfold Spmm.Csr.row
  rw [toNat_map_getD, toNat_map_getD, h1 I (by omega), h1 (I + 1) (by omega)]
  simp only [Int.toNat_natCast]
  rw [cidx_succ]
  have hcol : ∀ jj < cidx (isC split) n, Spmm.rdN ((injection n split).2.map Int.toNat) jj = jj := by
    intro jj hjj
    rw [toNat_map_getD, h2]
    rw [Array.getD_eq_getD_getElem?, Array.getElem?_map]
    simp [hjj]
  by_cases hC : isC split I = true
  · have hlt : cidx (isC split) I < cidx (isC split) n := cidx_lt_nc (isC split) hC hI
    simp only [hC, if_true, Nat.add_sub_cancel_left, true_and]
    simp only [List.range'_one, List.map_cons, List.map_nil, Spmm.rowVal, List.foldl_cons, List.foldl_nil]
    rw [hcol _ hlt, identBlocks_one _ _ hlt]
    by_cases hJ : J = cidx (isC split) I
    · simp [hJ]
    · have : ¬ cidx (isC split) I = J := fun h => hJ h.symm
      simp [hJ, this]
  · simp [hC, Spmm.rowVal]

theorem injection_nc (n : Nat) (split : Array Int) (hv : Valid split n) :
    ((injection n split).1.getD n 0).toNat = cidx (isC split) n := by
  rw [(injection_spec split n hv).1 n (Nat.le_refl n)]; simp

/-- **`injection_interpolation` on any input format**: entry `(I*bs + r, J*bs + c)` of `P` is `1` iff
`r = c`, `I` is a C-point and `J` is its coarse index, and `0` otherwise (block identity rows on the
C-points, nothing on the F-points) -/
theorem apiInjection_val (a : AIn) (split : Array Int) (hv : Valid split a.dispatch.1) (I J r c : Nat)
    (hI : I < a.dispatch.1) (hr : r < a.dispatch.2.1) (hc : c < a.dispatch.2.1) :
    (apiInjection a split).val (I * a.dispatch.2.1 + r) (J * a.dispatch.2.1 + c) =
      if r = c ∧ isC split I = true ∧ J = cidx (isC split) I then 1 else 0 := by
  unfold apiInjection
  simp only
  rw [injection_nc _ split hv]
  have hk : Spmm.rdN ((injection a.dispatch.1 split).1.map Int.toNat) (I + 1) ≤ cidx (isC split) a.dispatch.1 := by
    rw [toNat_map_getD, (injection_spec split _ hv).1 (I + 1) (by omega)]
    simp only [Int.toNat_natCast]
    exact cidx_mono _ (by omega)
  rw [identBsr_val _ _ _ _ _ _ I J r c hI hr hc hk, injection_scalar_val _ split hv I J hI]
  by_cases hrc : r = c <;> simp [hrc]

/-- injection depends on the shape and block size of `A` only (in particular: CSC input = CSR input) -/
theorem apiInjection_shape_only (a b : AIn) (split : Array Int) (hn : a.dispatch.1 = b.dispatch.1)
    (hb : a.dispatch.2.1 = b.dispatch.2.1) : apiInjection a split = apiInjection b split := by
  unfold apiInjection
  simp only [hn, hb]

/-! ### one-point -/

/-- BSR input (`blocksize > 1`): the index arrays are those of the scalar kernel model on `C` (what
`one_point_array_refines` is about), whatever `by_val` -/
theorem apiOnePoint_bsr_index (X : Spmm.Bsr Rat) (C : N.Csr) (split : Array Int) (bv : Bool) (hb : X.br ≠ 1) :
    (apiOnePoint (.bsr X) C split bv).ap = (onePoint (X.rows / X.br) C split).1 ∧
    (apiOnePoint (.bsr X) C split bv).aj = (onePoint (X.rows / X.br) C split).2.1.map Int.toNat ∧
    (apiOnePoint (.bsr X) C split bv).ax = identBlocks X.br (onePoint (X.rows / X.br) C split).2.1.size ∧
    (apiOnePoint (.bsr X) C split bv).br = X.br ∧ (apiOnePoint (.bsr X) C split bv).bc = X.br := by
  unfold apiOnePoint
  have : ¬ ((AIn.bsr X).dispatch.2.1 = 1 ∧ bv = true) := fun h => hb h.1
  simp only [if_neg this]
  exact ⟨rfl, rfl, rfl, rfl, rfl⟩

theorem onePoint_pp_le (n : Nat) (C : N.Csr) (split : Array Int) (j : Nat) (hj : j ≤ n) :
    Spmm.rdN (onePoint n C split).1 j ≤ (onePoint n C split).2.1.size := by
  rw [onePoint_eq_fold]
  obtain ⟨_, h2, h3⟩ := onePoint_state n C split n
  have := h2 j hj
  unfold N.rdN at this
  unfold Spmm.rdN
  rw [this, h3.1]
  exact off_mono _ hj

/-- **`one_point_interpolation` without `by_val` (any format; BSR always): `P = P_scalar ⊗ I`**, where
`P_scalar` carries ones on the pattern the kernel computes from `C` -/
theorem apiOnePoint_val (a : AIn) (C : N.Csr) (split : Array Int) (bv : Bool)
    (hbv : ¬ (a.dispatch.2.1 = 1 ∧ bv = true)) (I J r c : Nat)
    (hI : I < a.dispatch.1) (hr : r < a.dispatch.2.1) (hc : c < a.dispatch.2.1) :
    (apiOnePoint a C split bv).val (I * a.dispatch.2.1 + r) (J * a.dispatch.2.1 + c) =
      if r = c then
        (⟨a.dispatch.1, nCoarse a.dispatch.1 split, (onePoint a.dispatch.1 C split).1,
          (onePoint a.dispatch.1 C split).2.1.map Int.toNat,
          identBlocks 1 (onePoint a.dispatch.1 C split).2.1.size⟩ : Spmm.Csr Rat).val I J
      else 0 := by
  unfold apiOnePoint
  simp only [if_neg hbv]
  exact identBsr_val _ _ _ _ _ _ I J r c hI hr hc (onePoint_pp_le _ C split (I + 1) (by omega))

/-- without `by_val` the result depends on the shape and block size of `A` only -/
theorem apiOnePoint_shape_only (a b : AIn) (C : N.Csr) (split : Array Int) (hn : a.dispatch.1 = b.dispatch.1)
    (hb : a.dispatch.2.1 = b.dispatch.2.1) : apiOnePoint a C split false = apiOnePoint b C split false := by
  unfold apiOnePoint
  simp only [hn, hb, Bool.false_eq_true, and_false, if_false]

/-- CSC input is converted at entry: both wrappers run on `cscToCsr X` … -/
theorem apiOnePoint_csc (X : Spmm.Csc Rat) (C : N.Csr) (split : Array Int) (bv : Bool) :
    apiOnePoint (.csc X) C split bv = apiOnePoint (.csr (Spmm.cscToCsr X)) C split bv := rfl

theorem apiInjection_csc (X : Spmm.Csc Rat) (split : Array Int) :
    apiInjection (.csc X) split = apiInjection (.csr (Spmm.cscToCsr X)) split := rfl

/-- … which is a well-formed CSR matrix with the dense meaning of `X` -/
theorem csc_entry_same_matrix (X : Spmm.Csc Rat) (h : X.wf = true) :
    (Spmm.cscToCsr X).wf = true ∧ ∀ i j, (Spmm.cscToCsr X).val i j = X.val i j :=
  ⟨Spmm.cscToCsr_wf X, Spmm.val_cscToCsr X h⟩

end PyamgV.C11XA
