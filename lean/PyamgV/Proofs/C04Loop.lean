import PyamgV.Proofs.Coarsen
import PyamgV.Model.C04Model
/-! PyamgV (C04): facts about the coarsening loop `Coarsen.build` beyond `build_spec` /
`build_decreasing`, and the instance of the loop that the driver runs (`runTrace`: the loop fed with
the observed per-step outcomes of a real constructor).  Core only.

* `build_induct`   : any list invariant preserved by one guarded step holds for the result
* `build_getLast`  : the finest level (last element; the list is kept coarsest-first) is the input
* `build_linked`   : any relation that `extend` establishes between a level and its successor holds
                     between all consecutive levels (dimension consistency, Galerkin, `R = Pᴴ`)
* `runTrace_spec`  : the trace of the driver's loop satisfies the limits clause (`LimitsSpec`)
* `limits_unique`  : `LimitsSpec` determines the number of levels -/
namespace PyamgV.C04
open PyamgV.Coarsen

deriving instance DecidableEq for Stop

variable {L : Type}

theorem build_induct (size : L → Nat) (extend : L → Option L) (maxLevels maxCoarse : Nat)
    (Inv : List L → Prop)
    (hstep : ∀ last rest nxt, Inv (last :: rest) → (last :: rest).length < maxLevels →
      size last > maxCoarse → extend last = some nxt → Inv (nxt :: last :: rest)) :
    ∀ (fuel : Nat) (lv : List L), Inv lv → Inv (build size extend maxLevels maxCoarse fuel lv) := by
  intro fuel
  induction fuel with
  | zero => intro lv h; simpa [build] using h
  | succ fuel ih =>
    intro lv h
    cases lv with
    | nil => simpa [build] using h
    | cons last rest =>
      simp only [build]
      by_cases hc : (last :: rest).length < maxLevels ∧ size last > maxCoarse
      · simp only [hc, and_self, if_true]
        cases he : extend last with
        | none => exact h
        | some nxt => exact ih _ (hstep last rest nxt h hc.1 hc.2 he)
      · simp only [hc, if_false]; exact h

/-- the finest level is never touched: it stays the last element of the (coarsest-first) list -/
theorem build_getLast (size : L → Nat) (extend : L → Option L) (maxLevels maxCoarse : Nat)
    (fuel : Nat) (lv : List L) :
    (build size extend maxLevels maxCoarse fuel lv).getLast? = lv.getLast? := by
  apply build_induct size extend maxLevels maxCoarse (fun l => l.getLast? = lv.getLast?)
  · intro last rest nxt h _ _ _
    rw [List.getLast?_cons_cons]; exact h
  · rfl

/-- `Linked Rel l`: `Rel fine coarse` holds for all consecutive levels of the coarsest-first list -/
inductive Linked (Rel : L → L → Prop) : List L → Prop
  | nil : Linked Rel []
  | single (a : L) : Linked Rel [a]
  | cons {a b : L} {rest : List L} : Rel b a → Linked Rel (b :: rest) → Linked Rel (a :: b :: rest)

theorem build_linked (size : L → Nat) (extend : L → Option L) (maxLevels maxCoarse : Nat)
    (Rel : L → L → Prop) (hext : ∀ l l', extend l = some l' → Rel l l') :
    ∀ (fuel : Nat) (lv : List L), Linked Rel lv →
      Linked Rel (build size extend maxLevels maxCoarse fuel lv) := by
  intro fuel lv h
  apply build_induct size extend maxLevels maxCoarse (Linked Rel) ?_ fuel lv h
  intro last rest nxt h _ _ he
  exact Linked.cons (hext last nxt he) h

/-! ### the limits clause as a specification on the list of level sizes -/

/-- `m` levels out of the step outcomes `sz 0, sz 1, …, sz (N-1)` (`sz (k+1)` = size of the level the
step produced from level `k`; the step on level `N-1` stalled) respect the limits:
at least one and at most `maxLevels` levels, coarsening went on only from levels with more than
`maxCoarse` unknowns, and it stopped only because `maxLevels` was reached, the last level is small
enough, or the step stalled. -/
def LimitsSpec (maxLevels maxCoarse : Nat) (sz : Nat → Nat) (N m : Nat) : Prop :=
  1 ≤ m ∧ m ≤ maxLevels ∧ m ≤ N ∧ (∀ k, k + 1 < m → sz k > maxCoarse) ∧
  (m = maxLevels ∨ sz (m - 1) ≤ maxCoarse ∨ m = N)

/-- the limits clause determines the number of levels -/
theorem limits_unique (maxLevels maxCoarse : Nat) (sz : Nat → Nat) (N m m' : Nat)
    (h : LimitsSpec maxLevels maxCoarse sz N m) (h' : LimitsSpec maxLevels maxCoarse sz N m') :
    m = m' := by
  obtain ⟨h1, h2, h3, h4, h5⟩ := h
  obtain ⟨h1', h2', h3', h4', h5'⟩ := h'
  rcases Nat.lt_trichotomy m m' with hlt | heq | hgt
  · exfalso
    have := h4' (m - 1) (by omega)
    rcases h5 with h | h | h <;> omega
  · exact heq
  · exfalso
    have := h4 (m' - 1) (by omega)
    rcases h5' with h | h | h <;> omega

/-! ### the loop the driver runs: `Coarsen.build` on (level index, size) pairs -/

/-- observed size of level `k` (0 beyond the list) -/
def szAt (sizes : Array Nat) (k : Nat) : Nat := sizes.getD k 0

theorem getElem?_szAt (sizes : Array Nat) (k : Nat) (h : k < sizes.size) :
    sizes[k]? = some (szAt sizes k) := by
  simp [szAt, Array.getD, h]

/-- the step read off the observed sizes: level `i` is followed by `sizes[i+1]`, the last one stalls -/
def stepOf (sizes : Array Nat) : Nat × Nat → Option (Nat × Nat)
  | (i, _) => (sizes[i+1]?).map (fun s => (i + 1, s))

def runLevels (maxLevels maxCoarse : Nat) (sizes : Array Nat) : List (Nat × Nat) :=
  match sizes[0]? with
  | none => []
  | some s0 => build Prod.snd (stepOf sizes) maxLevels maxCoarse maxLevels [(0, s0)]

/-- why the loop stopped, read in the order of the `while` condition -/
def stopOf (maxLevels maxCoarse : Nat) (len lastSize : Nat) : Stop :=
  if len ≥ maxLevels then .maxLevels else if lastSize ≤ maxCoarse then .smallEnough else .stalled

/-- the stalled step was called too -/
def extraCall : Stop → Nat
  | .stalled => 1 | _ => 0

def stopName : Stop → String
  | .maxLevels => "max_levels" | .smallEnough => "max_coarse" | .stalled => "stalled"

/-- sizes of the levels (finest first), exit reason, number of calls of the step.
`none`: no input level or `max_levels = 0` (outside the property's quantifier). -/
def runTrace (maxLevels maxCoarse : Nat) (sizes : Array Nat) : Option (List Nat × Stop × Nat) :=
  if maxLevels = 0 then none else
  match runLevels maxLevels maxCoarse sizes with
  | [] => none
  | (i, s) :: rest =>
    let stop := stopOf maxLevels maxCoarse (rest.length + 1) s
    some ((((i, s) :: rest).reverse.map Prod.snd), stop,
      rest.length + extraCall stop)

/-- the coarsest-first list of the first `k+1` (index, size) pairs -/
def firstK (sizes : Array Nat) : Nat → List (Nat × Nat)
  | 0 => [(0, szAt sizes 0)]
  | k+1 => (k + 1, szAt sizes (k+1)) :: firstK sizes k

theorem firstK_length (sizes : Array Nat) (k : Nat) : (firstK sizes k).length = k + 1 := by
  induction k with
  | zero => rfl
  | succ k ih => simp [firstK, ih]

theorem firstK_eq_cons (sizes : Array Nat) (k : Nat) :
    firstK sizes k = (k, szAt sizes k) :: (firstK sizes k).tail := by
  cases k <;> rfl

theorem firstK_mem (sizes : Array Nat) (k : Nat) (p : Nat × Nat) :
    p ∈ firstK sizes k ↔ ∃ j, j ≤ k ∧ p = (j, szAt sizes j) := by
  induction k with
  | zero =>
    simp only [firstK, List.mem_singleton]
    constructor
    · intro h; exact ⟨0, Nat.le_refl _, h⟩
    · rintro ⟨j, hj, rfl⟩
      have : j = 0 := by omega
      subst this; rfl
  | succ k ih =>
    simp only [firstK, List.mem_cons, ih]
    constructor
    · rintro (h | ⟨j, hj, h⟩)
      · exact ⟨k + 1, Nat.le_refl _, h⟩
      · exact ⟨j, by omega, h⟩
    · rintro ⟨j, hj, h⟩
      rcases Nat.lt_or_ge j (k + 1) with hlt | hge
      · exact Or.inr ⟨j, by omega, h⟩
      · have : j = k + 1 := by omega
        subst this; exact Or.inl h

theorem firstK_tail_mem (sizes : Array Nat) (k : Nat) (p : Nat × Nat) :
    p ∈ (firstK sizes k).tail ↔ ∃ j, j < k ∧ p = (j, szAt sizes j) := by
  cases k with
  | zero =>
    simp only [firstK, List.tail_cons, List.not_mem_nil, false_iff]
    rintro ⟨j, hj, _⟩; omega
  | succ k =>
    simp only [firstK, List.tail_cons, firstK_mem]
    constructor
    · rintro ⟨j, hj, h⟩; exact ⟨j, by omega, h⟩
    · rintro ⟨j, hj, h⟩; exact ⟨j, by omega, h⟩

theorem firstK_map_reverse (sizes : Array Nat) (k : Nat) :
    (firstK sizes k).reverse.map Prod.snd = (List.range (k + 1)).map (szAt sizes) := by
  induction k with
  | zero => rfl
  | succ k ih =>
    rw [firstK, List.reverse_cons, List.map_append, ih, List.range_succ (n := k + 1), List.map_append]
    rfl

/-- the loop only ever holds a prefix of the observed levels -/
theorem runLevels_prefix (maxLevels maxCoarse : Nat) (sizes : Array Nat) (h0 : 0 < sizes.size) :
    ∃ k, k < sizes.size ∧ runLevels maxLevels maxCoarse sizes = firstK sizes k := by
  unfold runLevels
  rw [getElem?_szAt sizes 0 h0]
  apply build_induct Prod.snd (stepOf sizes) maxLevels maxCoarse
    (fun l => ∃ k, k < sizes.size ∧ l = firstK sizes k)
  · intro last rest nxt hinv _ _ he
    obtain ⟨k, hk, hl⟩ := hinv
    rw [firstK_eq_cons] at hl
    have hlast : last = (k, szAt sizes k) := (List.cons.inj hl).1
    subst hlast
    rcases Nat.lt_or_ge (k+1) sizes.size with hlt | hge
    · refine ⟨k + 1, hlt, ?_⟩
      have he' : stepOf sizes (k, szAt sizes k) = some (k + 1, szAt sizes (k+1)) := by
        show (sizes[k+1]?).map (fun s => (k + 1, s)) = _
        rw [getElem?_szAt sizes (k+1) hlt]; rfl
      rw [he'] at he
      have hn : nxt = (k + 1, szAt sizes (k+1)) := (Option.some.inj he).symm
      rw [hn, hl, ← firstK_eq_cons]
      rfl
    · have he' : stepOf sizes (k, szAt sizes k) = none := by
        show (sizes[k+1]?).map (fun s => (k + 1, s)) = _
        rw [Array.getElem?_eq_none hge]; rfl
      rw [he'] at he; cases he
  · exact ⟨0, h0, rfl⟩

theorem stepOf_none (sizes : Array Nat) (k s : Nat) (h : stepOf sizes (k, s) = none) :
    sizes.size ≤ k + 1 := by
  rcases Nat.lt_or_ge (k+1) sizes.size with hlt | hge
  · have : stepOf sizes (k, s) = some (k + 1, szAt sizes (k+1)) := by
      show (sizes[k+1]?).map (fun s => (k + 1, s)) = _
      rw [getElem?_szAt sizes (k+1) hlt]; rfl
    rw [this] at h; cases h
  · exact hge

/-- **limits clause for the loop the driver runs**: the trace is the prefix of the observed sizes of
the length that `LimitsSpec` prescribes; the reported exit reason is the true one; the step was
called once per produced level plus once if it stalled. -/
theorem runTrace_spec (maxLevels maxCoarse : Nat) (sizes : Array Nat) (tr : List Nat) (stop : Stop)
    (calls : Nat) (h : runTrace maxLevels maxCoarse sizes = some (tr, stop, calls)) :
    LimitsSpec maxLevels maxCoarse (szAt sizes) sizes.size tr.length ∧
    tr = (List.range tr.length).map (szAt sizes) ∧
    (stop = .maxLevels → tr.length = maxLevels) ∧
    (stop = .smallEnough → tr.length < maxLevels ∧ szAt sizes (tr.length - 1) ≤ maxCoarse) ∧
    (stop = .stalled → tr.length < maxLevels ∧ szAt sizes (tr.length - 1) > maxCoarse ∧
      tr.length = sizes.size) ∧
    calls = tr.length - 1 + extraCall stop := by
  unfold runTrace at h
  by_cases hML : maxLevels = 0
  · rw [if_pos hML] at h; cases h
  · rw [if_neg hML] at h
    by_cases h0 : 0 < sizes.size
    · obtain ⟨k, hk, hrun⟩ := runLevels_prefix maxLevels maxCoarse sizes h0
      have hspec := build_spec Prod.snd (stepOf sizes) maxLevels maxCoarse maxLevels
        [(0, szAt sizes 0)] (by simp) (by simp; omega) (by simp) (by simp)
      have hrun' : build Prod.snd (stepOf sizes) maxLevels maxCoarse maxLevels [(0, szAt sizes 0)]
          = firstK sizes k := by
        have := hrun; unfold runLevels at this; rw [getElem?_szAt sizes 0 h0] at this; exact this
      simp only [hrun'] at hspec
      obtain ⟨_, hlen, _, htail, last, hhead, hreason⟩ := hspec
      rw [firstK_length] at hlen hreason
      rw [firstK_eq_cons] at hhead
      have hlast : last = (k, szAt sizes k) := by
        simp only [List.head?_cons, Option.some.injEq] at hhead; exact hhead.symm
      subst hlast
      have htl : (firstK sizes k).tail.length = k := by
        have := firstK_length sizes k
        rw [firstK_eq_cons] at this; simpa using this
      rw [hrun, firstK_eq_cons] at h
      have h' := Option.some.inj h
      have htr : ((k, szAt sizes k) :: (firstK sizes k).tail).reverse.map Prod.snd = tr :=
        (Prod.mk.inj h').1
      have hstop : stopOf maxLevels maxCoarse ((firstK sizes k).tail.length + 1) (szAt sizes k) = stop :=
        (Prod.mk.inj (Prod.mk.inj h').2).1
      have hcalls : (firstK sizes k).tail.length + extraCall
          (stopOf maxLevels maxCoarse ((firstK sizes k).tail.length + 1) (szAt sizes k)) = calls :=
        (Prod.mk.inj (Prod.mk.inj h').2).2
      rw [← firstK_eq_cons, firstK_map_reverse] at htr
      have hlen_tr : tr.length = k + 1 := by rw [← htr]; simp
      rw [htl] at hstop hcalls
      rw [hstop] at hcalls
      have hall : ∀ j, j + 1 < k + 1 → szAt sizes j > maxCoarse := by
        intro j hj
        exact htail (j, szAt sizes j) ((firstK_tail_mem sizes k _).2 ⟨j, by omega, rfl⟩)
      have hstall : stepOf sizes (k, szAt sizes k) = none → k + 1 = sizes.size := by
        intro hn
        have := stepOf_none sizes k _ hn
        omega
      have hk1 : k + 1 - 1 = k := by omega
      have hLS : LimitsSpec maxLevels maxCoarse (szAt sizes) sizes.size tr.length := by
        rw [hlen_tr]
        refine ⟨by omega, hlen, by omega, hall, ?_⟩
        rcases hreason with hr | hr | hr
        · left; exact hr
        · right; left; rw [hk1]; exact hr
        · right; right; exact hstall hr
      rw [hlen_tr, hk1]
      refine ⟨by rw [← hlen_tr]; exact hLS, htr.symm, ?_, ?_, ?_, hcalls.symm⟩
      · intro hs'
        rw [← hstop] at hs'
        unfold stopOf at hs'
        by_cases c1 : k + 1 ≥ maxLevels
        · omega
        · rw [if_neg c1] at hs'
          by_cases c2 : szAt sizes k ≤ maxCoarse
          · rw [if_pos c2] at hs'; cases hs'
          · rw [if_neg c2] at hs'; cases hs'
      · intro hs'
        rw [← hstop] at hs'
        unfold stopOf at hs'
        by_cases c1 : k + 1 ≥ maxLevels
        · rw [if_pos c1] at hs'; cases hs'
        · rw [if_neg c1] at hs'
          by_cases c2 : szAt sizes k ≤ maxCoarse
          · exact ⟨by omega, c2⟩
          · rw [if_neg c2] at hs'; cases hs'
      · intro hs'
        rw [← hstop] at hs'
        unfold stopOf at hs'
        by_cases c1 : k + 1 ≥ maxLevels
        · rw [if_pos c1] at hs'; cases hs'
        · rw [if_neg c1] at hs'
          by_cases c2 : szAt sizes k ≤ maxCoarse
          · rw [if_pos c2] at hs'; cases hs'
          · refine ⟨by omega, by omega, ?_⟩
            rcases hreason with hr | hr | hr
            · omega
            · exact absurd hr c2
            · exact hstall hr
    · have : sizes[0]? = none := by
        apply Array.getElem?_eq_none; omega
      unfold runLevels at h
      rw [this] at h
      cases h

/-- consequently the number of levels the driver reports is the only one the limits clause allows -/
theorem runTrace_unique (maxLevels maxCoarse : Nat) (sizes : Array Nat) (tr : List Nat) (stop : Stop)
    (calls m : Nat) (h : runTrace maxLevels maxCoarse sizes = some (tr, stop, calls))
    (hm : LimitsSpec maxLevels maxCoarse (szAt sizes) sizes.size m) : m = tr.length :=
  limits_unique _ _ _ _ _ _ hm (runTrace_spec _ _ _ _ _ _ h).1


/-! ### the five constructors' loops: effective limits, the size each loop looks at, then `runTrace` -/

inductive Ctor | rs | air | sa | rn | pw
deriving Repr, DecidableEq

/-- the aggregation-type loops compare `rows / blocksize` with `max_coarse`, the classical ones `rows` -/
def Ctor.blockwise : Ctor → Bool
  | .rs | .air => false
  | _ => true

/-- `kinds`: shapes of the levelized options in the order the constructor levelizes them
(`[aggregate, strength, aggregate]` for `sa` / `rn`, `[aggregate]` for `pw`; ignored by `rs` / `air`) -/
def ctorLimits : Ctor → List OptKind → Nat → Nat → Nat × Nat
  | .rs, _, ml, mc => (ml, mc)
  | .air, _, ml, mc => (ml, mc)
  | _, kinds, ml, mc =>
    kinds.foldl (fun acc k => let r := levelize k acc.1 acc.2; (r.1, r.2.1)) (ml, mc)

def ctorTrace (c : Ctor) (kinds : List OptKind) (ml mc : Nat) (rows bs : Array Nat) :
    Option (List Nat × Stop × Nat) :=
  let lim := ctorLimits c kinds ml mc
  runTrace lim.1 lim.2 (Array.ofFn (n := rows.size) fun i => nodeSize c.blockwise rows[i] (bs.getD i 1))

theorem ctorLimits_sa (a s : OptKind) (ml mc : Nat) :
    ctorLimits .sa [a, s, a] ml mc = effLimits a s ml mc ∧
    ctorLimits .rn [a, s, a] ml mc = effLimits a s ml mc := by
  constructor <;> rfl

#print axioms build_induct
#print axioms build_getLast
#print axioms build_linked
#print axioms limits_unique
#print axioms runTrace_spec
#print axioms runTrace_unique
end PyamgV.C04
