import PyamgV.Generated.PyLogic2
import PyamgV.Model.ExtPy2Worlds
import PyamgV.Proofs.ExtPy2Tactic
/-! PyamgV (extension E42, property C08): the definition GENERATED from the working tree by `harness/py2lean2.py`
for `solver_configuration` (pyamg/blackbox.py), with the numerical symmetry test abstracted as the input Boolean
`herm` (the scripted answer of `ishermitian(A, fast_check=True)`): the decision part -- Hermitian configuration
(`symmetry`, Krylov method of the energy smoother = `C08.bbAccel`, block Gauss-Seidel smoothers, `BH = None`) or
non-symmetric configuration (GMRES, Gauss-Seidel NR, `BH = B.copy()`), and the near-null-space candidates (BSR block
size > 1: `kron(ones((n / bsize, 1)), eye(bsize))`, otherwise `ones((n, 1))`; a user array is checked and copied). -/
open PyamgV.ExtPy PyamgV.ExtPy2 PyamgV.Generated.PyLogic2 PyamgV.ExtPy2W
namespace PyamgV.ExtPy2Config

/-- the near-null-space argument `B` of a scenario -/
inductive BArg where
  | none
  /-- an `ndarray` with this shape -/
  | array (shape : List Int)
  /-- something that is not an `ndarray` -/
  | other
deriving Repr, DecidableEq

structure Sc where
  herm : Bool
  verb : Bool
  sparse : Bool
  fmt : String
  bs : Int
  n : Int
  B : BArg
deriving Repr

def bshape : BArg → List Int
  | .array s => s
  | _ => []

def run (sc : Sc) : Except String PyVal × List PyVal :=
  let o := PyM2.exec (blackbox_solver_configuration (configWorld sc.fmt sc.bs sc.n (bshape sc.B)) (.obj "A")
      (match sc.B with | .none => .none | .array _ => .obj "B" | .other => .int 5) (.bool sc.verb))
      { trace := [], script := configScript sc.herm sc.sparse }
  (match o.1 with | .ok v => .ok v | .error e => .error e.cls, o.2.trace)

/-! ### the specification -/

def callEv (f : String) (args : List PyVal) (kw : List (String × PyVal)) : PyVal :=
  .tuple [.str "call", .obj f, .list args, .dict kw]

def symOf (herm : Bool) : String := if herm then "hermitian" else "nonsymmetric"

def smoother (herm : Bool) : PyVal :=
  if herm then .tuple [.str "block_gauss_seidel", .dict [("sweep", .str "symmetric"), ("iterations", .int 1)]]
  else .tuple [.str "gauss_seidel_nr", .dict [("sweep", .str "symmetric"), ("iterations", .int 2)]]

/-- the returned dictionary: `symmetry` is what `C08.bbPlan` hands to the constructor, the Krylov method of the
prolongation smoother is `C08.bbAccel symmetry` -/
def config (herm : Bool) (Bv : PyVal) : PyVal :=
  .dict [("symmetry", .str (symOf herm)),
         ("smooth", .tuple [.str "energy", .dict [("krylov", .str (C08.bbAccel (symOf herm))), ("maxiter", .int 3),
                                                ("degree", .int 2), ("weighting", .str "local")]]),
         ("presmoother", smoother herm), ("postsmoother", smoother herm),
         ("B", Bv), ("BH", if herm then .none else .obj "copy"),
         ("strength", .tuple [.str "evolution", .dict [("k", .int 2), ("proj_type", .str "l2"), ("epsilon", .float 3)]]),
         ("max_levels", .int 15), ("max_coarse", .int 500), ("coarse_solver", .str "pinv"),
         ("aggregate", .str "standard"), ("keep", .bool false)]

def dtKw : List (String × PyVal) := [("dtype", .obj "dt")]

/-- block candidates: only for a sparse BSR matrix with block size > 1 -/
def blockB (sc : Sc) : Bool := sc.sparse && sc.fmt == "bsr" && decide (sc.bs > 1)

def expected (sc : Sc) : Except String PyVal × List PyVal :=
  let pre := [callEv "make_csr" [.obj "A"] [], callEv "ishermitian" [.obj "Acsr"] [("fast_check", .bool true)]] ++
    (if sc.verb then [callEv "print" [.str (if sc.herm then "  Detected a Hermitian matrix" else "  Detected a non-Hermitian matrix")] []] else [])
  let fin (Bv : PyVal) (evs : List PyVal) : Except String PyVal × List PyVal :=
    (.ok (config sc.herm Bv), pre ++ evs ++ (if sc.herm then [] else [callEv (match Bv with | .obj p => p ++ ".copy" | _ => "?") [] []]))
  match sc.B with
  | .none =>
    if blockB sc then
      fin (.obj "kron") [callEv "issparse" [.obj "Acsr"] [],
        callEv "np.ones" [.tuple [.int (ratTrunc ((sc.n : Rat) / (sc.bs : Rat))), .int 1]] dtKw,
        callEv "np.eye" [.int sc.bs] [], callEv "np.kron" [.obj "ones", .obj "eye"] []]
    else
      fin (.obj "ones") [callEv "issparse" [.obj "Acsr"] [], callEv "np.ones" [.tuple [.int sc.n, .int 1]] dtKw]
  | .array [r] =>
    if r = sc.n then fin (.obj "Barr") [callEv "B.reshape" [.int (-1), .int 1] [], callEv "np.array" [.obj "B2"] dtKw]
    else (.error "TypeError", pre ++ [callEv "B.reshape" [.int (-1), .int 1] []])
  | .array [r, m] =>
    if r = sc.n ∧ m ≠ 0 then fin (.obj "Barr") [callEv "np.array" [.obj "B"] dtKw] else (.error "TypeError", pre)
  | .array _ => (.error "IndexError", pre)
  | .other => (.error "TypeError", pre)

/-! ### the grid -/

def bools : List Bool := [false, true]

def grid : List Sc :=
  bools.flatMap fun herm => bools.flatMap fun verb => bools.flatMap fun sparse =>
  ["csr", "bsr", "csc"].flatMap fun fmt => [(1 : Int), 2, 3].flatMap fun bs =>
  [BArg.none, .array [6], .array [5], .array [6, 1], .array [6, 2], .array [6, 0], .array [7, 1], .array [], .other].map fun B =>
    { herm := herm, verb := verb, sparse := sparse, fmt := fmt, bs := bs, n := 6, B := B }

set_option maxRecDepth 100000 in
theorem grid_eq : grid.map run = grid.map expected := by kernel_rfl

/-- the generated `solver_configuration` returns the configuration and performs the calls of the specification, for
every combination of (Hermitian?, verbose, sparse, storage format, block size, kind of `B`) of the grid -/
theorem config_refines_spec : ∀ sc ∈ grid, run sc = expected sc := List.map_inj_left.mp grid_eq

/-- the same with an arbitrary number of rows when `B` is not given (block size 2 and 3: `int(n / bsize)` rows of
the block candidates) -/
theorem config_any_size (n : Int) (herm verb : Bool) (bs : Int) (hbs : bs = 2 ∨ bs = 3) :
    run { herm := herm, verb := verb, sparse := true, fmt := "bsr", bs := bs, n := n, B := .none }
      = expected { herm := herm, verb := verb, sparse := true, fmt := "bsr", bs := bs, n := n, B := .none } := by
  rcases hbs with rfl | rfl <;> cases herm <;> cases verb <;> kernel_rfl

end PyamgV.ExtPy2Config
