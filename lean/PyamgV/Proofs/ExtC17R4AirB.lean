import PyamgV.Model.ExtC17R4AirB
import PyamgV.Proofs.ExtC17R4Air

/-! PyamgV (C17, extension E32, round 4): bounds-safety of the `Ck` model of `block_approx_ideal_restriction_pass2`
(`Model/ExtC17R4AirB.lean`): `Ax` holds `blocksize²` values per stored block of `A`, `Rx` `blocksize²` values per entry of `Rj`,
`Rp` as the first pass computes it (`RpOK`). -/
namespace PyamgV.C17R4
open PyamgV.Ck PyamgV.C17

set_option linter.unusedSectionVars false
set_option linter.unusedVariables false

variable {α : Type} [Inhabited α]

/-- the value `p·B² + (r·B + c)` of a BSR data index lies inside block `p` -/
theorem blk_idx {p r c B lim : Int} (p0 : 0 ≤ p) (p1 : p < lim) (r0 : 0 ≤ r) (r1 : r < B) (c0 : 0 ≤ c) (c1 : c < B) :
    0 ≤ p * (B * B) + (r * B + c) ∧ p * (B * B) + (r * B + c) < lim * (B * B) := by
  have h1 := idx_lt (i := r) (j := c) (A := B) (B := B) r0 r1 c0 c1
  have h2 : 0 ≤ B * B := Int.mul_nonneg (by omega) (by omega)
  have h3 : 0 ≤ p * (B * B) := Int.mul_nonneg p0 h2
  have h4 : (p + 1) * (B * B) ≤ lim * (B * B) := Int.mul_le_mul_of_nonneg_right (by omega) h2
  have h5 : (p + 1) * (B * B) = p * (B * B) + B * B := by ring
  omega

/-- **one row of `block_approx_ideal_restriction_pass2`**, both local solvers, any block size -/
theorem airBRow_safe (o : AirOps α) (c15 : α) (rp : Array Int) (n : Nat) (ap aj : Array Int) (ax : Array α)
    (hA : WFm (patS n ap aj) n) (bs : Nat) (hax : ap.getD n 0 * ((bs : Int) * (bs : Int)) ≤ (ax.size : Int))
    (cp cj cpts splitting : Array Int) (hC : WFm (patS n cp cj) n) (hsp : splitting.size = n) (hcpts : IdxIn cpts n)
    (distance : Int) (hrp : RpOK rp cp cj cpts splitting distance) (useGmres : Bool) (maxiter : Int) (hmi : 0 ≤ maxiter)
    (precond : Bool) {jsz xsz : Nat} (hj : rp.getD cpts.size 0 ≤ (jsz : Int))
    (hx : rp.getD cpts.size 0 * ((bs : Int) * (bs : Int)) ≤ (xsz : Int)) (row : Int) (row0 : 0 ≤ row) (row1 : row < (cpts.size : Int))
    (st : Array Int × Array α) (h1 : st.1.size = jsz) (h2 : st.2.size = xsz) :
    Safe (airBRow o c15 rp ⟨n, ap, aj, ax⟩ cp cj cpts splitting (bs : Int) distance useGmres maxiter precond row st)
      (fun r => r.1.size = jsz ∧ r.2.size = xsz) := by
  have hB2 : 0 ≤ (bs : Int) * (bs : Int) := Int.mul_nonneg (by omega) (by omega)
  unfold airBRow
  simp only
  refine Safe.bind (rd_safe cpts row row0 (by omega)) (fun cpoint hcpt => ?_)
  have hcpt' : cpoint = cpts.getD row.toNat 0 := hcpt
  have hcn := hcpts row.toNat (by omega)
  rw [← hcpt'] at hcn
  refine Safe.bind (rd_safe rp row row0 (by rw [hrp.size]; omega)) (fun r0 hr0 => ?_)
  have hr0' : r0 = rp.getD row.toNat 0 := hr0
  have hstep := hrp.step row.toNat (by omega)
  have hlast := hrp.le_last (row.toNat + 1) (by omega)
  have hfirst := hrp.le_last row.toNat (by omega)
  refine Safe.bind (Safe.and_val (airP1Row_nodes n cp cj hC splitting hsp distance cpoint hcn.1 hcn.2)) (fun colinds hcol => ?_)
  obtain ⟨hnodes, hval⟩ := hcol
  have hlen : (colinds.length : Int) = nbLen cp cj cpts splitting distance row.toNat := by
    unfold nbLen; rw [hval, hcpt']
  have hsl : ((colinds.mergeSort (fun a b => decide (a ≤ b))).length : Int) = (colinds.length : Int) := by
    rw [List.length_mergeSort]
  have hsn : ∀ c ∈ colinds.mergeSort (fun a b => decide (a ≤ b)), 0 ≤ c ∧ c < (n : Int) :=
    fun c hc => hnodes c (List.mem_mergeSort.mp hc)
  have hroom : r0 + ((0 : Nat) : Int) + ((colinds.mergeSort (fun a b => decide (a ≤ b))).length : Int) ≤ (jsz : Int) := by
    rw [hsl, hlen]; simp only [Nat.cast_zero]; omega
  refine Safe.bind (writeSet_safe n r0 (by rw [hr0']; exact hfirst.1) _ hsn 0 (pure (st.1, r0)) jsz hroom
    (Safe.pure ⟨h1, by simp, fun t ht => by omega⟩)) (fun ri hri => ?_)
  obtain ⟨i1, i2, i3⟩ := hri
  simp only [Nat.cast_zero, Int.add_zero, Nat.zero_add] at i2 i3
  rw [hsl] at i2
  rw [List.length_mergeSort] at i3
  have hind : ri.2 = r0 + (colinds.length : Int) := i2
  have hent : ∀ j : Int, r0 ≤ j → j < ri.2 → 0 ≤ ri.1.getD j.toNat 0 ∧ ri.1.getD j.toNat 0 < (n : Int) := by
    intro j j1 j2
    have := i3 (j - r0).toNat (by omega)
    have e : r0 + (((j - r0).toNat : Nat) : Int) = j := by omega
    rw [e] at this; exact this
  have hr00 : 0 ≤ r0 := by rw [hr0']; exact hfirst.1
  have hindj : ri.2 < (jsz : Int) := by rw [hind, hlen]; omega
  have hindL : ri.2 < rp.getD cpts.size 0 := by rw [hind, hlen]; omega
  refine Safe.bind (rd_safe rp (row + 1) (by omega) (by rw [hrp.size]; omega)) (fun _ _ => ?_)
  generalize hN : ri.2 - r0 = N
  have hN0 : 0 ≤ N := by rw [← hN, hind]; omega
  generalize hD : N * (bs : Int) = D
  have hD0 : 0 ≤ D := by rw [← hD]; exact Int.mul_nonneg hN0 (by omega)
  have hDD : 0 ≤ D * D := Int.mul_nonneg hD0 hD0
  have hDb : 0 ≤ D * (bs : Int) := Int.mul_nonneg hD0 (by omega)
  have eA0 : ((Array.replicate (D * D).toNat o.sv.zero : Array α).size : Int) = D * D := by simp <;> omega
  have eb0 : ((Array.replicate (D * (bs : Int)).toNat o.sv.zero : Array α).size : Int) = D * (bs : Int) := by simp <;> omega
  have erhs : ((Array.replicate D.toNat o.sv.zero : Array α).size : Int) = D := by simp <;> omega
  -- a dof `(blk, t)` of the local system
  have hdof : ∀ (blk t : Int), 0 ≤ blk → blk < N → 0 ≤ t → t < (bs : Int) → 0 ≤ blk * (bs : Int) + t ∧ blk * (bs : Int) + t < D := by
    intro blk t b0 b1 t0 t1
    have := idx_lt (i := blk) (j := t) (A := N) (B := (bs : Int)) b0 b1 t0 t1
    rw [hD] at this; exact this
  -- a value of the BSR data of `A` for the stored position `k`
  have hAx : ∀ (i : Int), 0 ≤ i → i < (n : Int) → ∀ k, ap.getD i.toNat 0 ≤ k → k < ap.getD (i.toNat + 1) 0 → ∀ (r c : Int), 0 ≤ r →
      r < (bs : Int) → 0 ≤ c → c < (bs : Int) → 0 ≤ k * (bs : Int) * (bs : Int) + r * (bs : Int) + c ∧
      k * (bs : Int) * (bs : Int) + r * (bs : Int) + c < (ax.size : Int) := by
    intro i i0 i1' k k1 k2 r c r0' r1 c0 c1
    have a1 : 0 ≤ ap.getD i.toNat 0 := ap_nonneg_m (patS n ap aj) hA i.toNat (by show i.toNat ≤ n; omega)
    have a2 : ap.getD (i.toNat + 1) 0 ≤ ap.getD n 0 := ap_le_last_m (patS n ap aj) hA (i.toNat + 1) (by show i.toNat + 1 ≤ n; omega)
    have g := blk_idx (p := k) (r := r) (c := c) (B := (bs : Int)) (lim := ap.getD n 0) (by omega) (by omega) r0' r1 c0 c1
    have e : k * (bs : Int) * (bs : Int) + r * (bs : Int) + c = k * ((bs : Int) * (bs : Int)) + (r * (bs : Int) + c) := by ring
    rw [e]; omega
  -- `A0`
  refine Safe.bind (P := fun a0 : Array α => (a0.size : Int) = D * D) ?_ (fun a0 ha0 => ?_)
  · apply forRange_safe (fun a0 : Array α => (a0.size : Int) = D * D) _ _ _ _ eA0
    intro j j1 j2 A0 hA0
    refine Safe.bind (rd_safe ri.1 j (by omega) (by rw [i1]; omega)) (fun thisInd hti => ?_)
    have hti' : thisInd = ri.1.getD j.toNat 0 := hti
    have htn := hent j j1 j2
    rw [← hti'] at htn
    obtain ⟨q1, q2, hrowA⟩ := row_facts hA thisInd htn.1 htn.2
    apply forRange_safe (fun a0 : Array α => (a0.size : Int) = D * D) _ _ _ _ hA0
    intro i i1' i2' A1 hA1
    refine Safe.bind q1 (fun ks hks => ?_)
    refine Safe.bind q2 (fun ke hke => ?_)
    subst hks; subst hke
    refine Safe.bind (P := fun f : Array α × Bool => (f.1.size : Int) = D * D) ?_ (fun f hf => Safe.pure hf)
    apply forRange_safe (fun f : Array α × Bool => (f.1.size : Int) = D * D) _ _ _ _ hA1
    intro k k1 k2 q hq
    by_cases hb : q.2 = true
    · rw [if_pos hb]; exact Safe.pure hq
    rw [if_neg hb]
    refine Safe.bind (rd_safe ri.1 i (by omega) (by rw [i1]; omega)) (fun rii _ => ?_)
    refine Safe.bind (hrowA k k1 k2) (fun ajk _ => ?_)
    split
    · refine Safe.bind (P := fun A2 : Array α => (A2.size : Int) = D * D) ?_ (fun A2 hA2 => Safe.pure hA2)
      apply forRange_safe (fun A2 : Array α => (A2.size : Int) = D * D) _ _ _ _ hq
      intro br br0 br1 A2 hA2
      apply forRange_safe (fun A3 : Array α => (A3.size : Int) = D * D) _ _ _ _ hA2
      intro bc bc0 bc1 A3 hA3
      have gR := hdof (j - r0) br (by omega) (by omega) br0 br1
      have gC := hdof (i - r0) bc (by omega) (by omega) bc0 bc1
      have gI := idx_lt (i := (j - r0) * (bs : Int) + br) (j := (i - r0) * (bs : Int) + bc) (A := D) (B := D) gR.1 gR.2 gC.1 gC.2
      have gX := hAx thisInd htn.1 htn.2 k k1 k2 br bc br0 br1 bc0 bc1
      refine Safe.bind (rd_ok ax _ gX.1 gX.2) (fun a _ => ?_)
      exact Safe.mono (wr_ok A3 _ a (by omega) (by rw [hA3]; omega)) (fun a' h' => by rw [h']; exact hA3)
    · exact Safe.pure hq
  -- `b0`
  obtain ⟨c1, c2, hrowC⟩ := row_facts hA cpoint hcn.1 hcn.2
  refine Safe.bind (P := fun b0 : Array α => (b0.size : Int) = D * (bs : Int)) ?_ (fun b0 hb0 => ?_)
  · apply forRange_safe (fun b0 : Array α => (b0.size : Int) = D * (bs : Int)) _ _ _ _ eb0
    intro bi bi0 bi1 b0 hb0
    refine Safe.bind c1 (fun ks hks => ?_)
    refine Safe.bind c2 (fun ke hke => ?_)
    subst hks; subst hke
    refine Safe.bind (P := fun f : Array α × Bool => (f.1.size : Int) = D * (bs : Int)) ?_ (fun f hf => Safe.pure hf)
    apply forRange_safe (fun f : Array α × Bool => (f.1.size : Int) = D * (bs : Int)) _ _ _ _ hb0
    intro k k1 k2 q hq
    by_cases hb : q.2 = true
    · rw [if_pos hb]; exact Safe.pure hq
    rw [if_neg hb]
    refine Safe.bind (rd_safe ri.1 (r0 + bi) (by omega) (by rw [i1]; omega)) (fun rii _ => ?_)
    refine Safe.bind (hrowC k k1 k2) (fun ajk _ => ?_)
    split
    · refine Safe.bind (P := fun b1 : Array α => (b1.size : Int) = D * (bs : Int)) ?_ (fun b1 hb1 => Safe.pure hb1)
      apply forRange_safe (fun b1 : Array α => (b1.size : Int) = D * (bs : Int)) _ _ _ _ hq
      intro tr tr0 tr1 b1 hb1
      apply forRange_safe (fun b2 : Array α => (b2.size : Int) = D * (bs : Int)) _ _ _ _ hb1
      intro tc tc0 tc1 b2 hb2
      have gC := hdof bi tc bi0 (by omega) tc0 tc1
      have gI := idx_lt (i := tr) (j := bi * (bs : Int) + tc) (A := (bs : Int)) (B := D) tr0 tr1 gC.1 gC.2
      have e1 : D * tr = tr * D := Int.mul_comm _ _
      have e2 : (bs : Int) * D = D * (bs : Int) := Int.mul_comm _ _
      have gX := hAx cpoint hcn.1 hcn.2 k k1 k2 tr tc tr0 tr1 tc0 tc1
      refine Safe.bind (rd_ok ax _ gX.1 gX.2) (fun a _ => ?_)
      exact Safe.mono (wr_ok b2 _ _ (by omega) (by rw [hb2]; omega)) (fun a' h' => by rw [h']; exact hb2)
    · exact Safe.pure hq
  -- the local solves
  have hDn : ((D.toNat : Nat) : Int) = D := by omega
  have hseg : ∀ tr : Int, 0 ≤ tr → tr < (bs : Int) → 0 ≤ D * tr ∧ D * tr + D ≤ D * (bs : Int) := by
    intro tr tr0 tr1
    have a1 : 0 ≤ D * tr := Int.mul_nonneg hD0 tr0
    have a2 : D * (tr + 1) ≤ D * (bs : Int) := Int.mul_le_mul_of_nonneg_left (by omega) hD0
    have a3 : D * (tr + 1) = D * tr + D := by ring
    omega
  refine Safe.bind (P := fun b1 : Array α => (b1.size : Int) = D * (bs : Int)) ?_ (fun b1 hb1 => ?_)
  · by_cases hg : N > 0 ∧ useGmres = true
    · rw [if_pos hg]
      apply forRange_safe (fun b1 : Array α => (b1.size : Int) = D * (bs : Int)) _ _ _ _ hb0
      intro tr tr0 tr1 b1 hb1
      have hs := hseg tr tr0 tr1
      refine Safe.bind (P := fun rhs : Array α => (rhs.size : Int) = D) ?_ (fun rhs hrhs => ?_)
      · apply forRange_safe (fun rhs : Array α => (rhs.size : Int) = D) _ _ _ _ erhs
        intro i i0' i1' rhs hr
        refine Safe.bind (rd_ok b1 _ (by omega) (by rw [hb1]; omega)) (fun b _ => ?_)
        exact Safe.mono (wr_ok rhs i b i0' (by rw [hr]; exact i1')) (fun a' h' => by rw [h']; exact hr)
      have hgm := denseGmres_safe o a0 rhs b1 (D * tr) D.toNat true maxiter precond (by rw [hDn, ha0]) (by rw [hDn, hrhs]) hs.1
        (by rw [hDn, hb1]; exact hs.2) hmi
      rw [hDn] at hgm
      exact Safe.bind hgm (fun r hr => Safe.pure (by rw [hr.2.2]; exact hb1))
    · rw [if_neg hg]
      by_cases hpos : N > 0
      · rw [if_pos hpos]
        have hq := qrM_safe o a0 0 D.toNat D.toNat true (by omega) (by rw [hDn, ha0]; omega)
        rw [hDn] at hq
        refine Safe.bind hq (fun q hq' => ?_)
        apply forRange_safe (fun b1 : Array α => (b1.size : Int) = D * (bs : Int)) _ _ _ _ hb0
        intro tr tr0 tr1 b1 hb1
        have hs := hseg tr tr0 tr1
        refine Safe.bind (P := fun rhs : Array α => (rhs.size : Int) = D) ?_ (fun rhs hrhs => ?_)
        · apply forRange_safe (fun rhs : Array α => (rhs.size : Int) = D) _ _ _ _ erhs
          intro i i0' i1' rhs hr
          refine Safe.bind (wr_ok rhs i _ i0' (by rw [hr]; exact i1')) (fun rhs1 hr1 => ?_)
          have hr1' : (rhs1.size : Int) = D := by rw [hr1]; exact hr
          apply forRange_safe (fun rhs : Array α => (rhs.size : Int) = D) _ _ _ _ hr1'
          intro k k0 k1 rhs2 hr2
          have gq := getInd_sq true (r := k) (c := i) (m := D) k0 k1 i0' i1'
          refine Safe.bind (rd_ok rhs2 i i0' (by rw [hr2]; exact i1')) (fun _ _ => ?_)
          refine Safe.bind (rd_ok b1 _ (by omega) (by rw [hb1]; omega)) (fun _ _ => ?_)
          refine Safe.bind (rd_ok q.2 _ gq.1 (by rw [hq'.2]; exact gq.2)) (fun _ _ => ?_)
          exact Safe.mono (wr_ok rhs2 i _ i0' (by rw [hr2]; exact i1')) (fun a' h' => by rw [h']; exact hr2)
        have hu := upperTriSolve_safe o q.1 0 rhs b1 (D * tr) D.toNat D.toNat true (by omega) (by rw [hDn, hq'.1, ha0]; omega)
          (by rw [hDn, hrhs]; split <;> omega) hs.1 (by rw [hDn, hb1]; exact hs.2)
        rw [hDn] at hu
        exact Safe.mono hu (fun x' h' => by rw [h']; exact hb1)
      · rw [if_neg hpos]; exact Safe.pure hb0
  -- copy into `Rx`
  have hRx : ∀ (p : Int), 0 ≤ p → p < rp.getD cpts.size 0 → ∀ (r c : Int), 0 ≤ r → r < (bs : Int) → 0 ≤ c → c < (bs : Int) →
      0 ≤ p * ((bs : Int) * (bs : Int)) + (r * (bs : Int) + c) ∧ p * ((bs : Int) * (bs : Int)) + (r * (bs : Int) + c) < (xsz : Int) := by
    intro p p0 p1 r c r0' r1 c0 c1'
    have g := blk_idx (p := p) (r := r) (c := c) (B := (bs : Int)) (lim := rp.getD cpts.size 0) p0 p1 r0' r1 c0 c1'
    omega
  refine Safe.bind (P := fun rx : Array α => rx.size = xsz) ?_ (fun rx hrx => ?_)
  · apply forRange_safe (fun rx : Array α => rx.size = xsz) _ _ _ _ h2
    intro bi bi0 bi1 rx hrx
    apply forRange_safe (fun rx : Array α => rx.size = xsz) _ _ _ _ hrx
    intro tr tr0 tr1 rx1 hrx1
    apply forRange_safe (fun rx : Array α => rx.size = xsz) _ _ _ _ hrx1
    intro tc tc0 tc1 rx2 hrx2
    have gC := hdof bi tc bi0 (by omega) tc0 tc1
    have gI := idx_lt (i := tr) (j := bi * (bs : Int) + tc) (A := (bs : Int)) (B := D) tr0 tr1 gC.1 gC.2
    have e1 : D * tr = tr * D := Int.mul_comm _ _
    have e2 : (bs : Int) * D = D * (bs : Int) := Int.mul_comm _ _
    have gX := hRx (r0 + bi) (by omega) (by omega) tr tc tr0 tr1 tc0 tc1
    have e3 : r0 * (bs : Int) * (bs : Int) + bi * (bs : Int) * (bs : Int) + tr * (bs : Int) + tc =
        (r0 + bi) * ((bs : Int) * (bs : Int)) + (tr * (bs : Int) + tc) := by ring
    refine Safe.bind (rd_ok b1 _ (by omega) (by rw [hb1]; omega)) (fun b _ => ?_)
    split
    · refine Safe.bind (rd_ok b1 _ (by omega) (by rw [hb1]; omega)) (fun b' _ => ?_)
      exact Safe.mono (wr_ok rx2 _ _ (by rw [e3]; exact gX.1) (by rw [e3, hrx2]; exact gX.2)) (fun a' h' => by rw [h', hrx2])
    · exact Safe.mono (wr_ok rx2 _ _ (by rw [e3]; exact gX.1) (by rw [e3, hrx2]; exact gX.2)) (fun a' h' => by rw [h', hrx2])
  refine Safe.bind (wr_safe ri.1 ri.2 cpoint (by omega) (by rw [i1]; omega)) (fun rj hrj => ?_)
  refine Safe.bind (P := fun rx2 : Array α => rx2.size = xsz) ?_ (fun rx2 hrx2 => Safe.pure ⟨by rw [hrj, i1], hrx2⟩)
  apply forRange_safe (fun rx2 : Array α => rx2.size = xsz) _ _ _ _ hrx
  intro tr tr0 tr1 rx2 hrx2
  have gX := hRx ri.2 (by omega) hindL tr tr tr0 tr1 tr0 tr1
  have e4 : ri.2 * (bs : Int) * (bs : Int) + ((bs : Int) + 1) * tr = ri.2 * ((bs : Int) * (bs : Int)) + (tr * (bs : Int) + tr) := by ring
  exact Safe.mono (wr_ok rx2 _ _ (by rw [e4]; exact gX.1) (by rw [e4, hrx2]; exact gX.2)) (fun a' h' => by rw [h', hrx2])

/-- **`block_approx_ideal_restriction_pass2`**: `A` a structurally valid `n × n` block pattern with `blocksize²` values per stored
block, `C` a structurally valid `n × n` pattern, `Rp` as the first pass computes it (`RpOK`), `Rj` with `Rp[|Cpts|]` entries and `Rx`
with `blocksize²` values per entry, `maxiter ≥ 0`, both local solvers -/
theorem airBPass2_safe (o : AirOps α) (c15 : α) (rp rj : Array Int) (rx : Array α) (n : Nat) (ap aj : Array Int) (ax : Array α)
    (hA : WFm (patS n ap aj) n) (bs : Nat) (hax : ap.getD n 0 * ((bs : Int) * (bs : Int)) ≤ (ax.size : Int))
    (cp cj cpts splitting : Array Int) (hC : WFm (patS n cp cj) n) (hsp : splitting.size = n) (hcpts : IdxIn cpts n)
    (distance : Int) (hrp : RpOK rp cp cj cpts splitting distance) (useGmres : Bool) (maxiter : Int) (hmi : 0 ≤ maxiter)
    (precond : Bool) (hj : rp.getD cpts.size 0 ≤ (rj.size : Int))
    (hx : rp.getD cpts.size 0 * ((bs : Int) * (bs : Int)) ≤ (rx.size : Int)) :
    Safe (airBPass2 o c15 rp rj rx ⟨n, ap, aj, ax⟩ cp cj cpts splitting (bs : Int) distance useGmres maxiter precond)
      (fun r => r.1.size = rj.size ∧ r.2.size = rx.size) := by
  unfold airBPass2
  apply forRange_safe (fun r : Array Int × Array α => r.1.size = rj.size ∧ r.2.size = rx.size) _ _ _ _ ⟨rfl, rfl⟩
  intro row row0 row1 st hst
  exact airBRow_safe o c15 rp n ap aj ax hA bs hax cp cj cpts splitting hC hsp hcpts distance hrp useGmres maxiter hmi precond hj hx
    row row0 row1 st hst.1 hst.2

end PyamgV.C17R4
