import PyamgV.Proofs.ExtC11RefineBase
import PyamgV.Proofs.Direct

/-! PyamgV (C11, extension E6): **the array model of `rs_direct_interpolation_pass1/pass2`
(`N.directInterp`, Model/KNum.lean) is the proof-side operator `C11.directP`.**

The model returns `none` where the C++ divides by zero; the proof-side row computes in the field
(`x / 0 = 0`).  `directRowOpt` is the proof-side row with exactly that guard; `directInterp_refines`
identifies row `i` of the model's CSR triple with it (coarse columns by `cidx`), and
`directRowOpt_forall₂` / `directRowOpt_defined` say that it is `Direct.directRow` wherever it is
defined, and defined wherever the two denominators are non-zero. -/
namespace PyamgV.C11X
open PyamgV.N PyamgV.C11 PyamgV.C11M

/-! ### the guarded proof-side row -/

/-- the diagonal the kernel divides by -/
def dDiag (isC : Nat → Bool) (i : Nat) (arow srow : Direct.Row Rat) : Rat :=
  if Direct.sumPos (Direct.strongC isC i srow) = 0
  then Direct.diagOf i arow + Direct.sumPos (Direct.offd i arow) else Direct.diagOf i arow

/-- the kernel divides by zero when it computes the weight of a strong entry of value `v` -/
def dBad (isC : Nat → Bool) (i : Nat) (arow srow : Direct.Row Rat) (v : Rat) : Prop :=
  if v < 0 then Direct.sumNeg (Direct.strongC isC i srow) = 0 ∨ dDiag isC i arow srow = 0
  else dDiag isC i arow srow = 0

instance (isC : Nat → Bool) (i : Nat) (arow srow : Direct.Row Rat) (v : Rat) :
    Decidable (dBad isC i arow srow v) := by unfold dBad; infer_instance

/-- weight of `Direct.directRow` for a strong entry of value `v` -/
def dWeight (isC : Nat → Bool) (i : Nat) (arow srow : Direct.Row Rat) (v : Rat) : Rat :=
  let st := Direct.strongC isC i srow
  let ssp := Direct.sumPos st
  let beta := if ssp = 0 then 0 else Direct.sumPos (Direct.offd i arow) / ssp
  if v < 0 then -(Direct.sumNeg (Direct.offd i arow) / Direct.sumNeg st) / dDiag isC i arow srow * v
  else -beta / dDiag isC i arow srow * v

theorem directRow_eq_dWeight (isC : Nat → Bool) (i : Nat) (arow srow : Direct.Row Rat) :
    Direct.directRow isC i arow srow =
      (Direct.strongC isC i srow).map (fun cv => (cv.1, dWeight isC i arow srow cv.2)) := rfl

/-- `Direct.directRow` with the kernel's division-by-zero guard -/
def directRowOpt (isC : Nat → Bool) (i : Nat) (arow srow : Direct.Row Rat) : List (Nat × Option Rat) :=
  (Direct.strongC isC i srow).map (fun cv =>
    (cv.1, if dBad isC i arow srow cv.2 then none else some (dWeight isC i arow srow cv.2)))

/-- the guarded row agrees with `Direct.directRow`: same columns, same weight wherever defined -/
theorem directRowOpt_forall₂ (isC : Nat → Bool) (i : Nat) (arow srow : Direct.Row Rat) :
    List.Forall₂ (fun (m : Nat × Option Rat) (p : Nat × Rat) => m.1 = p.1 ∧ ∀ x, m.2 = some x → x = p.2)
      (directRowOpt isC i arow srow) (Direct.directRow isC i arow srow) := by
  rw [directRow_eq_dWeight]
  unfold directRowOpt
  rw [List.forall₂_map_left_iff, List.forall₂_map_right_iff]
  apply List.forall₂_same.2
  intro cv _
  refine ⟨rfl, ?_⟩
  intro x hx
  by_cases hb : dBad isC i arow srow cv.2
  · rw [if_pos hb] at hx; exact absurd hx (by simp)
  · rw [if_neg hb] at hx; exact (Option.some.inj hx).symm

/-- with non-zero denominators nothing is guarded away -/
theorem directRowOpt_defined (isC : Nat → Bool) (i : Nat) (arow srow : Direct.Row Rat)
    (hd : dDiag isC i arow srow ≠ 0)
    (hs : Direct.sumNeg (Direct.strongC isC i srow) ≠ 0 ∨ ∀ cv ∈ Direct.strongC isC i srow, ¬ cv.2 < 0) :
    directRowOpt isC i arow srow =
      (Direct.directRow isC i arow srow).map (fun p => (p.1, some p.2)) := by
  rw [directRow_eq_dWeight]
  unfold directRowOpt
  rw [List.map_map]
  apply List.map_congr_left
  intro cv hcv
  have hb : ¬ dBad isC i arow srow cv.2 := by
    unfold dBad
    by_cases hv : cv.2 < 0
    · rw [if_pos hv]
      rcases hs with hs | hs
      · exact fun h => h.elim hs hd
      · exact absurd hv (hs cv hcv)
    · rw [if_neg hv]; exact hd
  simp [hb]

/-- the guarded whole operator: rows of `directP` with `none` where the kernel divides by zero -/
def directPOptRow (isC : Nat → Bool) (A S : Nat → Direct.Row Rat) (i : Nat) : List (Nat × Option Rat) :=
  if isC i then [(cidx isC i, some 1)]
  else (directRowOpt isC i (A i) (S i)).map (fun cv => (cidx isC cv.1, cv.2))

/-- rows of the guarded operator vs rows of `directP`: same coarse columns, same weights where defined -/
theorem directPOptRow_forall₂ (isC : Nat → Bool) (n : Nat) (A S : Nat → Direct.Row Rat) {i : Nat}
    (hi : i < n) :
    List.Forall₂ (fun (m : Nat × Option Rat) (p : Nat × Rat) => m.1 = p.1 ∧ ∀ x, m.2 = some x → x = p.2)
      (directPOptRow isC A S i) ((directP isC n A S).getD i []) := by
  rw [directP_row isC n A S hi]
  unfold directPOptRow
  by_cases hC : isC i = true
  · simp only [hC, if_true]
    exact List.Forall₂.cons ⟨rfl, fun x hx => (Option.some.inj hx).symm⟩ List.Forall₂.nil
  · simp only [hC, Bool.false_eq_true, if_false, renum]
    rw [List.forall₂_map_left_iff, List.forall₂_map_right_iff]
    refine (directRowOpt_forall₂ isC i (A i) (S i)).imp ?_
    intro m p h
    exact ⟨by rw [h.1], h.2⟩

/-! ### the model's loops -/

/-- the model's C-test -/
theorem dIsC_eq (split : Array Int) (j : Nat) : decide (rdI split j = 1) = isC split j := by
  unfold isC; rw [Bool.eq_iff_iff]; simp

/-- `cmap` of `directInterp` -/
def dCmap (n : Nat) (split : Array Int) : Array Nat :=
  ((List.range n).foldl (fun (acc : Array Nat × Nat) i =>
    (acc.1.push acc.2, acc.2 + (rdI split i).toNat)) (#[], 0)).1

theorem dCmap_state (split : Array Int) (n : Nat) (hv : Valid split n) :
    let r := (List.range n).foldl (fun (acc : Array Nat × Nat) i =>
      (acc.1.push acc.2, acc.2 + (rdI split i).toNat)) ((#[] : Array Nat), 0)
    r.1.size = n ∧ r.2 = cidx (isC split) n ∧ ∀ j < n, rdN r.1 j = cidx (isC split) j := by
  induction n with
  | zero => simp [cidx]
  | succ n ih =>
    have hv' : Valid split n := fun i hi => hv i (Nat.lt_succ_of_lt hi)
    obtain ⟨h1, h2, h3⟩ := ih hv'
    simp only [List.range_succ, List.foldl_append, List.foldl_cons, List.foldl_nil]
    generalize (List.range n).foldl (fun (acc : Array Nat × Nat) i =>
      (acc.1.push acc.2, acc.2 + (rdI split i).toNat)) ((#[] : Array Nat), 0) = r at h1 h2 h3 ⊢
    refine ⟨by simp [h1], ?_, ?_⟩
    · simp only [h2, cidx_succ]
      rcases hv n (Nat.lt_succ_self n) with h | h
      · have : isC split n = false := by simp [isC, h]
        simp [this, h]
      · have : isC split n = true := by simp [isC, h]
        simp [this, h]
    · intro j hj
      simp only [rdN]
      rw [Array.getD_eq_getD_getElem?, Array.getElem?_push]
      rcases Nat.lt_succ_iff_lt_or_eq.1 hj with hlt | heq
      · have h := h3 j hlt
        simp only [rdN] at h
        rw [Array.getD_eq_getD_getElem?] at h
        have hne : j ≠ r.1.size := by omega
        simp only [hne, if_false]
        exact h
      · have he : j = r.1.size := by omega
        simp only [he, if_true, Option.getD_some]
        rw [h2, h1]

theorem dCmap_spec (split : Array Int) (n : Nat) (hv : Valid split n) {j : Nat} (hj : j < n) :
    rdN (dCmap n split) j = cidx (isC split) j := (dCmap_state split n hv).2.2 j hj

/-- strong C-positions of row `i` -/
def dStrong (S : Csr) (split : Array Int) (i : Nat) : List Nat :=
  (S.jjs i).filter (fun jj => decide (decide (rdI split (rdN S.aj jj) = 1) = true ∧ rdN S.aj jj ≠ i))

/-- pass 1 of `directInterp` -/
def dAdd (S : Csr) (split : Array Int) (i : Nat) : Nat :=
  if decide (rdI split i = 1) = true then 1 else (dStrong S split i).length

def dPass1 (n : Nat) (S : Csr) (split : Array Int) : Array Nat :=
  (List.range n).foldl (fun (pp : Array Nat) i => pp.push (pp.getD (pp.size - 1) 0 + dAdd S split i)) #[0]

theorem dPass1_state (S : Csr) (split : Array Int) (m : Nat) :
    (dPass1 m S split).size = m + 1 ∧ ∀ j ≤ m, rdN (dPass1 m S split) j = off (dAdd S split) j := by
  induction m with
  | zero =>
    refine ⟨by simp [dPass1], ?_⟩
    intro j hj
    have : j = 0 := by omega
    subst this; simp [dPass1, off, rdN]
  | succ m ih =>
    obtain ⟨h1, h2⟩ := ih
    unfold dPass1 at h1 h2 ⊢
    simp only [List.range_succ, List.foldl_append, List.foldl_cons, List.foldl_nil]
    generalize (List.range m).foldl
      (fun (pp : Array Nat) i => pp.push (pp.getD (pp.size - 1) 0 + dAdd S split i)) #[0] = pp at h1 h2 ⊢
    refine ⟨by simp [h1], ?_⟩
    intro j hj
    simp only [rdN]
    rw [Array.getD_eq_getD_getElem?, Array.getElem?_push]
    rcases Nat.lt_succ_iff_lt_or_eq.1 (Nat.lt_succ_of_le hj) with hlt | heq
    · have h := h2 j (by omega)
      simp only [rdN] at h
      rw [Array.getD_eq_getD_getElem?] at h
      have hne : j ≠ pp.size := by omega
      simp only [hne, if_false]
      exact h
    · have he : j = pp.size := by omega
      simp only [he, if_true, Option.getD_some]
      have := h2 m (Nat.le_refl m)
      simp only [rdN] at this
      rw [h1, Nat.add_sub_cancel, this, off_succ]

/-- the A-row scan: `(Σ negative off-diagonals, Σ non-negative off-diagonals, Σ diagonal)` -/
def dScanA (A : Csr) (i : Nat) (t : Rat × Rat × Rat) (jj : Nat) : Rat × Rat × Rat :=
  let v := rdQ A.ax jj
  if rdN A.aj jj = i then (t.1, t.2.1, t.2.2 + v)
  else if v < 0 then (t.1 + v, t.2.1, t.2.2) else (t.1, t.2.1 + v, t.2.2)

theorem dScanA_spec (A : Csr) (i : Nat) (l : List Nat) (t : Rat × Rat × Rat) :
    l.foldl (dScanA A i) t =
      (t.1 + Direct.sumNeg (Direct.offd i (l.map (fun jj => (rdN A.aj jj, rdQ A.ax jj)))),
       t.2.1 + Direct.sumPos (Direct.offd i (l.map (fun jj => (rdN A.aj jj, rdQ A.ax jj)))),
       t.2.2 + Direct.diagOf i (l.map (fun jj => (rdN A.aj jj, rdQ A.ax jj)))) := by
  induction l generalizing t with
  | nil => simp [Direct.sumNeg, Direct.sumPos, Direct.offd, Direct.diagOf]
  | cons a rest ih =>
    simp only [List.foldl_cons]
    rw [ih]
    unfold dScanA
    simp only [Direct.sumNeg, Direct.sumPos, Direct.offd, Direct.diagOf, List.map_cons, List.filter_cons]
    by_cases hd : rdN A.aj a = i
    · simp only [hd, if_true, ne_eq, not_true_eq_false, decide_false, decide_true, Bool.false_eq_true,
        if_false, List.map_cons, List.sum_cons]
      ext <;> simp only <;> ring
    · simp only [hd, if_false, ne_eq, not_false_eq_true, decide_true, decide_false, if_true,
        Bool.false_eq_true, List.map_cons, List.sum_cons]
      by_cases hv : rdQ A.ax a < 0
      · simp only [hv, if_true]
        ext <;> simp only <;> ring
      · simp only [hv, if_false]
        ext <;> simp only <;> ring

theorem foldl_neg_sum (l : List Nat) (v : Nat → Rat) (a : Rat) :
    l.foldl (fun s jj => if v jj < 0 then s + v jj else s) a =
      a + (l.map (fun jj => if v jj < 0 then v jj else 0)).sum := by
  induction l generalizing a with
  | nil => simp
  | cons x rest ih =>
    simp only [List.foldl_cons, List.map_cons, List.sum_cons]
    rw [ih]
    by_cases h : v x < 0
    · simp only [h, if_true]; ring
    · simp only [h, if_false]; ring

theorem foldl_pos_sum (l : List Nat) (v : Nat → Rat) (a : Rat) :
    l.foldl (fun s jj => if v jj < 0 then s else s + v jj) a =
      a + (l.map (fun jj => if v jj < 0 then 0 else v jj)).sum := by
  induction l generalizing a with
  | nil => simp
  | cons x rest ih =>
    simp only [List.foldl_cons, List.map_cons, List.sum_cons]
    rw [ih]
    by_cases h : v x < 0
    · simp only [h, if_true]; ring
    · simp only [h, if_false]; ring

theorem foldl_push2 {α β γ : Type} (l : List γ) (f : γ → α) (g : γ → β) (a : Array α) (b : Array β) :
    l.foldl (fun (acc : Array α × Array β) x => (acc.1.push (f x), acc.2.push (g x))) (a, b) =
      (a ++ (l.map f).toArray, b ++ (l.map g).toArray) := by
  induction l generalizing a b with
  | nil => simp
  | cons x rest ih =>
    simp only [List.foldl_cons, List.map_cons]
    rw [ih]
    congr 1
    · apply Array.ext'; simp
    · apply Array.ext'; simp

/-- the entries the model appends for row `i` -/
def dModelRow (A S : Csr) (split : Array Int) (i : Nat) : List (Nat × Option Rat) :=
  if decide (rdI split i = 1) = true then [(rdN (dCmap A.n split) i, some 1)] else
    let strong := dStrong S split i
    let ssn := strong.foldl (fun s jj => if rdQ S.ax jj < 0 then s + rdQ S.ax jj else s) 0
    let ssp := strong.foldl (fun s jj => if rdQ S.ax jj < 0 then s else s + rdQ S.ax jj) 0
    let t := (A.jjs i).foldl (dScanA A i) (0, 0, 0)
    let diag := if ssp = 0 then t.2.2 + t.2.1 else t.2.2
    let negc : Option Rat := if ssn = 0 ∨ diag = 0 then none else some (-(t.1 / ssn) / diag)
    let posc : Option Rat := if ssp = 0 then (if diag = 0 then none else some 0)
                             else if diag = 0 then none else some (-(t.2.1 / ssp) / diag)
    strong.map (fun jj =>
      (rdN (dCmap A.n split) (rdN S.aj jj),
       (if rdQ S.ax jj < 0 then negc else posc).map (· * rdQ S.ax jj)))

def dStep (A S : Csr) (split : Array Int) (acc : Array Nat × Array (Option Rat)) (i : Nat) :
    Array Nat × Array (Option Rat) :=
  (acc.1 ++ ((dModelRow A S split i).map Prod.fst).toArray,
   acc.2 ++ ((dModelRow A S split i).map Prod.snd).toArray)

theorem directInterp_pp (A S : Csr) (split : Array Int) :
    (directInterp A S split).1 = dPass1 A.n S split := rfl

theorem directInterp_pjx (A S : Csr) (split : Array Int) :
    (directInterp A S split).2 = (List.range A.n).foldl (dStep A S split) (#[], #[]) := by
  have hcm : ((List.range A.n).foldl (fun (acc : Array Nat × Nat) i =>
      (acc.1.push acc.2, acc.2 + (rdI split i).toNat)) (#[], 0)).1 = dCmap A.n split := rfl
  have hsc : ∀ i, (fun (t : Rat × Rat × Rat) jj =>
      if rdN A.aj jj = i then (t.1, t.2.1, t.2.2 + rdQ A.ax jj)
      else if rdQ A.ax jj < 0 then (t.1 + rdQ A.ax jj, t.2.1, t.2.2)
      else (t.1, t.2.1 + rdQ A.ax jj, t.2.2)) = dScanA A i := fun i => rfl
  have hst : ∀ i, (S.jjs i).filter (fun jj => decide (decide (rdI split (rdN S.aj jj) = 1) = true ∧ rdN S.aj jj ≠ i)) =
      dStrong S split i := fun i => rfl
  unfold directInterp
  show (List.foldl _ _ _) = _
  apply List.foldl_ext
  intro acc i _
  obtain ⟨pj, px⟩ := acc
  simp only [dStep, dModelRow, hcm, hsc, hst]
  by_cases hC : decide (rdI split i = 1) = true
  · simp only [hC, if_true]
    simp
  · simp only [hC]
    simp only [Bool.false_eq_true, if_false]
    rw [foldl_push2]
    simp only [List.map_map, Function.comp_def]

/-- state of the pass-2 loop -/
theorem dPass2_state (A S : Csr) (split : Array Int) (m : Nat) :
    let r := (List.range m).foldl (dStep A S split) (#[], #[])
    PushInv (0 : Nat) (none : Option Rat) (dModelRow A S split) m r.1 r.2 := by
  induction m with
  | zero => exact pushInv_zero _ _ _
  | succ m ih =>
    simp only [List.range_succ, List.foldl_append, List.foldl_cons, List.foldl_nil]
    exact pushInv_step _ _ _ m _ _ ih

/-! ### the appended row is the guarded proof-side row -/

theorem dStrong_map (S : Csr) (split : Array Int) (i : Nat) :
    (dStrong S split i).map (fun jj => (rdN S.aj jj, rdQ S.ax jj)) =
      Direct.strongC (isC split) i (rowOf S i) := by
  unfold dStrong Direct.strongC rowOf
  rw [List.filter_map]
  congr 1
  apply List.filter_congr
  intro jj _
  simp only [Function.comp_def, dIsC_eq]
  by_cases h : rdN S.aj jj = i <;> simp [h]

theorem dModelRow_eq (A S : Csr) (split : Array Int) (hv : Valid split A.n)
    (hcols : ∀ i < A.n, ∀ jj ∈ S.jjs i, rdN S.aj jj < A.n) {i : Nat} (hi : i < A.n) :
    dModelRow A S split i = directPOptRow (isC split) (rowOf A) (rowOf S) i := by
  unfold dModelRow directPOptRow
  rw [dIsC_eq]
  by_cases hC : isC split i = true
  · simp only [hC, if_true]
    rw [dCmap_spec split A.n hv hi]
  · simp only [hC, Bool.false_eq_true, if_false]
    have hst := dStrong_map S split i
    have hssn : (dStrong S split i).foldl (fun s jj => if rdQ S.ax jj < 0 then s + rdQ S.ax jj else s) 0 =
        Direct.sumNeg (Direct.strongC (isC split) i (rowOf S i)) := by
      rw [foldl_neg_sum, ← hst]
      simp [Direct.sumNeg, List.map_map, Function.comp_def]
    have hssp : (dStrong S split i).foldl (fun s jj => if rdQ S.ax jj < 0 then s else s + rdQ S.ax jj) 0 =
        Direct.sumPos (Direct.strongC (isC split) i (rowOf S i)) := by
      rw [foldl_pos_sum, ← hst]
      simp [Direct.sumPos, List.map_map, Function.comp_def]
    have hA : (A.jjs i).foldl (dScanA A i) (0, 0, 0) =
        (Direct.sumNeg (Direct.offd i (rowOf A i)), Direct.sumPos (Direct.offd i (rowOf A i)),
         Direct.diagOf i (rowOf A i)) := by
      rw [dScanA_spec]
      simp [rowOf]
    rw [hssn, hssp, hA]
    unfold directRowOpt
    rw [← hst]
    simp only [List.map_map, Function.comp_def]
    apply List.map_congr_left
    intro jj hjj
    have hjlt : rdN S.aj jj < A.n := hcols i hi jj (List.mem_filter.1 hjj).1
    rw [dCmap_spec split A.n hv hjlt]
    congr 1
    rw [hst]
    unfold dBad dWeight dDiag
    simp only
    by_cases hv0 : rdQ S.ax jj < 0
    · simp only [hv0, if_true]
      rw [apply_ite (Option.map _)]
      rfl
    · simp only [hv0, if_false]
      by_cases hp : Direct.sumPos (Direct.strongC (isC split) i (rowOf S i)) = 0
      · simp only [hp, if_true]
        rw [apply_ite (Option.map _)]
        simp
      · simp only [hp, if_false]
        rw [apply_ite (Option.map _)]
        rfl

/-- **direct interpolation, array model = proof-side operator** (valid 0/1 splitting, strength
columns below `n`): `Pp` has `n+1` entries and is the prefix sum of the row lengths, and row `i` of
`(Pp, Pj, Px)` is row `i` of the guarded operator `directPOptRow`, which by
`directPOptRow_forall₂` has the columns of `directP` and its weights wherever the kernel does not
divide by zero. -/
theorem directInterp_refines (A S : Csr) (split : Array Int) (hv : Valid split A.n)
    (hcols : ∀ i < A.n, ∀ jj ∈ S.jjs i, rdN S.aj jj < A.n) :
    (directInterp A S split).1.size = A.n + 1 ∧
    (∀ j ≤ A.n, rdN (directInterp A S split).1 j =
      off (fun i => ((directP (isC split) A.n (rowOf A) (rowOf S)).getD i []).length) j) ∧
    ∀ i < A.n, rowAt (0 : Nat) (none : Option Rat) (directInterp A S split).1
        (directInterp A S split).2.1 (directInterp A S split).2.2 i =
      directPOptRow (isC split) (rowOf A) (rowOf S) i := by
  rw [directInterp_pp, directInterp_pjx]
  obtain ⟨h1, h2⟩ := dPass1_state S split A.n
  have h3 := dPass2_state A S split A.n
  have hlenrow : ∀ i < A.n, dAdd S split i = (dModelRow A S split i).length := by
    intro i _
    unfold dAdd dModelRow
    by_cases hC : decide (rdI split i = 1) = true
    · simp [hC]
    · simp only [hC, Bool.false_eq_true, if_false, List.length_map]
  have hoff : ∀ j ≤ A.n, off (dAdd S split) j = off (fun i => (dModelRow A S split i).length) j := by
    intro j hj
    unfold off
    congr 1
    apply List.map_congr_left
    intro i hi
    rw [List.mem_range] at hi
    exact hlenrow i (by omega)
  have hlen2 : ∀ j ≤ A.n, off (fun i => (dModelRow A S split i).length) j =
      off (fun i => ((directP (isC split) A.n (rowOf A) (rowOf S)).getD i []).length) j := by
    intro j hj
    unfold off
    congr 1
    apply List.map_congr_left
    intro i hi
    rw [List.mem_range] at hi
    have hi' : i < A.n := by omega
    rw [dModelRow_eq A S split hv hcols hi']
    exact (directPOptRow_forall₂ (isC split) A.n (rowOf A) (rowOf S) hi').length_eq
  refine ⟨h1, fun j hj => ((h2 j hj).trans (hoff j hj)).trans (hlen2 j hj), ?_⟩
  intro i hi
  have hpp : ∀ j ≤ A.n, rdN (dPass1 A.n S split) j = off (fun i => (dModelRow A S split i).length) j :=
    fun j hj => (h2 j hj).trans (hoff j hj)
  rw [rowAt_of_off _ _ _ _ _ _ A.n hpp hi, h3.2.2 i hi]
  exact dModelRow_eq A S split hv hcols hi

end PyamgV.C11X
