import PyamgV.Model.C04Model
/-! PyamgV (C04): specification of "the levels form a Galerkin hierarchy" and the proof that the
Boolean checker `checkHier` (which the driver applies to what the real constructors return) decides
it.  Core only. -/
namespace PyamgV.C04

theorem allLt_iff (n : Nat) (p : Nat → Bool) : allLt n p = true ↔ ∀ i, i < n → p i = true := by
  unfold allLt
  simp only [List.all_eq_true, List.mem_range]

/-- the fine level `f` and the next coarser matrix `cA` are related as the property demands:
shapes, strict decrease, Galerkin product up to `tol` (relative, entrywise), `R` vs `P` per `sym` -/
structure PairOK (sym : Sym) (tol : Rat) (f : Lvl) (cA : Mat) : Prop where
  wf : f.A.wf = true ∧ f.P.wf = true ∧ f.R.wf = true ∧ cA.wf = true
  squareF : f.A.rows = f.A.cols
  squareC : cA.rows = cA.cols
  pRows : f.P.rows = f.A.rows
  pCols : f.P.cols = cA.rows
  rRows : f.R.rows = cA.rows
  rCols : f.R.cols = f.A.rows
  decr : cA.rows < f.A.rows
  galerkin : ∀ i, i < cA.rows → ∀ j, j < cA.cols →
    n1 (cA.ent i j - (f.R.mul (f.A.mul f.P)).ent i j)
      ≤ tol * ((f.R.absM.mul (f.A.absM.mul f.P.absM)).ent i j).re
  transpose : match sym with
    | .none => True
    | .symm => ∀ i, i < f.R.rows → ∀ j, j < f.R.cols → f.R.ent i j = f.P.ent j i
    | .herm => ∀ i, i < f.R.rows → ∀ j, j < f.R.cols → f.R.ent i j = (f.P.ent j i).conj

/-- levels finest first; the coarsest level is a square, non-empty matrix (with the strict decrease this
makes every level non-empty) -/
def HierOK (sym : Sym) (tol : Rat) : List Lvl → Prop
  | [] => False
  | [l] => l.A.wf = true ∧ l.A.rows = l.A.cols ∧ 0 < l.A.rows
  | f :: c :: rest => PairOK sym tol f c.A ∧ HierOK sym tol (c :: rest)

theorem chkPair_iff (sym : Sym) (tol : Rat) (f : Lvl) (cA : Mat) :
    chkPair sym tol f cA = true ↔ PairOK sym tol f cA := by
  unfold chkPair chkWf chkDims chkDecr chkGalerkin chkTranspose
  simp only [Bool.and_eq_true, decide_eq_true_eq, allLt_iff]
  constructor
  · rintro ⟨⟨⟨⟨⟨⟨⟨w1, w2⟩, w3⟩, w4⟩, ⟨⟨⟨⟨⟨d1, d2⟩, d3⟩, d4⟩, d5⟩, d6⟩⟩, hd⟩, hg⟩, ht⟩
    refine ⟨⟨w1, w2, w3, w4⟩, d1, d2, d3, d4, d5, d6, hd, hg, ?_⟩
    cases sym with
    | none => trivial
    | symm => simpa [allLt_iff] using ht
    | herm => simpa [allLt_iff] using ht
  · rintro ⟨⟨w1, w2, w3, w4⟩, d1, d2, d3, d4, d5, d6, hd, hg, ht⟩
    refine ⟨⟨⟨⟨⟨⟨⟨w1, w2⟩, w3⟩, w4⟩, ⟨⟨⟨⟨⟨d1, d2⟩, d3⟩, d4⟩, d5⟩, d6⟩⟩, hd⟩, hg⟩, ?_⟩
    cases sym with
    | none => rfl
    | symm => simpa [allLt_iff] using ht
    | herm => simpa [allLt_iff] using ht

/-- **the checker decides the specification** -/
theorem checkHier_iff (sym : Sym) (tol : Rat) (ls : List Lvl) :
    checkHier sym tol ls = true ↔ HierOK sym tol ls := by
  induction ls with
  | nil => simp [checkHier, HierOK]
  | cons f rest ih =>
    cases rest with
    | nil => simp [checkHier, HierOK, and_assoc]
    | cons c rest =>
      simp only [checkHier, HierOK, Bool.and_eq_true, chkPair_iff, ih]

/-! `Mat.mul` is the dense matrix product -/

theorem ent_mul (A B : Mat) (i j : Nat) (hi : i < A.rows) (hj : j < B.cols) :
    (A.mul B).ent i j = sumN A.cols (fun k => A.ent i k * B.ent k j) := by
  have hpos : 0 < B.cols := by omega
  have hlt : i * B.cols + j < A.rows * B.cols := by
    calc i * B.cols + j < i * B.cols + B.cols := by omega
      _ = (i + 1) * B.cols := by rw [Nat.add_mul, Nat.one_mul]
      _ ≤ A.rows * B.cols := Nat.mul_le_mul_right _ hi
  have hdiv : (i * B.cols + j) / B.cols = i := by
    rw [Nat.add_comm, Nat.add_mul_div_right _ _ hpos, Nat.div_eq_of_lt hj, Nat.zero_add]
  have hmod : (i * B.cols + j) % B.cols = j := by
    rw [Nat.add_comm, Nat.add_mul_mod_self_right, Nat.mod_eq_of_lt hj]
  show (if j < B.cols then (Array.ofFn (n := A.rows * B.cols) _).getD (i * B.cols + j) 0 else 0) = _
  rw [if_pos hj]
  rw [Array.getD_eq_getD_getElem?, Array.getElem?_ofFn]
  simp only [hlt, dite_true, Option.getD_some, hdiv, hmod]

/-- the Galerkin clause of `PairOK` written out with sums -/
theorem PairOK.galerkin_sum {sym : Sym} {tol : Rat} {f : Lvl} {cA : Mat} (h : PairOK sym tol f cA)
    (i j : Nat) (hi : i < cA.rows) (hj : j < cA.cols) :
    n1 (cA.ent i j - sumN f.R.cols (fun k => f.R.ent i k * (f.A.mul f.P).ent k j))
      ≤ tol * ((f.R.absM.mul (f.A.absM.mul f.P.absM)).ent i j).re := by
  have hg := h.galerkin i hi j hj
  have hi' : i < f.R.rows := by rw [h.rRows]; exact hi
  have hj' : j < (f.A.mul f.P).cols := by
    show j < f.P.cols
    rw [h.pCols, h.squareC]; exact hj
  rw [ent_mul f.R (f.A.mul f.P) i j hi' hj'] at hg
  exact hg

/-- non-vacuity and a negative example: the 2-level hierarchy `A = [[2,-1],[-1,2]]`, `P = [1,1]ᵀ`,
`R = Pᵀ`, `A_c = [2]` passes; with `A_c = [3]` it fails -/
def exA : Mat := ⟨2, 2, #[⟨2,0⟩, ⟨-1,0⟩, ⟨-1,0⟩, ⟨2,0⟩]⟩
def exP : Mat := ⟨2, 1, #[⟨1,0⟩, ⟨1,0⟩]⟩
def exR : Mat := ⟨1, 2, #[⟨1,0⟩, ⟨1,0⟩]⟩
def exE : Mat := ⟨0, 0, #[]⟩

#print axioms checkHier_iff
#print axioms ent_mul
end PyamgV.C04
