import PyamgV.Proofs.ExtC02XBlock
import PyamgV.Proofs.ExtC02XRefine

/-! PyamgV (extension E35, property C02): **the cycle model on BSR levels with block smoothers**
(`C02X.cycleO` on `BLvl.toO` levels: the level matrix is kept dense, run through its CSR copy `C02.ofDense` for
`A @ x` and the pointwise kernels and through its BSR copy `C02X.bsrOfDense` for `block_gauss_seidel` /
`block_jacobi`).

* `csrOp_ofDense`, `bsrOp_ofDense` : both storage copies have the operator `denseOp` of the dense matrix.
* `liftSm`, `liftSm_nonexp`      : an array-level smoother that never increases the energy of the error is a
  non-expansive iteration on functions (the energy form of a symmetric operator does not see coordinates `≥ n`).
* `bsmF_nonexp`                  : every admissible smoother of a BSR level is `NonExp`.
* `bcycle_refines`               : the model cycle read as functions is the abstract recursion `cyc`.
* `bmodel_cycle_nonexp`          : **C02 for the executable model with BSR levels and block smoothers**. -/
set_option linter.unusedSectionVars false
set_option linter.unusedVariables false
namespace PyamgV.C02X
open PyamgV PyamgV.K PyamgV.ExtC09 Finset

variable {R : Type} [Field R] [LinearOrder R] [IsStrictOrderedRing R] [DecidableEq R]

/-! ### the operator of a dense matrix and of its CSR / BSR copies -/

/-- `u ↦ M u` for the leading `n × m` part of a dense matrix (zero beyond row `n`) -/
def denseOp (M : C02.Dense R) (n m : Nat) : (Nat → R) →ₗ[R] (Nat → R) where
  toFun u := fun p => if p < n then ∑ q ∈ range m, C02.rdD M p q * u q else 0
  map_add' u v := by
    funext p
    by_cases h : p < n
    · simp only [h, if_true, Pi.add_apply, mul_add, Finset.sum_add_distrib]
    · simp [h]
  map_smul' c u := by
    funext p
    by_cases h : p < n
    · simp only [h, if_true, Pi.smul_apply, smul_eq_mul, RingHom.id_apply, Finset.mul_sum]
      apply Finset.sum_congr rfl
      intro q _; ring
    · simp [h]

theorem rdN_map_range (n : Nat) (f : Nat → Nat) (i : Nat) (h : i < n) :
    rdN ((Array.range n).map f) i = f i := by
  unfold K.rdN; simp [h]

theorem rd_map_range (n : Nat) (f : Nat → R) (i : Nat) (h : i < n) :
    rd ((Array.range n).map f) i = f i := by
  unfold K.rd; simp [h]

theorem csrOp_ge' (n : Nat) (rows : Nat → Row R) (u : Nat → R) (i : Nat) (h : ¬ i < n) :
    csrOp n rows u i = 0 := by simp [csrOp, h]

/-- **the CSR copy `C02.ofDense M m` of a dense matrix with `n` rows has the operator `denseOp M n m`** -/
theorem csrOp_ofDense (M : C02.Dense R) (n m : Nat) (hM : M.size = n) :
    csrOp n (rowOf (C02.ofDense M m)) = denseOp M n m := by
  apply LinearMap.ext
  intro u
  funext p
  by_cases hp : p < n
  · rw [csrOp_apply _ _ _ _ hp]
    show _ = (if p < n then _ else 0)
    rw [if_pos hp]
    have hjjs : (C02.ofDense M m).jjs p = List.range' (p * m) m := by
      unfold K.Csr.jjs C02.ofDense
      simp only
      rw [rdN_map_range _ _ _ (by omega), rdN_map_range _ _ _ (by omega)]
      congr 1
      rw [Nat.add_mul]; omega
    unfold rowDot rowOf
    rw [hjjs, List.range'_eq_map_range, List.map_map, List.map_map, range_sum]
    apply Finset.sum_congr rfl
    intro q hq
    have hq' := mem_range.1 hq
    have hlt : p * m + q < M.size * m := by
      rw [hM]
      calc p * m + q < p * m + m := by omega
        _ = (p + 1) * m := by ring
        _ ≤ n * m := Nat.mul_le_mul_right _ hp
    have hm : 0 < m := by omega
    simp only [Function.comp_def, C02.ofDense]
    rw [rdN_map_range _ _ _ hlt, rd_map_range _ _ _ hlt]
    have h1 : (p * m + q) / m = p := by
      rw [Nat.mul_comm, Nat.mul_add_div hm, Nat.div_eq_of_lt hq', Nat.add_zero]
    have h2 : (p * m + q) % m = q := by
      rw [Nat.mul_comm, Nat.mul_add_mod, Nat.mod_eq_of_lt hq']
    rw [h1, h2]
  · rw [csrOp_ge' _ _ _ _ hp]
    show _ = (if p < n then _ else 0)
    rw [if_neg hp]

/-- a sum over `nb·bs` indices by blocks -/
theorem sum_range_blocks (nb bs : Nat) (f : Nat → R) :
    ∑ q ∈ range (nb * bs), f q = ∑ j ∈ range nb, ∑ m ∈ range bs, f (j * bs + m) := by
  induction nb with
  | zero => simp
  | succ nb ih =>
    rw [Nat.succ_mul, Finset.sum_range_add, ih, Finset.sum_range_succ]

/-- **the BSR copy `bsrOfDense M nb bs` of a dense `nb·bs × nb·bs` matrix has the operator `denseOp M`** -/
theorem bsrOp_ofDense (M : C02.Dense R) (nb bs : Nat) (hbs : 0 < bs) :
    bsrOp (bsrOfDense M nb bs) = denseOp M (nb * bs) (nb * bs) := by
  apply LinearMap.ext
  intro u
  funext p
  show (if p < nb * bs then rowDotB (bsrOfDense M nb bs) (p / bs) u (p % bs) else 0) =
    (if p < nb * bs then _ else 0)
  by_cases hp : p < nb * bs
  · rw [if_pos hp, if_pos hp, sum_range_blocks]
    have hi : p / bs < nb := (Nat.div_lt_iff_lt_mul hbs).2 hp
    have hl : p % bs < bs := Nat.mod_lt _ hbs
    have hjjs : (bsrOfDense M nb bs).jjs (p / bs) = List.range' (p / bs * nb) nb := by
      unfold K.Bsr.jjs bsrOfDense
      simp only
      rw [rdN_map_range _ _ _ (by omega), rdN_map_range _ _ _ (by omega)]
      congr 1
      rw [Nat.add_mul]; omega
    unfold rowDotB blkDot
    rw [hjjs, List.range'_eq_map_range, List.map_map, range_sum]
    apply Finset.sum_congr rfl
    intro j hj
    have hj' := mem_range.1 hj
    have hnb : 0 < nb := by omega
    have hjj : p / bs * nb + j < nb * nb := by
      calc p / bs * nb + j < p / bs * nb + nb := by omega
        _ = (p / bs + 1) * nb := by ring
        _ ≤ nb * nb := Nat.mul_le_mul_right _ hi
    have hbj : rdN (bsrOfDense M nb bs).bj (p / bs * nb + j) = j := by
      unfold bsrOfDense
      simp only
      rw [rdN_map_range _ _ _ hjj, Nat.mul_comm, Nat.mul_add_mod, Nat.mod_eq_of_lt hj']
    simp only [Function.comp_def]
    apply Finset.sum_congr rfl
    intro m hm
    have hm' : m < bs := mem_range.1 hm
    rw [hbj]
    congr 1
    unfold blkAt bsrOfDense
    simp only
    have hr : p % bs * bs + m < bs * bs := by
      calc p % bs * bs + m < p % bs * bs + bs := by omega
        _ = (p % bs + 1) * bs := by ring
        _ ≤ bs * bs := Nat.mul_le_mul_right _ hl
    have hq : (p / bs * nb + j) * (bs * bs) + p % bs * bs + m < nb * nb * (bs * bs) := by
      have : (p / bs * nb + j) * (bs * bs) + (p % bs * bs + m) < (p / bs * nb + j + 1) * (bs * bs) := by
        rw [Nat.add_mul (p / bs * nb + j) 1]; omega
      have h2 : (p / bs * nb + j + 1) * (bs * bs) ≤ nb * nb * (bs * bs) := Nat.mul_le_mul_right _ hjj
      omega
    rw [rd_map_range _ _ _ hq]
    have hbb : 0 < bs * bs := Nat.mul_pos hbs hbs
    have e1 : ((p / bs * nb + j) * (bs * bs) + p % bs * bs + m) / (bs * bs) = p / bs * nb + j := by
      rw [Nat.add_assoc, Nat.mul_comm (p / bs * nb + j), Nat.mul_add_div hbb, Nat.div_eq_of_lt hr, Nat.add_zero]
    have e2 : ((p / bs * nb + j) * (bs * bs) + p % bs * bs + m) % (bs * bs) = p % bs * bs + m := by
      rw [Nat.add_assoc, Nat.mul_comm (p / bs * nb + j), Nat.mul_add_mod, Nat.mod_eq_of_lt hr]
    have e3 : (p / bs * nb + j) / nb = p / bs := by
      rw [Nat.mul_comm, Nat.mul_add_div hnb, Nat.div_eq_of_lt hj', Nat.add_zero]
    have e4 : (p / bs * nb + j) % nb = j := by
      rw [Nat.mul_comm, Nat.mul_add_mod, Nat.mod_eq_of_lt hj']
    have e5 : (p % bs * bs + m) / bs = p % bs := by
      rw [Nat.mul_comm, Nat.mul_add_div hbs, Nat.div_eq_of_lt hm', Nat.add_zero]
    have e6 : (p % bs * bs + m) % bs = m := by
      rw [Nat.mul_comm, Nat.mul_add_mod, Nat.mod_eq_of_lt hm']
    simp only [e1, e2, e3, e4, e5, e6]
    rw [Nat.div_add_mod' p bs]
  · rw [if_neg hp, if_neg hp]

/-! ### array-level smoothers as iterations on functions -/

/-- the first `n` values of a function as an array -/
def toArr (n : Nat) (X : Nat → R) : Array R := (Array.range n).map X

theorem toArr_size (n : Nat) (X : Nat → R) : (toArr n X).size = n := by unfold toArr; simp

theorem fn_toArr (n : Nat) (X : Nat → R) (p : Nat) : fn (toArr n X) p = if p < n then X p else 0 := by
  unfold toArr; exact fn_map_range n X p

theorem toArr_fn (n : Nat) (x : Array R) (hx : x.size = n) : toArr n (fn x) = x := by
  apply array_ext_rd _ _ (by rw [toArr_size, hx])
  intro p hp
  rw [toArr_size] at hp
  have := fn_toArr n (fn x) p
  rw [if_pos hp] at this
  exact this

/-- an array-level smoother `f b x` on vectors of size `n`, as an iteration on functions (it reads and writes the
first `n` coordinates) -/
def liftSm (n : Nat) (f : Array R → Array R → Array R) : (Nat → R) → (Nat → R) → (Nat → R) :=
  fun X B => fn (f (toArr n B) (toArr n X))

theorem liftSm_refines (n : Nat) (f : Array R → Array R → Array R) (b x : Array R)
    (hb : b.size = n) (hx : x.size = n) : fn (f b x) = liftSm n f (fn x) (fn b) := by
  unfold liftSm; rw [toArr_fn n x hx, toArr_fn n b hb]

theorem euc_tail_right (n : Nat) (w t : Nat → R) (ht : ∀ p, p < n → t p = 0) : (euc R n).a w t = 0 := by
  rw [euc_apply]; apply Finset.sum_eq_zero; intro p hp; rw [ht p (mem_range.1 hp)]; ring

theorem euc_tail_left (n : Nat) (w t : Nat → R) (ht : ∀ p, p < n → t p = 0) : (euc R n).a t w = 0 := by
  rw [euc_apply]; apply Finset.sum_eq_zero; intro p hp; rw [ht p (mem_range.1 hp)]; ring

/-- the energy form of a symmetric operator w.r.t. `euc R n` does not see coordinates `≥ n` -/
theorem en_tail (n : Nat) (A : (Nat → R) →ₗ[R] (Nat → R)) (hs hp) (v t : Nat → R)
    (ht : ∀ p, p < n → t p = 0) :
    ((euc R n).ofOp A hs hp).en (v - t) = ((euc R n).ofOp A hs hp).en v := by
  show (euc R n).a (A (v - t)) (v - t) = (euc R n).a (A v) v
  have h1 : (euc R n).a (A v) t = 0 := euc_tail_right n _ t ht
  have h2 : (euc R n).a (A t) v = 0 := by rw [hs t v]; exact euc_tail_left n _ t ht
  have h3 : (euc R n).a (A t) t = 0 := euc_tail_right n _ t ht
  simp only [map_sub, LinearMap.sub_apply, h1, h2, h3]; ring

/-- **an array-level smoother that never increases the energy of the error is a non-expansive iteration** -/
theorem liftSm_nonexp (n : Nat) (A : (Nat → R) →ₗ[R] (Nat → R)) (hs hp) (f : Array R → Array R → Array R)
    (hf : ∀ (b x : Array R) (xs : Nat → R), b.size = n → x.size = n → (∀ p, p < n → A xs p = fn b p) →
      ((euc R n).ofOp A hs hp).en (xs - fn (f b x)) ≤ ((euc R n).ofOp A hs hp).en (xs - fn x)) :
    NonExp ((euc R n).ofOp A hs hp) A (liftSm n f) := by
  intro X B XS hB
  have h := hf (toArr n B) (toArr n X) XS (toArr_size _ _) (toArr_size _ _)
    (fun p hp' => by rw [fn_toArr, if_pos hp', hB])
  have ht : ∀ p, p < n → (X - fn (toArr n X)) p = 0 := by
    intro p hp'; rw [Pi.sub_apply, fn_toArr, if_pos hp']; ring
  have : XS - X = (XS - fn (toArr n X)) - (X - fn (toArr n X)) := by abel
  rw [this, en_tail n A hs hp _ _ ht]
  exact h

theorem en_of_op_eq {V : Type*} [AddCommGroup V] [Module R V] (e : EForm R V) (A A' : V →ₗ[R] V) (h : A = A')
    (hs hp hs' hp') (v : V) : (e.ofOp A hs hp).en v = (e.ofOp A' hs' hp').en v := by
  subst h; rfl

theorem nonexp_of_op_eq {V : Type*} [AddCommGroup V] [Module R V] (e : EForm R V) (A A' : V →ₗ[R] V) (h : A = A')
    (hs hp hs' hp') (f : V → V → V) (hf : NonExp (e.ofOp A hs hp) A f) : NonExp (e.ofOp A' hs' hp') A' f := by
  subst h; exact hf

/-! ### the smoothers of a BSR level -/

theorem blockGaussSeidel_size (A : Bsr R) (b Dinv : Array R) (rows : List Nat) (x : Array R) :
    (blockGaussSeidel A b Dinv rows x).size = x.size := by
  unfold K.blockGaussSeidel
  induction rows generalizing x with
  | nil => rfl
  | cons i rest ih => simp only [List.foldl_cons]; rw [ih, bgsStep_size]

theorem kiter_size (f : Array R → Array R) (h : ∀ x, (f x).size = x.size) :
    ∀ (k : Nat) (x : Array R), (K.iter f k x).size = x.size := by
  intro k
  induction k with
  | zero => intro x; rfl
  | succ k ih => intro x; simp only [K.iter]; rw [ih, h]

theorem pyBlockGaussSeidel_getD_size (A : Bsr R) (b Dinv : Array R) (it : Nat) (sw : Sweep) (x : Array R) :
    ((pyBlockGaussSeidel A b Dinv it sw x).getD x).size = x.size := by
  have hpass : ∀ bw x, (bgsPass A b Dinv bw x).size = x.size := by
    intro bw x; unfold K.bgsPass; exact blockGaussSeidel_size _ _ _ _ _
  unfold K.pyBlockGaussSeidel
  split
  · rfl
  · cases sw
    · exact kiter_size _ (hpass false) _ _
    · exact kiter_size _ (hpass true) _ _
    · exact kiter_size _ (fun x => by rw [hpass, hpass]) _ _

theorem pyBlockJacobi_getD_size (ω : R) (A : Bsr R) (b Dinv : Array R) (it : Nat) (x : Array R) :
    ((pyBlockJacobi ω A b Dinv it x).getD x).size = x.size := by
  unfold K.pyBlockJacobi
  split
  · rfl
  · exact kiter_size _ (fun x => blockJacobi_size _ _ _ _ _ _ _) _ _

/-- the smoother of a BSR level as an iteration on functions: the pointwise kernels as `smF`, the block kernels
through `liftSm` -/
def bsmF (Ad : C02.Dense R) (n : Nat) : BSm R → (Nat → R) → (Nat → R) → (Nat → R)
  | .pt s => smF s (C02.ofDense Ad n)
  | .bgs bs Dinv sw it => liftSm n (BSm.run Ad n (.bgs bs Dinv sw it))
  | .bjac bs Dinv ω it => liftSm n (BSm.run Ad n (.bjac bs Dinv ω it))

theorem bsm_refines (Ad : C02.Dense R) (n : Nat) (hAd : Ad.size = n) (s : BSm R) (b x : Array R)
    (hb : b.size = n) (hx : x.size = n) :
    (s.run Ad n b x).size = n ∧ fn (s.run Ad n b x) = bsmF Ad n s (fn x) (fn b) := by
  cases s with
  | pt s =>
    have hn : (C02.ofDense Ad n).n = n := hAd
    obtain ⟨h1, h2⟩ := sm_refines s (C02.ofDense Ad n) b x (by rw [hx, hn])
    exact ⟨h1.trans hx, h2⟩
  | bgs bs Dinv sw it =>
    refine ⟨?_, liftSm_refines n _ b x hb hx⟩
    show ((pyBlockGaussSeidel _ b Dinv it sw x).getD x).size = n
    rw [pyBlockGaussSeidel_getD_size, hx]
  | bjac bs Dinv ω it =>
    refine ⟨?_, liftSm_refines n _ b x hb hx⟩
    show ((pyBlockJacobi ω _ b Dinv it x).getD x).size = n
    rw [pyBlockJacobi_getD_size, hx]

/-- admissible smoothers of a level with dense matrix `Ad` of size `n`: the pointwise ones as in `smOK` (one stored
diagonal per row of the CSR copy, `0 ≤ ω ≤ 2` resp. the damping bound); block Gauss-Seidel with `n = nb·bs` and
`A_ii Dinv_i = I`; block Jacobi with `Dinv_i A_ii = I`, `0 ≤ ω` and the damping bound `ω ‖D_B⁻¹ r‖²_A ≤ 2⟨D_B⁻¹ r, r⟩` -/
def bsmOK (Ad : C02.Dense R) (n : Nat) : BSm R → Prop
  | .pt s => ∃ diag : Nat → R, (∀ i, i < n → HasDiag i (rowOf (C02.ofDense Ad n) i) (diag i)) ∧
      smOK s (C02.ofDense Ad n) diag
  | .bgs bs Dinv _ _ => ∃ nb, 0 < bs ∧ n = nb * bs ∧ Dinv.size = nb * (bs * bs) ∧
      ∀ i, i < nb → RightInv (bsrOfDense Ad nb bs) Dinv i
  | .bjac bs Dinv ω _ => ∃ nb, 0 < bs ∧ n = nb * bs ∧ Dinv.size = nb * (bs * bs) ∧
      (∀ i, i < nb → LeftInv (bsrOfDense Ad nb bs) Dinv i) ∧ 0 ≤ ω ∧
      ∀ r, ω * (euc R n).a (denseOp Ad n n (bDinv nb bs Dinv r)) (bDinv nb bs Dinv r) ≤
        2 * (euc R n).a (bDinv nb bs Dinv r) r

theorem bsrOfDense_cols (M : C02.Dense R) (nb bs : Nat) :
    ∀ i, i < nb → ∀ jj ∈ (bsrOfDense M nb bs).jjs i, rdN (bsrOfDense M nb bs).bj jj < nb := by
  intro i hi jj hjj
  have hjjs : (bsrOfDense M nb bs).jjs i = List.range' (i * nb) nb := by
    unfold K.Bsr.jjs bsrOfDense
    simp only
    rw [rdN_map_range _ _ _ (by omega), rdN_map_range _ _ _ (by omega)]
    congr 1
    rw [Nat.add_mul]; omega
  rw [hjjs, List.mem_range'_1] at hjj
  have hlt : jj < nb * nb := by
    calc jj < i * nb + nb := hjj.2
      _ = (i + 1) * nb := by ring
      _ ≤ nb * nb := Nat.mul_le_mul_right _ hi
  unfold bsrOfDense
  simp only
  rw [rdN_map_range _ _ _ hlt]
  exact Nat.mod_lt _ (by omega)

/-- **every admissible smoother of a BSR level is non-expansive in the level's energy norm** -/
theorem bsmF_nonexp (Ad : C02.Dense R) (n : Nat) (hAd : Ad.size = n)
    (hs : IsAdj (euc R n) (euc R n) (denseOp Ad n n) (denseOp Ad n n))
    (hp : ∀ v, 0 ≤ (euc R n).a (denseOp Ad n n v) v) (s : BSm R) (hok : bsmOK Ad n s) :
    NonExp ((euc R n).ofOp (denseOp Ad n n) hs hp) (denseOp Ad n n) (bsmF Ad n s) := by
  cases s with
  | pt s =>
    obtain ⟨diag, hdiag, hsm⟩ := hok
    subst hAd
    have hop : csrOp (C02.ofDense Ad Ad.size).n (rowOf (C02.ofDense Ad Ad.size)) = denseOp Ad Ad.size Ad.size :=
      csrOp_ofDense Ad Ad.size Ad.size rfl
    have h := smF_nonexp s (C02.ofDense Ad Ad.size) (by rw [hop]; exact hs) (by rw [hop]; exact hp) diag hdiag hsm
    exact nonexp_of_op_eq _ _ _ hop _ _ hs hp _ h
  | bgs bs Dinv sw it =>
    obtain ⟨nb, hbs, rfl, hDs, hR⟩ := hok
    have hdiv : nb * bs / bs = nb := Nat.mul_div_cancel _ hbs
    have hop : bsrOp (bsrOfDense Ad nb bs) = denseOp Ad (nb * bs) (nb * bs) := bsrOp_ofDense Ad nb bs hbs
    apply liftSm_nonexp
    intro b x xs hb hx hxs
    obtain ⟨y, hy, _, hen⟩ := pyBlockGaussSeidel_array_nonexp (bsrOfDense Ad nb bs) hbs
      (by rw [hop]; exact hs) (by rw [hop]; exact hp) b Dinv hb hDs hR it sw xs
      (by intro p hp'; rw [hop]; exact hxs p hp') x hx
    have hrun : BSm.run Ad (nb * bs) (.bgs bs Dinv sw it) b x = y := by
      show (pyBlockGaussSeidel (bsrOfDense Ad (nb * bs / bs) bs) b Dinv it sw x).getD x = y
      rw [hdiv, hy]; rfl
    rw [hrun, en_of_op_eq _ _ _ hop.symm hs hp (by rw [hop]; exact hs) (by rw [hop]; exact hp),
      en_of_op_eq _ _ _ hop.symm hs hp (by rw [hop]; exact hs) (by rw [hop]; exact hp) (xs - fn x)]
    exact hen
  | bjac bs Dinv ω it =>
    obtain ⟨nb, hbs, rfl, hDs, hL, h0, hD⟩ := hok
    have hdiv : nb * bs / bs = nb := Nat.mul_div_cancel _ hbs
    have hop : bsrOp (bsrOfDense Ad nb bs) = denseOp Ad (nb * bs) (nb * bs) := bsrOp_ofDense Ad nb bs hbs
    apply liftSm_nonexp
    intro b x xs hb hx hxs
    obtain ⟨y, hy, _, hen⟩ := pyBlockJacobi_array_nonexp ω h0 (bsrOfDense Ad nb bs) hbs
      (by rw [hop]; exact hs) (by rw [hop]; exact hp) b Dinv hb hDs (bsrOfDense_cols Ad nb bs) hL
      (by intro r; rw [hop]; exact hD r) it xs
      (by intro p hp'; rw [hop]; exact hxs p hp') x hx
    have hrun : BSm.run Ad (nb * bs) (.bjac bs Dinv ω it) b x = y := by
      show (pyBlockJacobi ω (bsrOfDense Ad (nb * bs / bs) bs) b Dinv it x).getD x = y
      rw [hdiv, hy]; rfl
    rw [hrun, en_of_op_eq _ _ _ hop.symm hs hp (by rw [hop]; exact hs) (by rw [hop]; exact hp),
      en_of_op_eq _ _ _ hop.symm hs hp (by rw [hop]; exact hs) (by rw [hop]; exact hp) (xs - fn x)]
    exact hen

/-! ### the cycle on BSR levels -/

/-- arrays over an ordered field read as functions -/
def fread : Reading R (Nat → R) where
  ρ := fn
  sub x y h := PyamgV.vsub_refines x y h
  add x y h := PyamgV.vadd_refines x y h
  zero n := PyamgV.zeros_refines n

/-- a BSR level of the model as a level of the abstract recursion -/
def btoLevel (L : BLvl R) : Level R (Nat → R) :=
  ⟨denseOp L.Ad L.n L.n, csrOp L.P.n (rowOf L.P), csrOp L.R.n (rowOf L.R), bsmF L.Ad L.n L.pre, bsmF L.Ad L.n L.post⟩

theorem btoO_refL (L : BLvl R) (hAd : L.Ad.size = L.n) (hP : L.P.n = L.n) :
    RefL fread L.toO (btoLevel L) L.n L.R.n where
  A x _ := by
    have hn : (C02.ofDense L.Ad L.n).n = L.n := hAd
    refine ⟨by show (C02.spmv _ x).size = L.n; rw [PyamgV.spmv_size, hn], ?_⟩
    show fn (C02.spmv (C02.ofDense L.Ad L.n) x) = denseOp L.Ad L.n L.n (fn x)
    rw [PyamgV.spmv_refines, hn, csrOp_ofDense L.Ad L.n L.n hAd]
  R r _ := ⟨PyamgV.spmv_size _ _, PyamgV.spmv_refines _ _⟩
  P cx _ := ⟨by rw [← hP]; exact PyamgV.spmv_size _ _, PyamgV.spmv_refines _ _⟩
  pre b x hb hx := bsm_refines L.Ad L.n hAd L.pre b x hb hx
  post b x hb hx := bsm_refines L.Ad L.n hAd L.post b x hb hx

/-- shapes: the level sizes chain down to the size `nc` of the coarsest problem -/
def BShaped (nc : Nat) : Nat → List (BLvl R) → Prop
  | n, [] => n = nc
  | n, L :: rest => L.n = n ∧ L.Ad.size = n ∧ L.P.n = n ∧ BShaped nc L.R.n rest

theorem bshaped_refH (nc : Nat) : ∀ (ls : List (BLvl R)) (n : Nat), BShaped nc n ls →
    RefH (K := R) fread nc n (ls.map BLvl.toO) (ls.map btoLevel) := by
  intro ls
  induction ls with
  | nil => intro n h; exact h
  | cons L rest ih =>
    intro n h
    obtain ⟨hn, hAd, hP, hrest⟩ := h
    subst hn
    exact ⟨L.R.n, btoO_refL L hAd hP, ih _ hrest⟩

/-- **the executable cycle model on BSR levels (block Gauss-Seidel / block Jacobi / pointwise smoothers), read as
functions, is the abstract recursion `cyc`** -/
theorem bcycle_refines (solve : Array R → Array R) (solveF : (Nat → R) → (Nat → R)) (nc : Nat)
    (hsolve : ∀ b : Array R, b.size = nc → (solve b).size = nc ∧ fn (solve b) = solveF (fn b))
    (ls : List (BLvl R)) (c : C02.Cyc) (cpl n : Nat) (x b : Array R)
    (hs : BShaped nc n ls) (hx : x.size = n) (hb : b.size = n) :
    (cycleO solve c cpl (ls.map BLvl.toO) x b).size = n ∧
    fn (cycleO solve c cpl (ls.map BLvl.toO) x b) =
      cyc solveF (ctype c cpl) (ls.map btoLevel) (fn x) (fn b) :=
  cycleO_refines fread solve solveF nc hsolve _ _ c cpl n x b (bshaped_refH nc ls n hs) hx hb

/-- the dense matrix and the size of the level below: the next level's, or the coarsest -/
def nextAd (Ac : C02.Dense R) (nc : Nat) : List (BLvl R) → C02.Dense R × Nat
  | [] => (Ac, nc)
  | L :: _ => (L.Ad, L.n)

/-- what the data of a BSR model hierarchy has to satisfy: per level `R` is the transpose of `P`, the next matrix is
the Galerkin product and has the matching size, the smoothers are admissible (`bsmOK`), the coarse problems are
solvable; the coarsest solve is exact in the energy norm -/
def BWFModel (solveF : (Nat → R) → (Nat → R)) (Ac : C02.Dense R) (nc : Nat) : List (BLvl R) → Prop
  | [] => ∀ b xs, denseOp Ac nc nc xs = b →
      (euc R nc).a (denseOp Ac nc nc (xs - solveF b)) (xs - solveF b) = 0
  | L :: rest =>
      L.Ad.size = L.n ∧
      IsAdj (euc R L.n) (euc R L.R.n) (csrOp L.P.n (rowOf L.P)) (csrOp L.R.n (rowOf L.R)) ∧
      (nextAd Ac nc rest).2 = L.R.n ∧
      denseOp (nextAd Ac nc rest).1 L.R.n L.R.n =
        csrOp L.R.n (rowOf L.R) ∘ₗ denseOp L.Ad L.n L.n ∘ₗ csrOp L.P.n (rowOf L.P) ∧
      bsmOK L.Ad L.n L.pre ∧ bsmOK L.Ad L.n L.post ∧
      (∀ r, ∃ w, (csrOp L.R.n (rowOf L.R) ∘ₗ denseOp L.Ad L.n L.n ∘ₗ csrOp L.P.n (rowOf L.P)) w =
        csrOp L.R.n (rowOf L.R) r) ∧
      BWFModel solveF Ac nc rest

theorem BWFModel.toWFG (solveF : (Nat → R) → (Nat → R)) (Ac : C02.Dense R) (nc : Nat) :
    ∀ (ls : List (BLvl R)), BWFModel solveF Ac nc ls →
      WFG solveF (euc R (nextAd Ac nc ls).2)
        (denseOp (nextAd Ac nc ls).1 (nextAd Ac nc ls).2 (nextAd Ac nc ls).2)
        (ls.map (fun L => (euc R L.R.n, btoLevel L))) := by
  intro ls
  induction ls with
  | nil => intro h; exact h
  | cons L rest ih =>
    intro h
    obtain ⟨hAd, hadj, hn, hgal, hpre, hpost, hsolv, hrest⟩ := h
    have := ih hrest
    rw [hn, hgal] at this
    exact ⟨rfl, hadj, fun hs hp => bsmF_nonexp L.Ad L.n hAd hs hp L.pre hpre,
      fun hs hp => bsmF_nonexp L.Ad L.n hAd hs hp L.post hpost, hsolv, this⟩

/-- **C02 for the executable model with BSR levels and block smoothers**: on a model hierarchy whose data satisfy
`BWFModel` (Galerkin products, `R = Pᵀ`, block Gauss-Seidel with exact inverse diagonal blocks in any sweep mode,
block Jacobi with exact inverse diagonal blocks under its damping bound, pointwise Gauss-Seidel / SOR / Jacobi as
in `model_cycle_nonexpansive`, energy-exact coarsest solve) and a symmetric positive semidefinite finest matrix, one
V-, W- or F(k)-cycle of the arrays-and-kernels model the driver runs against the code does not increase the energy
of the error, for every `x`, `b` of the right size and every solution `x*` of `A x* = b`. -/
theorem bmodel_cycle_nonexp (solve : Array R → Array R) (solveF : (Nat → R) → (Nat → R))
    (Ac : C02.Dense R) (nc : Nat) (ls : List (BLvl R))
    (hsolve : ∀ b : Array R, b.size = nc → (solve b).size = nc ∧ fn (solve b) = solveF (fn b))
    (hshape : BShaped nc (nextAd Ac nc ls).2 ls) (hwf : BWFModel solveF Ac nc ls)
    (hsym : IsAdj (euc R (nextAd Ac nc ls).2) (euc R (nextAd Ac nc ls).2)
      (denseOp (nextAd Ac nc ls).1 (nextAd Ac nc ls).2 (nextAd Ac nc ls).2)
      (denseOp (nextAd Ac nc ls).1 (nextAd Ac nc ls).2 (nextAd Ac nc ls).2))
    (hpsd : ∀ v, 0 ≤ (euc R (nextAd Ac nc ls).2).a
      (denseOp (nextAd Ac nc ls).1 (nextAd Ac nc ls).2 (nextAd Ac nc ls).2 v) v)
    (c : C02.Cyc) (cpl : Nat) (x b : Array R) (hx : x.size = (nextAd Ac nc ls).2)
    (hb : b.size = (nextAd Ac nc ls).2) (xs : Nat → R)
    (hxs : denseOp (nextAd Ac nc ls).1 (nextAd Ac nc ls).2 (nextAd Ac nc ls).2 xs = fn b) :
    ((euc R (nextAd Ac nc ls).2).ofOp _ hsym hpsd).en (xs - fn (cycleO solve c cpl (ls.map BLvl.toO) x b)) ≤
    ((euc R (nextAd Ac nc ls).2).ofOp _ hsym hpsd).en (xs - fn x) := by
  obtain ⟨_, href⟩ := bcycle_refines solve solveF nc hsolve ls c cpl _ x b hshape hx hb
  rw [href]
  have hg := cycle_nonexp_of_galerkin solveF (ctype c cpl) _ _ _ hsym hpsd (BWFModel.toWFG solveF Ac nc ls hwf)
  have hmap : (ls.map (fun L => (euc R L.R.n, btoLevel L))).map Prod.snd = ls.map btoLevel := by
    rw [List.map_map]; rfl
  rw [hmap] at hg
  exact hg (fn x) (fn b) xs hxs

#print axioms csrOp_ofDense
#print axioms bsrOp_ofDense
#print axioms liftSm_nonexp
#print axioms bsmF_nonexp
#print axioms bcycle_refines
#print axioms bmodel_cycle_nonexp
end PyamgV.C02X
