import PyamgV.Proofs.ExtCGGiv

/-! PyamgV (extension E43, properties C06/C07): **complex Householder reflections** over a `K`-module with a Hermitian
form.  `creflL E w : x ↦ x − 2⟨w, x⟩ w` (`⟨·,·⟩` conjugate-linear in the first slot: what one pass of the loop of
`apply_householders` does with `dot_prod`, `reflO_eq`); for `w = 0` or `⟨w, w⟩ = 1` (`CUZ`) it is an involutive
isometry of the Hermitian form; chains `chhL` inherit this; `csgn` (`_mysign` of a complex number) has modulus one
and `conj(sgn c) · c` is real; the reflector built by `newReflO` from `u` maps `u` to `−α E'`, `α = sgn(⟨E', u⟩) ‖u‖`
(`chouseh`). -/
set_option linter.unusedSectionVars false
set_option linter.unusedVariables false
namespace PyamgV.ExtCG
open PyamgV.C07 PyamgV.CHerm PyamgV.C07.CH Finset

variable {K : Type} [Field K] [StarRing K] [DecidableEq K]
variable {F₀ : Type} [Field F₀] [LinearOrder F₀] [IsStrictOrderedRing F₀]
variable {V : Type} [AddCommGroup V] [Module K V]
variable (E : HForm K F₀ V)

/-- the Householder reflection `x ↦ x − 2⟨w, x⟩ w` -/
def creflL (w : V) : V →ₗ[K] V where
  toFun x := x + (E.h w x * (-2)) • w
  map_add' x y := by rw [E.add_right]; module
  map_smul' c x := by rw [E.smul_right, RingHom.id_apply]; module

theorem creflL_apply (w x : V) : creflL E w x = x + (E.h w x * (-2)) • w := rfl

/-- unit vector or zero -/
def CUZ (w : V) : Prop := w = 0 ∨ E.h w w = 1

theorem crefl_zero (x : V) : creflL E 0 x = x := by
  rw [creflL_apply]; simp

theorem star_two : star (2 : K) = 2 := by
  have : (2 : K) = 1 + 1 := by norm_num
  rw [this, star_add, star_one]

theorem crefl_iso (w : V) (hw : CUZ E w) (x y : V) : E.h (creflL E w x) (creflL E w y) = E.h x y := by
  rcases hw with rfl | hw
  · rw [crefl_zero, crefl_zero]
  · simp only [creflL_apply, E.add_left, E.add_right, E.smul_left, E.smul_right, hw, star_mul, star_neg,
      star_two]
    rw [E.conj_symm w x]
    ring

theorem crefl_invol (w : V) (hw : CUZ E w) (x : V) : creflL E w (creflL E w x) = x := by
  rcases hw with rfl | hw
  · rw [crefl_zero, crefl_zero]
  · rw [creflL_apply, creflL_apply]
    simp only [E.add_right, E.smul_right, hw]
    module

theorem crefl_fix (w x : V) (h : E.h w x = 0) : creflL E w x = x := by
  rw [creflL_apply, h]; simp

/-- the reflections `ws[0]`, then `ws[1]`, … -/
def chhL : List V → (V →ₗ[K] V)
  | [] => LinearMap.id
  | w :: ws => (chhL ws).comp (creflL E w)

theorem chhL_append (ws : List V) (w : V) : chhL E (ws ++ [w]) = (creflL E w).comp (chhL E ws) := by
  induction ws with
  | nil => simp [chhL]
  | cons q qs ih => simp only [List.cons_append, chhL, ih]; rfl

theorem chhL_append_list : ∀ (l1 l2 : List V), chhL E (l1 ++ l2) = (chhL E l2).comp (chhL E l1)
  | [], _ => rfl
  | w :: l1, l2 => by
    simp only [List.cons_append, chhL]
    rw [chhL_append_list l1 l2]; rfl

theorem chhL_iso : ∀ (ws : List V), (∀ w ∈ ws, CUZ E w) → ∀ x y, E.h (chhL E ws x) (chhL E ws y) = E.h x y
  | [], _, _, _ => rfl
  | w :: ws, h, x, y => by
    simp only [chhL, LinearMap.comp_apply]
    rw [chhL_iso ws (fun q hq => h q (by simp [hq])), crefl_iso E w (h w (by simp))]

theorem chhL_rev_cancel : ∀ (ws : List V), (∀ w ∈ ws, CUZ E w) → ∀ x, chhL E ws.reverse (chhL E ws x) = x
  | [], _, _ => rfl
  | w :: ws, h, x => by
    rw [List.reverse_cons, chhL_append]
    simp only [chhL, LinearMap.comp_apply]
    rw [chhL_rev_cancel ws (fun q hq => h q (by simp [hq])), crefl_invol E w (h w (by simp))]

theorem chhL_fix : ∀ (ws : List V) (x : V), (∀ w ∈ ws, E.h w x = 0) → chhL E ws x = x
  | [], _, _ => rfl
  | w :: ws, x, h => by
    simp only [chhL, LinearMap.comp_apply]
    rw [crefl_fix E w x (h w (by simp)), chhL_fix ws x (fun q hq => h q (by simp [hq]))]

/-! ### the model's operations over the module -/
variable (A AH M : V →ₗ[K] V)

theorem creflO_eq (w z : V) : reflO (Ops.ofHerm A AH M E) w z = creflL E w z := rfl

theorem capplyHH_eq : ∀ (ws : List V) (z : V), applyHH (Ops.ofHerm A AH M E) ws z = chhL E ws z
  | [], _ => rfl
  | w :: ws, z => by
    simp only [applyHH, List.foldl_cons, chhL, LinearMap.comp_apply]
    rw [creflO_eq]
    exact capplyHH_eq ws _

/-! ### `_mysign` -/
variable (R : ReMap K F₀) (sqrt : K → K) (hS : ExactSqrt R sqrt)

include hS in
/-- `|sgn c| = 1` and `conj(sgn c) · c` is real -/
theorem csgn_spec (c : K) :
    star (csgn star sqrt nzK c) * csgn star sqrt nzK c = 1 ∧
    star (star (csgn star sqrt nzK c) * c) = star (csgn star sqrt nzK c) * c := by
  unfold csgn
  by_cases hc : c = 0
  · have : nzK c = false := by simp [nzK, hc]
    rw [this]; simp [hc]
  · rw [nzK_of_ne hc]
    simp only [if_true]
    have h1 := sqrt_abs_sq R sqrt hS c
    have hne := sqrt_abs_ne R sqrt hS c hc
    have hr := hS.real (star c * c)
    generalize sqrt (star c * c) = t at h1 hne hr
    have hval : star (c / t) * c = t := by
      rw [star_div₀, hr]; field_simp; linear_combination -h1
    refine ⟨?_, by rw [hval, hr]⟩
    rw [star_div₀, hr]; field_simp; linear_combination -h1

/-! ### the Householder vector -/
variable (hER : ∀ z, E.re z = R.re z) (hdef : ∀ v, E.h v v = 0 → v = 0)

include hS hER hdef in
/-- for `u` with `ν² = ⟨u, u⟩`, `ν` real, a unit vector `E'`, a sign `σ` of modulus one with `conj(σ) ⟨E', u⟩` real
and `α = σ ν`: the normalised `w = (u + α E') / ‖u + α E'‖` is a unit vector (or zero) and its reflection maps `u`
to `−α E'` -/
theorem chouseh (u E' : V) (hE : E.h E' E' = 1) (σ : K) (hσ : star σ * σ = 1)
    (hreal : star (star σ * E.h E' u) = star σ * E.h E' u) (ν : K) (hνr : star ν = ν) (hν : ν * ν = E.h u u) :
    CUZ E ((1 / sqrt (E.h (u + (σ * ν) • E') (u + (σ * ν) • E'))) • (u + (σ * ν) • E')) ∧
    creflL E ((1 / sqrt (E.h (u + (σ * ν) • E') (u + (σ * ν) • E'))) • (u + (σ * ν) • E')) u =
      (-(σ * ν)) • E' := by
  set c := E.h E' u with hc
  have hreal' : σ * star c = star σ * c := by
    have := hreal
    rw [star_mul, star_star, mul_comm] at this
    exact this
  have hqu : E.h (u + (σ * ν) • E') u = ν * ν + star σ * ν * c := by
    rw [E.add_left, E.smul_left, ← hc, ← hν, star_mul, hνr]; ring
  have hqq : E.h (u + (σ * ν) • E') (u + (σ * ν) • E') = 2 * (ν * ν + star σ * ν * c) := by
    rw [E.add_right, hqu, E.smul_right, E.add_left, E.smul_left, hE, E.conj_symm E' u, ← hc, star_mul, hνr]
    have h1 : star σ * ν * (σ * ν) = ν * ν := by
      calc star σ * ν * (σ * ν) = (star σ * σ) * (ν * ν) := by ring
        _ = ν * ν := by rw [hσ, one_mul]
    linear_combination ν * hreal' + h1
  set q := u + (σ * ν) • E' with hq
  have hN : sqrt (E.h q q) * sqrt (E.h q q) = E.h q q :=
    hS.sq _ (E.self_star q) (by rw [← hER]; exact E.nonneg q)
  have hNr := hS.real (E.h q q)
  set N := sqrt (E.h q q) with hNdef
  by_cases hN0 : N = 0
  · have hq0 : q = 0 := by
      apply hdef
      rw [← hN, hN0, mul_zero]
    rw [hq0, smul_zero]
    refine ⟨Or.inl rfl, ?_⟩
    rw [crefl_zero]
    have : u = q - (σ * ν) • E' := by rw [hq]; abel
    rw [this, hq0, zero_sub, neg_smul]
  · constructor
    · right
      rw [E.smul_left, E.smul_right, ← hN, star_div₀, star_one, hNr]
      field_simp
    · rw [creflL_apply, E.smul_left, hqu, star_div₀, star_one, hNr, smul_smul]
      have hcoef : 1 / N * (ν * ν + star σ * ν * c) * (-2) * (1 / N) = -1 := by
        have : N * N = 2 * (ν * ν + star σ * ν * c) := by rw [hN, hqq]
        field_simp
        linear_combination this
      rw [hcoef, hq]
      module

end PyamgV.ExtCG
