import PyamgV.Proofs.ExtC12BalSpec

/-! PyamgV (C12, extension E34): the first balanced Bellman–Ford pass of every rebalance round of
`balanced_lloyd_cluster` starts from the re-initialised state `BalLloyd.reinit` (`p[c] = c`, `pc[c] = 1`).
That state satisfies the invariant `Bal.Inv` of `Proofs/ExtC18Bal.lean`, so `Bal.kernel_spec` applies: the
pass delivers shortest distances, nearest-centre labels and in-cluster predecessor chains (`Bal.Final`)
with respect to the centres the round starts from; if every node can be reached from a centre, every node
is assigned (the `disconnected` check does not fire in that pass).  With `maxiter = 1` this pass is the one
whose cluster ids are returned.  Later passes of a round start from the state `center_nodes` leaves (new
centres, Floyd–Warshall distances): for them only the bookkeeping invariant `KInv` is proved. -/
namespace PyamgV.BalLloyd
open PyamgV.Bal PyamgV.BF

theorem fold_wr_val (f : Nat → Int) : ∀ (cs : List Nat) (p0 : Array Int) (j : Nat),
    rdI (cs.foldl (fun p c => wrI p c (f c)) p0) j = if j ∈ cs ∧ j < p0.size then f j else rdI p0 j := by
  intro cs
  induction cs with
  | nil => intro p0 j; simp
  | cons c cs ih =>
    intro p0 j
    rw [List.foldl_cons, ih, size_wrI, rdI_wrI]
    by_cases h1 : j ∈ cs ∧ j < p0.size
    · rw [if_pos h1, if_pos ⟨List.mem_cons_of_mem _ h1.1, h1.2⟩]
    · rw [if_neg h1]
      by_cases h2 : c = j ∧ c < p0.size
      · rw [if_pos h2, if_pos ⟨by rw [h2.1]; exact List.mem_cons_self, h2.1 ▸ h2.2⟩, h2.1]
      · rw [if_neg h2, if_neg]
        rintro ⟨h3, h4⟩
        rcases List.mem_cons.1 h3 with h5 | h5
        · exact h2 ⟨h5.symm, h5 ▸ h4⟩
        · exact h1 ⟨h5, h4⟩

theorem reinit_inv (n : Nat) (E : List Edge) (h : Rat) (cs : List Nat) (hcs : ∀ c ∈ cs, c < n) :
    Inv n E (fun c => c ∈ cs) (fun c => rdI (initM n cs) c) h (reinit n cs) := by
  have hsome : ∀ j x, rdO (initD n cs) j = some x → j ∈ cs ∧ x = 0 := by
    intro j x hx
    rw [initD_val] at hx
    split at hx
    · rename_i hj; injection hx with hx; exact ⟨hj.1, hx.symm⟩
    · cases hx
  have hP : ∀ j, j < n → rdI (initP n cs) j = if j ∈ cs then (j : Int) else -1 := by
    intro j hj
    unfold initP
    rw [fold_wr_val (fun c => Int.ofNat c)]
    simp only [Array.size_replicate]
    by_cases hm : j ∈ cs
    · rw [if_pos ⟨hm, hj⟩, if_pos hm]; rfl
    · rw [if_neg (fun hh => hm hh.1), if_neg hm, rdI_replicate n (-1) j hj]
  refine ⟨?_, ?_, ?_, ?_, ?_, ?_, ?_, ?_, ?_, ?_⟩
  · show (initD n cs).size = n
    unfold initD
    rw [(initD_fold cs _ 0).1]; simp
  · show (initM n cs).size = n
    unfold initM
    rw [(initM_fold cs.zipIdx _ 0).1]; simp
  · show (initP n cs).size = n
    unfold initP
    rw [fold_wr_size cs (fun c => Int.ofNat c)]; simp
  · show (initPc n cs).size = n
    unfold initPc
    rw [fold_wr_size cs (fun _ => 1)]; simp
  · intro j x hx
    obtain ⟨_, hx0⟩ := hsome j x hx
    exact ⟨0, by rw [hx0]; simp⟩
  · intro j x hx
    obtain ⟨hj, hx0⟩ := hsome j x hx
    exact ⟨j, hj, by rw [hx0]; exact Walk.refl j, rfl⟩
  · intro c hc
    refine ⟨hcs c hc, ?_, rfl, Or.inr ?_⟩
    · show rdO (initD n cs) c = some 0
      rw [initD_val, if_pos ⟨hc, hcs c hc⟩]
    · show rdI (initP n cs) c = (c : Int)
      rw [hP c (hcs c hc), if_pos hc]
  · intro j hj hx
    have hx' : rdO (initD n cs) j = none := hx
    rw [initD_val] at hx'
    have hjc : j ∉ cs := by
      intro hjc
      rw [if_pos ⟨hjc, hj⟩] at hx'
      cases hx'
    refine ⟨?_, ?_⟩
    · show rdI (initM n cs) j < 0
      have := (initM_fold cs.zipIdx (Array.replicate n (-1)) j).2.2 (by rw [List.zipIdx_map_fst]; exact hjc)
      unfold initM
      rw [this, rdI_replicate n (-1) j hj]
      omega
    · show rdI (initP n cs) j = -1
      rw [hP j hj, if_neg hjc]
  · intro j x _ hx hc
    exact absurd (hsome j x hx).1 hc
  · intro v hv
    show rdI (initPc n cs) v = cnt n (initP n cs) v
    have hpc : rdI (initPc n cs) v = if v ∈ cs then 1 else 0 := by
      unfold initPc
      rw [fold_wr_val (fun _ => 1)]
      simp only [Array.size_replicate]
      by_cases hm : v ∈ cs
      · rw [if_pos ⟨hm, hv⟩, if_pos hm]
      · rw [if_neg (fun hh => hm hh.1), if_neg hm, rdI_replicate n 0 v hv]
    rw [hpc]
    unfold cnt
    by_cases hm : v ∈ cs
    · rw [if_pos hm, Finset.sum_eq_single v]
      · rw [hP v hv, if_pos hm, if_pos rfl]
      · intro j hj hne
        rw [hP j (Finset.mem_range.1 hj), if_neg]
        split <;> omega
      · intro hn
        exact absurd (Finset.mem_range.2 hv) hn
    · rw [if_neg hm]
      symm
      apply Finset.sum_eq_zero
      intro j hj
      rw [hP j (Finset.mem_range.1 hj), if_neg]
      split
      · rename_i hjc
        intro he
        have : j = v := by omega
        exact hm (this ▸ hjc)
      · omega

/-- **the first pass of every rebalance round** (weights on a grid `h·ℕ` coarser than the tolerance): the
balanced Bellman–Ford pass that starts from the re-initialised state computes shortest distances and
nearest-centre labels with in-cluster shortest-path predecessors, for the centres the round starts from -/
theorem first_pass_final {h tol : Rat} (h0 : 0 < tol) (h1 : 2 * tol < h) (A : Csr) (tb : Bool)
    (hW : ∀ e ∈ A.entries, ∃ k : Nat, e.2.2 = (k : Rat) * h) {n k : Nat} {c : Array Nat} (hn : n = A.n)
    (hc : Cen n k c) {st : St} {ch : Bool} (hk : kernel tol tb A (reinit A.n c.toList) = .ok st ch) :
    Final A.n A.entries (fun v => v ∈ c.toList) (fun v => rdI (initM A.n c.toList) v) st := by
  subst hn
  have hcs : ∀ v ∈ c.toList, v < A.n := by
    intro v hv
    obtain ⟨i, hi, rfl⟩ := List.getElem_of_mem hv
    have hi' : i < c.size := by simpa using hi
    have := hc.lt i (by rw [← hc.sz]; exact hi')
    simpa [rdN, Array.getD_eq_getD_getElem?, hi'] using this
  refine (kernel_spec h0 h1 A tb ?_ hW _ _ ch (reinit_inv A.n A.entries h c.toList hcs) hk).1
  intro v hv
  obtain ⟨k', _, hk2⟩ := initM_label A.n c.toList v hv (hcs v hv)
  rw [hk2]; omega

/-- if every node can be reached from a centre the first pass assigns every node: the `disconnected`
`ValueError` of `balanced_lloyd_cluster` is not raised for a connected graph in that pass -/
theorem first_pass_assigned {h tol : Rat} (h0 : 0 < tol) (h1 : 2 * tol < h) (A : Csr) (tb : Bool)
    (hW : ∀ e ∈ A.entries, ∃ k : Nat, e.2.2 = (k : Rat) * h) {k : Nat} {c : Array Nat}
    (hc : Cen A.n k c) {st : St} {ch : Bool} (hk : kernel tol tb A (reinit A.n c.toList) = .ok st ch)
    (hreach : ∀ j, j < A.n → ∃ v ∈ c.toList, ∃ L, Walk A.entries v j L) :
    ∀ j, j < A.n → 0 ≤ rdI st.m j ∧ ∃ x, rdO st.d j = some x := by
  have hF := first_pass_final h0 h1 A tb hW rfl hc hk
  intro j hj
  obtain ⟨v, hv, L, hw⟩ := hreach j hj
  cases hd : rdO st.d j with
  | none => exact absurd hw (hF.unreachable j hd v L hv)
  | some x =>
    obtain ⟨v', hv', _, hm⟩ := hF.realised j x hd
    refine ⟨?_, x, rfl⟩
    rw [hm]
    have hv'n : v' < A.n := by
      obtain ⟨i, hi, rfl⟩ := List.getElem_of_mem hv'
      have hi' : i < c.size := by simpa using hi
      have := hc.lt i (by rw [← hc.sz]; exact hi')
      simpa [rdN, Array.getD_eq_getD_getElem?, hi'] using this
    obtain ⟨k', _, hk2⟩ := initM_label A.n c.toList v' hv' hv'n
    rw [hk2]; omega

end PyamgV.BalLloyd
