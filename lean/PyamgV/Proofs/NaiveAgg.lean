import PyamgV.Proofs.StdAgg1

/-! PyamgV (C12): `naive_aggregation` assigns every node to exactly one aggregate `0..k-1`,
each aggregate contains its root. Core only. -/
namespace PyamgV.Agg
open PyamgV

def fillFree (x : Array Int) (l : List Nat) (v : Int) : Array Int :=
  l.foldl (fun x j => if rd x j = 0 then wr x j v else x) x

theorem fillFree_spec (v : Int) (hv : v ≠ 0) : ∀ (l : List Nat) (x : Array Int), (∀ j ∈ l, j < x.size) →
    (fillFree x l v).size = x.size ∧
    ∀ k, rd (fillFree x l v) k = if k ∈ l ∧ rd x k = 0 then v else rd x k := by
  intro l; induction l with
  | nil => intro x _; simp [fillFree]
  | cons j js ih =>
    intro x hb
    have hj : j < x.size := hb j (by simp)
    simp only [fillFree, List.foldl_cons]
    by_cases hx : rd x j = 0
    · rw [if_pos hx]
      have := ih (wr x j v) (by intro k hk; simpa using hb k (by simp [hk]))
      rw [show fillFree (wr x j v) js v = List.foldl _ (wr x j v) js from rfl] at this
      refine ⟨by simpa using this.1, ?_⟩
      intro k; rw [this.2 k, rd_wr]
      by_cases hkj : j = k
      · subst hkj; simp [hj, hx, hv]
      · have : k ≠ j := fun e => hkj e.symm
        simp [hkj, this]
    · rw [if_neg hx]
      have := ih x (by intro k hk; exact hb k (by simp [hk]))
      rw [show fillFree x js v = List.foldl _ x js from rfl] at this
      refine ⟨this.1, ?_⟩
      intro k; rw [this.2 k]
      by_cases hkj : k = j
      · subst hkj; simp [hx]
      · simp [hkj]

def naiveStep (G : Graph) (s : St) (i : Nat) : St :=
  if rd s.x i ≠ 0 then s else
    { x := fillFree (wr s.x i s.next) (G.adj i) s.next,
      y := wr s.y (s.next - 1).toNat (i : Int), next := s.next + 1 }

def naive (G : Graph) : St :=
  (List.range G.n).foldl (naiveStep G) ⟨Array.replicate G.n 0, Array.replicate G.n (-7), 1⟩

structure N1 (G : Graph) (t : Nat) (s : St) : Prop where
  xsize : s.x.size = G.n
  ysize : s.y.size = G.n
  next1 : 1 ≤ s.next
  nextt : s.next - 1 ≤ t
  vals : ∀ i, i < G.n → rd s.x i = 0 ∨ (1 ≤ rd s.x i ∧ rd s.x i < s.next)
  done : ∀ i, i < t → i < G.n → rd s.x i ≠ 0
  root : ∀ a : Int, 1 ≤ a → a < s.next →
          0 ≤ rd s.y (a - 1).toNat ∧ (rd s.y (a - 1).toNat).toNat < t ∧
          rd s.x (rd s.y (a - 1).toNat).toNat = a

theorem naiveStep_inv (G : Graph) (hG : GraphOK G) (t : Nat) (ht : t < G.n) (s : St)
    (h : N1 G t s) : N1 G (t+1) (naiveStep G s t) := by
  unfold naiveStep
  by_cases hx : rd s.x t ≠ 0
  · rw [if_pos hx]
    refine ⟨h.xsize, h.ysize, h.next1, by have := h.nextt; omega, h.vals, ?_, ?_⟩
    · intro i hi hin
      by_cases hit : i = t
      · subst hit; exact hx
      · exact h.done i (by omega) hin
    · intro a h1 h2; have := h.root a h1 h2; exact ⟨this.1, by omega, this.2.2⟩
  · rw [if_neg hx]
    have hx0 : rd s.x t = 0 := by simpa using hx
    have hn1 := h.next1
    have hts : t < s.x.size := by rw [h.xsize]; exact ht
    have hb : ∀ j ∈ G.adj t, j < (wr s.x t s.next).size := by
      intro j hj; simp [h.xsize]; exact hG.bound t ht j hj
    obtain ⟨fsz, fsp⟩ := fillFree_spec s.next (by omega) (G.adj t) (wr s.x t s.next) hb
    have hnew : ∀ k, rd (fillFree (wr s.x t s.next) (G.adj t) s.next) k =
        if k = t then s.next else if k ∈ G.adj t ∧ rd s.x k = 0 then s.next else rd s.x k := by
      intro k; rw [fsp k, rd_wr]
      by_cases hkt : t = k
      · subst hkt; simp [hts]
      · have : k ≠ t := fun e => hkt e.symm
        simp [hkt, this]
    have hidx : (s.next - 1).toNat < s.y.size := by rw [h.ysize]; have := h.nextt; omega
    have hnewy : ∀ k, rd (wr s.y (s.next - 1).toNat (t : Int)) k =
        if k = (s.next - 1).toNat then (t : Int) else rd s.y k := by
      intro k; rw [rd_wr]
      by_cases hk : (s.next - 1).toNat = k
      · subst hk; rw [if_pos ⟨rfl, hidx⟩, if_pos rfl]
      · have : k ≠ (s.next - 1).toNat := fun e => hk e.symm
        rw [if_neg (fun hh => hk hh.1), if_neg this]
    refine ⟨by simp [fsz, h.xsize], by simp [h.ysize], by show 1 ≤ s.next + 1; omega,
      by show s.next + 1 - 1 ≤ ((t+1 : Nat) : Int); have := h.nextt; omega, ?_, ?_, ?_⟩
    · intro i hi
      show rd (fillFree (wr s.x t s.next) (G.adj t) s.next) i = 0 ∨ _
      rw [hnew]; split
      · right; exact ⟨hn1, by show s.next < s.next + 1; omega⟩
      · split
        · right; exact ⟨hn1, by show s.next < s.next + 1; omega⟩
        · rcases h.vals i hi with h0 | h0
          · exact Or.inl h0
          · right; exact ⟨h0.1, by show rd s.x i < s.next + 1; omega⟩
    · intro i hi hin
      show rd (fillFree (wr s.x t s.next) (G.adj t) s.next) i ≠ 0
      rw [hnew]; split
      · omega
      · split
        · omega
        · rename_i hit _
          exact h.done i (by omega) hin
    · intro a h1 h2
      have h2' : a < s.next + 1 := h2
      show 0 ≤ rd (wr s.y (s.next - 1).toNat (t : Int)) (a - 1).toNat ∧
        (rd (wr s.y (s.next - 1).toNat (t : Int)) (a - 1).toNat).toNat < t + 1 ∧
        rd (fillFree (wr s.x t s.next) (G.adj t) s.next)
          (rd (wr s.y (s.next - 1).toNat (t : Int)) (a - 1).toNat).toNat = a
      by_cases ha : a = s.next
      · subst ha
        rw [hnewy, if_pos rfl]
        refine ⟨by omega, by simp, ?_⟩
        rw [hnew]; simp
      · have halt : a < s.next := by omega
        obtain ⟨r0, rt, rx⟩ := h.root a h1 halt
        rw [hnewy, if_neg (by omega)]
        refine ⟨r0, by omega, ?_⟩
        rw [hnew, if_neg (by omega)]
        have : ¬ ((rd s.y (a - 1).toNat).toNat ∈ G.adj t ∧ rd s.x (rd s.y (a - 1).toNat).toNat = 0) := by
          intro hh; rw [rx] at hh; omega
        rw [if_neg this]; exact rx

/-- **C12, naive aggregation**: every node is aggregated (ids `1..k` here, `0..k-1` after the
wrapper's `-1`), and every aggregate contains its root. -/
theorem naive_spec (G : Graph) (hG : GraphOK G) :
    (∀ i, i < G.n → 1 ≤ rd (naive G).x i ∧ rd (naive G).x i < (naive G).next) ∧
    (∀ a : Int, 1 ≤ a → a < (naive G).next →
        (rd (naive G).y (a - 1).toNat).toNat < G.n ∧ rd (naive G).x (rd (naive G).y (a - 1).toNat).toNat = a) := by
  have hN : N1 G G.n (naive G) := by
    unfold naive
    refine foldl_range_inv (fun k s => N1 G k s) _ G.n _ ?_ (fun k s hk hp => naiveStep_inv G hG k hk s hp)
    have hz : ∀ i, rd (Array.replicate G.n (0:Int)) i = 0 := by
      intro i; unfold rd; by_cases h : i < G.n <;> simp [Array.getD, h]
    exact ⟨by simp, by simp, by simp, by simp, fun i _ => Or.inl (hz i), fun i hi => by omega,
      fun a h1 h2 => by simp only at h2; omega⟩
  constructor
  · intro i hi
    rcases hN.vals i hi with h0 | h0
    · exact absurd h0 (hN.done i hi hi)
    · exact h0
  · intro a h1 h2
    obtain ⟨_, r1, r2⟩ := hN.root a h1 h2
    exact ⟨r1, r2⟩

#print axioms naive_spec
end PyamgV.Agg
