import PyamgV.Proofs.ExtC14Energy
import PyamgV.Proofs.C06CRat
import PyamgV.Model.ExtC14XBlock

/-! PyamgV (C14, extension E40): the common contract of the classical and the symmetric strength measures over an
arbitrary scalar type with a *modulus* `m : α → ℚ` satisfying only the axioms the proofs use (`IsModulus`: non-negative,
zero exactly at zero; `IsMulModulus`: multiplicative in addition), and the instances the driver runs: `absQ` on `ℚ`, the
squared modulus `CRat.normSq` and the parametric modulus `cmodS sq` on the Gaussian rationals for every square-root
function `sq` with `SqrtLike sq` (in particular `sqrtApprox p`). -/
namespace PyamgV.C14X
open PyamgV PyamgV.N PyamgV.C14

variable {α : Type}

/-- the axioms of a modulus that the strength models use -/
structure IsModulus (zero : α) (m : α → Rat) : Prop where
  nonneg : ∀ a, 0 ≤ m a
  eq_zero_iff : ∀ a, m a = 0 ↔ a = zero

/-- … and multiplicativity (used only by the scaling invariance of the symmetric rule) -/
structure IsMulModulus (mul : α → α → α) (zero : α) (m : α → Rat) : Prop extends IsModulus zero m where
  map_mul : ∀ a b, m (mul a b) = m a * m b

/-- what the models need from the square-root function -/
structure SqrtLike (sq : Rat → Rat) : Prop where
  nonneg : ∀ q, 0 ≤ sq q
  pos : ∀ q, 0 < q → 0 < sq q
  zero : sq 0 = 0

theorem IsModulus.pos_iff {zero : α} {m : α → Rat} (hm : IsModulus zero m) (a : α) : 0 < m a ↔ a ≠ zero := by
  constructor
  · intro h h0; rw [(hm.eq_zero_iff a).2 h0] at h; exact lt_irrefl _ h
  · intro h; exact lt_of_le_of_ne (hm.nonneg a) (fun h0 => h ((hm.eq_zero_iff a).1 h0.symm))

/-! ### instances -/

theorem absQ_isMulModulus : IsMulModulus (· * ·) (0 : Rat) absQ where
  nonneg := absQ_nonneg
  eq_zero_iff := by intro a; rw [absQ_eq_abs]; exact abs_eq_zero
  map_mul := by intro a b; simp only [absQ_eq_abs]; exact abs_mul a b

theorem normSq_nonneg (z : CRat) : 0 ≤ CRat.normSq z := by
  unfold CRat.normSq; exact add_nonneg (mul_self_nonneg _) (mul_self_nonneg _)

theorem normSq_eq_zero_iff (z : CRat) : CRat.normSq z = 0 ↔ z = 0 := by
  unfold CRat.normSq
  constructor
  · intro h
    have h1 : z.re * z.re = 0 := by
      have := mul_self_nonneg z.re; have := mul_self_nonneg z.im; linarith
    have h2 : z.im * z.im = 0 := by
      have := mul_self_nonneg z.re; have := mul_self_nonneg z.im; linarith
    exact CRat.ext' (by simpa using mul_self_eq_zero.1 h1) (by simpa using mul_self_eq_zero.1 h2)
  · intro h; rw [h]; simp

/-- the squared modulus of the Gaussian rationals is a multiplicative modulus -/
theorem normSq_isMulModulus : IsMulModulus (· * ·) (0 : CRat) CRat.normSq where
  nonneg := normSq_nonneg
  eq_zero_iff := normSq_eq_zero_iff
  map_mul := by intro a b; unfold CRat.normSq; simp only [CRat.mul_re, CRat.mul_im]; ring

/-- the modulus the driver uses for complex data, for every admissible square root -/
theorem cmodS_isModulus (sq : Rat → Rat) (hs : SqrtLike sq) : IsModulus (0 : CRat) (cmodS sq) where
  nonneg := fun z => hs.nonneg _
  eq_zero_iff := by
    intro z
    unfold cmodS
    constructor
    · intro h
      rcases lt_or_eq_of_le (normSq_nonneg z) with h1 | h1
      · exact absurd h (ne_of_gt (hs.pos _ h1))
      · exact (normSq_eq_zero_iff z).1 h1.symm
    · intro h; rw [(normSq_eq_zero_iff z).2 h]; exact hs.zero

/-- with an exact square root the modulus squares to the squared modulus (the relation between `mynorm` and `mynormsq`) -/
theorem cmodS_sq_exact (sq : Rat → Rat) (hex : ∀ q, 0 ≤ q → sq q * sq q = q) (z : CRat) :
    cmodS sq z * cmodS sq z = CRat.normSq z := hex _ (normSq_nonneg z)

/-- the square root the driver plugs in is admissible -/
theorem sqrtApprox_sqrtLike (p : Nat) : SqrtLike (sqrtApprox p) where
  nonneg := by
    intro q
    unfold sqrtApprox
    split
    · exact le_refl _
    · exact div_nonneg (Nat.cast_nonneg _) (Nat.cast_nonneg _)
  pos := by
    intro q hq
    unfold sqrtApprox
    rw [if_neg (not_le.2 hq)]
    have hnum : 0 < q.num.toNat := by
      have : 0 < q.num := Rat.num_pos.2 hq
      omega
    have hN : 0 < q.num.toNat * q.den * 4 ^ p := Nat.mul_pos (Nat.mul_pos hnum q.den_pos) (Nat.pow_pos (by norm_num))
    have hs : 0 < (q.num.toNat * q.den * 4 ^ p).sqrt := Nat.sqrt_pos.2 hN
    have hD : 0 < q.den * 2 ^ p := Nat.mul_pos q.den_pos (Nat.pow_pos (by norm_num))
    exact div_pos (Nat.cast_pos.2 hs) (Nat.cast_pos.2 hD)
  zero := by unfold sqrtApprox; simp

/-! ### classical measure over a modulus -/

/-- **contract and rule of `classical_strength_of_connection` (CSR, `norm='abs'`) over any modulus**: the stored columns of
row `i` of the result are a sub-list of the stored columns of row `i` of `A`; column `j` is stored iff `A` stores a non-zero
`a_ij` that is the diagonal or has `|a_ij| ≥ θ · max(tiny, max_{k≠i} |a_ik|)`; a stored non-zero diagonal is kept; and
if no modulus is subnormal the entries lie in `(0,1]` and every non-empty row attains `1` -/
theorem modClassical_contract (zero : α) (m : α → Rat) (hm : IsModulus zero m) (tiny θ : Rat) (ht : 0 < tiny)
    (rows : List (RowOf α)) (i : Nat) (hi : i < rows.length) :
    ∃ out, (pubClassical m m tiny tiny θ rows)[i]? = some out ∧
      (out.map Prod.fst).Sublist ((rows.getD i []).map Prod.fst) ∧
      (∀ j, j ∈ out.map Prod.fst ↔ ∃ cv ∈ rows.getD i [], cv.1 = j ∧ cv.2 ≠ zero ∧
          (j = i ∨ m cv.2 ≥ θ * maxOff m tiny i (rows.getD i []))) ∧
      (∀ v, (i, v) ∈ rows.getD i [] → v ≠ zero → i ∈ out.map Prod.fst) ∧
      ((∀ cv ∈ rows.getD i [], cv.2 = zero ∨ tiny ≤ m cv.2) →
        (∀ cv ∈ out, 0 < cv.2 ∧ cv.2 ≤ 1) ∧ (out ≠ [] → ∃ cv ∈ out, cv.2 = 1)) := by
  have hrow : rows.getD i [] = rows[i] := by simp [List.getD_eq_getElem?_getD, hi]
  refine ⟨pubClassicalRow m m tiny tiny θ i rows[i], ?_, ?_, ?_, ?_, ?_⟩
  · rw [pubClassical_row, List.getElem?_eq_getElem hi]; rfl
  · rw [hrow]; exact pubClassicalRow_cols_sublist m m tiny tiny θ i _
  · intro j
    rw [hrow, pubClassicalRow_col_iff m m tiny tiny θ ht i _ j]
    constructor
    · rintro ⟨cv, h1, h2, h3, h4⟩
      exact ⟨cv, h1, h2, fun h => h3 ((hm.eq_zero_iff _).2 h), h4⟩
    · rintro ⟨cv, h1, h2, h3, h4⟩
      exact ⟨cv, h1, h2, fun h => h3 ((hm.eq_zero_iff _).1 h), h4⟩
  · intro v hv hne
    rw [hrow] at hv
    exact pubClassicalRow_diag m m tiny tiny θ ht i _ v hv (fun h => hne ((hm.eq_zero_iff _).1 h))
  · intro hsub
    rw [hrow] at hsub
    exact pubClassicalRow_contract m m hm.nonneg tiny tiny θ ht i _
      (fun cv hcv => (hsub cv hcv).imp (fun h => (hm.eq_zero_iff _).2 h) id)

/-! ### symmetric measure over a modulus -/

/-- **contract and rule of `symmetric_strength_of_connection` (CSR) over any modulus**: `d j` is the modulus of the summed
stored diagonal of row `j`; column `j` is stored in row `i` of the result iff `A` stores an entry `(i,j)` that is the
diagonal or has `nsq a_ij ≥ θ² · d i · d j`; entries lie in `[0,1]`; a row with a kept entry of normal modulus attains `1` -/
theorem modSymmetric_contract (zero : α) (m nsq : α → Rat) (add : α → α → α) (hm : IsModulus zero m) (tiny θ : Rat)
    (ht : 0 < tiny) (rows : List (RowOf α)) (i : Nat) (hi : i < rows.length) :
    let d : Nat → Rat := fun j => ((rows[j]?).map (diagNorm m add zero j)).getD 0
    ∃ out, (pubSymmetric m nsq add zero tiny θ rows)[i]? = some out ∧
      out.map Prod.fst = ((rows.getD i []).filter
        (fun cv => decide (i = cv.1 ∨ nsq cv.2 ≥ θ * θ * d i * d cv.1))).map Prod.fst ∧
      (∀ j, j ∈ out.map Prod.fst ↔ ∃ cv ∈ rows.getD i [], cv.1 = j ∧ (i = j ∨ nsq cv.2 ≥ θ * θ * d i * d j)) ∧
      (∀ v, (i, v) ∈ rows.getD i [] → i ∈ out.map Prod.fst) ∧
      (∀ cv ∈ out, 0 ≤ cv.2 ∧ cv.2 ≤ 1) ∧
      ((∃ c ∈ rows.getD i [], (i = c.1 ∨ nsq c.2 ≥ θ * θ * d i * d c.1) ∧ tiny ≤ m c.2) → ∃ cv ∈ out, cv.2 = 1) := by
  intro d
  have hrow : rows.getD i [] = rows[i] := by simp [List.getD_eq_getElem?_getD, hi]
  have ht3 := tail_contract m hm.nonneg tiny ht (symRow nsq θ d i rows[i])
  refine ⟨scaleRow tiny (absRow m (symRow nsq θ d i rows[i])), ?_, ?_, ?_, ?_, ht3.2.1, ?_⟩
  · rw [pubSymmetric_row, List.getElem?_eq_getElem hi]; rfl
  · rw [ht3.1, hrow, symRow_eq_filter]
  · intro j
    rw [hrow]
    exact pubSymmetricRow_col_iff m nsq tiny θ d i rows[i] j
  · intro v hv
    rw [hrow] at hv
    exact (pubSymmetricRow_col_iff m nsq tiny θ d i rows[i] i).2 ⟨(i, v), hv, rfl, Or.inl rfl⟩
  · rintro ⟨c, hc, hk, hct⟩
    rw [hrow] at hc
    exact ht3.2.2 ⟨c, (sym_rule nsq θ d i rows[i] c).2 ⟨hc, hk⟩, hct⟩

/-- **the symmetric rule is invariant under a symmetric diagonal scaling `A ↦ D A D`** with non-zero `d_i`, `d_j`, for a
multiplicative modulus `m` and `nsq = m²`: `|d_i a_ij d_j|² ≥ θ² |d_i a_ii d_i| |d_j a_jj d_j|  ↔  |a_ij|² ≥ θ² |a_ii| |a_jj|` -/
theorem sym_rule_scaling_invariant (mul : α → α → α) (zero : α) (m nsq : α → Rat) (hm : IsMulModulus mul zero m)
    (hsq : ∀ a, nsq a = m a * m a) (θ : Rat) (di dj a aii ajj : α) (hi : di ≠ zero) (hj : dj ≠ zero) :
    nsq (mul (mul di a) dj) ≥ θ * θ * m (mul (mul di aii) di) * m (mul (mul dj ajj) dj) ↔
      nsq a ≥ θ * θ * m aii * m ajj := by
  have hx : 0 < m di := (hm.toIsModulus.pos_iff di).2 hi
  have hy : 0 < m dj := (hm.toIsModulus.pos_iff dj).2 hj
  simp only [hsq, hm.map_mul, ge_iff_le]
  have hp : 0 < m di * m di * (m dj * m dj) := mul_pos (mul_pos hx hx) (mul_pos hy hy)
  have e1 : θ * θ * (m di * m aii * m di) * (m dj * m ajj * m dj) =
      m di * m di * (m dj * m dj) * (θ * θ * m aii * m ajj) := by ring
  have e2 : m di * m a * m dj * (m di * m a * m dj) = m di * m di * (m dj * m dj) * (m a * m a) := by ring
  rw [e1, e2]
  exact mul_le_mul_iff_of_pos_left hp

/-! ### the complex instances the driver runs (ops `ext_c14x_cclassical`, `ext_c14x_csym`) -/

theorem cclassical_contract (sq : Rat → Rat) (hs : SqrtLike sq) (tiny θ : Rat) (ht : 0 < tiny)
    (rows : List (RowOf CRat)) (i : Nat) (hi : i < rows.length) :
    ∃ out, (cclassical sq tiny θ rows)[i]? = some out ∧
      (out.map Prod.fst).Sublist ((rows.getD i []).map Prod.fst) ∧
      (∀ j, j ∈ out.map Prod.fst ↔ ∃ cv ∈ rows.getD i [], cv.1 = j ∧ cv.2 ≠ 0 ∧
          (j = i ∨ cmodS sq cv.2 ≥ θ * maxOff (cmodS sq) tiny i (rows.getD i []))) ∧
      (∀ v, (i, v) ∈ rows.getD i [] → v ≠ 0 → i ∈ out.map Prod.fst) ∧
      ((∀ cv ∈ rows.getD i [], cv.2 = 0 ∨ tiny ≤ cmodS sq cv.2) →
        (∀ cv ∈ out, 0 < cv.2 ∧ cv.2 ≤ 1) ∧ (out ≠ [] → ∃ cv ∈ out, cv.2 = 1)) :=
  modClassical_contract 0 (cmodS sq) (cmodS_isModulus sq hs) tiny θ ht rows i hi

theorem csymmetric_contract (sq : Rat → Rat) (hs : SqrtLike sq) (tiny θ : Rat) (ht : 0 < tiny)
    (rows : List (RowOf CRat)) (i : Nat) (hi : i < rows.length) :
    let d : Nat → Rat := fun j => ((rows[j]?).map (diagNorm (cmodS sq) cadd 0 j)).getD 0
    ∃ out, (csymmetric sq tiny θ rows)[i]? = some out ∧
      out.map Prod.fst = ((rows.getD i []).filter
        (fun cv => decide (i = cv.1 ∨ CRat.normSq cv.2 ≥ θ * θ * d i * d cv.1))).map Prod.fst ∧
      (∀ j, j ∈ out.map Prod.fst ↔
        ∃ cv ∈ rows.getD i [], cv.1 = j ∧ (i = j ∨ CRat.normSq cv.2 ≥ θ * θ * d i * d j)) ∧
      (∀ v, (i, v) ∈ rows.getD i [] → i ∈ out.map Prod.fst) ∧
      (∀ cv ∈ out, 0 ≤ cv.2 ∧ cv.2 ≤ 1) ∧
      ((∃ c ∈ rows.getD i [], (i = c.1 ∨ CRat.normSq c.2 ≥ θ * θ * d i * d c.1) ∧ tiny ≤ cmodS sq c.2) →
        ∃ cv ∈ out, cv.2 = 1) :=
  modSymmetric_contract 0 (cmodS sq) CRat.normSq cadd (cmodS_isModulus sq hs) tiny θ ht rows i hi

end PyamgV.C14X
