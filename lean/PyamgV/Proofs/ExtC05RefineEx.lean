import PyamgV.Proofs.ExtC05RefineSym
import PyamgV.Proofs.C02Example

/-! PyamgV (C05, extension E12): the hypotheses of `flag_denseM_symmetric` are jointly satisfiable on
a non-trivial instance -- the two-level hierarchy of `Proofs/C02Example.lean` (3-point Poisson matrix,
linear interpolation, `R = Pᵀ`, exact Galerkin matrix) with forward Gauss–Seidel pre-smoothing and
backward Gauss–Seidel post-smoothing, over ℚ with `ofRat = id` exactly as the driver runs it -- and
`denseM` does return a matrix there. -/
namespace PyamgV.C05Ex
open PyamgV PyamgV.C05 PyamgV.C02Ex

def pre : List Cfg := [⟨some "gauss_seidel", [("sweep", .str "forward")]⟩]
def post : List Cfg := [⟨some "gauss_seidel", [("sweep", .str "backward")]⟩]
def L5 : Lvl ℚ := ⟨A3, P3, R3, [0, 2], .gs 1 .forward 1, .gs 1 .backward 1⟩

theorem symAc : IsAdj (euc ℚ 2) (euc ℚ 2) (csrOp 2 (rowOf Ac3)) (csrOp 2 (rowOf Ac3)) := by
  intro u v
  simp only [euc_apply, Finset.sum_range_succ, Finset.sum_range_zero, csr2, rowAc0, rowAc1, rowDot]
  simp
  ring

theorem flag5 : flag pre post [L5].length = some true := by decide
theorem inst5 : Installed pre post 0 [L5] := ⟨by decide, by decide, trivial⟩
theorem shaped5 : C05.Shaped Ac3.n 3 [L5] :=
  ⟨rfl, rfl, by intro i hi; simp [L5] at hi; omega, rfl⟩
theorem ok5 : ∀ L ∈ [L5], LvlOK L := by
  intro L hL
  simp only [List.mem_singleton] at hL
  subst hL
  refine ⟨by decide, ?_⟩
  intro i hi
  have hi3 : i < 3 := hi
  show HasDiag i (rowOf A3 i) (diagFn A3 i) ∧ diagFn A3 i ≠ 0
  rcases i with _ | _ | _ | i
  · simp [HasDiag, diagFn, rowA0]
  · simp [HasDiag, diagFn, rowA1]
  · simp [HasDiag, diagFn, rowA2]
  · omega
theorem sym5 : SymH Ac3 [L5] := ⟨symA, adjPR, symAc⟩

/-- `denseM` returns a matrix on the example (evaluated by the kernel) -/
theorem denseM5_isSome : (denseM id Ac3 .V [L5]).isSome = true ∧ (denseM id Ac3 .W [L5]).isSome = true := by
  decide +kernel

/-- the instance of `flag_denseM_symmetric`: the executed V- and W-cycle matrices of the example are
symmetric -/
theorem example_denseM_symmetric (c : Cyc) (M : Mat ℚ) (h : denseM id Ac3 c [L5] = some M) :
    M.size = 3 ∧ ∀ i j, i < 3 → j < 3 → mget M i j = mget M j i :=
  flag_denseM_symmetric id (fun q => (Rat.cast_id q).symm) pre post (by decide) (by decide) Ac3 [L5]
    flag5 inst5 3 shaped5 ok5 sym5 c M h

#print axioms example_denseM_symmetric
#print axioms denseM5_isSome
end PyamgV.C05Ex
