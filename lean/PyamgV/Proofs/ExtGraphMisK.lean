import PyamgV.Proofs.ExtGraphBridge
import PyamgV.Proofs.ExtGraphBall

/-! PyamgV (C18/C13 extension): `maximal_independent_set_k_parallel` (graph.h:974) with its helper
`csr_propagate_max` — the validated CSR-array model `G.misK`.

* `propagate_spec`: after `t` rounds of `csr_propagate_max` started from `keys[i] = i`,
  `vals[i] = v0 i`, node `i` holds the key of the (value, index)-maximum of its distance-`t` ball
  together with that key's value.
* `misKIter_spec`: one outer iteration keeps the invariant `KI` (x is 0/1; `active[i]` iff no set
  member within distance `k`; set members pairwise further than `k` apart; `i_vals` = weight of
  the active, `-1` for the inactive nodes) and, when some node is active, deactivates at least one.
* `misK_total`: with `max_iters = -1`, on every symmetric graph, for every `k` and all weights
  **greater than `-1`** (`cast (-1) < y i`; the kernel marks decided nodes with the value `-1`, and
  with a weight `≤ -1` next to a decided node it never terminates), the loop ends within `n`
  iterations (fuel `n + 1`) and returns a 0/1 vector whose support is independent and maximal at
  distance `k`.  Core Lean only. -/
namespace PyamgV.Ext
open PyamgV

variable {W : Type} [LT W] [DecidableRel (α := W) (· < ·)] [DecidableEq W] [Inhabited W]

/-! ### tabulated arrays -/

theorem size_tab {α : Type} (n : Nat) (f : Nat → α) : (G.tab n f).size = n := by
  simp [G.tab]

theorem getD_tab {α : Type} (n : Nat) (f : Nat → α) (d : α) (i : Nat) (hi : i < n) :
    (G.tab n f).getD i d = f i := by
  simp [G.tab, hi]

theorem rd_tab (n : Nat) (f : Nat → Int) (i : Nat) (hi : i < n) : rd (G.tab n f) i = f i :=
  getD_tab n f 0 i hi

/-! ### csr_propagate_max -/

/-- the `(k_max, v_max)` scan started from a consistent pair returns a consistent pair that beats
the start and every scanned neighbour's pair, and is one of them -/
theorem propagateRow_fold (hW : WOrd W) (v0 : Nat → W) (keys : Array Nat) (vals : Array W) (n : Nat)
    (hkv : ∀ j, j < n → vals.getD j default = v0 (keys.getD j 0)) :
    ∀ (row : List Nat) (acc : Nat × W), (∀ j ∈ row, j < n) → acc.2 = v0 acc.1 →
    let r := row.foldl (fun (acc : Nat × W) j =>
      let kj := keys.getD j 0
      let vj := vals.getD j default
      if kj = acc.1 then acc
      else if vj < acc.2 then acc
      else if acc.2 < vj ∨ kj > acc.1 then (kj, vj)
      else acc) acc
    r.2 = v0 r.1 ∧ (r.1 = acc.1 ∨ ∃ j ∈ row, r.1 = keys.getD j 0) ∧ beats v0 r.1 acc.1 ∧
      ∀ j ∈ row, beats v0 r.1 (keys.getD j 0) := by
  intro row
  induction row with
  | nil =>
    intro acc _ hacc
    exact ⟨hacc, Or.inl rfl, beats_refl v0 _, fun j hj => by simp at hj⟩
  | cons j js ih =>
    intro acc hrow hacc
    have hjn : j < n := hrow j (by simp)
    have hrest : ∀ j' ∈ js, j' < n := fun j' h => hrow j' (by simp [h])
    simp only [List.foldl_cons]
    have hvj : vals.getD j default = v0 (keys.getD j 0) := hkv j hjn
    by_cases h1 : keys.getD j 0 = acc.1
    · rw [if_pos h1]
      obtain ⟨r1, r2, r3, r4⟩ := ih acc hrest hacc
      refine ⟨r1, ?_, r3, ?_⟩
      · rcases r2 with r2 | ⟨j', hj', r2⟩
        · exact Or.inl r2
        · exact Or.inr ⟨j', by simp [hj'], r2⟩
      · intro j' hj'
        rcases List.mem_cons.1 hj' with e | hj'
        · subst e; rw [h1]; exact r3
        · exact r4 j' hj'
    · rw [if_neg h1]
      by_cases h2 : vals.getD j default < acc.2
      · rw [if_pos h2]
        obtain ⟨r1, r2, r3, r4⟩ := ih acc hrest hacc
        refine ⟨r1, ?_, r3, ?_⟩
        · rcases r2 with r2 | ⟨j', hj', r2⟩
          · exact Or.inl r2
          · exact Or.inr ⟨j', by simp [hj'], r2⟩
        · intro j' hj'
          rcases List.mem_cons.1 hj' with e | hj'
          · subst e
            apply beats_trans hW v0 _ _ _ r3
            left; rw [← hvj, ← hacc]; exact h2
          · exact r4 j' hj'
      · rw [if_neg h2]
        by_cases h3 : acc.2 < vals.getD j default ∨ keys.getD j 0 > acc.1
        · rw [if_pos h3]
          obtain ⟨r1, r2, r3, r4⟩ := ih (keys.getD j 0, vals.getD j default) hrest hvj
          -- the new pair beats the old one
          have hb : beats v0 (keys.getD j 0) acc.1 := by
            by_cases h4 : acc.2 < vals.getD j default
            · left; rw [← hvj, ← hacc]; exact h4
            · right
              have hk : keys.getD j 0 > acc.1 := by
                rcases h3 with h3 | h3
                · exact absurd h3 h4
                · exact h3
              refine ⟨?_, by omega⟩
              rw [← hvj, ← hacc]
              rcases hW.tri acc.2 (vals.getD j default) with h | h | h
              · exact absurd h h4
              · exact h
              · exact absurd h h2
          refine ⟨r1, ?_, beats_trans hW v0 _ _ _ r3 hb, ?_⟩
          · rcases r2 with r2 | ⟨j', hj', r2⟩
            · exact Or.inr ⟨j, by simp, r2⟩
            · exact Or.inr ⟨j', by simp [hj'], r2⟩
          · intro j' hj'
            rcases List.mem_cons.1 hj' with e | hj'
            · subst e; exact r3
            · exact r4 j' hj'
        · rw [if_neg h3]
          obtain ⟨r1, r2, r3, r4⟩ := ih acc hrest hacc
          refine ⟨r1, ?_, r3, ?_⟩
          · rcases r2 with r2 | ⟨j', hj', r2⟩
            · exact Or.inl r2
            · exact Or.inr ⟨j', by simp [hj'], r2⟩
          · intro j' hj'
            rcases List.mem_cons.1 hj' with e | hj'
            · subst e
              apply beats_trans hW v0 _ _ _ r3
              right
              have h4 : ¬ acc.2 < vals.getD j' default := fun h => h3 (Or.inl h)
              have h5 : ¬ keys.getD j' 0 > acc.1 := fun h => h3 (Or.inr h)
              refine ⟨?_, by omega⟩
              rw [← hvj, ← hacc]
              rcases hW.tri acc.2 (vals.getD j' default) with h | h | h
              · exact absurd h h4
              · exact h.symm
              · exact absurd h h2
            · exact r4 j' hj'

/-- state of the propagation after `t` rounds, initial values `v0` -/
structure PI (G : Graph) (v0 : Nat → W) (t : Nat) (kv : Array Nat × Array W) : Prop where
  val : ∀ i, i < G.n → kv.2.getD i default = v0 (kv.1.getD i 0)
  mem : ∀ i, i < G.n → Ball G t i (kv.1.getD i 0)
  max : ∀ i, i < G.n → ∀ j, Ball G t i j → beats v0 (kv.1.getD i 0) j

theorem propagateMax_PI (hW : WOrd W) (Gc : G.Graph) (hG : GraphOK (pg Gc)) (v0 : Nat → W) (t : Nat)
    (kv : Array Nat × Array W) (h : PI (pg Gc) v0 t kv) :
    PI (pg Gc) v0 (t+1) (G.propagateMax Gc kv) := by
  have hrow : ∀ i, i < Gc.n →
      let r := G.propagateRow kv.1 kv.2 i (Gc.row i)
      r.2 = v0 r.1 ∧ (r.1 = kv.1.getD i 0 ∨ ∃ j ∈ Gc.row i, r.1 = kv.1.getD j 0) ∧
        beats v0 r.1 (kv.1.getD i 0) ∧ ∀ j ∈ Gc.row i, beats v0 r.1 (kv.1.getD j 0) := by
    intro i hi
    exact propagateRow_fold hW v0 kv.1 kv.2 Gc.n h.val (Gc.row i)
      (kv.1.getD i 0, kv.2.getD i default) (fun j hj => hG.bound i hi j hj) (h.val i hi)
  refine ⟨?_, ?_, ?_⟩
  · intro i hi0
    have hi : i < Gc.n := hi0
    show (G.tab Gc.n _).getD i default = v0 ((G.tab Gc.n _).getD i 0)
    rw [getD_tab _ _ _ _ hi, getD_tab _ _ _ _ hi]
    exact (hrow i hi).1
  · intro i hi0
    have hi : i < Gc.n := hi0
    show Ball (pg Gc) (t+1) i ((G.tab Gc.n _).getD i 0)
    rw [getD_tab _ _ _ _ hi]
    rcases (hrow i hi).2.1 with e | ⟨j, hj, e⟩
    · rw [e]; exact Or.inl (h.mem i hi)
    · rw [e]; exact Or.inr ⟨j, hj, h.mem j (hG.bound i hi j hj)⟩
  · intro i hi0 j hb
    have hi : i < Gc.n := hi0
    show beats v0 ((G.tab Gc.n _).getD i 0) j
    rw [getD_tab _ _ _ _ hi]
    rcases hb with hb | ⟨m, hm, hb⟩
    · exact beats_trans hW v0 _ _ _ (hrow i hi).2.2.1 (h.max i hi j hb)
    · exact beats_trans hW v0 _ _ _ ((hrow i hi).2.2.2 m hm) (h.max m (hG.bound i hi m hm) j hb)

theorem iter_PI (hW : WOrd W) (Gc : G.Graph) (hG : GraphOK (pg Gc)) (v0 : Nat → W) :
    ∀ (k t : Nat) (kv : Array Nat × Array W), PI (pg Gc) v0 t kv →
      PI (pg Gc) v0 (t + k) (G.iter (G.propagateMax Gc) k kv) := by
  intro k
  induction k with
  | zero => intro t kv h; exact h
  | succ k ih =>
    intro t kv h
    have := ih (t+1) _ (propagateMax_PI hW Gc hG v0 t kv h)
    rw [show t + (k + 1) = t + 1 + k by omega]
    exact this

/-- **`k` rounds of `csr_propagate_max`** from `keys[i] = i`, `vals[i] = v0 i` -/
theorem propagate_spec (hW : WOrd W) (Gc : G.Graph) (hG : GraphOK (pg Gc)) (v0 : Nat → W) (k : Nat)
    (vals : Array W) (hv : ∀ i, i < Gc.n → vals.getD i default = v0 i) :
    PI (pg Gc) v0 k (G.iter (G.propagateMax Gc) k (G.tab Gc.n id, vals)) := by
  have h0 : PI (pg Gc) v0 0 (G.tab Gc.n id, vals) := by
    refine ⟨?_, ?_, ?_⟩
    · intro i hi0
      have hi : i < Gc.n := hi0
      show vals.getD i default = v0 ((G.tab Gc.n id).getD i 0)
      rw [getD_tab _ _ _ _ hi]; exact hv i hi
    · intro i hi0
      have hi : i < Gc.n := hi0
      show Ball (pg Gc) 0 i ((G.tab Gc.n id).getD i 0)
      rw [getD_tab _ _ _ _ hi]; rfl
    · intro i hi0 j hb
      have hi : i < Gc.n := hi0
      show beats v0 ((G.tab Gc.n id).getD i 0) j
      rw [getD_tab _ _ _ _ hi, show j = i from hb]
      exact beats_refl v0 _
  have := iter_PI hW Gc hG v0 k 0 _ h0
  rw [Nat.zero_add] at this
  exact this


/-! ### one outer iteration -/

/-- number of active nodes -/
def nA (n : Nat) (a : Array Bool) : Nat := (List.range n).countP (fun i => a.getD i false)

/-- invariant at the top of the outer loop (`y` weights, `m1` the marker value `-1`) -/
structure KI (Gc : G.Graph) (k : Nat) (y : Nat → W) (m1 : W) (s : G.KState W) : Prop where
  x01 : ∀ i, i < Gc.n → rd s.x i = 0 ∨ rd s.x i = 1
  act : ∀ i, i < Gc.n →
    (s.active.getD i false = true ↔ ¬ ∃ j, Ball (pg Gc) k i j ∧ rd s.x j = 1)
  indep : ∀ i, i < Gc.n → ∀ j, rd s.x i = 1 → rd s.x j = 1 → j ≠ i → ¬ Ball (pg Gc) k i j
  vals : ∀ i, i < Gc.n →
    s.vals.getD i default = if s.active.getD i false = true then y i else m1

theorem misKIter_spec (hW : WOrd W) (Gc : G.Graph) (hG : GraphOK (pg Gc)) (k : Nat)
    (cast : Int → W) (y : Array W) (hzo : cast 0 < cast 1)
    (hy : ∀ i, i < Gc.n → cast (-1) < look y i)
    (s : G.KState W) (h : KI Gc k (look y) (cast (-1)) s)
    (kv : Array Nat × Array W) (hkv : kv = G.iter (G.propagateMax Gc) k (G.tab Gc.n id, s.vals))
    (x' : Array Int)
    (hx' : x' = G.tab Gc.n (fun i =>
      if kv.1.getD i 0 = i ∧ s.active.getD i false = true then 1 else G.rdI s.x i))
    (kv2 : Array Nat × Array W)
    (hkv2 : kv2 = G.iter (G.propagateMax Gc) k (G.tab Gc.n id, G.tab Gc.n (fun i => cast (G.rdI x' i))))
    (r : G.KState W × Bool) (hr : r = G.misKIter Gc k cast y s) :
    r.1.x = x' ∧ KI Gc k (look y) (cast (-1)) r.1 ∧
    (r.2 = true ↔ ∃ i, i < Gc.n ∧ r.1.active.getD i false = true) ∧
    (∀ i, i < Gc.n → r.1.active.getD i false = true → s.active.getD i false = true) ∧
    ((∃ i, i < Gc.n ∧ s.active.getD i false = true) →
      ∃ m, m < Gc.n ∧ s.active.getD m false = true ∧ r.1.active.getD m false = false) := by
  have hr' : r = (⟨x',
      G.tab Gc.n (fun i => if decide (kv2.2.getD i default = cast 1) then false
        else s.active.getD i false),
      G.tab Gc.n (fun i => if decide (kv2.2.getD i default = cast 1) then cast (-1)
        else y.getD i default)⟩,
      (List.range Gc.n).any (fun i => !decide (kv2.2.getD i default = cast 1))) := by
    rw [hr, hkv2, hx', hkv]; rfl
  have hne : cast 0 ≠ cast 1 := fun e => hW.irr _ (e ▸ hzo)
  -- phase 1: keys of the local maxima
  have hP1 := propagate_spec hW Gc hG
    (fun i => if s.active.getD i false = true then look y i else cast (-1)) k s.vals h.vals
  rw [← hkv] at hP1
  have hx : ∀ i, i < Gc.n → rd x' i =
      if kv.1.getD i 0 = i ∧ s.active.getD i false = true then 1 else rd s.x i := by
    intro i hi; rw [hx']; exact rd_tab _ _ i hi
  have hx01 : ∀ i, i < Gc.n → rd x' i = 0 ∨ rd x' i = 1 := by
    intro i hi; rw [hx i hi]
    by_cases hc : kv.1.getD i 0 = i ∧ s.active.getD i false = true
    · rw [if_pos hc]; exact Or.inr rfl
    · rw [if_neg hc]; exact h.x01 i hi
  have hmono : ∀ i, i < Gc.n → rd s.x i = 1 → rd x' i = 1 := by
    intro i hi h1; rw [hx i hi]
    by_cases hc : kv.1.getD i 0 = i ∧ s.active.getD i false = true
    · rw [if_pos hc]
    · rw [if_neg hc]; exact h1
  -- phase 2: is a set member within distance k?
  have hP2 := propagate_spec hW Gc hG (fun i => cast (rd x' i)) k
    (G.tab Gc.n (fun i => cast (G.rdI x' i))) (fun i hi => getD_tab _ _ _ i hi)
  rw [← hkv2] at hP2
  have hhit : ∀ i, i < Gc.n →
      (kv2.2.getD i default = cast 1 ↔ ∃ j, Ball (pg Gc) k i j ∧ rd x' j = 1) := by
    intro i hi
    have hkn : kv2.1.getD i 0 < Gc.n := ball_lt hG k i _ hi (hP2.mem i hi)
    constructor
    · intro he
      refine ⟨kv2.1.getD i 0, hP2.mem i hi, ?_⟩
      rw [hP2.val i hi] at he
      rcases hx01 _ hkn with h0 | h1
      · rw [h0] at he; exact absurd he hne
      · exact h1
    · rintro ⟨j, hb, hj⟩
      rw [hP2.val i hi]
      rcases hx01 _ hkn with h0 | h1
      · -- the maximum cannot carry the value 0 when a 1 is in the ball
        have hb' := hP2.max i hi j hb
        unfold beats at hb'
        simp only [hj, h0] at hb'
        rcases hb' with hb' | ⟨hb', _⟩
        · exact absurd hzo (hW.asym _ _ hb')
        · exact absurd hb'.symm hne
      · rw [h1]
  -- the new state
  have hra : ∀ i, i < Gc.n → r.1.active.getD i false =
      if decide (kv2.2.getD i default = cast 1) then false else s.active.getD i false := by
    intro i hi; rw [hr']; exact getD_tab _ _ _ i hi
  have hrv : ∀ i, i < Gc.n → r.1.vals.getD i default =
      if decide (kv2.2.getD i default = cast 1) then cast (-1) else y.getD i default := by
    intro i hi; rw [hr']; exact getD_tab _ _ _ i hi
  have hrx : r.1.x = x' := by rw [hr']
  have hact' : ∀ i, i < Gc.n →
      (r.1.active.getD i false = true ↔ ¬ ∃ j, Ball (pg Gc) k i j ∧ rd x' j = 1) := by
    intro i hi
    rw [hra i hi, ← hhit i hi]
    by_cases hc : kv2.2.getD i default = cast 1
    · simp [hc]
    · simp only [hc, decide_false, Bool.false_eq_true, if_false, not_false_eq_true, iff_true]
      rw [h.act i hi]
      rintro ⟨j, hb, hj⟩
      exact hc ((hhit i hi).2 ⟨j, hb, hmono j (ball_lt hG k i j hi hb) hj⟩)
  have hsub : ∀ i, i < Gc.n → r.1.active.getD i false = true → s.active.getD i false = true := by
    intro i hi
    rw [hra i hi]
    by_cases hc : kv2.2.getD i default = cast 1
    · rw [decide_eq_true hc]; simp
    · rw [decide_eq_false hc]; simp
  refine ⟨hrx, ⟨?_, ?_, ?_, ?_⟩, ?_, hsub, ?_⟩
  · rw [hrx]; exact hx01
  · rw [hrx]; exact hact'
  · -- independence
    rw [hrx]
    intro i hi j hi1 hj1 hji hb
    have hjn : j < Gc.n := ball_lt hG k i j hi hb
    have hb' : Ball (pg Gc) k j i := ball_symm hG hi hb
    have hsel : ∀ m, m < Gc.n → rd x' m = 1 →
        rd s.x m = 1 ∨ (kv.1.getD m 0 = m ∧ s.active.getD m false = true) := by
      intro m hm hm1
      rw [hx m hm] at hm1
      by_cases hc : kv.1.getD m 0 = m ∧ s.active.getD m false = true
      · exact Or.inr hc
      · rw [if_neg hc] at hm1; exact Or.inl hm1
    rcases hsel i hi hi1 with hio | ⟨hik, hia⟩
    · rcases hsel j hjn hj1 with hjo | ⟨_, hja⟩
      · exact h.indep i hi j hio hjo hji hb
      · exact (h.act j hjn).1 hja ⟨i, hb', hio⟩
    · rcases hsel j hjn hj1 with hjo | ⟨hjk, _⟩
      · exact (h.act i hi).1 hia ⟨j, hb, hjo⟩
      · have b1 := hP1.max i hi j hb
        have b2 := hP1.max j hjn i hb'
        rw [hik] at b1
        rw [hjk] at b2
        exact hji (beats_antisymm hW _ b1 b2).symm
  · -- i_vals
    intro i hi
    rw [hrv i hi, hra i hi]
    by_cases hc : kv2.2.getD i default = cast 1
    · simp [hc]
    · have hai : s.active.getD i false = true := by
        have : r.1.active.getD i false = true := by
          rw [hact' i hi, ← hhit i hi]; exact hc
        exact hsub i hi this
      rw [decide_eq_false hc, hai]; rfl
  · -- work_left
    rw [hr']
    simp only [List.any_eq_true, List.mem_range, Bool.not_eq_true', decide_eq_false_iff_not]
    constructor
    · rintro ⟨i, hi, hc⟩
      refine ⟨i, hi, ?_⟩
      rw [getD_tab _ _ _ i hi]
      have hai : s.active.getD i false = true := by
        rw [h.act i hi]
        rintro ⟨j, hb, hj⟩
        exact hc ((hhit i hi).2 ⟨j, hb, hmono j (ball_lt hG k i j hi hb) hj⟩)
      rw [decide_eq_false hc, hai]; rfl
    · rintro ⟨i, hi, ha⟩
      refine ⟨i, hi, ?_⟩
      rw [getD_tab _ _ _ i hi] at ha
      intro hc
      simp [hc] at ha
  · -- progress: the (weight, index)-maximum of the active nodes joins the set
    rintro ⟨i0, hi0, ha0⟩
    have hne' : (List.range Gc.n).filter (fun v => s.active.getD v false) ≠ [] := by
      intro he
      have : i0 ∈ (List.range Gc.n).filter (fun v => s.active.getD v false) := by
        rw [List.mem_filter]; exact ⟨List.mem_range.2 hi0, ha0⟩
      rw [he] at this; simp at this
    obtain ⟨m, hm, hmax⟩ := exists_max hW (look y) _ hne'
    rw [List.mem_filter] at hm
    have hmn : m < Gc.n := List.mem_range.1 hm.1
    have hma : s.active.getD m false = true := hm.2
    refine ⟨m, hmn, hma, ?_⟩
    -- m keeps its own key
    have hkm : kv.1.getD m 0 = m := by
      have hkb := hP1.mem m hmn
      have hkn : kv.1.getD m 0 < Gc.n := ball_lt hG k m _ hmn hkb
      have b1 := hP1.max m hmn m (ball_self _ k m)
      apply beats_antisymm hW _ b1
      by_cases hka : s.active.getD (kv.1.getD m 0) false = true
      · have := hmax (kv.1.getD m 0) (by
          rw [List.mem_filter]; exact ⟨List.mem_range.2 hkn, hka⟩)
        unfold beats at this ⊢
        simp only [hka, hma, if_true]
        exact this
      · left
        simp only [hka, hma, if_true]
        exact hy m hmn
    have hxm : rd x' m = 1 := by rw [hx m hmn, if_pos ⟨hkm, hma⟩]
    have : ¬ r.1.active.getD m false = true := by
      rw [hact' m hmn]
      exact fun hn => hn ⟨m, ball_self _ k m, hxm⟩
    simpa using this


/-! ### the outer loop -/

/-- a 0/1 vector whose support is independent and maximal at distance `k` (MIS-k): no two distinct
members are joined by a walk of at most `k` edges; every node has a member (possibly itself)
within `k` edges -/
structure IsMISk (G : Graph) (k : Nat) (x : Array Int) : Prop where
  size : x.size = G.n
  x01 : ∀ i, i < G.n → rd x i = 0 ∨ rd x i = 1
  indep : ∀ i, i < G.n → ∀ j, rd x i = 1 → rd x j = 1 → j ≠ i → ¬ Within G k i j
  maximal : ∀ i, i < G.n → ∃ j, Within G k i j ∧ rd x j = 1

theorem misKLoop_spec (hW : WOrd W) (Gc : G.Graph) (hG : GraphOK (pg Gc)) (k : Nat)
    (cast : Int → W) (y : Array W) (hzo : cast 0 < cast 1)
    (hy : ∀ i, i < Gc.n → cast (-1) < look y i) :
    ∀ (fuel it : Nat) (s : G.KState W), KI Gc k (look y) (cast (-1)) s →
      nA Gc.n s.active < fuel →
      ∃ x, G.misKLoop Gc k cast y none fuel it s = some x ∧ IsMISk (pg Gc) k x := by
  intro fuel
  induction fuel with
  | zero => intro it s _ h; omega
  | succ f ih =>
    intro it s hKI hfuel
    obtain ⟨hrx, hKI', hwork, hsub, hprog⟩ :=
      misKIter_spec hW Gc hG k cast y hzo hy s hKI _ rfl _ rfl _ rfl _ rfl
    unfold G.misKLoop
    simp only [Bool.false_eq_true, if_false]
    by_cases hw : (G.misKIter Gc k cast y s).2 = true
    · rw [if_pos hw]
      apply ih (it + 1) _ hKI'
      obtain ⟨i, hi, hai'⟩ := hwork.1 hw
      obtain ⟨m, hm, hma, hma'⟩ := hprog ⟨i, hi, hsub i hi hai'⟩
      have : nA Gc.n (G.misKIter Gc k cast y s).1.active < nA Gc.n s.active := by
        unfold nA
        apply PyamgV.Bfs.countP_lt (v0 := m)
        · intro v hv hp
          exact hsub v (List.mem_range.1 hv) hp
        · exact List.mem_range.2 hm
        · exact hma
        · exact hma'
      omega
    · rw [if_neg hw]
      refine ⟨_, rfl, ?_, hKI'.x01, ?_, ?_⟩
      · rw [hrx]; exact size_tab _ _
      · intro i hi j hi1 hj1 hji hwi
        exact hKI'.indep i hi j hi1 hj1 hji ((ball_iff _ k i j).2 hwi)
      · intro i hi
        have hna : ¬ (G.misKIter Gc k cast y s).1.active.getD i false = true := by
          intro ha; exact hw (hwork.2 ⟨i, hi, ha⟩)
        have := (not_congr (hKI'.act i hi)).1 hna
        have hex : ∃ j, Ball (pg Gc) k i j ∧ rd (G.misKIter Gc k cast y s).1.x j = 1 :=
          Classical.byContradiction this
        obtain ⟨j, hb, hj⟩ := hex
        exact ⟨j, (ball_iff _ k i j).1 hb, hj⟩

/-- **C18/C13, `maximal_independent_set_k_parallel`** (validated model `G.misK`, `max_iters = -1`):
for every symmetric graph, every `k`, every ordered weight type and all weights greater than the
marker `-1`, at most `n` outer iterations are made (fuel `n + 1`) and the result is a distance-`k`
maximal independent set -/
theorem misK_total (hW : WOrd W) (Gc : G.Graph) (hG : GraphOK (pg Gc)) (k : Nat)
    (cast : Int → W) (y : Array W) (hzo : cast 0 < cast 1)
    (hy : ∀ i, i < Gc.n → cast (-1) < y.getD i default) :
    ∃ x, G.misK Gc k cast y none (Gc.n + 1) = some x ∧ IsMISk (pg Gc) k x := by
  unfold G.misK
  apply misKLoop_spec hW Gc hG k cast y hzo hy
  · refine ⟨?_, ?_, ?_, ?_⟩
    · intro i hi; left; exact rd_tab _ _ i hi
    · intro i hi
      show (G.tab Gc.n fun _ => true).getD i false = true ↔ _
      rw [getD_tab _ _ _ i hi]
      simp only [true_iff]
      rintro ⟨j, hb, hj⟩
      have hjn : j < Gc.n := ball_lt hG k i j hi hb
      have : rd (G.tab Gc.n fun _ => (0 : Int)) j = 0 := rd_tab _ _ j hjn
      rw [this] at hj; omega
    · intro i hi j hi1
      have : rd (G.tab Gc.n fun _ => (0 : Int)) i = 0 := rd_tab _ _ i hi
      rw [this] at hi1; omega
    · intro i hi
      show (G.tab Gc.n fun i => y.getD i default).getD i default =
        if (G.tab Gc.n fun _ => true).getD i false = true then look y i else cast (-1)
      rw [getD_tab _ _ _ i hi, getD_tab _ _ _ i hi]
      rfl
  · have : nA Gc.n (G.tab Gc.n fun _ => true) ≤ Gc.n := by
      unfold nA
      have := List.countP_le_length (p := fun i => (G.tab Gc.n fun _ => true).getD i false)
        (l := List.range Gc.n)
      simpa using this
    exact Nat.lt_succ_of_le this

/-- the instance the driver runs (`W = Int`, weights `> -1`) -/
theorem misK_total_int (Gc : G.Graph) (hG : GraphOK (pg Gc)) (k : Nat) (y : Array Int)
    (hy : ∀ i, i < Gc.n → -1 < y.getD i 0) :
    ∃ x, G.misK Gc k (fun (z : Int) => z) y none (Gc.n + 1) = some x ∧ IsMISk (pg Gc) k x :=
  misK_total ⟨fun a => by omega, fun a b => by omega, fun a b c => by omega, fun a b => by omega⟩
    Gc hG k (fun (z : Int) => z) y (by omega) hy

end PyamgV.Ext
