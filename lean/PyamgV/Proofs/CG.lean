import PyamgV.Proofs.Energy
import Mathlib.LinearAlgebra.Span.Basic
import Mathlib.Tactic.FieldSimp

/-! PyamgV: conjugate gradients — the recurrences of `pyamg/krylov/_cg.py` (M = I) produce
iterates whose error is energy-orthogonal to all previous search directions, hence optimal over
their span (C07). Exact arithmetic over an ordered field. -/
namespace PyamgV

variable {K : Type*} [Field K] [LinearOrder K] [IsStrictOrderedRing K]
variable {V : Type*} [AddCommGroup V] [Module K V]

structure CGState (K V : Type*) where
  x : V
  r : V
  p : V
  rz : K

/-- one pass of the `while True:` body of `_cg.py` (steps 3–8), unpreconditioned -/
def cgStep (A : V →ₗ[K] V) (e : EForm K V) (s : CGState K V) : CGState K V :=
  let Ap := A s.p
  let pAp := e.a Ap s.p
  let alpha := s.rz / pAp
  let x' := s.x + alpha • s.p
  let r' := s.r - alpha • Ap
  let rz' := e.a r' r'
  let beta := rz' / s.rz
  ⟨x', r', r' + beta • s.p, rz'⟩

def cgInit (A : V →ₗ[K] V) (e : EForm K V) (b x0 : V) : CGState K V :=
  let r := b - A x0
  ⟨x0, r, r, e.a r r⟩

def cgSeq (A : V →ₗ[K] V) (e : EForm K V) (b x0 : V) : Nat → CGState K V
  | 0 => cgInit A e b x0
  | k+1 => cgStep A e (cgSeq A e b x0 k)

/-- hypotheses: `A` symmetric for the Euclidean form `e`, energy form definite on directions -/
structure CGHyp (A : V →ₗ[K] V) (e : EForm K V) : Prop where
  symA : ∀ u v, e.a (A u) v = e.a u (A v)
  pd : ∀ v, e.a (A v) v = 0 → v = 0
  psd : ∀ v, 0 ≤ e.a (A v) v

section
variable (A : V →ₗ[K] V) (e : EForm K V) (b x0 : V)

local notation "S" => cgSeq A e b x0

/-- the invariant of the classical CG analysis, up to step `k` -/
structure CGInv (k : Nat) : Prop where
  res : ∀ j, j ≤ k → (S j).r = b - A (S j).x
  rzdef : ∀ j, j ≤ k → (S j).rz = e.a (S j).r (S j).r
  rp : ∀ i j, j < i → i ≤ k → e.a (S i).r (S j).p = 0
  pp : ∀ i j, j < i → i ≤ k → e.a (A (S i).p) (S j).p = 0
  rr : ∀ i j, j < i → i ≤ k → e.a (S i).r (S j).r = 0
  rpk : ∀ j, j ≤ k → e.a (S j).r (S j).p = (S j).rz

theorem cgInv_zero : CGInv A e b x0 0 := by
  refine ⟨?_, ?_, ?_, ?_, ?_, ?_⟩
  · intro j hj; have : j = 0 := by omega
    subst this; simp [cgSeq, cgInit]
  · intro j hj; have : j = 0 := by omega
    subst this; simp [cgSeq, cgInit]
  · intro i j h1 h2; omega
  · intro i j h1 h2; omega
  · intro i j h1 h2; omega
  · intro j hj; have : j = 0 := by omega
    subst this; simp [cgSeq, cgInit]


def alpha (j : Nat) : K := (S j).rz / e.a (A (S j).p) (S j).p
def beta (j : Nat) : K := (S (j+1)).rz / (S j).rz

theorem x_succ (j : Nat) : (S (j+1)).x = (S j).x + alpha A e b x0 j • (S j).p := rfl
theorem r_succ (j : Nat) : (S (j+1)).r = (S j).r - alpha A e b x0 j • A (S j).p := rfl
theorem rz_succ (j : Nat) : (S (j+1)).rz = e.a (S (j+1)).r (S (j+1)).r := rfl
theorem p_succ (j : Nat) : (S (j+1)).p = (S (j+1)).r + beta A e b x0 j • (S j).p := rfl

/-- no breakdown up to `k`: the residual has not vanished yet -/
def NoBreak (k : Nat) : Prop := ∀ j, j ≤ k → (S j).rz ≠ 0

/-- squared energy norm of a vector -/
def enA (v : V) : K := e.a (A v) v

/-- the search directions used before step `k` -/
def dirs (k : Nat) : Submodule K V :=
  Submodule.span K {v | ∃ j, j < k ∧ v = (S j).p}

variable {A e b x0}

theorem pAp_ne (hA : CGHyp A e) {k : Nat} (hI : CGInv A e b x0 k) (hnb : NoBreak A e b x0 k)
    (j : Nat) (hj : j ≤ k) : e.a (A (S j).p) (S j).p ≠ 0 := by
  intro h
  have hp : (S j).p = 0 := hA.pd _ h
  have := hI.rpk j hj
  rw [hp] at this
  simp at this
  exact hnb j hj this.symm

theorem alpha_ne (hA : CGHyp A e) {k : Nat} (hI : CGInv A e b x0 k) (hnb : NoBreak A e b x0 k)
    (j : Nat) (hj : j ≤ k) : alpha A e b x0 j ≠ 0 := by
  unfold alpha
  exact div_ne_zero (hnb j hj) (pAp_ne hA hI hnb j hj)

/-- `A p_j` expressed through consecutive residuals -/
theorem Ap_eq (hA : CGHyp A e) {k : Nat} (hI : CGInv A e b x0 k) (hnb : NoBreak A e b x0 k)
    (j : Nat) (hj : j ≤ k) :
    A (S j).p = (alpha A e b x0 j)⁻¹ • ((S j).r - (S (j+1)).r) := by
  have ha := alpha_ne hA hI hnb j hj
  rw [r_succ]
  simp only [sub_sub_cancel]
  rw [smul_smul, inv_mul_cancel₀ ha, one_smul]

theorem cgInv_succ (hA : CGHyp A e) {k : Nat} (hI : CGInv A e b x0 k) (hnb : NoBreak A e b x0 k) :
    CGInv A e b x0 (k+1) := by
  have hpAp := pAp_ne hA hI hnb k (le_refl k)
  have hrz := hnb k (le_refl k)
  -- new residual against all directions up to k
  have hrp : ∀ j, j ≤ k → e.a (S (k+1)).r (S j).p = 0 := by
    intro j hj
    rw [r_succ]
    simp only [map_sub, map_smul, LinearMap.sub_apply, LinearMap.smul_apply, smul_eq_mul]
    by_cases hjk : j = k
    · subst hjk
      rw [hI.rpk j (le_refl j)]
      unfold alpha; field_simp; ring
    · have hlt : j < k := by omega
      rw [hI.rp k j hlt (le_refl k), hI.pp k j hlt (le_refl k)]; ring
  -- residuals are combinations of directions
  have hr_as_p : ∀ j, j ≤ k → e.a (S (k+1)).r (S j).r = 0 := by
    intro j hj
    cases j with
    | zero =>
      have : (S 0).r = (S 0).p := rfl
      rw [this]; exact hrp 0 hj
    | succ m =>
      have : (S (m+1)).r = (S (m+1)).p - beta A e b x0 m • (S m).p := by
        rw [p_succ]; abel
      rw [this]
      simp only [map_sub, map_smul, smul_eq_mul]
      rw [hrp (m+1) hj, hrp m (by omega)]; ring
  refine ⟨?_, ?_, ?_, ?_, ?_, ?_⟩
  · intro j hj
    by_cases hjk : j = k+1
    · subst hjk
      rw [r_succ, x_succ, hI.res k (le_refl k)]
      simp only [map_add, map_smul]; abel
    · exact hI.res j (by omega)
  · intro j hj
    by_cases hjk : j = k+1
    · subst hjk; exact rz_succ A e b x0 k
    · exact hI.rzdef j (by omega)
  · intro i j h1 h2
    by_cases hik : i = k+1
    · subst hik; exact hrp j (by omega)
    · exact hI.rp i j h1 (by omega)
  · intro i j h1 h2
    by_cases hik : i = k+1
    · subst hik
      have hj : j ≤ k := by omega
      rw [p_succ]
      simp only [map_add, map_smul, LinearMap.add_apply, LinearMap.smul_apply, smul_eq_mul]
      rw [hA.symA (S (k+1)).r (S j).p, Ap_eq hA hI hnb j hj]
      simp only [map_smul, map_sub, smul_eq_mul]
      by_cases hjk : j = k
      · subst hjk
        rw [hr_as_p j (le_refl j), ← rz_succ]
        have ha := alpha_ne hA hI hnb j (le_refl j)
        unfold beta alpha at *
        field_simp
        ring
      · have hlt : j < k := by omega
        rw [hr_as_p j hj]
        have : e.a (S (k+1)).r (S (j+1)).r = 0 := hr_as_p (j+1) (by omega)
        rw [this, hI.pp k j hlt (le_refl k)]; ring
    · exact hI.pp i j h1 (by omega)
  · intro i j h1 h2
    by_cases hik : i = k+1
    · subst hik; exact hr_as_p j (by omega)
    · exact hI.rr i j h1 (by omega)
  · intro j hj
    by_cases hjk : j = k+1
    · subst hjk
      rw [p_succ]
      simp only [map_add, map_smul, smul_eq_mul]
      rw [hrp k (le_refl k), ← rz_succ]; ring
    · exact hI.rpk j (by omega)


theorem cgInv_all (hA : CGHyp A e) : ∀ k, NoBreak A e b x0 k → CGInv A e b x0 (k+1) := by
  intro k
  induction k with
  | zero => intro h; exact cgInv_succ hA (cgInv_zero A e b x0) h
  | succ k ih =>
    intro h
    exact cgInv_succ hA (ih (fun j hj => h j (by omega))) h

theorem x_mem (k : Nat) : (S k).x - x0 ∈ dirs A e b x0 k := by
  induction k with
  | zero => simp [cgSeq, cgInit]
  | succ k ih =>
    rw [x_succ]
    have h1 : (S k).x - x0 ∈ dirs A e b x0 (k+1) := by
      refine Submodule.span_mono ?_ ih
      rintro v ⟨j, hj, rfl⟩; exact ⟨j, by omega, rfl⟩
    have h2 : alpha A e b x0 k • (S k).p ∈ dirs A e b x0 (k+1) :=
      Submodule.smul_mem _ _ (Submodule.subset_span ⟨k, by omega, rfl⟩)
    have : (S k).x + alpha A e b x0 k • (S k).p - x0 =
        ((S k).x - x0) + alpha A e b x0 k • (S k).p := by abel
    rw [this]; exact Submodule.add_mem _ h1 h2

/-- **CG optimality** (C07): as long as the residual has not vanished, the k-th iterate minimises
the energy norm of the error over `x0 + span{p_0,…,p_{k-1}}`. -/
theorem cg_optimal (hA : CGHyp A e) (xs : V) (hxs : A xs = b) (k : Nat)
    (hnb : ∀ j, j < k → (S j).rz ≠ 0) :
    (S k).x - x0 ∈ dirs A e b x0 k ∧
    ∀ y, y - x0 ∈ dirs A e b x0 k → enA A e (xs - (S k).x) ≤ enA A e (xs - y) := by
  refine ⟨x_mem k, ?_⟩
  have hI : CGInv A e b x0 k := by
    cases k with
    | zero => exact cgInv_zero A e b x0
    | succ m => exact cgInv_all hA m (fun j hj => hnb j (by omega))
  -- the error is energy-orthogonal to every direction
  have horth : ∀ v ∈ dirs A e b x0 k, e.a (A (xs - (S k).x)) v = 0 := by
    intro v hv
    have hr : A (xs - (S k).x) = (S k).r := by
      rw [map_sub, hxs, hI.res k (le_refl k)]
    rw [hr]
    induction hv using Submodule.span_induction with
    | mem w hw => obtain ⟨j, hj, rfl⟩ := hw; exact hI.rp k j hj (le_refl k)
    | zero => simp
    | add u w _ _ hu hw => simp [hu, hw]
    | smul c u _ hu => simp [hu]
  intro y hy
  have hv : (S k).x - y ∈ dirs A e b x0 k := by
    have : (S k).x - y = ((S k).x - x0) - (y - x0) := by abel
    rw [this]; exact Submodule.sub_mem _ (x_mem k) hy
  have hsplit : xs - y = (xs - (S k).x) + ((S k).x - y) := by abel
  unfold enA
  rw [hsplit]
  simp only [map_add, LinearMap.add_apply]
  have h1 := horth _ hv
  have h2 : e.a (A ((S k).x - y)) (xs - (S k).x) = 0 := by
    rw [hA.symA, e.symm]; exact h1
  have h3 := hA.psd ((S k).x - y)
  rw [h1, h2]; linarith

#print axioms cg_optimal
end
end PyamgV
