import PyamgV.Proofs.Energy
import Mathlib.Tactic.FieldSimp

/-! PyamgV (C10): the per-aggregate modified Gram–Schmidt of `fit_candidates_common`:
orthogonal columns of norm one or zero, and exact reproduction of the candidates
(`B = Q R` up to the dropped remainders). Field with a square-root function. -/
namespace PyamgV.GS

variable {K : Type*} [Field K] [LinearOrder K] [IsStrictOrderedRing K]
variable {V : Type*} [AddCommGroup V] [Module K V]

/-- inner loop: orthogonalise `v` against the already computed columns, recording the
coefficients (`R[bi, bj]`), in order -/
def orth (e : EForm K V) : List V → V → V × List K
  | [], v => (v, [])
  | q :: qs, v =>
    let d := e.a q v
    let r := orth e qs (v - d • q)
    (r.1, d :: r.2)

/-- linear combination Σ cᵢ qᵢ -/
def comb : List K → List V → V
  | c :: cs, q :: qs => c • q + comb cs qs
  | _, _ => 0

/-- the columns are pairwise orthogonal and each has squared norm 0 or 1 -/
def ONZ (e : EForm K V) : List V → Prop
  | [] => True
  | q :: qs => (e.a q q = 0 ∨ e.a q q = 1) ∧ (∀ p ∈ qs, e.a q p = 0) ∧ ONZ e qs

theorem orth_spec (e : EForm K V) : ∀ (qs : List V) (v : V), ONZ e qs →
    (∀ q ∈ qs, e.a q q = 0 → q = 0) →
    v = comb (orth e qs v).2 qs + (orth e qs v).1 ∧
    (∀ q ∈ qs, e.a q (orth e qs v).1 = 0) ∧
    (orth e qs v).2.length = qs.length := by
  intro qs
  induction qs with
  | nil => intro v _ _; simp [orth, comb]
  | cons q qs ih =>
    intro v h hz
    obtain ⟨hq, hqp, hrest⟩ := h
    have ih' := ih (v - e.a q v • q) hrest (fun p hp => hz p (by simp [hp]))
    obtain ⟨i1, i2, i3⟩ := ih'
    simp only [orth]
    refine ⟨?_, ?_, by simp [i3]⟩
    · simp only [comb]
      have : v = e.a q v • q + (v - e.a q v • q) := by abel
      conv_lhs => rw [this, i1]
      abel
    · intro p hp
      rcases List.mem_cons.1 hp with rfl | hp
      · -- the final remainder is orthogonal to q itself
        -- remainder = (v - d q) - Σ cᵢ qᵢ , and q ⟂ qᵢ
        have hrem : (orth e qs (v - e.a p v • p)).1 =
            (v - e.a p v • p) - comb (orth e qs (v - e.a p v • p)).2 qs := by
          have := i1; rw [eq_sub_iff_add_eq, add_comm]; exact this.symm
        rw [hrem]
        have hcomb : ∀ (cs : List K) (l : List V), (∀ x ∈ l, e.a p x = 0) → e.a p (comb cs l) = 0 := by
          intro cs l
          induction l generalizing cs with
          | nil => intro _; cases cs <;> simp [comb]
          | cons x xs ihx =>
            intro hx
            cases cs with
            | nil => simp [comb]
            | cons c cs =>
              simp only [comb, map_add, map_smul, smul_eq_mul]
              rw [hx x (by simp), ihx cs (fun y hy => hx y (by simp [hy]))]; ring
        simp only [map_sub, map_smul, smul_eq_mul]
        rw [hcomb _ qs hqp]
        rcases hq with h0 | h1
        · have := hz p (by simp) h0; subst this; simp
        · rw [h1]; ring
      · exact i2 p hp

/-- one column of `fit_candidates`: returns the new column `q` and the diagonal entry of `R` -/
def newCol (e : EForm K V) (sqrt : K → K) (thr : K) (rem : V) : V × K :=
  let nrm := sqrt (e.a rem rem)
  if nrm > thr then ((1 / nrm) • rem, nrm) else (0, 0)

theorem newCol_spec (e : EForm K V) (sqrt : K → K) (hsq : ∀ a, 0 ≤ a → sqrt a * sqrt a = a)
    (thr : K) (hthr : 0 ≤ thr) (rem : V) (qs : List V) (horth : ∀ q ∈ qs, e.a q rem = 0) :
    (e.a (newCol e sqrt thr rem).1 (newCol e sqrt thr rem).1 = 0 ∨
      e.a (newCol e sqrt thr rem).1 (newCol e sqrt thr rem).1 = 1) ∧
    (∀ q ∈ qs, e.a (newCol e sqrt thr rem).1 q = 0) ∧
    ((newCol e sqrt thr rem).2 • (newCol e sqrt thr rem).1 = rem ∨
      ((newCol e sqrt thr rem).1 = 0 ∧ (newCol e sqrt thr rem).2 = 0 ∧ sqrt (e.a rem rem) ≤ thr)) := by
  by_cases hn : sqrt (e.a rem rem) > thr
  · have hc : newCol e sqrt thr rem = ((1 / sqrt (e.a rem rem)) • rem, sqrt (e.a rem rem)) := by
      unfold newCol; simp only; rw [if_pos hn]
    rw [hc]
    have hpos : 0 < sqrt (e.a rem rem) := lt_of_le_of_lt hthr hn
    have hne : sqrt (e.a rem rem) ≠ 0 := ne_of_gt hpos
    have hsq' := hsq (e.a rem rem) (e.nonneg rem)
    refine ⟨Or.inr ?_, ?_, Or.inl ?_⟩
    · simp only [map_smul, LinearMap.smul_apply, smul_eq_mul]
      generalize hs : sqrt (e.a rem rem) = t at hsq' hne
      rw [← hsq']
      field_simp
    · intro q hq
      simp only [map_smul, LinearMap.smul_apply, smul_eq_mul]
      rw [e.symm rem q, horth q hq]; ring
    · simp only [smul_smul]
      rw [mul_one_div, div_self hne, one_smul]
  · have hc : newCol e sqrt thr rem = (0, 0) := by
      unfold newCol; simp only; rw [if_neg hn]
    rw [hc]
    refine ⟨Or.inl (by simp), fun q _ => by simp, Or.inr ⟨rfl, rfl, le_of_not_gt hn⟩⟩

#print axioms orth_spec
#print axioms newCol_spec
end PyamgV.GS
