import PyamgV.Proofs.C03Thm

/-! PyamgV (C03): concrete rational hierarchies on which the operators of the cycle types differ,
so none of the C03 theorems can be satisfied by a cycle that ignores the cycle argument or
`cycles_per_level`; evaluated by the kernel (`decide +kernel`: no extra axioms). -/
namespace PyamgV.C03.Witness
open PyamgV.C03

/-- lower-triangular (Gauss–Seidel-like) smoother for the 3×3 Poisson matrix -/
def G : Mat := [[1/2,0,0],[1/4,1/2,0],[1/8,1/4,1/2]]
def L0 : Lvl := ⟨[[2,-1,0],[-1,2,-1],[0,-1,2]], [[1,0],[1/2,1/2],[0,1]], [[1,1/2,0],[0,1/2,1]], G, G⟩
def L1 : Lvl := ⟨[[2,-1/2],[-1/2,2]], [[1],[1]], [[1,1]], [[1/2,0],[0,1/2]], [[1/2,0],[0,1/2]]⟩
def L2 : Lvl := ⟨[[3]], [[1]], [[1]], [[1/4]], [[1/4]]⟩
def S3 : Mat := [[1/3]]
def S4 : Mat := [[1/4]]

theorem V_ne_W : mopM S3 .V 1 [L0, L1] ≠ mopM S3 .W 1 [L0, L1] := by decide +kernel
theorem F1_ne_F2 : mopM S3 .F 1 [L0, L1] ≠ mopM S3 .F 2 [L0, L1] := by decide +kernel
theorem F1_ne_W : mopM S4 .F 1 [L0, L1, L2] ≠ mopM S4 .W 1 [L0, L1, L2] := by decide +kernel
theorem F1_ne_V : mopM S4 .F 1 [L0, L1, L2] ≠ mopM S4 .V 1 [L0, L1, L2] := by decide +kernel
/-- on four levels `cycles_per_level` matters below the finest level as well: the operator that
forwards `cpl = 2` only on the finest level differs -/
theorem F2_deep : mopM S4 .F 2 [L0, L1, L2] ≠
    compMat L0.A (compMat L0.A L0.Qpre (matMul L0.P (matMul
      (iterMat L1.A (mopM S4 .V 1 [L1, L2]) 2 (mopM S4 .F 1 [L1, L2])) L0.R))) L0.Qpost := by
  decide +kernel

/-- a concrete run: the F(2)-cycle on four levels, result and order of visits -/
theorem run_F2 : cycT S4 .F 2 0 [L0, L1, L2] [1, 2, 3] [1, 0, -1] =
    (cycM S4 .F 2 [L0, L1, L2] [1, 2, 3] [1, 0, -1],
     [.pre 0, .pre 1, .pre 2, .coarse, .post 2, .pre 2, .coarse, .post 2, .pre 2, .coarse, .post 2, .post 1,
      .pre 1, .pre 2, .coarse, .post 2, .post 1, .pre 1, .pre 2, .coarse, .post 2, .post 1, .post 0]) := by
  decide +kernel

/-- the known finding `one-level-singular-x0-ignored` at model level: for a singular one-level "hierarchy"
(`A = 0`, pseudo-inverse `S = 0`) the step `x ← S b` is not `x + S (b − A x)` and the solution `x = 1` of
`A x = 0` is not a fixed point -- the hypothesis `S A = I` of `oneLevel_affine` cannot be dropped -/
theorem one_level_singular : stepM [[0]] .V 1 [] [0] [1] ≠ vadd [1] (matVec [[0]] (vsub [0] (matVec [[0]] [1]))) := by
  decide +kernel

theorem exact_solution_example : matVec L0.A [1, 2, 3] = [0, 0, 4] := by decide +kernel

end PyamgV.C03.Witness
