import Mathlib.LinearAlgebra.BilinearMap
import Mathlib.Algebra.Order.Field.Basic
import Mathlib.Tactic.Linarith
import Mathlib.Tactic.Ring
import Mathlib.Tactic.Abel

/-! PyamgV: energy-form theory over an arbitrary ordered field (covers ℚ, ℝ). -/
namespace PyamgV

variable {K : Type*} [Field K] [LinearOrder K] [IsStrictOrderedRing K]
variable {V W : Type*} [AddCommGroup V] [Module K V] [AddCommGroup W] [Module K W]

/-- symmetric positive semidefinite bilinear form -/
structure EForm (K V : Type*) [Field K] [LinearOrder K] [IsStrictOrderedRing K]
    [AddCommGroup V] [Module K V] where
  a : V →ₗ[K] V →ₗ[K] K
  symm : ∀ u v, a u v = a v u
  nonneg : ∀ v, 0 ≤ a v v

namespace EForm
variable (E : EForm K V)

def en (v : V) : K := E.a v v

/-- T1: exact subspace correction does not increase the energy. -/
theorem en_sub_le (e d : V) (h : E.a (e - d) d = 0) : E.en (e - d) ≤ E.en e := by
  have key : E.en e = E.en (e - d) + E.en d := by
    unfold en
    have : e = (e - d) + d := by abel
    conv_lhs => rw [this]
    simp only [map_add, LinearMap.add_apply]
    rw [h, E.symm d (e - d), h]; ring
  have := E.nonneg d
  unfold en at *; linarith

/-- T1 with damping: `‖e - ω d‖² = ‖e‖² - ω(2-ω)‖d‖²`. -/
theorem en_sub_smul (e d : V) (ω : K) (h : E.a (e - d) d = 0) :
    E.en (e - ω • d) = E.en e - ω * (2 - ω) * E.en d := by
  unfold en
  have hed : E.a e d = E.a d d := by
    have := h; simp only [map_sub, LinearMap.sub_apply] at this; linarith
  simp only [map_sub, map_smul, LinearMap.sub_apply, LinearMap.smul_apply, smul_eq_mul]
  rw [E.symm d e, hed]; ring

end EForm

/-- T4: coarse-grid correction with an inexact coarse solve, relational form.
`Ec` is the coarse energy (pullback of `E` along `P`), `w` the exact coarse solution of the
residual equation, `w'` what the coarse iteration returned. -/
theorem cgc_nonexpansive (E : EForm K V) (P : W →ₗ[K] V) (e : V) (w w' : W)
    (hw : ∀ v, E.a (P w) (P v) = E.a e (P v))
    (hc : E.en (P (w - w')) ≤ E.en (P w)) :
    E.en (e - P w') ≤ E.en e := by
  -- e - P w' = (e - P w) + P (w - w'), the two parts are energy-orthogonal
  have horth : ∀ v, E.a (e - P w) (P v) = 0 := by
    intro v; simp only [map_sub, LinearMap.sub_apply]; rw [hw v]; ring
  have h1 : E.en (e - P w') = E.en (e - P w) + E.en (P (w - w')) := by
    unfold EForm.en
    have : e - P w' = (e - P w) + P (w - w') := by simp only [map_sub]; abel
    rw [this]
    simp only [map_add, LinearMap.add_apply]
    rw [horth (w - w'), E.symm (P (w - w')) (e - P w), horth (w - w')]; ring
  have h2 : E.en e = E.en (e - P w) + E.en (P w) := by
    unfold EForm.en
    have : e = (e - P w) + P w := by abel
    conv_lhs => rw [this]
    simp only [map_add, LinearMap.add_apply]
    rw [horth w, E.symm (P w) (e - P w), horth w]; ring
  linarith

#print axioms cgc_nonexpansive
end PyamgV
