import PyamgV.Proofs.PCG
import PyamgV.Proofs.KrylovLoop

/-! PyamgV (C06 for CG): the residual the loop of `_cg.py` tests is the true residual of the
iterate it returns — `r = b − A x` is an invariant of the recurrences with no side condition at
all (whatever `alpha`, `beta` evaluate to) — so, through the generic control skeleton
`KL.solve_spec`, status `0` means the documented criterion holds for the returned `x`. -/
namespace PyamgV.PCG

variable {K : Type} [Field K] [LinearOrder K] [IsStrictOrderedRing K]
variable {V : Type} [AddCommGroup V] [Module K V]

theorem step_res (A M : V →ₗ[K] V) (e : EForm K V) (b : V) (s : St K V)
    (h : s.r = b - A s.x) : (step A M e s).r = b - A (step A M e s).x := by
  simp only [step]
  rw [h, map_add, map_smul]; abel

theorem init_res (A M : V →ₗ[K] V) (e : EForm K V) (b x0 : V) :
    (init A M e b x0).r = b - A (init A M e b x0).x := rfl

/-- CG driven by the generic skeleton: no breakdown branch is modelled here (`pAp < 0` and
`rz < 0` abort with `-1` in the code; they are the `none` of the skeleton), the criterion is any
test `crit` of the recursive residual -/
def cgSolve (A M : V →ₗ[K] V) (e : EForm K V) (b x0 : V) (crit : V → Bool) (brk : St K V → Bool)
    (maxiter : Nat) : Option (KL.Out (St K V)) :=
  KL.solve (fun s => if brk s then none else some (step A M e s)) (fun s => crit s.r) maxiter
    (init A M e b x0)

/-- invariant carried through the skeleton -/
theorem loop_res (A M : V →ₗ[K] V) (e : EForm K V) (b : V) (crit : V → Bool)
    (brk : St K V → Bool) (maxiter : Nat) :
    ∀ (fuel it : Nat) (s : St K V) (nres ncb : Nat) (o : KL.Out (St K V)),
      s.r = b - A s.x →
      KL.loop (fun s => if brk s then none else some (step A M e s)) (fun s => crit s.r) maxiter
        fuel it s nres ncb = some o → o.s.r = b - A o.s.x := by
  intro fuel
  induction fuel with
  | zero => intro it s nres ncb o _ h; simp [KL.loop] at h
  | succ fuel ih =>
    intro it s nres ncb o hs h
    simp only [KL.loop] at h
    split at h
    · cases h; exact hs
    · rename_i s' hbody
      have hs'eq : s' = step A M e s := by
        by_cases hb : brk s = true
        · simp [hb] at hbody
        · simp [hb] at hbody; exact hbody.symm
      subst hs'eq
      have hs' := step_res A M e b s hs
      split at h
      · cases h; exact hs'
      · split at h
        · cases h; exact hs'
        · exact ih _ _ _ _ o hs' h

/-- **C06 for CG**: status `0` ⇒ the criterion holds for the *true* residual of the returned
iterate; positive status = `maxiter` iterations and the criterion does not hold for it. -/
theorem cg_status_spec (A M : V →ₗ[K] V) (e : EForm K V) (b x0 : V) (crit : V → Bool)
    (brk : St K V → Bool) (maxiter : Nat) (hm : 1 ≤ maxiter) :
    ∃ o, cgSolve A M e b x0 crit brk maxiter = some o ∧
      (o.status = 0 → crit (b - A o.s.x) = true) ∧
      (0 < o.status → o.status = maxiter ∧ crit (b - A o.s.x) = false) ∧
      o.nres = o.ncb + 1 := by
  obtain ⟨o, h1, h2, h3, h4, h5, _, _⟩ := KL.solve_spec
    (fun s => if brk s then none else some (step A M e s)) (fun s => crit s.r) maxiter
    (init A M e b x0) hm
  have hres : o.s.r = b - A o.s.x := by
    unfold KL.solve at h1
    by_cases h0 : crit (init A M e b x0).r = true
    · simp only [h0, if_true] at h1
      cases h1; exact init_res A M e b x0
    · simp only [h0] at h1
      exact loop_res A M e b crit brk maxiter _ _ _ _ _ o (init_res A M e b x0) h1
  refine ⟨o, h1, ?_, ?_, h5⟩
  · intro hs; rw [← hres]; exact h3 hs
  · intro hs
    refine ⟨?_, by rw [← hres]; exact h4 hs⟩
    rcases h2 with h | h | h
    · omega
    · omega
    · exact h.1

#print axioms cg_status_spec
end PyamgV.PCG
