import PyamgV.Proofs.ExtPyFlagLevel
import PyamgV.Proofs.ExtPyLevelize
/-! PyamgV (extension E31, property C05): the GENERATED slice of `change_smoothers`
(`smoothing_change_smoothers_flag`, translated from the working tree by `harness/py2lean.py`)
computes the flag of the hand-written decision-table model `PyamgV.C05.flag`. -/
open PyamgV.ExtPy PyamgV.Generated.PyLogic
namespace PyamgV.ExtPyFlag
open PyamgV.C05 (Val Cfg)

/-! ### loops -/

theorem forIn_bind_inv {α σ β : Type} (l : List α) (f : α → σ → PyM (ForInStep σ)) (k : σ → PyM β) (r : PyM β)
    (Inv : Nat → σ → Prop) (s0 : σ) (h0 : Inv 0 s0)
    (hstep : ∀ j (hj : j < l.length) s, Inv j s → ∃ s', f l[j] s = .ok (.yield s') ∧ Inv (j + 1) s')
    (hpost : ∀ s', Inv l.length s' → k s' = r) : (forIn l s0 f >>= k) = r := by
  induction l generalizing s0 Inv with
  | nil => simpa using hpost s0 h0
  | cons x rest ih =>
    obtain ⟨s1, e1, i1⟩ := hstep 0 (by simp) s0 h0
    simp only [List.getElem_cons_zero] at e1
    rw [List.forIn_cons, e1]
    simp only [ok_bind]
    apply ih (fun j s => Inv (j + 1) s) s1 i1
    · intro j hj s hs
      have := hstep (j + 1) (by simpa using hj) s hs
      simpa using this
    · intro s' hs'
      exact hpost s' (by simpa using hs')

/-! ### arithmetic of the run-time library on natural numbers -/

theorem pyBest_min_int (a : Int) (l : List Int) :
    pyBest true (.int a) (l.map PyVal.int) = .ok (.int (l.foldl min a)) := by
  induction l generalizing a with
  | nil => rfl
  | cons b r ih =>
    simp only [List.map, pyBest, pyCmp, PyVal.num?, pure_eq_ok, ok_bind, Rat.intCast_lt_intCast, List.foldl]
    by_cases h : b < a
    · have : min a b = b := by omega
      simp [h, this, ih]
    · have : min a b = a := by omega
      by_cases h2 : b = a
      · subst h2; simp [this, ih]
      · simp [h, h2, this, ih]

theorem pyMin3 (a b c : Nat) :
    pyMin [.int a, .int b, .int c] = .ok (.int ((min (min a b) c : Nat) : Int)) := by
  have := pyBest_min_int a [b, c]
  simp only [List.map, List.foldl] at this
  simp only [pyMin, pyMinMax, pure_eq_ok, ok_bind, this]
  congr 2; omega

theorem pyMin2 (a b : Nat) : pyMin [.int a, .int b] = .ok (.int ((min a b : Nat) : Int)) := by
  have := pyBest_min_int a [b]
  simp only [List.map, List.foldl] at this
  simp only [pyMin, pyMinMax, pure_eq_ok, ok_bind, this]
  congr 2; omega

/-- `ml.levels[:-1]` -/
theorem slice_levels (lv : List PyVal) :
    pySlice (.list lv) none (some (.int (-1))) = .ok (.list (lv.take (lv.length - 1))) := by
  simp [pySlice, sliceArg, PyVal.int?, sliceBound]
  congr 1; omega

theorem pyRange_zero (b : Nat) :
    pyRange [.int 0, .int (b : Int)] = .ok ((List.range b).map (fun (k : Nat) => PyVal.int (k : Int))) := by
  rw [pyRange_two]; simp

theorem pyGetItem_list_nat (xs : List PyVal) (k : Nat) (h : k < xs.length) :
    pyGetItem (.list xs) (.int (k : Int)) = .ok xs[k] := by
  simp [pyGetItem, PyVal.int?, normIdx, h]

theorem pyRange_nat (a b : Nat) :
    pyRange [.int (a : Int), .int (b : Int)]
      = .ok ((List.range (b - a)).map (fun (k : Nat) => PyVal.int ((a : Int) + (k : Int)))) := by
  rw [pyRange_two]
  have : ((b : Int) - (a : Int)).toNat = b - a := by omega
  rw [this]

theorem ite_getitem (a : Kvs) (k : String) (d : PyVal) :
    (if (a.lookup k).isSome = true then pyGetItem (.dict a) (.str k) else Except.ok d) = .ok ((a.lookup k).getD d) := by
  cases h : a.lookup k with
  | none => simp
  | some v => simp [pyGetItem_dict a k v h]

theorem startswith_nameVal (s : String) :
    pyStartswith (nameVal (some s)) (.tuple [.str "cf_", .str "fc_"]) = .ok (startsCf (some s)) := startswith_some s

/-- evaluates one copy of the per-level test of the generated code on `fn1, kwargs1 = nameVal n1, dict a1`,
`fn2, kwargs2 = nameVal n2, dict a2` (hypotheses `h1 : scalarKw a1`, `h2 : scalarKw a2`, `hu` / `hw` : the two
sweep values are scalars) and closes `<test> = ok (yield (.., if levelOkPy n1 a1 n2 a2 then f else False))` -/
macro "level_step" n1:ident n2:ident a1:ident a2:ident h1:ident h2:ident hu:ident hw:ident : tactic => `(tactic| (
  cases $n1:ident with
  | none =>
    simp only [pyIn_dict, ite_getitem, default_niter, default_sweep, ok_bind, cf_in, pyDictGet_dict,
      PyamgV.ExtPySame.same_dict $a1 $a2 (And.left $h1) (And.left $h2), pyTruthy, krylov_in, pyNotIn, symmetric_in,
      sw_in_list _ _ $hu $hw, sw_in_tuple _ _ $hu $hw, pure_eq_ok]
    unfold levelOkPy getv sameNS
    have hsym : (none : Option String) ∈ PyamgV.C05.symmetricRelaxation := by decide
    clear $h1 $h2 $hu $hw
    simp only [hsym, decide_true, Bool.not_true, Bool.false_eq_true, if_false, not_true_eq_false, pyNe,
      pyEq_nameVal]
    obtain ⟨b1, hb⟩ : ∃ b : Bool, pyEq ((List.lookup "iterations" $a1).getD (PyVal.int 1)) ((List.lookup "iterations" $a2).getD (PyVal.int 1)) = b := ⟨_, rfl⟩
    simp only [hb]
    clear hb
    obtain ⟨b2, hb⟩ : ∃ b : Bool, pyEq ((List.lookup "f_iterations" $a1).getD (PyVal.int 1)) ((List.lookup "f_iterations" $a2).getD (PyVal.int 1)) = b := ⟨_, rfl⟩
    simp only [hb]
    clear hb
    obtain ⟨b3, hb⟩ : ∃ b : Bool, pyEq ((List.lookup "c_iterations" $a1).getD (PyVal.int 1)) ((List.lookup "c_iterations" $a2).getD (PyVal.int 1)) = b := ⟨_, rfl⟩
    simp only [hb]
    clear hb
    obtain ⟨b4, hb⟩ : ∃ b : Bool, pyEq (PyVal.dict (PyamgV.ExtPySame.noSweep $a1)) (PyVal.dict (PyamgV.ExtPySame.noSweep $a2)) = b := ⟨_, rfl⟩
    simp only [hb]
    clear hb
    obtain ⟨b5, hb⟩ : ∃ b : Bool, decide ((none, $n2) ∈ PyamgV.C05.cfPairs) = b := ⟨_, rfl⟩
    simp only [hb]
    clear hb
    obtain ⟨b6, hb⟩ : ∃ b : Bool, decide (none = $n2) = b := ⟨_, rfl⟩
    simp only [hb]
    clear hb
    obtain ⟨b7, hb⟩ : ∃ b : Bool, decide ((none : Option String) ∈ PyamgV.C05.krylovRelaxation) = b := ⟨_, rfl⟩
    simp only [hb]
    clear hb
    obtain ⟨b8, hb⟩ : ∃ b : Bool, decide ($n2 ∈ PyamgV.C05.krylovRelaxation) = b := ⟨_, rfl⟩
    simp only [hb]
    clear hb
    cases b1 <;> cases b5 <;> cases b6 <;> cases b4 <;> cases b2 <;> cases b3 <;> cases b7 <;> cases b8 <;> rfl
  | some s1 =>
    simp only [pyIn_dict, ite_getitem, default_niter, default_sweep, ok_bind, cf_in, pyDictGet_dict,
      PyamgV.ExtPySame.same_dict $a1 $a2 (And.left $h1) (And.left $h2), pyTruthy, krylov_in, pyNotIn, symmetric_in,
      sw_in_list _ _ $hu $hw, sw_in_tuple _ _ $hu $hw, pure_eq_ok, startswith_nameVal]
    unfold levelOkPy getv sameNS
    clear $h1 $h2 $hu $hw
    simp only [pyNe, pyEq_nameVal]
    obtain ⟨b1, hb⟩ : ∃ b : Bool, pyEq ((List.lookup "iterations" $a1).getD (PyVal.int 1)) ((List.lookup "iterations" $a2).getD (PyVal.int 1)) = b := ⟨_, rfl⟩
    simp only [hb]
    clear hb
    obtain ⟨b2, hb⟩ : ∃ b : Bool, pyEq ((List.lookup "f_iterations" $a1).getD (PyVal.int 1)) ((List.lookup "f_iterations" $a2).getD (PyVal.int 1)) = b := ⟨_, rfl⟩
    simp only [hb]
    clear hb
    obtain ⟨b3, hb⟩ : ∃ b : Bool, pyEq ((List.lookup "c_iterations" $a1).getD (PyVal.int 1)) ((List.lookup "c_iterations" $a2).getD (PyVal.int 1)) = b := ⟨_, rfl⟩
    simp only [hb]
    clear hb
    obtain ⟨b4, hb⟩ : ∃ b : Bool, pyEq (PyVal.dict (PyamgV.ExtPySame.noSweep $a1)) (PyVal.dict (PyamgV.ExtPySame.noSweep $a2)) = b := ⟨_, rfl⟩
    simp only [hb]
    clear hb
    obtain ⟨b5, hb⟩ : ∃ b : Bool, decide ((some s1, $n2) ∈ PyamgV.C05.cfPairs) = b := ⟨_, rfl⟩
    simp only [hb]
    clear hb
    obtain ⟨b6, hb⟩ : ∃ b : Bool, decide (some s1 = $n2) = b := ⟨_, rfl⟩
    simp only [hb]
    clear hb
    obtain ⟨b7, hb⟩ : ∃ b : Bool, decide (some s1 ∈ PyamgV.C05.krylovRelaxation) = b := ⟨_, rfl⟩
    simp only [hb]
    clear hb
    obtain ⟨b8, hb⟩ : ∃ b : Bool, decide ($n2 ∈ PyamgV.C05.krylovRelaxation) = b := ⟨_, rfl⟩
    simp only [hb]
    clear hb
    obtain ⟨b9, hb⟩ : ∃ b : Bool, decide (some s1 ∈ PyamgV.C05.symmetricRelaxation) = b := ⟨_, rfl⟩
    simp only [hb]
    clear hb
    obtain ⟨b10, hb⟩ : ∃ b : Bool, startsCf (some s1) = b := ⟨_, rfl⟩
    simp only [hb]
    clear hb
    obtain ⟨b11, hb⟩ : ∃ b : Bool, decide ((abs ((List.lookup "sweep" $a1).getD (PyVal.str "forward")), abs ((List.lookup "sweep" $a2).getD (PyVal.str "forward"))) ∈ PyamgV.C05.sweepPairs) = b := ⟨_, rfl⟩
    simp only [hb]
    clear hb
    cases b1 <;> cases b5 <;> cases b6 <;> cases b4 <;> cases b2 <;> cases b3 <;> cases b7 <;> cases b8 <;>
      cases b9 <;> cases b10 <;> cases b11 <;> rfl))

/-! ### specifications -/

abbrev Spec := Option String × Kvs

/-- a smoother specification as the user writes it and its `(name, kwargs)` reading:
`'name'` / `None`, or `('name', {...})` -/
inductive Rep : PyVal → Spec → Prop
  | bare (n : Option String) : Rep (nameVal n) (n, [])
  | pair (n : Option String) (a : Kvs) : Rep (.tuple [nameVal n, .dict a]) (n, a)

theorem unpack_rep (p : PyVal) (sp : Spec) (h : Rep p sp) :
    smoothing_unpack_arg p = .ok (.tuple [nameVal sp.1, .dict sp.2]) := by
  rw [PyamgV.ExtPyLev.smoothing_unpack_arg_spec]
  cases h with
  | bare n => cases n <;> rfl
  | pair n a => rfl

/-- entry `i`, the last entry beyond the list (`preAt` / `postAt` of the model) -/
def specAt (P : List Spec) (i : Nat) : Spec := P.getD (min i (P.length - 1)) (none, [])

def lvl (P Q : List Spec) (i : Nat) : Bool := levelOkPy (specAt P i).1 (specAt P i).2 (specAt Q i).1 (specAt Q i).2

def okUpTo (P Q : List Spec) (j : Nat) : Bool := (List.range j).all (lvl P Q)

theorem okUpTo_succ (P Q : List Spec) (j : Nat) : okUpTo P Q (j + 1) = (okUpTo P Q j && lvl P Q j) := by
  simp [okUpTo, List.range_succ, List.all_append]

/-- the loop state `(fn1, fn2, kwargs1, kwargs2, flag)` after the levels `0 .. j-1` -/
def st (P Q : List Spec) (j : Nat) : PyVal × PyVal × PyVal × PyVal × PyVal :=
  if j = 0 then (.none, .none, .dict [], .dict [], .bool true)
  else (nameVal (specAt P (j - 1)).1, nameVal (specAt Q (j - 1)).1, .dict (specAt P (j - 1)).2,
        .dict (specAt Q (j - 1)).2, .bool (okUpTo P Q j))

theorem st_flag (P Q : List Spec) (j : Nat) : (st P Q j).2.2.2.2 = .bool (okUpTo P Q j) := by
  unfold st
  split
  · subst_vars; rfl
  · rfl

theorem specAt_lt (P : List Spec) (i : Nat) (h : i < P.length) : specAt P i = P.getD i (none, []) := by
  unfold specAt
  have : min i (P.length - 1) = i := by omega
  rw [this]

theorem getD_mem (P : List Spec) (i : Nat) (h : i < P.length) : P.getD i (none, []) ∈ P := by
  rw [List.getD_eq_getElem?_getD, List.getElem?_eq_getElem h]
  exact List.getElem_mem h

theorem ite_flag (b c : Bool) : (if b = true then PyVal.bool c else PyVal.bool false) = PyVal.bool (c && b) := by
  cases b <;> cases c <;> rfl

theorem st_pos (P Q : List Spec) (m : Nat) (h : 0 < m) :
    st P Q m = (nameVal (specAt P (m - 1)).1, nameVal (specAt Q (m - 1)).1, .dict (specAt P (m - 1)).2,
        .dict (specAt Q (m - 1)).2, .bool (okUpTo P Q m)) := by
  unfold st
  rw [if_neg (by omega)]

theorem specAt_ge (P : List Spec) (i : Nat) (h : P.length - 1 ≤ i) : specAt P i = specAt P (P.length - 1) := by
  unfold specAt
  have : min i (P.length - 1) = P.length - 1 := by omega
  rw [this, Nat.min_self]

/-- number of levels whose pair is examined (`testedLevels` of the model) -/
def tested (p q nl : Nat) : Nat := if p = q then min (min p q) nl else min (max p q) nl

theorem flag_core (lv ps qs : List PyVal) (P Q : List Spec) (nl : Nat)
    (lp : ps.length = P.length) (hP : ∀ i (h : i < ps.length), Rep ps[i] (P.getD i (none, [])))
    (lq : qs.length = Q.length) (hQ : ∀ i (h : i < qs.length), Rep qs[i] (Q.getD i (none, [])))
    (hsP : ∀ sp ∈ P, scalarKw sp.2) (hsQ : ∀ sp ∈ Q, scalarKw sp.2)
    (hlv : lv.length = nl + 1) (hPne : P ≠ []) (hQne : Q ≠ []) :
    smoothing_change_smoothers_flag (.list lv) (.list ps) (.list qs)
      = .ok (.bool (okUpTo P Q (tested P.length Q.length nl))) := by
  simp only [smoothing_change_smoothers_flag]
  simp [pyIsInst, PyVal.tyName, pyIsNone]
  have hlen : ((lv.take (lv.length - 1)).length : Nat) = nl := by simp [hlv]
  simp only [slice_levels, ok_bind, pyLen_list, hlen, lp, lq, pyMin3, pyRange_zero]
  apply forIn_bind_inv (Inv := fun j s => s = st P Q j)
  · rfl
  · intro j hj s hs
    subst hs
    simp only [List.length_map, List.length_range] at hj
    simp only [List.getElem_map, List.getElem_range]
    have hjp : j < ps.length := by omega
    have hjq : j < qs.length := by omega
    rw [pyGetItem_list_nat ps j hjp, pyGetItem_list_nat qs j hjq]
    simp only [ok_bind, unpack_rep _ _ (hP j hjp), unpack_rep _ _ (hQ j hjq), pyUnpack_pair, unpackAt,
      List.getD_cons_zero, List.getD_cons_succ]
    rw [st_flag]
    have hjP : j < P.length := by omega
    have hjQ : j < Q.length := by omega
    have h1 : scalarKw (P.getD j (none, [])).snd := hsP _ (getD_mem P j hjP)
    have h2 : scalarKw (Q.getD j (none, [])).snd := hsQ _ (getD_mem Q j hjQ)
    have e3 : st P Q (j + 1) = (nameVal (P.getD j (none, [])).fst, nameVal (Q.getD j (none, [])).fst,
        .dict (P.getD j (none, [])).snd, .dict (Q.getD j (none, [])).snd, .bool (okUpTo P Q (j + 1))) := by
      simp [st, specAt_lt P j hjP, specAt_lt Q j hjQ]
    have e4 : lvl P Q j = levelOkPy (P.getD j (none, [])).fst (P.getD j (none, [])).snd
        (Q.getD j (none, [])).fst (Q.getD j (none, [])).snd := by
      simp [lvl, specAt_lt P j hjP, specAt_lt Q j hjQ]
    rw [e3, okUpTo_succ, e4]
    generalize (P.getD j (none, [])).fst = n1 at *
    generalize (P.getD j (none, [])).snd = a1 at *
    generalize (Q.getD j (none, [])).fst = n2 at *
    generalize (Q.getD j (none, [])).snd = a2 at *
    generalize okUpTo P Q j = c
    have hu := scalar_getD a1 h1 "sweep" (.str "forward") rfl
    have hw := scalar_getD a2 h2 "sweep" (.str "forward") rfl
    refine ⟨(nameVal n1, nameVal n2, .dict a1, .dict a2, if levelOkPy n1 a1 n2 a2 then .bool c else .bool false), ?_, ?_⟩
    · clear hP hQ hsP hsQ hlv hPne hQne hlen hj hjp hjq lp lq e3 e4 hjP hjQ
      level_step n1 n2 a1 a2 h1 h2 hu hw
    · rw [ite_flag]
  · intro s' hs'
    simp only [List.length_map, List.length_range] at hs'
    subst hs'
    have hPl : 0 < P.length := List.length_pos_iff.mpr hPne
    have hQl : 0 < Q.length := List.length_pos_iff.mpr hQne
    by_cases hlt : P.length < Q.length
    · -- the post-smoother list is longer: the last pre-smoother entry meets the remaining post-smoother entries
      have hT : tested P.length Q.length nl = min Q.length nl := by
        unfold tested; rw [if_neg (by omega)]; congr 1; omega
      rw [hT]
      simp only [hlt, if_true, pyMin2, ok_bind, pyRange_nat]
      generalize hm : min (min P.length Q.length) nl = m
      apply forIn_bind_inv (Inv := fun j s => s.2.2 = .bool (okUpTo P Q (m + j)))
      · exact st_flag P Q m
      · intro j hj s hs
        simp only [List.length_map, List.length_range] at hj
        simp only [List.getElem_map, List.getElem_range]
        have hmP : m = P.length := by omega
        have hjq : m + j < qs.length := by omega
        have hcast : ((m : Int) + (j : Int)) = ((m + j : Nat) : Int) := by omega
        rw [hcast, pyGetItem_list_nat qs (m + j) hjq, st_pos P Q m (by omega)]
        have hjQ : m + j < Q.length := by omega
        have eP : specAt P (m + j) = specAt P (m - 1) := by
          rw [specAt_ge P (m + j) (by omega), hmP]
        have h1 : scalarKw (specAt P (m - 1)).snd := by
          rw [specAt_lt P (m - 1) (by omega)]; exact hsP _ (getD_mem P (m - 1) (by omega))
        have h2 : scalarKw (Q.getD (m + j) (none, [])).snd := hsQ _ (getD_mem Q (m + j) hjQ)
        have e4 : lvl P Q (m + j) = levelOkPy (specAt P (m - 1)).fst (specAt P (m - 1)).snd
            (Q.getD (m + j) (none, [])).fst (Q.getD (m + j) (none, [])).snd := by
          simp [lvl, eP, specAt_lt Q (m + j) hjQ]
        simp only [ok_bind, unpack_rep _ _ (hQ (m + j) hjq), pyUnpack_pair, unpackAt,
          List.getD_cons_zero, List.getD_cons_succ, hs]
        have e5 : m + (j + 1) = (m + j) + 1 := by omega
        rw [e5, okUpTo_succ, e4]
        generalize (specAt P (m - 1)).fst = n1 at *
        generalize (specAt P (m - 1)).snd = a1 at *
        generalize (Q.getD (m + j) (none, [])).fst = n2 at *
        generalize (Q.getD (m + j) (none, [])).snd = a2 at *
        generalize okUpTo P Q (m + j) = c at *
        have hu := scalar_getD a1 h1 "sweep" (.str "forward") rfl
        have hw := scalar_getD a2 h2 "sweep" (.str "forward") rfl
        refine ⟨(nameVal n2, .dict a2, if levelOkPy n1 a1 n2 a2 then .bool c else .bool false), ?_, ?_⟩
        · clear hP hQ hsP hsQ hlv hPne hQne hlen hj hjq lp lq e4 e5 hjQ hT hm hmP hcast hPl hQl hlt hs eP
          level_step n1 n2 a1 a2 h1 h2 hu hw
        · simp only [ite_flag]
      · intro s' hs'
        simp only [List.length_map, List.length_range] at hs'
        rw [hs']
        congr 3
        omega
    · by_cases hgt : Q.length < P.length
      · -- the pre-smoother list is longer
        have hT : tested P.length Q.length nl = min P.length nl := by
          unfold tested; rw [if_neg (by omega)]; congr 1; omega
        rw [hT]
        simp only [hlt, hgt, if_true, if_false, pyMin2, ok_bind, pyRange_nat]
        generalize hm : min (min P.length Q.length) nl = m
        apply forIn_bind_inv (Inv := fun j s => s.2.2 = .bool (okUpTo P Q (m + j)))
        · exact st_flag P Q m
        · intro j hj s hs
          simp only [List.length_map, List.length_range] at hj
          simp only [List.getElem_map, List.getElem_range]
          have hmQ : m = Q.length := by omega
          have hjp : m + j < ps.length := by omega
          have hcast : ((m : Int) + (j : Int)) = ((m + j : Nat) : Int) := by omega
          rw [hcast, pyGetItem_list_nat ps (m + j) hjp, st_pos P Q m (by omega)]
          have hjP : m + j < P.length := by omega
          have eQ : specAt Q (m + j) = specAt Q (m - 1) := by
            rw [specAt_ge Q (m + j) (by omega), hmQ]
          have h2 : scalarKw (specAt Q (m - 1)).snd := by
            rw [specAt_lt Q (m - 1) (by omega)]; exact hsQ _ (getD_mem Q (m - 1) (by omega))
          have h1 : scalarKw (P.getD (m + j) (none, [])).snd := hsP _ (getD_mem P (m + j) hjP)
          have e4 : lvl P Q (m + j) = levelOkPy (P.getD (m + j) (none, [])).fst (P.getD (m + j) (none, [])).snd
              (specAt Q (m - 1)).fst (specAt Q (m - 1)).snd := by
            simp [lvl, eQ, specAt_lt P (m + j) hjP]
          simp only [ok_bind, unpack_rep _ _ (hP (m + j) hjp), pyUnpack_pair, unpackAt,
            List.getD_cons_zero, List.getD_cons_succ, hs]
          have e5 : m + (j + 1) = (m + j) + 1 := by omega
          rw [e5, okUpTo_succ, e4]
          generalize (specAt Q (m - 1)).fst = n2 at *
          generalize (specAt Q (m - 1)).snd = a2 at *
          generalize (P.getD (m + j) (none, [])).fst = n1 at *
          generalize (P.getD (m + j) (none, [])).snd = a1 at *
          generalize okUpTo P Q (m + j) = c at *
          have hu := scalar_getD a1 h1 "sweep" (.str "forward") rfl
          have hw := scalar_getD a2 h2 "sweep" (.str "forward") rfl
          refine ⟨(nameVal n1, .dict a1, if levelOkPy n1 a1 n2 a2 then .bool c else .bool false), ?_, ?_⟩
          · clear hP hQ hsP hsQ hlv hPne hQne hlen hj hjp lp lq e4 e5 hjP hT hm hmQ hcast hPl hQl hlt hgt hs eQ
            level_step n1 n2 a1 a2 h1 h2 hu hw
          · simp only [ite_flag]
        · intro s' hs'
          simp only [List.length_map, List.length_range] at hs'
          rw [hs']
          congr 3
          omega
      · -- lists of equal length: nothing more is examined
        have heq : P.length = Q.length := by omega
        have hT : tested P.length Q.length nl = min (min P.length Q.length) nl := by
          unfold tested; rw [if_pos heq]
        simp only [hlt, hgt, if_false, st_flag, hT]

/-! ### the link to the hand-written model -/

/-- the model's configuration list of a list of `(name, kwargs)` readings -/
def cfgs (P : List Spec) : List Cfg := P.map (fun sp => cfg sp.1 sp.2)

theorem preAt_cfgs (P : List Spec) (i : Nat) :
    PyamgV.C05.preAt (cfgs P) i = cfg (specAt P i).1 (specAt P i).2 := by
  unfold PyamgV.C05.preAt cfgs specAt
  rw [List.length_map]
  simp only [List.getD_eq_getElem?_getD, List.getElem?_map]
  cases P[min i (P.length - 1)]? <;> rfl

theorem postAt_cfgs (Q : List Spec) (i : Nat) :
    PyamgV.C05.postAt (cfgs Q) i = cfg (specAt Q i).1 (specAt Q i).2 := preAt_cfgs Q i

theorem specAt_mem (P : List Spec) (h : P ≠ []) (i : Nat) : specAt P i ∈ P := by
  unfold specAt
  exact getD_mem P _ (by have := List.length_pos_iff.mpr h; omega)

theorem tested_eq (P Q : List Spec) (nl : Nat) :
    PyamgV.C05.testedLevels (cfgs P) (cfgs Q) nl = tested P.length Q.length nl := by
  simp [PyamgV.C05.testedLevels, tested, cfgs]

theorem tested_le (p q nl : Nat) : tested p q nl ≤ nl := by
  unfold tested; split <;> omega

/-- **REFINEMENT: the generated flag computation is the hand-written model `PyamgV.C05.flag`.**
Whenever the model says `change_smoothers` returns (every installed specification is accepted by its
setup function) with `symmetric_smoothing = b`, the definition generated from the source of
`change_smoothers` returns exactly `b` -- for specification lists `ps`, `qs` that read as `P`, `Q`
(`'name'`, `None` or `('name', {...})` entries), keyword dictionaries with distinct keys and scalar
values, and `nl + 1` levels. -/
theorem flag_refines_model (lv ps qs : List PyVal) (P Q : List Spec) (nl : Nat) (b : Bool)
    (lp : ps.length = P.length) (hP : ∀ i (h : i < ps.length), Rep ps[i] (P.getD i (none, [])))
    (lq : qs.length = Q.length) (hQ : ∀ i (h : i < qs.length), Rep qs[i] (Q.getD i (none, [])))
    (hsP : ∀ sp ∈ P, scalarKw sp.2) (hsQ : ∀ sp ∈ Q, scalarKw sp.2)
    (hlv : lv.length = nl + 1) (hPne : P ≠ []) (hQne : Q ≠ [])
    (hm : PyamgV.C05.flag (cfgs P) (cfgs Q) nl = some b) :
    smoothing_change_smoothers_flag (.list lv) (.list ps) (.list qs) = .ok (.bool b) := by
  rw [flag_core lv ps qs P Q nl lp hP lq hQ hsP hsQ hlv hPne hQne]
  have hb := PyamgV.C05.flag_some _ _ _ _ hm
  have hv := PyamgV.C05.flag_valid _ _ _ _ hm
  rw [hb, tested_eq]
  congr 2
  unfold okUpTo
  have key : ∀ i ∈ List.range (tested P.length Q.length nl),
      lvl P Q i = PyamgV.C05.levelOk (PyamgV.C05.preAt (cfgs P) i) (PyamgV.C05.postAt (cfgs Q) i) := by
    intro i hi
    have hi' : i < nl := Nat.lt_of_lt_of_le (List.mem_range.mp hi) (tested_le _ _ _)
    have hreg : (specAt P i).1 ∈ regNames := by
      have := valid_reg _ (hv i hi').1
      rwa [preAt_cfgs] at this
    rw [preAt_cfgs, postAt_cfgs]
    exact levelOkPy_eq_model _ _ _ _ (hsP _ (specAt_mem P hPne i)) (hsQ _ (specAt_mem Q hQne i)) hreg
  rw [Bool.eq_iff_iff, List.all_eq_true, List.all_eq_true]
  constructor
  · intro h i hi; rw [← key i hi]; exact h i hi
  · intro h i hi; rw [key i hi]; exact h i hi

/-- **generated flag `True` ⇒ the model's per-level test holds for the pair installed on every level**
(so the theorems `flag_cycle_symmetric`, `flag_denseM_symmetric_checked`, ... of the hand-written model
apply to what the source of `change_smoothers` computes) -/
theorem flag_true_levels (lv ps qs : List PyVal) (P Q : List Spec) (nl : Nat) (b : Bool)
    (lp : ps.length = P.length) (hP : ∀ i (h : i < ps.length), Rep ps[i] (P.getD i (none, [])))
    (lq : qs.length = Q.length) (hQ : ∀ i (h : i < qs.length), Rep qs[i] (Q.getD i (none, [])))
    (hsP : ∀ sp ∈ P, scalarKw sp.2) (hsQ : ∀ sp ∈ Q, scalarKw sp.2)
    (hlv : lv.length = nl + 1) (hPne : P ≠ []) (hQne : Q ≠ [])
    (hm : PyamgV.C05.flag (cfgs P) (cfgs Q) nl = some b)
    (ht : smoothing_change_smoothers_flag (.list lv) (.list ps) (.list qs) = .ok (.bool true)) :
    ∀ i, i < nl → PyamgV.C05.levelOk (PyamgV.C05.preAt (cfgs P) i) (PyamgV.C05.postAt (cfgs Q) i) = true := by
  rw [flag_refines_model lv ps qs P Q nl b lp hP lq hQ hsP hsQ hlv hPne hQne hm] at ht
  have hb : b = true := by cases b <;> simp_all
  subst hb
  have h1 : 1 ≤ (cfgs P).length := by
    have := List.length_pos_iff.mpr hPne; simp [cfgs]; omega
  have h2 : 1 ≤ (cfgs Q).length := by
    have := List.length_pos_iff.mpr hQne; simp [cfgs]; omega
  exact PyamgV.C05.flag_sound _ _ _ h1 h2 hm

/-! ### arguments that are not lists -/

/-- a single specification (string, tuple or `None`) stands for the one-entry list -/
theorem flag_single_pre (lv p q : PyVal) (h : pyIsInst p ["str", "tuple"] = true ∨ pyIsNone p = true) :
    smoothing_change_smoothers_flag lv p q = smoothing_change_smoothers_flag lv (.list [p]) q := by
  cases p <;> simp [pyIsInst, PyVal.tyName, pyIsNone] at h <;>
    simp [smoothing_change_smoothers_flag, pyIsInst, PyVal.tyName, pyIsNone]

theorem flag_single_post (lv q : PyVal) (ps : List PyVal)
    (h : pyIsInst q ["str", "tuple"] = true ∨ pyIsNone q = true) :
    smoothing_change_smoothers_flag lv (.list ps) q = smoothing_change_smoothers_flag lv (.list ps) (.list [q]) := by
  cases q <;> simp [pyIsInst, PyVal.tyName, pyIsNone] at h <;>
    simp [smoothing_change_smoothers_flag, pyIsInst, PyVal.tyName, pyIsNone]

/-- anything else is rejected with `ValueError` before a level is touched -/
theorem flag_rejects_pre (lv p q : PyVal) (h : pyIsInst p ["str", "tuple", "list"] = false) (hn : pyIsNone p = false) :
    ∃ e, smoothing_change_smoothers_flag lv p q = .error e ∧ e.cls = "ValueError" := by
  cases p <;> simp [pyIsInst, PyVal.tyName, pyIsNone] at h hn <;>
    simp [smoothing_change_smoothers_flag, pyIsInst, PyVal.tyName, pyIsNone] <;> exact ⟨_, rfl, rfl⟩

end PyamgV.ExtPyFlag
