import PyamgV.Props.Restate
import PyamgV.Proofs.C08Accel
import PyamgV.Proofs.ExtSolvePathEx
import PyamgV.Proofs.ExtPy2Accel
import PyamgV.Proofs.ExtPy2Config
import PyamgV.Proofs.ExtPy3Cycle

/-! # C08 — accelerated and black-box solves reach the requested tolerance honestly

Models (Model/C08Accel.lean): `C08.plan` — the `accel` branch of `MultilevelSolver.solve` branch by
branch (cycle upper-casing, AMLI guards, CG warning, name lookup `pyamg.krylov` before
`scipy.sparse.linalg`, `M = aspreconditioner(cycle)`, the PyAMG-convention call and the SciPy-convention
fallback with `rtol`/`atol` and the recording callback wrapper); `C08.scipyHistory` — what the wrapper
leaves in the caller's list; `C08.accelRun` — the caller's observables of
one accelerated solve; `C08.bbPlan` — the dispatch of `pyamg.blackbox.solve`; `C08.nativeSolve`
— `plan` composed with the control skeleton shared by the native Krylov solvers (`KL.solve`).  The
driver runs all of them (`c08_plan`, `c08_run`, `c08_bb`, `c08_native`, `c08_tables`) and the check
compares them on every run with what recording accelerators (callables of both conventions, and
recorders wrapped around the real `pyamg.krylov` / `scipy.sparse.linalg` functions) observe on the real
`solve`.  The accelerator's arithmetic, the cycle and the norm are parameters, so the theorems hold for
every hierarchy.  That the black-box solve *reaches* the tolerance is a convergence statement and is
decided by search only. -/
namespace PyamgV.Props.C08

/-- every call handed to the accelerator carries the caller's `x0`, `maxiter`, the preconditioner of
the requested cycle; `tol` as `tol=` (PyAMG convention) or as `rtol=` with `atol` 0/absent (SciPy
convention); callback and residual list as described -/
restate accel_wiring := PyamgV.C08.accel_wiring
/-- one PyAMG-convention call, plus exactly one SciPy-convention call for accelerators of that
convention; list re-initialised exactly then; `atol = 0` exactly when the signature has it (or cannot be
inspected); `(x, info)` returned exactly when `return_info` -/
restate accel_calls := PyamgV.C08.accel_calls
/-- AMLI reaches an accelerator only as `accel='fgmres'` on a matrix not marked non-Hermitian -/
restate amli_guard := PyamgV.C08.amli_guard
/-- the CG warning is issued exactly for the name `'cg'` with `symmetric_smoothing = False` -/
restate cg_warning_iff := PyamgV.C08.cg_warning_iff
/-- names are looked up in `pyamg.krylov` first … -/
restate native_first := PyamgV.C08.native_first
/-- … then in `scipy.sparse.linalg` … -/
restate scipy_second := PyamgV.C08.scipy_second
/-- … and are rejected otherwise -/
restate unknown_name := PyamgV.C08.unknown_name
/-- SciPy convention: the history has one entry for the start vector and one per callback invocation -/
restate history_length := PyamgV.C08.history_length
/-- its first entry is `‖b − A x₀‖` -/
restate history_head := PyamgV.C08.history_head
/-- entry `k+1` is the residual norm of the `k`-th iterate handed to the callback (or the reported scalar) -/
restate history_entry := PyamgV.C08.history_entry
/-- the caller's callback sees every invocation -/
restate user_callback := PyamgV.C08.user_callback
/-- returned vector and status are the accelerator's; `info` present exactly when `return_info` -/
restate run_passthrough := PyamgV.C08.run_passthrough
/-- **history populated alike**: list and callback given ⇒ the caller's list has one entry more than
there were callback invocations, for SciPy-convention accelerators by the wrapper, for native ones
because they keep that discipline themselves; SciPy convention: it starts with `‖b − A x₀‖` -/
restate history_alike := PyamgV.C08.history_alike
/-- native convention (one call) exactly for `pyamg.krylov` names and PyAMG-style callables -/
restate run_convention := PyamgV.C08.run_convention
/-- native accelerators: the accelerated solve stops; status 0 ⇒ the stopping rule holds for the
*caller's* tolerance; otherwise status −1 or the caller's `maxiter` with the rule not met; history =
callbacks + 1 -/
restate honest_native := PyamgV.C08.honest_native
/-- the preconditioner's `matvec` (cycling loop with `maxiter = 1`) is exactly one cycle -/
restate precond_one_cycle := PyamgV.C08.precond_one_cycle
/-- black box: `cg` for Hermitian, `gmres` otherwise -/
restate bb_accel := PyamgV.C08.bb_accel
/-- black box: one native PyAMG-convention call with the caller's `tol`/`maxiter`/list and a V-cycle
preconditioner; result reshaped to `b.shape`; setup exactly when no solver is reused -/
restate bb_wiring := PyamgV.C08.bb_wiring

/-! non-vacuity: concrete plans -/
open PyamgV.C08 in
example : plan tables {
    cycle := "w", symmetry := some "hermitian", symSmoothing := false, accel := (.name "cg"),
    tol := 0, maxiter := 7, x0 := true, callback := false, residuals := true, returnInfo := true } =
    .run true [{
      target := .krylov "cg", pyamgStyle := true, x0 := true, tol := some 0, rtol := none, atol := none,
      maxiter := 7, precond := "W", callback := .none, residualsKw := some true }] false true := by decide
open PyamgV.C08 in
example : plan tables {
    cycle := "V", symmetry := none, symSmoothing := true, accel := (.name "minres"),
    tol := 0, maxiter := 3, x0 := false, callback := true, residuals := true, returnInfo := false } =
    .run false [{
      target := .scipy "minres", pyamgStyle := true, x0 := false, tol := some 0, rtol := none, atol := none,
      maxiter := 3, precond := "V", callback := .user, residualsKw := some true },
    {
      target := .scipy "minres", pyamgStyle := false, x0 := false, tol := none, rtol := some 0, atol := none,
      maxiter := 3, precond := "V", callback := .wrapper, residualsKw := none }] true false := by decide
open PyamgV.C08 in
example : ∃ w, plan tables {
    cycle := "amli", symmetry := some "hermitian", symSmoothing := true, accel := (.name "gmres"),
    tol := 0, maxiter := 3, x0 := false, callback := true, residuals := true, returnInfo := false } =
    .raise w "ValueError:amli-accel" := ⟨false, by decide⟩
open PyamgV.C08 in
example : scipyHistory (fun x : Nat => 10 - x) 0 [.vec 3, .scal 5, .vec 9] = [10, 7, 5, 1] := by decide
open PyamgV PyamgV.C08 in
example : (PyamgV.solve (fun x : Nat => x + 1) (fun x => 10 - x) (fun r => r < 2) 1 0).map (·.x) = some 1 := by decide

/-! ## the link to C03: which operator preconditions the accelerator (extension E17, Proofs/ExtSolvePath.lean)

`SolvePath.callPrecond S Ls … cl v` = the `M` of the accelerator call `cl` (`aspreconditioner(cycle = cl.precond)`,
whose `matvec` is `solve(v, maxiter=1, cycle, tol=1e-12)`: C01's `solvePy` without `x0`, list, callback) on the C03
model `(Ls, S)` of a hierarchy, applied to `v`.  The driver runs it (`ext_e17_precond`) against the operator a
recording accelerator receives from the real `solve` (C03 check). -/

/-- (E17) every call of the plan is preconditioned with C03's `precM` of the requested (upper-cased) cycle type,
whatever the tolerance test inside `solve` does: `precond_one_cycle` + the definitions of C03 -/
restate precond_is_precM := PyamgV.SolvePath.plan_precond_is_precM
/-- (E17) **M = C03's `mopM c 1`**: that preconditioner is the linear map of one cycle of the requested type with
`cycles_per_level = 1` (`precond_one_cycle` combined with C03's `preconditioner_is_M`) -/
restate precond_is_M := PyamgV.SolvePath.plan_precond_is_M
/-- (E17) one-level hierarchy: the preconditioner is the coarse solver -/
restate precond_one_level := PyamgV.SolvePath.plan_precond_one_level
/-- (E17) unless the accelerator is `fgmres` the cycle string of a plan that runs is not `AMLI` (so `V`/`W`/`F`,
the linear cycles, are the only cycle names that reach an accelerator) -/
restate precond_cycle_not_amli := PyamgV.SolvePath.plan_cycle_not_amli
/-- (E17) non-vacuity: `solve(…, cycle='w', accel='cg')` on a concrete two-level hierarchy, evaluated by the kernel -/
restate example_precond := PyamgV.SolvePath.Ex.example_precond

/-! ## the `accel` branch as the SOURCE has it (extension E42, Proofs/ExtPy2Accel.lean, Proofs/ExtPy2Config.lean)

`Generated.PyLogic2.multilevel_solve` is translated from the working tree's `MultilevelSolver.solve` on every run
(harness/py2lean2.py; numerical work abstracted: calls of opaque objects are events with all their arguments, answered
by a script).  `ExtPy2Accel.run T r info nr` runs it on the request `r` of `C08.plan` in the world
`ExtPy2W.accelWorld T r` (the hierarchy, the matrix' `symmetry`, which module has the requested name, the accelerator's
calling convention as a script); `ExtPy2Accel.expected` writes the prediction of `C08.plan` as result + trace.  The
driver runs the generated definition (`ext_py2_call`) against the real method on generated requests. -/

/-- **Generated.solve refines C08.plan**, grid 1: every accelerator name of both tables, an unknown name, the four
kinds of callables x all 32 combinations of `symmetric_smoothing`, `x0`, `callback`, `residuals`, `return_info`, for ALL
`tol`, `maxiter`, returned `info` and recomputed residual norm -/
restate generated_accel_refines_plan_names := PyamgV.ExtPy2Accel.accel_refines_plan_names
/-- grid 2: every spelling of the cycle (AMLI guards), every `symmetry` attribute, one accelerator per behaviour class -/
restate generated_accel_refines_plan_cycles := PyamgV.ExtPy2Accel.accel_refines_plan_cycles
/-- `solver_configuration` (pyamg/blackbox.py) with the symmetry test as an input Boolean: the Hermitian /
non-symmetric configuration (`symmetry` = what `bbPlan` hands on, Krylov smoother = `bbAccel symmetry`) and the
near-null-space candidates (BSR block size > 1, user array checks) -/
restate generated_config_refines_spec := PyamgV.ExtPy2Config.config_refines_spec
restate generated_config_any_size := PyamgV.ExtPy2Config.config_any_size

/-- non-vacuity: the grids are what they claim (sizes), and `expected` of one SciPy-convention request spelled out:
first call PyAMG style (raises), residual list reset, signature inspected, second call with `rtol` and without `atol` -/
example : (ExtPy2Accel.gridNames C08.tables 0 0).length = 800 ∧ (ExtPy2Accel.gridCycles 0 0).length = 1920 ∧
    ExtPy2Config.grid.length = 648 := by decide +kernel
example : (ExtPy2Accel.expected C08.tables
      { cycle := "w", symmetry := none, symSmoothing := true, accel := .name "minres", tol := 1/8, maxiter := 3, x0 := false,
        callback := false, residuals := true, returnInfo := true } 2 (1/2)).2.length = 11 := by decide +kernel

/-- (E57, FINITE grid: `m + 1` levels for `m ∈ {1..5}`, `cycles_per_level ∈ {1, 2, 3}`) the F-cycle of the `__solve`
GENERATED from the working tree (`Generated/PyLogic3_cycle.lean`): `cycles_per_level` reaches the F visit of the next
level and is the number of V-cycles (called with `'V'`, 1) that follow it -- the visits are `C03.traceM .F k` -/
restate generated_cycle_F_visits_grid_5x3 := PyamgV.ExtPy3Cyc.cycle_F_visits_grid_5x3

end PyamgV.Props.C08
