import PyamgV.Props.Restate
import PyamgV.Model.Facts
import PyamgV.Generated.Facts
import PyamgV.Proofs.Ck
import PyamgV.Proofs.Safe
import PyamgV.Proofs.BfsCk
import PyamgV.Proofs.SocCk
import PyamgV.Proofs.RsSafe
import PyamgV.Proofs.C17Safe
import PyamgV.Proofs.C17Safe2
import PyamgV.Proofs.C17Safe3
import PyamgV.Proofs.C17Safe4
import PyamgV.Proofs.C17Safe5
import PyamgV.Proofs.ExtC17Safe
import PyamgV.Proofs.ExtC17SafeBlock
import PyamgV.Proofs.ExtC17SafeInterp
import PyamgV.Proofs.ExtC17SafeTrunc
import PyamgV.Proofs.ExtC17SafeR3Relax
import PyamgV.Proofs.ExtC17SafeR3Split
import PyamgV.Proofs.ExtC17SafeR3Schwarz
import PyamgV.Proofs.ExtC17SafeR3Sa
import PyamgV.Proofs.ExtC17SafeR3Cr
import PyamgV.Proofs.ExtC17SafeR3Misc
import PyamgV.Proofs.ExtC17SafeR3CC
import PyamgV.Proofs.ExtC17SafeR3Interior
import PyamgV.Proofs.ExtRsWholeSafe
import PyamgV.Proofs.ExtC17R4Color
import PyamgV.Proofs.ExtC17R4MisK
import PyamgV.Proofs.ExtC17R4Term
import PyamgV.Proofs.ExtC17R4Pairwise
import PyamgV.Proofs.ExtC17R4Cljp
import PyamgV.Proofs.ExtC17R4CljpTerm
import PyamgV.Proofs.ExtC17R4Fit
import PyamgV.Proofs.ExtC17R4Pinv
import PyamgV.Proofs.ExtC17R4Evo
import PyamgV.Proofs.ExtC17R4Air
import PyamgV.Proofs.ExtC17R4AirB
import PyamgV.Proofs.ExtC18Bal
import PyamgV.Proofs.ExtC17R5Par
import PyamgV.Proofs.ExtC17R5MisK
import PyamgV.Proofs.ExtC17R5Rat
import PyamgV.Proofs.ExtC17R5Lloyd
import PyamgV.Proofs.Bfs
import PyamgV.Proofs.CC
import PyamgV.Proofs.ColoringLoop
import PyamgV.Proofs.MisParTerm2
import PyamgV.Proofs.BellmanFordTerm

/-! # C17 — native kernels stay inside their arrays for every well-formed input

Models: *checked-execution* transcriptions of the C++ loops (`Proofs/Ck.lean`: every array access
goes through `rd`/`wr` with a signed index and clears the `ok` flag when it leaves the array; a
`for(i = start; i != stop; i += step)` loop returns `none` when it does not terminate).  The `.val`
of each model is compared exactly with the rebuilt kernel by `Driver/C17.lean` on every run, the
theorems below say that for **every** structurally valid CSR input of any size (`WF`/`WFm`: row
pointer of length `n+1`, non-negative, non-decreasing, last entry within `Aj`/`Ax`, column indices
in range -- nothing about sortedness, duplicates, diagonals or empty rows), buffers of the sizes the
Python callers allocate, and every *admissible* sweep range (`Adm`: `stop` is reached from `start`
in `k` steps through rows `0..n-1`) the run terminates with `ok = true`.  Scalars are abstract, so
the statements cover all instantiated value types.  C++ object lifetimes, integer overflow and
`std::vector` internals are outside the model (sanitizer search, see `harness/props/c17.py`). -/
namespace PyamgV.Props.C17
open PyamgV PyamgV.Ck

/-! ### relaxation.h -/
/-- `gauss_seidel`: terminates and stays in bounds for every admissible `(start, stop, step)` -/
restate gauss_seidel_safe := PyamgV.Ck.sweep_safe
/-- `sor_gauss_seidel` (any fuel `≥ k`) -/
restate sor_gauss_seidel_safe := PyamgV.C17.sorSweep_safe
/-- `jacobi`: copy loop + update loop; `omega` has at least one entry, `temp` has `n` -/
restate jacobi_safe := PyamgV.C17.jacobi_safe
/-- `jacobi_indexed`: rows from an index array with entries in `0..n-1` -/
restate jacobi_indexed_safe := PyamgV.C17.jacobiIndexed_safe
/-- `gauss_seidel_indexed`: strided positions of `Id`, rows `Id[i]` -/
restate gauss_seidel_indexed_safe := PyamgV.C17.gsIndexed_safe
/-- `gauss_seidel_ne` on an `n × m` matrix (`x` per column, `b`, `D_inv` per row) -/
restate gauss_seidel_ne_safe := PyamgV.C17.gsNe_safe
/-- `gauss_seidel_nr` on CSC arrays (`x`, `D_inv` per column, `r` per row) -/
restate gauss_seidel_nr_safe := PyamgV.C17.gsNr_safe
/-- `jacobi_ne` (its loops are `i < row_stop`): `0 ≤ start`, `stop ≤ n`, `step > 0`, terminates within `stop - start` steps -/
restate jacobi_ne_safe := PyamgV.C17.jacobiNe_safe
/-- an admissible range visits at most `n` rows (so fuel `n` always suffices) -/
restate admissible_at_most_n_rows := PyamgV.C17.adm_le

/-- the two call shapes of `relaxation.py` are admissible: forward `(0, n, 1)` … -/
theorem adm_forward (n : Nat) : Adm n 0 n 1 n :=
  ⟨by decide, by omega, fun j hj => by omega⟩
/-- … and backward `(n-1, -1, -1)` -/
theorem adm_backward (n : Nat) : Adm n ((n : Int) - 1) (-1) (-1) n :=
  ⟨by decide, by omega, fun j hj => by omega⟩
/-- strided sweeps `(s, s + k·d, d)`, `d > 0`, are admissible as long as the last visited row exists -/
theorem adm_strided (n : Nat) (s d : Int) (k : Nat) (hs : 0 ≤ s) (hd : 0 < d)
    (hlast : s + ((k : Int) - 1) * d < (n : Int)) : Adm n s (s + (k : Int) * d) d k := by
  refine ⟨by omega, rfl, fun j hj => ?_⟩
  have h1 : 0 ≤ (j : Int) * d := Int.mul_nonneg (by omega) (by omega)
  have h2 : (j : Int) * d ≤ ((k : Int) - 1) * d :=
    Int.mul_le_mul_of_nonneg_right (by omega) (by omega)
  omega

/-! ### ruge_stuben.h -/
/-- `classical_strength_of_connection_abs` and `_min` (the same loops; `abs`: `norm = |.|`, start `numeric_limits::min()`;
`min`: `norm a = -a`, start 0 -- the scalar operations are parameters of the theorem): the output cursor never passes
the input position -/
restate classical_strength_safe := PyamgV.SocCk.kernel_safe
/-- `maximum_row_value` -/
restate maximum_row_value_safe := PyamgV.C17.maxRowValue_safe
/-- `rs_direct_interpolation_pass1` and `rs_classical_interpolation_pass1` (same loops) -/
restate interpolation_pass1_safe := PyamgV.C17.interpPass1_safe
/-- `rs_cf_splitting`: every index of the bucket moves (`incr`, `decr`, one `step`) is in range,
from the bucket invariant `BInv` and the value invariant `VInv` -/
restate rs_incr_bounds := PyamgV.RS.incr_bounds
restate rs_decr_bounds := PyamgV.RS.decr_bounds
restate rs_step_bounds := PyamgV.RS.step_bounds

/-! ### smoothed_aggregation.h, linalg.h -/
/-- `symmetric_strength_of_connection`: the private `diags` vector and the output cursor stay in range -/
restate symmetric_strength_safe := PyamgV.C17.symSoc_safe
/-- `naive_aggregation`: `y[next_aggregate-1]` is in range because `next_aggregate - 1 ≤ i` -/
restate naive_aggregation_safe := PyamgV.C17.naiveAgg_safe
/-- `standard_aggregation`, any structurally valid pattern (symmetric or not): the sentinels `0` / `-n` and the root
writes `y[next-1]` (pass 1), `y[next]` (pass 3) stay in range; the pass-3 bound is the counting invariant
`next + #{unmarked rows ≥ i} ≤ n`; the returned count lies in `0..n` -/
restate standard_aggregation_safe := PyamgV.C17.stdAgg_safe
/-- `csc_scale_columns` -/
restate csc_scale_columns_safe := PyamgV.C17.scaleColumns_safe
/-- `csc_scale_rows` -/
restate csc_scale_rows_safe := PyamgV.C17.scaleRows_safe

/-! ### evolution_strength.h, air.h -/
/-- `apply_distance_filter` -/
restate apply_distance_filter_safe := PyamgV.C17.distFilter_safe
/-- `apply_absolute_distance_filter` -/
restate apply_absolute_distance_filter_safe := PyamgV.C17.absDistFilter_safe
/-- `min_blocks`: `Sx` of length `n_blocks·blocksize`, `Tx` of length `n_blocks` -/
restate min_blocks_safe := PyamgV.C17.minBlocks_safe
/-- `one_point_interpolation`: the private `pointInd` vector and the cursor `next ≤ row` into `Pj`, `Px` (length `n`) -/
restate one_point_interpolation_safe := PyamgV.C17.onePoint_safe

/-! ### graph.h -/
/-- `bellman_ford`: every pass stays inside `d`, `m`, `p` and the CSR arrays, for any number of passes
(termination: `bellman_ford_total`) -/
restate bellman_ford_safe := PyamgV.C17.bellmanFord_safe
/-- `maximal_independent_set_serial` (flag-threading style) -/
restate mis_serial_safe := PyamgV.Safe.misSerial_safe
/-- `breadth_first_search`: `order[N]` is in range by the counting invariant `N + #unlabelled = n` -/
restate bfs_safe := PyamgV.BfsCk.bfs_safe
/-- termination of the `while` loops of graph.h (proof-side models, also run by the driver):
BFS finishes within `n+1` rounds … -/
restate bfs_total := PyamgV.Bfs.bfs_total
/-- … connected components within fuel `n` … -/
restate cc_total := PyamgV.CC.cc_total
/-- … MIS colouring within `n+1` rounds … -/
restate coloring_total := PyamgV.Col.coloring_total
/-- … the parallel MIS within `n` passes (any weights) … -/
restate mis_parallel_total := PyamgV.misParallel_total
/-- … Bellman–Ford within `n` passes (non-negative weights) -/
restate bellman_ford_total := PyamgV.BF.bellmanFord_total

/-! ### extension E7: eleven more kernels (models in `Model/ExtC17Ck*.lean`, driver ops `ext_c17_*`)

BSR matrices: `WFb G bs` = structurally valid block pattern with `G.n` block rows/columns and `bs²` values
per stored block; nested loops that could fail to terminate (`k != step_end` point sweeps, the merge
`while`, the quicksort recursion) run on fuel and clear the flag when it runs out, so `ok = true`
includes their termination. -/
/-- the dense helper `gemm` in the mode the relaxation kernels use (`'F','F','F'`, overwrite), any six dimensions with
`Brows ≤ Acols`, `Arows·Bcols ≤ Srows·Scols`, operands at arbitrary offsets inside their arrays -/
restate gemm_safe := PyamgV.C17.gemmFF_safe
/-- `bsr_gauss_seidel`: any block size, every admissible block-row range, forward and backward point sweeps in the
diagonal blocks; `x`, `b` of length `n·blocksize` -/
restate bsr_gauss_seidel_safe := PyamgV.C17.bsrGaussSeidel_safe
/-- `bsr_jacobi`: additionally the copy loop `temp[0..x_size) = x` and `omega[0]` -/
restate bsr_jacobi_safe := PyamgV.C17.bsrJacobi_safe
/-- `block_jacobi`: `Tx` holds `n·blocksize²` values; strided copy loop + strided sweep -/
restate block_jacobi_safe := PyamgV.C17.blockJacobi_safe
/-- `block_gauss_seidel`: the last `gemm` of a block row writes into `x` at offset `i·blocksize` -/
restate block_gauss_seidel_safe := PyamgV.C17.blockGaussSeidel_safe
/-- `rs_direct_interpolation_pass2`: with `Pp` as the first pass computes it (`PpOK`) and `Pj`, `Px` of at least `Pp[n]`
entries, the cursor stays below `Pp[i+1]` (counting invariant) and the renumbering `Pj[k] = map[Pj[k]]` only meets node
numbers (every slot below `Pp[n]` has been written) -/
restate rs_direct_interpolation_pass2_safe := PyamgV.C17.directPass2_safe
/-- `rs_classical_interpolation_pass2`, `modified` or not -/
restate rs_classical_interpolation_pass2_safe := PyamgV.C17.classicalPass2_safe
/-- the hypothesis `PpOK` of the two theorems above is what the first-pass model (`interpolation_pass1_safe`) returns -/
restate interpolation_pass1_establishes_PpOK := PyamgV.C17.interpPass1_spec
/-- `remove_strong_FF_connections` (four nested loops, `break` on `dependence`) -/
restate remove_strong_FF_connections_safe := PyamgV.C17.removeFF_safe
/-- `filter_matrix_rows`, `lump` or not; rows without a diagonal never reach `Ax[diag_ind]` with `diag_ind = -1`
because nothing is below the threshold `theta·0` -/
restate filter_matrix_rows_safe := PyamgV.C17.filterRows_safe
/-- `qsort_twoarrays`: the recursion terminates within fuel `right - left`, all swaps inside `[left, right]` -/
restate qsort_twoarrays_safe := PyamgV.C17.qsortTwo_safe
/-- `truncate_rows_csr` (`k ≥ 0`), sort + zeroing of the `rowlen - k` smallest entries of every long row -/
restate truncate_rows_csr_safe := PyamgV.C17.truncateRows_safe
/-- the merge loop of `my_inner` terminates within `(A_end - A_pos) + (B_end - B_pos)` iterations, in range -/
restate my_inner_while_safe := PyamgV.C17.imWhile_safe
/-- `incomplete_mat_mult_csr`: `A` CSR, `B` CSC (sorted or not), `S` any valid pattern with `≤ A.n` rows and columns `< B.n` -/
restate incomplete_mat_mult_csr_safe := PyamgV.C17.incompleteMatMult_safe

/-! ### extension E25: the WHOLE of `rs_cf_splitting` (model `RS.runCk` in `Model/ExtRsCk.lean`, driver op `ext_rs_whole`)

All five initialisation loops (lambda, histogram, prefix sums with the in-place zeroing, placement,
`std::fill` + isolated nodes), the main loop with its `break`, the three inner loops with both
bucket moves (`//invalid write!` included) and the clean-up loop, in the checked-execution monad.
Negative intermediate values (counts, positions, lambdas) and a main loop running longer than `n`
iterations clear the flag as well.  `WFp G n`: row pointer of length `n+1`, non-decreasing, last
entry within `Gj`, the addressed column indices `< n`; nothing about `T = Sᵀ`, sortedness,
duplicates or diagonals. -/
/-- every array access of the whole first pass is in range, nothing goes negative, the main loop ends
within `n` iterations, and the run returns what the executable model `RS.run` returns -- for every
pair of structurally valid patterns `S`, `T` of any size -/
restate rs_cf_splitting_safe := PyamgV.RS.rs_cf_splitting_safe
/-- one definition: the checked model computes `RS.run` (the model `rs`/`c13` compare with the kernel and the
C13 theorems are about) on every input, well formed or not -/
restate rs_cf_splitting_checked_eq_model := PyamgV.RS.runCk_val
/-- the main loop alone, started from the counting-sort state: in range and finished within fuel `n` -/
restate rs_main_loop_terminates := PyamgV.RS.rs_main_loop_terminates
/-- one iteration of the main loop from any state satisfying the bucket invariant with `top + 1` unvisited positions -/
restate rs_main_loop_step_safe := PyamgV.RS.stepCk_safe
/-- the initialisation needs only the transpose pattern to be structurally valid -/
restate rs_init_safe := PyamgV.RS.initCk_ok

/-! ### extension E19 (round 3): ten more kernels (models in `Model/ExtC17CkR3*.lean`, driver ops `ext_c17r3_*`)

Same reading as above: the `.val` of each model is compared exactly with the rebuilt kernel on every run, the
theorems are about its `ok` flag.  Nested loops that may not terminate (`while` with `break`, `while(true)`)
run on fuel inside `orFault`, so `ok = true` includes their termination. -/
/-- `bsr_jacobi_indexed`: any block size, any list of block rows (repetitions, empty list), the private copy `temp(x_size)` -/
restate bsr_jacobi_indexed_safe := PyamgV.C17.bsrJacobiIndexed_safe
/-- `block_jacobi_indexed`: `Tx` holds `n·blocksize²` values -/
restate block_jacobi_indexed_safe := PyamgV.C17.blockJacobiIndexed_safe
/-- `rs_cf_splitting_pass2`: any `n × n` pattern and any `splitting`; `splitting[Cpt0] = F_NODE` is only reached with
`Cpt0` a column index met earlier in the row -/
restate rs_cf_splitting_pass2_safe := PyamgV.C17.rsPass2_safe
/-- `approx_ideal_restriction_pass1`, any `distance`; `Cpts` any list of nodes, `Rp` one entry longer -/
restate approx_ideal_restriction_pass1_safe := PyamgV.C17.airPass1_safe
/-- `gemm` in the accumulate mode `('F','F','F','F')` (no `std::fill`), the mode of `overlapping_schwarz_csr` -/
restate gemm_acc_safe := PyamgV.C17.gemmFFacc_safe
/-- the search loop of `extract_subblocks` (`while(placeholder < Sp[i+1])` with two `break`s) terminates within
`Sp[i+1] - placeholder` iterations, in range -/
restate extract_subblocks_while_safe := PyamgV.C17.esWhile_safe
/-- `extract_subblocks`: subdomains sorted or not, with repetitions, empty; `Tx` holds a block of `|subdomain d|²` values at `Tp[d]` -/
restate extract_subblocks_safe := PyamgV.C17.extractSubblocks_safe
/-- `overlapping_schwarz_csr`: work arrays of `max(nrows, max_d |subdomain d|)` entries (the repair of the working tree is what
makes this provable for subdomains longer than `nrows`), every admissible range of subdomains -/
restate overlapping_schwarz_csr_safe := PyamgV.C17.schwarz_safe
/-- the computed `max_size` bounds every subdomain -/
restate overlapping_schwarz_max_size := PyamgV.C17.swMaxSize_safe
/-- `gemm` in mode `('F','F','T')` with overwrite (column-major result) -/
restate gemm_colmajor_safe := PyamgV.C17.gemmFT_safe
/-- `gemm` in mode `('F','T','F')` without overwrite (row-major `B`) -/
restate gemm_rowmajorB_safe := PyamgV.C17.gemmTacc_safe
/-- `satisfy_constraints_helper`, non-square blocks, any `NullDim` -/
restate satisfy_constraints_helper_safe := PyamgV.C17.satisfyConstraints_safe
/-- the packed-triangle offsets walked by `BsqCounter` in `calc_BtB`: `2·Σ_{m'<m}(nd-m') = m(2nd-m+1)`, so a row of
`Bsq` needs `nd(nd+1)/2` entries -/
restate calc_BtB_packed_offsets := PyamgV.C17.tri_closed
/-- `calc_BtB`: `BsqCols ≥ NullDim(NullDim+1)/2` -/
restate calc_BtB_safe := PyamgV.C17.calcBtB_safe
/-- `incomplete_mat_mult_bsr`, non-square blocks and the scalar branch; the pointer array `S` holds `NULL` or the offset
of a stored block of the current row -/
restate incomplete_mat_mult_bsr_safe := PyamgV.C17.incompleteMatMultBsr_safe
/-- one pass of the `while(true)` loop of `cr_helper` that does not `break` lowers the number of non-zero weights -/
restate cr_helper_pass_decreases := PyamgV.C17.crIter_safe
/-- the `while(true)` loop of `cr_helper` terminates within (number of non-zero weights) + 1 passes -/
restate cr_helper_while_terminates := PyamgV.C17.crWhile_safe
/-- `cr_helper`: in range (through `Uindex`, `neighbors`, `omega` too), `while(true)` terminates within `n + 1` passes (this
needs `omega[new_pt] = 0`, the repair of the working tree), the reordering writes `indices[1..n]` only.  Hypotheses on the
abstract scalars (`CrOrd`): `0` tests as zero, `a > 0` implies `a != 0`, `a > m > 0` implies `a > 0` -/
restate cr_helper_safe := PyamgV.C17.crHelper_safe

/-! ### extension E19, krylov.h and graph.h: four kernels that were not on the list (`Model/ExtC17CkR3Misc.lean`) -/
/-- `apply_householders`: `B` holds `R` reflectors of length `n`, every admissible range of reflectors (forward and backward);
the running `index` is `i·n`; `dot_prod` and `axpy` inlined -/
restate apply_householders_safe := PyamgV.C17.applyHouseholders_safe
/-- `householder_hornerscheme`: additionally `z[i] += y[i]`, so `R ≤ n` and `R ≤ |y|` -/
restate householder_hornerscheme_safe := PyamgV.C17.hornerScheme_safe
/-- `apply_givens`: `nrot + 1 ≤ |x|`, `4·nrot ≤ |B|` -/
restate apply_givens_safe := PyamgV.C17.applyGivens_safe
/-- `floyd_warshall` on one cluster: `L` maps the members of cluster `a` to `0..N-1`, `D`, `P` dense `N × N` -/
restate floyd_warshall_safe := PyamgV.C17.floydWarshall_safe
/-- the strided-loop rule with an index-dependent invariant used for the running `index` -/
restate strided_loop_indexed_invariant := PyamgV.C17.forStride_safe_idx

/-- one pass of `while(!DFS.empty())` in `connected_components` lowers `2·(unmarked nodes) + |DFS|` -/
restate connected_components_pass_decreases := PyamgV.C17.ccPass_safe
/-- `connected_components` (the `Ck` transcription with the explicit stack; `cc_total` above is about the proof-side model):
in range and every depth-first search terminates within `2n + 1` passes, any `n × n` pattern -/
restate connected_components_safe := PyamgV.C17.connectedComponents_safe

/-- a Bellman-Ford pass only copies entries of `m`: they stay `-1` or cluster numbers -/
restate bellman_ford_keeps_cluster_numbers := PyamgV.C17.bellmanFord_safe2
/-- `most_interior_nodes` (boundary marking with `break`, the call of `bellman_ford`, the new centres `c[m[i]] = i`) -/
restate most_interior_nodes_safe := PyamgV.C17.mostInterior_safe

/-! ### extension E32 (round 4): the colouring and independent-set kernels of graph.h (models in `Model/ExtC17R4Graph.lean`,
driver ops `ext_c17r4_*`)

Any structurally valid `n × n` pattern: symmetric or not, self loops, duplicates, unsorted.  Outer loops whose termination
depends on the weights run on fuel: the statements are "whenever the run returns, every access was in range" for EVERY
fuel, "returns within `max_iters` passes" where the kernel has such a bound, and for the two parallel colourings (and CLJP below)
"returns within `n` rounds" under order-like weight comparisons. -/
/-- `maximal_independent_set_serial` once more, in the checked style, with the counting facts `vertex_coloring_mis` uses -/
restate mis_serial_counting_safe := PyamgV.C17R4.misSerial_safe
/-- one pass of `vertex_coloring_mis` colours at least one node when one is left -/
restate vertex_coloring_mis_pass_progress := PyamgV.C17R4.vcMisPass_safe
/-- `vertex_coloring_mis`: in range, and `while(N < num_rows)` terminates within `n` passes -/
restate vertex_coloring_mis_safe := PyamgV.C17R4.vertexColoringMis_safe
/-- one row of `maximal_independent_set_parallel`, any marks `active`, `C`, `F`: in range; entries only change from `active`
to `F` or `C`; with three different marks a node marked `C` never has another neighbour marked `C` or left `active` -/
restate mis_parallel_row_safe := PyamgV.C17R4.mpRow_safe
/-- `maximal_independent_set_parallel`, any `max_iters`, any number of passes (termination for `max_iters = -1`:
`mis_parallel_total` above) -/
restate mis_parallel_safe := PyamgV.C17R4.misParallel_safe
/-- … with `max_iters >= 0` it returns within `max_iters` passes -/
restate mis_parallel_bounded := PyamgV.C17R4.misParallel_bounded
/-- `vertex_coloring_first_fit`: the accesses `mask[x[j]]` into the `K` bits of `std::vector<bool> mask(K,false)` -/
restate vertex_coloring_first_fit_safe := PyamgV.C17R4.firstFit_safe
/-- one round shared by the two parallel colourings (parallel MIS with `max_iters = 1`, un-marking, first fit) keeps
"uncoloured = -1, colours below `K`"; the separation of the nodes marked `K` is what puts `x[j]` below `K` -/
restate parallel_coloring_round_safe := PyamgV.C17R4.parRound_safe
/-- `vertex_coloring_jones_plassmann`, any `n` (for `n = 0` the kernel returns `-1` before `*std::max_element(x, x)`), any weights,
any number of rounds -/
restate vertex_coloring_jones_plassmann_safe := PyamgV.C17R4.vertexColoringJP_safe
/-- `vertex_coloring_LDF`, any `n`, any weights, any number of rounds -/
restate vertex_coloring_LDF_safe := PyamgV.C17R4.vertexColoringLDF_safe
/-- progress of one pass of the parallel independent set from a vector without entries `C`: with order-like weight comparisons
(`WOrd`: `>` irreflexive and transitive, compatible with `==`; true for IEEE doubles, NaN included) the active node that is maximal
for (weight, index) is marked `C`, so `N ≥ 1`; and the number of negative entries drops by at most `N` -/
restate mis_parallel_pass_progress := PyamgV.C17R4.mpPass_progress
/-- one colouring round keeps the invariant with the bookkeeping `n ≤ N + #uncoloured` and colours a node when one is left -/
restate parallel_coloring_round_progress := PyamgV.C17R4.parRound_progress
/-- `vertex_coloring_jones_plassmann` TERMINATES within `n` rounds (any structurally valid pattern, `WOrd` weights) and is
in range: `ok = true` of the model run with fuel `n` includes termination -/
restate vertex_coloring_jones_plassmann_total := PyamgV.C17R4.vertexColoringJP_total
/-- `vertex_coloring_LDF` terminates within `n` rounds and is in range -/
restate vertex_coloring_LDF_total := PyamgV.C17R4.vertexColoringLDF_total
/-- `csr_propagate_max` -/
restate csr_propagate_max_safe := PyamgV.C17R4.propagateMax_safe
/-- `maximal_independent_set_k_parallel`, any `k`, any weights, any `max_iters`, any number of iterations -/
restate mis_k_parallel_safe := PyamgV.C17R4.misKParallel_safe
/-- … with `max_iters >= 0` it returns within `max_iters` iterations -/
restate mis_k_parallel_bounded := PyamgV.C17R4.misKParallel_bounded

/-! ### extension E32: `pairwise_aggregation`, `cljp_naive_splitting`, `fit_candidates` (models `Model/ExtC17R4Pairwise.lean`,
`ExtC17R4Cljp.lean`, `ExtC17R4Fit.lean`) -/
/-- one pass of `while (!mmap.empty())` of `pairwise_aggregation`: in range (also in the vectors `m`, `mmap_iterators`), every
multimap iterator it dereferences or erases is still valid (a node with `x == 0` has its pair in the multimap), and the
multimap gets shorter -/
restate pairwise_aggregation_pass_safe := PyamgV.C17R4.pwIter_safe
/-- `pairwise_aggregation`: any structurally valid matrix; `y[next_aggregate-1]` is in range by `(next_aggregate-1) + |mmap| ≤ n`,
the loop terminates within `n` passes, the returned count is in `0..n` -/
restate pairwise_aggregation_safe := PyamgV.C17R4.pairwiseAgg_safe
/-- the selection of `cljp_naive_splitting`: `Dlist[nD]` is in range (`nD ≤ i`) and the first `nD` entries of `Dlist` are nodes -/
restate cljp_select_safe := PyamgV.C17R4.cjSelect_safe
/-- one pass of `while(unassigned > 0)`: `S`, `T` any two structurally valid patterns; `edgemark` is indexed by positions of `S` -/
restate cljp_pass_safe := PyamgV.C17R4.cjPass_safe
/-- `cljp_naive_splitting`, both weight initialisations, any number of passes (for `n = 0` the kernel returns at once) -/
restate cljp_naive_splitting_safe := PyamgV.C17R4.cljp_safe
/-- one pass of `while(unassigned > 0)` lowers `unassigned`: it never exceeds the number of `U_NODE` entries, and a `U` node of maximal
weight passes both scans of the selection (weight comparison `>` irreflexive and transitive: `CjOrd`) -/
restate cljp_pass_progress := PyamgV.C17R4.cjPass_progress
/-- `cljp_naive_splitting` TERMINATES within `n` passes (fuel `n`) and is in range, `S`, `T` any two structurally valid patterns -/
restate cljp_naive_splitting_total := PyamgV.C17R4.cljp_total
/-- the pointer loops `while(p < end){ ..; p += K2; }` of `fit_candidates` terminate within `end - p` iterations (`K2 ≥ 1`) -/
restate strided_pointer_loop_safe := PyamgV.C17R4.forStep_safe
/-- the second pointer of the two-pointer loops stays in the row of the first one -/
restate fit_candidates_second_pointer := PyamgV.C17R4.col_in
/-- `fit_candidates` (the common template of the real and the complex kernel): any CSC pattern, any `K1`, `K2` -/
restate fit_candidates_safe := PyamgV.C17R4.fitCandidates_safe
/-! ### extension E32: the dense helpers of linalg.h and `pinv_array` (model `Model/ExtC17R4Svd.lean`) -/
/-- `transpose` of an `m × n` block, every branch (the explicit 1×1, 2×2, 3×3 cases, the hand-unrolled square cases 4..10, the
general loop) -/
restate transpose_safe := PyamgV.C17R4.transposeM_safe
/-- one column pair of a `svd_jacobi` sweep (all three branches: skip, swap, rotate) -/
restate svd_jacobi_pair_safe := PyamgV.C17R4.svdPair_safe
/-- the sweep loop `while( (count > 0) && (sweep <= sweepmax) )` terminates within `sweepmax + 1 - sweep` sweeps -/
restate svd_jacobi_sweeps_terminate := PyamgV.C17R4.svdWhile_safe
/-- `svd_jacobi` of an `m × n` block (`m ≥ n`, else the early return): `U` with `m·n`, `V` with `n²`, `S` with `n` entries -/
restate svd_jacobi_safe := PyamgV.C17R4.svdJacobi_safe
/-- `pinv_array`: `m` blocks of `n × n` values, both values of `TransA` -/
restate pinv_array_safe := PyamgV.C17R4.pinvArray_safe
/-! ### extension E32: `svd_solve` and `evolution_strength_helper` (model `Model/ExtC17R4Evo.lean`) -/
/-- `svd_solve` of an `m × n` system with the three regions of `work` (`U`, `V`, `x`) as separate arrays -/
restate svd_solve_safe := PyamgV.C17R4.svdSolve_safe
/-- the computed `max_length` bounds every row length (the size of the work arrays `z`, `zhat`, `DBi`, `Bi`) -/
restate evolution_strength_max_length := PyamgV.C17R4.esMaxLen_safe
/-- the assembly of the local matrix `LHS` from the packed rows of `BDB` (offsets `tri`, see `calc_BtB_packed_offsets`) -/
restate evolution_strength_lhs_safe := PyamgV.C17R4.esLhs_safe
/-- `evolution_strength_helper`: any `NullDim`, `BDBCols ≥ NullDim(NullDim+1)/2` -/
restate evolution_strength_helper_safe := PyamgV.C17R4.evolutionHelper_safe
/-! ### extension E32: `QR`, `upper_tri_solve`, `least_squares`, `dense_GMRES` and `approx_ideal_restriction_pass2` (model
`Model/ExtC17R4Air.lean`) -/
/-- `QR` (Householder) of an `m × n` block, both storage orders: `A`, the local `Q` (`m²`) and `v` (`m - j`) -/
restate qr_safe := PyamgV.C17R4.qrM_safe
/-- `upper_tri_solve`, both storage orders, `m ≥ n` or `m < n` -/
restate upper_tri_solve_safe := PyamgV.C17R4.upperTriSolve_safe
/-- `least_squares` -/
restate least_squares_safe := PyamgV.C17R4.leastSquares_safe
/-- `dense_GMRES`, `maxiter ≥ 0`, with and without the diagonal preconditioning: `V` (`maxiter·n`), `H` (`maxiter·(maxiter+1)`), `g` (`n+1`) -/
restate dense_gmres_safe := PyamgV.C17R4.denseGmres_safe
/-- one row of `approx_ideal_restriction_pass2` -/
restate approx_ideal_restriction_pass2_row_safe := PyamgV.C17R4.airP2Row_safe
/-- `approx_ideal_restriction_pass2`: `Rp` as the first pass computes it (`RpOK`), `Rj`, `Rx` with `Rp[|Cpts|]` entries, both solvers -/
restate approx_ideal_restriction_pass2_safe := PyamgV.C17R4.airPass2_safe
/-- the hypothesis `RpOK` is what the first-pass model (`approx_ideal_restriction_pass1_safe`) returns -/
restate approx_ideal_restriction_pass1_establishes_RpOK := PyamgV.C17R4.airPass1_establishes_RpOK
/-- `block_approx_ideal_restriction_pass2` (model `Model/ExtC17R4AirB.lean`): any block size, `Ax` with `blocksize²` values per stored
block, `Rx` with `blocksize²` values per entry of `Rj`, both solvers (QR + `upper_tri_solve` per row of a block / `dense_GMRES` on a copy) -/
restate block_approx_ideal_restriction_pass2_safe := PyamgV.C17R4.airBPass2_safe
/-- `bellman_ford_balanced` (executable model `Bal.kernel` / `Bal.wrapper` of `Model/ExtC18Bal.lean`, whose data dependent
accesses `s[m[i]]`, `s[m[j]]`, `pc[p[j]]` are checked; driver ops `ext_c18_bfbal*`, compared with the kernel by this check
too): on a structurally valid graph with positive weights on a grid coarser than the tolerance the public call never makes
an out-of-bounds access (it returns, raises a Python error, or throws "too many iterations") … -/
restate bellman_ford_balanced_no_fault := PyamgV.Bal.wrapper_no_fault
/-- … and neither does the loop from any state satisfying the invariant `Bal.Inv` (the wrapper's initial arrays, the ones
of `balanced_lloyd_cluster`, the final state of an earlier call), for any number of sweeps -/
restate bellman_ford_balanced_loop_no_fault := PyamgV.Bal.loop_no_fault

/-! ### extension E46 (round 5): the last kernel, `center_nodes`, and termination INSIDE the checked models of the two parallel
independent-set kernels

`center_nodes` is E34's executable model `BalLloyd.centerNodes` (`Model/ExtC12Bal.lean`; `none` = an out-of-bounds index or a read of an
uninitialised entry of the `np.empty` work arrays `C`, `L`; compared exactly with the rebuilt kernel by this check, op
`ext_c12_center_nodes`). -/
/-- **`center_nodes` never leaves its arrays**: structurally valid matrix, non-negative weights, ANY pattern (clusters connected or
not); the bookkeeping invariant `KInv` of the Lloyd loop (ids in range, exact size array, centres inside their clusters), every node
assigned, no cluster above `max_size`, predecessors are nodes: the model returns (`some`), and the returned state satisfies the same
hypotheses again -/
restate center_nodes_no_fault := PyamgV.C17R5.centerNodes_no_fault
restate center_nodes_fault_unreachable := PyamgV.C17R5.centerNodes_ne_none
/-- the counting sort: `C[Cptr[m[i]]]` stays inside `C` because the cluster sizes add up to at most `n` -/
restate center_nodes_bucket_fill_in_range := PyamgV.C17R5.fill_no_fault
restate center_nodes_cluster_sizes_sum := PyamgV.C17R5.pre_total_le
/-- `L[C[Cptr[a] + j]] = j` only reads initialised slots of `C` -/
restate center_nodes_local_indices_in_range := PyamgV.C17R5.setL_no_fault
/-- every member of a cluster sits in its bucket (so `L[j]` is initialised for every neighbour `j` inside the cluster) -/
restate center_nodes_bucket_surjective := PyamgV.C17R5.buckets_surj
/-- `floyd_warshall` as `center_nodes` calls it (after `fill(D, inf)`, `fill(P, -1)`), any pattern: in range, no uninitialised `L`
entry read, **`D[ij]` finite → `P[ij]` is a node** (`FwOK`), and pairs joined by a walk inside the cluster end finite -/
restate floyd_warshall_cluster_ok := PyamgV.C17R5.fwRun_ok
/-- on a strongly connected cluster all `N × N` distances end finite (the classical Floyd–Warshall induction, `Rk`) -/
restate floyd_warshall_connected_all_finite := PyamgV.C17R5.fwRun_connected
restate floyd_warshall_rounds_discover_walks := PyamgV.C17R5.lwalk_rk
/-- a relaxation keeps "finite → node" and never turns a finite distance infinite -/
restate floyd_warshall_relax_ok := PyamgV.C17R5.fwRelax_ok
/-- a new centre `i` has a finite `q[i]`, so the whole row `D[i, ·]` is finite, so every `P[i, j]` written into `p` is a node --
also when the cluster is not strongly connected -/
restate center_nodes_new_centre_row_finite := PyamgV.C17R5.qOf_fin
restate center_nodes_selection_in_cluster := PyamgV.C17R5.select_no_fault
restate center_nodes_update_in_range := PyamgV.C17R5.moveCentre_no_fault
/-- `bellman_ford_balanced` from ANY state of the Lloyd loop (`KInv` and "assigned nodes have a node as predecessor"): no
out-of-bounds access, both invariants kept (weights `≥ tol`; no grid assumption) -/
restate bellman_ford_balanced_lloyd_state_no_fault := PyamgV.C17R5.kernel_ok
/-- **the Lloyd loop of `balanced_lloyd_cluster` never leaves its arrays**: every call of `bellman_ford_balanced` and of
`center_nodes` inside `while (changed1 or changed2) and it < maxiter`, any number of iterations: the hypotheses of
`center_nodes_no_fault` hold at every call site -/
restate balanced_lloyd_loop_no_fault := PyamgV.C17R5.innerLoop_no_fault
/-- … from the state every rebalance round starts with (distinct centres inside the graph) -/
restate balanced_lloyd_round_no_fault := PyamgV.C17R5.round_no_fault

/-- one pass of `maximal_independent_set_parallel` from ANY vector: the number of `active` entries drops when there is one (the
maximal active node is decided), a pass without active node leaves `active_nodes == false`, and `active_nodes == false` means
no `active` entry is left -/
restate mis_parallel_pass_decides := PyamgV.C17R5.mpPass_term
/-- **`maximal_independent_set_parallel` with `max_iters = -1` terminates INSIDE the checked model**: any structurally valid
pattern, `WOrd` weights, `C ≠ active`, `F ≠ active`, any start vector: `∃ r, model = some r ∧ Safe r ..` for every fuel `≥ n + 1`,
and no `active` entry is left -/
restate mis_parallel_checked_total := PyamgV.C17R5.misParallel_total
/-- … the instance the driver op `c17r5_mis_parallel` runs (rational weights, fuel `n + 1`) -/
restate mis_parallel_checked_total_rat := PyamgV.C17R5.misParallel_total_rat
/-- a run with any `max_iters` that starts without entry `C` returns a partial independent set (any pattern, any weights) -/
restate mis_parallel_checked_partial := PyamgV.C17R5.misParallel_partial
/-- `csr_propagate_max`: the checked model computes the function model `G.propagateMax` of C18 (keys `int` / natural numbers) -/
restate csr_propagate_max_refines := PyamgV.C17R5.propagateMax_ref
restate csr_propagate_max_rounds_refine := PyamgV.C17R5.propagateK_ref
/-- one outer iteration of `maximal_independent_set_k_parallel`: checked model = function model `G.misKIter` -/
restate mis_k_parallel_iteration_refines := PyamgV.C17R5.mkIter_ref
/-- **`maximal_independent_set_k_parallel` with `max_iters = -1` terminates INSIDE the checked model** under the conditions of
`misK_total` (C18): symmetric structurally valid pattern, `k ≥ 0`, strictly totally ordered weights above the marker `-1`:
`∃ r, model = some r ∧ Safe r ..` for every fuel `≥ n + 1`; the value is a distance-`k` maximal independent set and equals what the
function model returns -/
restate mis_k_parallel_checked_total := PyamgV.C17R5.misKParallel_total
/-- … the instance the driver op `c17r5_mis_k_parallel` runs -/
restate mis_k_parallel_checked_total_rat := PyamgV.C17R5.misKParallel_total_rat
/-- the rational weight operations of the driver satisfy the hypotheses on the abstract comparisons -/
restate rat_weights_order_like := PyamgV.C17R5.ratW_ord
restate rat_weights_agree := PyamgV.C17R5.ratW_agree

/-! ### non-vacuity: the flag is true on a well-formed input and false on a malformed one -/
/-- `rs_cf_splitting`, whole-kernel model: path 0-1-2-3 runs clean ... -/
example : (PyamgV.RS.runCk PyamgV.RS.path4 PyamgV.RS.path4).ok = true := by decide
/-- ... a column index `5 >= n = 2` in `Tj` is caught ... -/
example : (PyamgV.RS.runCk ⟨2, #[0,1,2], #[1,0]⟩ ⟨2, #[0,1,2], #[1,5]⟩).ok = false := by decide
/-- ... and so is a decreasing row pointer of `T` (negative lambda) -/
example : (PyamgV.RS.runCk ⟨2, #[0,1,2], #[1,0]⟩ ⟨2, #[0,2,1], #[1,0]⟩).ok = false := by decide
/-- path 0–1–2: `naive_aggregation` model, two aggregates, no fault -/
example : (C17.naiveAgg 3 #[0,1,3,4] #[1,0,2,1] #[7,7,7] #[9,9,9]).ok = true := by decide
/-- a column index `5 ≥ n = 2` is caught by the flag -/
example : (C17.naiveAgg 2 #[0,1,2] #[5,0] #[0,0] #[0,0]).ok = false := by decide
/-- an unreachable `stop` (`0, 3, 2` on 2 rows steps over it) is not admissible: the model runs off
the arrays / out of fuel instead of terminating cleanly -/
example : (C17.gsIndexed (α := Int) ⟨(· * ·), (· + ·), (· - ·), (· / ·), 0, 1, (· == 0), id, max, 0, id⟩
    ⟨2, #[0,1,2], #[0,1], #[1,1]⟩ #[0,0] #[0,1] 0 3 2 3 #[0,0]).isNone = true := by decide

/-- integer scalars for the examples below -/
def exOps : C17.KOps Int := ⟨(· * ·), (· + ·), (· - ·), (· / ·), 0, 1, (· == 0), fun a => (a.natAbs : Int), max, 0, id⟩
def exIOps : C17.IOps Int := ⟨fun a => -a, fun a => decide (a < 0), fun a b => decide (0 < a.natAbs ∧ 0 ≤ b.natAbs)⟩
/-- one 2×2 diagonal block, backward sweep: `bsr_gauss_seidel` model terminates with the flag set -/
example : ((C17.bsrGaussSeidel exOps ⟨1, #[0,1], #[0], #[2,1,1,2]⟩ #[4,4] 2 0 (-1) (-1) 1 #[0,0]).map (·.ok)) = some true := by decide
/-- the same call with `x` one entry short faults -/
example : ((C17.bsrGaussSeidel exOps ⟨1, #[0,1], #[0], #[2,1,1,2]⟩ #[4,4] 2 0 (-1) (-1) 1 #[0]).map (·.ok)) = some false := by decide
/-- `PpOK` is satisfiable: F row 0 with strong C neighbours 1 and 2, `Pp = [0,2,3,4]`; the direct pass-2 model runs clean … -/
example : (C17.directPass2 exOps exIOps ⟨3, #[0,3,4,5], #[0,1,2,1,2], #[4,-1,-1,1,1]⟩ ⟨3, #[0,2,2,2], #[1,2], #[-1,-1]⟩
    #[0,1,1] #[0,2,3,4] #[-7,-7,-7,-7] #[0,0,0,0]).ok = true := by decide
/-- … and faults when `Pj` is one entry shorter than `Pp[n]` -/
example : (C17.directPass2 exOps exIOps ⟨3, #[0,3,4,5], #[0,1,2,1,2], #[4,-1,-1,1,1]⟩ ⟨3, #[0,2,2,2], #[1,2], #[-1,-1]⟩
    #[0,1,1] #[0,2,3,4] #[-7,-7,-7] #[0,0,0,0]).ok = false := by decide
/-- the first-pass model returns exactly that `Pp` -/
example : (C17.interpPass1 3 #[0,2,2,2] #[1,2] #[0,1,1] #[-7,-7,-7,-7]).val = #[0,2,3,4] := by decide
/-- quicksort on a reversed row of four entries terminates within its fuel -/
example : (C17.truncateRows exOps (fun a b => decide (a < b)) 2 ⟨1, #[0,4], #[0,1,2,3], #[4,3,2,1]⟩).ok = true := by decide

/-- E19: one 2×2 diagonal block, `indices = [0, 0]`: the `bsr_jacobi_indexed` model runs clean; it faults when `indices` names block row 1 -/
example : (C17.bsrJacobiIndexed exOps #[1] ⟨1, #[0,1], #[0], #[2,1,1,2]⟩ #[4,4] #[0,0] 2 #[0,0]).ok = true := by decide
example : (C17.bsrJacobiIndexed exOps #[1] ⟨1, #[0,1], #[0], #[2,1,1,2]⟩ #[4,4] #[1] 2 #[0,0]).ok = false := by decide
/-- E19: `WFsub` is satisfiable (two subdomains `{0,1}`, `{1}` of a 2×2 matrix, `Tp = [0,4,5]`): `extract_subblocks` runs clean,
and faults when `Tx` is one entry short -/
example : (C17.extractSubblocks exOps ⟨2, #[0,2,4], #[0,1,0,1], #[4,-1,-1,4]⟩ #[7,7,7,7,7] #[0,4,5] #[0,1,1] #[0,2,3] 2).val = #[4,-1,-1,4,4] := by decide
example : (C17.extractSubblocks exOps ⟨2, #[0,2,4], #[0,1,0,1], #[4,-1,-1,4]⟩ #[7,7,7,7] #[0,4,5] #[0,1,1] #[0,2,3] 2).ok = false := by decide
/-- E19: a subdomain listing node 0 three times on a 2-row matrix (longer than `nrows`): the Schwarz model terminates with the flag set -/
example : ((C17.schwarz exOps ⟨2, #[0,2,4], #[0,1,0,1], #[4,-1,-1,4]⟩ #[1,1] #[1,0,0,0,1,0,0,0,1] #[0,9] #[0,0,0] #[0,3] 1 2 0 1 1 2 #[0,0]).map (·.ok)) = some true := by decide
/-- E19: `cr_helper` on the path 0–1–2 with diagonal, all F, `e = B = 1`: the `while(true)` loop terminates inside its fuel -/
example : (C17.crHelper exOps ⟨fun a b => decide (b < a), id⟩ #[0,2,5,7] #[0,1,0,1,2,1,2] #[1,1,1] #[1,1,1] #[3,0,1,2] #[0,0,0] #[0,0,0] 0).ok = true := by decide
/-- … and the hypotheses `CrOrd` on the scalars hold for the integers -/
example : C17.CrOrd exOps ⟨fun a b => decide (b < a), id⟩ :=
  ⟨by decide, fun a h => by have : (0 : Int) < a := of_decide_eq_true h; show (a == 0) = false; exact beq_false_of_ne (by omega),
   fun a m h1 h2 => by
    have e1 : m < a := of_decide_eq_true h1
    have e2 : (0 : Int) < m := of_decide_eq_true h2
    exact decide_eq_true (by show (0 : Int) < a; omega)⟩
/-- E19: the pointer array of `incomplete_mat_mult_bsr`: 1×2 blocks times 2×1 blocks on a one-entry pattern -/
example : (C17.incompleteMatMultBsr exOps ⟨1, #[0,1], #[0], #[1,2]⟩ ⟨1, #[0,1], #[0], #[3,4]⟩ ⟨1, #[0,1], #[0], #[5]⟩ 1 1 2 1).val.1 = #[16] := by decide

/-- E19: two reflectors of length 2 applied backwards: the model terminates with the flag set; with `B` one entry short it faults -/
example : ((C17.applyHouseholders exOps #[1,0,0,1] 2 1 (-1) (-1) 2 #[1,1]).map (·.ok)) = some true := by decide
example : ((C17.applyHouseholders exOps #[1,0,0] 2 1 (-1) (-1) 2 #[1,1]).map (·.ok)) = some false := by decide

/-- E19: path 0–1 plus the isolated node 2: two components, the searches terminate inside their fuel -/
example : (C17.connectedComponents 3 #[0,1,2,2] #[1,0] #[7,7,7]).val = (#[0,0,1], 2) := by decide
example : (C17.connectedComponents 3 #[0,1,2,2] #[1,0] #[7,7,7]).ok = true := by decide

/-- E32: the directed path 0→1→2 with a self loop at 2: three colours by `vertex_coloring_mis`; a column index 5 faults -/
example : (C17R4.vertexColoringMis 3 #[0,1,2,3] #[1,2,2] #[7,7,7]).val = (#[0,1,0], 2) := by decide
example : (C17R4.vertexColoringMis 3 #[0,1,2,3] #[1,2,2] #[7,7,7]).ok = true := by decide
example : (C17R4.vertexColoringMis 3 #[0,1,2,3] #[1,5,2] #[7,7,7]).ok = false := by decide
/-- integer weights for the examples -/
def exWOps : C17R4.WOps Int := ⟨fun a b => decide (b < a), fun a b => decide (a = b), fun a i => a + i, fun i => i⟩
/-- E32: Jones-Plassmann on the triangle with equal weights terminates inside its fuel with the flag set; on the empty graph
(`n = 0`) the model returns `-1` like the kernel, without touching `x` -/
example : ((C17R4.vertexColoringJP exWOps 3 #[0,2,4,6] #[1,2,0,2,0,1] #[7,7,7] #[0,0,0] 4).map (fun r => (r.val.1, r.ok))) = some (#[2,1,0], true) := by decide
example : ((C17R4.vertexColoringJP exWOps 0 #[0] #[] #[] #[] 0).map (fun r => (r.val.2.2, r.ok))) = some (-1, true) := by decide

/-- E32: the hypothesis `WOrd` of the termination theorems holds for the integers -/
example : C17R4.WOrd exWOps :=
  ⟨fun a => by simp [exWOps], fun a b c h1 h2 => by simp [exWOps] at *; omega, fun a b c h1 h2 => by simp [exWOps] at *; omega,
   fun a b c h1 h2 => by simp [exWOps] at *; omega, fun a b c h1 h2 => by simp [exWOps] at *; omega⟩
/-- E32: `pairwise_aggregation` on the path 0–1–2 with weights 1: two aggregates, the loop ends inside its fuel; `y` too short faults -/
def exPwOps : C17R4.PwOps Int := ⟨fun a b => decide (b ≤ a), -1000⟩
example : (C17R4.pairwiseAgg exPwOps 3 #[0,1,3,4] #[1,0,2,1] #[1,1,1,1] #[7,7,7] #[9,9,9]).ok = true := by decide
example : (C17R4.pairwiseAgg exPwOps 3 #[0,1,3,4] #[1,0,2,1] #[1,1,1,1] #[7,7,7] #[9]).ok = false := by decide
/-- E32: `fit_candidates` with `K1 = 1`, `K2 = 2` on one aggregate of two nodes (integer scalars, `sqrt = id`): the pointer loops
terminate with the flag set; with `R` one entry short of `K2²` the run faults -/
def exFitOps : C17R4.FitOps Int := ⟨(· + ·), (· - ·), (· * ·), (· / ·), 0, 1, fun a => a * a, fun a b => b * a, id, fun a b => decide (b < a)⟩
example : (C17R4.fitCandidates exFitOps 0 1 1 2 #[0,2] #[0,1] #[7,7,7,7] #[1,0,1,1] #[7,7,7,7]).ok = true := by decide
example : (C17R4.fitCandidates exFitOps 0 1 1 2 #[0,2] #[0,1] #[7,7,7,7] #[1,0,1,1] #[7,7,7]).ok = false := by decide

/-- E32: `pinv_array` on one 2×2 block with integer scalars (`sqrt = id`): the sweep loop ends inside its fuel with the flag set;
with `AA` one entry short the run faults -/
def exSvOps : C17R4.SvOps Int :=
  { add := (· + ·), sub := (· - ·), mul := (· * ·), div := (· / ·), neg := fun a => -a, conj := id, re := id, nrm := fun a => (a.natAbs : Int),
    sqrt := id, abs := fun a => (a.natAbs : Int), sgn := fun a => if a < 0 then -1 else 1, zero := 0, one := 1, two := 2, fifty := 50, eps := 0,
    ofInt := id, lt := fun a b => decide (a < b), le := fun a b => decide (a ≤ b), eq := fun a b => decide (a = b) }
example : (C17R4.pinvArray exSvOps 0 #[2,0,0,1] 1 2 false).ok = true := by decide
example : (C17R4.pinvArray exSvOps 0 #[2,0,0] 1 2 false).ok = false := by decide

/-! E46: the hypotheses of `center_nodes_no_fault` are satisfiable: path 0–1–2 with unit weights, one cluster with centre 0,
`d = (0,1,2)`, `p = (0,0,1)`, `pc = (2,1,0)`, `s = (3)`, `max_size = 3` (the model moves the centre to node 1, `p = (1,1,1)`,
`pc = (0,3,0)`: control in `harness/props/c17.py`; with `p[1] = -1` or `max_size = 2` it faults) -/
def cnA : PyamgV.Bal.Csr := ⟨3, #[0,1,3,4], #[1,0,2,1], #[1,1,1,1]⟩
def cnSt : PyamgV.Bal.St := ⟨#[some 0, some 1, some 2], #[0,0,0], #[0,0,1], #[2,1,0], #[3]⟩
def cnX : PyamgV.BalLloyd.LSt := ⟨cnSt, #[0], #[], Array.replicate 3 none, Array.replicate 3 none⟩
theorem cn_dnn : ∀ j x, PyamgV.Bal.rdO cnSt.d j = some x → 0 ≤ x := by
  intro j x h
  have hj : j = 0 ∨ j = 1 ∨ j = 2 ∨ 3 ≤ j := by omega
  rcases hj with rfl | rfl | rfl | hj
  · have : x = 0 := by simpa [PyamgV.Bal.rdO, cnSt] using h.symm
    rw [this]
  · have : x = 1 := by simpa [PyamgV.Bal.rdO, cnSt] using h.symm
    rw [this]; decide
  · have : x = 2 := by simpa [PyamgV.Bal.rdO, cnSt] using h.symm
    rw [this]; decide
  · exfalso
    have : PyamgV.Bal.rdO cnSt.d j = none := by
      simp only [PyamgV.Bal.rdO, cnSt, Array.getD_eq_getD_getElem?]
      rw [Array.getElem?_eq_none (by simpa using hj)]
      rfl
    rw [this] at h; cases h
example : ∃ y ch, PyamgV.BalLloyd.centerNodes (1/100) cnA 3 cnX = some (y, ch) ∧ PyamgV.BalLloyd.KInv cnA.n 1 y.c y.st ∧
    y.st.m = cnX.st.m ∧ y.st.s = cnX.st.s ∧ y.cc.size = cnA.n ∧ y.l.size = cnA.n ∧ PyamgV.C17R5.PRange cnA.n y.st :=
  PyamgV.C17R5.centerNodes_no_fault (by norm_num) (by decide) (by decide)
    ⟨rfl, rfl, rfl, rfl, rfl, rfl, by decide, by decide, cn_dnn, by decide⟩ rfl rfl (by decide) (by decide)
    (by unfold PyamgV.C17R5.PRange; decide)

/-- E46: the hypotheses of the two termination theorems are satisfiable (integer weights, path 0–1–2) -/
example : C17R5.WAgree exWOps := ⟨fun _ _ => rfl, fun _ _ => rfl⟩
example : PyamgV.WOrd Int := ⟨fun a => by omega, fun a b => by omega, fun a b c => by omega, fun a b => by omega⟩
example : C17.WFm (C17.patS 3 #[0,1,3,4] #[1,0,2,1]) 3 := ⟨rfl, by decide, by decide, by decide, by decide, by decide⟩
theorem ex_adj (i : Nat) : (PyamgV.Ext.pg (C17R5.natG 3 #[0,1,3,4] #[1,0,2,1])).adj i =
    (List.range' (#[(0:Int),1,3,4].getD i 0).toNat ((#[(0:Int),1,3,4].getD (i+1) 0).toNat - (#[(0:Int),1,3,4].getD i 0).toNat)).map
      (fun q => (#[(1:Int),0,2,1].getD q 0).toNat) := C17R5.natG_row 3 _ _ i
example : PyamgV.GraphOK (PyamgV.Ext.pg (C17R5.natG 3 #[0,1,3,4] #[1,0,2,1])) := by
  have h0 : (PyamgV.Ext.pg (C17R5.natG 3 #[0,1,3,4] #[1,0,2,1])).adj 0 = [1] := by rw [ex_adj]; decide
  have h1 : (PyamgV.Ext.pg (C17R5.natG 3 #[0,1,3,4] #[1,0,2,1])).adj 1 = [0, 2] := by rw [ex_adj]; decide
  have h2 : (PyamgV.Ext.pg (C17R5.natG 3 #[0,1,3,4] #[1,0,2,1])).adj 2 = [1] := by rw [ex_adj]; decide
  have hn : (PyamgV.Ext.pg (C17R5.natG 3 #[0,1,3,4] #[1,0,2,1])).n = 3 := rfl
  refine ⟨?_, ?_⟩
  · intro i hi j hj
    rw [hn] at hi ⊢
    have : i = 0 ∨ i = 1 ∨ i = 2 := by omega
    rcases this with rfl | rfl | rfl
    · rw [h0] at hj; simp at hj; omega
    · rw [h1] at hj; simp at hj; omega
    · rw [h2] at hj; simp at hj; omega
  · intro i j hi hj
    rw [hn] at hi hj
    have hi' : i = 0 ∨ i = 1 ∨ i = 2 := by omega
    have hj' : j = 0 ∨ j = 1 ∨ j = 2 := by omega
    rcases hi' with rfl | rfl | rfl <;> rcases hj' with rfl | rfl | rfl <;> simp [h0, h1, h2]
/-- the directed path 0→1→2 with increasing weights needs three passes of the parallel MIS: fuel 2 runs out, fuel `n + 1 = 4` suffices -/
example : (C17R4.misParallel exWOps 3 #[0,1,2,2] #[1,2] (-1) 1 0 #[-1,-1,-1] #[0,1,2] (-1) 2).isNone = true := by decide
example : ((C17R4.misParallel exWOps 3 #[0,1,2,2] #[1,2] (-1) 1 0 #[-1,-1,-1] #[0,1,2] (-1) 4).map (fun r => (r.val, r.ok)))
    = some ((#[1,0,1], 2), true) := by decide
/-- MIS-1 on the path with weights `0,0,1` (above `-1`): fuel `n + 1` suffices, nodes 0 and 2 are selected; with the weight `-1` next
to a decided node the fuel runs out (the finding of C18) -/
example : ((C17R4.misKParallel exWOps 3 #[0,1,3,4] #[1,0,2,1] 1 #[-7,-7,-7] #[0,0,1] (-1) 4).map (fun r => (r.val, r.ok)))
    = some (#[1,0,1], true) := by decide
example : (C17R4.misKParallel exWOps 3 #[0,1,3,4] #[1,0,2,1] 1 #[-7,-7,-7] #[-1,0,1] (-1) 4).isNone = true := by decide

/-! ### interface facts regenerated from the working tree on every run (translator tie):
signatures and const-ness of every native kernel (which arrays a kernel may write) -/
theorem generated_kernels_relaxation : PyamgV.Facts.kernels_relaxation = PyamgV.Generated.kernels_relaxation := by decide
theorem generated_kernels_ruge_stuben : PyamgV.Facts.kernels_ruge_stuben = PyamgV.Generated.kernels_ruge_stuben := by decide
theorem generated_kernels_smoothed_aggregation : PyamgV.Facts.kernels_smoothed_aggregation = PyamgV.Generated.kernels_smoothed_aggregation := by decide
theorem generated_kernels_graph : PyamgV.Facts.kernels_graph = PyamgV.Generated.kernels_graph := by decide
theorem generated_kernels_air : PyamgV.Facts.kernels_air = PyamgV.Generated.kernels_air := by decide
theorem generated_kernels_linalg : PyamgV.Facts.kernels_linalg = PyamgV.Generated.kernels_linalg := by decide
theorem generated_kernels_evolution_strength : PyamgV.Facts.kernels_evolution_strength = PyamgV.Generated.kernels_evolution_strength := by decide
theorem generated_kernels_krylov : PyamgV.Facts.kernels_krylov = PyamgV.Generated.kernels_krylov := by decide

end PyamgV.Props.C17
