import PyamgV.Props.Restate
import PyamgV.Model.Facts
import PyamgV.Generated.Facts
import PyamgV.Proofs.Ck
import PyamgV.Proofs.Safe
import PyamgV.Proofs.BfsCk
import PyamgV.Proofs.SocCk
import PyamgV.Proofs.RsSafe
import PyamgV.Proofs.C17Safe
import PyamgV.Proofs.C17Safe2
import PyamgV.Proofs.C17Safe3
import PyamgV.Proofs.C17Safe4
import PyamgV.Proofs.C17Safe5
import PyamgV.Proofs.ExtC17Safe
import PyamgV.Proofs.ExtC17SafeBlock
import PyamgV.Proofs.ExtC17SafeInterp
import PyamgV.Proofs.ExtC17SafeTrunc
import PyamgV.Proofs.Bfs
import PyamgV.Proofs.CC
import PyamgV.Proofs.ColoringLoop
import PyamgV.Proofs.MisParTerm2
import PyamgV.Proofs.BellmanFordTerm

/-! # C17 — native kernels stay inside their arrays for every well-formed input

Models: *checked-execution* transcriptions of the C++ loops (`Proofs/Ck.lean`: every array access
goes through `rd`/`wr` with a signed index and clears the `ok` flag when it leaves the array; a
`for(i = start; i != stop; i += step)` loop returns `none` when it does not terminate).  The `.val`
of each model is compared exactly with the rebuilt kernel by `Driver/C17.lean` on every run, the
theorems below say that for **every** structurally valid CSR input of any size (`WF`/`WFm`: row
pointer of length `n+1`, non-negative, non-decreasing, last entry within `Aj`/`Ax`, column indices
in range -- nothing about sortedness, duplicates, diagonals or empty rows), buffers of the sizes the
Python callers allocate, and every *admissible* sweep range (`Adm`: `stop` is reached from `start`
in `k` steps through rows `0..n-1`) the run terminates with `ok = true`.  Scalars are abstract, so
the statements cover all instantiated value types.  C++ object lifetimes, integer overflow and
`std::vector` internals are outside the model (sanitizer search, see `harness/props/c17.py`). -/
namespace PyamgV.Props.C17
open PyamgV PyamgV.Ck

/-! ### relaxation.h -/
/-- `gauss_seidel`: terminates and stays in bounds for every admissible `(start, stop, step)` -/
restate gauss_seidel_safe := PyamgV.Ck.sweep_safe
/-- `sor_gauss_seidel` (any fuel `≥ k`) -/
restate sor_gauss_seidel_safe := PyamgV.C17.sorSweep_safe
/-- `jacobi`: copy loop + update loop; `omega` has at least one entry, `temp` has `n` -/
restate jacobi_safe := PyamgV.C17.jacobi_safe
/-- `jacobi_indexed`: rows from an index array with entries in `0..n-1` -/
restate jacobi_indexed_safe := PyamgV.C17.jacobiIndexed_safe
/-- `gauss_seidel_indexed`: strided positions of `Id`, rows `Id[i]` -/
restate gauss_seidel_indexed_safe := PyamgV.C17.gsIndexed_safe
/-- `gauss_seidel_ne` on an `n × m` matrix (`x` per column, `b`, `D_inv` per row) -/
restate gauss_seidel_ne_safe := PyamgV.C17.gsNe_safe
/-- `gauss_seidel_nr` on CSC arrays (`x`, `D_inv` per column, `r` per row) -/
restate gauss_seidel_nr_safe := PyamgV.C17.gsNr_safe
/-- `jacobi_ne` (its loops are `i < row_stop`): `0 ≤ start`, `stop ≤ n`, `step > 0`, terminates within `stop - start` steps -/
restate jacobi_ne_safe := PyamgV.C17.jacobiNe_safe
/-- an admissible range visits at most `n` rows (so fuel `n` always suffices) -/
restate admissible_at_most_n_rows := PyamgV.C17.adm_le

/-- the two call shapes of `relaxation.py` are admissible: forward `(0, n, 1)` … -/
theorem adm_forward (n : Nat) : Adm n 0 n 1 n :=
  ⟨by decide, by omega, fun j hj => by omega⟩
/-- … and backward `(n-1, -1, -1)` -/
theorem adm_backward (n : Nat) : Adm n ((n : Int) - 1) (-1) (-1) n :=
  ⟨by decide, by omega, fun j hj => by omega⟩
/-- strided sweeps `(s, s + k·d, d)`, `d > 0`, are admissible as long as the last visited row exists -/
theorem adm_strided (n : Nat) (s d : Int) (k : Nat) (hs : 0 ≤ s) (hd : 0 < d)
    (hlast : s + ((k : Int) - 1) * d < (n : Int)) : Adm n s (s + (k : Int) * d) d k := by
  refine ⟨by omega, rfl, fun j hj => ?_⟩
  have h1 : 0 ≤ (j : Int) * d := Int.mul_nonneg (by omega) (by omega)
  have h2 : (j : Int) * d ≤ ((k : Int) - 1) * d :=
    Int.mul_le_mul_of_nonneg_right (by omega) (by omega)
  omega

/-! ### ruge_stuben.h -/
/-- `classical_strength_of_connection_abs` and `_min` (the same loops; `abs`: `norm = |.|`, start `numeric_limits::min()`;
`min`: `norm a = -a`, start 0 -- the scalar operations are parameters of the theorem): the output cursor never passes
the input position -/
restate classical_strength_safe := PyamgV.SocCk.kernel_safe
/-- `maximum_row_value` -/
restate maximum_row_value_safe := PyamgV.C17.maxRowValue_safe
/-- `rs_direct_interpolation_pass1` and `rs_classical_interpolation_pass1` (same loops) -/
restate interpolation_pass1_safe := PyamgV.C17.interpPass1_safe
/-- `rs_cf_splitting`: every index of the bucket moves (`incr`, `decr`, one `step`) is in range,
from the bucket invariant `BInv` and the value invariant `VInv` -/
restate rs_incr_bounds := PyamgV.RS.incr_bounds
restate rs_decr_bounds := PyamgV.RS.decr_bounds
restate rs_step_bounds := PyamgV.RS.step_bounds

/-! ### smoothed_aggregation.h, linalg.h -/
/-- `symmetric_strength_of_connection`: the private `diags` vector and the output cursor stay in range -/
restate symmetric_strength_safe := PyamgV.C17.symSoc_safe
/-- `naive_aggregation`: `y[next_aggregate-1]` is in range because `next_aggregate - 1 ≤ i` -/
restate naive_aggregation_safe := PyamgV.C17.naiveAgg_safe
/-- `standard_aggregation`, any structurally valid pattern (symmetric or not): the sentinels `0` / `-n` and the root
writes `y[next-1]` (pass 1), `y[next]` (pass 3) stay in range; the pass-3 bound is the counting invariant
`next + #{unmarked rows ≥ i} ≤ n`; the returned count lies in `0..n` -/
restate standard_aggregation_safe := PyamgV.C17.stdAgg_safe
/-- `csc_scale_columns` -/
restate csc_scale_columns_safe := PyamgV.C17.scaleColumns_safe
/-- `csc_scale_rows` -/
restate csc_scale_rows_safe := PyamgV.C17.scaleRows_safe

/-! ### evolution_strength.h, air.h -/
/-- `apply_distance_filter` -/
restate apply_distance_filter_safe := PyamgV.C17.distFilter_safe
/-- `apply_absolute_distance_filter` -/
restate apply_absolute_distance_filter_safe := PyamgV.C17.absDistFilter_safe
/-- `min_blocks`: `Sx` of length `n_blocks·blocksize`, `Tx` of length `n_blocks` -/
restate min_blocks_safe := PyamgV.C17.minBlocks_safe
/-- `one_point_interpolation`: the private `pointInd` vector and the cursor `next ≤ row` into `Pj`, `Px` (length `n`) -/
restate one_point_interpolation_safe := PyamgV.C17.onePoint_safe

/-! ### graph.h -/
/-- `bellman_ford`: every pass stays inside `d`, `m`, `p` and the CSR arrays, for any number of passes
(termination: `bellman_ford_total`) -/
restate bellman_ford_safe := PyamgV.C17.bellmanFord_safe
/-- `maximal_independent_set_serial` (flag-threading style) -/
restate mis_serial_safe := PyamgV.Safe.misSerial_safe
/-- `breadth_first_search`: `order[N]` is in range by the counting invariant `N + #unlabelled = n` -/
restate bfs_safe := PyamgV.BfsCk.bfs_safe
/-- termination of the `while` loops of graph.h (proof-side models, also run by the driver):
BFS finishes within `n+1` rounds … -/
restate bfs_total := PyamgV.Bfs.bfs_total
/-- … connected components within fuel `n` … -/
restate cc_total := PyamgV.CC.cc_total
/-- … MIS colouring within `n+1` rounds … -/
restate coloring_total := PyamgV.Col.coloring_total
/-- … the parallel MIS within `n` passes (any weights) … -/
restate mis_parallel_total := PyamgV.misParallel_total
/-- … Bellman–Ford within `n` passes (non-negative weights) -/
restate bellman_ford_total := PyamgV.BF.bellmanFord_total

/-! ### extension E7: eleven more kernels (models in `Model/ExtC17Ck*.lean`, driver ops `ext_c17_*`)

BSR matrices: `WFb G bs` = structurally valid block pattern with `G.n` block rows/columns and `bs²` values
per stored block; nested loops that could fail to terminate (`k != step_end` point sweeps, the merge
`while`, the quicksort recursion) run on fuel and clear the flag when it runs out, so `ok = true`
includes their termination. -/
/-- the dense helper `gemm` in the mode the relaxation kernels use (`'F','F','F'`, overwrite), any six dimensions with
`Brows ≤ Acols`, `Arows·Bcols ≤ Srows·Scols`, operands at arbitrary offsets inside their arrays -/
restate gemm_safe := PyamgV.C17.gemmFF_safe
/-- `bsr_gauss_seidel`: any block size, every admissible block-row range, forward and backward point sweeps in the
diagonal blocks; `x`, `b` of length `n·blocksize` -/
restate bsr_gauss_seidel_safe := PyamgV.C17.bsrGaussSeidel_safe
/-- `bsr_jacobi`: additionally the copy loop `temp[0..x_size) = x` and `omega[0]` -/
restate bsr_jacobi_safe := PyamgV.C17.bsrJacobi_safe
/-- `block_jacobi`: `Tx` holds `n·blocksize²` values; strided copy loop + strided sweep -/
restate block_jacobi_safe := PyamgV.C17.blockJacobi_safe
/-- `block_gauss_seidel`: the last `gemm` of a block row writes into `x` at offset `i·blocksize` -/
restate block_gauss_seidel_safe := PyamgV.C17.blockGaussSeidel_safe
/-- `rs_direct_interpolation_pass2`: with `Pp` as the first pass computes it (`PpOK`) and `Pj`, `Px` of at least `Pp[n]`
entries, the cursor stays below `Pp[i+1]` (counting invariant) and the renumbering `Pj[k] = map[Pj[k]]` only meets node
numbers (every slot below `Pp[n]` has been written) -/
restate rs_direct_interpolation_pass2_safe := PyamgV.C17.directPass2_safe
/-- `rs_classical_interpolation_pass2`, `modified` or not -/
restate rs_classical_interpolation_pass2_safe := PyamgV.C17.classicalPass2_safe
/-- the hypothesis `PpOK` of the two theorems above is what the first-pass model (`interpolation_pass1_safe`) returns -/
restate interpolation_pass1_establishes_PpOK := PyamgV.C17.interpPass1_spec
/-- `remove_strong_FF_connections` (four nested loops, `break` on `dependence`) -/
restate remove_strong_FF_connections_safe := PyamgV.C17.removeFF_safe
/-- `filter_matrix_rows`, `lump` or not; rows without a diagonal never reach `Ax[diag_ind]` with `diag_ind = -1`
because nothing is below the threshold `theta·0` -/
restate filter_matrix_rows_safe := PyamgV.C17.filterRows_safe
/-- `qsort_twoarrays`: the recursion terminates within fuel `right - left`, all swaps inside `[left, right]` -/
restate qsort_twoarrays_safe := PyamgV.C17.qsortTwo_safe
/-- `truncate_rows_csr` (`k ≥ 0`), sort + zeroing of the `rowlen - k` smallest entries of every long row -/
restate truncate_rows_csr_safe := PyamgV.C17.truncateRows_safe
/-- the merge loop of `my_inner` terminates within `(A_end - A_pos) + (B_end - B_pos)` iterations, in range -/
restate my_inner_while_safe := PyamgV.C17.imWhile_safe
/-- `incomplete_mat_mult_csr`: `A` CSR, `B` CSC (sorted or not), `S` any valid pattern with `≤ A.n` rows and columns `< B.n` -/
restate incomplete_mat_mult_csr_safe := PyamgV.C17.incompleteMatMult_safe

/-! ### non-vacuity: the flag is true on a well-formed input and false on a malformed one -/
/-- path 0–1–2: `naive_aggregation` model, two aggregates, no fault -/
example : (C17.naiveAgg 3 #[0,1,3,4] #[1,0,2,1] #[7,7,7] #[9,9,9]).ok = true := by decide
/-- a column index `5 ≥ n = 2` is caught by the flag -/
example : (C17.naiveAgg 2 #[0,1,2] #[5,0] #[0,0] #[0,0]).ok = false := by decide
/-- an unreachable `stop` (`0, 3, 2` on 2 rows steps over it) is not admissible: the model runs off
the arrays / out of fuel instead of terminating cleanly -/
example : (C17.gsIndexed (α := Int) ⟨(· * ·), (· + ·), (· - ·), (· / ·), 0, 1, (· == 0), id, max, 0, id⟩
    ⟨2, #[0,1,2], #[0,1], #[1,1]⟩ #[0,0] #[0,1] 0 3 2 3 #[0,0]).isNone = true := by decide

/-- integer scalars for the examples below -/
def exOps : C17.KOps Int := ⟨(· * ·), (· + ·), (· - ·), (· / ·), 0, 1, (· == 0), fun a => (a.natAbs : Int), max, 0, id⟩
def exIOps : C17.IOps Int := ⟨fun a => -a, fun a => decide (a < 0), fun a b => decide (0 < a.natAbs ∧ 0 ≤ b.natAbs)⟩
/-- one 2×2 diagonal block, backward sweep: `bsr_gauss_seidel` model terminates with the flag set -/
example : ((C17.bsrGaussSeidel exOps ⟨1, #[0,1], #[0], #[2,1,1,2]⟩ #[4,4] 2 0 (-1) (-1) 1 #[0,0]).map (·.ok)) = some true := by decide
/-- the same call with `x` one entry short faults -/
example : ((C17.bsrGaussSeidel exOps ⟨1, #[0,1], #[0], #[2,1,1,2]⟩ #[4,4] 2 0 (-1) (-1) 1 #[0]).map (·.ok)) = some false := by decide
/-- `PpOK` is satisfiable: F row 0 with strong C neighbours 1 and 2, `Pp = [0,2,3,4]`; the direct pass-2 model runs clean … -/
example : (C17.directPass2 exOps exIOps ⟨3, #[0,3,4,5], #[0,1,2,1,2], #[4,-1,-1,1,1]⟩ ⟨3, #[0,2,2,2], #[1,2], #[-1,-1]⟩
    #[0,1,1] #[0,2,3,4] #[-7,-7,-7,-7] #[0,0,0,0]).ok = true := by decide
/-- … and faults when `Pj` is one entry shorter than `Pp[n]` -/
example : (C17.directPass2 exOps exIOps ⟨3, #[0,3,4,5], #[0,1,2,1,2], #[4,-1,-1,1,1]⟩ ⟨3, #[0,2,2,2], #[1,2], #[-1,-1]⟩
    #[0,1,1] #[0,2,3,4] #[-7,-7,-7] #[0,0,0,0]).ok = false := by decide
/-- the first-pass model returns exactly that `Pp` -/
example : (C17.interpPass1 3 #[0,2,2,2] #[1,2] #[0,1,1] #[-7,-7,-7,-7]).val = #[0,2,3,4] := by decide
/-- quicksort on a reversed row of four entries terminates within its fuel -/
example : (C17.truncateRows exOps (fun a b => decide (a < b)) 2 ⟨1, #[0,4], #[0,1,2,3], #[4,3,2,1]⟩).ok = true := by decide

/-! ### interface facts regenerated from the working tree on every run (translator tie):
signatures and const-ness of every native kernel (which arrays a kernel may write) -/
theorem generated_kernels_relaxation : PyamgV.Facts.kernels_relaxation = PyamgV.Generated.kernels_relaxation := by decide
theorem generated_kernels_ruge_stuben : PyamgV.Facts.kernels_ruge_stuben = PyamgV.Generated.kernels_ruge_stuben := by decide
theorem generated_kernels_smoothed_aggregation : PyamgV.Facts.kernels_smoothed_aggregation = PyamgV.Generated.kernels_smoothed_aggregation := by decide
theorem generated_kernels_graph : PyamgV.Facts.kernels_graph = PyamgV.Generated.kernels_graph := by decide
theorem generated_kernels_air : PyamgV.Facts.kernels_air = PyamgV.Generated.kernels_air := by decide
theorem generated_kernels_linalg : PyamgV.Facts.kernels_linalg = PyamgV.Generated.kernels_linalg := by decide
theorem generated_kernels_evolution_strength : PyamgV.Facts.kernels_evolution_strength = PyamgV.Generated.kernels_evolution_strength := by decide
theorem generated_kernels_krylov : PyamgV.Facts.kernels_krylov = PyamgV.Generated.kernels_krylov := by decide

end PyamgV.Props.C17
