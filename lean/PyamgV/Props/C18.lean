import PyamgV.Props.Restate
import PyamgV.Model.Facts
import PyamgV.Generated.Facts
import PyamgV.Proofs.Mis
import PyamgV.Proofs.MisInstantiate
import PyamgV.Proofs.MisParTerm2
import PyamgV.Proofs.Bfs
import PyamgV.Proofs.CC
import PyamgV.Proofs.ColoringLoop
import PyamgV.Proofs.BellmanFordTerm
import PyamgV.Proofs.Checker
import PyamgV.Proofs.ExtGraphColor
import PyamgV.Proofs.ExtGraphMisK
import PyamgV.Proofs.ExtC18Bal
import PyamgV.Proofs.ExtC18Rcm

/-! # C18 — graph algorithms return what their names promise

Models: `Model/KGraph.lean` (CSR-array kernels of graph.h, compared exactly with the rebuilt
kernels on every run) and their proof-side forms over `Graph = (n, adj)`; `kgraph_misSerial`
identifies the two for the serial MIS (`adj := G.row`).  All theorems hold for every symmetric
graph of any size (self loops allowed), every weight assignment and every seed. -/
namespace PyamgV.Props.C18

/-- serial MIS: independent, and every node is in the set or adjacent to it -/
restate mis_serial_correct := PyamgV.misSerial_correct
/-- the validated CSR-array model is the proof-side model with `adj := G.row` -/
restate mis_serial_model_is_kernel_model := PyamgV.kgraph_misSerial
/-- parallel (Luby-style) MIS: for arbitrary weights `n` passes suffice, result independent + maximal -/
restate mis_parallel_total := PyamgV.misParallel_total
/-- breadth-first levels = hop distances, -1 = unreachable, `n+1` rounds suffice -/
restate bfs_total := PyamgV.Bfs.bfs_total
/-- connected components: same label ⇔ joined by a walk; labels are exactly `0..K-1` -/
restate cc_total := PyamgV.CC.cc_total
/-- MIS colouring: terminates within `n` rounds, proper, colours exactly `0..K-1` -/
restate coloring_total := PyamgV.Col.coloring_total
/-- Bellman–Ford with non-negative weights: exits within `n` passes; finite `d[j]` is the length of
a shortest walk from a centre labelled `m[j]`, `∞` = unreachable (any edge order) -/
restate bellman_ford_total := PyamgV.BF.bellmanFord_total
restate bellman_ford_spec := PyamgV.BF.bellmanFord_spec
/-- the Boolean checker applied to outputs of the real code is equivalent to the specification -/
restate check_mis_iff := PyamgV.Chk.checkMIS_iff
restate mis_serial_passes_checker := PyamgV.Chk.misSerial_passes

/-! ### extension (E3): Jones–Plassmann / LDF colourings and the distance-k parallel MIS.
The statements are about the validated CSR-array models of `Model/ExtGraph.lean` themselves
(`G.coloringJP`, `G.coloringLDF`, `G.misK`: the definitions the driver ops `ext_color_jp`,
`ext_color_ldf`, `ext_mis_k` execute), for a CSR graph `Gc` whose adjacency `pg Gc` is symmetric. -/
/-- one sweep of the validated parallel-MIS model (`max_iters = 1`) is the proof-side sweep `parPass` -/
restate ext_sweep_model_is_kernel_model := PyamgV.Ext.misParPass_fst
/-- common loop of JP/LDF, any ordered weight type, any per-round weight update: ends within `n`
rounds, proper colouring, colours exactly `0..K-1`, `max_element` = `K-1` -/
restate par_coloring_total := PyamgV.Ext.parColoring_total
/-- `vertex_coloring_jones_plassmann`, every weight vector (ties allowed) -/
restate coloring_jp_total := PyamgV.Ext.coloringJP_total
/-- `vertex_coloring_LDF`, every weight vector (ties allowed) -/
restate coloring_ldf_total := PyamgV.Ext.coloringLDF_total
/-- `k` rounds of `csr_propagate_max` give every node the (value, index)-maximum of its distance-`k` ball -/
restate propagate_max_spec := PyamgV.Ext.propagate_spec
/-- `maximal_independent_set_k_parallel`, `max_iters = -1`, any `k`, weights `> -1` (the kernel's
marker value): ends within `n` iterations; result 0/1, independent and maximal at distance `k` -/
restate mis_k_total := PyamgV.Ext.misK_total
restate mis_k_total_int := PyamgV.Ext.misK_total_int
/-- `Ball` (the recursion of the propagation) is "joined by a walk of at most `k` edges" -/
restate ball_is_walk_distance := PyamgV.Ext.ball_iff

/-! non-vacuity of the extension: on the path 0–1–2–3 (CSR) with tied weights the models return a
2-colouring and, for `k = 2`, the distance-2 MIS `{0, 3}` -/
example : G.coloringJP ⟨4, #[0,1,3,5,6], #[1,0,2,1,3,2]⟩ #[1,1,1,1] = some (#[0,1,0,1], 1) := by decide
example : G.coloringLDF ⟨4, #[0,1,3,5,6], #[1,0,2,1,3,2]⟩ #[1,1,1,1] = some (#[0,1,0,1], 1) := by decide
example : G.misK ⟨4, #[0,1,3,5,6], #[1,0,2,1,3,2]⟩ 2 (fun (z : Int) => z) #[1,1,1,1] none 5 =
    some #[1,0,0,1] := by decide

/-! non-vacuity: the path 0–1–2–3 is a well-formed symmetric graph and the model returns {0, 2} -/
example : Chk.checkMIS ⟨4, fun i => [[1],[0,2],[1,3],[2]].getD i []⟩
    (misSerial ⟨4, fun i => [[1],[0,2],[1,3],[2]].getD i []⟩ (-1) 1 0 #[-1,-1,-1,-1]) = true := by decide

/-! ### extension (E20): balanced Bellman–Ford and symmetric RCM.
The statements are about the validated executable models themselves (`Model/ExtC18Bal.lean`:
`Bal.kernel`, `Bal.wrapper`, ops `ext_c18_bfbal`, `ext_c18_bfbal_w`; `Model/ExtC18Rcm.lean`:
`Rcm.ppn`, `Rcm.rcmPerm`, ops `ext_c18_ppn`, `ext_c18_rcm`). -/
/-- on weights in `h·ℕ` with `0 < tol`, `2·tol < h` the kernel's two float tests are the exact tests
`d[i]+A_ij < d[j]` and `d[i]+A_ij = d[j]` -/
restate bf_balanced_tests_exact := PyamgV.Bal.grid_tests
/-- one inner-loop step (standard relaxation or tie-breaking re-assignment) keeps the invariant
`Bal.Inv` (realising walks, centres fixed, in-cluster predecessors, exact predecessor counts); a step
that leaves `done` set found the entry relaxed -/
restate bf_balanced_step := PyamgV.Bal.step_spec
/-- `bellman_ford_balanced` from any state satisfying the invariant (wrapper or Lloyd
initialisation, or a previous final state), `tiebreaking` on or off: every run that returns has
`Bal.Final`: shortest distances, nearest-centre labels, tight in-cluster predecessor chain, exact `pc` -/
restate bf_balanced_kernel := PyamgV.Bal.kernel_spec
/-- the wrapper's initial arrays satisfy the invariant -/
restate bf_balanced_init := PyamgV.Bal.initSt_inv
/-- `bellman_ford(G, centers, method='balanced', tiebreaking=tb)`: whenever the call returns -/
restate bf_balanced_wrapper := PyamgV.Bal.wrapper_spec
/-- positive weights: the public call never leaves its arrays (result `ok`, a Python error of the
wrapper, or the kernel's "too many iterations"; never `fault`) -/
restate bf_balanced_no_fault := PyamgV.Bal.wrapper_no_fault
/-- positive weights: following `p` from an assigned node ends at a centre whose label is `m[j]`,
and every node on the way carries that label -/
restate bf_balanced_chain_to_centre := PyamgV.Bal.chain_to_centre
/-- `pseudo_peripheral_node` returns (fuel `n+3` suffices) a node of the graph with its BFS arrays -/
restate rcm_ppn_total := PyamgV.Rcm.ppn_spec
/-- `symmetric_rcm` on a symmetric pattern (connected or not): the index vector is a permutation of `0..n-1` -/
restate rcm_total := PyamgV.Rcm.rcm_total

/-! non-vacuity (E20): the tree 1,2,3 – 0, 3 – 4 with unit weights and centres 0, 4: node 3 is at
distance 1 from both; plain Bellman–Ford order puts it into cluster 0 (sizes 4/1), tie-breaking moves
it to cluster 1 (sizes 3/2); both runs return, and the hypotheses of `bf_balanced_wrapper` hold
(`h = 1`, `tol = 1e-14`) -/
def exT : Bal.Csr := ⟨5, #[0,3,4,5,7,8], #[1,2,3,0,0,0,4,3], #[1,1,1,1,1,1,1,1]⟩
def exOut (r : Bal.WRes) : Array (Option Rat) × Array Int × Array Int :=
  match r with | .ok st => (st.d, st.m, st.p) | _ => (#[], #[], #[])
example : exOut (Bal.wrapper (1/100000000000000) true exT [0,4]) =
    (#[some 0, some 1, some 1, some 1, some 0], #[0,0,0,1,1], #[-1,0,0,4,-1]) := by decide +kernel
example : exOut (Bal.wrapper (1/100000000000000) false exT [0,4]) =
    (#[some 0, some 1, some 1, some 1, some 0], #[0,0,0,0,1], #[-1,0,0,0,-1]) := by decide +kernel
example : (0 : Rat) < 1/100000000000000 ∧ 2 * (1/100000000000000 : Rat) < 1 ∧
    ∀ e ∈ exT.entries, ∃ k : Nat, e.2.2 = (k : Rat) * 1 := by
  refine ⟨by decide +kernel, by decide +kernel, fun e he => ⟨1, ?_⟩⟩
  have h : ∀ e ∈ exT.entries, e.2.2 = 1 := by decide +kernel
  rw [h e he]; simp
/-! the path 0–1–2–3 plus two isolated nodes (a disconnected symmetric graph), start node 1: the
pseudo-peripheral search moves to node 3 and then to node 0, the component loop appends 4 and 5 -/
example : Rcm.rcmPerm ⟨6, #[0,1,3,5,6,6,6], #[1,0,2,1,3,2]⟩ 1 = some [5,4,3,2,1,0] := by decide
example : Rcm.rcmPerm ⟨6, #[0,1,3,5,6,6,6], #[1,0,2,1,3,2]⟩ 4 = some [5,3,2,1,0,4] := by decide

/-! ### interface facts regenerated from the working tree on every run (translator tie) -/
/-- the `kernels_graph` table the models assume equals the one regenerated from the source now -/
theorem generated_kernels_graph : PyamgV.Facts.kernels_graph = PyamgV.Generated.kernels_graph := by decide

end PyamgV.Props.C18
