import PyamgV.Props.Restate
import PyamgV.Model.Facts
import PyamgV.Generated.Facts
import PyamgV.Proofs.Mis
import PyamgV.Proofs.MisInstantiate
import PyamgV.Proofs.MisParTerm2
import PyamgV.Proofs.Bfs
import PyamgV.Proofs.CC
import PyamgV.Proofs.ColoringLoop
import PyamgV.Proofs.BellmanFordTerm
import PyamgV.Proofs.Checker

/-! # C18 — graph algorithms return what their names promise

Models: `Model/KGraph.lean` (CSR-array kernels of graph.h, compared exactly with the rebuilt
kernels on every run) and their proof-side forms over `Graph = (n, adj)`; `kgraph_misSerial`
identifies the two for the serial MIS (`adj := G.row`).  All theorems hold for every symmetric
graph of any size (self loops allowed), every weight assignment and every seed. -/
namespace PyamgV.Props.C18

/-- serial MIS: independent, and every node is in the set or adjacent to it -/
restate mis_serial_correct := PyamgV.misSerial_correct
/-- the validated CSR-array model is the proof-side model with `adj := G.row` -/
restate mis_serial_model_is_kernel_model := PyamgV.kgraph_misSerial
/-- parallel (Luby-style) MIS: for arbitrary weights `n` passes suffice, result independent + maximal -/
restate mis_parallel_total := PyamgV.misParallel_total
/-- breadth-first levels = hop distances, -1 = unreachable, `n+1` rounds suffice -/
restate bfs_total := PyamgV.Bfs.bfs_total
/-- connected components: same label ⇔ joined by a walk; labels are exactly `0..K-1` -/
restate cc_total := PyamgV.CC.cc_total
/-- MIS colouring: terminates within `n` rounds, proper, colours exactly `0..K-1` -/
restate coloring_total := PyamgV.Col.coloring_total
/-- Bellman–Ford with non-negative weights: exits within `n` passes; finite `d[j]` is the length of
a shortest walk from a centre labelled `m[j]`, `∞` = unreachable (any edge order) -/
restate bellman_ford_total := PyamgV.BF.bellmanFord_total
restate bellman_ford_spec := PyamgV.BF.bellmanFord_spec
/-- the Boolean checker applied to outputs of the real code is equivalent to the specification -/
restate check_mis_iff := PyamgV.Chk.checkMIS_iff
restate mis_serial_passes_checker := PyamgV.Chk.misSerial_passes

/-! non-vacuity: the path 0–1–2–3 is a well-formed symmetric graph and the model returns {0, 2} -/
example : Chk.checkMIS ⟨4, fun i => [[1],[0,2],[1,3],[2]].getD i []⟩
    (misSerial ⟨4, fun i => [[1],[0,2],[1,3],[2]].getD i []⟩ (-1) 1 0 #[-1,-1,-1,-1]) = true := by decide

/-! ### interface facts regenerated from the working tree on every run (translator tie) -/
/-- the `kernels_graph` table the models assume equals the one regenerated from the source now -/
theorem generated_kernels_graph : PyamgV.Facts.kernels_graph = PyamgV.Generated.kernels_graph := by decide

end PyamgV.Props.C18
