import PyamgV.Props.Restate
import PyamgV.Proofs.C01Solve
import PyamgV.Proofs.C01Store
import PyamgV.Proofs.ExtSolvePathEx
import PyamgV.Proofs.ExtSolvePathK
import PyamgV.Proofs.ExtPy2Loop

/-! # C01 — stand-alone multigrid solve: termination, tolerance and truthful reporting

Models: `PyamgV.solve` (the bookkeeping loop of `MultilevelSolver.solve`, Proofs/SolveLoop.lean) and
`PyamgV.C01.solvePy` (the whole no-`accel` call with its options: `x0` given/omitted, one-level
branch, `residuals` list with arbitrary previous content, `callback`, `return_info`; Model/C01Solve.lean).
The cycle, the coarse solver and the residual norm are *parameters* (arbitrary functions), so the
theorems hold for every hierarchy, cycle type and `cycles_per_level`.  The driver runs both models
(`c01_solve_loop`, `c01_solve_py`) on the residual norms the harness recomputes from the iterates the
real code hands to the callback, and every observable of the real call is compared with them.
`PyamgV.C01.Store.solveStore` (Model/C01Store.lean, op `c01_store`) is the buffer-level model of the
same call (which arrays are new, which are views, which buffer the cycles write); its NumPy
copy/view facts are inputs taken from NumPy itself per instance and its predictions (does the `b` the
cycles see live in the caller's buffer; do `x`, the returned array, the callback arguments) are
compared with `np.shares_memory` observations inside the real call. -/
namespace PyamgV.Props.C01

/-- bookkeeping loop, `maxiter ≥ 1`: it stops after `k` cycles, `1 ≤ k ≤ maxiter`; returns the `k`-th
iterate; history = residual norms of iterates `0..k`; callback saw iterates `1..k`; status `0` iff the
returned iterate is below the threshold, otherwise status `= k = maxiter`; no earlier iterate was below -/
restate solve_spec := PyamgV.solve_spec
/-- the Python-level model (all options) is that loop seen through the options; the previous content
of the caller's `residuals` list is irrelevant -/
restate solvePy_eq := PyamgV.C01.solvePy_eq
/-- the property in the caller's observables (returned vector, `info`, final list content, callback
arguments) for every combination of options -/
restate solvePy_spec := PyamgV.C01.solvePy_spec
/-- one-level hierarchies: returns the direct solve; one solve if it meets the threshold, exactly
`maxiter` identical solves (and `info = maxiter`) otherwise -/
restate solvePy_oneLevel := PyamgV.C01.solvePy_oneLevel
/-- the executable threshold test is `r < tol·‖b‖` with `‖b‖ = 0 ↦ 1`, strict -/
restate belowRat_iff := PyamgV.C01.belowRat_iff

/-- store model: for every combination of copy/view flags, any number of cycles, any cycle and coarse
solver, all buffers existing before the call are unchanged; the returned array, the callback arguments
and every buffer written in place were created by the call; `b` is seen by the cycles in the caller's
own buffer only if neither `to_type` nor `ravel` copied it -/
restate solveStore_inputs_unchanged := PyamgV.C01.Store.solveStore_inputs_unchanged

/-! non-vacuity: concrete runs of the models (vectors = naturals, a cycle adds one, the residual
norm of `x` is `10 - x`).  `Rat` arithmetic does not reduce under `decide`; the rational instance
(`replayLoop`, `replayPy`) is run by the driver on every check. -/
open PyamgV PyamgV.C01 in
example : (solve (fun x : Nat => x + 1) (fun x => 10 - x) (fun r => r < 8) 5 0).map
    (fun o => (o.status, o.x, o.residuals, o.cb)) = some (0, 3, [10, 9, 8, 7], [1, 2, 3]) := by decide
open PyamgV PyamgV.C01 in
example : (solvePy 0 (fun x : Nat => x + 1) 9 false (fun x => 10 - x) (fun r => r < 2) 4 none (some [77, 78]) true true).map
    (fun p => (p.x, p.info, p.residuals, p.cb)) = some (4, some 4, some [10, 9, 8, 7, 6], [1, 2, 3, 4]) := by decide
open PyamgV PyamgV.C01 in
example : (solvePy 0 (fun x : Nat => x + 1) 5 true (fun x => 10 - x) (fun r => r < 2) 3 (some 2) (some []) true false).map
    (fun p => (p.x, p.info, p.residuals, p.cb)) = some (5, none, some [8, 5, 5, 5], [5, 5, 5]) := by decide

open PyamgV.C01.Store in
example : (fun (t : Trace Nat) => (t.heap.toList, t.bUsed, t.ret, t.cb, t.writes))
    (solveStore (fun x b => (x.zip b).map (fun p => p.1 + p.2)) (fun b => b) (fun c => c.map (fun _ => 0)) id
      ⟨true, false, false, false, false, false⟩ 2 #[[1, 2], [3, 4], [9]] 0 1) =
    ([[1, 2], [3, 4], [9], [5, 8]], 0, 3, [3, 3], [3, 3]) := by decide

/-! ## the loop on concrete cycle models (extension E17, Proofs/ExtSolvePath*.lean)

The cycle is a parameter of everything above.  `SolvePath.solvePyM` instantiates it with C03's dense model of
`__solve` (`cycM`), `SolvePath.solvePyK` with C02's arrays-and-kernels model (`C02.cycle`); the driver runs
`solvePyM` with the exact residual test (`ext_e17_solve`) against the real `solve` in the C03 check. -/

/-- (E17) any measure of the iterate that the loop body never increases (under an invariant it preserves) is
non-increasing along the iterates, at most its start value at the returned vector, and non-increasing along the
list of callback arguments; all options, every tolerance test, `maxiter ≥ 1` -/
restate solvePy_measure_monotone := PyamgV.SolvePath.solvePy_measure_monotone
/-- (E17) the loop on C03's cycle is the bookkeeping loop on C03's `stepM` seen through the options … -/
restate solvePy_on_cycM_eq := PyamgV.SolvePath.solvePyM_eq
/-- (E17) … and returns the vector C03's loop model `solveM` returns -/
restate solvePy_on_cycM_returns_solveM := PyamgV.SolvePath.solvePyM_x
/-- (E17) error propagation `e_k = (I − M A)^k e_0` for the returned vector and the callback arguments, with `k`,
`info` and the stopping rule of `solvePy_spec` -/
restate solvePy_on_cycM_error_propagation := PyamgV.SolvePath.solvePyM_error_propagation
/-- (E17) SPD hierarchy satisfying C02's hypotheses (`WFG`): the energy norm of the error never increases along the
iterates of the call (returned vector no worse than the start vector; callback arguments monotone) -/
restate solvePy_on_cycM_energy_monotone := PyamgV.SolvePath.solvePyM_energy_monotone
/-- (E17) the same for the arrays-and-kernels cycle model of C02 under the hypotheses of `model_cycle_nonexpansive` -/
restate solvePy_on_kernel_cycle_energy_monotone := PyamgV.SolvePath.solvePyK_energy_monotone
/-- (E17) non-vacuity of both (two-level dense hierarchy with damped Jacobi; 3-point Poisson hierarchy of C02) -/
restate example_solvePy_on_cycM_energy := PyamgV.SolvePath.Ex.example_solve_energy
restate example_solvePy_on_kernel_cycle_energy := PyamgV.SolvePath.example_solvePyK_energy
/-- (E17) a concrete run with the exact residual test, all options on, evaluated by the kernel -/
restate example_solvePy_on_cycM_run := PyamgV.SolvePath.Ex.example_run

/-! ## the loop as the SOURCE has it (extension E42, Proofs/ExtPy2Loop.lean)

`Generated.PyLogic2.multilevel_solve` is translated from the working tree's `MultilevelSolver.solve` on every run
(harness/py2lean2.py; `while True:` with fuel, numerical work abstracted).  `ExtPy2Loop.run sc` runs it without `accel`
on a scenario of `C01.replayPy` (norms of the iterates as the script of `np.linalg.norm`), `ExtPy2Loop.decode` reads
the caller's observables off result + trace.  The driver runs the generated definition (`ext_py2_call`) against the
real method on generated scenarios. -/

/-- **Generated.solve refines C01.solvePy** (its replay instance), grid 1: iteration limit x tolerance x `‖b‖` x norm
sequence x one-level / multilevel -/
restate generated_loop_refines_solvePy := PyamgV.ExtPy2Loop.loop_refines_solvePy
/-- grid 2: all combinations of `x0`, `residuals`, `callback`, `return_info` -/
restate generated_options_refine_solvePy := PyamgV.ExtPy2Loop.options_refine_solvePy
/-- non-vacuity of the grids -/
restate generated_loop_grid_covers := PyamgV.ExtPy2Loop.grid_covers

end PyamgV.Props.C01
