import PyamgV.Props.Restate
import PyamgV.Model.Facts
import PyamgV.Generated.Facts
import PyamgV.Proofs.FitCand
import PyamgV.Proofs.Proj
import PyamgV.Proofs.C10Fit
import PyamgV.Proofs.C10Proj
import PyamgV.Proofs.ExtC10RefineD
import Mathlib.Analysis.Real.Sqrt
import Mathlib.Algebra.Order.Ring.Rat
import Mathlib.Algebra.Field.Rat

/-! # C10 — aggregation-based prolongators reproduce the near-nullspace candidates

**Definitions the theorems are about, all executed by the driver on every run:**
`GS.mgs` / `C10.fitAgg` (per-aggregate modified Gram–Schmidt of `fit_candidates_common` with the
relative drop rule; op `c10_p_fit`), `C10.project` (the update of `satisfy_constraints_helper` for an
arbitrary row pattern; op `c10_p_proj`), `C10.IF`/`C10.PI` (root-node reset `I_F·X + P_I`; op
`c10_p_reset`), the iterate / polynomial of `smoothing_polynomial` (op `c10_p_smooth`).  The check
compares them — and the loop-by-loop array models of `Model/C10.lean` (`c10_fitk`, `c10_fitpy`,
`c10_sat`, `c10_satpy`, `c10_btb`, `c10_imm`, `c10_filter`, `c10_scaleT`, `c10_smooth`, `c10_jacf`) —
with the rebuilt kernels and the public Python functions, exactly where binary64 arithmetic is exact.

Scalars: any linearly ordered field with a square-root function for the tentative prolongator (real
case; the complex kernel is covered by the executable model and the search), any commutative ring
for the projection / smoothing statements (ℚ, ℝ, ℂ; `Bh` is an arbitrary matrix, `Bᴴ` in the code). -/
namespace PyamgV.Props.C10
open PyamgV

/-! ## tentative prolongator (`fit_candidates`) -/

/-- inner loop: orthogonalising `v` against orthonormal-or-zero columns splits `v` into their
combination (coefficients = entries of `R`) plus a remainder orthogonal to all of them -/
restate orth_spec := PyamgV.GS.orth_spec
/-- one new column: norm one (or zero when dropped), orthogonal to the earlier ones, `R_jj·q_j` is
the remainder unless the remainder's norm is at most the threshold -/
restate newCol_spec := PyamgV.GS.newCol_spec
/-- the whole loop of one aggregate, any number of candidates -/
restate mgs_spec := PyamgV.GS.mgs_spec
/-- pattern(T) = AggOp ⊗ block; rows of unaggregated unknowns are zero -/
restate fit_support := PyamgV.C10.fit_support
/-- columns belonging to different aggregates are orthogonal -/
restate fit_cross_orthogonal := PyamgV.C10.fit_cross_orthogonal
/-- columns of one aggregate: pairwise orthogonal with squared norm one or zero, `K2` of them, and
`B` restricted to the aggregate equals `T_a·R_a` plus the discarded remainders (each zero or of norm
`≤ tol·‖candidate‖`) -/
restate fit_local := PyamgV.C10.fit_local
/-- `(T·B_c)[i, c] = B[i, c] − drop` on every aggregated unknown `i`, as a sum over *all* coarse
unknowns (`drop = 0` when nothing was discarded or the discarded part is exactly dependent) -/
restate fit_reproduces := PyamgV.C10.fit_reproduces

/-! ## the array-level kernel model refines the proof-side definitions (extension E8)

`C10M.fitCandidates` is the loop-by-loop model of `fit_candidates_common` the check compares bit by
bit with the kernel (`c10_fitk`; `ratOps = fieldOps ratSqrt ratSqrtOk` is the instance run in mode `r`).
For every valid `AggOp` in CSC form (`C10R.ValidAgg`: pointers ascending and inside `Ai`, node indices
in range, **each node listed at most once**), every candidate array `b`, any `K1`, `K2`, `tol`, over
any linearly ordered field with a square-root function (no hypothesis on it): the kernel's `Ax`, read
as the columns of `T` exactly as `fit_candidates` assembles them (`C10R.kernelT`), and the kernel's `R`
(`C10R.kernelR`) are the columns and the `R` entries of the proof-side per-aggregate Gram-Schmidt
`C10.fitAgg` applied to the candidates `candB b` with the aggregate map `agg` of the arrays
(`C10R.AggSpec`; `C10R.cscAgg` is that map, `cscAgg_spec`).  The four fit theorems follow for the
array model itself. -/

/-- the model run by `c10_fitk r` is the field instance the refinement theorems are about -/
restate ratOps_eq := PyamgV.C10R.ratOps_eq
/-- the kernel model is the fold of `aggBody` over the aggregates after `copyBlocks` (by `rfl`) -/
restate fitCandidates_eq := PyamgV.C10R.fitCandidates_eq
/-- the copy loop: block `ii` of `Ax` is block `Ai[ii]` of `B` -/
restate copyBlocks_spec := PyamgV.C10R.copyBlocks_spec
/-- one pass of the `bj` loop of the array model = one step of `GS.mgs` (`orth`, then `newCol`) -/
restate colStep_spec := PyamgV.C10R.colStep_spec
/-- the whole loop of one aggregate of the array model = `GS.mgs` on the stored columns; nothing
outside the aggregate's segment of `Ax` and block of `R` is touched -/
restate aggBody_spec := PyamgV.C10R.aggBody_spec
/-- all aggregates: no interference between aggregates -/
restate fitLoop_spec := PyamgV.C10R.fitLoop_spec
/-- `GS.mgs` commutes with isometric linear embeddings (rows of an aggregate ↪ all unknowns) -/
restate mgs_map := PyamgV.GS.mgs_map
/-- `C10.fitAgg` on the masked candidates = zero extension of `GS.mgs` on the copied block -/
restate fitAgg_eq := PyamgV.C10R.fitAgg_eq
/-- the aggregate map computed from the CSC arrays satisfies `AggSpec` -/
restate cscAgg_spec := PyamgV.C10R.cscAgg_spec
/-- **refinement, `Q`** entry by entry: `Ax[K1·K2·ii + k1·K2 + c]` is column `c` of `fitAgg … a` at
the unknown `Ai[ii]·K1 + k1`, for every block `ii` of aggregate `a` -/
restate fit_refines_q := PyamgV.C10R.fit_refines_q
/-- **refinement, `R`**: block `a` of the kernel's `R` = the `R` entries of `fitAgg … a` (projections
above the diagonal, norm or `0` on it, `0` below) -/
restate fit_refines_r := PyamgV.C10R.fit_refines_r
/-- **refinement, `T`** as functions of (row, column): the column assembled from `Ax` equals the
column of `fitAgg` on *all* unknowns (zero outside the aggregate) -/
restate kernelT_eq := PyamgV.C10R.kernelT_eq
restate kernelR_eq := PyamgV.C10R.kernelR_eq
/-- `fit_support` for the array model -/
restate kernel_support := PyamgV.C10R.kernel_support
/-- `fit_cross_orthogonal` for the array model -/
restate kernel_cross_orthogonal := PyamgV.C10R.kernel_cross_orthogonal
/-- `fit_local` for the array model: `TᵀT = I` inside an aggregate up to dropped (zero) columns -/
restate kernel_local := PyamgV.C10R.kernel_local
/-- `fit_reproduces` for the array model: `Σ_{(a',c')} T[i,(a',c')]·R[(a',c'),c] = B[i,c] − drop` -/
restate kernel_reproduces := PyamgV.C10R.kernel_reproduces
restate kernel_drop_bound := PyamgV.C10R.kernel_drop_bound

/-- the refinement in closed form (aggregate map computed from the arrays, no side conditions other
than validity of the arrays) -/
theorem fitCandidates_refines {K : Type} [Field K] [LinearOrder K] [IsStrictOrderedRing K]
    (sqrt : K → K) (ok : K → Bool) (tol : K) {nFine nCol : Nat} (K1 K2 : Nat) {ap ai : Array Nat}
    (b : Array K) (hV : PyamgV.C10R.ValidAgg nFine nCol ap ai) (a : Fin nCol) :
    (∀ c < K2,
      PyamgV.C10R.kernelT (PyamgV.C10M.fitCandidates (PyamgV.C10R.fieldOps sqrt ok) nCol K1 K2 ap ai b tol)
          nFine nCol K1 K2 ap ai a c =
        (PyamgV.C10.fitAgg sqrt tol (PyamgV.C10R.cscAgg nFine nCol K1 ap ai)
          (PyamgV.C10R.candB nFine K1 K2 b) K2 a).q.getD c 0) ∧
    (∀ c' < K2, ∀ c < K2,
      PyamgV.C10R.kernelR (PyamgV.C10M.fitCandidates (PyamgV.C10R.fieldOps sqrt ok) nCol K1 K2 ap ai b tol)
          K2 a.val c' c =
        if c' < c then ((PyamgV.C10.fitAgg sqrt tol (PyamgV.C10R.cscAgg nFine nCol K1 ap ai)
            (PyamgV.C10R.candB nFine K1 K2 b) K2 a).r.getD c ([], 0)).1.getD c' 0
        else if c' = c then ((PyamgV.C10.fitAgg sqrt tol (PyamgV.C10R.cscAgg nFine nCol K1 ap ai)
            (PyamgV.C10R.candB nFine K1 K2 b) K2 a).r.getD c ([], 0)).2
        else 0) :=
  ⟨fun c hc => PyamgV.C10R.kernelT_eq sqrt ok tol K1 K2 b hV _ (PyamgV.C10R.cscAgg_spec K1 hV) a c hc,
   fun c' hc' c hc => PyamgV.C10R.kernelR_eq sqrt ok tol K1 K2 b hV _ (PyamgV.C10R.cscAgg_spec K1 hV) a c' c hc' hc⟩

/-! ## constraint projection (`satisfy_constraints_helper`, `satisfy_constraints`, `filter_operator`) -/

/-- entries outside the stored pattern are never touched -/
restate project_off := PyamgV.C10.project_off
/-- row-wise: the projection subtracts exactly `y_i` from `(U·B)_i` whenever `BtBinv[i]` inverts the
local Gram matrix on `y_i` (exact inverse or pseudo-inverse with `y_i` in the row space) -/
restate project_mul_row := PyamgV.C10.project_mul_row
restate project_mul := PyamgV.C10.project_mul
/-- `satisfy_constraints(U, B, BtBinv)` returns `U` with `U·B = 0` -/
restate satisfy_constraints_spec := PyamgV.C10.satisfy_constraints_spec
/-- `filter_operator(A, C, B, Bf)`: `(A_f·B)_i = Bf_i` on every row whose pattern supports the
constraints (invertible local Gram matrix) — the root-node clause "reproduces B where the pattern
allows", partial: rows with a singular local Gram matrix are not claimed -/
restate filter_operator_row_partial := PyamgV.C10.filter_operator_row
restate filter_operator_spec := PyamgV.C10.filter_operator_spec
/-- the full-matrix form proved in the design round (real case, all columns allowed) -/
restate proj_constraint := PyamgV.proj_constraint
restate update_keeps_PB := PyamgV.update_keeps_PB

/-- exact local inverses are the special case used for well-posed rows -/
theorem satisfy_constraints_exact {K : Type*} [CommRing K] {m n k : Type*} [Fintype n] [Fintype k]
    [DecidableEq n] [DecidableEq k] (J : m → Finset n) (Z : m → Matrix k k K) (Bh : Matrix k n K)
    (B : Matrix n k K) (U : Matrix m n K) (h : ∀ i, Z i * PyamgV.C10.gram J Bh B i = 1) :
    PyamgV.C10.project J Z Bh (U * B) U * B = 0 :=
  PyamgV.C10.satisfy_constraints_spec J Z Bh B U (fun i => by rw [h i, Matrix.vecMul_one])

/-! ## constrained smoothing: any sequence of projected, pattern-restricted updates
(energy minimisation with cg / cgnr / gmres, any `maxiter`, `degree`, `weighting`; filtered Jacobi) -/

/-- `P·B_c` never changes -/
restate updates_keep_product := PyamgV.C10.updates_keep_product
/-- no entry outside the allowed pattern changes -/
restate updates_keep_pattern := PyamgV.C10.updates_keep_pattern
/-- the diagonal / block-diagonal preconditioner of the Krylov loops keeps a direction constrained -/
restate scaling_keeps_zero := PyamgV.C10.scaling_keeps_zero
/-- so do the linear combinations the Krylov recurrences form -/
restate combination_keeps_zero := PyamgV.C10.combination_keeps_zero

/-- every matrix the Krylov loops can form from projected matrices by left scaling and linear
combination (search directions `P`, Arnoldi vectors `V_j`, whatever `beta`, `alpha`, `H`, `y` are)
annihilates `B` -/
restate gen_constrained := PyamgV.C10.gen_constrained
/-- the loop body shared by `cg_prolongation_smoothing` and `cgnr_prolongation_smoothing`, iterated
any number of times with arbitrary `(alpha, beta)`: `T·B` is unchanged, residual and direction stay
constrained -/
restate cg_steps_keep_product := PyamgV.C10.cg_steps_keep_product

/-! ## root nodes -/

/-- after `I_F·X + P_I` the root rows are identity rows -/
restate reset_identity_rows := PyamgV.C10.reset_identity_rows
restate reset_other_rows := PyamgV.C10.reset_other_rows
/-- coarse candidates `P_Iᵀ·B` are the fine candidates at the root dofs -/
restate injection_spec := PyamgV.C10.injection_spec
/-- resetting an updated prolongator = updating by the `I_F`-part of the update -/
restate reset_update := PyamgV.C10.reset_update

/-! ## unconstrained Jacobi / Richardson smoothing -/

/-- `degree` passes of `P ← P − M·P` equal `(I − M)^degree·T` -/
restate smoothing_polynomial := PyamgV.C10.smoothing_polynomial

/-! ## non-vacuity -/

/-- the hypotheses on the square root hold for the real numbers, so the tentative-prolongator
theorems apply to every real input with the default `tol = 1e-10` -/
example {ι α : Type} [Fintype ι] [Fintype α] [DecidableEq α] (agg : ι → Option α) (B : ι → Nat → ℝ)
    (K2 : Nat) (a : α) (i : ι) (hi : agg i = some a) (c : Nat) (hc : c < K2) :
    ∑ a' : α, PyamgV.C10.colTR (PyamgV.C10.fitAgg Real.sqrt (1 / 10 ^ 10) agg B K2 a') c i =
      B i c - (PyamgV.C10.fitAgg Real.sqrt (1 / 10 ^ 10) agg B K2 a).drop.getD c 0 i :=
  PyamgV.C10.fit_reproduces Real.sqrt (fun _ h => Real.mul_self_sqrt h) Real.sqrt_nonneg (1 / 10 ^ 10)
    (by positivity) agg B K2 a i hi c hc

/-- a valid `AggOp` (4 nodes, aggregates {0, 2} and {1}, node 3 left out): the hypotheses of the
refinement theorems are satisfiable, and with the real square root so are those of
`kernel_reproduces` -- for every nodal block size, number of candidates and candidate array -/
theorem validAgg_example : PyamgV.C10R.ValidAgg 4 2 #[0, 2, 3] #[0, 2, 1] :=
  ⟨by decide, by decide, by decide, by decide⟩

example (K1 K2 : Nat) (b : Array ℝ) (a : Fin 2) (i : Fin (4 * K1))
    (hi : PyamgV.C10R.cscAgg 4 2 K1 #[0, 2, 3] #[0, 2, 1] i = some a) (c : Nat) (hc : c < K2) :
    ∑ a' : Fin 2, ∑ c' ∈ Finset.range K2,
      PyamgV.C10R.kernelT (PyamgV.C10M.fitCandidates (PyamgV.C10R.fieldOps Real.sqrt (fun _ => true)) 2 K1 K2
          #[0, 2, 3] #[0, 2, 1] b (1 / 10 ^ 10)) 4 2 K1 K2 #[0, 2, 3] #[0, 2, 1] a' c' i *
        PyamgV.C10R.kernelR (PyamgV.C10M.fitCandidates (PyamgV.C10R.fieldOps Real.sqrt (fun _ => true)) 2 K1 K2
          #[0, 2, 3] #[0, 2, 1] b (1 / 10 ^ 10)) K2 a'.val c' c =
      PyamgV.C10R.candB 4 K1 K2 b i c -
        (PyamgV.C10.fitAgg Real.sqrt (1 / 10 ^ 10) (PyamgV.C10R.cscAgg 4 2 K1 #[0, 2, 3] #[0, 2, 1])
          (PyamgV.C10R.candB 4 K1 K2 b) K2 a).drop.getD c 0 i :=
  PyamgV.C10R.kernel_reproduces Real.sqrt (fun _ => true) (1 / 10 ^ 10) K1 K2 b validAgg_example _
    (PyamgV.C10R.cscAgg_spec K1 validAgg_example) (fun _ h => Real.mul_self_sqrt h) Real.sqrt_nonneg
    (by positivity) a i hi c hc

/-- the aggregate map of that example: unknown 2 (node 2) lies in aggregate 0, unknown 3 in none -/
example : PyamgV.C10R.cscAgg 4 2 1 #[0, 2, 3] #[0, 2, 1] ⟨2, by decide⟩ = some 0 ∧
    PyamgV.C10R.cscAgg 4 2 1 #[0, 2, 3] #[0, 2, 1] ⟨3, by decide⟩ = none := by decide

/-- a concrete projection: one row with two allowed columns, candidate `(1, 2)ᵀ`, local inverse `1/5` -/
example : (Matrix.of ![![(1 / 5 : ℚ)]] : Matrix (Fin 1) (Fin 1) ℚ) *
    PyamgV.C10.gram (K := ℚ) (fun _ : Fin 1 => (Finset.univ : Finset (Fin 2)))
      (Matrix.of ![![(1 : ℚ), 2]]) (Matrix.of ![![(1 : ℚ)], ![2]]) 0 = 1 := by
  ext i j
  fin_cases i; fin_cases j
  simp [PyamgV.C10.gram, Matrix.mul_apply, Fin.sum_univ_two]
  norm_num

/-! ### interface facts regenerated from the working tree on every run (translator tie) -/
/-- the `kernels_smoothed_aggregation` table the models assume equals the one regenerated from the source now -/
theorem generated_kernels_smoothed_aggregation : PyamgV.Facts.kernels_smoothed_aggregation = PyamgV.Generated.kernels_smoothed_aggregation := by decide
/-- likewise `linalg.h` (`gemm`, used by the projection and pattern-product kernels) -/
theorem generated_kernels_linalg : PyamgV.Facts.kernels_linalg = PyamgV.Generated.kernels_linalg := by decide

end PyamgV.Props.C10
