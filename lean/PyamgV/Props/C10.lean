import PyamgV.Props.Restate
import PyamgV.Model.Facts
import PyamgV.Generated.Facts
import PyamgV.Proofs.FitCand
import PyamgV.Proofs.Proj
import PyamgV.Proofs.C10Fit
import PyamgV.Proofs.C10Proj
import PyamgV.Proofs.ExtC10RefineD
import PyamgV.Proofs.ExtC10bImmCsr
import PyamgV.Proofs.ExtC10bImmBsr
import PyamgV.Proofs.ExtC10bCFit
import PyamgV.Proofs.ExtC10bGmresArr
import PyamgV.Proofs.ExtC10bGmresFull
import PyamgV.Proofs.ExtC10cComplex
import PyamgV.Proofs.ExtC10dEnergy
import PyamgV.Proofs.ExtC10dHierarchy
import PyamgV.Proofs.ExtC10dExample
import PyamgV.Proofs.ExtC10dSubset
import PyamgV.Proofs.C19Filter
import PyamgV.Proofs.ExtC19Trunc
import Mathlib.Analysis.Real.Sqrt
import Mathlib.Tactic.IntervalCases
import Mathlib.Algebra.Order.Ring.Rat
import Mathlib.Algebra.Field.Rat

/-! # C10 — aggregation-based prolongators reproduce the near-nullspace candidates

**Definitions the theorems are about, all executed by the driver on every run:**
`GS.mgs` / `C10.fitAgg` (per-aggregate modified Gram–Schmidt of `fit_candidates_common` with the
relative drop rule; op `c10_p_fit`), `C10.project` (the update of `satisfy_constraints_helper` for an
arbitrary row pattern; op `c10_p_proj`), `C10.IF`/`C10.PI` (root-node reset `I_F·X + P_I`; op
`c10_p_reset`), the iterate / polynomial of `smoothing_polynomial` (op `c10_p_smooth`).  The check
compares them — and the loop-by-loop array models of `Model/C10.lean` (`c10_fitk`, `c10_fitpy`,
`c10_sat`, `c10_satpy`, `c10_btb`, `c10_imm`, `c10_filter`, `c10_scaleT`, `c10_smooth`, `c10_jacf`) —
with the rebuilt kernels and the public Python functions, exactly where binary64 arithmetic is exact.

Scalars: any linearly ordered field with a square-root function for the tentative prolongator (real
case; complex case = pairs `(re, im)` over such a field with the conjugated dot product, section
"extension E24"), any commutative ring for the projection / smoothing statements (ℚ, ℝ, ℂ; `Bh` is an
arbitrary matrix, `Bᴴ` in the code).  Extension E24 adds: the pattern-restricted product kernels
(`incomplete_mat_mult_csr`, `incomplete_mat_mult_bsr`), the complex tentative prolongator, and the whole
GMRES energy-minimisation loop (executable model `energyGmres`, property proved for every input on which
the model returns).  Extension E48 adds: the CG / CGNR energy-minimisation loop (`energyCG`, property proved for
every input), filtered Jacobi (`filteredLoop`, every input on which it returns), and the complex code paths:
the constraint theorem with `Bᴴ` over rings with involution and the same models run on Gaussian rationals.
Extension E53 adds: the whole of `energy_prolongation_smoother` as one executable model (`C10dM.energyFullCG` /
`energyFullGmres`: pattern selection with `degree` / `prefilter` / root rows composed from the C19 models of
`filter_matrix_rows` and `truncate_rows`, `filter_operator` pass, Krylov loop, `postfilter` and its second pass; ops
`ext_c10d_energy`), the property for it on every input on which it returns, the proof that a block-diagonal
preconditioner always has the row block size of the pattern, and the level loop of `smoothed_aggregation_solver` /
`rootnode_solver` (`C10dM.hierarchy`, op `ext_c10d_hier`) with the property for every level. -/
namespace PyamgV.Props.C10
open PyamgV

/-! ## tentative prolongator (`fit_candidates`) -/

/-- inner loop: orthogonalising `v` against orthonormal-or-zero columns splits `v` into their
combination (coefficients = entries of `R`) plus a remainder orthogonal to all of them -/
restate orth_spec := PyamgV.GS.orth_spec
/-- one new column: norm one (or zero when dropped), orthogonal to the earlier ones, `R_jj·q_j` is
the remainder unless the remainder's norm is at most the threshold -/
restate newCol_spec := PyamgV.GS.newCol_spec
/-- the whole loop of one aggregate, any number of candidates -/
restate mgs_spec := PyamgV.GS.mgs_spec
/-- pattern(T) = AggOp ⊗ block; rows of unaggregated unknowns are zero -/
restate fit_support := PyamgV.C10.fit_support
/-- columns belonging to different aggregates are orthogonal -/
restate fit_cross_orthogonal := PyamgV.C10.fit_cross_orthogonal
/-- columns of one aggregate: pairwise orthogonal with squared norm one or zero, `K2` of them, and
`B` restricted to the aggregate equals `T_a·R_a` plus the discarded remainders (each zero or of norm
`≤ tol·‖candidate‖`) -/
restate fit_local := PyamgV.C10.fit_local
/-- `(T·B_c)[i, c] = B[i, c] − drop` on every aggregated unknown `i`, as a sum over *all* coarse
unknowns (`drop = 0` when nothing was discarded or the discarded part is exactly dependent) -/
restate fit_reproduces := PyamgV.C10.fit_reproduces

/-! ## the array-level kernel model refines the proof-side definitions (extension E8)

`C10M.fitCandidates` is the loop-by-loop model of `fit_candidates_common` the check compares bit by
bit with the kernel (`c10_fitk`; `ratOps = fieldOps ratSqrt ratSqrtOk` is the instance run in mode `r`).
For every valid `AggOp` in CSC form (`C10R.ValidAgg`: pointers ascending and inside `Ai`, node indices
in range, **each node listed at most once**), every candidate array `b`, any `K1`, `K2`, `tol`, over
any linearly ordered field with a square-root function (no hypothesis on it): the kernel's `Ax`, read
as the columns of `T` exactly as `fit_candidates` assembles them (`C10R.kernelT`), and the kernel's `R`
(`C10R.kernelR`) are the columns and the `R` entries of the proof-side per-aggregate Gram-Schmidt
`C10.fitAgg` applied to the candidates `candB b` with the aggregate map `agg` of the arrays
(`C10R.AggSpec`; `C10R.cscAgg` is that map, `cscAgg_spec`).  The four fit theorems follow for the
array model itself. -/

/-- the model run by `c10_fitk r` is the field instance the refinement theorems are about -/
restate ratOps_eq := PyamgV.C10R.ratOps_eq
/-- the kernel model is the fold of `aggBody` over the aggregates after `copyBlocks` (by `rfl`) -/
restate fitCandidates_eq := PyamgV.C10R.fitCandidates_eq
/-- the copy loop: block `ii` of `Ax` is block `Ai[ii]` of `B` -/
restate copyBlocks_spec := PyamgV.C10R.copyBlocks_spec
/-- one pass of the `bj` loop of the array model = one step of `GS.mgs` (`orth`, then `newCol`) -/
restate colStep_spec := PyamgV.C10R.colStep_spec
/-- the whole loop of one aggregate of the array model = `GS.mgs` on the stored columns; nothing
outside the aggregate's segment of `Ax` and block of `R` is touched -/
restate aggBody_spec := PyamgV.C10R.aggBody_spec
/-- all aggregates: no interference between aggregates -/
restate fitLoop_spec := PyamgV.C10R.fitLoop_spec
/-- `GS.mgs` commutes with isometric linear embeddings (rows of an aggregate ↪ all unknowns) -/
restate mgs_map := PyamgV.GS.mgs_map
/-- `C10.fitAgg` on the masked candidates = zero extension of `GS.mgs` on the copied block -/
restate fitAgg_eq := PyamgV.C10R.fitAgg_eq
/-- the aggregate map computed from the CSC arrays satisfies `AggSpec` -/
restate cscAgg_spec := PyamgV.C10R.cscAgg_spec
/-- **refinement, `Q`** entry by entry: `Ax[K1·K2·ii + k1·K2 + c]` is column `c` of `fitAgg … a` at
the unknown `Ai[ii]·K1 + k1`, for every block `ii` of aggregate `a` -/
restate fit_refines_q := PyamgV.C10R.fit_refines_q
/-- **refinement, `R`**: block `a` of the kernel's `R` = the `R` entries of `fitAgg … a` (projections
above the diagonal, norm or `0` on it, `0` below) -/
restate fit_refines_r := PyamgV.C10R.fit_refines_r
/-- **refinement, `T`** as functions of (row, column): the column assembled from `Ax` equals the
column of `fitAgg` on *all* unknowns (zero outside the aggregate) -/
restate kernelT_eq := PyamgV.C10R.kernelT_eq
restate kernelR_eq := PyamgV.C10R.kernelR_eq
/-- `fit_support` for the array model -/
restate kernel_support := PyamgV.C10R.kernel_support
/-- `fit_cross_orthogonal` for the array model -/
restate kernel_cross_orthogonal := PyamgV.C10R.kernel_cross_orthogonal
/-- `fit_local` for the array model: `TᵀT = I` inside an aggregate up to dropped (zero) columns -/
restate kernel_local := PyamgV.C10R.kernel_local
/-- `fit_reproduces` for the array model: `Σ_{(a',c')} T[i,(a',c')]·R[(a',c'),c] = B[i,c] − drop` -/
restate kernel_reproduces := PyamgV.C10R.kernel_reproduces
restate kernel_drop_bound := PyamgV.C10R.kernel_drop_bound

/-- the refinement in closed form (aggregate map computed from the arrays, no side conditions other
than validity of the arrays) -/
theorem fitCandidates_refines {K : Type} [Field K] [LinearOrder K] [IsStrictOrderedRing K]
    (sqrt : K → K) (ok : K → Bool) (tol : K) {nFine nCol : Nat} (K1 K2 : Nat) {ap ai : Array Nat}
    (b : Array K) (hV : PyamgV.C10R.ValidAgg nFine nCol ap ai) (a : Fin nCol) :
    (∀ c < K2,
      PyamgV.C10R.kernelT (PyamgV.C10M.fitCandidates (PyamgV.C10R.fieldOps sqrt ok) nCol K1 K2 ap ai b tol)
          nFine nCol K1 K2 ap ai a c =
        (PyamgV.C10.fitAgg sqrt tol (PyamgV.C10R.cscAgg nFine nCol K1 ap ai)
          (PyamgV.C10R.candB nFine K1 K2 b) K2 a).q.getD c 0) ∧
    (∀ c' < K2, ∀ c < K2,
      PyamgV.C10R.kernelR (PyamgV.C10M.fitCandidates (PyamgV.C10R.fieldOps sqrt ok) nCol K1 K2 ap ai b tol)
          K2 a.val c' c =
        if c' < c then ((PyamgV.C10.fitAgg sqrt tol (PyamgV.C10R.cscAgg nFine nCol K1 ap ai)
            (PyamgV.C10R.candB nFine K1 K2 b) K2 a).r.getD c ([], 0)).1.getD c' 0
        else if c' = c then ((PyamgV.C10.fitAgg sqrt tol (PyamgV.C10R.cscAgg nFine nCol K1 ap ai)
            (PyamgV.C10R.candB nFine K1 K2 b) K2 a).r.getD c ([], 0)).2
        else 0) :=
  ⟨fun c hc => PyamgV.C10R.kernelT_eq sqrt ok tol K1 K2 b hV _ (PyamgV.C10R.cscAgg_spec K1 hV) a c hc,
   fun c' hc' c hc => PyamgV.C10R.kernelR_eq sqrt ok tol K1 K2 b hV _ (PyamgV.C10R.cscAgg_spec K1 hV) a c' c hc' hc⟩

/-! ## constraint projection (`satisfy_constraints_helper`, `satisfy_constraints`, `filter_operator`) -/

/-- entries outside the stored pattern are never touched -/
restate project_off := PyamgV.C10.project_off
/-- row-wise: the projection subtracts exactly `y_i` from `(U·B)_i` whenever `BtBinv[i]` inverts the
local Gram matrix on `y_i` (exact inverse or pseudo-inverse with `y_i` in the row space) -/
restate project_mul_row := PyamgV.C10.project_mul_row
restate project_mul := PyamgV.C10.project_mul
/-- `satisfy_constraints(U, B, BtBinv)` returns `U` with `U·B = 0` -/
restate satisfy_constraints_spec := PyamgV.C10.satisfy_constraints_spec
/-- `filter_operator(A, C, B, Bf)`: `(A_f·B)_i = Bf_i` on every row whose pattern supports the
constraints (invertible local Gram matrix) — the root-node clause "reproduces B where the pattern
allows", partial: rows with a singular local Gram matrix are not claimed -/
restate filter_operator_row_partial := PyamgV.C10.filter_operator_row
restate filter_operator_spec := PyamgV.C10.filter_operator_spec
/-- the full-matrix form proved in the design round (real case, all columns allowed) -/
restate proj_constraint := PyamgV.proj_constraint
restate update_keeps_PB := PyamgV.update_keeps_PB

/-- exact local inverses are the special case used for well-posed rows -/
theorem satisfy_constraints_exact {K : Type*} [CommRing K] {m n k : Type*} [Fintype n] [Fintype k]
    [DecidableEq n] [DecidableEq k] (J : m → Finset n) (Z : m → Matrix k k K) (Bh : Matrix k n K)
    (B : Matrix n k K) (U : Matrix m n K) (h : ∀ i, Z i * PyamgV.C10.gram J Bh B i = 1) :
    PyamgV.C10.project J Z Bh (U * B) U * B = 0 :=
  PyamgV.C10.satisfy_constraints_spec J Z Bh B U (fun i => by rw [h i, Matrix.vecMul_one])

/-! ## constrained smoothing: any sequence of projected, pattern-restricted updates
(energy minimisation with cg / cgnr / gmres, any `maxiter`, `degree`, `weighting`; filtered Jacobi) -/

/-- `P·B_c` never changes -/
restate updates_keep_product := PyamgV.C10.updates_keep_product
/-- no entry outside the allowed pattern changes -/
restate updates_keep_pattern := PyamgV.C10.updates_keep_pattern
/-- the diagonal / block-diagonal preconditioner of the Krylov loops keeps a direction constrained -/
restate scaling_keeps_zero := PyamgV.C10.scaling_keeps_zero
/-- so do the linear combinations the Krylov recurrences form -/
restate combination_keeps_zero := PyamgV.C10.combination_keeps_zero

/-- every matrix the Krylov loops can form from projected matrices by left scaling and linear
combination (search directions `P`, Arnoldi vectors `V_j`, whatever `beta`, `alpha`, `H`, `y` are)
annihilates `B` -/
restate gen_constrained := PyamgV.C10.gen_constrained
/-- the loop body shared by `cg_prolongation_smoothing` and `cgnr_prolongation_smoothing`, iterated
any number of times with arbitrary `(alpha, beta)`: `T·B` is unchanged, residual and direction stay
constrained -/
restate cg_steps_keep_product := PyamgV.C10.cg_steps_keep_product

/-! ## root nodes -/

/-- after `I_F·X + P_I` the root rows are identity rows -/
restate reset_identity_rows := PyamgV.C10.reset_identity_rows
restate reset_other_rows := PyamgV.C10.reset_other_rows
/-- coarse candidates `P_Iᵀ·B` are the fine candidates at the root dofs -/
restate injection_spec := PyamgV.C10.injection_spec
/-- resetting an updated prolongator = updating by the `I_F`-part of the update -/
restate reset_update := PyamgV.C10.reset_update

/-! ## unconstrained Jacobi / Richardson smoothing -/

/-- `degree` passes of `P ← P − M·P` equal `(I − M)^degree·T` -/
restate smoothing_polynomial := PyamgV.C10.smoothing_polynomial


/-! ## extension E24

### pattern-restricted products: `incomplete_mat_mult_csr` (evolution_strength.h), `incomplete_mat_mult_bsr`

`C10bM.incompleteMatMultCsr` (two-pointer merge `my_inner`, op `ext_c10b_imm_csr`) and
`C10M.incompleteMatMultBsr` (marker array + `gemm`, op `c10_imm`) are the loop-by-loop models the check
compares exactly with the kernels.  Preconditions as the kernels state them: CSR kernel -- column indices
of every row of `A` and row indices of every column of `B` strictly increasing (`SortedSeg`); BSR kernel
-- block columns of `S` distinct inside a block row and `< n_bcol` (indices need not be sorted). -/

/-- the `while` loop of `my_inner` adds the sparse dot product of the remaining sorted segments -/
restate imm_csr_merge := PyamgV.C10b.innerLoop_spec
/-- the fuel of the model always reaches the loop's exit test (sorted or not) -/
restate imm_csr_fuel := PyamgV.C10b.innerLoop_exit
restate imm_csr_inner := PyamgV.C10b.myInner_spec
/-- the sparse dot product is `Σ_k A[row,k]·B[k,col]` with `csEntry` the entries the arrays denote -/
restate imm_csr_entry_dot := PyamgV.C10b.entry_dot
restate imm_csr_entry_sorted := PyamgV.C10b.csEntry_sorted
/-- **CSR kernel**: every stored position of `S` receives `(A·B)[row, Sj ptr]`, nothing else changes -/
restate imm_csr_spec := PyamgV.C10b.incompleteMatMultCsr_spec
/-- `gemm` (row-major `B`, row-major block of `S`, accumulate) adds the block product -/
restate imm_bsr_gemm := PyamgV.C10b.gemm_acc
/-- the model is the fold of `bsrStep` over the block rows (by `rfl`) -/
restate imm_bsr_eq := PyamgV.C10b.incompleteMatMultBsr_eq
/-- one block row: marker set, products accumulated on the marked blocks, marker cleared -/
restate imm_bsr_row := PyamgV.C10b.bsrStep_spec
/-- **BSR kernel**: entry `(a,b)` of stored block `jj` of block row `i` grows by
`Σ_{pa ∈ row i of A} Σ_{kk ∈ row Aj[pa] of B, Bj[kk] = Sj[jj]} (A_pa·B_kk)[a,b]`; nothing else changes -/
restate imm_bsr_spec := PyamgV.C10b.incompleteMatMultBsr_spec
/-- that increment is entry `(a,b)` of block `(i, Sj[jj])` of `A·B` (`bsrEntry` = blocks the arrays denote) -/
restate imm_bsr_entry_dot := PyamgV.C10b.bsr_entry_dot

/-! ### complex tentative prolongator

Complex scalars are pairs `(re, im)` over an ordered field with a square-root function, complex vectors
pairs of real vectors; `cip dotForm u v = Σ conj(uᵢ)vᵢ` is the kernel's conjugated dot product.
`C10.cfitAgg` (op `ext_c10b_p_cfit`, compared with `fit_candidates` on every Gaussian-rational instance)
is the kernel's loop for one aggregate. -/

/-- complex projections against `q₁…q_k` = real projections against `q₁, i q₁, …, q_k, i q_k` -/
restate cfit_orth_eq := PyamgV.CGS.corth_eq
restate cfit_orth_spec := PyamgV.CGS.corth_spec
/-- the whole loop of one aggregate, complex candidates -/
restate cfit_mgs_spec := PyamgV.CGS.cmgs_spec
/-- pattern(T) = AggOp ⊗ block (real and imaginary parts) -/
restate cfit_support := PyamgV.C10.cfit_support
/-- columns of different aggregates are orthogonal for the complex inner product -/
restate cfit_cross_orthogonal := PyamgV.C10.cfit_cross_orthogonal
/-- `TᴴT = I` inside an aggregate up to dropped (zero) columns, `B_a = T_a R_a + drop` -/
restate cfit_local := PyamgV.C10.cfit_local
/-- `(T·B_c)[i, c] = B[i, c] − drop` on every aggregated unknown, real and imaginary part -/
restate cfit_reproduces := PyamgV.C10.cfit_reproduces

/-! ### energy minimisation with GMRES (`smooth.gmres_prolongation_smoothing`)

`C10bM.gmresCore` (Arnoldi with the Frobenius product, Givens rotations, triangular solve; generic in the
matrices and in the scalar functions) is run by the driver on dense rational arrays (`energyGmres`, op
`ext_c10b_gmres`) and compared with `energy_prolongation_smoother(krylov='gmres')`. -/

/-- whatever the scalars are: if the projected matrices of the run satisfy a predicate closed under
scaling and subtraction, so does every Krylov vector, and the result is the fold `T + Σ y_j V_j` -/
restate gmres_core_inv := PyamgV.C10b.gmresCore_inv
restate gmres_core_projs := PyamgV.C10b.gmresCore_projs
/-- on matrices the update directions lie in `Gen proj` and the result is `applyUpdates` of them -/
restate gmres_updates_gen := PyamgV.C10b.gmresMx_updates_gen
/-- hence `gen_constrained` + `updates_keep_product` apply: `T'·B = T·B` -/
restate gmres_keeps_product := PyamgV.C10b.gmresMx_keeps_product
/-- the executable projection keeps the shape of its argument -/
restate gmres_project_shape := PyamgV.C10b.projectDense_shape
restate gmres_run_dims := PyamgV.C10b.energyGmres_dims
restate gmres_run_closed := PyamgV.C10b.gmres_run_closed
/-- **array model**: projected matrices of the run annihilate `B_c` (decided on every instance by the
driver) ⟹ updates annihilate `B_c`, result = `applyUpdates`, `T'·B_c = T·B_c` -/
restate gmres_run_constrained := PyamgV.C10b.gmres_run_constrained
/-- **array model**, pattern clause: nothing outside the allowed pattern changes -/
restate gmres_run_pattern := PyamgV.C10b.gmres_run_pattern
/-- the exact checks the driver makes on every run (`annihilates`, `offPatternZero`; flag
`projs-constrained`) imply the hypotheses: a checked run keeps `T·B_c` and the pattern -/
restate gmres_check_product_sound := PyamgV.C10b.annihilates_sound
restate gmres_check_pattern_sound := PyamgV.C10b.offPatternZero_sound
restate gmres_run_checked := PyamgV.C10b.gmres_run_checked

/-! #### the executable model without per-instance hypotheses

The dense projection of the models (`projectDense` / `satisfyDense`, with the Gauss-Jordan inverse
`Mat.inv` of the local Gram matrices) is proved correct, so the run-relative hypothesis above is a
theorem: whenever `energyGmres` returns (non-empty pattern, every local Gram matrix invertible), both
clauses of the property hold for its result. -/

/-- `Mat.inv M = some Z` implies `Z·M = 1` (every field) -/
restate gauss_jordan_exact := PyamgV.C10b.inv_leftInv
/-- one projected row annihilates `B` when `Z` inverts the local Gram matrix -/
restate project_row_annihilates := PyamgV.C10b.row_good
/-- **`satisfyDense U B = some U'` implies `U'·B = 0`** for every `U` inside the pattern -/
restate project_dense_annihilates := PyamgV.C10b.satisfyDense_annihilates
/-- ... and `U'` agrees with `U` outside the pattern -/
restate project_dense_off := PyamgV.C10b.projectDense_off
restate gmres_run_projs_constrained := PyamgV.C10b.energyGmres_projs_constrained
restate gmres_run_projs_pattern := PyamgV.C10b.energyGmres_projs_pattern
/-- the preconditioners built by `mkPrecond` are admitted (`PreOK`) when `bs = rpb`, as in every call of the check -/
restate gmres_precond_ok := PyamgV.C10b.mkPrecond_ok
restate gmres_run_keeps_product := PyamgV.C10b.gmres_run_keeps_product
/-- **gmres energy minimisation, executable model, every input on which it returns**: `T'·B_c = T·B_c`,
nothing outside the pattern changes -/
restate gmres_run_property := PyamgV.C10b.gmres_run_property

/-- the hypothesis of `gmres_keeps_product` is what `satisfy_constraints_spec` provides: with exact local
inverses the projection `X ↦ project J Z Bh (X·B) X` annihilates `B`, so a GMRES run with it keeps `T·B`
(any scalar functions, Frobenius product, `maxiter`, `tol`, pattern-restricted operator `f`) -/
theorem gmres_with_projection {K : Type} [Field K] [DecidableEq K] {m n k : Type} [Fintype m] [Fintype n]
    [Fintype k] [DecidableEq n] [DecidableEq k] (J : m → Finset n) (Z : m → Matrix k k K) (Bh : Matrix k n K)
    (B : Matrix n k K) (h : ∀ i, Z i * PyamgV.C10.gram J Bh B i = 1)
    (fr : Matrix m n K → Matrix m n K → K) (sc : PyamgV.C10bM.SOps K) (f : Matrix m n K → Matrix m n K)
    (R' T : Matrix m n K) (maxiter : Nat) (tol : K) :
    (PyamgV.C10bM.gmresCore (PyamgV.C10b.mxOps fr) sc
        (fun V => some (PyamgV.C10.project J Z Bh (f V * B) (f V)))
        (PyamgV.C10.project J Z Bh (R' * B) R') T maxiter tol).T * B = T * B :=
  PyamgV.C10b.gmresMx_keeps_product fr sc (fun X => PyamgV.C10.project J Z Bh (X * B) X) f B
    (fun X => satisfy_constraints_exact J Z Bh B X h) R' T maxiter tol


/-! ## extension E48

### CG / CGNR energy minimisation (`smooth.cg_prolongation_smoothing`, `smooth.cgnr_prolongation_smoothing`)

`C10M.energyCG` (Model/C10.lean: the whole `while` loop with preconditioner, `beta`, projection of `AP`, `alpha`,
root-node reset inside the loop; run by the driver in `c10_energy` and `ext_c10c_energy`, compared with
`energy_prolongation_smoother(krylov='cg'|'cgnr')`) satisfies the property on **every** input of the right
shape -- whatever the scalars, the conjugation function, the order, `maxiter`, `tol`, and however the run ends
(tolerance, fuel, breakdown, a singular local Gram matrix after some updates). -/

/-- the executable preconditioner keeps a matrix constrained (`scaling_keeps_zero` for `Precond.apply`) -/
restate cg_precond_keeps_zero := PyamgV.C10c.pre_annihilates
/-- the projection of a pattern-restricted matrix is inside the frame, annihilates `B_c`, vanishes off the pattern -/
restate cg_projection_good := PyamgV.C10c.good_proj
/-- one update `T <- I_F (T + alpha P) + P_I` with a constrained direction -/
restate cg_update_step := PyamgV.C10c.rel_step
/-- the loop, any pattern-restricted operator (`A X` or `A^H A X` on the pattern) -/
restate cg_loop_invariant := PyamgV.C10c.loop_rel
/-- **cg / cgnr energy minimisation, executable model, every input**: on rows that are not root rows
`(T'·B_c)_i = (T·B_c)_i` and no entry outside the pattern changes; a root row is untouched or the identity row -/
restate cg_run_property := PyamgV.C10c.cg_run_property
/-- without root nodes: `T'·B_c = T·B_c`, `supp(T' − T) ⊆ pattern` -/
restate cg_run_plain := PyamgV.C10c.cg_run_plain
/-- the shape / pattern hypotheses as the driver decides them on every call (flag `hyps`) -/
restate cg_hyps_sound := PyamgV.C10c.hypsOK_sound
restate cg_run_checked := PyamgV.C10c.cg_run_checked

/-! ### complex energy minimisation, complex filtered Jacobi

Over a commutative ring with involution the projection uses `Bᴴ`; the models run on Gaussian rationals
(`Model/ExtC10cComplex.lean`: the same generic functions with `conj = CRat.conj` and NumPy's lexicographic
order; ops `ext_c10c_energy c`, `ext_c10c_gmres c`, `ext_c10c_jacf`, `ext_c10c_smooth`). -/

/-- with `Bh = Bᴴ` the local Gram matrix is `Σ_{j∈J_i} conj(B[j,a])·B[j,b]` ... -/
restate conj_gram := PyamgV.C10c.gram_conj
/-- ... and Hermitian -/
restate conj_gram_hermitian := PyamgV.C10c.gram_conj_hermitian
/-- `satisfy_constraints` with `Bᴴ` and inverses of the conjugated Gram matrices: `U'·B = 0` -/
restate conj_satisfy_constraints := PyamgV.C10c.satisfy_constraints_conj
/-- **`(P − T)·B_c = 0`** for every sequence of updates generated from matrices projected with `Bᴴ` -/
restate conj_updates_constraint := PyamgV.C10c.conj_updates_constraint
/-- complex cg / cgnr, executable model on Gaussian rationals, every input -/
restate cgC_run_property := PyamgV.C10c.cgC_run_property
restate cgC_run_plain := PyamgV.C10c.cgC_run_plain
/-- complex gmres, executable model on Gaussian rationals, every input on which it returns -/
restate gmresC_run_property := PyamgV.C10c.gmresC_run_property
restate gmresC_precond_ok := PyamgV.C10c.mkPrecondC_ok
/-- **filtered Jacobi, executable model (`filteredLoop`), any field and conjugation, every input on which it
returns**: `P'·B_c = P·B_c`, every projected update annihilates `B_c`, nothing outside the union of the
step patterns changes -/
restate filtered_run_property := PyamgV.C10c.filtered_run_property
restate filteredC_run_property := PyamgV.C10c.filteredC_run_property

/-- unfiltered complex Jacobi / Richardson: `smoothing_polynomial` holds over every commutative ring; on the
Gaussian rationals the driver evaluates both of its sides (`ext_c10c_p_smooth`) next to the array model -/
theorem smoothing_polynomial_crat {n c : Nat} (M : Matrix (Fin n) (Fin n) PyamgV.CRat)
    (T : Matrix (Fin n) (Fin c) PyamgV.CRat) (d : ℕ) :
    (fun P : Matrix (Fin n) (Fin c) PyamgV.CRat => P - M * P)^[d] T = (1 - M) ^ d * T :=
  PyamgV.C10.smoothing_polynomial M T d

/-- non-vacuity: a Hermitian complex 2×2 run (`A = [[2, i], [-i, 3]]`, `T = I`, `B_c = (1, i)ᵀ`) satisfies the
hypotheses of `cgC_run_plain` for cg and cgnr, makes two updates and changes `T` -/
restate cgC_example := PyamgV.C10c.exC_plain
restate cgC_example_moves := PyamgV.C10c.exC_moves

/-! ## extension E53

### the whole of `energy_prolongation_smoother` (`Model/ExtC10dEnergy.lean`)

`C10dM.energyPattern` is the pattern handed to `compute_BtBinv`: `Atilde^degree·pattern(T)` computed as SciPy's
`csr_matmat` does (`spmmRow`), filtered by `C19.filterRowsMax` (`theta`) / `C19.truncateRows` (`k`; `qsort_twoarrays`) or
the union of both, turned into blocks (`patOf`), root rows replaced (`rootPat`); for `degree = 0` the filters act on
the entries of `T` itself.  `C10dM.energyFull` runs `filter_operator` + root reset when the code does, the Krylov loop
(parameter), and for a post-filter the second pass on the blocks of the filtered prolongator.  The check compares the
patterns exactly and the result with tolerance (`ext_c10d_energy`). -/

/-- what the `theta` filter keeps in a row: exactly the entries with `|a|² ≥ θ²·max|a_k|²` (C19, about the function
the model calls) -/
restate prefilter_theta_rule := PyamgV.C19.filterRowsMax_getD
/-- what the `k` filter keeps: a rearrangement of the row with all but `k` entries zeroed, none of them larger than a kept one -/
restate prefilter_k_rule := PyamgV.C19.truncateRow_spec_unconditional
/-- **the selected pattern lies inside the matrix**, every option, every input -/
restate energy_pattern_inside := PyamgV.C10d.energyPattern_patIn
/-- the `theta` rule, the `k` rule, their union and `eliminate_zeros` only drop stored entries -/
restate prefilter_only_removes := PyamgV.C10d.applyFilt_sub
/-- **the pre-filtered pattern lies inside the unfiltered pattern** `Atilde^degree·pattern(T)` (same root rows) -/
restate energy_pattern_subset := PyamgV.C10d.energyPattern_subset
/-- one projected row with an arbitrary right-hand side `Y`: `row·B` drops by `Y_i` -/
restate project_row_any_rhs := PyamgV.C10d.row_general
restate project_dense_any_rhs := PyamgV.C10d.projectDense_rows
/-- **`filter_operator`, executable model, every input on which it returns**: `(A'·B)_i = Bf_i` on every row with a
non-empty pattern row, zero outside the pattern, shape kept (closes the model side of `filter_operator_row_partial`:
the model returns only when every local Gram matrix is invertible) -/
restate filter_operator_model_spec := PyamgV.C10d.filterOperator_spec
/-- `filter_operator` then `I_F·T + P_I`: fitted prolongator (`P·B_c = B` row-wise, support in the pattern, identity rows) -/
restate energy_fitted_of_filter := PyamgV.C10d.fitted_of_filter
/-- a Krylov run that satisfies `C10c.Rel` keeps a fitted prolongator fitted -/
restate energy_fitted_kept := PyamgV.C10d.fitted_rel
/-- the cg / cgnr and gmres loops satisfy `Rel` as parameters of the composed model -/
restate energy_cg_loop_ok := PyamgV.C10d.kryCG_ok
restate energy_gmres_loop_ok := PyamgV.C10d.kryGmres_ok
/-- the composed model with any admissible Krylov loop -/
restate energy_full_property := PyamgV.C10d.energyFull_property
/-- **block-diagonal preconditioners**: a call that passes the input test `T.blocksize[0] == A.blocksize[0]` builds its
preconditioner with `A`'s block size, which is the row block size of every pattern of the run: the restriction `PreOK`
of `gmres_run_property` / `cg_run_property` is never violated by the function (calls with another block size raise
`ValueError`; the check verifies that on the real code) -/
restate energy_cg_precond_blocksize := PyamgV.C10d.energyFullCG_precond
restate energy_gmres_precond_blocksize := PyamgV.C10d.energyFullGmres_precond
/-- **`energy_prolongation_smoother`, cg / cgnr, every option, every input on which the model returns**: the selected
pattern is `energyPattern`; without a fitting pass `(P − T)·B_c = 0` on the non-root rows and `supp(P − T)` inside that
(pre-filtered) pattern; with extra candidates or a post-filter `P·B_c = B` row by row, `supp(P)` inside the pattern of
the last pass (after a post-filter: the blocks the filter kept), identity rows at the roots -/
restate energy_full_cg_property := PyamgV.C10d.energyFullCG_property
/-- the same with gmres -/
restate energy_full_gmres_property := PyamgV.C10d.energyFullGmres_property

/-- hence `supp(P − T) ⊆ Atilde^degree·pattern(T)` for every pre-filter (the clause the NumPy oracle judges) -/
restate energy_support_unfiltered := PyamgV.C10d.energyFull_support_unfiltered

/-! ### whole hierarchies (`Model/ExtC10dHierarchy.lean`)

`C10dM.hierarchy` is the level loop of `smoothed_aggregation_solver` / `rootnode_solver` from the fit on
(`fit_candidates` kernel model, `scale_T`, the composed energy model / unfiltered Jacobi / Richardson / `smooth = None`,
`A ← Pᴴ A P`, `B ← B_c`), the
aggregation and the strength matrix of every level being inputs (`keep=True` data of the real run). -/

/-- the levels are chained by the Galerkin product and the coarse candidates -/
restate hierarchy_chain := PyamgV.C10d.hierarchy_chain
/-- **every level**: what holds for every successful level step holds for every level of a hierarchy -/
restate hierarchy_levels := PyamgV.C10d.hierarchy_levels
/-- the decided validity of the aggregation arrays implies `ValidAgg` -/
restate hierarchy_valid_agg := PyamgV.C10d.validAggB_sound
/-- the dense `T` of a level is `kernelT` entry by entry -/
restate hierarchy_dense_T := PyamgV.C10d.denseT_get
/-- **smoothed aggregation, each level: `T·B_c = B − drop` on every aggregated unknown** (ordered field, exact square root) -/
restate level_fit_reproduces := PyamgV.C10d.levelStep_fit
/-- **each level: the smoother's clause** for the level's own `A`, `T`, `B_c`, `B` -/
restate level_smoothed := PyamgV.C10d.levelStep_smoothed
restate level_smooth_none := PyamgV.C10d.smoNone_spec
/-- Jacobi (diagonal / local / block weighting) and Richardson smoothers without `filter_entries`: `P` is the iterate of
`P ← P − M·P` with the scaled matrix of the level's own `A` and the weight `omega/rho` the real run used ... -/
restate level_smooth_jacobi := PyamgV.C10d.smoJacobi_spec
/-- ... which is the polynomial `(I − M)^degree·T` (`smoothing_polynomial` for the array model, any `n × n` scaled matrix) -/
restate smooth_loop_polynomial := PyamgV.C10d.smoothLoop_polynomial
/-- energy smoothers: `FullProp` (`(P − T)·B_c = 0` + pattern, or `P·B_c = B` + pattern + identity rows) on each level -/
restate level_smooth_energy_cg := PyamgV.C10d.smoEnergyCG_spec
restate level_smooth_energy_gmres := PyamgV.C10d.smoEnergyGmres_spec
/-- **root-node levels**: identity rows at the root dofs in `T`, coarse candidates = fine candidates at the root dofs -/
restate level_root := PyamgV.C10d.levelStep_root
/-- ... and in `P` -/
restate level_root_rows_kept := PyamgV.C10d.fullProp_root_rows

/-- **every level of a smoothed-aggregation hierarchy with an energy smoother (cg / cgnr) satisfies the constrained
smoothing clauses** for its own `T`, `B_c`, `B`: the composition of `hierarchy_levels`, `level_smoothed` and
`level_smooth_energy_cg`, spelled out -/
theorem hierarchy_energy_cg_levels {K : Type} [Field K] [DecidableEq K] (ops : PyamgV.C10M.FitOps K K) (conj rnd : K → K)
    (root : Bool) (tolfit : K) (nsq : K → Rat) (absf : K → K) (lt : K → K → Bool) (cgnr : Bool) (wt : Nat)
    (o : PyamgV.C10dM.Opts) (tol tol2 : K) (ins : List (PyamgV.C10dM.LvlIn K)) (K1 : Nat) (A B : PyamgV.C10M.Mat K)
    (outs : List (PyamgV.C10dM.LvlOut K (PyamgV.C10dM.Out K (PyamgV.C10M.EnergyOut K))))
    (h : PyamgV.C10dM.hierarchy ops conj rnd root tolfit
      (PyamgV.C10dM.smoEnergyCG nsq absf conj lt cgnr wt o tol tol2) ins K1 A B = .ok outs) :
    List.Forall₂ (fun L out => out.diag.P = out.P ∧
      PyamgV.C10d.FullProp nsq o (L.nFine * out.K1) (L.nCol * (if root then out.K1 else out.B.cols)) out.Bc.cols out.K1
        (if root then out.K1 else out.B.cols) L.atilde (PyamgV.C10dM.tpatOf L.nFine L.nCol L.cp L.ci) out.T out.Bc out.B
        L.cpts out.diag) ins outs := by
  refine PyamgV.C10d.hierarchy_levels ops conj rnd root tolfit _ _ ?_ ins K1 A B outs h
  intro L K1' A' B' out hout
  obtain ⟨e1, e2, e3⟩ := PyamgV.C10d.levelStep_io ops conj rnd root tolfit _ L K1' A' B' out hout
  have := PyamgV.C10d.levelStep_smoothed ops conj rnd root tolfit _ _
    (PyamgV.C10d.smoEnergyCG_spec nsq absf conj lt cgnr wt o tol tol2) L K1' A' B' out hout
  rw [e1, e3]
  exact this

/-! ## non-vacuity -/

/-- the composed energy model on a concrete root-node input with a post-filter: both passes are made, `T` moves,
`P·B_c = B`; every hypothesis of `energy_full_cg_property` holds -/
restate energy_full_example_runs := PyamgV.C10d.exFull_runs
restate energy_full_example_property := PyamgV.C10d.exFull_property
/-- a level step over the real numbers with the real square root returns: the hypotheses of `level_fit_reproduces` /
`level_smoothed` are satisfiable -/
restate level_example_runs := PyamgV.C10d.exLevel_runs

/-- the hypotheses on the square root hold for the real numbers, so the tentative-prolongator
theorems apply to every real input with the default `tol = 1e-10` -/
example {ι α : Type} [Fintype ι] [Fintype α] [DecidableEq α] (agg : ι → Option α) (B : ι → Nat → ℝ)
    (K2 : Nat) (a : α) (i : ι) (hi : agg i = some a) (c : Nat) (hc : c < K2) :
    ∑ a' : α, PyamgV.C10.colTR (PyamgV.C10.fitAgg Real.sqrt (1 / 10 ^ 10) agg B K2 a') c i =
      B i c - (PyamgV.C10.fitAgg Real.sqrt (1 / 10 ^ 10) agg B K2 a).drop.getD c 0 i :=
  PyamgV.C10.fit_reproduces Real.sqrt (fun _ h => Real.mul_self_sqrt h) Real.sqrt_nonneg (1 / 10 ^ 10)
    (by positivity) agg B K2 a i hi c hc

/-- a valid `AggOp` (4 nodes, aggregates {0, 2} and {1}, node 3 left out): the hypotheses of the
refinement theorems are satisfiable, and with the real square root so are those of
`kernel_reproduces` -- for every nodal block size, number of candidates and candidate array -/
theorem validAgg_example : PyamgV.C10R.ValidAgg 4 2 #[0, 2, 3] #[0, 2, 1] :=
  ⟨by decide, by decide, by decide, by decide⟩

example (K1 K2 : Nat) (b : Array ℝ) (a : Fin 2) (i : Fin (4 * K1))
    (hi : PyamgV.C10R.cscAgg 4 2 K1 #[0, 2, 3] #[0, 2, 1] i = some a) (c : Nat) (hc : c < K2) :
    ∑ a' : Fin 2, ∑ c' ∈ Finset.range K2,
      PyamgV.C10R.kernelT (PyamgV.C10M.fitCandidates (PyamgV.C10R.fieldOps Real.sqrt (fun _ => true)) 2 K1 K2
          #[0, 2, 3] #[0, 2, 1] b (1 / 10 ^ 10)) 4 2 K1 K2 #[0, 2, 3] #[0, 2, 1] a' c' i *
        PyamgV.C10R.kernelR (PyamgV.C10M.fitCandidates (PyamgV.C10R.fieldOps Real.sqrt (fun _ => true)) 2 K1 K2
          #[0, 2, 3] #[0, 2, 1] b (1 / 10 ^ 10)) K2 a'.val c' c =
      PyamgV.C10R.candB 4 K1 K2 b i c -
        (PyamgV.C10.fitAgg Real.sqrt (1 / 10 ^ 10) (PyamgV.C10R.cscAgg 4 2 K1 #[0, 2, 3] #[0, 2, 1])
          (PyamgV.C10R.candB 4 K1 K2 b) K2 a).drop.getD c 0 i :=
  PyamgV.C10R.kernel_reproduces Real.sqrt (fun _ => true) (1 / 10 ^ 10) K1 K2 b validAgg_example _
    (PyamgV.C10R.cscAgg_spec K1 validAgg_example) (fun _ h => Real.mul_self_sqrt h) Real.sqrt_nonneg
    (by positivity) a i hi c hc

/-- the aggregate map of that example: unknown 2 (node 2) lies in aggregate 0, unknown 3 in none -/
example : PyamgV.C10R.cscAgg 4 2 1 #[0, 2, 3] #[0, 2, 1] ⟨2, by decide⟩ = some 0 ∧
    PyamgV.C10R.cscAgg 4 2 1 #[0, 2, 3] #[0, 2, 1] ⟨3, by decide⟩ = none := by decide

/-- a concrete projection: one row with two allowed columns, candidate `(1, 2)ᵀ`, local inverse `1/5` -/
example : (Matrix.of ![![(1 / 5 : ℚ)]] : Matrix (Fin 1) (Fin 1) ℚ) *
    PyamgV.C10.gram (K := ℚ) (fun _ : Fin 1 => (Finset.univ : Finset (Fin 2)))
      (Matrix.of ![![(1 : ℚ), 2]]) (Matrix.of ![![(1 : ℚ)], ![2]]) 0 = 1 := by
  ext i j
  fin_cases i; fin_cases j
  simp [PyamgV.C10.gram, Matrix.mul_apply, Fin.sum_univ_two]
  norm_num


/-! ### extension E24 -/

/-- `imm_csr_spec` on a concrete input: `A = [[1,2],[0,3]]` (CSR), `B = [[4,5],[0,6]]` (CSC, columns
`#[0,1,3]`), `S` with the pattern `{(0,1), (1,0)}`; the hypotheses hold (sorted rows / columns) -/
theorem csr_example_sortedA : ∀ row, row < 2 →
    PyamgV.C10b.SortedSeg #[0,1,1] (PyamgV.C10M.rdN #[0,2,3] row) (PyamgV.C10M.rdN #[0,2,3] (row + 1)) := by
  intro row hrow p q h1 h2 h3
  have hr : row = 0 ∨ row = 1 := by omega
  rcases hr with rfl | rfl
  · have e1 : PyamgV.C10M.rdN #[0,2,3] 0 = 0 := rfl
    have e2 : PyamgV.C10M.rdN #[0,2,3] (0 + 1) = 2 := rfl
    rw [e1] at h1; rw [e2] at h3
    have hp : p = 0 := by omega
    have hq : q = 1 := by omega
    subst hp hq; decide
  · have e1 : PyamgV.C10M.rdN #[0,2,3] 1 = 2 := rfl
    have e2 : PyamgV.C10M.rdN #[0,2,3] (1 + 1) = 3 := rfl
    rw [e1] at h1; rw [e2] at h3
    omega

theorem csr_example_sortedB : ∀ col, col < 2 →
    PyamgV.C10b.SortedSeg #[0,0,1] (PyamgV.C10M.rdN #[0,1,3] col) (PyamgV.C10M.rdN #[0,1,3] (col + 1)) := by
  intro col hcol p q h1 h2 h3
  have hr : col = 0 ∨ col = 1 := by omega
  rcases hr with rfl | rfl
  · have e1 : PyamgV.C10M.rdN #[0,1,3] 0 = 0 := rfl
    have e2 : PyamgV.C10M.rdN #[0,1,3] (0 + 1) = 1 := rfl
    rw [e1] at h1; rw [e2] at h3
    omega
  · have e1 : PyamgV.C10M.rdN #[0,1,3] 1 = 1 := rfl
    have e2 : PyamgV.C10M.rdN #[0,1,3] (1 + 1) = 3 := rfl
    rw [e1] at h1; rw [e2] at h3
    have hp : p = 1 := by omega
    have hq : q = 2 := by omega
    subst hp hq; decide

theorem small_idx (a : Array Nat) (b : Nat) (h : ∀ i, i < a.size → a.getD i 0 < b) (hb : 0 < b) :
    ∀ p, PyamgV.C10M.rdN a p < b := by
  intro p
  by_cases hp : p < a.size
  · exact h p hp
  · unfold PyamgV.C10M.rdN
    simp [Array.getD_eq_getD_getElem?, Array.getElem?_eq_none (Nat.le_of_not_lt hp), hb]

example : ∀ row, row < 2 → ∀ ptr, PyamgV.C10M.rdN #[0,1,2] row ≤ ptr → ptr < PyamgV.C10M.rdN #[0,1,2] (row + 1) →
    (PyamgV.C10bM.incompleteMatMultCsr #[0,2,3] #[0,1,1] #[(1:ℤ),2,3] #[0,1,3] #[0,0,1] #[(4:ℤ),5,6]
        #[0,1,2] #[1,0] #[(7:ℤ),7] 2).getD ptr 0 =
      ∑ k ∈ Finset.range 2, PyamgV.C10b.csEntry #[0,2,3] #[0,1,1] #[(1:ℤ),2,3] row k *
        PyamgV.C10b.csEntry #[0,1,3] #[0,0,1] #[(4:ℤ),5,6] (PyamgV.C10M.rdN #[1,0] ptr) k := by
  refine (PyamgV.C10b.incompleteMatMultCsr_spec #[0,2,3] #[0,1,1] #[(1:ℤ),2,3] #[0,1,3] #[0,0,1] #[(4:ℤ),5,6]
    #[0,1,2] #[1,0] #[(7:ℤ),7] 2 2 ?_ (by decide) csr_example_sortedA ?_ ?_).2.1
  · intro r hr
    have : r = 0 ∨ r = 1 := by omega
    rcases this with rfl | rfl <;> decide
  · intro row _ p _ _
    exact small_idx #[0,1,1] 2 (by intro i hi; have : i < 3 := hi; interval_cases i <;> decide) (by decide) p
  · intro row _ ptr _ _
    exact csr_example_sortedB _
      (small_idx #[1,0] 2 (by intro i hi; have : i < 2 := hi; interval_cases i <;> decide) (by decide) ptr)

/-- ... and the model's value on it: `S = [·, 17; 0, ·]` whatever `Sx` held -/
example : PyamgV.C10bM.incompleteMatMultCsr #[0,2,3] #[0,1,1] #[(1:ℤ),2,3] #[0,1,3] #[0,0,1] #[(4:ℤ),5,6]
    #[0,1,2] #[1,0] #[(7:ℤ),7] 2 = #[17, 0] := by decide

/-- `imm_bsr_spec` on a concrete input with **unsorted** block columns: `A = [3 2]`, `B = [[7,5],[0,11]]`,
`S = [20 10]` stored as columns `(1, 0)`; the hypotheses hold -/
theorem bsr_example_hyps :
    PyamgV.C10b.MonoPtr #[0,2] 1 ∧ PyamgV.C10M.rdN #[0,2] 1 * (1 * 1) ≤ (#[(10:ℤ),20] : Array ℤ).size ∧
    (∀ i, i < 1 → ∀ jj, PyamgV.C10M.rdN #[0,2] i ≤ jj → jj < PyamgV.C10M.rdN #[0,2] (i+1) →
      PyamgV.C10M.rdN #[1,0] jj < 2) ∧
    (∀ i, i < 1 → ∀ jj jj', PyamgV.C10M.rdN #[0,2] i ≤ jj → jj < PyamgV.C10M.rdN #[0,2] (i+1) →
      PyamgV.C10M.rdN #[0,2] i ≤ jj' → jj' < PyamgV.C10M.rdN #[0,2] (i+1) →
      PyamgV.C10M.rdN #[1,0] jj = PyamgV.C10M.rdN #[1,0] jj' → jj = jj') := by
  refine ⟨?_, by decide, ?_, ?_⟩
  · intro r hr
    have : r = 0 := by omega
    subst this; decide
  · intro i hi jj h1 h2
    have : i = 0 := by omega
    subst this
    have e : PyamgV.C10M.rdN #[0,2] (0+1) = 2 := rfl
    rw [e] at h2
    interval_cases jj <;> decide
  · intro i hi jj jj' h1 h2 h3 h4 he
    have : i = 0 := by omega
    subst this
    have e : PyamgV.C10M.rdN #[0,2] (0+1) = 2 := rfl
    rw [e] at h2 h4
    interval_cases jj <;> interval_cases jj' <;> first | rfl | (exact absurd he (by decide))

example : PyamgV.C10M.incompleteMatMultBsr #[0,2] #[1,0] #[(2:ℤ),3] #[0,2,3] #[1,0,1] #[(5:ℤ),7,11] #[0,2] #[1,0]
    #[(10:ℤ),20] 1 2 1 1 1 = #[47, 41] := by decide

example : (PyamgV.C10M.incompleteMatMultBsr #[0,2] #[1,0] #[(2:ℤ),3] #[0,2,3] #[1,0,1] #[(5:ℤ),7,11] #[0,2] #[1,0]
    #[(10:ℤ),20] 1 2 1 1 1).size = 2 :=
  (PyamgV.C10b.incompleteMatMultBsr_spec #[0,2] #[1,0] #[(2:ℤ),3] #[0,2,3] #[1,0,1] #[(5:ℤ),7,11] #[0,2] #[1,0]
    #[(10:ℤ),20] 1 2 1 1 1 bsr_example_hyps.1 bsr_example_hyps.2.1 bsr_example_hyps.2.2.1 bsr_example_hyps.2.2.2).1

/-- the complex tentative-prolongator theorems apply to every complex input (`ℝ × ℝ`, real square root) -/
example {ι α : Type} [Fintype ι] [Fintype α] [DecidableEq α] (agg : ι → Option α) (B : ι → Nat → ℝ × ℝ)
    (K2 : Nat) (a : α) (i : ι) (hi : agg i = some a) (c : Nat) (hc : c < K2) :
    ∑ a' : α, (PyamgV.C10.ccolTR (PyamgV.C10.cfitAgg Real.sqrt (1 / 10 ^ 10) agg B K2 a') c).1 i =
      (B i c).1 - ((PyamgV.C10.cfitAgg Real.sqrt (1 / 10 ^ 10) agg B K2 a).drop.getD c 0).1 i :=
  (PyamgV.C10.cfit_reproduces Real.sqrt (fun _ h => Real.mul_self_sqrt h) Real.sqrt_nonneg (1 / 10 ^ 10)
    (by positivity) agg B K2 a i hi c hc).1

/-- a concrete GMRES run (two steps, `A = [[2,1],[1,3]]`, `T = I`, `B_c = (1,1)ᵀ`): it passes the exact
checks, so `gmres_run_checked` applies to it -/
restate gmres_example_checked := PyamgV.C10b.exRun_checked
restate gmres_example_keeps_product := PyamgV.C10b.exRun_keeps_product
/-- ... and it satisfies every hypothesis of `gmres_run_property` -/
restate gmres_example_property := PyamgV.C10b.exRun_property

/-! ### interface facts regenerated from the working tree on every run (translator tie) -/
/-- the `kernels_smoothed_aggregation` table the models assume equals the one regenerated from the source now -/
theorem generated_kernels_smoothed_aggregation : PyamgV.Facts.kernels_smoothed_aggregation = PyamgV.Generated.kernels_smoothed_aggregation := by decide
/-- likewise `linalg.h` (`gemm`, used by the projection and pattern-product kernels) -/
theorem generated_kernels_linalg : PyamgV.Facts.kernels_linalg = PyamgV.Generated.kernels_linalg := by decide

end PyamgV.Props.C10
