import PyamgV.Props.Restate
import PyamgV.Model.Facts
import PyamgV.Generated.Facts
import PyamgV.Proofs.FitCand
import PyamgV.Proofs.Proj
import PyamgV.Proofs.C10Fit
import PyamgV.Proofs.C10Proj
import Mathlib.Analysis.Real.Sqrt
import Mathlib.Algebra.Order.Ring.Rat
import Mathlib.Algebra.Field.Rat

/-! # C10 — aggregation-based prolongators reproduce the near-nullspace candidates

**Definitions the theorems are about, all executed by the driver on every run:**
`GS.mgs` / `C10.fitAgg` (per-aggregate modified Gram–Schmidt of `fit_candidates_common` with the
relative drop rule; op `c10_p_fit`), `C10.project` (the update of `satisfy_constraints_helper` for an
arbitrary row pattern; op `c10_p_proj`), `C10.IF`/`C10.PI` (root-node reset `I_F·X + P_I`; op
`c10_p_reset`), the iterate / polynomial of `smoothing_polynomial` (op `c10_p_smooth`).  The check
compares them — and the loop-by-loop array models of `Model/C10.lean` (`c10_fitk`, `c10_fitpy`,
`c10_sat`, `c10_satpy`, `c10_btb`, `c10_imm`, `c10_filter`, `c10_scaleT`, `c10_smooth`, `c10_jacf`) —
with the rebuilt kernels and the public Python functions, exactly where binary64 arithmetic is exact.

Scalars: any linearly ordered field with a square-root function for the tentative prolongator (real
case; the complex kernel is covered by the executable model and the search), any commutative ring
for the projection / smoothing statements (ℚ, ℝ, ℂ; `Bh` is an arbitrary matrix, `Bᴴ` in the code). -/
namespace PyamgV.Props.C10
open PyamgV

/-! ## tentative prolongator (`fit_candidates`) -/

/-- inner loop: orthogonalising `v` against orthonormal-or-zero columns splits `v` into their
combination (coefficients = entries of `R`) plus a remainder orthogonal to all of them -/
restate orth_spec := PyamgV.GS.orth_spec
/-- one new column: norm one (or zero when dropped), orthogonal to the earlier ones, `R_jj·q_j` is
the remainder unless the remainder's norm is at most the threshold -/
restate newCol_spec := PyamgV.GS.newCol_spec
/-- the whole loop of one aggregate, any number of candidates -/
restate mgs_spec := PyamgV.GS.mgs_spec
/-- pattern(T) = AggOp ⊗ block; rows of unaggregated unknowns are zero -/
restate fit_support := PyamgV.C10.fit_support
/-- columns belonging to different aggregates are orthogonal -/
restate fit_cross_orthogonal := PyamgV.C10.fit_cross_orthogonal
/-- columns of one aggregate: pairwise orthogonal with squared norm one or zero, `K2` of them, and
`B` restricted to the aggregate equals `T_a·R_a` plus the discarded remainders (each zero or of norm
`≤ tol·‖candidate‖`) -/
restate fit_local := PyamgV.C10.fit_local
/-- `(T·B_c)[i, c] = B[i, c] − drop` on every aggregated unknown `i`, as a sum over *all* coarse
unknowns (`drop = 0` when nothing was discarded or the discarded part is exactly dependent) -/
restate fit_reproduces := PyamgV.C10.fit_reproduces

/-! ## constraint projection (`satisfy_constraints_helper`, `satisfy_constraints`, `filter_operator`) -/

/-- entries outside the stored pattern are never touched -/
restate project_off := PyamgV.C10.project_off
/-- row-wise: the projection subtracts exactly `y_i` from `(U·B)_i` whenever `BtBinv[i]` inverts the
local Gram matrix on `y_i` (exact inverse or pseudo-inverse with `y_i` in the row space) -/
restate project_mul_row := PyamgV.C10.project_mul_row
restate project_mul := PyamgV.C10.project_mul
/-- `satisfy_constraints(U, B, BtBinv)` returns `U` with `U·B = 0` -/
restate satisfy_constraints_spec := PyamgV.C10.satisfy_constraints_spec
/-- `filter_operator(A, C, B, Bf)`: `(A_f·B)_i = Bf_i` on every row whose pattern supports the
constraints (invertible local Gram matrix) — the root-node clause "reproduces B where the pattern
allows", partial: rows with a singular local Gram matrix are not claimed -/
restate filter_operator_row_partial := PyamgV.C10.filter_operator_row
restate filter_operator_spec := PyamgV.C10.filter_operator_spec
/-- the full-matrix form proved in the design round (real case, all columns allowed) -/
restate proj_constraint := PyamgV.proj_constraint
restate update_keeps_PB := PyamgV.update_keeps_PB

/-- exact local inverses are the special case used for well-posed rows -/
theorem satisfy_constraints_exact {K : Type*} [CommRing K] {m n k : Type*} [Fintype n] [Fintype k]
    [DecidableEq n] [DecidableEq k] (J : m → Finset n) (Z : m → Matrix k k K) (Bh : Matrix k n K)
    (B : Matrix n k K) (U : Matrix m n K) (h : ∀ i, Z i * PyamgV.C10.gram J Bh B i = 1) :
    PyamgV.C10.project J Z Bh (U * B) U * B = 0 :=
  PyamgV.C10.satisfy_constraints_spec J Z Bh B U (fun i => by rw [h i, Matrix.vecMul_one])

/-! ## constrained smoothing: any sequence of projected, pattern-restricted updates
(energy minimisation with cg / cgnr / gmres, any `maxiter`, `degree`, `weighting`; filtered Jacobi) -/

/-- `P·B_c` never changes -/
restate updates_keep_product := PyamgV.C10.updates_keep_product
/-- no entry outside the allowed pattern changes -/
restate updates_keep_pattern := PyamgV.C10.updates_keep_pattern
/-- the diagonal / block-diagonal preconditioner of the Krylov loops keeps a direction constrained -/
restate scaling_keeps_zero := PyamgV.C10.scaling_keeps_zero
/-- so do the linear combinations the Krylov recurrences form -/
restate combination_keeps_zero := PyamgV.C10.combination_keeps_zero

/-- every matrix the Krylov loops can form from projected matrices by left scaling and linear
combination (search directions `P`, Arnoldi vectors `V_j`, whatever `beta`, `alpha`, `H`, `y` are)
annihilates `B` -/
restate gen_constrained := PyamgV.C10.gen_constrained
/-- the loop body shared by `cg_prolongation_smoothing` and `cgnr_prolongation_smoothing`, iterated
any number of times with arbitrary `(alpha, beta)`: `T·B` is unchanged, residual and direction stay
constrained -/
restate cg_steps_keep_product := PyamgV.C10.cg_steps_keep_product

/-! ## root nodes -/

/-- after `I_F·X + P_I` the root rows are identity rows -/
restate reset_identity_rows := PyamgV.C10.reset_identity_rows
restate reset_other_rows := PyamgV.C10.reset_other_rows
/-- coarse candidates `P_Iᵀ·B` are the fine candidates at the root dofs -/
restate injection_spec := PyamgV.C10.injection_spec
/-- resetting an updated prolongator = updating by the `I_F`-part of the update -/
restate reset_update := PyamgV.C10.reset_update

/-! ## unconstrained Jacobi / Richardson smoothing -/

/-- `degree` passes of `P ← P − M·P` equal `(I − M)^degree·T` -/
restate smoothing_polynomial := PyamgV.C10.smoothing_polynomial

/-! ## non-vacuity -/

/-- the hypotheses on the square root hold for the real numbers, so the tentative-prolongator
theorems apply to every real input with the default `tol = 1e-10` -/
example {ι α : Type} [Fintype ι] [Fintype α] [DecidableEq α] (agg : ι → Option α) (B : ι → Nat → ℝ)
    (K2 : Nat) (a : α) (i : ι) (hi : agg i = some a) (c : Nat) (hc : c < K2) :
    ∑ a' : α, PyamgV.C10.colTR (PyamgV.C10.fitAgg Real.sqrt (1 / 10 ^ 10) agg B K2 a') c i =
      B i c - (PyamgV.C10.fitAgg Real.sqrt (1 / 10 ^ 10) agg B K2 a).drop.getD c 0 i :=
  PyamgV.C10.fit_reproduces Real.sqrt (fun _ h => Real.mul_self_sqrt h) Real.sqrt_nonneg (1 / 10 ^ 10)
    (by positivity) agg B K2 a i hi c hc

/-- a concrete projection: one row with two allowed columns, candidate `(1, 2)ᵀ`, local inverse `1/5` -/
example : (Matrix.of ![![(1 / 5 : ℚ)]] : Matrix (Fin 1) (Fin 1) ℚ) *
    PyamgV.C10.gram (K := ℚ) (fun _ : Fin 1 => (Finset.univ : Finset (Fin 2)))
      (Matrix.of ![![(1 : ℚ), 2]]) (Matrix.of ![![(1 : ℚ)], ![2]]) 0 = 1 := by
  ext i j
  fin_cases i; fin_cases j
  simp [PyamgV.C10.gram, Matrix.mul_apply, Fin.sum_univ_two]
  norm_num

/-! ### interface facts regenerated from the working tree on every run (translator tie) -/
/-- the `kernels_smoothed_aggregation` table the models assume equals the one regenerated from the source now -/
theorem generated_kernels_smoothed_aggregation : PyamgV.Facts.kernels_smoothed_aggregation = PyamgV.Generated.kernels_smoothed_aggregation := by decide
/-- likewise `linalg.h` (`gemm`, used by the projection and pattern-product kernels) -/
theorem generated_kernels_linalg : PyamgV.Facts.kernels_linalg = PyamgV.Generated.kernels_linalg := by decide

end PyamgV.Props.C10
