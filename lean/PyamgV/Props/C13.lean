import PyamgV.Props.Restate
import PyamgV.Proofs.C13Wrap
import PyamgV.Proofs.C13Rat
import PyamgV.Proofs.ExtC13Pmis
import PyamgV.Proofs.ExtRsWholeWrap
import PyamgV.Proofs.ExtC17R5C13Mis
import PyamgV.Proofs.ExtC17R5Par
import PyamgV.Proofs.ExtPy3ClassicalSplit

/-! # C13 — coarse/fine splittings are well formed and cover the strength graph

Two layers, both executed by the driver against the working tree on every run.

*Wrapper level* (`Model/C13Wrap.lean`): `rsSplit`, `pmisSplit`, `cljpSplit` model the public routines
`RS`, `PMIS`/`PMISc`, `CLJP`/`CLJPc` from the caller's CSR arrays on: `remove_diagonal`, `S.T.tocsr()`,
`G = S + Sᵀ`, the kernel, `_set_dirichlet`.  The statements below speak only about the caller's
off-diagonal pattern: `j ∈ offRow S i` ⇔ `(i, j)` is a stored off-diagonal entry ("`i` strongly
depends on `j`"), `Conn S i j` ⇔ connected in the symmetrised graph.  They hold for every CSR pattern
of every size (symmetric or not, with or without stored diagonal, unsorted rows, duplicates,
isolated nodes), every weight vector (= every random seed) and every colouring.

*Kernel level*: the theorems about the kernel models (`RS.run`, `RS.pass2`, `KCljp.run`, `parIter`)
with their structural hypotheses — these hypotheses are discharged for the wrapper's arrays in
`Proofs/C13Wrap.lean`. -/
namespace PyamgV.Props.C13

/-! ## the model of the Python preprocessing is the transpose / the off-diagonal part -/
/-- the CSR arrays built from row lists have exactly those rows (prefix-sum `indptr`, concatenated `indices`) -/
restate csr_of_rows := PyamgV.C13.ofRows_row
/-- `remove_diagonal`: row `i` keeps exactly the stored off-diagonal columns `< n` -/
restate remove_diagonal_spec := PyamgV.C13.mem_offRow
/-- `S.T.tocsr()`: `j` is in row `i` of `T` iff `i` is in row `j` of `remove_diagonal(S)` -/
restate transpose_spec := PyamgV.C13.mem_prepT_row
/-- `G = S + Sᵀ`: adjacency of the graph handed to the MIS kernel -/
restate symmetrise_spec := PyamgV.C13.mem_symGraph

/-! ## Ruge–Stüben -/
/-- `RS(S)` and `RS(S, second_pass=True)`, any pattern: one flag per node, each 0 or 1 -/
restate rs_flags := PyamgV.C13.rs_flags
/-- `RS(S)`, symmetric pattern: 0/1 flags, no two strongly connected C-points, every F-point with a
strong connection has a strongly connected C-point -/
restate rs_first_pass_symmetric := PyamgV.C13.rs_first_pass_sym
/-- `RS(S, second_pass=True)`, any pattern: every F-point that strongly depends on some node strongly
depends on a C-point -/
restate rs_two_pass_cover := PyamgV.C13.rs_two_pass_cover
/-- `RS`, any pattern, both settings: a C-point exists whenever the strength graph has an edge -/
restate rs_has_coarse := PyamgV.C13.rs_has_coarse

/-! ## PMIS / PMISc (any strictly totally ordered weights, e.g. the doubles the kernel compares) -/
/-- `PMISc`: one 0/1 flag per node, independent and dominating in the symmetrised graph -/
restate pmisc_spec := PyamgV.C13.pmisc_spec
/-- `PMIS` (= the same sweep followed by `_set_dirichlet`): one 0/1 flag per node, independent, and
every F-point with a strong connection has a strongly connected C-point -/
restate pmis_spec := PyamgV.C13.pmis_spec
/-- `PMIS`/`PMISc`: a C-point exists whenever the strength graph has an edge -/
restate pmis_has_coarse := PyamgV.C13.pmis_has_coarse
/-- exact rationals (the values of doubles) are such weights -/
restate rat_weights_ordered := PyamgV.C13.ratOrd

/-! ## CLJP / CLJPc (any weight arithmetic obeying `WLaw`; the selection loop exits within `n + 1`
passes whenever the comparison is a strict partial order, `cljp_exits`) -/
/-- `CLJP`/`CLJPc`: one 0/1 flag per node and the dependence cover -/
restate cljp_spec := PyamgV.C13.cljp_spec
/-- `CLJP`/`CLJPc`: a C-point exists whenever the strength graph has an edge -/
restate cljp_has_coarse := PyamgV.C13.cljp_has_coarse
/-- the selection loop terminates: every pass decides an undecided node of maximal weight -/
restate cljp_exits := PyamgV.C13.cljp_exits
/-- the weight laws hold over ℚ, and `<` on ℚ is a strict partial order -/
restate rat_weight_laws := PyamgV.C13.ratLaw
restate rat_lt_order := PyamgV.C13.ratLt
/-- the instance for exact rational weights (run by the driver next to the `Float` instance):
termination, flags and cover without any side condition besides `w0 ≥ 0` -/
restate cljp_rat := PyamgV.C13.cljp_rat
/-- `PMIS` with rational weights -/
restate pmis_rat := PyamgV.C13.pmis_rat

/-! ## one definition: the array form run by the driver is the proof-side form -/
/-- the array MIS model with the kernel's `while (active_nodes)` stopping rule (fuel `n + 2`) performs
exactly the `n` proof-side sweeps -/
restate mis_array_model_eq_sweeps := PyamgV.C13.misParallel_eq_parIter
/-- a sweep that leaves `active_nodes == false` leaves no active node -/
restate mis_active_flag_meaning := PyamgV.C13.cfold_flag
/-- `pmisSplitK = pmisSplit` for every pattern, weight array and `dirichlet` setting -/
restate pmis_array_form_eq := PyamgV.C13.pmisSplitK_eq
/-- the instance the driver op `c13_pmis` prints side by side -/
restate pmis_array_form_eq_rat := PyamgV.C13.pmisSplitK_eq_rat
/-- `PMISc`, array form: 0/1 flags, independent and dominating in `S ∪ Sᵀ` -/
restate pmisc_array_spec := PyamgV.C13.pmiscK_spec
/-- `PMIS`, array form -/
restate pmis_array_spec := PyamgV.C13.pmisK_spec
restate pmis_array_has_coarse := PyamgV.C13.pmisK_has_coarse
/-- `RS(S, second_pass=True)` keeps every C-point of `RS(S)` (any pattern) -/
restate rs_two_pass_keeps_coarse := PyamgV.C13.rs_two_pass_keeps_coarse
restate kernel_rs_pass2_keeps_coarse := PyamgV.C13.pass2_keep

/-! ## kernel level (arrays as handed to the kernels; hypotheses discharged above for the wrappers) -/
restate kernel_rs_independent := PyamgV.RS.rs_independent
restate kernel_rs_dominating := PyamgV.RS.rs_dominating'
restate kernel_rs_flags_any_pattern := PyamgV.C13.RSAny.run_flags
restate kernel_rs_has_coarse_any_pattern := PyamgV.C13.RSAny.run_has_coarse
restate kernel_rs_pass2_cover := PyamgV.RS.pass2_cover
restate kernel_cljp_cover := PyamgV.KCljp.cljp_model_cover'
restate kernel_cljp_exits := PyamgV.KCljp.run_exits
restate kernel_mis_parallel_total := PyamgV.misParallel_total

/-! ## extension E25: the first pass is computed safely (checked model `RS.runCk` of the whole kernel) -/
/-- `RS(S)`, any caller pattern: the kernel call `rs_cf_splitting(n, Sp, Sj, Tp, Tj, 0, splitting)` on
`remove_diagonal(S)` and its transpose performs only in-range array accesses, its main loop ends
within `n` iterations, and what it returns is the first-pass splitting `rsSplit S false` of the
theorems above -/
restate rs_kernel_call_safe := PyamgV.C13.rs_kernel_call_safe
/-- the arrays the wrapper builds are structurally valid CSR arrays -/
restate rs_wrapper_arrays_wellformed_S := PyamgV.C13.prepS_WFp
restate rs_wrapper_arrays_wellformed_T := PyamgV.C13.prepT_WFp
/-- kernel level: every structurally valid pair `S`, `T` (transposes of each other or not), any size -/
restate kernel_rs_whole_safe := PyamgV.RS.rs_cf_splitting_safe
/-- structurally valid arrays have all row entries `< n` (the hypothesis `SOK` of the kernel-level theorems) -/
restate kernel_rs_wellformed_rows := PyamgV.RS.WFp.sok

/-! ## extension E46: `MIS(G, weights, maxiter)` (model `C17R5.misSplit` of `Model/ExtC17R5Mis.lean`: `remove_diagonal`, then the
array model of `maximal_independent_set_parallel` with the kernel's stopping rule; driver op `c13r5_mis`, compared with
`split.MIS` for `maxiter = None` and for truncated runs) -/
/-- `MIS(G, w, maxiter)` is the result of `k ≤ maxiter` sweeps -/
restate mis_truncated_is_k_sweeps := PyamgV.C17R5.misSplit_sweeps
/-- **truncated runs are partial maximal independent sets**: symmetric off-diagonal pattern, ANY weights (ties allowed), ANY
`maxiter` (and `None`): flags `-1/0/1`, every neighbour of a selected node is marked `0`, every node marked `0` has a selected
neighbour -/
restate mis_partial := PyamgV.C17R5.mis_partial
/-- … in particular the selected set is independent after any number of passes -/
restate mis_partial_independent := PyamgV.C17R5.mis_partial_independent
/-- the full run (`maxiter = None`, strictly totally ordered weights) is a maximal independent set with 0/1 flags -/
restate mis_full := PyamgV.C17R5.mis_full
/-- kernel level, ANY structurally valid pattern (symmetric or not), any weights, any `max_iters`, any number of passes of the
checked model `C17R4.misParallel` started without entry `C`: a node marked `C` has no other node of its row marked `C` or left
`active`, and every access was in range -/
restate kernel_mis_parallel_partial_any_pattern := PyamgV.C17R5.misParallel_partial
/-- kernel level: with `max_iters = -1` the checked model terminates within `n + 1` passes and leaves no `active` entry -/
restate kernel_mis_parallel_checked_total := PyamgV.C17R5.misParallel_total

/-! ## non-vacuity: the path 0–1–2–3 with a stored diagonal (CSR of the 1-D Poisson pattern) -/
def path4 : PyamgV.C13.Pat := ⟨4, #[0,2,5,8,10], #[0,1,0,1,2,1,2,3,2,3]⟩
example : PyamgV.C13.offRow path4 1 = [0, 2] := by decide
/-- the symmetry hypothesis of `rs_first_pass_symmetric` is satisfiable on a graph with edges -/
example : PyamgV.C13.SymPat path4 := by
  intro i j hi hj
  exact (by decide : ∀ i, i < 4 → ∀ j, j < 4 →
    (j ∈ PyamgV.C13.offRow path4 i ↔ i ∈ PyamgV.C13.offRow path4 j)) i hi j hj
/-- the edge hypothesis of the `…_has_coarse` theorems -/
example : 2 ∈ PyamgV.C13.offRow path4 1 := by decide
/-- the well-formedness hypothesis of `kernel_rs_whole_safe` is satisfiable on a graph with edges -/
example : PyamgV.RS.WFp (PyamgV.C13.prepS path4) 4 := PyamgV.C13.prepS_WFp path4
/-- the checked whole-kernel model on the off-diagonal arrays of this pattern runs clean and returns C,F,C,F -/
example : (PyamgV.RS.runCk PyamgV.RS.path4 PyamgV.RS.path4).ok = true := by decide
example : (PyamgV.RS.runCk PyamgV.RS.path4 PyamgV.RS.path4).val = #[1, 0, 1, 0] := by decide
/-- E46: the kernel model of `MIS` on the off-diagonal arrays of this pattern (`prepS path4`, printed by `c13_prep`) with tied weights
`1,1,2,2`: one pass selects node 3 only and leaves nodes 0 and 1 undecided (`-1`): a partial independent set; two passes decide
everything, as does the untruncated run -/
example : (PyamgV.G.misParallel ⟨4, #[0,1,3,5,6], #[1,0,2,1,3,2]⟩ (-1) 1 0 (#[1,1,2,2] : Array Int) (some 1)
    (Array.replicate 4 (-1))).1 = #[-1, -1, 0, 1] := by decide
example : (PyamgV.G.misParallel ⟨4, #[0,1,3,5,6], #[1,0,2,1,3,2]⟩ (-1) 1 0 (#[1,1,2,2] : Array Int) (some 2)
    (Array.replicate 4 (-1))).1 = #[0, 1, 0, 1] := by decide
example : (PyamgV.G.misParallel ⟨4, #[0,1,3,5,6], #[1,0,2,1,3,2]⟩ (-1) 1 0 (#[1,1,2,2] : Array Int) none
    (Array.replicate 4 (-1))).1 = #[0, 1, 0, 1] := by decide
/-- the only hypothesis of `pmis_array_form_eq` (strictly totally ordered weights) is satisfiable -/
example : PyamgV.WOrd Rat := PyamgV.C13.ratOrd

/-! ## the Python wrappers as the SOURCE has them (extension E58, Proofs/ExtPy3ClassicalSplit.lean)

`harness/py2lean3_classical.py` translates `RS`, `PMIS`, `PMISc`, `CLJP`, `CLJPc`, `MIS` and `_preprocess` of
pyamg/classical/split.py from the working tree into `Generated/PyLogic3_classical.lean` on every run (sparse matrices
opaque; every SciPy / NumPy operation, every call of another pyamg function and every native kernel call is an event
with the identities of its arguments).  The theorems below are about these GENERATED definitions, evaluated by the
kernel on finite grids of scenarios (`Model/ExtPy3ClassicalWorlds.lean`: sparse or not, format csr / csc / bsr, every
option value `False True 0 1 None`, `maxiter` None / 0 / 3 / -1, square or not, colouring method given or not).  They
tie the call shapes the wrapper models above assume (`prepS` / `prepT` / `rsSplit` / `cljpSplit` / `pmisSplit` of
Model/C13Wrap.lean) to the source: which matrix -- `S1 = remove_diagonal(S)` or its transpose `T1 = S1.T.tocsr()` --
each kernel receives, in which order, into which arrays.  Partial: finite grids; the sparse operations themselves are
opaque here (they are modelled and proved above). -/
/-- RS: validation, `S1 = remove_diagonal(S)`, `T1 = S1.T.tocsr()`, first pass on (S1, T1, influence, splitting), second
pass (iff `second_pass` is true) on S1 and the same splitting: result / exception class and the whole trace -/
restate generated_rs_trace_partial := PyamgV.ExtPy3ClassicalP.rs_refines_spec
/-- RS: the kernel calls are exactly `rsKernelShape` = the shape of `C13.rsSplit` (`RS.run (prepS S) (prepT S)`,
`RS.pass2 (prepS S) x`): the second pass receives S1, not the transpose -/
restate generated_rs_kernel_calls_partial := PyamgV.ExtPy3ClassicalP.rs_kernel_calls
/-- CLJP: result and whole trace; `colorid` = 1 iff `color` is true -/
restate generated_cljp_trace_partial := PyamgV.ExtPy3ClassicalP.cljp_refines_spec
/-- CLJP: the kernel receives S1 and the separately built transpose T1 (`KCljp.run o (prepS S) (prepT S)`) -/
restate generated_cljp_kernel_calls_partial := PyamgV.ExtPy3ClassicalP.cljp_kernel_calls
/-- MIS: diagonal removed, output pre-filled with -1, `maxiter=None` reaches the kernel as -1, negative `maxiter` raises -/
restate generated_mis_trace_partial := PyamgV.ExtPy3ClassicalP.mis_refines_spec
/-- PMIS: `MIS(G, weights)` on what `_preprocess(remove_diagonal(S))` returned, then `_set_dirichlet(G, splitting)` -/
restate generated_pmis_trace_partial := PyamgV.ExtPy3ClassicalP.pmis_refines_spec
/-- PMISc: the colouring method is handed to `_preprocess`; no Dirichlet post-processing -/
restate generated_pmisc_trace_partial := PyamgV.ExtPy3ClassicalP.pmisc_refines_spec
/-- CLJPc = `CLJP(remove_diagonal(S), color=True)` -/
restate generated_cljpc_trace_partial := PyamgV.ExtPy3ClassicalP.cljpc_refines_spec
/-- `_preprocess`: pattern copy `S2`, `T2 = S2.T.tocsr()`, `G = S2 + T2` filled with ones (the fresh sum, not an
argument), weights = row sums of the TRANSPOSE + random numbers (+ colour / number of colours) -/
restate generated_preprocess_trace_partial := PyamgV.ExtPy3ClassicalP.preprocess_refines_spec
/-- MIS hands ANY `weights` value on to the kernel unchanged, on every scenario of the grid -/
restate generated_mis_any_weights_partial := PyamgV.ExtPy3ClassicalP.mis_any_weights
/-- PMISc hands ANY `method` value on to `_preprocess(coloring_method=...)` unchanged -/
restate generated_pmisc_any_method_partial := PyamgV.ExtPy3ClassicalP.pmisc_any_method
/-- no split wrapper mutates its argument: no item / attribute assignment or in-place method targets the caller's
matrix or one of its arrays, and no native kernel receives one of them -/
restate generated_split_argument_untouched_partial := PyamgV.ExtPy3ClassicalP.split_argument_untouched
/-- invalid input raises (`TypeError`: not sparse CSR; `ValueError`: negative `maxiter`, non-square) before any kernel -/
restate generated_split_invalid_raises_partial := PyamgV.ExtPy3ClassicalP.split_invalid_raises

/-- non-vacuity: the grid contains a valid RS scenario with the second pass, and its run calls both kernels -/
example : (PyamgV.ExtPy3Classical.kernelCalls (PyamgV.ExtPy3ClassicalW.runRS { sparse := true, fmt := "csr", opt := .bool true }).2).length = 2 := by
  decide +kernel

end PyamgV.Props.C13
