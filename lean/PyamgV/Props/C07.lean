import PyamgV.Props.Restate
import PyamgV.Proofs.C07Vec
import PyamgV.Proofs.C07Cert
import PyamgV.Model.C07Example
import PyamgV.Proofs.C07GmresKry
import PyamgV.Proofs.GmresGivens
import PyamgV.Proofs.ArnoldiStep
import PyamgV.Proofs.ExtC07Restart
import PyamgV.Proofs.ExtC07Fgm
import PyamgV.Proofs.ExtC07Kry
import PyamgV.Proofs.ExtC07Vec
import PyamgV.Proofs.ExtC07CGmres
import PyamgV.Proofs.ExtC07CCert
import PyamgV.Proofs.ExtC07CReal
import PyamgV.Proofs.ExtC07CFinite
import PyamgV.Model.ExtC07CExample
import PyamgV.Proofs.ExtCGVecHh
import PyamgV.Proofs.ExtCGRestart
import PyamgV.Model.ExtCGExample
import Mathlib.Analysis.Real.Sqrt

/-! # C07 — Krylov iterates are the optimal elements of the Krylov space

Models: `Model/C07Krylov.lean` — the loop bodies of `_cg.py`, `_cr.py`, `_cgne.py`, `_cgnr.py`,
`_steepest_descent.py`, `_minimal_residual.py` (alpha, beta, direction updates, periodic
recomputation of the residual, side of the preconditioner), written once over an abstract record
of vector operations.  The correspondence run executes them on `Vector Rat n` (`vecOps`, op
`c07_iter`) and compares the iterates with the callback log of the real solvers.  The first block of
theorems is about **exactly those definitions on exactly that instance** (`cgVec`, `crVec`,
`cgneVec`, `cgnrVec`, `sdStep`, `mrStep` with `vecOps`), over any ordered field (`Rat` included):
they are carried onto the abstract sequences of `Proofs/PCG.lean` / `KrylovSim.lean` by
`Proofs/C07Refine.lean` (module instance, `r = b − A x` invariant for the periodic recomputation)
and `Proofs/C07Vec.lean` (every `Vector` operation commutes with `toFn`).
GMRES with modified Gram–Schmidt has an executable model too (`Model/C07Gmres.lean`: Arnoldi/MGS, incremental
Givens rotations, back substitution; run by the driver in binary64, op `c07_gmres_mgs`) and is proved
residual-optimal over the preconditioned Krylov space, end to end, over ordered fields with an exact square
root (`gmres_mgs_optimal_krylov`).
Extension E11: restarted GMRES(MGS) (`gmres_restart_optimal`, monotonicity across restarts), FGMRES
(`fgmres_optimal`: executable model of `_fgmres.py`, Householder--Arnoldi + Givens, any sequence of right
preconditioners) and GMRES with Householder orthogonalisation (`gmres_householder_optimal_krylov`) have executable
models (`Model/ExtC07Restart.lean`, `Model/ExtC07Hh.lean`, ops `ext_gmres_restart`, `ext_fgmres`, `ext_gmres_hh`)
proved optimal end to end, also for the `Vector` instance the driver runs (`…_vec_…`).
Extension E37: the **complex case**.  `Proofs/ExtC07C*.lean` redo the theory over a field with involution carrying a
positive semidefinite Hermitian form measured in an ordered field (`HForm K F V`; `np.vdot` convention), and
instantiate it for the recurrence models on `Vector CRat n` with `vecOps CRat.conj` -- the terms op `c07_iter … c`
evaluates: `complex_cg_optimal` … `complex_mr_exact_line_search`.  Preconditioned CR with `M A = A M` is proved
optimal, complex and real (`complex_cr_optimal`, `cr_commuting_preconditioner_optimal`); the GMRES least-squares
characterisation is proved in the Hermitian setting (`complex_gmres_optimal_of_qr`); the complex certificate of the
search oracle is checked by a checker proved sound (`complex_argmin_certificate_sound`, op `ext_c07c_argmin`). -/
namespace PyamgV.Props.C07
open PyamgV

/-! ### theorems about the executable recurrence models (the definitions the driver runs) -/

/-- CG (`_cg.py`, any symmetric `M`): `A` symmetric positive definite, no breakdown before step `k` ⇒
iterate `k` lies in `x₀ + K_k(MA, M r₀)` and minimises the energy norm of the error over it -/
restate cg_optimal := PyamgV.C07.cg_vec_optimal
/-- … hence the energy norm of the error is non-increasing from iterate `k` to `k+1` -/
restate cg_monotone := PyamgV.C07.cg_vec_monotone
/-- … and an `n × n` system is solved exactly after at most `n` steps (`M` positive definite) -/
restate cg_solves_within_n_steps := PyamgV.C07.cg_vec_solves
/-- CGNR (`_cgnr.py`): iterate `k` minimises `‖b − A x‖₂` over `x₀ + K_k(M AᵀA, M Aᵀ r₀)` -/
restate cgnr_optimal := PyamgV.C07.cgnr_vec_optimal
/-- CGNE (`_cgne.py`): iterate `k` minimises `‖x* − x‖₂` over `x₀ + Aᵀ K_k(M A Aᵀ, M r₀)` -/
restate cgne_optimal := PyamgV.C07.cgne_vec_optimal
/-- CR (`_cr.py`) without preconditioner: iterate `k` minimises `‖b − A x‖₂` over `x₀ + K_k(A, r₀)` -/
restate cr_optimal := PyamgV.C07.cr_vec_optimal
/-- steepest descent: every step is the exact line search for the energy norm of the error along `M r` -/
restate sd_exact_line_search := PyamgV.C07.sd_vec_step_optimal
/-- minimal residual: every step is the exact line search for `‖M(b − A x)‖₂` along `M r` -/
restate mr_exact_line_search := PyamgV.C07.mr_vec_step_optimal

/-! ### the oracle of the failing-input search is itself checked: an accepted certificate `(d, y)`
(`y = x0 + Σ d_i v_i`, `G (t − y) ⟂ v_i`, decided exactly by `certV` in the driver) is the minimiser of
`(t − ·)ᵀ G (t − ·)` over `x0 + span{v_i}` for symmetric positive semidefinite `G` -/
restate argmin_certificate_sound := PyamgV.C07.certV_sound

/-! ### the links: model ⇄ abstract sequence (including the periodic `r = b − A x` recomputation) -/
restate cg_model_is_pcg := PyamgV.C07.cg_refines
restate cgnr_model_is_nrSeq := PyamgV.C07.cgnr_refines
restate cgne_model_is_neSeq := PyamgV.C07.cgne_refines
restate cr_model_is_crSeq := PyamgV.C07.cr_refines
restate vector_model_is_module_model := PyamgV.C07.cg_iter_hom
/-- CGNR reaches the exact solution within `dim V` steps (module-level model) -/
restate cgnr_solves_within_n_steps := PyamgV.C07.cgnr_model_solves

/-! ### abstract theory the above rests on (restated) -/
restate pcg_optimal_krylov := PyamgV.PCG.pcg_optimal_krylov
restate pcg_monotone := PyamgV.PCG.pcg_monotone
/-- new: finite termination of *preconditioned* CG -/
restate pcg_solves := PyamgV.PCG.pcg_solves
restate petrov_optimal := PyamgV.petrov_optimal
restate petrov_monotone := PyamgV.petrov_monotone
restate line_search_orth := PyamgV.line_search_orth

/-! ### GMRES with modified Gram–Schmidt: the executable model `gmresStep` of `_gmres_mgs.py` -/
/-- every state of the model carries an orthonormal-or-zero basis and Hessenberg columns with
`(MA) v_i = Σ_l H_{l i} v_l`, also through a breakdown -/
restate gmres_mgs_arnoldi_invariant := PyamgV.C07.gmres_model_arnoldi
/-- the Givens bookkeeping: stored columns are `Q_{i+1} h_i`, `g = Q_k (β e₀)`, unit rotations, zeroed subdiagonal -/
restate gmres_mgs_givens_invariant := PyamgV.C07.givInv_all
/-- after `m+1 < n` inner iterations without breakdown the recorded iterate minimises `‖M(b − A x)‖₂` over
`x₀ + span{v_0 … v_m}` (the Arnoldi basis of the preconditioned Krylov space) -/
restate gmres_mgs_optimal := PyamgV.C07.gmres_mgs_model_optimal
/-- without breakdown the Arnoldi basis spans the preconditioned Krylov space: `span{v_0 … v_m} = K_{m+1}(MA, M r₀)` -/
restate gmres_mgs_basis_spans_krylov := PyamgV.C07.gmres_basis_span
/-- C07 for GMRES(MGS) as stated: the iterate lies in `x₀ + K_{m+1}(MA, M r₀)` and minimises the 2-norm of the
left-preconditioned residual over it -/
restate gmres_mgs_optimal_krylov := PyamgV.C07.gmres_mgs_model_optimal_krylov

/-! ### extension E11 — restarted GMRES(MGS): the model `gmresRestart` (`Model/ExtC07Restart.lean`, run by the driver
in binary64, op `ext_gmres_restart`) instantiated over a `K`-module -/
/-- entry `j·r + m` of the callback log of the restarted run (iterate `m+1` of cycle `j`; `m < r`, `m + 1 < n`, no
breakdown in that cycle) lies in `x^(j) + K_{m+1}(MA, M(b − A x^(j)))`, `x^(j)` the restart point, and minimises the
2-norm of the preconditioned residual over it -/
restate gmres_restart_optimal := PyamgV.C07.gmres_restart_optimal
/-- … its preconditioned residual is at most the one of the restart point of its cycle -/
restate gmres_restart_le_start := PyamgV.C07.gmres_restart_le_start
/-- … and the preconditioned residual norm does not increase from one inner iteration to the next -/
restate gmres_restart_step_monotone := PyamgV.C07.gmres_restart_step_mono
/-- monotonicity across restarts: `‖M(b − A x^(j+1))‖ ≤ ‖M(b − A x^(j))‖` (cycle length `0 < r < n`) -/
restate gmres_restart_points_monotone := PyamgV.C07.gmres_restart_points_mono
/-- … hence `‖M(b − A x^(j))‖ ≤ ‖M(b − A x₀)‖` after any number of breakdown-free cycles -/
restate gmres_restart_points_le_initial := PyamgV.C07.gmres_restart_points_le_initial
/-- the log is cut into cycles of `r` entries; entry `j·r + m` is the last iterate of `m+1` inner iterations from `x^(j)` -/
restate gmres_restart_log_entry := PyamgV.C07.restartLog_getElem

/-! ### extension E11 — FGMRES: the executable model `fgStep` of one cycle of `_fgmres.py` (`Model/ExtC07Hh.lean`:
Householder--Arnoldi with the kernels `apply_householders`, Givens rotations, back substitution, `x₀ + Z y`; run
by the driver in binary64, op `ext_fgmres`), over a `K`-module with orthonormal coordinate vectors `E_0 … E_{n-1}` -/
/-- the iterates of the model are the `xs` of the states `fgSeq` the theorems are about -/
restate fgmres_model_states := PyamgV.C07.fgmresHh_eq
/-- after `m + 1 < n` inner iterations (`r₀ ≠ 0`, triangular factor non-singular) the recorded iterate lies in
`x₀ + span{z_0 … z_m}` and minimises the 2-norm of the true residual `b − A x` over it, `z_j` the preconditioned
directions -- for arbitrary maps `pre j` (right preconditioner changing from step to step) -/
restate fgmres_optimal := PyamgV.C07.fgmres_hh_optimal
/-- … hence `‖b − A x‖₂` does not increase from one inner iteration to the next -/
restate fgmres_monotone := PyamgV.C07.fgmres_hh_monotone
/-- the directions are `z_j = pre j (v_j)` with `v_0 … v_k` orthonormal and `r₀ = β v_0` -/
restate fgmres_directions := PyamgV.C07.fgmres_hh_directions
/-- the Householder--Arnoldi and the Givens invariant hold in every state `k < n` of the FGMRES model -/
restate fgmres_invariant := PyamgV.C07.fgSeq_inv
/-- one Householder--Arnoldi step (`hhArnoldi`, shared by `_fgmres.py` and `_gmres_householder.py`) keeps the invariant:
unit-or-zero reflectors with leading zeros, Arnoldi relation `B z_j = Σ_l H_{l j} (P_0 ⋯ P_k E_l)` -/
restate householder_arnoldi_step_invariant := PyamgV.C07.hhInv_step
/-- the reflector `newReflO` builds: unit vector, maps `u` to `−α E'` -/
restate householder_vector := PyamgV.C07.househ
/-! ### extension E11 — GMRES with Householder orthogonalisation: the executable model `ghStep` of one cycle of
`_gmres_householder.py` (same Householder--Arnoldi process with `pre = id`, operator `MA`; update by the Horner
scheme `householder_hornerscheme`; run by the driver in binary64, op `ext_gmres_hh`) -/
restate gmres_householder_model_states := PyamgV.C07.gmresHh_eq
/-- the Horner scheme computes `Σ_j y_j (P_0 ⋯ P_j E_j)` -/
restate householder_horner_scheme := PyamgV.C07.hornerO_eq
/-- after `m + 1 < n` inner iterations the recorded iterate minimises `‖M(b − A x)‖₂` over `x₀ + span{v_0 … v_m}`,
`v_j` the orthonormal Householder--Arnoldi vectors -/
restate gmres_householder_optimal := PyamgV.C07.gmres_hh_optimal
/-- an Arnoldi relation with non-zero subdiagonal makes the basis span the Krylov space (any orthogonalisation) -/
restate arnoldi_span_krylov := PyamgV.C07.arnoldi_span_krylov
/-- without breakdown `span{v_0 … v_m} = K_{m+1}(MA, M r₀)` -/
restate gmres_householder_basis_spans_krylov := PyamgV.C07.gmres_hh_basis_span
/-- C07 for GMRES(Householder) as stated: the iterate lies in `x₀ + K_{m+1}(MA, M r₀)` and minimises the 2-norm of
the left-preconditioned residual over it -/
restate gmres_householder_optimal_krylov := PyamgV.C07.gmres_hh_optimal_krylov
/-- … hence `‖M(b − A x)‖₂` does not increase from one inner iteration to the next -/
restate gmres_householder_monotone := PyamgV.C07.gmres_hh_monotone

/-- Givens bookkeeping (`givensUpdate`, `backSub`) + orthonormal `v_l` + Arnoldi relation ⇒ optimal iterate; the
list-level statement shared by the MGS and the Householder models -/
restate givens_lists_optimal := PyamgV.C07.givL_optimal

/-! ### extension E11 — the instance the driver executes: the GMRES models on `Vector K n` with `vecOps` / `hopsVec`
(coordinate access, unit vectors, "zero the first `i` entries") are carried by `toFn` onto the module instance the
theorems above are about; the same four results for the `Vector` definitions (ordered field with an exact square
root in place of binary64) -/
/-- `toFn` commutes with the operations of `hopsVec`; `get`/`basis`/`tail` are coordinates with respect to `stdE` -/
restate vector_hops_is_module_hops := PyamgV.C07.hopsHom_vec
/-- any map commuting with the vector operations commutes with the FGMRES model (purely structural) -/
restate fgmres_model_hom := PyamgV.C07.fgmresHh_hom
restate gmres_householder_model_hom := PyamgV.C07.gmresHh_hom
restate gmres_mgs_model_hom := PyamgV.C07.gmresMgs_hom
restate gmres_restart_model_hom := PyamgV.C07.gmresRestart_hom
/-- GMRES(MGS), the `Vector` definition run by op `c07_gmres_mgs` -/
restate gmres_mgs_vec_optimal_krylov := PyamgV.C07.gmres_mgs_vec_optimal_krylov
/-- restarted GMRES(MGS), the `Vector` definition run by op `ext_gmres_restart` -/
restate gmres_restart_vec_optimal := PyamgV.C07.gmres_restart_vec_optimal
/-- FGMRES, the `Vector` definition run by op `ext_fgmres` -/
restate fgmres_vec_optimal := PyamgV.C07.fgmres_vec_optimal
/-- GMRES(Householder), the `Vector` definition run by op `ext_gmres_hh` -/
restate gmres_householder_vec_optimal_krylov := PyamgV.C07.gmres_hh_vec_optimal_krylov

/-! ### GMRES (both orthogonalisations) and FGMRES, algorithmic level
orthonormal Arnoldi basis + Arnoldi relation + unit Givens rotations zeroing the subdiagonal +
solved triangular system ⇒ `x₀ + Σ y_j z_j` minimises the (preconditioned) residual norm over
`x₀ + span{z_j}` (`z_j = v_j`, `B = MA` for GMRES; `z_j = M_j v_j`, `B = A` for FGMRES) -/
restate gmres_optimal_of_givens := PyamgV.Gmres.gmres_optimal_of_givens
restate gmres_optimal_of_qr := PyamgV.Gmres.gmres_optimal_of_qr
/-- one modified Gram–Schmidt pass keeps the Arnoldi invariant (orthonormality + relation), also at breakdown -/
restate arnoldi_mgs_step_invariant := PyamgV.GS.arnoldiStep_inv

/-! ### non-vacuity: a concrete 2 × 2 system satisfies every hypothesis of `cg_optimal`, and the
executable model does on it what the theorems say (two steps solve the system) -/
section example2
open PyamgV.C07 PyamgV.C07.Ex

example : IsSymm A₀ := by
  intro i j; fin_cases i <;> fin_cases j <;> rfl
example : IsSymm M₀ := by
  intro i j; fin_cases i <;> fin_cases j <;> rfl
example : IsPD A₀ := by
  intro v hv
  have hne : v 0 ≠ 0 ∨ v 1 ≠ 0 := by
    by_contra h
    push_neg at h
    exact hv (funext fun i => by fin_cases i <;> simp [h.1, h.2])
  have key : (dotForm Rat 2).a (linOf A₀ v) v = (v 0 + v 1) ^ 2 + v 0 ^ 2 + 2 * v 1 ^ 2 := by
    simp [dotForm_a, linOf, matOf, A₀, Matrix.mulVec, dotProduct, Fin.sum_univ_two]
    ring
  rw [key]
  rcases hne with h | h
  · have := pow_pos (lt_of_le_of_ne (abs_nonneg _) (Ne.symm (abs_ne_zero.mpr h))) 2
    have h2 : 0 < v 0 ^ 2 := by rwa [sq_abs] at this
    positivity
  · have := pow_pos (lt_of_le_of_ne (abs_nonneg _) (Ne.symm (abs_ne_zero.mpr h))) 2
    have h2 : 0 < v 1 ^ 2 := by rwa [sq_abs] at this
    positivity
/-- the executable model, evaluated by the kernel on this instance: no breakdown in the first two steps,
the second iterate is the exact solution `(3/5, -1/5)` (the sequence is the `cgVec` of the theorems) -/
example : (cgVec A₀ M₀ b₀ z₀ 0).rz ≠ 0 ∧ (cgVec A₀ M₀ b₀ z₀ 1).rz ≠ 0 ∧
    (cgVec A₀ M₀ b₀ z₀ 1).x ≠ (cgVec A₀ M₀ b₀ z₀ 2).x ∧
    (cgVec A₀ M₀ b₀ z₀ 2).x = #v[3/5, -1/5] ∧ vmv A₀ (#v[3/5, -1/5] : Vector Rat 2) = b₀ := cg_two_steps
end example2

/-! ### extension E37 — the complex case

#### the recurrence models on Gaussian rationals (`vecOps CRat.conj A M` on `Vector CRat n`, op `c07_iter … c`) -/
/-- the list `iterates step den getx k s` the driver prints: entry `i` is the `x` of state `i+1`, and no denominator was
zero before it -/
restate iterates_are_states := PyamgV.C07.CH.iterates_spec
/-- CG (`_cg.py`), complex: `A`, `M` Hermitian, `A` positive definite ⇒ entry `i` of the printed list lies in
`x₀ + K_{i+1}(MA, M r₀)` (complex span) and minimises the energy norm `re (eᴴ A e)` of the error over it -/
restate complex_cg_optimal := PyamgV.C07.CH.cg_crat_optimal
restate complex_cg_monotone := PyamgV.C07.CH.cg_crat_monotone
/-- `dᴴ A d` is real for Hermitian `A`: the quantity compared is the full energy, not a projection of it -/
restate complex_energy_is_real := PyamgV.C07.CH.energyC_im_zero
/-- CGNR, complex: entry `i` minimises `‖b − A x‖₂` over `x₀ + K_{i+1}(M AᴴA, M Aᴴ r₀)` -/
restate complex_cgnr_optimal := PyamgV.C07.CH.cgnr_crat_optimal
/-- CGNE, complex: entry `i` lies in `x₀ + Aᴴ K_{i+1}(M A Aᴴ, M r₀)` and minimises `‖x* − x‖₂` over it -/
restate complex_cgne_optimal := PyamgV.C07.CH.cgne_crat_optimal
/-- CR, complex, **any Hermitian preconditioner commuting with `A`** (identity, `c I + d A`, …): entry `i` minimises
`‖b − A x‖₂` over `x₀ + K_{i+1}(MA, M r₀)` -/
restate complex_cr_optimal := PyamgV.C07.CH.cr_crat_optimal
/-- steepest descent / minimal residual, complex: every step is the exact line search over `t ∈ ℚ(i)` -/
restate complex_sd_exact_line_search := PyamgV.C07.CH.sd_crat_step_optimal
restate complex_mr_exact_line_search := PyamgV.C07.CH.mr_crat_step_optimal
/-- the instances found for `CRat` in the proofs are the ones of `Model/CRat.lean` the driver computes with -/
restate complex_model_instances := PyamgV.C07.CH.crat_instances

/-! #### the same for any field with involution and real part (`ReMap K F`), stated for the states `iter step k init` -/
restate hermitian_cg_optimal := PyamgV.C07.CH.cg_hvec_optimal
restate hermitian_cgnr_optimal := PyamgV.C07.CH.cgnr_hvec_optimal
restate hermitian_cgne_optimal := PyamgV.C07.CH.cgne_hvec_optimal
restate hermitian_cr_optimal := PyamgV.C07.CH.cr_hvec_optimal
restate hermitian_cr_optimal_no_preconditioner := PyamgV.C07.CH.cr_hvec_optimal_noprec
/-- an `n × n` Hermitian positive definite system is solved by the CG model in at most `n` steps -/
restate hermitian_cg_solves_within_n_steps := PyamgV.C07.CH.cg_hvec_solves
/-- `toFn` carries `vecOps star A M` onto the module operations with the Hermitian form `Σ conj(u_i) v_i` -/
restate hermitian_vector_model_is_module_model := PyamgV.C07.CH.opsHomH_vec

/-! #### preconditioned CR in the real case (`M A = A M`; was search only): the definition `crVec` op `c07_iter cr r` runs -/
restate cr_commuting_preconditioner_optimal := PyamgV.C07.CH.cr_vec_optimal_commuting

/-! #### abstract Hermitian theory (`HForm K F V`) -/
/-- error `⟨·,·⟩`-orthogonal to `W` ⇒ minimal over `x₀ + W` -/
restate hermitian_projection_optimal := PyamgV.CHerm.HForm.proj_optimal
/-- residual orthogonal to `A W` ⇒ residual norm minimal over `x₀ + W` (no symmetry of `A`) -/
restate hermitian_petrov_optimal := PyamgV.CHerm.petrov_optimal
/-- `α = ⟨d, e⟩/⟨d, d⟩` minimises `‖e − t d‖` over the complex line -/
restate hermitian_line_search_optimal := PyamgV.CHerm.line_search_optimal
/-- the PCG invariant (residuals `M`-orthogonal, directions `A`-conjugate, `α`, `β` real) is inductive -/
restate hermitian_pcg_invariant := PyamgV.CHerm.CPCG.pInv_succ
restate hermitian_pcg_optimal_krylov := PyamgV.CHerm.CPCG.cpcg_optimal_krylov
restate hermitian_pcg_directions_span_krylov := PyamgV.CHerm.CPCG.dirs_eq_kry
restate hermitian_pcg_solves := PyamgV.CHerm.CPCG.cpcg_solves
/-- the recurrence of `_cr.py` with any `M` is PCG in the inner product `⟨A·,·⟩` … -/
restate cr_is_pcg_in_A_inner_product := PyamgV.CHerm.CKSim.cr_sim
/-- … whose hypotheses hold when `M` is Hermitian and commutes with `A` -/
restate cr_hypotheses_of_commuting := PyamgV.CHerm.CKSim.cr_hyp
/-- the models with the operations of a module with a Hermitian form are the abstract sequences -/
restate hermitian_cg_model_is_pcg := PyamgV.C07.CH.cg_refines
restate hermitian_cr_model_is_crSeq := PyamgV.C07.CH.cr_refines

/-! #### GMRES / FGMRES, Hermitian setting, algorithmic level (complex Givens: `Qᴴ Q = 1`) -/
/-- orthonormal Arnoldi basis + Arnoldi relation + normal equations `Hᴴ(β e₀ − H y) = 0` ⇒ `x₀ + Σ y_j z_j` minimises the
(preconditioned) residual norm over `x₀ + span_K{z_j}` -/
restate complex_gmres_optimal_of_normal_equations := PyamgV.CHerm.CGmres.gmres_optimal
/-- … the same from a unitary triangularisation with zero last row and a solved triangular system -/
restate complex_gmres_optimal_of_qr := PyamgV.CHerm.CGmres.gmres_optimal_of_qr
/-- the residual norm is the small least-squares functional `‖β e₀ − H y‖²` -/
restate complex_gmres_residual_in_coordinates := PyamgV.CHerm.CGmres.resid_norm_coords
/-- … hence a minimiser of the small problem gives the residual-optimal iterate -/
restate complex_gmres_optimal_of_least_squares := PyamgV.CHerm.CGmres.gmres_optimal_of_lsq

/-! #### the oracle of the failing-input search, complex case: an accepted certificate (`certVH`, conjugating `Vector`
operations, run by op `ext_c07c_argmin` after the Hermitian test `isHermV` of the Gram matrix) is the minimiser of
`re ((t − ·)ᴴ G (t − ·))` over `x0 + span_K{v_i}` for Hermitian positive semidefinite `G` -/
restate complex_argmin_certificate_sound := PyamgV.C07.CH.certVH_crat_sound
restate hermitian_argmin_certificate_sound := PyamgV.C07.CH.certVH_sound
/-- Gram matrices `Bᴴ B` (kinds gmres, res, cgnr, cgne of the oracle) are positive semidefinite -/
restate gram_matrix_psd := PyamgV.C07.CH.gram_psd

/-! ### non-vacuity, complex: `A₁ = [[2, i], [−i, 3]]`, `M₁ = diag(1, 1/2)` satisfy the hypotheses of
`complex_cg_optimal`, and the executable model over the Gaussian rationals does on it what the theorems say -/
section example2c
open PyamgV.C07 PyamgV.C07.CH PyamgV.C07.ExC

example : IsHerm A₁ := by
  intro i j; fin_cases i <;> fin_cases j <;> decide +kernel
example : IsHerm M₁ := by
  intro i j; fin_cases i <;> fin_cases j <;> decide +kernel
example : IsHPD cratRe A₁ := by
  intro v hv
  have hne : v 0 ≠ 0 ∨ v 1 ≠ 0 := by
    by_contra h
    push_neg at h
    exact hv (funext fun i => by fin_cases i <;> simp [h.1, h.2])
  have key : cratRe.re ((dotH cratRe 2).h (linOf A₁ v) v) =
      (v 0).re ^ 2 + ((v 0).re - (v 1).im) ^ 2 + 2 * (v 1).im ^ 2 +
      ((v 0).im ^ 2 + ((v 0).im + (v 1).re) ^ 2 + 2 * (v 1).re ^ 2) := by
    simp [dotH_h, linOf, matOf, A₁, Matrix.mulVec, dotProduct, Fin.sum_univ_two]
    ring
  rw [key]
  have hz : ∀ z : CRat, z ≠ 0 → 0 < z.re ^ 2 + z.im ^ 2 := by
    intro z hz
    have := CRat.normSq_pos_of_ne hz
    unfold CRat.normSq at this
    nlinarith
  rcases hne with h | h
  · have := hz _ h
    nlinarith [sq_nonneg ((v 0).re - (v 1).im), sq_nonneg ((v 0).im + (v 1).re), sq_nonneg (v 1).im, sq_nonneg (v 1).re]
  · have := hz _ h
    nlinarith [sq_nonneg ((v 0).re - (v 1).im), sq_nonneg ((v 0).im + (v 1).re), sq_nonneg (v 0).im, sq_nonneg (v 0).re]
/-- the list op `c07_iter cg c` returns on this instance: two iterates, no breakdown, the second is the exact
solution `(3/5, i/5)` -/
example : cgOut.length = 2 ∧ cgOut[0]? ≠ cgOut[1]? ∧ cgOut[1]? = some s₁ ∧ vmv A₁ s₁ = b₁ := cg_two_steps
/-- `M₁` does not commute with `A₁`, and CR with it indeed misses the solution after two steps: the hypothesis
`M A = A M` of `complex_cr_optimal` cannot be dropped -/
example : crOut.length = 2 ∧ crOut[1]? ≠ some s₁ := cr_two_steps_noncommuting
end example2c


/-! ### extension E43 — the complex GMRES family as executable models with end-to-end theorems

`Model/ExtCGGmres.lean` holds the models of one cycle of `gmres_mgs`, `gmres_householder`, `fgmres` **on complex data**
(`cgmresMgs`, `cgmresHh`, `cfgmresHh`: conjugated inner products, `zlartg` rotations `[[c, s], [-conj s, c]]` with real
`c`, `_mysign` of a complex number, `-2 conj(w[inner])` in the Householder direction), written over a scalar type with a
conjugation; op `ext_cg_cycle` runs them on pairs of binary64 numbers (`CP Float`) and the check compares the iterates
with the callback log of the public functions on complex systems.  The theorems are about the same definitions over a
field with an involution and an exact square root of its non-negative reals, in particular over the pairs `CP F`,
`F` an ordered field with `sqrtF a · sqrtF a = a` (`a ≥ 0`).  Hypothesis `g[m+1] ≠ 0` (the recorded estimate is
non-zero): it certifies that no breakdown occurred so far, nothing else is assumed. -/

/-- what `zlartg` returns for `g ≠ 0`: real `c`, `c² + |s|² = 1`, `−conj(s) f + c g = 0` -/
restate complex_lartg_contract := PyamgV.ExtCG.clartg_spec
/-- one live rotation keeps the rotated-basis invariant of the Givens bookkeeping (any orthogonalisation) -/
restate complex_givens_invariant_step := PyamgV.ExtCG.rb_step
/-- the invariant ⇒ the iterate `x₀ + Σ y_j z_j` (`y` from the back substitution) minimises the residual norm over
`x₀ + span{z_j}`, in the Hermitian setting (through `CHerm.petrov_optimal`) -/
restate complex_givens_optimal := PyamgV.ExtCG.rb_optimal
/-- the complex Householder vector: unit (or zero) and its reflection maps `u` to `−sgn(u_i) ‖u‖ e_i` -/
restate complex_householder_vector := PyamgV.ExtCG.chouseh
/-- one complex Householder--Arnoldi step keeps the invariant (orthonormal `v_l = P_0 ⋯ P_k e_l`, Arnoldi relation) -/
restate complex_householder_arnoldi_step := PyamgV.ExtCG.chhInv_step
/-- complex `gmres_mgs`, module level: the callback iterate minimises `‖M (b − A x)‖` over `x₀ + K_{m+1}(MA, M r₀)` -/
restate complex_gmres_mgs_optimal_krylov := PyamgV.ExtCG.cgmres_mgs_optimal_krylov
/-- complex `gmres_householder`, module level -/
restate complex_gmres_householder_optimal_krylov := PyamgV.ExtCG.cgmres_hh_optimal_krylov
/-- complex `fgmres`, module level: minimal `‖b − A x‖` over `x₀ + span{z_j}`, `z_j = pre j (v_j)`, any maps `pre j` -/
restate complex_fgmres_optimal := PyamgV.ExtCG.cfgmres_optimal
/-- … for the `Vector K n` instance the driver executes -/
restate complex_gmres_mgs_vec_optimal_krylov := PyamgV.ExtCG.cgmres_mgs_vec_optimal_krylov
restate complex_gmres_householder_vec_optimal_krylov := PyamgV.ExtCG.cgmres_hh_vec_optimal_krylov
restate complex_fgmres_vec_optimal := PyamgV.ExtCG.cfgmres_vec_optimal
/-- restarted complex GMRES(MGS) (op `ext_cg_cycle mgsr`): entry `j·r + m` of the log is optimal within cycle `j` -/
restate complex_gmres_restart_vec_optimal := PyamgV.ExtCG.cgmres_restart_vec_optimal
/-- … and over pairs `(re, im)` of an ordered field with an exact square root (the arithmetic `ext_cg_cycle` performs in
binary64) -/
restate complex_gmres_mgs_pairs_optimal_krylov := PyamgV.ExtCG.cgmres_mgs_cp_optimal_krylov
restate complex_gmres_householder_pairs_optimal_krylov := PyamgV.ExtCG.cgmres_hh_cp_optimal_krylov
restate complex_fgmres_pairs_optimal := PyamgV.ExtCG.cfgmres_cp_optimal
/-- the pairs with the model's operations are a field with involution `CP.conj`; the instances are the model's -/
restate complex_pairs_instances := PyamgV.ExtCG.CP.cp_instances

section exampleE43
open PyamgV.ExtCG PyamgV.C07
/-- the hypotheses of the pair theorems are satisfiable: over `ℝ` with `Real.sqrt`, any `4 × 4` complex system -/
example (A M : Vector (Vector (CP ℝ) 4) 4) (b x0 : Vector (CP ℝ) 4)
    (hg : PyamgV.C07.F (cgVec A M (CP.sqrtRe Real.sqrt) b x0 2).g 2 ≠ 0) :
    ∀ y : Vector (CP ℝ) 4,
      toFn y - toFn x0 ∈ ckry (linOf M ∘ₗ linOf A) (linOf M (toFn b - linOf A (toFn x0))) 2 →
      (vdot CP.conj (presV A M b (xkV A M (CP.sqrtRe Real.sqrt) b x0 1))
          (presV A M b (xkV A M (CP.sqrtRe Real.sqrt) b x0 1))).re ≤
        (vdot CP.conj (presV A M b y) (presV A M b y)).re :=
  (cgmres_mgs_cp_optimal_krylov Real.sqrt (fun _ h => Real.mul_self_sqrt h) A M b x0 1 (by decide) hg).2
/-- the iterate of the theorems is the last entry of what the model (with the operations of `Model/ExtCGComplex.lean`)
returns -/
example (A M : Vector (Vector (CP ℝ) 4) 4) (b x0 : Vector (CP ℝ) 4) (m : Nat) :
    xkV A M (CP.sqrtRe Real.sqrt) b x0 m =
      (cgmresMgs (vecOps CP.conj A M) CP.conj (CP.sqrtRe Real.sqrt) nzK 4 b x0 (m + 1)).getLast?.getD x0 := rfl
example (A M : Vector (Vector (CP ℝ) 4) 4) (b x0 : Vector (CP ℝ) 4) (m : Nat) :
    xkH A M (CP.sqrtRe Real.sqrt) b x0 m =
      (cgmresHh (hopsVec CP.conj A M) CP.conj (CP.sqrtRe Real.sqrt) (sgnCP Real.sqrt) nzK 4 b x0 (m + 1)).getLast?.getD x0 :=
  rfl
/-- a concrete complex run evaluated by the kernel (`A = [[3i, 1], [4, 2i]]`, `b = (5, 0)`; all square roots rational):
all three models return `x_1 = (−3i/5, 0)`, the minimiser of `‖b − A x‖` over `span{b}` -/
example : cgmresMgs (vecOps CP.conj Ex.cA Ex.cI) CP.conj Ex.sqQ Ex.nzQ 2 Ex.cb #v[⟨0, 0⟩, ⟨0, 0⟩] 1 =
      [#v[⟨0, -3/5⟩, ⟨0, 0⟩]] ∧
    cgmresHh (hopsVec CP.conj Ex.cA Ex.cI) CP.conj Ex.sqQ Ex.sgQ Ex.nzQ 2 Ex.cb #v[⟨0, 0⟩, ⟨0, 0⟩] 1 =
      [#v[⟨0, -3/5⟩, ⟨0, 0⟩]] ∧
    cfgmresHh (hopsVec CP.conj Ex.cA Ex.cI) CP.conj Ex.sqQ Ex.sgQ Ex.nzQ 2 (fun _ v => v) Ex.cb #v[⟨0, 0⟩, ⟨0, 0⟩] 1 =
      [#v[⟨0, -3/5⟩, ⟨0, 0⟩]] := Ex.cycle_iterates
end exampleE43

/-- the square-root hypotheses of the GMRES theorems are satisfiable (over `ℝ`) -/
example : ∃ sqrt : ℝ → ℝ, (∀ a, 0 ≤ a → sqrt a * sqrt a = a) ∧ (∀ a, 0 ≤ sqrt a) :=
  ⟨Real.sqrt, fun _ h => Real.mul_self_sqrt h, Real.sqrt_nonneg⟩

/-- the coordinate-family hypothesis of the Householder theorems is satisfied by the unit vectors of `Kⁿ` with the
Euclidean form, which is definite (the instance the `Vector` theorems use) -/
example : PyamgV.C07.OrthoFam (PyamgV.C07.dotForm Rat 4) (PyamgV.C07.stdE 4) 4 ∧
    (∀ v : Fin 4 → Rat, (PyamgV.C07.dotForm Rat 4).a v v = 0 → v = 0) :=
  ⟨PyamgV.C07.stdE_ortho, PyamgV.C07.dotForm_def⟩

end PyamgV.Props.C07
