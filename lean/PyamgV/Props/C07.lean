import PyamgV.Props.Restate
import PyamgV.Proofs.PCG
import PyamgV.Proofs.CGKrylov
import PyamgV.Proofs.KrylovSim
import PyamgV.Proofs.Petrov
import PyamgV.Proofs.GmresGivens
import PyamgV.Proofs.ArnoldiStep

/-! # C07 — Krylov iterates are the optimal elements of the Krylov space -/
namespace PyamgV.Props.C07

restate pcg_optimal_krylov := PyamgV.PCG.pcg_optimal_krylov
restate pcg_monotone := PyamgV.PCG.pcg_monotone
restate cg_solves := PyamgV.cg_solves

end PyamgV.Props.C07
