import PyamgV.Props.Restate
import PyamgV.Proofs.ExtPy2Coarse
import PyamgV.Proofs.ExtPy2CoarseBody
import PyamgV.Model.C16Coarse
import PyamgV.Proofs.C16Hist
import PyamgV.Proofs.C16LinAlg
import PyamgV.Proofs.C16Bridge
import PyamgV.Proofs.ExtC16Complex
import PyamgV.Proofs.C16Spec
import PyamgV.Proofs.C16Relax
import PyamgV.Proofs.Kaczmarz
import PyamgV.Proofs.SorAdjoint
import PyamgV.Proofs.Cache
import PyamgV.Proofs.ExtC16Relax
import PyamgV.Proofs.ExtC16RelaxEx
import PyamgV.Proofs.ExtC16YSchwarz
import PyamgV.Proofs.ExtC16YBlock
import PyamgV.Proofs.ExtC16YCheb
import PyamgV.Proofs.ExtC16YComplex
import PyamgV.Proofs.ExtC16YEx

/-! # C16 — coarse-grid solvers return the (least-squares) solution in the caller's shape

Model: `PyamgV.C16.coarseGridSolver` (Model/C16Coarse.lean) = `coarse_grid_solver(solver)` of
pyamg/multilevel.py followed by a history of calls: the dispatch chain (`dispatch`), the lazily cached
factorisation (`factor` / `applyFact`, state `St`), the `splu` zero-row/column compression (`nzCols`,
`gather`, `scatter`, `submat`), the `A.nnz == 0` shortcut and the final reshape (`call`), the
relaxation branch from the zero guess (`relaxSolve`).  The driver runs exactly these definitions
(`c16_run`) against the real objects on every check.  LAPACK / SuperLU enter through their contracts,
made executable by an exact pseudo-inverse `pinvD` whose output is never trusted: the theorems take
the Boolean certificates `isPinv` / `isInv` / `isHPD` (evaluated by the driver per instance) as
hypotheses.  `toMat`, `toVec` read the model's arrays as Mathlib matrices / vectors.

Clause by clause (T = theorem about the executed model, H = hypothesis checked per instance, S = search only):
* direct solvers return the solution in the shape of `b`  — T `pinv/lu/cholesky_call_solves`, `splu_call_spec`,
  `call_shape`; H the inverse certificate `isInv` (and `isHPD` for Cholesky); S rounding of LAPACK/SuperLU
* pinv = minimum-norm least squares on singular matrices — T `pinv_call_min_norm` (real), `pinv_call_min_norm_complex`
  (complex runs, `conj = CRat.conj`, minimisation over all of `ℂⁿ`); H `isPinv`
* splu tolerates zero rows and columns                    — T `splu_call_spec`, `splu_call_solves_all`
* repeated calls reuse the factorisation and stay correct — T `run_same_matrix`, `run_factor_once`
* a matrix without nonzeros yields a zero correction      — T `call_empty`
* relaxation solvers start from zero, energy norm         — T `relax_gs_energy`, `relax_sor_energy` (gauss_seidel, sor);
  extension E29 (section 3b, model `C16R.relaxSolveR` on recorded inputs): T `relaxR_*_sweeps` (every other name
  starts from zeros and is `iterations` sweeps of its kernel model), T `relax_jacobi_energy`,
  `relax_richardson_energy` (H the damping bound), T `relax_gs_ne_error`, `relax_gs_nr_residual_csr`,
  `relax_jacobi_ne_error` (2-norm of error / residual; NOT the energy norm: known finding);
  extension E51 (section 3c): T `relaxR_schwarz_sweeps`, `relax_schwarz_energy` (H exact recorded inverse blocks),
  T `relax_block_gauss_seidel_energy`, `relax_block_jacobi_energy` (block storage; H exact recorded block inverses, block
  damping bound), T `relax_chebyshev_energy` (H `|1 − λ p(λ)| ≤ 1` on the spectrum), T `relax_gs_energy_complex`,
  `relax_sor_energy_complex`, `relax_jacobi_energy_complex`, `relax_schwarz_energy_complex` (complex Hermitian matrices, model
  run on Gaussian rationals);
  S complex runs of the other relaxation names -/
namespace PyamgV.Props.C16
open PyamgV PyamgV.C16

/-! ## 1. the solver object: shape, empty matrix, histories -/

/-- every array a call returns has the shape and size of `b` — all kinds, options, callables, states -/
restate call_shape := PyamgV.C16.call_shape
/-- `A.nnz == 0`: zero correction in the shape of `b`, no factorisation, state untouched — all kinds -/
restate call_empty := PyamgV.C16.call_empty
/-- under the cache invariant a call answers like a fresh object and keeps the invariant -/
restate call_fresh := PyamgV.C16.call_fresh
/-- **repeated calls**: in a history that always passes the matrix `A`, every answer is the answer of a
fresh solver object for that right-hand side (nothing of an earlier `b` survives in the cache) -/
restate run_same_matrix := PyamgV.C16.run_same_matrix
/-- **reuse**: a direct solver whose factorisation succeeds factorises at most once per object -/
restate run_factor_once := PyamgV.C16.run_factor_once
/-- the abstract cache automaton of C15 (factor on first use), for reference -/
restate cache_run_same_matrix := PyamgV.Cache.run_same_matrix

/-! ## 2. the direct solvers (fresh object; section 1 lifts each statement to every call of a history) -/

/-- pseudo-inverse: least-squares solution of minimum 2-norm, singular matrices included -/
restate pinv_call_min_norm := PyamgV.C16.pinv_call_min_norm
/-- pseudo-inverse on a nonsingular matrix: the unique solution -/
restate pinv_call_solves := PyamgV.C16.pinv_call_solves
/-- dense LU: the unique solution when the certified inverse exists -/
restate lu_call_solves := PyamgV.C16.lu_call_solves
/-- Cholesky: the same on Hermitian positive definite matrices -/
restate cholesky_call_solves := PyamgV.C16.cholesky_call_solves
/-- sparse LU with the compression: equations of the kept rows hold, zero outside, zero rows give zero -/
restate splu_call_spec := PyamgV.C16.splu_call_spec
/-- sparse LU: zero rows *and* columns (and `b = 0` there) — the whole system is solved -/
restate splu_call_solves_all := PyamgV.C16.splu_call_solves_all

/-! ### the linear algebra behind them (any finite index type, ordered field) -/

restate penrose_least_squares := PyamgV.C16LA.penrose_least_squares
restate penrose_min_norm := PyamgV.C16LA.penrose_min_norm
restate penrose_of_inverse := PyamgV.C16LA.penrose_of_inverse
restate inverse_solution_unique := PyamgV.C16LA.inverse_solution_unique
/-- `x = Map (Mapᵀ A Map)⁻¹ Mapᵀ b`, the three lines of the `splu` branch, for any selection `e` -/
restate compress_solves := PyamgV.C16LA.compress_solves
restate compress_solves_all := PyamgV.C16LA.compress_solves_all

/-! ### the certificates the driver evaluates mean what they say -/

restate isPinv_sound := PyamgV.C16.isPinv_sound
restate isInv_sound := PyamgV.C16.isInv_sound
restate matVec_is_mulVec := PyamgV.C16.toVec_matVec
restate scatter_is_map := PyamgV.C16.toVec_scatter
restate gather_is_mapT := PyamgV.C16.toVec_gather
restate submat_is_submatrix := PyamgV.C16.toMat_submat

/-! ### complex matrices (extension E14, Proofs/ExtC16Complex.lean)

`ReForm K R`: a field `K` with conjugation `star` and a real part `re : K →+ R` into an ordered field,
`N.nrm v = re (vᴴ v)`; instances `ReForm.rclike 𝕜` (`ℂ`, `ℝ`; `nrm v = Σ ‖v i‖²`) and `ReForm.crat` (the
Gaussian rationals of the models).  `PenroseH A X`: the Penrose equations with `ᴴ`, rectangular `A`.
`toMatC`, `toVecC`: the `CRat` arrays of the driver read as matrices / vectors over `ℂ`. -/

/-- complex least squares: `‖A X b − b‖ ≤ ‖A y − b‖` for every `y` -/
restate penroseH_least_squares := PyamgV.C16X.penroseH_least_squares
/-- complex minimum norm: among the minimisers `X b` is the shortest ... -/
restate penroseH_min_norm := PyamgV.C16X.penroseH_min_norm
/-- ... and the only one of that length -/
restate penroseH_min_norm_unique := PyamgV.C16X.penroseH_min_norm_unique
restate penroseH_of_inverse := PyamgV.C16X.penroseH_of_inverse
/-- the four equations determine `X` (so `pinvD` passing `isPinv` *is* the Moore-Penrose inverse) -/
restate penroseH_unique := PyamgV.C16X.penroseH_unique
restate penroseH_map := PyamgV.C16X.PenroseH.map
restate rclike_nrm_eq_sum := PyamgV.C16X.rclike_nrm_eq_sum

/-- `isPinv star A X n = true` (any star field) gives `PenroseH` of the matrices read off the arrays -/
restate isPinv_sound_star := PyamgV.C16X.isPinv_sound_star
/-- the certificate of the complex runs, over the Gaussian rationals ... -/
restate isPinv_sound_crat := PyamgV.C16X.isPinv_sound_crat
/-- ... and over `ℂ` -/
restate isPinv_sound_complex := PyamgV.C16X.isPinv_sound_complex
restate isInv_sound_crat := PyamgV.C16X.isInv_sound_crat
restate isInv_sound_complex := PyamgV.C16X.isInv_sound_complex
/-- `isHPD star isPos M n = true` with `isPos z → 0 < re z`: `M = Mᴴ` and `Re (xᴴ M x) > 0` for all `x ≠ 0` -/
restate isHPD_sound_map := PyamgV.C16X.isHPD_sound_map
restate isHPD_sound_crat := PyamgV.C16X.isHPD_sound_crat
/-- the driver's `isHPD CRat.conj posC`: Hermitian and positive definite over `ℂ` -/
restate isHPD_sound_complex := PyamgV.C16X.isHPD_sound_complex
restate isHPD_posDef_complex := PyamgV.C16X.isHPD_posDef_complex
restate matVec_is_mulVec_complex := PyamgV.C16X.toVecC_matVec

/-- pseudo-inverse clause for the model run with any conjugation `star` -/
restate pinv_call_min_norm_star := PyamgV.C16X.pinv_call_min_norm_star
/-- **pseudo-inverse clause, complex**: minimum-norm least-squares solution among all complex vectors -/
restate pinv_call_min_norm_complex := PyamgV.C16X.pinv_call_min_norm_complex
/-- `pinv` (nonsingular) / `lu` / `cholesky` of the model run with any `conj`: the unique solution -/
restate direct_call_solves_conj := PyamgV.C16X.direct_call_solves_conj
/-- ... unique among all complex vectors -/
restate direct_call_solves_complex := PyamgV.C16X.direct_call_solves_complex
restate splu_call_spec_conj := PyamgV.C16X.splu_call_spec_conj
restate splu_call_solves_all_conj := PyamgV.C16X.splu_call_solves_all_conj

/-! ## 3. relaxation-based coarse solvers -/

/-- `('gauss_seidel', {iterations, sweep})` in the model = one kernel sweep over `sweepRows` from zeros -/
restate relax_gs_is_sweep_from_zero := PyamgV.C16.relaxSolve_gs
/-- **energy clause** for it: `‖x* − x‖_A ≤ ‖x*‖_A` on symmetric positive semidefinite matrices -/
restate relax_gs_energy := PyamgV.C16.relax_gs_energy
/-- the executable `sor_gauss_seidel` kernel model read as a function is the SOR sweep of the theorems -/
restate sor_kernel_is_sweep := PyamgV.C16.sorGaussSeidel_refines
/-- **energy clause** for `('sor', {omega, iterations, sweep})`, `0 ≤ ω ≤ 2` (default `1/2`) -/
restate relax_sor_energy := PyamgV.C16.relax_sor_energy
restate relax_gs_energy_hyps_satisfiable := PyamgV.C16.relax_gs_energy_hyps_satisfiable
/-- SOR sweeps (`'sor'`, `0 ≤ ω ≤ 2`) and Gauss-Seidel sweeps in any order are non-expansive (C02) -/
restate sor_sweep_nonexpansive := PyamgV.sorSweep_nonexp
restate gs_sweep_nonexpansive := PyamgV.gsSweep_nonexp
/-- `gauss_seidel_ne` / `gauss_seidel_nr` steps are damped orthogonal projections: non-expansive in the
2-norm of the error / residual — NOT in the energy norm (known finding `ne-nr-relaxation-energy-norm`) -/
restate kaczmarz_step_nonexpansive := PyamgV.proj_step_nonexp
restate kaczmarz_ne_row_error := PyamgV.ne_row_error


/-! ## 3b. the other relaxation names (extension E29, Proofs/ExtC16Relax.lean)

Model `C16R.relaxSolveR` / `C16R.relaxCallR` (Model/ExtC16Relax.lean; driver op `ext_c16_relax`): jacobi with the
spectral-radius estimate, block_jacobi, block_gauss_seidel, richardson, chebyshev, jacobi_ne, gauss_seidel_ne,
gauss_seidel_nr.  Recorded inputs `C16R.Rec`: the estimate `rho` returned to the setup, the inverted diagonal blocks,
the Chebyshev coefficients, the block storage.  `C16R.x0 b` = `np.zeros_like(b)`. -/

/-- on gauss_seidel / sor the extended model is the C16 model ... -/
restate relaxR_agrees_gs_sor := PyamgV.C16R.relaxSolveR_gs_sor
/-- ... also on jacobi with `withrho=False` ... -/
restate relaxR_agrees_jacobi_norho := PyamgV.C16R.relaxSolveR_jacobi_norho
/-- ... and a call of it is `C16.call` of the solver object (so section 1 applies) -/
restate relaxR_call_is_call := PyamgV.C16R.relaxCallR_eq_call
/-- whatever a call returns has the shape and size of `b` -/
restate relaxR_call_shape := PyamgV.C16R.relaxCallR_shape
/-- `A.nnz == 0`: zero correction in the shape of `b` -/
restate relaxR_call_empty := PyamgV.C16R.relaxCallR_empty

/-- **starts from zero, `iterations` sweeps of the kernel model** — jacobi (`ω = omega/rho` with the recorded estimate,
or `omega`), also block_jacobi on point storage -/
restate relaxR_jacobi_sweeps := PyamgV.C16R.relaxSolveR_jacobi
/-- — block_jacobi on block storage (recorded block inverses) -/
restate relaxR_block_jacobi_sweeps := PyamgV.C16R.relaxSolveR_block_jacobi
/-- — block_gauss_seidel on block storage, every sweep direction -/
restate relaxR_block_gauss_seidel_sweeps := PyamgV.C16R.relaxSolveR_block_gauss_seidel
/-- — block_gauss_seidel on point storage is the gauss_seidel setup (`relax_gs_energy` applies) -/
restate relaxR_block_gauss_seidel_point := PyamgV.C16R.relaxSolveR_block_gauss_seidel_point
/-- — richardson: `relaxation.polynomial` with the coefficient `omega/rho` -/
restate relaxR_richardson_sweeps := PyamgV.C16R.relaxSolveR_richardson
/-- — chebyshev: `relaxation.polynomial` with `-coefficients[:-1]` -/
restate relaxR_chebyshev_sweeps := PyamgV.C16R.relaxSolveR_chebyshev
/-- — jacobi_ne (`ω = omega/rho²` or `omega`) -/
restate relaxR_jacobi_ne_sweeps := PyamgV.C16R.relaxSolveR_jacobi_ne
/-- — gauss_seidel_ne -/
restate relaxR_gauss_seidel_ne_sweeps := PyamgV.C16R.relaxSolveR_gauss_seidel_ne
/-- — gauss_seidel_nr (on the CSC arrays `cscOf A`, residual computed once) -/
restate relaxR_gauss_seidel_nr_sweeps := PyamgV.C16R.relaxSolveR_gauss_seidel_nr

/-- `relaxation.polynomial`, one iteration, is `x ← x + p(A)(b − A x)` (Horner form `polyOp`) -/
restate polynomial_step_is_horner := PyamgV.C16R.polyStep_refines
/-- **energy clause, jacobi / block_jacobi on point storage**, under the damping bound `ω·λ_max(D⁻¹A) ≤ 2` -/
restate relax_jacobi_energy := PyamgV.C16R.relax_jacobi_energy
/-- **energy clause, richardson**, under `ω·λ_max(A) ≤ 2` -/
restate relax_richardson_energy := PyamgV.C16R.relax_richardson_energy
/-- **2-norm clause, gauss_seidel_ne**: `‖x* − x‖₂ ≤ ‖x*‖₂`, any square consistent system, `0 ≤ ω ≤ 2` -/
restate relax_gs_ne_error := PyamgV.C16R.relax_gs_ne_error
/-- **2-norm clause, gauss_seidel_nr**: `‖b − A x‖₂ ≤ ‖b‖₂` for the CSC arrays ... -/
restate relax_gs_nr_residual := PyamgV.C16R.relax_gs_nr_residual
/-- ... and in terms of the CSR matrix itself -/
restate relax_gs_nr_residual_csr := PyamgV.C16R.relax_gs_nr_residual_csr
/-- **2-norm clause, jacobi_ne**, under the damping bound `ω·λ_max(Aᵀ D⁻¹ A) ≤ 2` -/
restate relax_jacobi_ne_error := PyamgV.C16R.relax_jacobi_ne_error
/-- the model's `A.tocsc()`: columns, canonical form, same operator -/
restate csc_columns := PyamgV.C16R.rowOf_cscOf
restate csc_canonical := PyamgV.C16R.rowsOK_cscOf
restate csc_same_operator := PyamgV.C16R.cscOp_cscOf
/-- the kernels as functions: `gauss_seidel_ne` row step, `gauss_seidel_nr` column step, `jacobi_ne` sweep -/
restate ne_row_step_refines := PyamgV.C16R.neStep_refines
restate nr_column_step_refines := PyamgV.C16R.nrStep_refines
restate jacobi_ne_kernel_refines := PyamgV.C16R.jacobiNE_refines
/-- the Python drivers of the model, from any start vector -/
restate gauss_seidel_ne_error_nonexpansive := PyamgV.C16R.pyGaussSeidelNE_error
restate gauss_seidel_nr_residual_nonexpansive := PyamgV.C16R.pyGaussSeidelNR_residual
restate jacobi_ne_error_nonexpansive := PyamgV.C16R.pyJacobiNE_error
/-- the hypotheses of the energy / 2-norm clauses hold on `[[2,-1],[-1,2]]`, `b = (1,1)` -/
restate relaxR_hyps_satisfiable := PyamgV.C16R.relaxR_hyps_satisfiable

/-! ## 3c. schwarz, block storage, chebyshev, complex matrices (extension E51, Proofs/ExtC16Y*.lean)

`schwarz` is a branch of `C16R.relaxSolveR` (driver op `c16y_relax`): the kernel model `K.pySchwarz` of C09
(`overlapping_schwarz_csr` + the Python driver) on the recorded tuple of `relaxation.schwarz_parameters` (`Rec.sj sp tx tp`).
`C16Y.toB B bs` = the recorded block storage as a `K.Bsr`, `C02X.bsrOp` its operator, `ExtC09.RightInv / LeftInv /
SubRightInv` = the recorded inverse blocks are exact. -/

/-- **starts from zero, `iterations` passes of the kernel model** — schwarz (forward / backward / symmetric) -/
restate relaxR_schwarz_sweeps := PyamgV.C16Y.relaxSolveR_schwarz
/-- options schwarz does not take raise `TypeError`; records the kernel cannot run on are refused -/
restate relaxR_schwarz_rejects := PyamgV.C16Y.relaxSolveR_schwarz_rejects
/-- `schwarzRecOK`: every index of every subdomain is a row of the matrix -/
restate schwarz_record_indices := PyamgV.C16Y.schwarzRecOK_idx
/-- one subdomain step with an exact inverse block is an exact subspace correction: energy does not increase -/
restate schwarz_step_energy := PyamgV.C16Y.schwarzStep_energy
/-- the kernel over any list of subdomains / the Python driver, any sweep, any number of iterations -/
restate schwarz_sweep_energy := PyamgV.C16Y.schwarzSweep_energy
restate schwarz_driver_energy := PyamgV.C16Y.pySchwarz_energy
/-- **energy clause, schwarz**: exact recorded inverse blocks, symmetric positive semidefinite matrix -/
restate relax_schwarz_energy := PyamgV.C16Y.relax_schwarz_energy

/-- the block kernels of the C16 relaxation model are the block kernel models of C09 (all arguments) -/
restate block_gauss_seidel_models_agree := PyamgV.C16Y.blockGaussSeidel_eq
restate block_jacobi_models_agree := PyamgV.C16Y.blockJacobi_eq
/-- **energy clause, block_gauss_seidel on block storage** (`bs ≥ 2`), exact recorded block inverses -/
restate relax_block_gauss_seidel_energy := PyamgV.C16Y.relax_block_gauss_seidel_energy
/-- **energy clause, block_jacobi on block storage**, under the block damping bound -/
restate relax_block_jacobi_energy := PyamgV.C16Y.relax_block_jacobi_energy
/-- the same two in the energy norm of the CSR matrix of the call (recorded block storage = that matrix) -/
restate relax_block_gauss_seidel_energy_csr := PyamgV.C16Y.relax_block_gauss_seidel_energy_csr
restate relax_block_jacobi_energy_csr := PyamgV.C16Y.relax_block_jacobi_energy_csr
/-- `A.tobsr(blocksize=(bs,bs))` (model `K.Csr.toBsr` = SciPy `csr_tobsr`) has the operator of `A` ... -/
restate tobsr_same_operator := PyamgV.C16Y.bsrOp_toBsr
/-- ... so with the recorded block storage `= A.tobsr()` (compared exactly per instance) the clauses hold in `‖·‖_A` -/
restate relax_block_gauss_seidel_energy_tobsr := PyamgV.C16Y.relax_block_gauss_seidel_energy_tobsr
restate relax_block_jacobi_energy_tobsr := PyamgV.C16Y.relax_block_jacobi_energy_tobsr

/-- `polynomial` under `|1 − λ p(λ)| ≤ 1` on the spectrum, eigenvectors spanning modulo the radical of the form -/
restate polynomial_nonexp_of_spectrum_rad := PyamgV.C16Y.polynomial_nonexp_of_spectrum_rad
/-- one step of the model's `relaxation.polynomial` is the function-level `polyFn` of the C02 theorems -/
restate polynomial_step_is_polyFn := PyamgV.C16Y.polyStep_is_polyFn
/-- **energy clause, chebyshev**, under the spectral condition checked per instance -/
restate relax_chebyshev_energy := PyamgV.C16Y.relax_chebyshev_energy

/-- a smoother of the model from zeros over the Gaussian rationals: complex energy norm -/
restate complex_smoother_from_zero_energy := PyamgV.C16Y.csm_from_zero_energy
/-- **energy clause, gauss_seidel / sor / jacobi, complex Hermitian positive semidefinite matrices** -/
restate relax_gs_energy_complex := PyamgV.C16Y.relax_gs_energy_complex
restate relax_sor_energy_complex := PyamgV.C16Y.relax_sor_energy_complex
restate relax_jacobi_energy_complex := PyamgV.C16Y.relax_jacobi_energy_complex
/-- complex Schwarz: one subdomain step / the Python driver / **the energy clause** with exact inverse blocks -/
restate schwarz_step_energy_complex := PyamgV.C16Y.schwarzStep_cenergy
restate schwarz_driver_energy_complex := PyamgV.C16Y.pySchwarz_cenergy
restate relax_schwarz_energy_complex := PyamgV.C16Y.relax_schwarz_energy_complex
/-- the hypotheses of the E51 clauses hold together on concrete instances -/
restate relaxY_hyps_satisfiable := PyamgV.C16Y.relaxY_hyps_satisfiable

/-! ## 4. the dispatch chain -/

theorem dispatch_direct_names :
    dispatch (.str "pinv") = some .pinv ∧ dispatch (.str "pinv2") = some .pinv ∧ dispatch (.str "lu") = some .lu ∧
    dispatch (.str "cholesky") = some .cholesky ∧ dispatch (.str "splu") = some .splu := by decide

theorem dispatch_other_args :
    dispatch .none = some .noSolve ∧ dispatch .callable = some .callable ∧ dispatch .other = none := by decide

theorem dispatch_listed_names :
    (∀ s ∈ krylovNames, dispatch (.str s) = some (.krylov s)) ∧
    (∀ s ∈ relaxNames, dispatch (.str s) = some (.relax s)) := by decide

/-- a string is accepted iff it is one of the documented names -/
theorem dispatch_str_accepts (s : String) :
    (dispatch (.str s)).isSome = true ↔
      s ∈ ["pinv", "pinv2", "lu", "cholesky", "splu"] ++ krylovNames ++ relaxNames := by
  unfold dispatch
  simp only [List.mem_append, List.mem_cons, List.not_mem_nil, or_false]
  by_cases h1 : s = "pinv" ∨ s = "pinv2"
  · rcases h1 with h | h <;> simp [h]
  · by_cases h2 : s = "lu"
    · simp [h2]
    · by_cases h3 : s = "cholesky"
      · simp [h3]
      · by_cases h4 : s = "splu"
        · simp [h4]
        · by_cases h5 : s ∈ krylovNames
          · simp [h1, h2, h3, h4, h5]
          · by_cases h6 : s ∈ relaxNames
            · simp [h1, h2, h3, h4, h5, h6]
            · have h1' : ¬ s = "pinv" ∧ ¬ s = "pinv2" := by
                constructor <;> intro h <;> exact h1 (by simp [h])
              simp [h1, h2, h3, h4, h5, h6, h1'.1, h1'.2]

/-! ## 4b. the dispatch chain as the SOURCE has it (extension E42, Proofs/ExtPy2Coarse.lean)

`Generated.PyLogic2.multilevel_coarse_grid_solver` is translated from the working tree's `coarse_grid_solver` on every
run (harness/py2lean2.py; nested `solve` definitions are closure values: which definition, what its body calls, what it
captures).  `ExtPy2Coarse.kindOf` reads the `Kind` off the returned `GenericSolver` object; `ExtPy2W.coarseWorld nc` is
the world of the two solver modules (facts compared with the installed packages on every run, op `ext_py2_world`).
The driver runs the generated definition (`ext_py2_call`) against the real function on generated arguments. -/

/-- **Generated.dispatch = C16.dispatch** on EVERY string: the closure created for a documented name is the model's
`Kind` of that name; any other string raises (both sides `none`) -/
restate generated_dispatch_str := PyamgV.ExtPy2Coarse.str_refines
/-- the same for the listed names, one by one -/
restate generated_dispatch_names := PyamgV.ExtPy2Coarse.names_plain
/-- an unknown name raises `ValueError`, in every world -/
restate generated_dispatch_unknown := PyamgV.ExtPy2Coarse.unknown_name
restate generated_dispatch_unknown_pair := PyamgV.ExtPy2Coarse.unknown_name_pair
/-- `None` -> the zero solver -/
restate generated_dispatch_none := PyamgV.ExtPy2Coarse.none_refines
/-- opaque objects: the pass-through closure iff callable (`Arg.callable`), `ValueError` otherwise (`Arg.other`) -/
restate generated_dispatch_obj := PyamgV.ExtPy2Coarse.obj_refines
/-- numbers, Booleans, lists, dictionaries raise `ValueError` -/
restate generated_dispatch_other := PyamgV.ExtPy2Coarse.other_raises
/-- `()` and `(solver,)` raise `IndexError` in `unpack_arg` -/
restate generated_dispatch_short_tuple := PyamgV.ExtPy2Coarse.short_tuple_raises
/-- `(name, kwargs)`: same kind, and the closure captures the caller's second entry unchanged (direct and Krylov) -/
restate generated_pair_direct_krylov := PyamgV.ExtPy2Coarse.pair_direct_krylov
restate generated_pair_none := PyamgV.ExtPy2Coarse.pair_none
restate generated_pair_callable := PyamgV.ExtPy2Coarse.pair_callable
/-- relaxation names: `iterations` defaults to 10 in the captured dictionary, the caller's value is kept -/
restate generated_pair_relax := PyamgV.ExtPy2Coarse.pair_relax
restate generated_plain_relax_kwargs := PyamgV.ExtPy2Coarse.plain_relax_kwargs
/-- a relaxation name with a second entry that is not a container raises `TypeError` -/
restate generated_pair_relax_bad_kwargs := PyamgV.ExtPy2Coarse.pair_relax_bad_kwargs
/-- Krylov names: `pyamg.krylov` first (keyword `tol`), otherwise `scipy.sparse.linalg` (keyword `rtol`) -/
restate generated_krylov_source := PyamgV.ExtPy2Coarse.krylov_source

/-! nested definitions of `coarse_grid_solver`, translated with the numerical work abstracted (Proofs/ExtPy2CoarseBody.lean);
the driver runs them against the REAL code objects of the nested definitions closed over mock values -/

/-- `GenericSolver.__call__` as generated = what `C16.call` models: `asanyarray(b)`; `zeros(b.shape)` WITHOUT calling
`solve` when `A.nnz == 0`, `solve(self, A, b)` otherwise; `asarray(x).reshape(b.shape)`; a right-hand side that is
neither `ndarray` nor `matrix` raises `ValueError` -/
restate generated_call_refines := PyamgV.ExtPy2Body.call_refines
/-- the Krylov closure: `fn(A, b, **kw)[0]` with `tol` renamed to `rtol` for SciPy functions and the default
`set_tol(A.dtype)` only when the tolerance keyword is absent; all keyword values -/
restate generated_krylov_kwargs := PyamgV.ExtPy2Body.krylov_refines
/-- hence a SciPy function never receives `tol` and always receives `rtol`, for every keyword dictionary -/
restate generated_krylov_scipy_keys := PyamgV.ExtPy2Body.krylovKw_scipy_keys
/-- the relaxation closure: fresh level holding `A`, `setup_<name>(lvl, **kwargs)`, start vector `zeros_like(b)`, one
call of the smoother, the start vector object is returned; every relaxation name, all keyword dictionaries -/
restate generated_relax_body := PyamgV.ExtPy2Body.relax_refines
restate generated_relax_unknown := PyamgV.ExtPy2Body.relax_unknown

/-- non-vacuity: what the generated definition returns for `('gauss_seidel', {'sweep': 'symmetric'})` -/
example : (Generated.PyLogic2.multilevel_coarse_grid_solver (ExtPy2W.coarseWorld [])
      (.tuple [.str "gauss_seidel", .dict [("sweep", .str "symmetric")]])).toOption.bind ExtPy2Coarse.kwargsOf
    = some (.dict [("sweep", .str "symmetric"), ("iterations", .int 10)]) := by rfl

/-! ## non-vacuity -/

def posQ (q : Rat) : Bool := decide (0 < q)
def noCb : K.Csr Rat → Arr Rat → Except String (Arr Rat) := fun _ _ => .error "no-callable"

/-- the singular matrix `[[1,1],[1,1]]`: the computed pseudo-inverse passes the Penrose certificate and is
not an inverse -/
example : isPinv id (#[#[1, 1], #[1, 1]] : C02.Dense Rat) (pinvD id #[#[1, 1], #[1, 1]] 2) 2 = true ∧
    isInv (#[#[1, 1], #[1, 1]] : C02.Dense Rat) (pinvD id #[#[1, 1], #[1, 1]] 2) 2 = false := by decide +kernel

/-- complex: the singular Hermitian matrix `[[1, i], [-i, 1]]` (rank 1) passes the Penrose certificate with
`CRat.conj` and is not inverted; `[[2, i], [-i, 2]]` passes `isHPD`; `[[1, 2i], [-2i, 1]]` (indefinite) does not -/
example :
    let A : C02.Dense CRat := #[#[⟨1, 0⟩, ⟨0, 1⟩], #[⟨0, -1⟩, ⟨1, 0⟩]]
    isPinv CRat.conj A (pinvD CRat.conj A 2) 2 = true ∧ isInv A (pinvD CRat.conj A 2) 2 = false ∧
    isHPD CRat.conj Drv.C16.posC (#[#[⟨2, 0⟩, ⟨0, 1⟩], #[⟨0, -1⟩, ⟨2, 0⟩]] : C02.Dense CRat) 2 = true ∧
    isHPD CRat.conj Drv.C16.posC (#[#[⟨1, 0⟩, ⟨0, 2⟩], #[⟨0, -2⟩, ⟨1, 0⟩]] : C02.Dense CRat) 2 = false := by
  decide +kernel

/-- a `splu` object on `[[2,0,-1],[0,0,0],[-1,0,2]]` (zero row and column 1): two calls, column- and
vector-shaped right-hand sides, one factorisation, results `(1,0,1)` and `(2,0,1)` in the shapes of `b` -/
example :
    let A : K.Csr Rat := ⟨3, #[0, 2, 2, 4], #[0, 2, 0, 2], #[2, -1, -1, 2]⟩
    coarseGridSolver id posQ noCb (.str "splu") {} [(A, ⟨#[1, 5, 1], .col⟩), (A, ⟨#[3, 7, 0], .vec⟩)] =
      some ([.ok ⟨#[1, 0, 1], .col⟩, .ok ⟨#[2, 0, 1], .vec⟩], 1) := by decide +kernel

/-- the hypotheses of `splu_call_spec` hold for that matrix -/
example :
    let A : K.Csr Rat := ⟨3, #[0, 2, 2, 4], #[0, 2, 0, 2], #[2, -1, -1, 2]⟩
    nnz A ≠ 0 ∧ nzCols A = [0, 2] ∧
    isInv (submat (C02.toDense A A.n) (nzCols A) (nzCols A))
      (pinvD id (submat (C02.toDense A A.n) (nzCols A) (nzCols A)) (nzCols A).length) (nzCols A).length = true := by
  decide +kernel

/-- the relaxation branch: 10 Gauss-Seidel iterations from zero on `[[2,-1],[-1,2]]`, `b = (1,1)` -/
example :
    let A : K.Csr Rat := ⟨2, #[0, 2, 4], #[0, 1, 0, 1], #[2, -1, -1, 2]⟩
    (relaxSolve "gauss_seidel" {} A #[1, 1]).toOption.map (fun x => x.size) = some 2 ∧
    (relaxSolve "gauss_seidel" { iterations := some 1 } A #[1, 1]) = .ok #[1/2, 3/4] := by decide +kernel

/-- E29: the extended relaxation model on `[[2,-1],[-1,2]]`, `b = (1,1)`, one iteration of each setup on recorded
inputs (`rho = 3/2` resp. `3`, Chebyshev polynomial `(1/3, -4/3, 1)`); a missing estimate and a missing Schwarz record
are errors; E51: `schwarz` with the default subdomains `{0,1}`, `{0,1}` and the exact inverse block solves at once -/
example :
    let A : K.Csr Rat := ⟨2, #[0, 2, 4], #[0, 1, 0, 1], #[2, -1, -1, 2]⟩
    let it1 : Opts Rat := { iterations := some 1 }
    C16R.relaxSolveR id "jacobi" it1 { rho := some (3/2) } A #[1, 1] = .ok #[1/3, 1/3] ∧
    C16R.relaxSolveR id "richardson" it1 { rho := some 3 } A #[1, 1] = .ok #[1/3, 1/3] ∧
    C16R.relaxSolveR id "chebyshev" it1 { cheb := #[1/3, -4/3, 1] } A #[1, 1] = .ok #[1, 1] ∧
    C16R.relaxSolveR id "jacobi_ne" it1 { rho := some (3/2) } A #[1, 1] = .ok #[4/45, 4/45] ∧
    C16R.relaxSolveR id "gauss_seidel_ne" it1 {} A #[1, 1] = .ok #[1/25, 13/25] ∧
    C16R.relaxSolveR id "gauss_seidel_nr" it1 {} A #[1, 1] = .ok #[1/5, 9/25] ∧
    C16R.relaxSolveR id "gauss_seidel_nr" { iterations := some 2, sweep := some .symmetric } {} A #[1, 1] =
      .ok #[2101/3125, 369/625] ∧
    C16R.relaxSolveR id "jacobi" it1 {} A #[1, 1] = .error "no-rho" ∧
    C16R.relaxSolveR id "schwarz" it1 {} A #[1, 1] = .error "bad-record" ∧
    C16R.relaxSolveR id "schwarz" it1 C16Y.riS A #[1, 0] = .ok #[2/3, 1/3] ∧
    C16R.relaxSolveR id "schwarz" ({ omega := some 1 } : Opts Rat) {} A #[1, 1] = .error "TypeError" ∧
    C16R.relaxSolveR id "foo" it1 {} A #[1, 1] = .error "unmodelled" := by decide +kernel

/-- E29: the block kernels on the 1-D Poisson matrix of size 4 stored in 2x2 blocks, recorded block inverses
`[[2/3,1/3],[1/3,2/3]]`; the model's `A.tocsc()` of that (symmetric) matrix -/
example :
    let A : K.Csr Rat := ⟨4, #[0, 2, 5, 8, 10], #[0, 1, 0, 1, 2, 1, 2, 3, 2, 3], #[2, -1, -1, 2, -1, -1, 2, -1, -1, 2]⟩
    let B : K.Csr Rat := ⟨2, #[0, 2, 4], #[0, 1, 0, 1], #[2, -1, -1, 2, 0, 0, -1, 0, 0, -1, 0, 0, 2, -1, -1, 2]⟩
    let D : Array Rat := #[2/3, 1/3, 1/3, 2/3, 2/3, 1/3, 1/3, 2/3]
    C16R.relaxSolveR id "block_jacobi" { iterations := some 1 } { rho := some 1, bs := 2, bsr := B, dinv := D } A
      #[1, 1, 1, 1] = .ok #[1, 1, 1, 1] ∧
    C16R.relaxSolveR id "block_gauss_seidel" { iterations := some 1 } { bs := 2, bsr := B, dinv := D } A
      #[1, 1, 1, 1] = .ok #[1, 1, 5/3, 4/3] ∧
    (C16R.cscOf A).ap = A.ap ∧ (C16R.cscOf A).aj = A.aj ∧ (C16R.cscOf A).ax = A.ax := by decide +kernel

/-- E51: that block storage is the model's `A.tobsr(blocksize=(2,2))` (hypothesis `htb` of the `_tobsr` clauses) -/
example :
    let A : K.Csr Rat := ⟨4, #[0, 2, 5, 8, 10], #[0, 1, 0, 1, 2, 1, 2, 3, 2, 3], #[2, -1, -1, 2, -1, -1, 2, -1, -1, 2]⟩
    let B : K.Csr Rat := ⟨2, #[0, 2, 4], #[0, 1, 0, 1], #[2, -1, -1, 2, 0, 0, -1, 0, 0, -1, 0, 0, 2, -1, -1, 2]⟩
    A.toBsr 2 = some (C16Y.toB B 2) := by
  intro A B
  have h : (A.toBsr 2).map (fun T => (T.nb, T.bs, T.bp, T.bj, T.bx)) = some (B.n, 2, B.ap, B.aj, B.ax) := by
    decide +kernel
  cases hT : A.toBsr 2 with
  | none => rw [hT] at h; cases h
  | some T =>
    rw [hT] at h
    simp only [Option.map_some, Option.some.injEq, Prod.mk.injEq] at h
    obtain ⟨h1, h2, h3, h4, h5⟩ := h
    cases T
    simp_all

end PyamgV.Props.C16
