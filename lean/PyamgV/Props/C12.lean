import PyamgV.Props.Restate
import PyamgV.Model.Facts
import PyamgV.Generated.Facts
import PyamgV.Proofs.StdAgg6
import PyamgV.Proofs.NaiveAgg
import PyamgV.Proofs.Pairwise
import PyamgV.Proofs.ExtPairwise
import PyamgV.Proofs.ExtC12LloydAgg
import PyamgV.Proofs.ExtC12BalFirst
import PyamgV.Proofs.ExtC12ZWrap

/-! # C12 — aggregation routines return valid partitions of the strength graph

Models: `Agg.standardAggregation` (the three passes of `standard_aggregation` with the `-n`
sentinel), `Agg.naive` (naive_aggregation) — both run by the driver (`p_std_agg`, `p_naive_agg`)
and compared exactly with the rebuilt kernels on every run — and the transition system `Pairwise`
(any selection order, any matched neighbour) for `pairwise_aggregation`, refined by the executable
kernel model `ExtPw.pairwise` (multimap as key-ordered insertion-stable list, `Rat` weights; driver op
`ext_pairwise`, compared exactly with the rebuilt kernel on every run). Every symmetric graph with
`n ≥ 1`, self loops allowed; the pairwise kernel model: every CSR pattern with in-range indices.
Lloyd (extension E18): `ExtLloyd.lloydCluster` / `ExtLloyd.lloydAggregation` — NumPy initialisation,
the exact `bellman_ford` kernel model `N.bellmanFord`, `most_interior_nodes` loop by loop, the
`while changed and it < maxiter` loop, measure handling and the AggOp assembly — run by the driver
(`ext_c12_lloyd`, `ext_c12_lloyd_agg`, `ext_c12_most_interior`) and compared exactly with
`lloyd_cluster`, `lloyd_aggregation` (replayed permutation) and the rebuilt kernel on every run.
Balanced Lloyd (extension E34): `BalLloyd.cluster` / `BalLloyd.aggregation` — the exact `bellman_ford_balanced`
model `Bal.kernel`, `center_nodes` loop by loop (counting sort into `C`, local indices `L`, Floyd–Warshall
per cluster, centre selection, update of `d, p, pc`), the `while (changed1 or changed2) and it < maxiter`
loop with its `ValueError` checks, `_elimination_penalty`, `_split_improvement`, `_rebalance` (recorded
`argsort` orders), the rebalance rounds — run by the driver (`ext_c12_ballloyd`, `ext_c12_ballloyd_agg`,
`ext_c12_center_nodes`) and compared exactly with `balanced_lloyd_cluster`, `balanced_lloyd_aggregation`
(replayed permutation) and the rebuilt `center_nodes` kernel on every run.
Pairwise WRAPPER (extension E56): `C12ZW.wrapper` — `pairwise_aggregation(A, matchings, theta, norm)` of aggregate.py composed from
the models of its parts: `classical_strength_of_connection` (`C14.pubClassicalNorm`), the kernel model `ExtPw.pairwise`,
`T_temp`, SciPy's `T @ T_temp` and the Galerkin product `T_temp.T.tocsr() @ Ac @ T_temp` (`Spmm.mul / transpose /
galerkin`: raw arrays), `Cpts[new_cpts]`, the `break` — run by the driver (`ext_c12z_pw`) and compared exactly with the real
wrapper (raw arrays of `T`, `Cpts`, number of aggregates of every level) on integer matrices on every run. -/
namespace PyamgV.Props.C12

/-- ids are `-1` or `0..k-1`, `k ≤ n-1` (the `-n` sentinel never collides), unaggregated = exactly the
nodes without off-diagonal neighbours, every root lies in the aggregate it names -/
restate standard_aggregation_spec := PyamgV.Agg.standardAggregation_spec
/-- every member is the root, a neighbour of the root, or a neighbour of such a member of the same
aggregate: aggregates are connected subgraphs (diameter ≤ 4) -/
restate standard_aggregation_connected := PyamgV.Agg.standardAggregation_connected
/-- naive aggregation assigns every node, ids consecutive, each root in its aggregate -/
restate naive_aggregation_spec := PyamgV.Agg.naive_spec
/-- pairwise aggregation (one matching): every node assigned, each aggregate has one or two
members, the recorded root lies in its aggregate — for every reachable final state -/
restate pairwise_aggregation_spec := PyamgV.Pairwise.pairwise_spec

/-- refinement: a run of the executable `pairwise_aggregation` kernel model is a path of
`Pairwise.Step` from the initial state that ends only when no node is unaggregated -/
restate pairwise_kernel_refines := PyamgV.ExtPw.pairwise_refines
/-- the executable kernel model returns a matching-type aggregation: one id in `1..k` per node, `k`
roots, every id `1..k` used by its root `y[a-1] < n`, every aggregate has exactly one or two nodes -/
restate pairwise_kernel_spec := PyamgV.ExtPw.pairwise_model_spec
/-- the kernel model returns a result exactly for index arrays the kernel can read in bounds -/
restate pairwise_kernel_total := PyamgV.ExtPw.pairwise_isSome_iff
/-- one run of the kernel model is a link of a chain of matchings (`Tj = x - 1` maps the `n` nodes
into `0..k-1`, aggregates of at most two nodes) -/
restate pairwise_kernel_link := PyamgV.ExtPw.pairwise_model_link
/-- composition of two assignment maps multiplies the bounds on the aggregate sizes -/
restate assignment_comp_fiber := PyamgV.ExtPw.fiberLe_comp
/-- `T = T1 @ T2 @ ... @ Tm`: the aggregates of `m` composed matchings have at most `2^m` nodes -/
restate pairwise_matchings_fiber := PyamgV.ExtPw.matchChain_fiber

/-! ### Lloyd aggregation (E18) -/

/-- the array model of the `bellman_ford` kernel refines the function model the C18 theorems are
about: whenever `BF.loop` exits with `t'`, `N.bellmanFord` converges to arrays representing `t'` -/
restate bellman_ford_array_refines := PyamgV.ExtLloyd.go_loop
/-- the final Bellman–Ford pass of `lloyd_cluster` (any pattern with in-range columns, non-negative
weights, centres may repeat): terminates; cluster id `>= 0` iff some centre reaches the node; the
distance is the shortest-walk length over all centres and is realised from the node's own centre;
distinct centres lie in their own clusters -/
restate lloyd_pass_spec := PyamgV.ExtLloyd.lloyd_pass_spec
/-- on a symmetric pattern the Bellman–Ford pass nested in `most_interior_nodes` terminates and leaves
the cluster ids unchanged -/
restate most_interior_keeps_clusters := PyamgV.ExtLloyd.innerPass_spec
/-- `lloyd_cluster` (symmetric pattern, accepted input, distinct centres, `maxiter >= 1`) terminates
with `LloydSpec`: ids `-1` or `0..k-1`, `clusters[centers[a]] = a` (no empty cluster, root in its
cluster, roots distinct), assigned iff reachable from a returned centre, members connected to their root -/
restate lloyd_cluster_spec := PyamgV.ExtLloyd.lloydCluster_spec
/-- the CSR arrays of `AggOp`: one unit entry `(i, clusters[i])` per assigned node, empty rows for `-1` -/
restate lloyd_aggop_spec := PyamgV.ExtLloyd.aggOp_spec
/-- `lloyd_aggregation` as a whole (measure, `naggs`, replayed permutation, clustering, assembly) -/
restate lloyd_aggregation_spec := PyamgV.ExtLloyd.lloydAggregation_spec

/-! non-vacuity (Lloyd): the weighted path 0–1–2 (weights 1, 3) with an isolated node 3 satisfies the
hypotheses; centres 0 and 2: node 1 joins centre 0, node 3 cannot be reached and stays `-1` -/
def lloydP4 : N.Csr := ⟨4, #[0,1,3,4,4], #[1,0,2,1], #[1,1,3,3]⟩
example : ExtLloyd.SymPat lloydP4 := by unfold ExtLloyd.SymPat; decide
example : ∀ i, i < lloydP4.n → ∀ jj ∈ lloydP4.jjs i, N.rdN lloydP4.aj jj < lloydP4.n := by decide
example : ExtLloyd.accepts lloydP4 #[0, 2] = true := by decide +kernel
example : ExtLloyd.lloydCluster lloydP4 #[0, 2] 3 = .ok (some (#[0, 0, 1, -1], #[0, 2])) := by decide +kernel
example : ExtLloyd.lloydAggregation lloydP4 "unit" (1/2) #[3, 1, 0, 2] 3 =
    .ok (some ((#[0, 1, 2, 3, 4], #[1, 1, 1, 0], #[1, 1, 1, 1]), #[3, 1])) := by decide +kernel

/-! ### balanced Lloyd aggregation (E34) -/

/-- `bellman_ford_balanced` keeps the bookkeeping invariant from any state (fresh round or the state
`center_nodes` leaves): ids `-1..k-1`, exact cluster sizes `s[a] = #{m = a}`, distances `>= 0`, every centre
at distance 0 inside its own cluster -/
restate bal_kernel_bookkeeping := PyamgV.BalLloyd.kernel_kinv
/-- the counting sort of `center_nodes`: with exact sizes, slot `t` of bucket `a` of `C` holds the `t`-th
node of cluster `a` -/
restate bal_center_nodes_buckets := PyamgV.BalLloyd.fill_spec
/-- Floyd–Warshall inside a cluster (non-negative weights, `tol > 0`): all entries stay non-negative or
`inf`, the diagonal stays 0 -/
restate bal_floyd_warshall_nonneg := PyamgV.BalLloyd.fwRun_spec
/-- `center_nodes` leaves cluster ids and sizes untouched, moves a centre only to a node of the same
cluster and gives the new centre distance 0: the bookkeeping invariant survives -/
restate bal_center_nodes_spec := PyamgV.BalLloyd.centerNodes_spec
/-- a `_rebalance` call that reports no change returns the centres unchanged -/
restate bal_rebalance_unchanged := PyamgV.BalLloyd.rebalance_unchanged
/-- `balanced_lloyd_cluster` (distinct initial centres, `maxiter >= 1`, weights `>= tol > 0`; any pattern,
`rebalance_iters`, `tiebreaking`, recorded sort orders): whenever it returns, every node has an id in
`0..k-1` (every node is assigned) and `clusters[centers[a]] = a` for every returned centre -/
restate balanced_lloyd_cluster_spec := PyamgV.BalLloyd.cluster_spec
/-- consequence of `clusters[centers[a]] = a`: the returned centres are distinct (no aggregate is empty) -/
restate balanced_lloyd_centres_distinct := PyamgV.BalLloyd.BalSpec.centres_distinct
/-- `balanced_lloyd_aggregation` as a whole (measure, `naggs`, replayed permutation, clustering, AggOp
assembly): a valid partition and one unit entry `(i, clusters[i])` per node -/
restate balanced_lloyd_aggregation_spec := PyamgV.BalLloyd.aggregation_spec
/-- the first Bellman–Ford pass of every rebalance round starts from a state satisfying the invariant of
`Bal.kernel_spec` (C18): shortest distances, nearest-centre labels, in-cluster predecessor chains w.r.t.
the centres the round starts from (with `maxiter = 1` these are the returned cluster ids) -/
restate balanced_lloyd_first_pass := PyamgV.BalLloyd.first_pass_final
/-- on a graph where every node is reachable from a centre that pass assigns every node (the
`disconnected` ValueError is not raised) -/
restate balanced_lloyd_first_pass_assigned := PyamgV.BalLloyd.first_pass_assigned

/-! non-vacuity (balanced Lloyd): the unit-weight path 0–1–2–3–4 with initial centres 0, 1: Lloyd moves the
second centre to node 2 (first pass) and on to node 3, node 1 changes sides: `{0,1}`, `{2,3,4}` with centres
0 and 3; the `_rebalance` call (recorded sort orders `[0,1]`, `[0,1]`) finds no profitable split -/
def balP5 : Bal.Csr := ⟨5, #[0,1,3,5,7,8], #[1,0,2,1,3,2,4,3], #[1,1,1,1,1,1,1,1]⟩
example : ∀ e ∈ balP5.entries, (1 : Rat) / 100000000000000 ≤ e.2.2 := by decide +kernel
example : BalLloyd.cluster (1 / 100000000000000) true balP5 #[0, 1] 1 0 [] = .ok (#[0, 1, 1, 1, 1], #[0, 2]) := by
  decide +kernel
example : BalLloyd.cluster (1 / 100000000000000) true balP5 #[0, 1] 3 2 [(#[0, 1], #[0, 1])] =
    .ok (#[0, 0, 1, 1, 1], #[0, 3]) := by
  decide +kernel

/-! non-vacuity (rebalancing): the unit-weight 4-cycle with centres 1, 2, 3: the first `_rebalance` call
eliminates one cluster and splits another (the centres change), the second finds nothing to do -/
def balC4 : Bal.Csr := ⟨4, #[0,2,4,6,8], #[1,3,0,2,1,3,0,2], #[1,1,1,1,1,1,1,1]⟩
example : BalLloyd.cluster (1 / 100000000000000) true balC4 #[1, 2, 3] 2 2
    [(#[0, 1, 2], #[1, 2, 0]), (#[0, 1, 2], #[1, 2, 0])] = .ok (#[1, 1, 0, 2], #[2, 1, 3]) := by
  decide +kernel
example : BalLloyd.cluster (1 / 100000000000000) true balC4 #[1, 2, 3] 2 0 [] ≠
    BalLloyd.cluster (1 / 100000000000000) true balC4 #[1, 2, 3] 2 2
      [(#[0, 1, 2], #[1, 2, 0]), (#[0, 1, 2], #[1, 2, 0])] := by
  decide +kernel

/-! non-vacuity: the path 0–1–2 with an isolated node 3 -/
example : (Agg.standardAggregation ⟨4, fun i => [[1],[0,2],[1],[]].getD i []⟩).1 = #[0, 0, 0, -1] := by decide

/-! non-vacuity (pairwise kernel model): the weighted path 0–1–2 (weights 1, 3) with an isolated node 3:
node 3 (key 0) is a singleton, then node 0 (key 1, first inserted) takes 1, then 2 stays alone -/
example : ExtPw.pairwise 4 #[0,1,3,4,4] #[1,0,2,1] #[1,1,3,3] = some (#[2,2,3,1], #[3,0,2], 3) := by decide
/-! non-vacuity (composition): two matchings 4 -> 3 -> 2 nodes -/
example : ExtPw.MatchChain 4 [fun v => [1,1,2,0].getD v 0, fun v => [0,1,1].getD v 0] :=
  .cons (n' := 3) (by decide) (ExtPw.fiberLe_of_bounded (n' := 3) (by decide) (by decide))
    (.cons (n' := 2) (by decide) (ExtPw.fiberLe_of_bounded (n' := 2) (by decide) (by decide))
      (.nil 2))

/-! ### the wrapper `pairwise_aggregation` (E56): strength + kernel + Galerkin products composed -/

/-- SciPy's product `T @ T_temp` (raw arrays of `csr_matmat`) of two assignment matrices is the assignment matrix of the
composed map: one unit entry `(i, G (F i))` per row -/
restate pairwise_wrapper_product := PyamgV.C12ZW.mul_assign
/-- the composed wrapper model (`n >= 1`) returns a valid partition: its run is the chain of matchings `levels` lists
(`1 <= |ls| <= matchings`, a `MatchChain`), `T` is the `n x k` assignment matrix of `composeAll (maps ls)` (one unit entry
per row: every node in exactly one aggregate), `Cpts[a] < n` lies in aggregate `a` (no aggregate is empty) -/
restate pairwise_wrapper_spec := PyamgV.C12ZW.wrapper_spec
/-- the `2^m` bound for the composed model: every aggregate of the returned `T` has at most `2^matchings` nodes -/
restate pairwise_wrapper_fiber := PyamgV.C12ZW.wrapper_fiber
/-- the roots `Cpts` of the composed model are distinct -/
restate pairwise_wrapper_roots_distinct := PyamgV.C12ZW.AccOK.roots_distinct
/-- the loop after the first matching, from any accumulator `(T0, Cpts0)` -/
restate pairwise_wrapper_loop := PyamgV.C12ZW.loop_spec

/-! non-vacuity (wrapper): the 1D Poisson matrix on 4 nodes (the docstring example of `pairwise_aggregation`): one matching
gives the aggregates `{0,1}`, `{2,3}` with roots 0, 3; two matchings give one aggregate with root 0 -/
def pois4 : Spmm.Csr Rat := ⟨4, 4, #[0,2,5,8,10], #[0,1,0,1,2,1,2,3,2,3], #[2,-1,-1,2,-1,-1,2,-1,-1,2]⟩
example : C12ZW.shapeOf (C12ZW.wrapper "min" (1/1000000) (1/4) 1 pois4) = some (4, 2, #[0,3]) := by decide +kernel
example : C12ZW.arraysOf (C12ZW.wrapper "min" (1/1000000) (1/4) 1 pois4) =
    some (#[0,1,2,3,4], #[0,0,1,1], #[1,1,1,1]) := by decide +kernel
example : C12ZW.shapeOf (C12ZW.wrapper "min" (1/1000000) (1/4) 2 pois4) = some (4, 1, #[0]) := by decide +kernel
example : C12ZW.arraysOf (C12ZW.wrapper "min" (1/1000000) (1/4) 2 pois4) =
    some (#[0,1,2,3,4], #[0,0,0,0], #[1,1,1,1]) := by decide +kernel

/-! ### interface facts regenerated from the working tree on every run (translator tie) -/
/-- the `kernels_smoothed_aggregation` table the models assume equals the one regenerated from the source now -/
theorem generated_kernels_smoothed_aggregation : PyamgV.Facts.kernels_smoothed_aggregation = PyamgV.Generated.kernels_smoothed_aggregation := by decide

end PyamgV.Props.C12
