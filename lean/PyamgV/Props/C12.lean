import PyamgV.Props.Restate
import PyamgV.Model.Facts
import PyamgV.Generated.Facts
import PyamgV.Proofs.StdAgg6
import PyamgV.Proofs.NaiveAgg
import PyamgV.Proofs.Pairwise
import PyamgV.Proofs.ExtPairwise
import PyamgV.Proofs.ExtC12LloydAgg
import PyamgV.Proofs.ExtC12BalFirst
import PyamgV.Proofs.ExtC12ZWrap
import PyamgV.Proofs.ExtC12ZMeas
import PyamgV.Proofs.ExtC12ZBalLoop
import PyamgV.Proofs.ExtPy3AggstrLloyd

/-! # C12 — aggregation routines return valid partitions of the strength graph

Models: `Agg.standardAggregation` (the three passes of `standard_aggregation` with the `-n`
sentinel), `Agg.naive` (naive_aggregation) — both run by the driver (`p_std_agg`, `p_naive_agg`)
and compared exactly with the rebuilt kernels on every run — and the transition system `Pairwise`
(any selection order, any matched neighbour) for `pairwise_aggregation`, refined by the executable
kernel model `ExtPw.pairwise` (multimap as key-ordered insertion-stable list, `Rat` weights; driver op
`ext_pairwise`, compared exactly with the rebuilt kernel on every run). Every symmetric graph with
`n ≥ 1`, self loops allowed; the pairwise kernel model: every CSR pattern with in-range indices.
Lloyd (extension E18): `ExtLloyd.lloydCluster` / `ExtLloyd.lloydAggregation` — NumPy initialisation,
the exact `bellman_ford` kernel model `N.bellmanFord`, `most_interior_nodes` loop by loop, the
`while changed and it < maxiter` loop, measure handling and the AggOp assembly — run by the driver
(`ext_c12_lloyd`, `ext_c12_lloyd_agg`, `ext_c12_most_interior`) and compared exactly with
`lloyd_cluster`, `lloyd_aggregation` (replayed permutation) and the rebuilt kernel on every run.
Balanced Lloyd (extension E34): `BalLloyd.cluster` / `BalLloyd.aggregation` — the exact `bellman_ford_balanced`
model `Bal.kernel`, `center_nodes` loop by loop (counting sort into `C`, local indices `L`, Floyd–Warshall
per cluster, centre selection, update of `d, p, pc`), the `while (changed1 or changed2) and it < maxiter`
loop with its `ValueError` checks, `_elimination_penalty`, `_split_improvement`, `_rebalance` (recorded
`argsort` orders), the rebalance rounds — run by the driver (`ext_c12_ballloyd`, `ext_c12_ballloyd_agg`,
`ext_c12_center_nodes`) and compared exactly with `balanced_lloyd_cluster`, `balanced_lloyd_aggregation`
(replayed permutation) and the rebuilt `center_nodes` kernel on every run.
Every pass of balanced Lloyd (extension E56): `center_nodes` preserves the invariant `Bal.Inv` of the balanced kernel (Floyd–Warshall
soundness + predecessor invariant on grid weights, strong connectivity of the clusters on a symmetric pattern), hence EVERY
Bellman–Ford pass of every rebalance round satisfies `Bal.Final`, and the returned cluster ids are the labels of such a pass.
Pairwise WRAPPER (extension E56): `C12ZW.wrapper` — `pairwise_aggregation(A, matchings, theta, norm)` of aggregate.py composed from
the models of its parts: `classical_strength_of_connection` (`C14.pubClassicalNorm`), the kernel model `ExtPw.pairwise`,
`T_temp`, SciPy's `T @ T_temp` and the Galerkin product `T_temp.T.tocsr() @ Ac @ T_temp` (`Spmm.mul / transpose /
galerkin`: raw arrays), `Cpts[new_cpts]`, the `break` — run by the driver (`ext_c12z_pw`) and compared exactly with the real
wrapper (raw arrays of `T`, `Cpts`, number of aggregates of every level) on integer matrices on every run.
Lloyd measure on COMPLEX values and stored zeros (extension E56): `C12ZM.applyMeasureC` (`re z`, `|z|`, `1/|z|` with `1/0 = +inf`,
`1`, `re z - min re z`: what `lloyd_aggregation` computes after the repair 30b9508, `|z|` through an exact rational square
root) and `C12ZM.lloydAggregationQ` (Lloyd with `+inf` edges: never relaxed by Bellman–Ford, counted by the boundary test of
`most_interior_nodes`) — run by the driver (`ext_c12z_measure`, `ext_c12z_lloyd_agg`) and compared exactly with
`lloyd_aggregation` on Gaussian rationals with rational modulus on every run. -/
namespace PyamgV.Props.C12

/-- ids are `-1` or `0..k-1`, `k ≤ n-1` (the `-n` sentinel never collides), unaggregated = exactly the
nodes without off-diagonal neighbours, every root lies in the aggregate it names -/
restate standard_aggregation_spec := PyamgV.Agg.standardAggregation_spec
/-- every member is the root, a neighbour of the root, or a neighbour of such a member of the same
aggregate: aggregates are connected subgraphs (diameter ≤ 4) -/
restate standard_aggregation_connected := PyamgV.Agg.standardAggregation_connected
/-- naive aggregation assigns every node, ids consecutive, each root in its aggregate -/
restate naive_aggregation_spec := PyamgV.Agg.naive_spec
/-- pairwise aggregation (one matching): every node assigned, each aggregate has one or two
members, the recorded root lies in its aggregate — for every reachable final state -/
restate pairwise_aggregation_spec := PyamgV.Pairwise.pairwise_spec

/-- refinement: a run of the executable `pairwise_aggregation` kernel model is a path of
`Pairwise.Step` from the initial state that ends only when no node is unaggregated -/
restate pairwise_kernel_refines := PyamgV.ExtPw.pairwise_refines
/-- the executable kernel model returns a matching-type aggregation: one id in `1..k` per node, `k`
roots, every id `1..k` used by its root `y[a-1] < n`, every aggregate has exactly one or two nodes -/
restate pairwise_kernel_spec := PyamgV.ExtPw.pairwise_model_spec
/-- the kernel model returns a result exactly for index arrays the kernel can read in bounds -/
restate pairwise_kernel_total := PyamgV.ExtPw.pairwise_isSome_iff
/-- one run of the kernel model is a link of a chain of matchings (`Tj = x - 1` maps the `n` nodes
into `0..k-1`, aggregates of at most two nodes) -/
restate pairwise_kernel_link := PyamgV.ExtPw.pairwise_model_link
/-- composition of two assignment maps multiplies the bounds on the aggregate sizes -/
restate assignment_comp_fiber := PyamgV.ExtPw.fiberLe_comp
/-- `T = T1 @ T2 @ ... @ Tm`: the aggregates of `m` composed matchings have at most `2^m` nodes -/
restate pairwise_matchings_fiber := PyamgV.ExtPw.matchChain_fiber

/-! ### Lloyd aggregation (E18) -/

/-- the array model of the `bellman_ford` kernel refines the function model the C18 theorems are
about: whenever `BF.loop` exits with `t'`, `N.bellmanFord` converges to arrays representing `t'` -/
restate bellman_ford_array_refines := PyamgV.ExtLloyd.go_loop
/-- the final Bellman–Ford pass of `lloyd_cluster` (any pattern with in-range columns, non-negative
weights, centres may repeat): terminates; cluster id `>= 0` iff some centre reaches the node; the
distance is the shortest-walk length over all centres and is realised from the node's own centre;
distinct centres lie in their own clusters -/
restate lloyd_pass_spec := PyamgV.ExtLloyd.lloyd_pass_spec
/-- on a symmetric pattern the Bellman–Ford pass nested in `most_interior_nodes` terminates and leaves
the cluster ids unchanged -/
restate most_interior_keeps_clusters := PyamgV.ExtLloyd.innerPass_spec
/-- `lloyd_cluster` (symmetric pattern, accepted input, distinct centres, `maxiter >= 1`) terminates
with `LloydSpec`: ids `-1` or `0..k-1`, `clusters[centers[a]] = a` (no empty cluster, root in its
cluster, roots distinct), assigned iff reachable from a returned centre, members connected to their root -/
restate lloyd_cluster_spec := PyamgV.ExtLloyd.lloydCluster_spec
/-- the CSR arrays of `AggOp`: one unit entry `(i, clusters[i])` per assigned node, empty rows for `-1` -/
restate lloyd_aggop_spec := PyamgV.ExtLloyd.aggOp_spec
/-- `lloyd_aggregation` as a whole (measure, `naggs`, replayed permutation, clustering, assembly) -/
restate lloyd_aggregation_spec := PyamgV.ExtLloyd.lloydAggregation_spec

/-! non-vacuity (Lloyd): the weighted path 0–1–2 (weights 1, 3) with an isolated node 3 satisfies the
hypotheses; centres 0 and 2: node 1 joins centre 0, node 3 cannot be reached and stays `-1` -/
def lloydP4 : N.Csr := ⟨4, #[0,1,3,4,4], #[1,0,2,1], #[1,1,3,3]⟩
example : ExtLloyd.SymPat lloydP4 := by unfold ExtLloyd.SymPat; decide
example : ∀ i, i < lloydP4.n → ∀ jj ∈ lloydP4.jjs i, N.rdN lloydP4.aj jj < lloydP4.n := by decide
example : ExtLloyd.accepts lloydP4 #[0, 2] = true := by decide +kernel
example : ExtLloyd.lloydCluster lloydP4 #[0, 2] 3 = .ok (some (#[0, 0, 1, -1], #[0, 2])) := by decide +kernel
example : ExtLloyd.lloydAggregation lloydP4 "unit" (1/2) #[3, 1, 0, 2] 3 =
    .ok (some ((#[0, 1, 2, 3, 4], #[1, 1, 1, 0], #[1, 1, 1, 1]), #[3, 1])) := by decide +kernel

/-! ### balanced Lloyd aggregation (E34) -/

/-- `bellman_ford_balanced` keeps the bookkeeping invariant from any state (fresh round or the state
`center_nodes` leaves): ids `-1..k-1`, exact cluster sizes `s[a] = #{m = a}`, distances `>= 0`, every centre
at distance 0 inside its own cluster -/
restate bal_kernel_bookkeeping := PyamgV.BalLloyd.kernel_kinv
/-- the counting sort of `center_nodes`: with exact sizes, slot `t` of bucket `a` of `C` holds the `t`-th
node of cluster `a` -/
restate bal_center_nodes_buckets := PyamgV.BalLloyd.fill_spec
/-- Floyd–Warshall inside a cluster (non-negative weights, `tol > 0`): all entries stay non-negative or
`inf`, the diagonal stays 0 -/
restate bal_floyd_warshall_nonneg := PyamgV.BalLloyd.fwRun_spec
/-- `center_nodes` leaves cluster ids and sizes untouched, moves a centre only to a node of the same
cluster and gives the new centre distance 0: the bookkeeping invariant survives -/
restate bal_center_nodes_spec := PyamgV.BalLloyd.centerNodes_spec
/-- a `_rebalance` call that reports no change returns the centres unchanged -/
restate bal_rebalance_unchanged := PyamgV.BalLloyd.rebalance_unchanged
/-- `balanced_lloyd_cluster` (distinct initial centres, `maxiter >= 1`, weights `>= tol > 0`; any pattern,
`rebalance_iters`, `tiebreaking`, recorded sort orders): whenever it returns, every node has an id in
`0..k-1` (every node is assigned) and `clusters[centers[a]] = a` for every returned centre -/
restate balanced_lloyd_cluster_spec := PyamgV.BalLloyd.cluster_spec
/-- consequence of `clusters[centers[a]] = a`: the returned centres are distinct (no aggregate is empty) -/
restate balanced_lloyd_centres_distinct := PyamgV.BalLloyd.BalSpec.centres_distinct
/-- `balanced_lloyd_aggregation` as a whole (measure, `naggs`, replayed permutation, clustering, AggOp
assembly): a valid partition and one unit entry `(i, clusters[i])` per node -/
restate balanced_lloyd_aggregation_spec := PyamgV.BalLloyd.aggregation_spec
/-- the first Bellman–Ford pass of every rebalance round starts from a state satisfying the invariant of
`Bal.kernel_spec` (C18): shortest distances, nearest-centre labels, in-cluster predecessor chains w.r.t.
the centres the round starts from (with `maxiter = 1` these are the returned cluster ids) -/
restate balanced_lloyd_first_pass := PyamgV.BalLloyd.first_pass_final
/-- on a graph where every node is reachable from a centre that pass assigns every node (the
`disconnected` ValueError is not raised) -/
restate balanced_lloyd_first_pass_assigned := PyamgV.BalLloyd.first_pass_assigned

/-! #### every pass of balanced Lloyd (E56): `center_nodes` hands `Bal.Inv` back to the kernel -/

/-- Floyd–Warshall on one cluster (`fwRun`; weights on a grid `h·ℕ`, `0 < tol < h`): every finite `D[t,u]` is the length
of a walk `glob t → glob u` on the grid, the diagonal is 0 with `P[t,t] = glob t`, and for `t ≠ u` the predecessor
`P[t,u] = glob q` has a stored entry `(glob q, glob u, a)` with `D[t,q] + a ≤ D[t,u]` (the in-place triple loop breaks
this inside a round and restores it at the end of the round) -/
restate bal_floyd_warshall_pred := PyamgV.C12ZB.fwRun_inv
/-- after a finished balanced Bellman–Ford pass (positive grid weights, symmetric pattern) every assigned node is joined
to a centre of its own cluster in both directions inside the cluster: clusters are strongly connected -/
restate bal_clusters_connected := PyamgV.C12ZB.to_centre
/-- the update loop of `center_nodes`: `d[j] = D[i,j]`, `p[j] = P[i,j]` for exactly the members of the cluster, exact
predecessor counts -/
restate bal_center_nodes_update := PyamgV.C12ZB.moveCentre_full
/-- **`center_nodes` preserves `Bal.Inv`** (left open by E34): from `Final ∧ Inv` w.r.t. the centres `x.c` to `Inv` w.r.t.
the moved centres `y.c` (weights on a grid `>= tol`, `2 tol < h`, symmetric pattern, every node assigned) -/
restate bal_center_nodes_inv := PyamgV.C12ZB.centerNodes_inv
/-- the re-initialised state of a rebalance round satisfies the loop invariant `Good` (`KInv` + `Bal.Inv`) -/
restate bal_round_start_good := PyamgV.C12ZB.good_reinit
/-- one iteration of the Lloyd loop (kernel, the two checks, `center_nodes`) keeps `Good` -/
restate bal_loop_step_good := PyamgV.C12ZB.good_step
/-- **every pass of the Lloyd loop** started in a `Good` state delivers `Final` w.r.t. the centres of that moment -/
restate balanced_lloyd_pass_final := PyamgV.C12ZB.pass_final
/-- the state the loop returns is `center_nodes` applied to the result of one of these passes (or the unchanged start) -/
restate balanced_lloyd_loop_result := PyamgV.C12ZB.innerLoop_result
/-- and it is `Good` again -/
restate balanced_lloyd_loop_good := PyamgV.C12ZB.innerLoop_good
/-- **every Bellman–Ford pass of every rebalance round** of `balanced_lloyd_cluster` delivers `Final`: shortest distances,
nearest-centre labels, in-cluster shortest-path predecessor chains, exact predecessor counts -/
restate balanced_lloyd_every_pass := PyamgV.C12ZB.every_pass_final
/-- the clusters `BalLloyd.outer` returns are the labels `m` of a pass satisfying `Final` w.r.t. the centres the last
`center_nodes` update started from -/
restate balanced_lloyd_outer_final := PyamgV.C12ZB.outer_final
/-- `balanced_lloyd_cluster` end to end -/
restate balanced_lloyd_cluster_final := PyamgV.C12ZB.cluster_final
/-- the Boolean forms of the hypotheses the driver evaluates on the inputs of the check imply the hypotheses -/
restate bal_sym_of_bool := PyamgV.C12ZB.symE_of_bool
restate bal_grid_of_bool := PyamgV.C12ZB.grid_of_bool

/-! non-vacuity (balanced Lloyd): the unit-weight path 0–1–2–3–4 with initial centres 0, 1: Lloyd moves the
second centre to node 2 (first pass) and on to node 3, node 1 changes sides: `{0,1}`, `{2,3,4}` with centres
0 and 3; the `_rebalance` call (recorded sort orders `[0,1]`, `[0,1]`) finds no profitable split -/
def balP5 : Bal.Csr := ⟨5, #[0,1,3,5,7,8], #[1,0,2,1,3,2,4,3], #[1,1,1,1,1,1,1,1]⟩
example : ∀ e ∈ balP5.entries, (1 : Rat) / 100000000000000 ≤ e.2.2 := by decide +kernel
example : BalLloyd.cluster (1 / 100000000000000) true balP5 #[0, 1] 1 0 [] = .ok (#[0, 1, 1, 1, 1], #[0, 2]) := by
  decide +kernel
example : BalLloyd.cluster (1 / 100000000000000) true balP5 #[0, 1] 3 2 [(#[0, 1], #[0, 1])] =
    .ok (#[0, 0, 1, 1, 1], #[0, 3]) := by
  decide +kernel

/-! non-vacuity (every pass): the hypotheses of `balanced_lloyd_cluster_final` hold for that run (`h = 1`, `tol = 1e-14`):
the returned cluster ids `[0,0,1,1,1]` are nearest-centre labels of a finished pass -/
example : ∃ (xl : BalLloyd.LSt) (st1 : Bal.St),
    Bal.Final balP5.n balP5.entries (C12ZB.isCen (#[0, 1] : Array Int).size xl.c) (fun v => Bal.rdI xl.st.m v) st1 ∧
      (#[0, 0, 1, 1, 1] : Array Int) = st1.m ∧
      (∀ b, b < (#[0, 1] : Array Int).size → Bal.rdI xl.st.m (Bal.rdN xl.c b) = (b : Int)) :=
  have hg := C12ZB.grid_of_bool (A := balP5) (h := 1) (tol := 1 / 100000000000000) (by decide +kernel)
  C12ZB.cluster_final (tb := true) hg.1 hg.2.1 hg.2.2.1 hg.2.2.2 (C12ZB.symE_of_bool (by decide +kernel))
    (centers := #[0, 1]) (by decide) (maxiter := 3) (reb := 2) (by decide)
    (ords := [(#[0, 1], #[0, 1])]) (ce := #[0, 3]) (by decide +kernel)

/-! non-vacuity (rebalancing): the unit-weight 4-cycle with centres 1, 2, 3: the first `_rebalance` call
eliminates one cluster and splits another (the centres change), the second finds nothing to do -/
def balC4 : Bal.Csr := ⟨4, #[0,2,4,6,8], #[1,3,0,2,1,3,0,2], #[1,1,1,1,1,1,1,1]⟩
example : BalLloyd.cluster (1 / 100000000000000) true balC4 #[1, 2, 3] 2 2
    [(#[0, 1, 2], #[1, 2, 0]), (#[0, 1, 2], #[1, 2, 0])] = .ok (#[1, 1, 0, 2], #[2, 1, 3]) := by
  decide +kernel
example : BalLloyd.cluster (1 / 100000000000000) true balC4 #[1, 2, 3] 2 0 [] ≠
    BalLloyd.cluster (1 / 100000000000000) true balC4 #[1, 2, 3] 2 2
      [(#[0, 1, 2], #[1, 2, 0]), (#[0, 1, 2], #[1, 2, 0])] := by
  decide +kernel

/-! non-vacuity: the path 0–1–2 with an isolated node 3 -/
example : (Agg.standardAggregation ⟨4, fun i => [[1],[0,2],[1],[]].getD i []⟩).1 = #[0, 0, 0, -1] := by decide

/-! non-vacuity (pairwise kernel model): the weighted path 0–1–2 (weights 1, 3) with an isolated node 3:
node 3 (key 0) is a singleton, then node 0 (key 1, first inserted) takes 1, then 2 stays alone -/
example : ExtPw.pairwise 4 #[0,1,3,4,4] #[1,0,2,1] #[1,1,3,3] = some (#[2,2,3,1], #[3,0,2], 3) := by decide
/-! non-vacuity (composition): two matchings 4 -> 3 -> 2 nodes -/
example : ExtPw.MatchChain 4 [fun v => [1,1,2,0].getD v 0, fun v => [0,1,1].getD v 0] :=
  .cons (n' := 3) (by decide) (ExtPw.fiberLe_of_bounded (n' := 3) (by decide) (by decide))
    (.cons (n' := 2) (by decide) (ExtPw.fiberLe_of_bounded (n' := 2) (by decide) (by decide))
      (.nil 2))

/-! ### the wrapper `pairwise_aggregation` (E56): strength + kernel + Galerkin products composed -/

/-- SciPy's product `T @ T_temp` (raw arrays of `csr_matmat`) of two assignment matrices is the assignment matrix of the
composed map: one unit entry `(i, G (F i))` per row -/
restate pairwise_wrapper_product := PyamgV.C12ZW.mul_assign
/-- the composed wrapper model (`n >= 1`) returns a valid partition: its run is the chain of matchings `levels` lists
(`1 <= |ls| <= matchings`, a `MatchChain`), `T` is the `n x k` assignment matrix of `composeAll (maps ls)` (one unit entry
per row: every node in exactly one aggregate), `Cpts[a] < n` lies in aggregate `a` (no aggregate is empty) -/
restate pairwise_wrapper_spec := PyamgV.C12ZW.wrapper_spec
/-- the `2^m` bound for the composed model: every aggregate of the returned `T` has at most `2^matchings` nodes -/
restate pairwise_wrapper_fiber := PyamgV.C12ZW.wrapper_fiber
/-- the roots `Cpts` of the composed model are distinct -/
restate pairwise_wrapper_roots_distinct := PyamgV.C12ZW.AccOK.roots_distinct
/-- the loop after the first matching, from any accumulator `(T0, Cpts0)` -/
restate pairwise_wrapper_loop := PyamgV.C12ZW.loop_spec

/-! non-vacuity (wrapper): the 1D Poisson matrix on 4 nodes (the docstring example of `pairwise_aggregation`): one matching
gives the aggregates `{0,1}`, `{2,3}` with roots 0, 3; two matchings give one aggregate with root 0 -/
def pois4 : Spmm.Csr Rat := ⟨4, 4, #[0,2,5,8,10], #[0,1,0,1,2,1,2,3,2,3], #[2,-1,-1,2,-1,-1,2,-1,-1,2]⟩
example : C12ZW.shapeOf (C12ZW.wrapper "min" (1/1000000) (1/4) 1 pois4) = some (4, 2, #[0,3]) := by decide +kernel
example : C12ZW.arraysOf (C12ZW.wrapper "min" (1/1000000) (1/4) 1 pois4) =
    some (#[0,1,2,3,4], #[0,0,1,1], #[1,1,1,1]) := by decide +kernel
example : C12ZW.shapeOf (C12ZW.wrapper "min" (1/1000000) (1/4) 2 pois4) = some (4, 1, #[0]) := by decide +kernel
example : C12ZW.arraysOf (C12ZW.wrapper "min" (1/1000000) (1/4) 2 pois4) =
    some (#[0,1,2,3,4], #[0,0,0,0], #[1,1,1,1]) := by decide +kernel

/-! ### the Lloyd measure on complex strength values and stored zeros (E56) -/

/-- the exact rational square root the driver uses for `|z|` is sound: `sqrtQ? q = some r → 0 ≤ r ∧ r * r = q` -/
restate lloyd_measure_sqrt_sound := PyamgV.C12ZM.sqrtQ_sound
/-- `measure='abs'` on a complex entry: a non-negative `r` with `r² = re² + im²` -/
restate lloyd_measure_abs := PyamgV.C12ZM.measure_abs
/-- `measure='inv'`: `+inf` exactly at a stored zero, otherwise `1/r`, `r > 0`, `r² = re² + im²` -/
restate lloyd_measure_inv := PyamgV.C12ZM.measure_inv
/-- only `measure=None` (a negative real part) can trigger the `positive measure` ValueError: for `abs`, `inv`, `unit`,
`min` every finite measured entry is non-negative -/
restate lloyd_measure_nonneg := PyamgV.C12ZM.measure_nonneg
/-- without `+inf` edges the two-matrix Lloyd model (pattern for the boundary test, finite edges for Bellman–Ford) is
the Lloyd model of E18 -/
restate lloyd_inf_model_conservative := PyamgV.C12ZM.lloydClusterX_self
/-- when no measured entry is `+inf`, Lloyd aggregation of a complex matrix is the real model on the measured values -/
restate lloyd_complex_is_real_model := PyamgV.C12ZM.lloydAggregationC_finite
/-- hence the partition specification for complex strength matrices (symmetric pattern, `maxiter >= 1`, no stored zero
under `inv`): no empty aggregate, roots in their aggregates, aggregated iff reachable, members connected to their root -/
restate lloyd_complex_aggregation_spec := PyamgV.C12ZM.lloydAggregationC_spec

/-! non-vacuity (complex Lloyd): the path 0–1–2 with values `3+4i` (both directions) and `2i`, `-2i`: `abs` gives the edge
lengths 5, 5, 2, 2; a stored zero under `inv` is an edge of length `+inf`: node 2 is not reached from the centre 0;
`measure=None` with a negative real part is rejected -/
def cplxP3 : Array CRat := #[⟨3,4⟩, ⟨3,4⟩, ⟨0,2⟩, ⟨0,-2⟩]
example : C12ZM.applyMeasureC C14.sqrtQ? "abs" cplxP3 = some #[some 5, some 5, some 2, some 2] := by decide +kernel
example : C12ZM.applyMeasureC C14.sqrtQ? "inv" #[⟨0,2⟩, ⟨0,0⟩, ⟨-4,0⟩] = some #[some (1/2), none, some (1/4)] := by
  decide +kernel
example : C12ZM.lloydAggregationQ 3 #[0,1,3,4] #[1,0,2,1] cplxP3 "abs" (2/3) #[2,0,1] 2 =
    .ok (some ((#[0,1,2,3], #[1,0,0], #[1,1,1]), #[2, 0])) := by decide +kernel
example : C12ZM.lloydAggregationQ 3 #[0,1,3,4] #[1,0,2,1] #[⟨0,2⟩, ⟨0,2⟩, ⟨0,0⟩, ⟨0,0⟩] "inv" (1/3) #[0,2,1] 2 =
    .ok (some ((#[0, 1, 2, 2], #[0, 0], #[1, 1]), #[0])) := by decide +kernel
example : C12ZM.lloydAggregationQ 3 #[0,1,3,4] #[1,0,2,1] #[⟨-1,2⟩, ⟨0,2⟩, ⟨1,0⟩, ⟨1,0⟩] "None" (1/3) #[0,2,1] 2 =
    .error "ValueError" := by decide +kernel

/-! ### extension E59: the Python wrappers as GENERATED from the working tree (harness/py2lean3_aggstr.py,
`Generated/PyLogic3_aggstr.lean`), numerical work abstracted as events; finite grids, kernel evaluated -/
/-- the generated `lloyd_aggregation` / `balanced_lloyd_aggregation` perform exactly the events of the specification
`lExpected` (validation, measure table, real part, positivity check, graph, clustering call, assembly) on `lGrid` -/
restate py_lloyd_refines_spec := PyamgV.ExtPy3AggstrP.lloyd_refines_spec
/-- for each measure the events applied to `C.data` are exactly the documented table, and the real part of a complex
matrix is taken AFTER the measure (of the measured data) -/
restate py_lloyd_measure_then_real := PyamgV.ExtPy3AggstrP.lloyd_measure_then_real
/-- AggOp is constructed with the explicit shape `(n, naggs)`, `naggs = int(min(max(ratio n, 1), n))` -/
restate py_lloyd_aggop_shape := PyamgV.ExtPy3AggstrP.lloyd_aggop_shape
/-- an unknown measure raises `ValueError` -/
restate py_lloyd_unknown_measure := PyamgV.ExtPy3AggstrP.lloyd_unknown_measure
/-- no event mutates the argument `C` (wrappers called without `pad`) -/
restate py_lloyd_no_argument_mutation := PyamgV.ExtPy3AggstrP.lloyd_no_argument_mutation
/-- `balanced_lloyd_aggregation(pad=p, A=A, measure='inv')`: a copy of `A` is filled with `pad`, then `C += Epad` -/
restate py_balanced_pad_events := PyamgV.ExtPy3AggstrP.balanced_pad_events
/-- ... which is the only argument mutation: `A` is never written, `C` is updated in place -/
restate py_balanced_pad_mutates_only_C := PyamgV.ExtPy3AggstrP.balanced_pad_mutates_only_C
/-- the generated `standard_aggregation` / `naive_aggregation` wrappers: validation of C, kernel call, assembly of AggOp
with the explicit shape `(num_rows, num_aggregates)`, exactly as specified (`sExpected`) on `sGrid` -/
restate py_simple_refines_spec := PyamgV.ExtPy3AggstrP.simple_refines_spec
/-- neither of them mutates its argument -/
restate py_simple_no_argument_mutation := PyamgV.ExtPy3AggstrP.simple_no_argument_mutation

/-! non-vacuity (E59): the grids are not empty and contain the interesting scenarios; a complex `inv` run really
contains `abs`, `1.0 / .`, `np.real`, in this order -/
example : ExtPy3AggstrP.lGrid.length = 192 ∧ ExtPy3AggstrP.sGrid.length = 72 := by decide +kernel
example : (ExtPy3AggstrP.lRun ⟨false, .inv, true, 3, "csr", 8, 1/2⟩).2.take 5 =
    [ExtPy3AggstrP.issparseEv, ExtPy3AggstrP.unEv "abs" (.obj "C.data"), ExtPy3AggstrP.binEv "div" (.float 1) (.obj "absd"),
     ExtPy3AggstrP.callEv "np.real" [.obj "d_inv"] [], ExtPy3AggstrP.callEv "np.ascontiguousarray" [.obj "re"] []] := by
  kernel_rfl

/-! ### interface facts regenerated from the working tree on every run (translator tie) -/
/-- the `kernels_smoothed_aggregation` table the models assume equals the one regenerated from the source now -/
theorem generated_kernels_smoothed_aggregation : PyamgV.Facts.kernels_smoothed_aggregation = PyamgV.Generated.kernels_smoothed_aggregation := by decide

end PyamgV.Props.C12
