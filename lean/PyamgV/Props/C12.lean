import PyamgV.Props.Restate
import PyamgV.Model.Facts
import PyamgV.Generated.Facts
import PyamgV.Proofs.StdAgg6
import PyamgV.Proofs.NaiveAgg
import PyamgV.Proofs.Pairwise

/-! # C12 — aggregation routines return valid partitions of the strength graph

Models: `Agg.standardAggregation` (the three passes of `standard_aggregation` with the `-n`
sentinel), `Agg.naive` (naive_aggregation) — both run by the driver (`p_std_agg`, `p_naive_agg`)
and compared exactly with the rebuilt kernels on every run — and the transition system `Pairwise`
(any selection order, any matched neighbour) for `pairwise_aggregation`. Every symmetric graph with
`n ≥ 1`, self loops allowed. -/
namespace PyamgV.Props.C12

/-- ids are `-1` or `0..k-1`, `k ≤ n-1` (the `-n` sentinel never collides), unaggregated = exactly the
nodes without off-diagonal neighbours, every root lies in the aggregate it names -/
restate standard_aggregation_spec := PyamgV.Agg.standardAggregation_spec
/-- every member is the root, a neighbour of the root, or a neighbour of such a member of the same
aggregate: aggregates are connected subgraphs (diameter ≤ 4) -/
restate standard_aggregation_connected := PyamgV.Agg.standardAggregation_connected
/-- naive aggregation assigns every node, ids consecutive, each root in its aggregate -/
restate naive_aggregation_spec := PyamgV.Agg.naive_spec
/-- pairwise aggregation (one matching): every node assigned, each aggregate has one or two
members, the recorded root lies in its aggregate — for every reachable final state -/
restate pairwise_aggregation_spec := PyamgV.Pairwise.pairwise_spec

/-! non-vacuity: the path 0–1–2 with an isolated node 3 -/
example : (Agg.standardAggregation ⟨4, fun i => [[1],[0,2],[1],[]].getD i []⟩).1 = #[0, 0, 0, -1] := by decide

/-! ### interface facts regenerated from the working tree on every run (translator tie) -/
/-- the `kernels_smoothed_aggregation` table the models assume equals the one regenerated from the source now -/
theorem generated_kernels_smoothed_aggregation : PyamgV.Facts.kernels_smoothed_aggregation = PyamgV.Generated.kernels_smoothed_aggregation := by decide

end PyamgV.Props.C12
