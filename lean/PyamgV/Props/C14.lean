import PyamgV.Props.Restate
import PyamgV.Proofs.C14
import PyamgV.Proofs.C14Pub
import PyamgV.Proofs.C14Dist
import PyamgV.Proofs.C14Out
import PyamgV.Proofs.C14Tail
import PyamgV.Proofs.C14KNum
import PyamgV.Proofs.C14Evol
import PyamgV.Proofs.ExtC14Energy
import PyamgV.Proofs.ExtC14Evol
import PyamgV.Proofs.ExtC14XNoBlock
import PyamgV.Proofs.ExtC14XSqrt
import PyamgV.Proofs.ExtC14YEvol
import PyamgV.Proofs.ExtC14YDefined
import PyamgV.Proofs.ExtPy3AggstrStrength

/-! # C14 — strength-of-connection matrices obey the common contract and their rules

Models: `PyamgV.C14.*` (`Model/C14.lean`): the two inner loops of
`classical_strength_of_connection_abs/min` (`socRow`, the norm is a parameter: `|·|`, `x ↦ -x`, the
complex modulus), of `symmetric_strength_of_connection` (`symRow`, `diagNorm`), `maximum_row_value`
(`rowMax`), and the Python post-processing `np.abs` / `scale_rows_by_largest_entry` /
`eliminate_zeros` assembled into the public functions (`pubClassicalRow`, `pubSymmetric`, block-wise
reductions and `amalgamate` for BSR input), the distance filters, and the distance-type measures after
their distance function (`distCommonRow` = `distance_measure_common` of `algebraic_distance` /
`affinity_distance`; `distStrengthRow` = `distance_strength_of_connection`; `energyTailRow`, `evolTail` =
the parts of `energy_based_…` / `evolution_strength_of_connection` after their strength values).  These are
the definitions the driver executes (`c14_*` ops) and compares with the rebuilt kernels (exactly) and
the public functions (pattern exactly, values to 4 ulp) on every run.  Rows are arbitrary lists of
stored entries: unsorted, duplicated, missing / zero diagonal, empty.  Scalars are rationals
(exact-field model). -/
namespace PyamgV.Props.C14
open PyamgV PyamgV.C14 PyamgV.C14X PyamgV.C14Y

/-- classical kernel, both norms, real and complex: the output row is the order-preserving filter
"diagonal, or `nrm a_ij ≥ θ · maxOff`" of the input row -/
restate classical_kernel_is_filter := PyamgV.C14.socRow_eq_filter
/-- **rule**: a stored entry is kept iff it is the diagonal or `nrm a_ij ≥ θ · maxOff` -/
restate classical_rule := PyamgV.C14.socRow_rule
/-- `maxOff` bounds `tiny` and every off-diagonal norm … -/
restate max_offdiagonal_bounds := PyamgV.C14.maxOff_ge
/-- … and is `tiny` or attained by an off-diagonal stored entry: it *is* `max(tiny, max_{k≠i} nrm a_ik)` -/
restate max_offdiagonal_attained := PyamgV.C14.maxOff_attained
/-- pattern ⊆ input pattern (sublist: order and multiplicity preserved) -/
restate classical_pattern_contained := PyamgV.C14.socRow_sublist
/-- monotone in θ (needs `0 ≤ tiny`: true for both kernels) -/
restate classical_monotone := PyamgV.C14.socRow_mono
/-- θ = 0 keeps the whole row for a non-negative norm (`abs`, complex modulus) -/
restate classical_theta_zero := PyamgV.C14.socRow_theta_zero_abs
/-- θ = 0, any norm: exactly the diagonal and the entries of non-negative norm are kept
(for `min`: the non-positive entries) -/
restate classical_theta_zero_any_norm := PyamgV.C14.socRow_theta_zero
/-- the diagonal is always kept -/
restate classical_diagonal_kept := PyamgV.C14.socRow_diag
/-- `min` norm: a positive off-diagonal entry is never strong (finding `classical-min-positive-offdiag`
is exactly this documented behaviour) -/
restate min_positive_never_strong := PyamgV.C14.min_positive_never_strong

/-- symmetric kernel: kept iff diagonal or `|a_ij|² ≥ θ²·|a_ii|·|a_jj|` -/
restate symmetric_rule := PyamgV.C14.sym_rule
restate symmetric_pattern_contained := PyamgV.C14.sym_sublist
restate symmetric_monotone := PyamgV.C14.sym_mono
restate symmetric_theta_zero := PyamgV.C14.sym_theta_zero
restate symmetric_diagonal_kept := PyamgV.C14.sym_diag
/-- the `d j` of the rule is the norm of the (summed) stored diagonal of row `j`, `0` if there is none -/
restate symmetric_uses_row_diagonals := PyamgV.C14.symmetric_row
restate rowwise_is_per_row := PyamgV.C14.mapRows_getElem?

/-- `scale_rows_by_largest_entry` on non-negative data: entries in [0,1]; a row with a normal
entry attains 1 -/
restate scaling_contract := PyamgV.C14.scaleRow_contract
/-- the common tail `np.abs` + scaling of every measure: pattern untouched, [0,1], maximum 1 -/
restate tail_contract := PyamgV.C14.tail_contract

/-- the returned matrix of `classical_strength_of_connection`: column `j` present in row `i` iff a
stored non-zero entry of that column is the diagonal or passes the threshold -/
restate classical_public_rule := PyamgV.C14.pubClassicalRow_col_iff
restate classical_public_pattern_contained := PyamgV.C14.pubClassicalRow_cols_sublist
restate classical_public_diagonal_kept := PyamgV.C14.pubClassicalRow_diag
/-- entries in (0,1] and every non-empty row attains 1 -/
restate classical_public_contract := PyamgV.C14.pubClassicalRow_contract

/-- monotone in θ and θ = 0 at the level of the returned matrix -/
restate classical_public_monotone := PyamgV.C14.pubClassicalRow_mono
restate classical_public_theta_zero := PyamgV.C14.pubClassicalRow_theta_zero
/-- the returned matrix of `symmetric_strength_of_connection`: column `j` stored in row `i` iff a stored
entry of that column is the diagonal or satisfies the symmetric rule -/
restate symmetric_public_rule := PyamgV.C14.pubSymmetricRow_col_iff
/-- complex input: the modulus used by the model is the exact one (`r ≥ 0`, `r² = re² + im²`) or the
request is rejected; it is non-negative, so the `abs` theorems apply to complex matrices -/
restate complex_modulus_exact := PyamgV.C14.cnorm?_spec
restate complex_modulus_nonneg := PyamgV.C14.cnorm_nonneg
/-- `norm` selects the kernel (`'min'` → signed kernel from 0, else abs kernel from `tiny`) -/
restate classical_norm_dispatch := PyamgV.C14.pubClassicalNorm_row
/-- the CSR arrays the driver prints and the check compares with `Sp, Sj, Sx`: rows concatenated in
order; `Sp = 0 :: running entry counts` -/
restate printed_arrays_are_the_rows := PyamgV.C14.rowsToOut_spec
restate printed_row_pointer := PyamgV.C14.ptrs_getElem?
/-- the array-level kernel models of `Model/KNum.lean` (output cursor, `Sp/Sj/Sx` pushes; ops `soc_abs`,
`soc_min`, `soc_sym`) produce exactly the CSR arrays of the row-level models above, for every CSR input -/
restate array_model_classical_abs := PyamgV.C14.knum_classicalAbs
restate array_model_classical_min := PyamgV.C14.knum_classicalMin
restate array_model_symmetric := PyamgV.C14.knum_symmetric
/-- row `i` of the public models is the row function applied to row `i` -/
restate classical_public_rowwise := PyamgV.C14.pubClassical_row
restate symmetric_public_rowwise := PyamgV.C14.pubSymmetric_row
/-- `amalgamate` (block=False on BSR input): nodal column `J` in nodal row `I` iff a scalar row of
block row `I` has a stored entry in block column `J`; the value is one -/
restate amalgamate_spec := PyamgV.C14.amalgamate_mem
/-- block-wise `'abs'` reduction of BSR input: the largest modulus of the block, zero only for an all-zero block -/
restate block_abs_bounds := PyamgV.C14.blockAbs_ge
restate block_abs_attained := PyamgV.C14.blockAbs_attained
restate block_abs_zero_iff := PyamgV.C14.blockAbs_eq_zero_iff
/-- distance filter (evolution / distance / algebraic / affinity measures): pattern unchanged,
stored diagonal set to one, and for ε > 1 the closest connection survives -/
restate distance_filter_pattern := PyamgV.C14.distFilterRow_cols
restate distance_filter_diagonal := PyamgV.C14.distFilterRow_diag
restate distance_filter_keeps_closest := PyamgV.C14.distFilterRow_keeps_min

/-- `algebraic_distance` / `affinity_distance` after the distance function (model `distCommonRow`, compared
with the real functions on every run): columns ⊆ input columns ∪ {diagonal}, the diagonal always present
(finding `soc-added-diagonal`), entries in [0,1], every row attains 1 — for finite non-negative distances -/
restate distance_common_contract := PyamgV.C14.distCommonRow_contract
/-- `distance_strength_of_connection` (model `distStrengthRow`), every `theta` incl. `inf`, relative or
absolute drop: the same contract -/
restate distance_strength_contract := PyamgV.C14.distStrengthRow_contract

/-- `energy_based_strength_of_connection` (CSR) after the energy measure (model `energyTailRow`, compared with
the real function on the observed measure): the same contract -/
restate energy_tail_contract := PyamgV.C14.energyTailRow_contract

/-- `evolution_strength_of_connection` (CSR, finite epsilon) after the strength values (model `evolTail`, compared
with the real function on the values observed at the drop-tolerance filter): columns ⊆ {diagonal} ∪ filter
pattern ∪ (with `symmetrize_measure`) its transpose; diagonal always present; [0,1]; every row attains 1 -/
restate evolution_tail_contract := PyamgV.C14.evolTail_contract

/-! ### extension E28: the whole of the energy and evolution measures (models `energyFull`, `evolFull` of
`Model/ExtC14Energy.lean`, `Model/ExtC14Evol.lean`; ops `ext_c14_energy`, `ext_c14_evol`; compared on every run with the
real functions -- the measure / `Atilde` / strength values observed inside the call and the returned matrix).  The only
input not recomputed is the spectral-radius estimate, recorded from the real call. -/

/-- `energy_based_strength_of_connection` (canonical CSR; weighted-Jacobi approximate inverse, energy inner products,
`val > -0.01` rule, drop rule with `theta`, `+ I`, row scaling), for EVERY square-root function, `ω`, `k`, `θ`: columns of
row `i` inside the stored columns of row `i` of `A` plus the diagonal, diagonal always stored, entries in `[0,1]`,
row maximum `1` -/
restate energy_full_contract := PyamgV.C14.energyFull_contract
/-- which entries survive: `j = i`, or `A` stores `(i,j)` and the energy measure `m_ij ≠ 0`, `m_ij ≥ θ·max(tiny, max_{k≠i} m_ik)` -/
restate energy_full_rule := PyamgV.C14.energyFull_rule
restate energy_full_rowwise := PyamgV.C14.energyFull_row
restate energy_full_shape := PyamgV.C14.energyFull_length
/-- the tail contract without the "no subnormal measure values" hypothesis of `energy_tail_contract` -/
restate energy_tail_contract_unconditional := PyamgV.C14.energyTailRow_contract_any
restate energy_tail_rule := PyamgV.C14.energyTailRow_rule
/-- the measure is non-negative -/
restate energy_measure_nonneg := PyamgV.C14.enVal_nonneg
/-- the dense arrays of the model hold the weighted-Jacobi recurrence `S_{t+1} = S_t + ω D⁻¹ (I - A S_t)`, `S_0 = 0` -/
restate energy_jacobi_recurrence := PyamgV.C14.enS_succ_entry
restate energy_jacobi_start := PyamgV.C14.enS_zero_entry
/-- the square root the driver plugs in: `s² ≤ q < (s + 1/(den·2^p))²` -/
restate energy_sqrt_approx := PyamgV.C14.sqrtApprox_spec

/-- `evolution_strength_of_connection` (canonical CSR, one candidate vector -- default `B = ones` --, `k = 2^(m+1)`,
finite `epsilon`, both `symmetrize_measure` settings): the contract for the returned matrix, for every recorded `1/ρ` -/
restate evolution_full_contract := PyamgV.C14.evolFull_contract
/-- `my_inner` (two-pointer loop of `incomplete_mat_mult_csr`) on sorted duplicate-free index lists is the sparse dot product -/
restate incomplete_mat_mult_inner := PyamgV.C14.mergeInner_spec
/-- … on the stored row `i` / column `j` of a dense matrix it is `Σ_k M(i,k)·M(k,j)`, the entry of the matrix square -/
restate incomplete_mat_mult_entry := PyamgV.C14.myInner_spec
restate incomplete_mat_mult_is_square := PyamgV.C14.myInner_eq_matSq
/-- `k = 2`: `Atilde` is `((I - c D⁻¹A)²)ᵀ` on the stored non-zero pattern of `A` -/
restate evolution_k2_atilde := PyamgV.C14.evAtilde_k2
/-- the `NullDim == 1` strength rule (weak ratio, obtuse angle, near-perfect connection) entry by entry -/
restate evolution_strength_rule := PyamgV.C14.evStrengthRow_rule
/-- strength values: non-negative, inside the stored pattern of `A` -/
restate evolution_measure_spec := PyamgV.C14.evMeasure_spec

/-! non-vacuity of the E28 models: a 3x3 M-matrix; at `θ = 1/2` the energy measure keeps `(1,2)` with value `82/163`, at
`θ = 3/4` it is dropped; the evolution measure (`k = 2`, `c = 1/2`, `B = ones`, `ε = 4`, symmetrised) -/
example : energyFull (sqrtApprox 4) (1/2) (-1/100) (1/1024) (1/2) 1 [[(0, 2), (1, -1)], [(0, -1), (1, 2), (2, -1)], [(1, -1), (2, 4)]]
    = [[(0, 1), (1, 1)], [(0, 1), (1, 1), (2, 82/163)], [(1, 1), (2, 1)]] := by decide +kernel
example : energyFull (sqrtApprox 4) (1/2) (-1/100) (1/1024) (3/4) 1 [[(0, 2), (1, -1)], [(0, -1), (1, 2), (2, -1)], [(1, -1), (2, 4)]]
    = [[(0, 1), (1, 1)], [(0, 1), (1, 1)], [(1, 1), (2, 1)]] := by decide +kernel
example : evAtilde (1/2) 0 [[(0, 2), (1, -1)], [(0, -1), (1, 2), (2, -1)], [(1, -1), (2, 4)]]
    = [[(0, 5/16), (1, 1/4)], [(0, 1/4), (1, 11/32), (2, 1/8)], [(1, 1/4), (2, 9/32)]] := by decide +kernel
example : evolFull 1000000 (1/1024) 4 (1/8192) (1/67108864) (1/8192) (1/2) 0 true #[1, 1, 1]
      [[(0, 2), (1, -1)], [(0, -1), (1, 2), (2, -1)], [(1, -1), (2, 4)]]
    = [[(0, 5/16), (1, 1)], [(0, 1/5), (1, 1/16), (2, 1)], [(1, 1), (2, 1/16)]] := by decide +kernel
example : myInner [(0, 2), (2, 3), (5, 1)] [(1, 7), (2, 1/2), (5, 4)] = 11/2 := by decide +kernel

/-! ### extension E44: the whole of `evolution_strength_of_connection` beyond the E28 model (model `Model/ExtC14YEvol.lean`,
ops `ext_c14y_*`, compared on every run with the real function in part G: `Atilde` handed to the kernel, the kernel
`evolution_strength_helper` on its observed input, the strength values at the filter, the returned matrix): several candidate
vectors (`NullDim > 1`: local constrained least-squares problems solved with the exact Moore-Penrose inverse `C19.Mat.pinv`),
every `k ≥ 1` (`k = 1`, `k` not a power of two, `k = 2^m`), `epsilon = inf`, both `proj_type`s, BSR input (mask of the same PDE,
`block_flag`, `tobsr` + `min_blocks`), real and complex scalars (one model over a scalar type read through `Scal`).  The only
input not recomputed is the spectral-radius estimate. -/

/-- the strength values of the `NullDim == 1` shortcut (any scalar type): inside the row of `Atilde`, non-negative -/
restate evolution_shortcut_values := PyamgV.C14Y.shortcutRow_spec
/-- the strength values of `evolution_strength_helper` (`NullDim > 1`), for EVERY candidate matrix `B`: inside the row of
`Atilde`, **non-negative**; a row with at most `NullDim` entries is all ones -/
restate evolution_helper_values := PyamgV.C14Y.helperRow_spec
restate evolution_helper_value_nonneg := PyamgV.C14Y.helperVal_nonneg
/-- the entry-by-entry rule of the helper: weak when `|zhat/z|² ≤ 1e-8` or the angle exceeds 90 degrees, else the approximation
error `|1 - zhat/z|` (`1e-4` when below `sqrt(eps)`); the diagonal is `1` -/
restate evolution_helper_rule := PyamgV.C14Y.helperVal_rule
/-- both paths, every `B`, `K`: one row per row of `Atilde`, inside its pattern, non-negative -/
restate evolution_measure_values := PyamgV.C14Y.measureOf_spec
/-- `Atilde` lives on the mask: stored non-zero entries of `A`, on BSR input of the same PDE; no mask iff `k = 1` on CSR -/
restate evolution_atilde_on_mask := PyamgV.C14Y.atildeRows_cols
restate evolution_mask_entries := PyamgV.C14Y.maskRow_mem
restate evolution_mask_applied_iff := PyamgV.C14Y.masked_iff
/-- the whole call: the strength values are non-negative and inside the mask -/
restate evolution_measure_full := PyamgV.C14Y.evMeasureG_spec
/-- the tail for finite and infinite `epsilon` (CSR) and the nodal tail of BSR input (`min_blocks`: a positive lower bound
of the block's non-zero entries) -/
restate evolution_tail_contract_any_epsilon := PyamgV.C14Y.tailO_contract
restate evolution_tail_contract_bsr := PyamgV.C14Y.tailBsr_contract
restate min_blocks_lower_bound := PyamgV.C14Y.minBlock_le
restate min_blocks_positive := PyamgV.C14Y.minBlock_pos
/-- **the contract of the returned matrix, CSR input, every `B` (any `NullDim`), every `k`, `epsilon` finite or `inf`, both
`proj_type`s, real or complex**: pattern ⊆ {diagonal} ∪ mask (∪ transposed mask with `symmetrize_measure`), diagonal stored,
entries in `[0,1]`, row maximum `1` -/
restate evolution_contract_all_candidates := PyamgV.C14Y.evolFullG_contract
/-- … in the common form when the mask is applied (`k ≠ 1`): pattern inside the stored pattern of `A` plus the diagonal -/
restate evolution_contract_in_pattern := PyamgV.C14Y.evolFullG_contract_in_pattern
/-- **the contract on BSR input** (nodal matrix; `block_flag` on or off) -/
restate evolution_contract_bsr := PyamgV.C14Y.evolFullBsr_contract
/-- **the model never fails**: the exact pseudo-inverse of every local problem (and of every diagonal block with
`block_flag`) exists over a field with a positive definite conjugation -- the rationals and the Gaussian rationals -/
restate evolution_helper_defined := PyamgV.C14Y.helperRow_isSome
restate evolution_model_total := PyamgV.C14Y.evolFullG_isSome
restate evolution_model_total_bsr := PyamgV.C14Y.evolFullBsr_isSome
restate evolution_model_total_real := PyamgV.C14Y.evolFull_real_defined
restate evolution_model_total_complex := PyamgV.C14Y.evolFull_complex_defined
/-- the moduli of the two scalar readings the driver runs are non-negative (hypothesis `hmd` of the contracts) -/
restate evolution_modulus_real := PyamgV.C14Y.scalQ_md_nonneg
restate evolution_modulus_complex := PyamgV.C14Y.scalC_md_nonneg
/-- `k = 1` on CSR input: `Atilde` is the one-step matrix itself and an off-diagonal `(i, j)` comes from a stored non-zero
`(j, i)` of `A`: the pattern of `A^T` (finding `evolution-k1-transposed-pattern`) -/
restate evolution_k1_transposed_pattern := PyamgV.C14Y.oneStep_pattern
restate evolution_k1_no_power := PyamgV.C14Y.powLit_one
/-- the local solve of the helper is `X · RHS` with `X` the unique Moore-Penrose inverse of the local matrix -/
restate evolution_helper_solve_is_pinv := PyamgV.C14Y.solveOf_lhs_spec
/-- time stepping: in every branch (`k = 1`, `k` not a power of two, `k = 2^m`) the dense matrix behind `Atilde` is the `k`-th
power of the one-step matrix `(I - (1/ρ) D⁻¹A)ᵀ` -/
restate evolution_time_stepping_power := PyamgV.C14Y.powLit_spec
restate evolution_one_step_shaped := PyamgV.C14Y.oneStep_shaped

/-! non-vacuity of the E44 model: the 3x3 M-matrix of the E28 examples with two candidates `B = [1, x]`, `k = 3` (not a power
of two), `epsilon = inf`: row 1 has three entries (more than `NullDim`), the helper gives `23/45` to both neighbours; one
row of the helper alone; `k = 1`, `epsilon = 2`, symmetrised; a 6x6 BSR matrix with 2x2 blocks (nodal 3x3 result, a
non-trivial `min_blocks` value); complex input with a complex candidate -/
example : evMeasureG scalQ ⟨1000000, 1/1024, none, 1/8192, 1/67108864, 1/67108864, 1/8192, 1/4194304, 1/2, 3, false, false, false, 1⟩
      #[#[1, 0], #[1, 1], #[1, 3]] 2 [[(0, 2), (1, -1)], [(0, -1), (1, 2), (2, -1)], [(1, -1), (2, 4)]]
    = some [[(0, 1), (1, 1)], [(0, 23/45), (1, 1), (2, 23/45)], [(1, 1), (2, 1)]] := by decide +kernel
example : evolFullG scalQ ⟨1000000, 1/1024, none, 1/8192, 1/67108864, 1/67108864, 1/8192, 1/4194304, 1/2, 3, false, false, false, 1⟩
      #[#[1, 0], #[1, 1], #[1, 3]] 2 [[(0, 2), (1, -1)], [(0, -1), (1, 2), (2, -1)], [(1, -1), (2, 4)]]
    = some [[(0, 1), (1, 1)], [(0, 1), (1, 23/45), (2, 1)], [(1, 1), (2, 1)]] := by decide +kernel
example : helperRow scalQ ⟨1000000, 1/1024, none, 1/8192, 1/67108864, 1/67108864, 1/8192, 1/4194304, 1/2, 3, false, false, false, 1⟩
      (fun _ => 1) #[#[1, 0], #[1, 1], #[1, 3]] 2 1 [(0, 1/4), (1, 1/2), (2, 1/8)]
    = some [(0, 7/5), (1, 1), (2, 7/5)] := by decide +kernel
example : evolFullG scalQ ⟨1000000, 1/1024, some 2, 1/8192, 1/67108864, 1/67108864, 1/8192, 1/4194304, 1/2, 1, true, false, false, 1⟩
      #[#[1, 0], #[1, 1], #[1, 3]] 2 [[(0, 2), (1, -1)], [(0, -1), (1, 2), (2, -1)], [(1, -1), (2, 4)]]
    = some [[(0, 1), (1, 5/6)], [(0, 5/6), (1, 1), (2, 5/6)], [(1, 5/6), (2, 1)]] := by decide +kernel
example : evolFullBsr scalQ ⟨1000000, 1/1024, none, 1/8192, 1/67108864, 1/67108864, 1/8192, 1/4194304, 1/2, 2, false, false, false, 2⟩
      #[#[1, 0], #[1, 1], #[1, 2], #[1, 4], #[1, 5], #[1, 7]] 2
      ⟨6, 6, 2, 2, #[0, 2, 5, 7], #[0, 1, 0, 1, 2, 1, 2],
        #[4, -1, -1, 4,  -2, 0, -1, -1,  -2, -1, 0, -1,  8, 2, 2, 8,  -1, 0, 0, -3,  -1, 0, 0, -3,  5, 1, 1, 6]⟩
    = some [[(0, 1), (1, 1)], [(0, 1), (1, 63/130), (2, 56/65)], [(1, 1), (2, 1)]] := by decide +kernel
example : evolFullBsr scalQ ⟨1000000, 1/1024, none, 1/8192, 1/67108864, 1/67108864, 1/8192, 1/4194304, 1/2, 1, false, false, false, 2⟩
      #[#[1, 0], #[1, 1], #[1, 2], #[1, 4], #[1, 5], #[1, 7]] 1
      ⟨6, 6, 2, 2, #[0, 2, 5, 7], #[0, 1, 0, 1, 2, 1, 2],
        #[4, -1, -1, 4,  -2, 0, -1, -1,  -2, -1, 0, -1,  8, 2, 2, 8,  -1, 0, 0, -3,  -1, 0, 0, -3,  5, 1, 1, 6]⟩
    = some [[(0, 1), (1, 1/3)], [(0, 1), (1, 1), (2, 1)], [(1, 3/5), (2, 1)]] := by decide +kernel
example : evolFullG (scalC (sqrtApprox 8)) ⟨1000000, 1/1024, none, 1/8192, 1/67108864, 1/67108864, 1/8192, 1/4194304, 1/2, 2, false, false, false, 1⟩
      #[#[⟨1, 0⟩, ⟨0, 1⟩], #[⟨1, 0⟩, ⟨1, 0⟩], #[⟨1, 0⟩, ⟨2, -1⟩]] 2
      [[(0, ⟨2, 0⟩), (1, ⟨0, -1⟩)], [(0, ⟨0, 1⟩), (1, ⟨2, 0⟩), (2, ⟨-1, 0⟩)], [(1, ⟨-1, 0⟩), (2, ⟨4, 0⟩)]]
    = some [[(0, 1), (1, 1)], [(0, 8192/10085), (1, 1), (2, 4096/10085)], [(1, 1), (2, 1)]] := by decide +kernel
example : (0 : Rat) < 1/1024 ∧ (1/1024 : Rat) ≤ 1 ∧ (1 : Rat) ≤ 1000000 ∧ (0 : Rat) ≤ 1/8192 := by decide +kernel

/-! non-vacuity: row 0 of `[[4,-1,-2],[…]]` at θ = 1/2 keeps the diagonal and the tie-free strong entry;
an exact tie (`|-1| = 1/2 · |-2|`) is kept; the public row is `[1, 1/4, 1/2]` -/
example : socRow N.absQ (1/1024) (1/2) 0 [(0, 4), (1, -1), (2, -2)] = [(0, 4), (1, -1), (2, -2)] := by decide +kernel
example : socRow N.absQ (1/1024) (3/4) 0 [(0, 4), (1, -1), (2, -2)] = [(0, 4), (2, -2)] := by decide +kernel
example : pubClassicalRow N.absQ N.absQ (1/1024) (1/1024) (1/2) 0 [(0, 4), (1, -1), (2, -2)]
    = [(0, 1), (1, 1/4), (2, 1/2)] := by decide +kernel
example : (0 : Rat) < 1/1024 ∧ ∀ cv ∈ [((0 : Nat), (4 : Rat)), (1, -1), (2, -2)],
    N.absQ cv.2 = 0 ∨ (1/1024 : Rat) ≤ N.absQ cv.2 := by decide +kernel
example : symRow (fun v : Rat => v * v) (1/2) (fun j => [4, 4, 1].getD j 0) 0 [(0, 4), (1, -2), (2, -1/2)]
    = [(0, 4), (1, -2)] := by decide +kernel

example : distCommonRow (1000000) (1/1024) 2 0 [(0, 0), (1, 1/2), (2, 2)] = [(0, 1/2), (1, 1)] := by decide +kernel
example : distStrengthRow (1000000) (1/1024) (some 2) true 1 [(0, 1), (1, 1/1000000), (2, 3)]
    = [(0, 1), (1, 1/2)] := by decide +kernel

example : evolTail 1000000 (1/1024) 2 true [[(0, 5), (1, 1/2)], [(1, 7), (2, 1)], [(0, 3), (2, 9)]]
    = [[(0, 1/4), (1, 1), (2, 1/6)], [(0, 1), (1, 1/4), (2, 1/2)], [(0, 1/3), (1, 1), (2, 1/2)]] := by decide +kernel

/-! ### extension E40: BSR input and complex input (models of `Model/ExtC14XBlock.lean`, ops `ext_c14x_*`, compared on every
run with the real functions: complex CSR data with irrational moduli, real and complex BSR data on the block path, the
`block=False` path from the BSR arrays through the model of `A.tocsr()`, the symmetric measure with irrational block norms,
the energy measure on complex CSR and on real / complex BSR input).  Scalars are read through a modulus; the theorems use
only the axioms `IsModulus` (non-negative, zero exactly at zero) resp. `IsMulModulus` (multiplicative as well). -/

/-- instances of the modulus axioms: `|·|` on the rationals, the squared modulus on the Gaussian rationals (both
multiplicative), and the modulus `sq (re² + im²)` the driver uses, for every admissible square-root function -/
restate modulus_abs := PyamgV.C14X.absQ_isMulModulus
restate modulus_complex_normsq := PyamgV.C14X.normSq_isMulModulus
restate modulus_complex := PyamgV.C14X.cmodS_isModulus
restate modulus_complex_squares := PyamgV.C14X.cmodS_sq_exact
/-- the square root the driver plugs in (`sqrtApprox p`) is admissible: non-negative, positive on positives, `0` at `0` -/
restate sqrt_admissible := PyamgV.C14X.sqrtApprox_sqrtLike
/-- classical measure, CSR, any scalar type with a modulus: pattern ⊆ pattern of `A`, entry-wise rule, non-zero diagonal
kept, entries in `(0,1]`, every non-empty row attains `1` -/
restate classical_contract_modulus := PyamgV.C14X.modClassical_contract
/-- symmetric measure, CSR, any scalar type with a modulus: the rule `nsq a_ij ≥ θ²·|a_ii|·|a_jj|`, stored diagonal kept,
entries in `[0,1]`, row maximum `1` -/
restate symmetric_contract_modulus := PyamgV.C14X.modSymmetric_contract
/-- the symmetric rule does not change under `A ↦ D A D` (multiplicativity of the modulus) -/
restate symmetric_rule_scaling_invariant := PyamgV.C14X.sym_rule_scaling_invariant
/-- the complex models the driver runs (`cclassical`, `csymmetric`: complex CSR data, any moduli) -/
restate complex_classical_contract := PyamgV.C14X.cclassical_contract
restate complex_symmetric_contract := PyamgV.C14X.csymmetric_contract

/-- block-wise reductions of BSR input: `'abs'` is the largest modulus of the block (bounds, attained, zero iff the block
is zero), `'fro'` the sum of the squared moduli (zero iff the block is zero), `'min'` the smallest entry -/
restate block_abs_bounds_modulus := PyamgV.C14X.blockAbsG_ge
restate block_abs_attained_modulus := PyamgV.C14X.blockAbsG_attained
restate block_abs_zero_iff_modulus := PyamgV.C14X.blockAbsG_eq_zero_iff
restate block_fro_is_sum := PyamgV.C14X.blockFroG_eq_sum
restate block_fro_zero_iff := PyamgV.C14X.blockFroG_eq_zero_iff
restate block_min_bounds := PyamgV.C14X.blockMinG_le
restate block_min_attained := PyamgV.C14X.blockMinG_attained
/-- the entries of a stored block; the nodal matrix has one entry per stored block -/
restate block_entries := PyamgV.C14X.mem_blkEntries
restate nodal_row_entries := PyamgV.C14X.mem_redRow
/-- the absolute `1e-16` drop leaves `0` or a value of magnitude `≥ drop` -/
restate block_drop_normal := PyamgV.C14X.dropSmall_normal
/-- `classical_strength_of_connection(A_bsr, block=True)`: rejected inputs are an unknown norm and `'min'` on complex data -/
restate classical_block_rejects := PyamgV.C14X.classicalBlock_none_iff
restate classical_block_norm_dispatch := PyamgV.C14X.blockRed_cases
/-- **nodal entry `(I,J)` is kept iff the block-norm rule holds** -/
restate classical_block_rule := PyamgV.C14X.classicalBlock_rule
/-- **contract of the block result**: `N` rows, pattern ⊆ block pattern, `(0,1]`, non-empty rows attain `1`, diagonal kept -/
restate classical_block_contract := PyamgV.C14X.classicalBlock_contract

/-- `A.tocsr()` of a BSR matrix (`Spmm.bsrToCsr`): its rows, its stored entries, and its dense meaning -/
restate bsr_tocsr_row := PyamgV.C14X.scalarRow_eq
restate bsr_tocsr_entries := PyamgV.C14X.mem_scalarRow
restate bsr_tocsr_meaning := PyamgV.Spmm.val_bsrToCsr
/-- `block=False` on BSR input: nodal `(I,J)` present (value one) iff the scalar strength matrix of `A.tocsr()` stores
some `(i,j)` with `i` in block row `I`, `j` in block column `J` -/
restate classical_noblock_rule := PyamgV.C14X.classicalNoBlock_rule
restate classical_noblock_rejects := PyamgV.C14X.classicalNoBlock_none_iff

/-- symmetric measure on BSR input: rule on the Frobenius-type block values, contract; `θ = 0`: ones on the block pattern;
for canonical BSR the `diags` value is the value of the diagonal block -/
restate symmetric_bsr_rule := PyamgV.C14X.symmetricBsr_rule
restate symmetric_bsr_theta_zero := PyamgV.C14X.symmetricBsr_theta_zero
restate symmetric_bsr_diagonal_value := PyamgV.C14X.symD_unique

/-- energy measure on complex CSR input (model `energyFullC`): contract and drop rule; the measure is non-negative; the
complex square root of the model is the principal square root when the real square root is exact -/
restate energy_complex_contract := PyamgV.C14X.energyFullC_contract
restate energy_complex_rule := PyamgV.C14X.energyFullC_rule
restate energy_complex_rowwise := PyamgV.C14X.energyFullC_row
restate energy_complex_measure_nonneg := PyamgV.C14X.cEnVal_nonneg
restate complex_sqrt_principal := PyamgV.C14X.csqrtS_spec
/-- energy measure on BSR input: nodal rows of ones, nodal diagonal always stored, nodal `(I,J)` present iff a scalar row
of block row `I` keeps a column of block column `J`; pattern inside the block pattern of `A` plus the diagonal -/
restate energy_bsr_tail_contract := PyamgV.C14X.energyBsrTail_contract
restate energy_bsr_contract := PyamgV.C14X.energyFullBsr_contract
restate energy_bsr_complex_contract := PyamgV.C14X.energyFullBsrC_contract

/-! non-vacuity of the E40 models: a 4x4 matrix of two 2x2 block rows
`[[4,-1 | -2,0],[1,4 | 0,-1]], [[-3,0 | 8,2],[0,0 | 1,8]]`: block values `'abs'` `[[4,2],[3,8]]`, at `θ = 3/4` block `(0,1)`
(`2 ≥ 3/4·2`, a tie-free keep) and `(1,0)` are kept; `'fro'` gives `[[34,5],[9,133]]`; with `block=False` the amalgamated
pattern is full; the symmetric measure keeps `(0,1)` at `θ = 1/4` (`5 ≥ 1/16·√34·√133` with the approximate root);
a complex row with irrational moduli `|1+2i| = √5`, `|2+i| = √5` (an exact tie at `θ = 1`) -/
example : classicalBlock N.absQ (fun v : Rat => v * v) (fun v : Rat => v) true "abs" (1/1024) (1/1000000) (3/4)
      ⟨4, 4, 2, 2, #[0, 2, 4], #[0, 1, 0, 1], #[4, -1, 1, 4, -2, 0, 0, -1, -3, 0, 0, 0, 8, 2, 1, 8]⟩
    = some [[(0, 1), (1, 1/2)], [(0, 3/8), (1, 1)]] := by decide +kernel
example : classicalBlock N.absQ (fun v : Rat => v * v) (fun v : Rat => v) true "fro" (1/1024) (1/1000000) (1/2)
      ⟨4, 4, 2, 2, #[0, 2, 4], #[0, 1, 0, 1], #[4, -1, 1, 4, -2, 0, 0, -1, -3, 0, 0, 0, 8, 2, 1, 8]⟩
    = some [[(0, 1), (1, 5/34)], [(0, 9/133), (1, 1)]] := by decide +kernel
example : classicalBlock N.absQ (fun v : Rat => v * v) (fun v : Rat => v) true "min" (1/1024) (1/1000000) (1/2)
      ⟨4, 4, 2, 2, #[0, 2, 4], #[0, 1, 0, 1], #[4, -1, 1, 4, -2, 0, 0, -1, -3, 0, 0, 0, 8, 2, 1, 8]⟩
    = some [[(0, 1/2), (1, 1)], [(0, 1), (1, 1/3)]] := by decide +kernel
example : classicalBlock (cmodS (sqrtApprox 4)) CRat.normSq creal false "min" (1/1024) (1/1000000) (1/2)
      ⟨2, 2, 1, 1, #[0, 1, 2], #[0, 1], #[⟨1, 0⟩, ⟨1, 0⟩]⟩ = none := by decide +kernel
example : classicalNoBlock N.absQ (fun v : Rat => v) true "abs" (1/1024) (1/2)
      ⟨4, 4, 2, 2, #[0, 2, 4], #[0, 1, 0, 1], #[4, -1, 1, 4, -2, 0, 0, -1, -3, 0, 0, 0, 8, 2, 1, 8]⟩
    = some [[(0, 1), (1, 1)], [(0, 1), (1, 1)]] := by decide +kernel
example : scalarRows (⟨4, 4, 2, 2, #[0, 2, 4], #[0, 1, 0, 1], #[4, -1, 1, 4, -2, 0, 0, -1, -3, 0, 0, 0, 8, 2, 1, 8]⟩ : Spmm.Bsr Rat)
    = [[(0, 4), (1, -1), (2, -2), (3, 0)], [(0, 1), (1, 4), (2, 0), (3, -1)],
       [(0, -3), (1, 0), (2, 8), (3, 2)], [(0, 0), (1, 0), (2, 1), (3, 8)]] := by decide +kernel
example : (symmetricBsr (sqrtApprox 4) (fun v : Rat => v * v) (1/1024) (1/4)
      ⟨4, 4, 2, 2, #[0, 2, 4], #[0, 1, 0, 1], #[4, -1, 1, 4, -2, 0, 0, -1, -3, 0, 0, 0, 8, 2, 1, 8]⟩).map
        (fun rows => rows.map fun r => r.map Prod.fst) = some [[0, 1], [0, 1]] := by decide +kernel
example : (symmetricBsr (sqrtApprox 4) (fun v : Rat => v * v) (1/1024) 1
      ⟨4, 4, 2, 2, #[0, 2, 4], #[0, 1, 0, 1], #[4, -1, 1, 4, -2, 0, 0, -1, -3, 0, 0, 0, 8, 2, 1, 8]⟩).map
        (fun rows => rows.map fun r => r.map Prod.fst) = some [[0], [1]] := by decide +kernel
example : (cclassical (sqrtApprox 8) (1/1024) 1 [[(0, ⟨3, 0⟩), (1, ⟨1, 2⟩), (2, ⟨2, 1⟩), (3, ⟨1, 1⟩)]]).map
    (fun r => r.map Prod.fst) = [[0, 1, 2]] := by decide +kernel
example : csqrtS (sqrtApprox 4) ⟨-5, 12⟩ = ⟨2, 3⟩ ∧ csqrtS (sqrtApprox 4) ⟨-4, 0⟩ = ⟨0, 2⟩ := by decide +kernel
example : (energyFullC (sqrtApprox 16) (1/2) (-1/100) (1/1024) (1/4) 1
      [[(0, ⟨2, 0⟩), (1, ⟨0, -1⟩)], [(0, ⟨0, 1⟩), (1, ⟨2, 0⟩), (2, ⟨-1, 0⟩)], [(1, ⟨-1, 0⟩), (2, ⟨4, 0⟩)]]).map
    (fun r => r.map Prod.fst) = [[0, 1], [0, 1, 2], [1, 2]] := by decide +kernel
example : energyFullBsr (sqrtApprox 16) (1/2) (-1/100) (1/1024) (1/4) 1
      ⟨4, 4, 2, 2, #[0, 2, 4], #[0, 1, 0, 1], #[4, -1, -1, 4, -2, 0, 0, -1, -2, 0, 0, -1, 8, 2, 2, 8]⟩
    = [[(0, 1), (1, 1)], [(0, 1), (1, 1)]] := by decide +kernel

/-! ### extension E59: the Python part of `classical_strength_of_connection` as GENERATED from the working tree
(harness/py2lean3_aggstr.py, `Generated/PyLogic3_aggstr.lean`), numerical work abstracted as events; finite grid -/
/-- the generated function performs exactly the events of the specification `cExpected` (CSR vs BSR branch, block flag,
norm selection, clean-up, kernel call, assembly of S, amalgamation) on `cGrid` -/
restate py_strength_refines_spec := PyamgV.ExtPy3AggstrP.strength_refines_spec
/-- the 1e-16 clean-up is ONE `setitem` event, in the BSR / block branch only, on a fresh array produced by this run; the
CSR path performs no `setitem` at all -/
restate py_strength_cleanup_bsr_only := PyamgV.ExtPy3AggstrP.strength_cleanup_bsr_only
/-- no event writes the caller's matrix or its arrays -/
restate py_strength_no_argument_mutation := PyamgV.ExtPy3AggstrP.strength_no_argument_mutation
/-- an unknown norm raises `ValueError` on both paths -/
restate py_strength_unknown_norm := PyamgV.ExtPy3AggstrP.strength_unknown_norm
/-- `theta` outside [0, 1] raises `ValueError` before any array is touched -/
restate py_strength_theta_range := PyamgV.ExtPy3AggstrP.strength_theta_range

/-! non-vacuity (E59): the grid has 48 scenarios; the BSR / block / abs run writes the fresh array `#4` -/
example : ExtPy3AggstrP.cGrid.length = 48 := by decide +kernel
example : ExtPy3AggstrP.setitemTargets (ExtPy3AggstrP.cRun ⟨"bsr", 2, true, .abs⟩).2 = ["#4"] ∧
    ExtPy3AggstrP.setitemTargets (ExtPy3AggstrP.cRun ⟨"csr", 1, true, .abs⟩).2 = [] := by decide +kernel

end PyamgV.Props.C14
