import PyamgV.Props.Restate
import PyamgV.Proofs.ExtPyLevelize
import PyamgV.Proofs.Coarsen
import PyamgV.Proofs.C04Loop
import PyamgV.Proofs.C04Check
import PyamgV.Proofs.C04Limits
import PyamgV.Proofs.C04Compose
import PyamgV.Proofs.ExtC04Steps
import PyamgV.Proofs.ExtSpmmMat
import PyamgV.Proofs.ExtC04XCheck
import PyamgV.Proofs.ExtC04XSparse
import PyamgV.Proofs.ExtC04YAir
import PyamgV.Proofs.ExtSpmmHier

/-! # C04 — hierarchy structure: Galerkin coarse operators and coarsening limits

Models: `Coarsen.build` (Proofs/Coarsen.lean) is the `while len(levels) < max_levels and
size(levels[-1]) > max_coarse: extend` loop shared by the five constructors, with the step as a
parameter (`none` = the step bailed out: degenerate splitting, matrix filtered to a diagonal, `P` with
no fewer columns than rows).  The driver runs this very function (`C04.runTrace`, and `C04.ctorTrace`
= `levelize` on aggregate / strength / aggregate + `nodeSize` + `runTrace`) on the step outcomes
observed on a real constructor; the harness compares the number of levels, their sizes, the exit
reason and the number of step calls.  `C04.levelize` is what the `'predefined'` options do to the
limits (compared with `levelize_strength_or_aggregation`).  `C04.checkHier` is the Boolean checker
the driver applies to the levels a constructor returned; `check_hier_iff` proves it equivalent to the
specification `C04.HierOK` (shapes, non-empty levels, strict decrease, `A_c = R A P` entrywise up to
`tol·|R||A||P|`, `R = Pᵀ / Pᴴ`), and `loop_builds_hierarchy` shows that the model loop returns a
`HierOK` hierarchy whenever each step does its part.  What the theorems do not cover: that the real
steps (strength, splitting / aggregation, interpolation, smoothing, SciPy's sparse products) do
their part -- that is checked on every instance by the checker and the NumPy oracle. -/
namespace PyamgV.Props.C04
open PyamgV.C04

/-- the loop: never empty, at most `max_levels` levels, every level that was coarsened had more than
`max_coarse` unknowns, and it stopped because `max_levels` was reached, the last level is small
enough, or the step stalled -/
restate coarsen_spec := PyamgV.Coarsen.build_spec
/-- sizes strictly decrease provided every successful step returns strictly fewer unknowns -/
restate sizes_decrease := PyamgV.Coarsen.build_decreasing
/-- the finest level is the level the loop was started with (the user's matrix) -/
restate finest_is_input := PyamgV.C04.build_getLast
/-- whatever a successful step establishes between a level and its successor (consistent shapes,
`A_c = R A P`, `R = Pᴴ`) holds between all consecutive levels of the result -/
restate step_relation_everywhere := PyamgV.C04.build_linked
/-- any invariant of the level list that one guarded step preserves holds for the result -/
restate loop_invariant := PyamgV.C04.build_induct
/-- the loop the driver runs on observed step outcomes returns the prefix of the observed sizes whose
length satisfies the limits clause `LimitsSpec`, with the true exit reason and call count -/
restate run_trace_spec := PyamgV.C04.runTrace_spec
/-- the limits clause determines the number of levels: two level counts that both satisfy it are equal -/
restate limits_unique := PyamgV.C04.limits_unique
/-- so the level count of `runTrace` is the only one the property allows for these step outcomes -/
restate run_trace_unique := PyamgV.C04.runTrace_unique
/-- the Boolean hierarchy checker decides the specification `HierOK` -/
restate check_hier_iff := PyamgV.C04.checkHier_iff
/-- `Mat.mul`, used by the checker and the specification, is the dense matrix product -/
restate mat_mul_entry := PyamgV.C04.ent_mul
/-- the Galerkin clause of the specification with the outer product written as a sum -/
restate galerkin_clause_sum := PyamgV.C04.PairOK.galerkin_sum
/-- composition: if every successful step produces a level related to its parent as the property
demands, the loop (any limits, any fuel) returns a hierarchy satisfying `HierOK` -- the very
specification the checker decides on the real constructors' output -/
restate loop_builds_hierarchy := PyamgV.C04.build_hierOK
/-- options without `'predefined'` leave `max_levels`, `max_coarse` alone -/
restate limits_unchanged_without_predefined := PyamgV.C04.effLimits_plain
/-- a predefined aggregation list of `len` operators gives `max_levels = len + 1`, `max_coarse = 0` -/
restate limits_predefined := PyamgV.C04.effLimits_predef_aggregate
/-- a predefined strength list does the same when the aggregation is not predefined -/
restate limits_predefined_strength := PyamgV.C04.effLimits_predef_strength
/-- no IndexError: after `levelize` on aggregate, strength, aggregate both option lists cover every
level index the loop uses, provided at most one of the two options is predefined -/
restate levelized_lists_long_enough := PyamgV.C04.levelized3_long_enough
/-- the levelized option list is long enough for every level index the loop uses -/
restate levelize_index_safe := PyamgV.C04.levelize_index_safe

/-! ### the steps of the five constructors (extension E13): `Model/ExtC04Steps.lean` models the guards
of `_extend_hierarchy` (all-C / all-F splitting, matrix filtered to a diagonal, `P.shape[1] >=
P.shape[0]`); the driver runs them (`ext_c04_step`) and the loop built from them (`ext_c04_build` =
`Coarsen.build` with `ExtC04.extend`) on the numbers traced inside every real step. -/
/-- every proceeding step of every constructor returns strictly fewer rows -/
restate step_rows_decrease := PyamgV.ExtC04.step_rows_decrease
/-- ... and strictly fewer nodes (rows / blocksize, what the aggregation-type loops compare with
`max_coarse`), except possibly a smoothed-aggregation step with fewer candidates than the block size -/
restate step_nodes_decrease := PyamgV.ExtC04.step_nodes_decrease
/-- that exception is real: such a step can proceed and keep the number of nodes -/
restate sa_nodes_need_not_decrease := PyamgV.ExtC04.sa_nodes_need_not_decrease
/-- a proceeding ruge_stuben step has `0 < #C < n`, the coarse level has `#C` rows -/
restate rs_step_proceeds := PyamgV.ExtC04.stepRS_proceed
/-- a proceeding air step: matrix not diagonal, `0 < #C < #block rows`, `#C * blocksize` coarse rows -/
restate air_step_proceeds := PyamgV.ExtC04.stepAIR_proceed
/-- the classical steps never append an empty level -/
restate classical_step_nonempty := PyamgV.ExtC04.step_classical_nonempty
/-- `sizes_decrease` with its hypothesis discharged: the loop instantiated with the modelled steps
returns levels whose rows strictly decrease, whatever the numerical parts of the steps do -/
restate sizes_decrease_unconditional := PyamgV.ExtC04.build_rows_decrease
/-- the same in the measure the loop compares with `max_coarse` (candidates >= block size for sa) -/
restate node_sizes_decrease := PyamgV.ExtC04.build_nodes_decrease
/-- so the loop would end without `max_levels`: at most `rows + 1` levels, whatever the limits -/
restate levels_bounded_by_rows := PyamgV.ExtC04.build_length_le
/-- the measure that decreases may differ from the size the `while` condition looks at -/
restate sizes_decrease_in_measure := PyamgV.ExtC04.build_measure_decreasing

/-! ### the sparse algebra behind `A_c = R A P` (extension E27): `Model/ExtSpmm.lean` is an executable model
of what the constructors delegate to `scipy.sparse` -- `R @ A @ P` (`Spmm.mul`: `csr_matmat` with its dense
accumulator and linked list, duplicates summed, exact zeros dropped, output unsorted), `P.T.tocsr()`
(`Spmm.transpose`), `.conjugate()` (`Spmm.mapVals`, `Spmm.conjT`).  `Csr.val A i j` is the dense meaning
(the sum of the stored entries of row `i` with column index `j`); `denseOf m n f` the Mathlib matrix.
The driver runs these functions over the Gaussian rationals (`ext_spmm`, instances `mulC` ...), the
harness compares them with `scipy.sparse` on the level operators of the generated hierarchies: array by
array on a dyadic grid, and `A_c` of every level with the exact model product of the stored `R`, `A`, `P`. -/
/-- `val (mul A B) = val A * val B`: the product model computes the matrix product of the dense meanings -/
restate spmm_product := PyamgV.Spmm.mat_mul
/-- the same entry by entry (any `i`, `j`; rows beyond the shape are zero) -/
restate spmm_product_entry := PyamgV.Spmm.val_mul'
/-- the product of well-formed operands is a well-formed CSR matrix (so products chain) -/
restate spmm_product_wf := PyamgV.Spmm.mul_wf
/-- `P.T.tocsr()`: the transpose model transposes the dense meaning -/
restate spmm_transpose := PyamgV.Spmm.mat_transpose
/-- one definition: the array version of the transpose (`transposeArr` = `csr_tocsc` loop by loop: count per
column, exclusive cumulative sum, scatter with a moving pointer per column -- a stable counting sort) returns
row by row exactly the entries the functional model returns; the driver runs both against SciPy's arrays -/
restate spmm_transpose_arrays := PyamgV.Spmm.transposeArr_row
/-- ... hence it transposes the dense meaning too -/
restate spmm_transpose_arrays_meaning := PyamgV.Spmm.val_transposeArr
/-- `P.T.conjugate()`: conjugate transpose, for any additive `conj` fixing 0 -/
restate spmm_conj_transpose := PyamgV.Spmm.mat_conjT
/-- the Galerkin operator computed by the model, `(R @ A) @ P`, is the triple product `R A P` -/
restate spmm_galerkin := PyamgV.Spmm.mat_galerkin
/-- with `R = P.T.tocsr()` computed by the model: `A_c = Pᵀ A P` -/
restate spmm_galerkin_symmetric := PyamgV.Spmm.mat_galerkin_transpose
/-- the instances the driver executes (`ext_spmm galerkin / transpose / conjT`), entry form -/
restate spmm_driver_galerkin := PyamgV.Spmm.CRatInst.valC_galerkinC
restate spmm_driver_transpose := PyamgV.Spmm.CRatInst.valC_transposeC
restate spmm_driver_transpose_arrays := PyamgV.Spmm.CRatInst.transposeArrC_row
restate spmm_driver_conj_transpose := PyamgV.Spmm.CRatInst.valC_conjTC
/-- the dense array the driver prints holds the dense meaning row-major -/
restate spmm_driver_dense := PyamgV.Spmm.CRatInst.toDenseC_get
/-- tie to the checker: the dense reference product `R (A P)` that `chkGalerkin` / `PairOK.galerkin`
compare `A_c` with is the dense meaning of the sparse product `(R @ A) @ P` of the model -/
restate spmm_checker_product := PyamgV.Spmm.CRatInst.checker_product_eq_model

/-! ### hierarchies of any size, AIR with filtering (extension E50): `Model/ExtC04XModel.lean`.  `C04X.mulS` computes the
dense product over the non-zero entries of the left factor; the driver op `c04x_check` runs `C04X.checkHierS` = `checkHier`
with that product on hierarchies with up to 150 unknowns (and on the small ones next to `c04_check`), on
`adaptive_sa_solver` output and on `MultilevelSolver(levels)` built by hand without `R`.  `C04X.filterMat` applies the
kernel model of the C19 development (`C19.filterRowDiag` = `amg_core.filter_matrix_rows`) to every dense row;
`C04X.checkHierF` (`c04x_checkf`) is the checker for `air_solver(filter_operator=(lump, theta))`: the step on level 0 works with
the filtered copy `Af0 = filter(A0)` (observed inside the real step) and `A_1 = R_0 Af0 P_0`; a coarse level a step was attempted on
was filtered in place, so it is `filter(R A P)`; decisions within `slack` of the threshold are skipped and counted. -/
/-- the product over the non-zeros of the left factor is the dense product `Mat.mul` of the checker -/
restate fast_product_same := PyamgV.C04X.mulS_eq
/-- one definition: the checker the driver runs on hierarchies of any size is `checkHier` -/
restate check_hier_fast_same := PyamgV.C04X.checkHierS_eq
/-- ... hence it decides the specification `HierOK` -/
restate check_hier_fast_iff := PyamgV.C04X.checkHierS_iff
/-- the C19 kernel model of `filter_matrix_rows(diagonal=True)` on the dense rows computes the definition of the filter:
entries with `|m_ij| < theta |m_ii|` are dropped; with lumping the dropped off-diagonal entries are added to the diagonal -/
restate filter_dense_definition := PyamgV.C04X.filterMat_ent
/-- the kernel model on a STORED row (no duplicate columns; any order, missing / explicitly zero entries) has the dense
meaning of the definition of the filter ... -/
restate filter_stored_row_meaning := PyamgV.C04X.filterRowDiag_meaning
/-- ... so filtering the stored row (the real kernel) and filtering the dense row (`filterMat`, the checker) agree entry by entry -/
restate filter_stored_vs_dense := PyamgV.C04X.sparse_filter_meaning
/-- the checker for AIR hierarchies with filtering decides the specification `HierOKF` (stated with `Mat.mul`) -/
restate check_hier_filtered_iff := PyamgV.C04X.checkHierF_iff
/-- a chain without in-place filtered levels is a hierarchy in the sense of `HierOK` -/
restate filtered_spec_without_flags := PyamgV.C04X.levelsOKF_unflagged
/-- the clause of a filtered coarse level with the filter written out -/
restate filtered_galerkin_clause := PyamgV.C04X.pairOKF_filtered_def
/-- zero tolerance and no skipped decision: the matrix IS the filtered one, entry by entry -/
restate filtered_exact := PyamgV.C04X.filtOK_exact

/-! ### THE COMPOSITION (extension E54): `Model/ExtC04YLoop.lean` puts the three models together -- the loop `Coarsen.build`
with the step guards of E13 (`ExtC04.step`), the sparse Galerkin product of E27 (`Spmm.galerkin`), and for
`air_solver(filter_operator=(lump, theta))` the row filter on the STORED rows (`C04Y.filterCsr` = the C19 kernel model +
`eliminate_zeros()`).  The numerical part of a step is a parameter `num`: ANY function from the level descriptor and the
matrix the step works with to the numbers the guard reads and a pair `P`, `R`; `NumOK sym num` asks only that, when the
guard lets the step proceed to `r` rows, `P` is a well-formed `n x r` and `R` a well-formed `r x n` matrix, `r > 0`, and `R`
relates to `P` as `sym` says.  `C04Y.hier` / `hierF` read `A_l, P_l, R_l` off the final state in the form the checkers take.
The driver runs the very loop (`c04y_build`) on the guard numbers, `P`, `R` observed on every real step: it must stop where
the real loop stopped, the proved checker must accept the model's hierarchy, and the model's level matrices must be the real
ones up to the accumulated rounding bound. -/
/-- for EVERY step function with well-formed `P`, `R`, all limits, any fuel, any well-formed square non-empty input in any
stored form: the hierarchy the loop builds satisfies `HierOK` with tolerance 0 (shapes chain, every level square and
non-empty, rows strictly decrease, `A_{l+1} = R_l A_l P_l` exactly, `R = Pᵀ / Pᴴ` when promised) -/
restate loop_builds_hierarchy_sparse := PyamgV.C04Y.loop_hierOK
/-- AIR with filtering: the hierarchy satisfies `HierOKF` with tolerance 0, nothing skipped: level 0 is worked on through
`filter(A0)`, `A_1 = R_0 filter(A0) P_0`, every coarse level a step was attempted on is stored as `filter(R A P)`, an
untouched last level as `R A P`; input without duplicate stored entries -/
restate air_loop_builds_filtered_hierarchy := PyamgV.C04Y.loop_hierOKF
/-- so the Boolean checkers the driver applies to the model's output answer `true` -/
restate loop_checker_accepts := PyamgV.C04Y.loop_check
restate air_loop_checker_accepts := PyamgV.C04Y.loop_checkF
/-- the limits clause for the same run: at most `max_levels` levels, every coarsened level larger than `max_coarse`,
stopped because of `max_levels`, `max_coarse` or a stall -/
restate loop_limits_sparse := PyamgV.C04Y.loop_limits
/-- the finest level of the run is the user's matrix -/
restate loop_finest_sparse := PyamgV.C04Y.loop_finest
/-- every appended level was licensed by the guard model of E13, has the next index and strictly fewer rows -/
restate loop_steps_guarded := PyamgV.C04Y.loop_guarded
/-- the loop invariant behind both theorems, for any `work` (identity / filter) -/
restate loop_invariant_sparse := PyamgV.C04Y.build_inv
/-- a linked pair of levels satisfies the pair clause of the specification exactly -/
restate linked_pair_galerkin := PyamgV.C04Y.pairOK_of_link
/-- the filter on the stored CSR rows (the real kernel + `eliminate_zeros`) and the filter on the dense matrix (the checker)
agree entry by entry when no row lists a column twice -/
restate stored_filter_meaning := PyamgV.C04Y.filterCsr_meaning
/-- ... and the rows of a sparse product never do (`csr_matmat` emits every touched column once) -/
restate product_rows_no_duplicates := PyamgV.C04Y.mul_nodupRows
/-- the filter keeps well-formedness and the stored columns -/
restate stored_filter_well_formed := PyamgV.C04Y.filterCsr_wf
/-- `NumOK` discharged for steps that compute `R = P.T.tocsr()` / `R = P.T.conjugate()`: a hypothesis on `P` only -/
restate step_hypothesis_transpose := PyamgV.C04Y.numOK_of_transpose
restate step_hypothesis_conj_transpose := PyamgV.C04Y.numOK_of_conjT

/-! non-vacuity -/
section spmm_examples
open PyamgV.Spmm
/-- `A = [[1, 2, 0], [0, 0, 3], [4, 0, 5]]`, `B = [[0, 1, -2], [0, 0, 1], [7, 0, 0]]` in CSR -/
def spA : Csr CRat := ⟨3, 3, #[0, 2, 3, 5], #[0, 1, 2, 0, 2], #[⟨1,0⟩, ⟨2,0⟩, ⟨3,0⟩, ⟨4,0⟩, ⟨5,0⟩]⟩
def spB : Csr CRat := ⟨3, 3, #[0, 2, 3, 4], #[1, 2, 2, 0], #[⟨1,0⟩, ⟨-2,0⟩, ⟨1,0⟩, ⟨7,0⟩]⟩
example : spA.wf = true ∧ spB.wf = true := by decide
-- what SciPy returns for `A @ B`: the cancelled entry (0, 2) is dropped, row 2 is unsorted
example : (mulC spA spB).ap = #[0, 1, 2, 5] ∧ (mulC spA spB).aj = #[1, 0, 0, 2, 1] := by decide +kernel
example : (mulC spA spB).ax = #[⟨1,0⟩, ⟨21,0⟩, ⟨35,0⟩, ⟨-8,0⟩, ⟨4,0⟩] := by decide +kernel
example : (transposeC spA).aj = #[0, 2, 0, 1, 2] ∧ (transposeArrC spA).aj = #[0, 2, 0, 1, 2] := by decide +kernel
-- the hierarchy of the checker examples, stored sparse: `R @ A @ P = [2]`
def spA2 : Csr CRat := ⟨2, 2, #[0, 2, 4], #[0, 1, 0, 1], #[⟨2,0⟩, ⟨-1,0⟩, ⟨-1,0⟩, ⟨2,0⟩]⟩
def spP2 : Csr CRat := ⟨2, 1, #[0, 1, 2], #[0, 0], #[⟨1,0⟩, ⟨1,0⟩]⟩
example : toDenseC (galerkinC (transposeC spP2) spA2 spP2) = #[⟨2,0⟩] := by decide +kernel
end spmm_examples
-- sizes 100, 20, 3, 1 observed; max_levels 10, max_coarse 2: stops at size 1 because it is small enough
example : runTrace 10 2 #[100, 20, 3, 1] = some ([100, 20, 3, 1], .smallEnough, 3) := by decide
-- max_levels 2 cuts the same outcomes after two levels
example : runTrace 2 2 #[100, 20, 3, 1] = some ([100, 20], .maxLevels, 1) := by decide
-- the step stalled on the level of size 7 (> max_coarse): one more call than levels - 1
example : runTrace 10 2 #[100, 7] = some ([100, 7], .stalled, 2) := by decide
-- hypotheses of `limits_unique` are satisfiable
example : LimitsSpec 10 2 (szAt #[100, 20, 3, 1]) 4 4 := by
  refine ⟨by decide, by decide, by decide, ?_, Or.inr (Or.inl (by decide))⟩
  intro k hk
  have : k = 0 ∨ k = 1 ∨ k = 2 := by omega
  rcases this with rfl | rfl | rfl <;> decide
-- the checker accepts a true two-level Galerkin hierarchy and rejects a wrong coarse matrix
example : checkHier .symm 0 [⟨exA, exP, exR⟩, ⟨⟨1, 1, #[⟨2, 0⟩]⟩, exE, exE⟩] = true := by decide +kernel
example : checkHier .symm 0 [⟨exA, exP, exR⟩, ⟨⟨1, 1, #[⟨3, 0⟩]⟩, exE, exE⟩] = false := by decide +kernel

-- the modelled steps: a splitting with 2 of 5 C-points proceeds to 2 rows, all-F and all-C stall
example : PyamgV.ExtC04.step ⟨0, 5, 1⟩ (.rs [true, false, true, false, false]) = .proceed 2 1 := by decide
example : PyamgV.ExtC04.step ⟨0, 3, 1⟩ (.rs [false, false, false]) = .stall := by decide
example : PyamgV.ExtC04.step ⟨1, 6, 2⟩ (.air 12 [true, true, true]) = .stall := by decide
example : PyamgV.ExtC04.step ⟨0, 6, 2⟩ (.air 6 []) = .stall := by decide
example : PyamgV.ExtC04.step ⟨0, 12, 2⟩ (.sa 2 3) = .proceed 6 3 := by decide
example : PyamgV.ExtC04.step ⟨0, 12, 2⟩ (.rn 6) = .stall := by decide
example : PyamgV.ExtC04.step ⟨0, 12, 1⟩ (.pw 12 7) = .proceed 7 1 := by decide
-- the loop on a table of observed step inputs: 12 -> 6 -> 2 rows, then small enough (coarsest first)
example : PyamgV.ExtC04.buildC true (PyamgV.ExtC04.tableOracle #[.sa 6 1, .sa 2 1, .sa 1 1]) 10 2 10 ⟨0, 12, 1⟩
    = [⟨2, 2, 1⟩, ⟨1, 6, 1⟩, ⟨0, 12, 1⟩] := by decide

-- extension E50.  theta = 1/2, no lumping: `A0 = tridiag(-1, 4, -1)` is filtered to `4 I`; `R0 (4 I) P0 = [[8, 0], [1, 4]]`
-- is filtered in place to `[[8, 0], [0, 4]]` (flag), the last level `[12]` is the plain Galerkin product
section e50_examples
open PyamgV.C04X
def fA0 : Mat := ⟨3, 3, #[⟨4,0⟩, ⟨-1,0⟩, ⟨0,0⟩, ⟨-1,0⟩, ⟨4,0⟩, ⟨-1,0⟩, ⟨0,0⟩, ⟨-1,0⟩, ⟨4,0⟩]⟩
def fAf0 : Mat := ⟨3, 3, #[⟨4,0⟩, ⟨0,0⟩, ⟨0,0⟩, ⟨0,0⟩, ⟨4,0⟩, ⟨0,0⟩, ⟨0,0⟩, ⟨0,0⟩, ⟨4,0⟩]⟩
def fP0 : Mat := ⟨3, 2, #[⟨1,0⟩, ⟨0,0⟩, ⟨1,0⟩, ⟨0,0⟩, ⟨0,0⟩, ⟨1,0⟩]⟩
def fR0 : Mat := ⟨2, 3, #[⟨1,0⟩, ⟨1,0⟩, ⟨0,0⟩, ⟨0,0⟩, ⟨1/4,0⟩, ⟨1,0⟩]⟩
def fA1 : Mat := ⟨2, 2, #[⟨8,0⟩, ⟨0,0⟩, ⟨0,0⟩, ⟨4,0⟩]⟩
def fA1raw : Mat := ⟨2, 2, #[⟨8,0⟩, ⟨0,0⟩, ⟨1,0⟩, ⟨4,0⟩]⟩
def fA2 : Mat := ⟨1, 1, #[⟨12,0⟩]⟩
example : (filterMat (1/2) false fA0).data = fAf0.data := by decide +kernel
example : (mulS fR0 (mulS fAf0 fP0)).data = fA1raw.data ∧ (fR0.mul (fAf0.mul fP0)).data = fA1raw.data := by decide +kernel
-- lumping: the dropped entries go to the diagonal
example : (filterMat (1/2) true fA0).data = #[⟨3,0⟩, ⟨0,0⟩, ⟨0,0⟩, ⟨0,0⟩, ⟨2,0⟩, ⟨0,0⟩, ⟨0,0⟩, ⟨0,0⟩, ⟨3,0⟩] := by decide +kernel
example : checkHierF ⟨1/2, false, 0⟩ .none 0 fA0
    [(⟨fAf0, fP0, fR0⟩, false), (⟨fA1, exP, exR⟩, true), (⟨fA2, exE, exE⟩, false)] = true := by decide +kernel
-- the coarse level was NOT filtered although a step worked on it: rejected
example : checkHierF ⟨1/2, false, 0⟩ .none 0 fA0
    [(⟨fAf0, fP0, fR0⟩, false), (⟨fA1raw, exP, exR⟩, true), (⟨fA2, exE, exE⟩, false)] = false := by decide +kernel
-- the Galerkin product on level 0 was formed with the unfiltered matrix: rejected
example : checkHierF ⟨1/2, false, 0⟩ .none 0 fA0
    [(⟨fA0, fP0, fR0⟩, false), (⟨fA1, exP, exR⟩, true), (⟨fA2, exE, exE⟩, false)] = false := by decide +kernel
-- row 1 of `fA0` stored unsorted with an explicit zero: the kernel model on the stored row and `filterMat` agree (lumping: 4 - 1 - 1)
example : (List.range 3).map (PyamgV.C19.entry (PyamgV.C19.filterRowDiag CRat.normSq (1/2) true 1 [(2, ⟨-1,0⟩), (1, ⟨4,0⟩), (0, ⟨-1,0⟩)]))
    = (List.range 3).map ((filterMat (1/2) true fA0).ent 1) := by decide +kernel
-- the fast checker on the two-level example
example : checkHierS .symm 0 [⟨exA, exP, exR⟩, ⟨⟨1, 1, #[⟨2, 0⟩]⟩, exE, exE⟩] = true := by decide +kernel
end e50_examples

-- extension E54: non-vacuity.  `numPair` = aggregation of consecutive unknowns, `R = P.T.tocsr()`: it satisfies `NumOK`, and the
-- loop on `tridiag(-1, 2, -1)` of size 4 (stored with a split entry) builds 4 -> 2 -> 1 rows, accepted by the checker
section e54_examples
open PyamgV.C04Y PyamgV.Spmm PyamgV.ExtC04 PyamgV.C04X
def numPair (_ : Lv) (A : Csr CRat) : NumOut := ⟨.pw A.rows ((A.rows + 1) / 2), pairP A.rows, transpose (pairP A.rows)⟩
example : NumOK .symm numPair := by
  apply numOK_of_transpose numPair (fun _ _ => rfl)
  intro l A r b _ _ _ hs
  have h := stepPW_proceed l _ _ r b hs
  refine ⟨pairP_wf _, rfl, h.2.2.1.symm, ?_⟩
  have h1 : r = (A.rows + 1) / 2 := h.2.2.1
  have h2 : A.rows = l.rows := h.2.1
  have h3 := h.2.2.2.2
  omega
def lap4 : Csr CRat := ⟨4, 4, #[0, 3, 6, 9, 11], #[0, 1, 0, 0, 1, 2, 1, 2, 3, 2, 3],
  #[⟨1,0⟩, ⟨-1,0⟩, ⟨1,0⟩, ⟨-1,0⟩, ⟨2,0⟩, ⟨-1,0⟩, ⟨-1,0⟩, ⟨2,0⟩, ⟨-1,0⟩, ⟨-1,0⟩, ⟨2,0⟩]⟩
example : lap4.wf = true := by decide
example : (buildG id numPair true 10 0 10 lap4 1).map (·.lv.rows) = [1, 2, 4]
    ∧ checkHierS .symm 0 (hier (buildG id numPair true 10 0 10 lap4 1)) = true
    ∧ ((hier (buildG id numPair true 10 0 10 lap4 1)).map (·.A.data)).drop 1 = [#[⟨2,0⟩, ⟨-1,0⟩, ⟨-1,0⟩, ⟨2,0⟩], #[⟨2,0⟩]] := by
  decide +kernel
-- max_coarse = 2 stops the same run after two levels
example : (buildG id numPair true 10 2 10 lap4 1).map (·.lv.rows) = [2, 4] := by decide +kernel
-- AIR-type filtering, theta = 3/4 without lumping, on `[[4,-1,0,0],[-1,4,-2,0],[0,-2,4,-1],[0,0,-1,4]]` (no duplicates): the
-- couplings -1 and -2 fall below 3/4 * 4 and are dropped on level 0, the coarse level `diag(8, 8)` was not touched (flag 0)
def air4 : Csr CRat := ⟨4, 4, #[0, 2, 5, 8, 10], #[0, 1, 0, 1, 2, 1, 2, 3, 2, 3],
  #[⟨4,0⟩, ⟨-1,0⟩, ⟨-1,0⟩, ⟨4,0⟩, ⟨-2,0⟩, ⟨-2,0⟩, ⟨4,0⟩, ⟨-1,0⟩, ⟨-1,0⟩, ⟨4,0⟩]⟩
example : (filterCsr (3/4) false air4).aj = #[0, 1, 2, 3] := by decide +kernel
example : checkHierF ⟨3/4, false, 0⟩ .symm 0 (toMat air4)
      (hierF (filterCsr (3/4) false) false 2 0 (buildG (filterCsr (3/4) false) numPair false 2 0 2 air4 1)) = true
    ∧ (hierF (filterCsr (3/4) false) false 2 0 (buildG (filterCsr (3/4) false) numPair false 2 0 2 air4 1)).map (·.2) = [false, false]
    ∧ (hierF (filterCsr (3/4) false) false 2 0 (buildG (filterCsr (3/4) false) numPair false 2 0 2 air4 1)).map (·.1.A.data)
        = [#[⟨4,0⟩, ⟨0,0⟩, ⟨0,0⟩, ⟨0,0⟩, ⟨0,0⟩, ⟨4,0⟩, ⟨0,0⟩, ⟨0,0⟩, ⟨0,0⟩, ⟨0,0⟩, ⟨4,0⟩, ⟨0,0⟩, ⟨0,0⟩, ⟨0,0⟩, ⟨0,0⟩, ⟨4,0⟩],
           #[⟨8,0⟩, ⟨0,0⟩, ⟨0,0⟩, ⟨8,0⟩]] := by
  decide +kernel
end e54_examples

/-! ## E31 -- the option handling, translated from the source (`harness/py2lean.py`)

`PyamgV.Generated.PyLogic.*` are executable Lean definitions regenerated from the Python AST of the
working tree on every run (`levelize_strength_or_aggregation`, `levelize_smooth_or_improve_candidates`,
the `unpack_arg` helpers of all constructors); the driver runs them (`ext_py_call`) and the check compares
them with the real functions on generated option values, exception classes included.  The theorems
below are about those generated definitions; when the translator meets syntax outside its subset the
definition becomes `unsupported "..."` and they stop compiling. -/
section e31
open PyamgV.ExtPy PyamgV.Generated.PyLogic PyamgV.ExtPyLev

/-- every `unpack_arg(v)` helper: `(v[0], v[1])` for a tuple (`IndexError` for a short one), `(v, {})` otherwise -/
restate py_unpack_arg_spec := PyamgV.ExtPyLev.unpack_arg_spec
/-- the nine copies (aggregation, root-node, pairwise, adaptive, classical, AIR, coarse-grid solver,
relaxation-as-operator, smoothing) are one function -/
restate py_unpack_arg_all_equal := PyamgV.ExtPyLev.unpack_arg_all_equal
/-- `('predefined', {...})` forces `max_levels = 2`, `max_coarse = 0` whatever the limits were -/
restate py_levelize_tuple_predefined := PyamgV.ExtPyLev.lsa_tuple_predef
/-- a plain tuple / string / `None` is repeated `max_levels - 1` times, limits unchanged -/
restate py_levelize_tuple_plain := PyamgV.ExtPyLev.lsa_tuple_plain
restate py_levelize_str := PyamgV.ExtPyLev.lsa_str
restate py_levelize_none := PyamgV.ExtPyLev.lsa_none
/-- the bare string `'predefined'`, and values of any other type, raise `ValueError`; the empty tuple /
empty list / a list ending with `()` raise `IndexError` -/
restate py_levelize_str_predefined_raises := PyamgV.ExtPyLev.lsa_str_predef
restate py_levelize_invalid_raises := PyamgV.ExtPyLev.lsa_invalid
restate py_levelize_empty_tuple_raises := PyamgV.ExtPyLev.lsa_tuple_empty
restate py_levelize_empty_list_raises := PyamgV.ExtPyLev.lsa_list_empty
restate py_levelize_list_last_empty_raises := PyamgV.ExtPyLev.lsa_list_last_empty
/-- a list ending with a predefined entry: `max_levels = len + 1`, `max_coarse = 0`, the list as it is -/
restate py_levelize_list_predefined := PyamgV.ExtPyLev.lsa_list_predef
/-- any other list: the user's entries, the last one repeated up to `max_levels - 1` entries -/
restate py_levelize_list_plain := PyamgV.ExtPyLev.lsa_list_plain
/-- summary: whenever it returns, the triple `(max_levels', max_coarse', list)` has a list covering every
level index the loop uses, entries drawn from the user's value / list with the last one repeated, and
limits changed only by `'predefined'` entries, as documented -/
restate py_levelize_returns := PyamgV.ExtPyLev.lsa_returns
/-- LINK: the generated function computes the numbers of the hand-written `C04.levelize` (the model the
constructor model `C04.ctorRun` is built from) -/
restate py_levelize_refines_model := PyamgV.ExtPyLev.lsa_refines_model
/-- `levelize_smooth_or_improve_candidates`: string / tuple / `None` repeated `max_levels` times; a list (or
the default tuple of tuples) continued by its last entry -/
restate py_levelize_smooth_str := PyamgV.ExtPyLev.lsi_str
restate py_levelize_smooth_none := PyamgV.ExtPyLev.lsi_none
restate py_levelize_smooth_tuple := PyamgV.ExtPyLev.lsi_tuple_plain
restate py_levelize_smooth_list := PyamgV.ExtPyLev.lsi_list
restate py_levelize_smooth_list_empty := PyamgV.ExtPyLev.lsi_list_empty
restate py_levelize_smooth_tuple_of_tuples := PyamgV.ExtPyLev.lsi_tuple_of_tuples
restate py_levelize_smooth_returns := PyamgV.ExtPyLev.lsi_returns

-- non-vacuity: the docstring examples of utils.py, evaluated by the kernel on the generated definitions
example : utils_levelize_strength_or_aggregation (.list [.str "evolution", .str "classical"]) (.int 4) (.int 10)
    = .ok (.tuple [.int 4, .int 10, .list [.str "evolution", .str "classical", .str "classical"]]) := by rfl
example : utils_levelize_smooth_or_improve_candidates (.list [.str "gauss_seidel", .none]) (.int 4)
    = .ok (.list [.str "gauss_seidel", .none, .none, .none]) := by rfl
example : utils_levelize_strength_or_aggregation
    (.list [.str "symmetric", .tuple [.str "predefined", .dict [("C", .obj "CSR")]]]) (.int 10) (.int 500)
    = .ok (.tuple [.int 3, .int 0, .list [.str "symmetric", .tuple [.str "predefined", .dict [("C", .obj "CSR")]]]]) := by rfl
example : kindOf (.list [.str "symmetric", .tuple [.str "predefined", .dict [("C", .obj "CSR")]]]) = some (.listPredef 2) := by rfl
end e31

end PyamgV.Props.C04
