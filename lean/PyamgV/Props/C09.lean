import PyamgV.Props.Restate
import PyamgV.Model.Facts
import PyamgV.Generated.Facts
import PyamgV.Proofs.GsArrayRefine
import PyamgV.Proofs.Sor
import PyamgV.Proofs.SorAdjoint
import PyamgV.Proofs.Jacobi
import PyamgV.Proofs.Kaczmarz
import PyamgV.Proofs.GsAdjoint
import PyamgV.Proofs.ExtRelaxRefine
import PyamgV.Proofs.ExtC09Block
import PyamgV.Proofs.ExtC09Kaczmarz
import PyamgV.Proofs.ExtC09XPublic
import PyamgV.Proofs.ExtC09XToCsc

/-! # C09 — relaxation sweeps compute exactly their defining splitting update

Models: `PyamgV.K.*` (`Model/KRelax.lean`) — the literal inner loops of `relaxation.h` and the
Python drivers of `relaxation.py`; these are the definitions the correspondence run executes on
`Rat` / Gaussian rationals and compares **bit-exactly** with the real kernels.  The theorems below
are about those definitions (through `gaussSeidel_refines`, which reads the array model as a
function) for every CSR pattern (unsorted, duplicated, missing or zero diagonal), every `x`, `b`,
every sweep order, over any ordered field. -/
namespace PyamgV.Props.C09
open PyamgV

/-- one Gauss–Seidel row update (last stored diagonal wins) leaves a zero residual in that row -/
restate gs_row_residual_zero := PyamgV.gsRow_residual_zero
/-- the executable array kernel, read as a function, *is* the row-by-row sweep `gsSweepFn`,
for every list of rows inside the vector (forward, backward, strided, indexed, repeated) -/
restate gs_kernel_is_sweep := PyamgV.gaussSeidel_refines
/-- SOR row = `x + ω (GS row − x)`; rows with zero diagonal untouched (inside `sorRowFn`) -/
restate sor_row_eq := PyamgV.sorRow_eq
/-- weighted Jacobi row = `temp_i + ω (b_i − (A temp)_i)/d`, other entries unchanged -/
restate jacobi_row_formula := PyamgV.jacRow_formula
restate jacobi_zero_diag_untouched := PyamgV.jacRow_zero_diag
/-- Kaczmarz (NE) row step: the error is projected along the row, damped by ω -/
restate ne_row_error := PyamgV.ne_row_error
/-- a sweep in any order is a linear iteration `x + M(b − Ax)` … -/
restate gs_sweep_isLinIter := PyamgV.gsSweep_isLinIter
restate sor_sweep_isLinIter := PyamgV.sorSweep_isLinIter

/-- … hence the exact solution is a fixed point of every such sweep -/
theorem linIter_fixed_point {K V : Type*} [Field K] [AddCommGroup V] [Module K V]
    (A M : V →ₗ[K] V) (f : V → V → V) (h : IsLinIter A f M) (xs b : V) (hb : A xs = b) :
    f xs b = xs := by
  rw [h xs b, hb]; simp

section drivers
variable {α : Type} [Add α] [Sub α] [Mul α] [Div α] [OfNat α 0] [OfNat α 1] [DecidableEq α]

/-- `sweep='symmetric'` is, per iteration, a forward pass followed by a backward pass, both with
the caller's `omega` (the statement that defect #2 — `omega` dropped in the recursive calls —
violated on the pinned tree) -/
theorem symmetric_is_forward_then_backward (ω : α) (A : K.Csr α) (b x : Array α) :
    K.pyGaussSeidel ω A b 1 .symmetric x =
      K.pyGaussSeidel ω A b 1 .backward (K.pyGaussSeidel ω A b 1 .forward x) := rfl

theorem iter_add {β : Type} (f : β → β) (j k : Nat) (x : β) :
    K.iter f (j + k) x = K.iter f k (K.iter f j x) := by
  induction j generalizing x with
  | zero => simp [K.iter]
  | succ j ih => rw [Nat.succ_add]; simp only [K.iter]; exact ih _

/-- `iterations = j + k` equals `iterations = j` followed by `iterations = k`, every sweep kind -/
theorem iterations_compose (ω : α) (A : K.Csr α) (b x : Array α) (sw : K.Sweep) (j k : Nat) :
    K.pyGaussSeidel ω A b (j + k) sw x = K.pyGaussSeidel ω A b k sw (K.pyGaussSeidel ω A b j sw x) := by
  cases sw <;> simp only [K.pyGaussSeidel] <;> exact iter_add _ _ _ _

/-- with `omega = 1` the driver runs the plain Gauss–Seidel kernel (forward sweep shown) -/
theorem omega_one_is_gauss_seidel (A : K.Csr α) (b x : Array α) :
    K.pyGaussSeidel (1 : α) A b 1 .forward x = K.gaussSeidel A b (List.range A.n) x := by
  simp [K.pyGaussSeidel, K.iter, K.gsPass, K.dirRows]

theorem jacobi_iterations_compose (ω : α) (A : K.Csr α) (b x : Array α) (j k : Nat) :
    K.pyJacobi ω A b (j + k) x = K.pyJacobi ω A b k (K.pyJacobi ω A b j x) := iter_add _ _ _ _
end drivers

/-! non-vacuity: a concrete 2×2 system with unsorted columns meets `HasDiag` and `d ≠ 0`,
and the executable model does what the theorem says on it -/
example : HasDiag (K := Rat) 0 [(1, -1), (0, 2)] 2 ∧ (2 : Rat) ≠ 0 := by
  constructor
  · simp [HasDiag]
  · norm_num
example : K.gaussSeidel (α := Rat) ⟨2, #[0, 2, 4], #[1, 0, 0, 1], #[-1, 2, -1, 2]⟩ #[1, 1] [0, 1] #[0, 0]
    = #[1/2, 3/4] := by decide +kernel

/-! ### the executable array models carry the theory (Proofs/ExtRelaxRefine.lean, Proofs/C02Refine.lean,
Proofs/C02Jacobi.lean): refinement of SOR and Jacobi, energy non-expansion and fixed points stated for
`K.gaussSeidel`, `K.sorGaussSeidel`, `K.jacobi`, `K.pyGaussSeidel`, `K.pyJacobi` themselves -/

/-- the executable SOR kernel, read as a function, *is* the row-by-row sweep `sorSweepFn`
(every row list inside the vector; size preserved) -/
restate sor_kernel_is_sweep := PyamgV.sorGaussSeidel_refines
/-- the Python driver `gauss_seidel`/`sor` is ONE kernel sweep over the concatenated row order `pyOrder`
(plain kernel iff `omega = 1`) -/
restate py_gauss_seidel_is_one_sweep := PyamgV.pyGaussSeidel_eq
/-- the executable `jacobi` kernel for ANY row list (duplicates allowed) and ANY caller buffer `temp0` of the
size of `x` is the Jacobi sweep `jacSweepFn` whose frozen copy is `x` on the swept rows and `temp0` elsewhere -/
restate jacobi_kernel_is_sweep := PyamgV.jacobi_refines_rows
/-- ... hence the Jacobi sweep with frozen copy `x` whenever the off-diagonal columns read by the swept rows
are swept too (or `temp0` already agrees with `x` there) -/
restate jacobi_kernel_is_sweep_closed := PyamgV.jacobi_refines_rows_closed
/-- the full-range call issued by `relaxation.jacobi` (`temp0` = zeros of the size of `x`) -/
restate jacobi_kernel_full_range := PyamgV.jacobi_refines
/-- array kernel entry-wise: `x_j + omega (b_j - (A x)_j)/d_j` on swept rows, `x_j` elsewhere -/
restate jacobi_array_formula := PyamgV.jacobi_array_formula
/-- energy of the error never increases under the Gauss-Seidel array kernel (symmetric PSD operator, one
stored diagonal per row, any row list; right-hand side hypothesis only on the first `n` coordinates) -/
restate gauss_seidel_array_nonexp := PyamgV.gaussSeidel_array_nonexp
/-- the same for the SOR array kernel, `0 <= omega <= 2` -/
restate sor_array_nonexp := PyamgV.sorGaussSeidel_array_nonexp
/-- the same for the Python driver: forward, backward, symmetric sweeps, any iteration count -/
restate py_gauss_seidel_array_nonexp := PyamgV.pyGaussSeidel_array_nonexp
/-- the Python Jacobi driver under the damping bound `omega |D^-1 r|_A^2 <= 2 <D^-1 r, r>` -/
restate py_jacobi_array_nonexp := PyamgV.pyJacobi_array_nonexp
/-- a vector whose swept rows are consistent (`RowOK`: row skipped by the kernel, or one stored diagonal and
`(A x)_i = b_i`) is returned unchanged AS AN ARRAY by the kernels ... -/
restate gauss_seidel_array_fixed_point := PyamgV.gaussSeidel_fixed_point
restate sor_array_fixed_point := PyamgV.sorGaussSeidel_fixed_point
restate jacobi_array_fixed_point := PyamgV.jacobi_fixed_point
/-- ... and by the Python drivers, every `omega`, sweep kind and iteration count -/
restate py_gauss_seidel_fixed_point := PyamgV.pyGaussSeidel_fixed_point
restate py_jacobi_fixed_point := PyamgV.pyJacobi_fixed_point
/-- `RowOK` follows from the usual hypotheses (one stored diagonal per row, `A x* = b` on the first `n` rows) -/
restate rowOK_of_solution := PyamgV.rowOK_of_solution
/-- non-vacuity of the energy theorems: the 3-point Poisson matrix meets `hsym`, `hpsd`, `HasDiag`; so the
driver model is non-expansive for all `x, b` in Q^3, `0 <= omega <= 2`, every sweep and iteration count -/
restate example_py_gauss_seidel_nonexp := PyamgV.example_pyGaussSeidel_nonexp

/-- non-vacuity of the fixed-point theorems: `x* = (1, 1)` solves the unsorted 2x2 system with `b = (1, 1)`;
`RowOK` holds and the executable drivers reproduce the array -/
example : RowOK (R := Rat) 0 [(1, -1), (0, 2)] (fun _ => 1) (fun _ => 1) :=
  Or.inr ⟨2, by simp [HasDiag], by simp [rowDot]; norm_num⟩
example : K.pyGaussSeidel (α := Rat) (3/2) ⟨2, #[0, 2, 4], #[1, 0, 0, 1], #[-1, 2, -1, 2]⟩ #[1, 1] 2 .symmetric #[1, 1]
    = #[1, 1] := by decide +kernel
example : K.pyJacobi (α := Rat) (2/3) ⟨2, #[0, 2, 4], #[1, 0, 0, 1], #[-1, 2, -1, 2]⟩ #[1, 1] 3 #[1, 1]
    = #[1, 1] := by decide +kernel


/-! ### extension E15: block, polynomial, normal-equation and Schwarz relaxation (Model/ExtC09Block.lean)

The executable models `K.blockJacobi`, `K.blockGaussSeidel`, `K.pyPolynomial`, `K.pyJacobiNE`,
`K.gaussSeidelNE`, `K.gaussSeidelNR`, `K.schwarzSweep` and their Python drivers are the definitions the
correspondence run (part D of the check) executes on `Rat` / Gaussian rationals against the public functions;
inverse blocks are inputs.  Over any field, any storage pattern, any `x`, `b`: -/

/-- block Jacobi, kernel form: swept block rows become `(1-ω) x_i + ω Dinv_i (b_i − Σ_{j≠i} A_ij x_j)`, the others
are untouched (sweep closed under the block columns it reads: always true for the driver's full sweep) -/
restate block_jacobi_entry := PyamgV.ExtC09.blockJacobi_entry
/-- block Jacobi = `x + ω D⁻¹(b − A x)` on the swept block rows when `Dinv_i A_ii = I` -/
restate block_jacobi_splitting := PyamgV.ExtC09.blockJacobi_splitting
restate block_jacobi_fixed_point := PyamgV.ExtC09.blockJacobi_fixed_point
/-- the Python driver `block_jacobi`: one iteration = one full-range kernel call; exact solution fixed for every
`omega`, `iterations` -/
restate py_block_jacobi_one := PyamgV.ExtC09.pyBlockJacobi_one
restate py_block_jacobi_fixed_point := PyamgV.ExtC09.pyBlockJacobi_fixed_point
/-- block Gauss-Seidel row step, kernel form and splitting form (`x_i += Dinv_i (b − A x)_i`) -/
restate block_gs_step_entry := PyamgV.ExtC09.bgsStep_entry
restate block_gs_step_splitting := PyamgV.ExtC09.bgsStep_splitting
/-- each swept block row satisfies its block equation right after its update (`A_ii Dinv_i = I`) -/
restate block_gs_step_residual_zero := PyamgV.ExtC09.bgsStep_residual_zero
restate block_gs_fixed_point := PyamgV.ExtC09.blockGaussSeidel_fixed_point
/-- the Python driver `block_gauss_seidel`: symmetric = forward then backward with the caller's `Dinv`; exact
solution fixed for every sweep and `iterations` -/
restate py_block_gs_symmetric := PyamgV.ExtC09.pyBlockGaussSeidel_symmetric
restate py_block_gs_fixed_point := PyamgV.ExtC09.pyBlockGaussSeidel_fixed_point
/-- Horner's scheme of `polynomial` evaluates `p(T) v` (Mathlib `Polynomial.aeval`, coefficients highest degree first) -/
restate horner_eq_aeval := PyamgV.ExtC09.hornerV_eq_aeval
/-- one iteration of `polynomial` is `x + p(A)(b − A x)`; the `norm(x) == 0` shortcut changes nothing -/
restate polynomial_step := PyamgV.ExtC09.polyStep_eq
restate polynomial_fixed_point := PyamgV.ExtC09.pyPolynomial_fixed_point
/-- `gauss_seidel_ne` row step: `x ← x + δ a_iᴴ`, `δ = ω Dinv_i (b_i − ⟨a_i,x⟩)` (Kaczmarz) -/
restate ne_step_entry := PyamgV.ExtC09.neStep_entry
restate ne_kernel_is_steps := PyamgV.ExtC09.gaussSeidelNE_eq
restate ne_fixed_point := PyamgV.ExtC09.gaussSeidelNE_fixed_point
restate py_ne_fixed_point := PyamgV.ExtC09.pyGaussSeidelNE_fixed_point
/-- ... which for real scalars and `Dinv_i = 1/⟨a_i,a_i⟩` is the damped orthogonal projection of the error of
Proofs/Kaczmarz.lean; Euclidean error norm non-increasing for `0 ≤ ω ≤ 2` -/
restate ne_step_error_projection := PyamgV.ExtC09.neStep_error_projection
restate ne_step_error_nonexp := PyamgV.ExtC09.neStep_error_nonexp
/-- `gauss_seidel_nr` column step: `r −= δ A e_i`, keeps `r = b − A x`; projection of the residual along the column -/
restate nr_kernel_is_steps := PyamgV.ExtC09.gaussSeidelNR_eq
restate nr_step_residual_entry := PyamgV.ExtC09.nrStep_r
restate nr_step_keeps_residual := PyamgV.ExtC09.nrStep_residual
restate nr_step_residual_projection := PyamgV.ExtC09.nrStep_residual_projection
restate nr_step_residual_nonexp := PyamgV.ExtC09.nrStep_residual_nonexp
restate py_nr_fixed_point := PyamgV.ExtC09.pyGaussSeidelNR_fixed_point
/-- the Python driver `jacobi_ne`: one iteration = `x + ω Aᴴ diag(A Aᴴ)⁻¹ (b − A x)` -/
restate jacobi_ne_kernel_entry := PyamgV.ExtC09.jacobiNE_entry
restate py_jacobi_ne_step := PyamgV.ExtC09.pyJacobiNE_step_entry
restate py_jacobi_ne_fixed_point := PyamgV.ExtC09.pyJacobiNE_fixed_point
/-- Schwarz: `x|_d += T_d (b − A x)|_d`; with `A|_d T_d = I` every row of the subdomain is solved exactly -/
restate schwarz_step_entry := PyamgV.ExtC09.schwarzStep_entry
restate schwarz_step_residual_zero := PyamgV.ExtC09.schwarzStep_residual_zero
restate schwarz_fixed_point := PyamgV.ExtC09.schwarzSweep_fixed_point
restate py_schwarz_fixed_point := PyamgV.ExtC09.pySchwarz_fixed_point

/-! non-vacuity: a 2×2-block system `[[2,1],[1,1]]` with its exact inverse `[[1,-1],[-1,2]]` meets `LeftInv` and
`RightInv`; the drivers reproduce / solve on it -/
example : ExtC09.LeftInv (R := Rat) ⟨1, 2, #[0, 1], #[0], #[2, 1, 1, 1]⟩ #[1, -1, -1, 2] 0 := by
  unfold ExtC09.LeftInv; decide +kernel
example : ExtC09.RightInv (R := Rat) ⟨1, 2, #[0, 1], #[0], #[2, 1, 1, 1]⟩ #[1, -1, -1, 2] 0 := by
  unfold ExtC09.RightInv; decide +kernel
example : K.pyBlockGaussSeidel (α := Rat) ⟨1, 2, #[0, 1], #[0], #[2, 1, 1, 1]⟩ #[3, 2] #[1, -1, -1, 2] 1 .forward #[5, 7]
    = some #[1, 1] := by decide +kernel
example : K.pyBlockJacobi (α := Rat) (1/2) ⟨1, 2, #[0, 1], #[0], #[2, 1, 1, 1]⟩ #[3, 2] #[1, -1, -1, 2] 2 #[1, 1]
    = some #[1, 1] := by decide +kernel
example : K.pyPolynomial (α := Rat) ⟨2, #[0, 2, 4], #[0, 1, 0, 1], #[2, -1, -1, 2]⟩ #[1, 1] [1/2, 1] 1 #[0, 0]
    = some #[3/2, 3/2] := by decide +kernel
example : K.pyGaussSeidelNE (α := Rat) id 1 ⟨2, #[0, 2, 4], #[0, 1, 0, 1], #[1, 1, 1, -1]⟩ #[2, 0] none 1 .forward #[0, 0]
    = #[1, 1] := by decide +kernel

/-! ### extension E33: `block_jacobi_indexed`, `cf_block_jacobi` / `fc_block_jacobi`, meaning of the storage conversions, and the
public block routines on CSR input (Model/ExtC09XIndexed.lean; Proofs/ExtC09XToBsr.lean, ExtC09XDense.lean, ExtC09XPublic.lean,
ExtC09XToCsc.lean)

`ExtC09X.blockJacobiIndexed`, `pyCFBlockJacobi`, `pubBlockJacobi`, `pubBlockGaussSeidel`, `pubCFBlockJacobi`, `pubGaussSeidelNR` are
the definitions the correspondence run executes (`e33_*` ops) against the raw kernel and the public functions.  `csrRow A i u` is
row `i` of the CSR INPUT applied to `u`, `csrEntry A i j` its dense entry (duplicates summed). -/

/-- `block_jacobi_indexed`: the indexed block rows (any order, repetitions, NO closedness assumption) become
`(1-ω) x_i + ω Dinv_i (b_i − Σ_{j≠i} A_ij x_j)`, all other block rows are untouched -/
restate block_jacobi_indexed_entry := PyamgV.ExtC09X.blockJacobiIndexed_entry
/-- ... which is `x + ω D⁻¹ (b − A x)` on the indexed rows when `Dinv_i A_ii = I` -/
restate block_jacobi_indexed_splitting := PyamgV.ExtC09X.blockJacobiIndexed_splitting
restate block_jacobi_indexed_fixed_point := PyamgV.ExtC09X.blockJacobiIndexed_fixed_point
/-- `cf_block_jacobi` = `c_iterations` C sweeps then `f_iterations` F sweeps (`fc_`: the other way round), caller's `omega`, `Dinv` -/
restate cf_block_jacobi_is_c_then_f := PyamgV.ExtC09X.pyCFBlockJacobi_one
restate cf_block_jacobi_iterations := PyamgV.ExtC09X.pyCFBlockJacobi_succ
restate cf_block_jacobi_fixed_point := PyamgV.ExtC09X.pyCFBlockJacobi_fixed_point
/-- meaning of `A.tobsr(blocksize=(bs,bs))`: weighted block-row sums = weighted CSR row sums, for every weight -/
restate tobsr_weighted_row_sum := PyamgV.ExtC09X.toBsr_sem
/-- block `(I,J)` entry `(r,c)` of `A.tobsr` = dense entry `(I bs + r, J bs + c)` of `A` (duplicates summed, padding zero) -/
restate tobsr_block_entry := PyamgV.ExtC09X.toBsr_entry
restate tobsr_diag_block := PyamgV.ExtC09X.toBsr_diagBlk
/-- block row times vector / its off-diagonal part = CSR rows of the input times the (masked) vector -/
restate tobsr_row_times_vector := PyamgV.ExtC09X.toBsr_rowDotB
restate tobsr_offdiag_part := PyamgV.ExtC09X.toBsr_offDot
/-- the inverse-block hypotheses of the block theorems follow from the same statements about the dense entries of the CSR input -/
restate tobsr_left_inverse := PyamgV.ExtC09X.toBsr_leftInv
restate tobsr_right_inverse := PyamgV.ExtC09X.toBsr_rightInv
/-- meaning of `A.tocsc()`: stored line `j` lists exactly the stored entries of column `j` (ascending row, stored order, duplicates kept) -/
restate tocsc_column_list := PyamgV.ExtC09X.toCsc_col
restate tocsc_entry := PyamgV.ExtC09X.toCsc_cscEntry
restate tocsc_matvec := PyamgV.ExtC09X.toCsc_matvec
/-- PUBLIC `block_jacobi` on CSR input: public model = kernel model on the converted matrix = `(1-ω) x + ω Dinv (b − (A − blockdiag A) x)`
in the CSR rows of the input = `x + ω blockdiag(A)⁻¹ (b − A x)` when `Dinv` inverts the dense diagonal blocks of `A` -/
restate public_block_jacobi_layers := PyamgV.ExtC09X.pubBlockJacobi_layers
restate public_block_jacobi_iterations := PyamgV.ExtC09X.pubBlockJacobi_succ
restate public_block_jacobi_fixed_point := PyamgV.ExtC09X.pubBlockJacobi_fixed_point
/-- PUBLIC `cf_block_jacobi` / `fc_block_jacobi` on CSR input: public model = C/F sequence of indexed kernel calls on the converted
matrix = damped block Jacobi update of the indexed block rows in the CSR rows of the input, other rows untouched -/
restate public_cf_block_jacobi_layers := PyamgV.ExtC09X.pubCFBlockJacobi_layers
restate public_cf_block_jacobi_fixed_point := PyamgV.ExtC09X.pubCFBlockJacobi_fixed_point
/-- PUBLIC `block_gauss_seidel` on CSR input: public model = block-row steps on the converted matrix (forward / backward / symmetric)
= `x_I ← x_I + Dinv_I (b − A x)_I` in the CSR rows of the input; rows of block `I` solved exactly right after their step -/
restate public_block_gs_layers := PyamgV.ExtC09X.pubBlockGaussSeidel_layers
restate public_block_gs_fixed_point := PyamgV.ExtC09X.pubBlockGaussSeidel_fixed_point
/-- PUBLIC `gauss_seidel_nr` on CSR input: public model = kernel model on `A.tocsc()` started from `b − A x`; column corrections and
residual updates in the dense entries of the input -/
restate public_gs_nr_layers := PyamgV.ExtC09X.pubGaussSeidelNR_layers
restate public_gs_nr_fixed_point := PyamgV.ExtC09X.pubGaussSeidelNR_fixed_point

/-! non-vacuity: the CSR matrix `[[2,1],[1,1]]` stored unsorted with a split (duplicate) entry meets `CsrLeftInv` / `CsrRightInv` with
`Dinv = [[1,-1],[-1,2]]`; the public models convert, sweep and keep the solution on it; a CF sweep on a 2x2 point system -/
example : ExtC09X.CsrLeftInv (R := Rat) ⟨2, #[0, 3, 5], #[1, 0, 0, 1, 0], #[1, 1, 1, 1, 1]⟩ 2 #[1, -1, -1, 2] 0 := by
  unfold ExtC09X.CsrLeftInv; decide +kernel
example : ExtC09X.CsrRightInv (R := Rat) ⟨2, #[0, 3, 5], #[1, 0, 0, 1, 0], #[1, 1, 1, 1, 1]⟩ 2 #[1, -1, -1, 2] 0 := by
  unfold ExtC09X.CsrRightInv; decide +kernel
example : ExtC09X.pubBlockJacobi (α := Rat) (1/2) ⟨2, #[0, 3, 5], #[1, 0, 0, 1, 0], #[1, 1, 1, 1, 1]⟩ 2 #[3, 2] #[1, -1, -1, 2] 2 #[1, 1]
    = some #[1, 1] := by decide +kernel
example : ExtC09X.pubBlockGaussSeidel (α := Rat) ⟨2, #[0, 3, 5], #[1, 0, 0, 1, 0], #[1, 1, 1, 1, 1]⟩ 2 #[3, 2] #[1, -1, -1, 2] 1 .symmetric #[5, 7]
    = some #[1, 1] := by decide +kernel
example : ExtC09X.pubCFBlockJacobi (α := Rat) true 1 ⟨2, #[0, 2, 4], #[1, 0, 0, 1], #[-1, 2, -1, 2]⟩ 1 #[1, 1] #[1/2, 1/2] [0] [1] 1 1 1 #[0, 0]
    = some #[1/2, 3/4] := by decide +kernel
example : ExtC09X.pubCFBlockJacobi (α := Rat) false 1 ⟨2, #[0, 2, 4], #[1, 0, 0, 1], #[-1, 2, -1, 2]⟩ 1 #[1, 1] #[1/2, 1/2] [0] [1] 1 1 1 #[0, 0]
    = some #[3/4, 1/2] := by decide +kernel
example : ExtC09X.colEntries (R := Rat) ⟨2, #[0, 3, 5], #[1, 0, 0, 1, 0], #[1, 1, 1, 1, 1]⟩ 0 = [(0, 1), (0, 1), (1, 1)] := by decide +kernel

/-! ### interface facts regenerated from the working tree on every run (translator tie) -/
/-- the `kernels_relaxation` table the models assume equals the one regenerated from the source now -/
theorem generated_kernels_relaxation : PyamgV.Facts.kernels_relaxation = PyamgV.Generated.kernels_relaxation := by decide

end PyamgV.Props.C09
