import PyamgV.Props.Restate
import PyamgV.Proofs.C02Thm
import PyamgV.Proofs.C02Model
import PyamgV.Proofs.C02Example
import PyamgV.Proofs.C02Check
import PyamgV.Proofs.GsArrayRefine
import PyamgV.Proofs.SorAdjoint
import PyamgV.Proofs.Kaczmarz
import PyamgV.Model.C02Cycle
import PyamgV.Proofs.ExtRelaxRefine
import PyamgV.Proofs.ExtComplexGsEnergy
import PyamgV.Proofs.ExtSmoothersCycle
import PyamgV.Proofs.ExtSmoothersRefine
import PyamgV.Proofs.ExtC02XComplexEx
import PyamgV.Proofs.ExtC02XBlockEx
import Mathlib.Algebra.Module.Prod

/-! # C02 — SPD problems: no multigrid cycle increases the energy norm of the error

Everything is stated for a symmetric positive *semi*definite bilinear form `E` (`EForm`) on a module
over an arbitrary ordered field (ℚ, ℝ; complex Hermitian problems through their real form), with
`E.en v = E.a v v` the squared energy norm; no square roots, inverses or eigenvalues are needed.
`NonExp E A f` : `A x* = b → E.en (x* − f x b) ≤ E.en (x* − x)` for all `x, b, x*`.

Layers (all `b`, all `x`, every depth, `V | W | F k`):
1. cycle          : `cycle_nonexpansive(_of_galerkin)`, `coarse_correction_nonexpansive`, `galerkin_orthogonality`
2. smoothers      : Gauss-Seidel / SOR kernels (`gs_*`, `sor_*`, any row order), Jacobi / Richardson under
                    the damping bound, block Gauss-Seidel / multiplicative Schwarz with exact local solves
3. stand-alone solve : `solve_energy_monotone`
The executable model `PyamgV.C02.cycle` (Model/C02Cycle.lean, built on the kernel models C09 compares
bit-exactly with relaxation.h) is what the driver runs against the real cycles. -/
namespace PyamgV.Props.C02
open PyamgV

/-! ## 1. the cycle -/

/-- T1: an energy-orthogonal correction never increases the energy -/
restate exact_correction_nonexpansive := PyamgV.EForm.en_sub_le
/-- T4: coarse-grid correction with an inexact but non-expansive coarse iteration -/
restate coarse_correction_nonexpansive := PyamgV.cgc_nonexpansive
/-- the recursion of `__solve` for V, W, F(k), any depth, is non-expansive on a well-formed hierarchy
(`WFH`: non-expansive smoothers, Galerkin orthogonality, solvable coarse problems, exact coarsest solve) -/
restate cycle_nonexpansive := PyamgV.cyc_nonexp
/-- the same with a coarsest solve that is exact only in the energy norm (pseudo-inverse, padded carrier) -/
restate cycle_nonexpansive' := PyamgV.cyc_nonexp'
restate wfh_implies_wfh' := PyamgV.WFH.toWFH'
/-- Galerkin orthogonality follows from `R` adjoint to `P` and `A_c = R A P` -/
restate galerkin_orthogonality := PyamgV.galerkin_orth
restate galerkin_symmetric := PyamgV.galerkin_sym
restate galerkin_psd := PyamgV.galerkin_psd
/-- **cycle level of C02** from what the constructors establish (`WFG`): `R` adjoint to `P`,
`A_{l+1} = R A_l P`, smoothers non-expansive for their own level's energy, coarse problems solvable,
coarsest solve exact -/
restate cycle_nonexpansive_of_galerkin := PyamgV.cycle_nonexp_of_galerkin

/-! ## 2. smoothers -/

/-- one row of the `gauss_seidel` kernel loop (last stored diagonal wins, zero diagonal skipped) -/
restate gs_row_energy := PyamgV.gsRow_energy
/-- a Gauss-Seidel sweep over **any** list of rows (forward, backward, symmetric, indexed, repeated) -/
restate gs_sweep_nonexpansive := PyamgV.gsSweep_nonexp
/-- the executable array kernel (the one compared bit-exactly with the code) read as a function is
that sweep -/
restate gs_kernel_is_sweep := PyamgV.gaussSeidel_refines
/-- one row of the `sor_gauss_seidel` kernel, `0 ≤ ω ≤ 2` -/
restate sor_row_energy := PyamgV.sorRow_energy
/-- an SOR sweep over any list of rows, `0 ≤ ω ≤ 2` -/
restate sor_sweep_nonexpansive := PyamgV.sorSweep_nonexp
/-- damped Jacobi-type iteration `x + ω Dinv (b − A x)` (Jacobi, block Jacobi) under
`ω·‖Dinv r‖²_A ≤ 2⟨Dinv r, r⟩`, i.e. `ω·λ_max(D⁻¹A) ≤ 2` -/
restate jacobi_nonexpansive := PyamgV.jacobi_nonexp
/-- Richardson under `ω·λ_max(A) ≤ 2` -/
restate richardson_nonexpansive := PyamgV.richardson_nonexp
/-- one exact subspace correction (a block of block Gauss-Seidel, a Schwarz subdomain) -/
restate subspace_step_nonexpansive := PyamgV.subspace_step_nonexp
restate schwarz_step_nonexpansive := PyamgV.schwarz_step_nonexp
/-- multiplicative Schwarz / block Gauss-Seidel: any subdomains, any order -/
restate schwarz_sweep_nonexpansive := PyamgV.schwarz_sweep_nonexp
/-- closure of `NonExp` under composition (pre/post lists, `iterations = k`, symmetric sweeps) -/
restate nonexp_comp := PyamgV.NonExp.comp
restate nonexp_foldl := PyamgV.NonExp.foldl
restate nonexp_iter := PyamgV.NonExp.iter

/-! ## 2b. the executable model the driver runs (`PyamgV.C02.cycle`, Model/C02Cycle.lean) -/

/-- the SOR kernel model (arrays) read as a function is `sorSweepFn` (as `gs_kernel_is_sweep`) -/
restate sor_kernel_is_sweep := PyamgV.sorGaussSeidel_refines
/-- `relaxation.gauss_seidel/sor(A, x, b, iterations, sweep, omega)` is one kernel sweep over the
concatenated row order `pyOrder` (plain kernel iff `ω = 1`) -/
restate py_gauss_seidel_is_one_sweep := PyamgV.pyGaussSeidel_eq
/-- the Jacobi kernel model (arrays; `temp` copy, then the row loop) read as a function is the row loop
`jacSweepFn` with the frozen copy -/
restate jacobi_kernel_is_sweep := PyamgV.jacobi_refines
/-- … which, with one stored non-zero diagonal per row, is `x + ω D⁻¹ (b − A x)`: the operator form
`jacobi_nonexpansive` is about -/
restate jacobi_sweep_is_operator := PyamgV.jacSweep_eq_operator
/-- the model's `A @ x` is the CSR operator of the proofs -/
restate spmv_is_csrOp := PyamgV.spmv_refines
/-- **the executable cycle model (arrays, CSR, kernel models), read as functions, is the abstract
recursion `cyc`** for V, W, F(cycles_per_level), any depth, Gauss-Seidel/SOR/Jacobi smoothers -/
restate cycle_model_is_cyc := PyamgV.cycle_refines
/-- **C02 for the executable model**: under `WFModel` (Galerkin products, `R = Pᵀ`, one stored
diagonal per row, `0 ≤ ω ≤ 2` for Gauss-Seidel/SOR, the damping bound for Jacobi, solvable coarse
problems, energy-exact coarsest solve) and a symmetric PSD finest matrix the model cycle does not
increase the energy of the error -/
restate model_cycle_nonexpansive := PyamgV.model_cycle_nonexp

/-! ## 3. the stand-alone solve -/

restate cycles_monotone := PyamgV.cycles_monotone
/-- the loop of `MultilevelSolver.solve` with a non-expansive cycle: the returned iterate's error
energy is at most that of `x0`, the callback iterates' error energies are non-increasing -/
restate solve_energy_monotone := PyamgV.solve_energy_monotone

/-! ## the exact comparison ops of the driver decide what they say -/

theorem energyLe_iff (A : K.Csr Rat) (e e' : Array Rat) :
    C02.energyLe A e e' = true ↔ C02.quad A e' ≤ C02.quad A e := by
  simp [C02.energyLe]

/-- the driver's `uniqueDiag` check establishes the `HasDiag` hypothesis of every row -/
restate uniqueDiag_sound := PyamgV.uniqueDiag_sound
/-- the driver's admissibility check of a Gauss-Seidel/SOR smoother establishes `smOK` -/
restate admissible_gs_sound := PyamgV.admissible_gs_sound

theorem functionalLe_iff (A : K.Csr Rat) (b x x' : Array Rat) :
    C02.functionalLe A b x x' = true ↔ C02.functional A b x' ≤ C02.functional A b x := by
  simp [C02.functionalLe]

/-! ## non-vacuity -/

/-- a concrete two-level hierarchy over ℚ (carrier ℚ × ℚ, `A = [[2,−1],[−1,2]]`, `P = (1,1)ᵀ` padded,
`R = Pᵀ`, identity smoothers, coarse solve `b ↦ (b₁/2, 0)`) satisfies `WFG`, so the hypotheses of
`cycle_nonexpansive_of_galerkin` are jointly satisfiable although no coarse matrix on the padded
carrier is injective -/
example : ∃ (solve : ℚ × ℚ → ℚ × ℚ) (e : EForm ℚ (ℚ × ℚ)) (A : (ℚ × ℚ) →ₗ[ℚ] (ℚ × ℚ))
    (Ls : List (EForm ℚ (ℚ × ℚ) × Level ℚ (ℚ × ℚ))), Ls.length = 1 ∧ WFG solve e A Ls := by
  let e : EForm ℚ (ℚ × ℚ) :=
    { a := LinearMap.mk₂ ℚ (fun u v => u.1 * v.1 + u.2 * v.2)
        (by intros; simp; ring) (by intros; simp; ring) (by intros; simp; ring) (by intros; simp; ring)
      symm := by intro u v; simp [LinearMap.mk₂_apply]; ring
      nonneg := by intro v; simp [LinearMap.mk₂_apply]; nlinarith [mul_self_nonneg v.1, mul_self_nonneg v.2] }
  let A : (ℚ × ℚ) →ₗ[ℚ] (ℚ × ℚ) :=
    { toFun := fun u => (2 * u.1 - u.2, 2 * u.2 - u.1)
      map_add' := by intro u v; ext <;> simp <;> ring
      map_smul' := by intro c u; ext <;> simp <;> ring }
  let P : (ℚ × ℚ) →ₗ[ℚ] (ℚ × ℚ) :=
    { toFun := fun u => (u.1, u.1)
      map_add' := by intro u v; ext <;> simp
      map_smul' := by intro c u; ext <;> simp }
  let R : (ℚ × ℚ) →ₗ[ℚ] (ℚ × ℚ) :=
    { toFun := fun u => (u.1 + u.2, 0)
      map_add' := by intro u v; ext <;> simp; ring
      map_smul' := by intro c u; ext <;> simp; ring }
  let L : Level ℚ (ℚ × ℚ) := ⟨A, P, R, fun x _ => x, fun x _ => x⟩
  refine ⟨fun b => (b.1 / 2, 0), e, A, [(e, L)], rfl, rfl, ?_, ?_, ?_, ?_, ?_⟩
  · intro u v; simp [L, e, P, R, LinearMap.mk₂_apply]; ring
  · intro hs hp; exact NonExp.id _ _
  · intro hs hp; exact NonExp.id _ _
  · intro r; refine ⟨((r.1 + r.2) / 2, 0), ?_⟩
    ext <;> simp [L, A, P, R]; ring
  · intro b xs hb
    have h1 : b.1 = 2 * xs.1 := by
      have := congrArg Prod.fst hb; simp [L, A, P, R] at this; linarith
    simp [L, e, A, P, R, LinearMap.mk₂_apply, h1]

/-- non-vacuity of `model_cycle_nonexpansive`: the 3-point Poisson hierarchy of Proofs/C02Example.lean
(linear interpolation, `R = Pᵀ`, exact Galerkin matrix, two Jacobi(2/3) pre-smoothing steps, symmetric
SOR(3/2) post-smoothing, exact coarse solve) meets every hypothesis; hence for all `x, b ∈ ℚ³`, all cycle types -/
restate example_hierarchy_nonexpansive := PyamgV.C02Ex.example_cycle_nonexp
example : WFModel C02Ex.solveF C02Ex.Ac3 [C02Ex.L3] ∧ Shaped C02Ex.Ac3.n 3 [C02Ex.L3] :=
  ⟨C02Ex.wf3, C02Ex.shaped3⟩

/-- the executable model on a 3-point Poisson problem (two levels, Gauss-Seidel, exact Galerkin and
coarse solve): one V-cycle from `x = 0`, `b = (1,1,1)`; the energy functional decreases -/
example :
    let A : K.Csr Rat := ⟨3, #[0, 2, 5, 7], #[0, 1, 0, 1, 2, 1, 2], #[2, -1, -1, 2, -1, -1, 2]⟩
    let P : K.Csr Rat := ⟨3, #[0, 1, 3, 4], #[0, 0, 1, 1], #[1, 1/2, 1/2, 1]⟩
    let (ls, Ac, _) := C02.mkHierarchy A [⟨3, 2, P, .gs 1 .forward 1, .gs 1 .backward 1⟩]
    let solve := fun rhs => (C02.gaussSolve Ac rhs).getD #[]
    let x' := C02.cycle solve .V 1 ls #[0, 0, 0] #[1, 1, 1]
    ls.length = 1 ∧ C02.functionalLe A #[1, 1, 1] #[0, 0, 0] x' = true := by decide +kernel

/-! ## the smoother theorems stated for the executable array kernels themselves (Proofs/ExtRelaxRefine.lean) -/

/-- the Gauss-Seidel array kernel `K.gaussSeidel` (the definition compared bit-exactly with relaxation.h), any
row list: the energy of the error w.r.t. any solution of the first `n` equations never increases -/
restate gs_array_kernel_nonexpansive := PyamgV.gaussSeidel_array_nonexp
/-- the SOR array kernel `K.sorGaussSeidel`, `0 ≤ ω ≤ 2` -/
restate sor_array_kernel_nonexpansive := PyamgV.sorGaussSeidel_array_nonexp
/-- the Python driver model `K.pyGaussSeidel`: forward / backward / symmetric, any iteration count -/
restate py_gauss_seidel_nonexpansive := PyamgV.pyGaussSeidel_array_nonexp
/-- the Python driver model `K.pyJacobi` under the damping bound -/
restate py_jacobi_nonexpansive := PyamgV.pyJacobi_array_nonexp
/-- the solution is a fixed point of the driver models, as an array -/
restate py_gauss_seidel_fixed_point := PyamgV.pyGaussSeidel_fixed_point
restate py_jacobi_fixed_point := PyamgV.pyJacobi_fixed_point
/-- non-vacuity: all hypotheses of `py_gauss_seidel_nonexpansive` hold for the 3-point Poisson matrix -/
restate example_py_gauss_seidel_nonexpansive := PyamgV.example_pyGaussSeidel_nonexp

/-! ## complex Hermitian positive semidefinite problems (extension E5, Proofs/ExtComplex*.lean)

Complex vectors are pairs `(Re, Im)`; `cip e u v` is the complex inner product as a pair, `cEnergy` the
symmetric PSD real form `Re⟨u, A v⟩` on the realified space, `CNonExp` non-expansiveness of `⟨e, A e⟩`. -/

/-- for Hermitian `A` the complex number `⟨w, A w⟩` is real and equals the energy of the realified form: the
complex energy norm *is* the `EForm` energy norm all theorems of this file are about -/
restate complex_energy_norm_same := PyamgV.cEnergy_en
/-- Galerkin coarse operator of a Hermitian PSD operator with `R = Pᴴ` is Hermitian PSD -/
restate complex_galerkin_hermitian_psd := PyamgV.cgalerkin_herm_psd
/-- **cycle level, complex**: Hermitian PSD `A`, `R = Pᴴ`, Galerkin coarse operators, smoothers non-expansive in
their level's complex energy norm, exact coarsest solve ⇒ every V/W/F(k) cycle is non-expansive in the complex
energy norm (`cycle_nonexpansive_of_galerkin` through the bridge) -/
restate complex_cycle_nonexpansive := PyamgV.ccycle_nonexp
/-- the Gauss-Seidel row lemma over any field (no order needed) -/
restate gs_row_residual_zero_any_field := PyamgV.gsRow_residual_zero_field
/-- **complex Gauss-Seidel row**: one row update of the executable kernel model `K.gaussSeidel` over the
Gaussian rationals zeroes the complex row residual (computed by the model's own `spmv`) -/
restate complex_gs_row_residual_zero := PyamgV.crat_gaussSeidel_row_residual_zero
restate complex_gs_row_residual_zero_parts := PyamgV.crat_gaussSeidel_row_residual_zero_parts
/-- one row of the complex kernel loop never increases the complex energy of the error (Hermitian PSD matrix) -/
restate complex_gs_row_energy := PyamgV.cgsRow_energy
/-- a complex Gauss-Seidel sweep over any row list is a non-expansive smoother in the complex energy norm -/
restate complex_gs_sweep_nonexpansive := PyamgV.cgsSweep_cnonexp
/-- the same for the executable array kernel `K.gaussSeidel` over `CRat` -/
restate complex_gs_array_kernel_nonexpansive := PyamgV.crat_gaussSeidel_array_nonexp
/-- non-vacuity: all hypotheses hold for `[[2, i], [−i, 2]]` -/
restate complex_example_gs_nonexpansive := PyamgV.ExC.example_cgsSweep_cnonexp

/-! ## polynomial / Chebyshev, Richardson, (block) Jacobi, NE/NR smoothers (extension E22, Proofs/ExtSmoothers*.lean)

`polyFn A c0 cs` is one iteration of `relaxation.polynomial(A, x, b, coefficients = c0 :: cs)` (what `setup_chebyshev` and
`setup_richardson` install), `polyOp A c0 cs = p(A)`; the executable array model `ExtSm.polynomial` (driver op
`ext_poly`, compared exactly with the real function) is proved to be `polyFn` iterated. -/

/-- a linear iteration `x + Q(b − A x)` is non-expansive for a form `E` **iff** `‖Q A v‖²_E ≤ 2 E(Q A v, v)` for all `v` -/
restate linear_iteration_nonexpansive_iff := PyamgV.linIter_nonexp_iff
/-- `T` symmetric for `E`, `0 ≤ E(T v, v) ≤ 2 E(v, v)` ⟹ `E(T v, T v) ≤ 2 E(T v, v)`; no spectral theory, any ordered field -/
restate symmetric_bounded_quadratic := PyamgV.sym_bounded_quadratic
restate symmetric_linear_iteration_nonexpansive := PyamgV.sym_linIter_energy_nonexp
/-- `p(A)` is `Σ_k coefficients[k] A^(deg−k)`, commutes with `A`, is symmetric when `A` is, acts as `p(λ)` on eigenvectors -/
restate polynomial_operator_is_polynomial := PyamgV.polyOp_eq_sum
restate polynomial_operator_commutes := PyamgV.polyOp_comm
restate polynomial_operator_symmetric := PyamgV.polyOp_adj
restate polynomial_operator_on_eigenvector := PyamgV.polyOp_eigen
/-- the error of one `polynomial` iteration is `(I − p(A)A)` times the old error (the `x = 0` shortcut included) -/
restate polynomial_error_propagation := PyamgV.polynomial_error
/-- `I − p(A)A` is energy non-expansive iff `‖p(A)A v‖²_A ≤ 2 a(p(A)A v, v)` -/
restate polynomial_nonexpansive_iff := PyamgV.polynomial_nonexp_iff
/-- **polynomial / Chebyshev smoother**: `A` symmetric PSD, `0 ≤ a(p(A)A v, v) ≤ 2 a(v, v)` ⟹ non-expansive in the energy norm -/
restate polynomial_nonexpansive := PyamgV.polynomial_nonexp
restate polynomial_iterations_nonexpansive := PyamgV.polynomial_iter_nonexp
/-- the hypothesis in the form the check verifies per level: orthogonal eigenbasis, `|1 − λ p(λ)| ≤ 1` on the spectrum -/
restate polynomial_nonexpansive_of_spectrum := PyamgV.polynomial_nonexp_of_spectrum
/-- Richardson is the degree-0 polynomial smoother -/
restate richardson_is_polynomial := PyamgV.richardson_is_polynomial
restate richardson_as_polynomial_nonexpansive := PyamgV.richardson_polynomial_nonexp
/-- weighted / block Jacobi under `ω A ≤ 2 D` (`Dinv` a right inverse of the (block) diagonal `D`) -/
restate jacobi_nonexpansive_of_bound := PyamgV.jacobi_nonexp_of_bound
/-- the formula of the `block_jacobi` kernel, `(1−ω) x + ω Dinv (b − N x)` with `A = D + N`, is `x + ω Dinv (b − A x)` -/
restate block_jacobi_is_operator := PyamgV.blockJacobi_eq_operator
restate block_jacobi_nonexpansive := PyamgV.blockJacobi_nonexp
/-- NE (Kaczmarz) sweep, any row list, `0 ≤ ω ≤ 2`: non-expansive in the **2-norm of the error** (not the energy norm:
these smoothers feed `cycle_nonexpansive` only for the Euclidean form) -/
restate kaczmarz_sweep_nonexpansive := PyamgV.ne_sweep_nonexp
/-- NR sweep, any column list, `0 ≤ ω ≤ 2`: the **2-norm of the residual** does not increase, any `b`; the kernel's
incrementally updated residual is `b − A x` -/
restate nr_sweep_residual_nonexpansive := PyamgV.nr_sweep_residual_nonexp
restate nr_sweep_nonexpansive := PyamgV.nr_sweep_nonexp
restate nr_loop_keeps_residual := PyamgV.nrLoop_eq
restate jacobi_ne_nonexpansive := PyamgV.jacobi_ne_nonexp
/-- every member of the family (none / polynomial / Richardson / Jacobi / block Jacobi under their damping conditions /
anything known non-expansive; closed under composition and iteration) satisfies the `NonExp` hypothesis of the cycle theorem -/
restate smoother_family_nonexpansive := PyamgV.EnergySmoother.nonexp
restate wfgs_implies_wfg := PyamgV.WFGS.toWFG
/-- **cycle level of C02 with these smoothers**: Galerkin hierarchy, smoothers in the family ⟹ every V/W/F(k) cycle is
non-expansive in the energy norm -/
restate cycle_nonexpansive_of_smoother_family := PyamgV.cycle_nonexp_of_smoother_family
/-- the executable array model of `relaxation.polynomial` read as functions is `polyFn` iterated -/
restate polynomial_model_step_is_polyFn := PyamgV.polyStep_refines
restate polynomial_model_is_polyFn := PyamgV.polynomial_refines
/-- **C02 for the executable model of `polynomial`** (Chebyshev, Richardson), any `iterations` -/
restate polynomial_model_nonexpansive := PyamgV.polynomial_array_nonexp
restate polynomial_model_fixed_point := PyamgV.polynomial_array_fixed_point
restate polynomial_model_rejects_empty := PyamgV.polynomial_empty
/-- non-vacuity on `ℚ²`, `A = [[2,−1],[−1,2]]`: `p(t) = 1 − t/5` meets the quadratic-form and the spectral hypotheses;
Jacobi(2/3); a symmetric Kaczmarz sweep with `ω = 3/2`; an NR sweep; a two-level `WFGS` hierarchy with a polynomial
pre-smoother and two Jacobi post-smoothing steps -/
restate example_polynomial_nonexpansive := PyamgV.ExSm.example_polynomial_nonexp
restate example_polynomial_spectrum := PyamgV.ExSm.example_polynomial_spectrum
restate example_jacobi_nonexpansive := PyamgV.ExSm.example_jacobi_nonexp
restate example_kaczmarz_nonexpansive := PyamgV.ExSm.example_ne_sweep_nonexp
restate example_nr_nonexpansive := PyamgV.ExSm.example_nr_sweep_nonexp
restate example_smoother_family_hierarchy := PyamgV.ExSm.example_wfgs
/-- the model evaluated by the kernel: `A = [[2,−1],[−1,2]]`, `p(t) = 1 − t/5`, `x = 0`, `b = (1, 0)`: one iteration
gives `p(A) b = (3/5, 1/5)`; the exact solution `(2/3, 1/3)` of `A x = b` is returned unchanged (two iterations) -/
example :
    let A : K.Csr Rat := ⟨2, #[0, 2, 4], #[0, 1, 0, 1], #[2, -1, -1, 2]⟩
    ExtSm.polynomial A [-1/5, 1] 1 #[1, 0] #[0, 0] = some #[3/5, 1/5] ∧
    ExtSm.polynomial A [-1/5, 1] 2 #[1, 0] #[2/3, 1/3] = some #[2/3, 1/3] ∧
    ExtSm.polynomial A [] 1 #[1, 0] #[0, 0] = none := by decide +kernel


/-! ## the executable cycle model on complex Hermitian hierarchies and on BSR levels with block smoothers
   (extension E35, Model/ExtC02XCycle.lean, Proofs/ExtC02X*.lean)

`C02X.cycleO` is the text of `C02.cycle` on levels whose five pieces are functions on arrays; the CSR model is its
instance `toO`.  Complex: the *same* `C02.cycle` run over the Gaussian rationals `CRat` (hierarchy `mkHierarchyH`,
`R = Pᴴ`), arrays read as pairs `cread.ρ x = (Re x, Im x)`.  BSR: levels `BLvl` (dense matrix with its CSR and BSR
copies), smoothers `block_gauss_seidel` / `block_jacobi` (kernel models of C09, exact inverse diagonal blocks) or the
pointwise kernels. -/

/-- one definition: the CSR cycle model is the operator-level cycle on `toO` levels -/
restate cycle_model_is_operator_cycle := PyamgV.C02X.cycle_eq_cycleO
/-- the operator-level cycle, read through any reading of arrays as vectors that respects `vsub`/`vadd`/`zeros` and
under which the level pieces refine abstract levels, is the abstract recursion `cyc` -/
restate operator_cycle_is_cyc := PyamgV.C02X.cycleO_refines

/-- the model's `A @ x` over `CRat` is the realified complex CSR operator -/
restate complex_spmv_is_ccsrOp := PyamgV.C02X.cspmv_refines
/-- the model's smoothers over `CRat` (Gauss-Seidel, SOR, Jacobi kernels and their Python drivers), read as pairs -/
restate complex_smoother_is_csmF := PyamgV.C02X.csm_refines
/-- the complex Gauss-Seidel correction of a row is energy-orthogonal to the new error -/
restate complex_gs_correction_orthogonal := PyamgV.C02X.cgsRow_orth
/-- one row of the SOR kernel over `CRat`, real `0 ≤ ω ≤ 2`, Hermitian PSD matrix -/
restate complex_sor_row_energy := PyamgV.C02X.csorRow_energy
restate complex_sor_sweep_nonexpansive := PyamgV.C02X.csorSweep_cnonexp
/-- the Jacobi kernel over `CRat` with real `ω` is `x + ω D⁻¹ (b − A x)` (complex diagonal) -/
restate complex_jacobi_is_operator := PyamgV.C02X.cjacSweep_eq_operator
restate complex_jacobi_nonexpansive := PyamgV.C02X.cjacobi_cnonexp
/-- every admissible smoother of the complex model is non-expansive in the complex energy norm -/
restate complex_model_smoother_nonexpansive := PyamgV.C02X.csmF_cnonexp
/-- **the executable cycle model on `CRat` arrays, read as pairs of real functions, is the abstract recursion `cyc`** -/
restate complex_cycle_model_is_cyc := PyamgV.C02X.ccycle_refines
/-- **C02 for the executable model on complex Hermitian problems**: under `CWFModel` (Galerkin products, `R = Pᴴ`, one
stored diagonal per row, real `0 ≤ ω ≤ 2` for Gauss-Seidel/SOR, real `ω` and the damping bound for Jacobi, solvable
coarse problems, energy-exact coarsest solve) and a Hermitian PSD finest matrix the model cycle does not increase the
complex energy `⟨e, A e⟩` of the error -/
restate complex_model_cycle_nonexpansive := PyamgV.C02X.cmodel_cycle_nonexp
/-- the functional the driver compares: `⟨x*−x, A(x*−x)⟩ = Re⟨x, A x⟩ − 2 Re⟨b, x⟩ + Re⟨b, x*⟩` -/
restate complex_energy_functional := PyamgV.C02X.cfunctional_eq
/-- non-vacuity: `A = [[2, i], [−i, 2]]`, `P = (1, i)ᵀ`, `R = Pᴴ`, Gauss-Seidel pre- and symmetric SOR(3/2)
post-smoothing, exact coarse solve: every hypothesis holds; hence for all `x, b ∈ ℚ(i)²`, all cycle types -/
restate example_complex_hierarchy_nonexpansive := PyamgV.C02X.CEx.example_ccycle_nonexp
example : C02X.CWFModel C02X.CEx.solveF C02X.CEx.Ac1 [C02X.CEx.L2] := C02X.CEx.wf2

/-- the executable complex model on that problem: the hierarchy `mkHierarchyH` builds has the coarse matrix `(2)`,
passes the driver's exact checks (`A₀` Hermitian, real form positive definite, data hypotheses), and one V-cycle from
`x = 0`, `b = (1, i)` does not increase the energy functional -/
example :
    let A : K.Csr CRat := ⟨2, #[0, 2, 4], #[0, 1, 0, 1], #[⟨2, 0⟩, ⟨0, 1⟩, ⟨0, -1⟩, ⟨2, 0⟩]⟩
    let P : K.Csr CRat := ⟨2, #[0, 1, 2], #[0, 0], #[⟨1, 0⟩, ⟨0, 1⟩]⟩
    let (ls, Ac, _) := C02X.mkHierarchyH CRat.conj A [⟨2, 1, P, .gs 1 .forward 1, .gs ⟨3/2, 0⟩ .symmetric 1⟩]
    let solve := fun rhs => (C02.gaussSolve Ac rhs).getD #[]
    let b : Array CRat := #[⟨1, 0⟩, ⟨0, 1⟩]
    let x' := C02.cycle solve .V 1 ls #[0, 0] b
    Ac = #[#[⟨2, 0⟩]] ∧ C02X.isHermitian A = true ∧
      C02.pivotsPositive (C02X.realForm (C02.toDense A 2) 2 2) = true ∧
      C02X.ccheckLevels Ac 1 ls = true ∧ C02X.cfunctionalLe A b #[0, 0] x' = true := by decide +kernel

/-- the CSR and the BSR copy of a dense matrix have the operator of the dense matrix -/
restate csr_copy_operator := PyamgV.C02X.csrOp_ofDense
restate bsr_copy_operator := PyamgV.C02X.bsrOp_ofDense
/-- one block row of the `block_gauss_seidel` kernel model with `A_ii Dinv_i = I` (an exact subspace correction) -/
restate block_gs_step_energy := PyamgV.C02X.bgsStep_energy
/-- the `block_gauss_seidel` kernel model over any list of block rows -/
restate block_gs_kernel_nonexpansive := PyamgV.C02X.blockGaussSeidel_array_nonexp
/-- the Python driver model `K.pyBlockGaussSeidel`: forward / backward / symmetric, any iteration count -/
restate py_block_gauss_seidel_nonexpansive := PyamgV.C02X.pyBlockGaussSeidel_array_nonexp
/-- the `block_jacobi` kernel model over all block rows is `x + ω D_B⁻¹ (b − A x)` -/
restate block_jacobi_kernel_is_operator := PyamgV.C02X.blockJacobi_array_operator
/-- the Python driver model `K.pyBlockJacobi` under `ω ‖D_B⁻¹ r‖²_A ≤ 2⟨D_B⁻¹ r, r⟩` -/
restate py_block_jacobi_nonexpansive := PyamgV.C02X.pyBlockJacobi_array_nonexp
/-- an array-level smoother that never increases the energy of the error is a `NonExp` iteration on functions -/
restate array_smoother_nonexpansive := PyamgV.C02X.liftSm_nonexp
/-- every admissible smoother of a BSR level (`bsmOK`) is non-expansive in the level's energy norm -/
restate block_model_smoother_nonexpansive := PyamgV.C02X.bsmF_nonexp
/-- **the executable cycle model on BSR levels, read as functions, is the abstract recursion `cyc`** -/
restate block_cycle_model_is_cyc := PyamgV.C02X.bcycle_refines
/-- **C02 for the executable model with BSR levels and block smoothers**: under `BWFModel` (Galerkin products,
`R = Pᵀ`, block Gauss-Seidel with exact inverse diagonal blocks in any sweep mode, block Jacobi with exact inverse
diagonal blocks under its damping bound, the pointwise smoothers under the conditions of `model_cycle_nonexpansive`,
solvable coarse problems, energy-exact coarsest solve) and a symmetric PSD finest matrix the model cycle does not
increase the energy of the error -/
restate block_model_cycle_nonexpansive := PyamgV.C02X.bmodel_cycle_nonexp
/-- non-vacuity: 4-point Poisson matrix in `2 × 2` blocks, piecewise-constant `P`, `R = Pᵀ`, forward block Gauss-Seidel
pre-smoothing, two block Jacobi(1) post-smoothing steps with `Dinv = (1/3)[[2,1],[1,2]]`, exact coarse solve: every
hypothesis holds; hence for all `x, b ∈ ℚ⁴`, all cycle types -/
restate example_block_hierarchy_nonexpansive := PyamgV.C02X.BEx.example_bcycle_nonexp
example : C02X.BWFModel C02X.BEx.solveF C02X.BEx.Ac2 2 [C02X.BEx.L4] := C02X.BEx.wf4

/-- the executable BSR model on that problem: `bmkHierarchy` forms `Dinv = (1/3)[[2,1],[1,2]]` per block and the coarse
matrix `[[2,−1],[−1,2]]`, the driver's exact checks pass, and one W-cycle from `x = 0`, `b = (1,1,1,1)` does not
increase the energy functional -/
example :
    let Ad : C02.Dense Rat := #[#[2, -1, 0, 0], #[-1, 2, -1, 0], #[0, -1, 2, -1], #[0, 0, -1, 2]]
    let P : K.Csr Rat := ⟨4, #[0, 1, 2, 3, 4], #[0, 0, 1, 1], #[1, 1, 1, 1]⟩
    (match C02X.bmkHierarchy Ad [⟨4, 2, P, .bgs 2 .forward 1, .bjac 2 1 2⟩] with
    | none => false
    | some (ls, Ac, nc) =>
      let solve := fun rhs => (C02.gaussSolve Ac rhs).getD #[]
      let b : Array Rat := #[1, 1, 1, 1]
      let x' := C02X.cycleO solve .W 1 (ls.map C02X.BLvl.toO) #[0, 0, 0, 0] b
      decide (Ac = #[#[2, -1], #[-1, 2]]) && decide (nc = 2) && C02X.bcheckLevels Ac nc ls &&
        C02.functionalLe (C02.ofDense Ad 4) b #[0, 0, 0, 0] x') = true := by decide +kernel

end PyamgV.Props.C02
