import PyamgV.Props.Restate
import PyamgV.Proofs.Utils
import PyamgV.Proofs.Proj
import PyamgV.Proofs.C19Scale
import PyamgV.Proofs.C19Diag
import PyamgV.Proofs.C19Filter
import PyamgV.Proofs.C19Pinv
import PyamgV.Proofs.C19Bsr
import PyamgV.Proofs.C19Trunc
import PyamgV.Proofs.ExtC19Trunc
import PyamgV.Proofs.ExtC19Inv
import PyamgV.Proofs.ExtC19bBlock
import PyamgV.Proofs.ExtW6InvHomog
import PyamgV.Proofs.ExtC19bInst
import PyamgV.Proofs.ExtC19bCoo
import PyamgV.Proofs.ExtC19SVec
import PyamgV.Proofs.ExtC19TSvdVec
import Mathlib.Analysis.Real.Sqrt

/-! # C19 — matrix utilities compute their stated algebraic result

Models: `PyamgV.C19.*` (`Model/C19Utils.lean`) — the definitions the correspondence run executes on
`Rat` / Gaussian rationals and compares with `pyamg/util/utils.py` and the kernels of
`amg_core/linalg.h` on every run.  A compressed matrix is the list of its major slices (CSR rows /
CSC columns), each the list of stored `(minor index, value)` pairs in storage order; unsorted,
duplicated, missing and explicitly zero entries are allowed.  The theorems hold for every such
matrix, every scaling vector, every threshold, over any (ordered) field. -/
namespace PyamgV.Props.C19
open PyamgV

/-! ### scaling = product with the diagonal matrix; the structure is untouched -/
/-- function-level statement: `scale_rows = diag(v) A` as operators -/
restate scale_rows_spec := PyamgV.scaleRows_spec
restate scale_cols_spec := PyamgV.scaleCols_spec
/-- the executable models (`csr_scale_rows` / `csc_scale_columns`, `csr_scale_columns` /
`csc_scale_rows`) are those functions ... -/
restate scale_major_is_scaleRows := PyamgV.C19.scaleMajor_eq_scaleRows
restate scale_minor_is_scaleCols := PyamgV.C19.scaleMinor_eq_scaleCols
/-- ... hence `diag(v) A` and `A diag(v)` -/
restate scale_major_spec := PyamgV.C19.scaleMajor_spec
restate scale_minor_spec := PyamgV.C19.scaleMinor_spec
/-- same index array and same slice lengths after either scaling -/
restate scale_major_idx := PyamgV.C19.scaleMajor_idx
restate scale_minor_idx := PyamgV.C19.scaleMinor_idx
restate scale_major_lengths := PyamgV.C19.scaleMajor_lengths
restate scale_minor_lengths := PyamgV.C19.scaleMinor_lengths

/-- BSR storage: expanding to scalar rows commutes with SciPy's block loops, so the BSR branches are
`diag(v) A` / `A diag(v)` by the two theorems above -/
restate bsr_scale_rows_expand := PyamgV.C19.bsrExpand_scaleRows
restate bsr_scale_cols_expand := PyamgV.C19.bsrExpand_scaleCols

/-! ### diagonal extraction, inverse with the zero rule, symmetric rescaling -/
/-- `get_diagonal(inv=True)`: `Dinv_i D_i = 1` where `D_i != 0`, `Dinv_i = 0` elsewhere -/
restate diag_inverse_zero_rule := PyamgV.C19.invZero_mul
/-- entries of `D^-1/2 A D^-1/2` in the model: `a_ij sinv_i sinv_j` (duplicates summed) -/
restate sym_rescaled_entry := PyamgV.C19.entry_symScaled
/-- the diagonal after `symmetric_rescaling`: `d_i / s_i^2` where `d_i != 0` (`s_i` the root the model
took), `0` where `d_i = 0` -/
restate sym_rescaling_diag := PyamgV.C19.symRescale_diag
/-- ... which is `1` for a root of `d_i` (complex data) and `-1` for a root of `-d_i = |d_i|` -/
restate unit_of_root := PyamgV.C19.unit_of_root
restate sign_of_abs_root := PyamgV.C19.sign_of_abs_root

/-! ### row / column filters -/
/-- `filter_matrix_rows(A, theta)` / `filter_matrix_columns`: slice `i` of the model (the strength
kernel run on indices shifted past the diagonal) keeps exactly the stored entries with
`|a|^2 >= theta^2 max_k |a_k|^2`, the maximum over ALL stored entries (diagonal included) -/
restate filter_max_rule := PyamgV.C19.filterRowsMax_getD
restate filter_shift_trick := PyamgV.C19.socAbsRow_spec
restate row_max_bounds := PyamgV.C19.rowMaxSq_ge
restate row_max_attained := PyamgV.C19.rowMaxSq_attained
/-- `filter_matrix_rows(diagonal=True)`: entries below `theta |a_ii|` zeroed, nothing else -/
restate filter_diag_rule := PyamgV.C19.filterRowDiag_plain
/-- `lump=True` preserves every row sum -/
restate filter_lump_row_sum := PyamgV.C19.filterRowDiag_lump_sum

/-! ### row truncation -/
/-- per-instance certificate => specification: when `truncCheck` holds for a row (decided in the
driver for every row of every compared case), the model output is a rearrangement of the stored
entries with all but `k` of them zeroed, no zeroed one larger in modulus than a kept one -/
restate truncate_row_spec := PyamgV.C19.truncateRow_spec
/-- (E9) the literal `qsort_twoarrays` model is correct for EVERY input: for every array, every segment
`0 <= left`, `right < size` and every `fuel >= right - left` (segment length minus one) the result is
a rearrangement of the segment only (`Seg`: a permutation of the array, nothing outside the segment
moved, segment entries come from the segment) and the segment is ascending in `nsq` (`SortedSeg`) -/
restate qsort_correct := PyamgV.C19.qsortTwo_correct
/-- (E9) the row `truncate_rows_csr` zeroes the head of (fuel `len + 1`) is a permutation of the stored
entries, ascending in modulus -/
restate sorted_row_perm := PyamgV.C19.sortedRow_perm
restate sorted_row_ascending := PyamgV.C19.sortedRow_pairwise
/-- (E9) the per-instance certificate can never fail ... -/
restate trunc_certificate_always := PyamgV.C19.truncCheck_true
/-- (E9) ... so the specification of the truncated row holds for every row and every `k`, no
certificate hypothesis -/
restate truncate_row_spec_unconditional := PyamgV.C19.truncateRow_spec_unconditional

/-! ### block pseudo-inverse and the filtering projection -/
/-- the four Penrose equations have at most one solution ... -/
restate penrose_unique := PyamgV.C19.penrose_unique
/-- ... which is the inverse for a regular block -/
restate penrose_of_inverse := PyamgV.C19.penrose_of_inverse
/-- the model pseudo-inverse is only returned when it passed the four equations (decided exactly) -/
restate model_pinv_is_penrose := PyamgV.C19.pinv_isPenrose
restate model_penrose_check_iff := PyamgV.C19.isPenrose_iff
/-- one block row of `filter_operator`: with `Z (B_J^H B_J) = 1` the corrected row maps `B_J` to the
target exactly (complex data) -/
restate filter_operator_row := PyamgV.C19.filter_row_spec
/-- (E9) the executable Gauss-Jordan inverse is exact: `Mat.inv M = some Z` gives `Z M = 1` entry by
entry, for every matrix over a field -/
restate model_inverse_exact := PyamgV.C19.Mat.inv_leftInv
/-- (E9) refinement of `filter_operator_row` to the executable array model: a row of `filterOp` whose
block row uses an exact left inverse `Z` of the local Gram matrix satisfies `(F B)[i, :] = Bf[i, :]` -/
restate filter_operator_model_row := PyamgV.C19.filterOp_row_constraint
/-- (E9) ... and since `Mat.inv` is exact: every row of every block row that `filterOp` flags
satisfies the constraint, for every input of consistent shape (no per-instance check) -/
restate filter_operator_model_constraint := PyamgV.C19.filterOp_constraint
/-- (E9) the residual the driver decides per instance (`constraint-ok`) is zero on flagged rows -/
restate filter_operator_residual_zero := PyamgV.C19.filterOp_residual_zero
/-- (E9) which block rows are flagged: non-empty pattern and regular local Gram matrix -/
restate filter_operator_flag := PyamgV.C19.filterOp_flag
/-- real-transpose form for a whole matrix (shared with C10) -/
restate proj_constraint := PyamgV.proj_constraint

/-! ### (E26) the block pseudo-inverse certificate can never fail -/
/-- (E26) `Mat.rref` (the Gauss-Jordan reduction of `Mat.inv` and `Mat.pinvCand`) on every shaped input:
pivot columns are unit vectors, rows below the rank vanish on the reduced columns, the result is row
equivalent to the input in both directions (`M = L E`, `E = P M`) -/
restate rref_spec := PyamgV.C19.rref_spec
/-- (E26) the executable inverse succeeds on EVERY regular matrix (`det != 0`) and is a left inverse
(`model_inverse_exact` was: if it succeeds it is exact) -/
restate model_inverse_total := PyamgV.C19.Mat.inv_total
/-- (E26) algebra: `A = C F`, `Z1 (F F^H) = 1`, `Z2 (C^H C) = 1` give the four Penrose equations for
`F^H Z1 Z2 C^H` -/
restate penrose_of_rank_factorisation := PyamgV.C19.penrose_of_rank_fact
/-- (E26) `B^H B` is regular when `B` has a left inverse and the conjugation is positive definite -/
restate gram_regular := PyamgV.C19.gram_det_ne_zero
/-- (E26) the Boolean Penrose check of the model is the Mathlib-matrix statement `IsPenrose` of
`penrose_unique` (rectangular inputs) -/
restate model_penrose_check_is_mathlib := PyamgV.C19.isPenrose_toMx
/-- (E26) the rank-factorisation candidate exists for every rectangular input and is the Moore-Penrose
inverse of the Mathlib matrix of the input -/
restate pinv_candidate_spec := PyamgV.C19.pinvCand_spec
/-- (E26) **`pinv_total`**: for every rectangular `n x m` input, `n, m >= 1`, over a field with a positive
definite conjugation (`IsConj`: additive, multiplicative, involutive, `sum conj(v_i) v_i = 0 -> v = 0`),
`Mat.pinv conj A = some X`, `X` passes `Mat.isPenrose` and is the only `m x n` matrix that does:
`model_pinv_is_penrose` is unconditional and the driver reply `fail` is unreachable -/
restate pinv_total := PyamgV.C19.pinv_total
restate pinv_total_equations := PyamgV.C19.pinv_total_equations
restate pinv_total_rect := PyamgV.C19.pinv_total_rect
/-- (E26) the two conjugations the driver uses: `id` on `Rat`, `CRat.conj` on the Gaussian rationals -/
restate conj_id_rat := PyamgV.C19.isConj_id_rat
restate conj_crat := PyamgV.C19.isConj_crat
restate pinv_total_rat := PyamgV.C19.pinv_total_rat
restate pinv_total_crat := PyamgV.C19.pinv_total_crat
/-- (E26) `get_block_diag(inv_flag=True)` model: never fails, entry `k` is the unique solution of the
Penrose equations for the diagonal block `k` -/
restate block_diag_inv_total := PyamgV.C19.blockDiagInv_total
/-- (E26) ... which is the inverse for a regular block -/
restate pinv_of_inverse := PyamgV.C19.pinv_of_inverse
/-- (E26) `scale_block_inverse` model: never fails, returns `(D A, D)`, `D` block diagonal with the
Moore-Penrose inverses of the diagonal blocks -/
restate scale_block_inverse_spec := PyamgV.C19.scaleBlockInverse_spec

/-! ### (E26) COO / fallback branch of `scale_rows` / `scale_columns` -/
/-- (E26) `csr_array(A)` of a COO matrix (model `cooCsr`: canonical format, duplicates summed) keeps every
matrix entry; its rows have strictly ascending columns -/
restate coo_tocsr_entry := PyamgV.C19.cooCsr_entry
restate coo_tocsr_canonical := PyamgV.C19.cooCsrRow_sorted
/-- (E26) the fallback branch computes `diag(v) A` / `A diag(v)` entry by entry for every COO input
(unsorted, duplicated, explicit zeros) -/
restate coo_scale_rows_entry := PyamgV.C19.cooScale_rows_entry
restate coo_scale_cols_entry := PyamgV.C19.cooScale_cols_entry
restate coo_scale_idx := PyamgV.C19.cooScale_idx

/-! ### spectral radius estimate -/
/-- every Ritz value of a symmetric operator w.r.t. an orthonormal basis is bounded by the Rayleigh
bound: in exact arithmetic the estimate never exceeds the spectral radius -/
restate ritz_le_rho := PyamgV.ritz_le_rho


/-! ### (E39) the Krylov process behind `approximate_spectral_radius` / `condest`
Model `C19S.arnStep` / `lanStep` / `aeRun` / `approxEig` (`Model/ExtC19SArnoldi.lean`): the loop of
`_approximate_eigenvalues`, run in binary64 by the driver (op `ext_c19_arnoldi`) and compared with the `H`, `V` and
`breakdown_flag` of the code for given start vectors.  The theorems are about the same definitions over a module
over an ordered field with a definite symmetric form and an exact square root (`Exact`: form definite,
`sqrt a * sqrt a = a` for `a >= 0`, breakdown tolerance `> 0`, start vector `!= 0`); real scalars only. -/
/-- (E39) every state of the Arnoldi model (any number of passes, through a breakdown): `v_0 .. v_m` pairwise
orthogonal, norm one (the vector appended by the pass that detected a breakdown: norm zero or one), `m + 1` vectors for
`m` columns -/
restate arnoldi_model_orthonormal := PyamgV.C19S.arnoldi_model_orthonormal
/-- (E39) no breakdown detected so far: `k` passes give exactly `k` columns -/
restate arnoldi_model_length := PyamgV.C19S.arnoldi_model_length
/-- (E39) `_approximate_eigenvalues` = `min(n, maxiter)` passes; rejected when that is zero -/
restate approx_eig_is_run := PyamgV.C19S.approxEig_eq_run
/-- (E39) **`H = V^T A V`**: `H_{ij} = <v_i, A v_j>` on the leading block -/
restate arnoldi_model_H_eq := PyamgV.C19S.arnoldi_model_H_eq
/-- (E39) `H` is upper Hessenberg and `A v_j = sum_{l <= m} H_{lj} v_l` for every column -/
restate arnoldi_model_relation := PyamgV.C19S.arnoldi_model_relation
/-- (E39) symmetric `A`: the leading block of `H` is symmetric and tridiagonal -/
restate arnoldi_model_H_symm := PyamgV.C19S.arnoldi_model_H_symm
/-- (E39) **the hypotheses of `ritz_le_rho` are discharged for the model**: `Q y = sum y_i v_i` is an isometry of
`K^m` into the space and every eigenpair of the leading block satisfies the Galerkin condition -/
restate arnoldi_model_ritz_hyps := PyamgV.C19S.arnoldi_model_ritz_hyps
/-- (E39) ... so `ritz_le_rho` applies: every eigenvalue `theta` of the leading block of `H` has `|theta| <= rho` whenever
`|<A x, x>| <= rho <x, x>` (`rho` = spectral radius for symmetric `A`): the estimate `max |theta|` returned by every
restart cycle, for every start vector, never exceeds the spectral radius -/
restate arnoldi_model_ritz_le_rho := PyamgV.C19S.arnoldi_model_ritz_le_rho
/-- (E39) the same for eigenvectors given as functions on `Nat` (`IsRitz`) -/
restate arnoldi_model_ritz_abs_le := PyamgV.C19S.arnoldi_model_ritz_abs_le
/-- (E39) **Ritz values lie in `[lambda_min, lambda_max]`** (any Rayleigh bounds `lo <x,x> <= <Ax,x> <= hi <x,x>`) -/
restate arnoldi_model_ritz_between := PyamgV.C19S.arnoldi_model_ritz_between
/-- (E39) residual of a Ritz pair: `A x - theta x = (H_{m,m-1} y_{m-1}) v_m`, `x = V y != 0` -- the `error` quantity
`H[nvecs, nvecs-1] * evect[-1, max_index]` of `approximate_spectral_radius` -/
restate arnoldi_model_residual := PyamgV.C19S.arnoldi_model_residual
/-- (E39) **breakdown = invariant subspace**: when the last subdiagonal entry is zero every Ritz pair is an eigenpair
of `A` -/
restate arnoldi_model_breakdown_eigen := PyamgV.C19S.arnoldi_model_breakdown_eigen
/-- (E39) **`symmetric=True` (Lanczos) = Arnoldi in exact arithmetic** for a symmetric operator: same columns of `H`,
same flag, the two retained vectors are the last two Arnoldi vectors -/
restate lanczos_eq_arnoldi := PyamgV.C19S.lanczos_eq_arnoldi
restate lanczos_cols_eq := PyamgV.C19S.lanczos_cols_eq
/-- (E39) ... hence the bounds for the Ritz values of the matrix the symmetric branch returns (`condest`) -/
restate lanczos_model_ritz_abs_le := PyamgV.C19S.lanczos_model_ritz_abs_le
restate lanczos_model_ritz_between := PyamgV.C19S.lanczos_model_ritz_between
/-- (E39) the model commutes with every homomorphism of the vector operations ... -/
restate arnoldi_run_hom := PyamgV.C19S.aeRun_hom
/-- (E39) ... so the statements hold for the `Vector K n` instance `approxEigVec` that the driver runs (in `Float`):
orthonormal basis and `H = V^T A V`, Ritz bounds, Lanczos = Arnoldi for `A = A^T` -/
restate vec_arnoldi_orthonormal := PyamgV.C19S.vec_arnoldi_orthonormal
restate vec_arnoldi_ritz := PyamgV.C19S.vec_arnoldi_ritz
restate vec_lanczos_eq_arnoldi := PyamgV.C19S.vec_lanczos_eq_arnoldi
/-- (E39) the list-level function of the driver is that run -/
restate approx_eig_vec_is_run := PyamgV.C19S.approxEigVec_eq

/-! ### (E52) complex Hermitian input, the restart loop of `approximate_spectral_radius`, `condest` / `cond`
Scalars: pairs `C19T.Cx F` over an ordered field `F` with an exact square root (`Model/ExtC19TCx.lean`; field and
`StarRing` instances for the operations of the model in `Proofs/ExtC19TCxField.lean`); the Krylov model is the generic
one of E39 run with the conjugated inner product (`approxEigCx`, binary64 pairs: op `ext_c19t_arnoldi`).  `ExactC`: the
Hermitian form is definite and measured by the real part, `sqrt a * sqrt a = a` for `a >= 0`, breakdown tolerance `> 0`,
start vector `!= 0`. -/
/-- (E52) the pair type carries the operations of the model -/
restate cx_pairs_instances := PyamgV.C19T.Cx.cx_instances
/-- (E52) the Arnoldi invariant over any field with an involution and any definite Hermitian form (`ExactH`) -/
restate herm_arnoldi_invariant := PyamgV.C19T.aeRunH_inv
/-- (E52) every state of the complex model: `v_0 .. v_m` orthonormal for `<u, v> = u^H v` (the vector appended by the pass
that detected a breakdown: norm zero or one), `m + 1` vectors for `m` columns -/
restate carnoldi_model_orthonormal := PyamgV.C19T.cmodel_orthonormal
/-- (E52) **`H = V^H A V`** on the leading block -/
restate carnoldi_model_H_eq := PyamgV.C19T.cmodel_H_eq
/-- (E52) `H` upper Hessenberg, `A v_j = sum_{l <= m} H_{lj} v_l` -/
restate carnoldi_model_relation := PyamgV.C19T.cmodel_relation
/-- (E52) Hermitian `A`: the leading block of `H` is Hermitian and tridiagonal -/
restate carnoldi_model_H_herm := PyamgV.C19T.cmodel_H_herm
/-- (E52) **every Ritz value is a Rayleigh quotient `<x, A x> / <x, x>`, `x != 0`: it lies in the numerical range** -/
restate carnoldi_model_ritz_rayleigh := PyamgV.C19T.cmodel_ritz_rayleigh
/-- (E52) **Hermitian `A`: every Ritz value is real** -/
restate carnoldi_model_ritz_real := PyamgV.C19T.cmodel_ritz_real
/-- (E52) `lo <= re theta <= hi` for all Rayleigh bounds of `re <x, A x>` (`[lambda_min, lambda_max]` for Hermitian `A`) -/
restate carnoldi_model_ritz_between := PyamgV.C19T.cmodel_ritz_between
/-- (E52) `|theta|^2 <= rho^2` for the numerical radius `rho` (any `A`) -/
restate carnoldi_model_ritz_normSq_le := PyamgV.C19T.cmodel_ritz_normSq_le
/-- (E52) **Hermitian `A`, `|<x, A x>| <= rho <x, x>`: `theta` real and `|theta| <= rho`** -/
restate carnoldi_model_ritz_abs_le := PyamgV.C19T.cmodel_ritz_abs_le
/-- (E52) ... and the number `np.abs(theta)` the code returns, as the model computes it, is `<= rho` -/
restate carnoldi_model_estimate_le := PyamgV.C19T.cmodel_estimate_le
/-- (E52) residual of a Ritz pair `A x - theta x = (H_{m,m-1} y_{m-1}) v_m`, `x = V y != 0` -/
restate carnoldi_model_residual := PyamgV.C19T.cmodel_residual
/-- (E52) breakdown = invariant subspace -/
restate carnoldi_model_breakdown_eigen := PyamgV.C19T.cmodel_breakdown_eigen
/-- (E52) the same for the `Vector (Cx F) n` instance the driver runs, form `u^H v` on `(Cx F)^n` -/
restate cvec_arnoldi_orthonormal := PyamgV.C19T.cvec_orthonormal
restate cvec_arnoldi_H_herm := PyamgV.C19T.cvec_H_herm
restate cvec_arnoldi_ritz := PyamgV.C19T.cvec_ritz
/-- (E52) the list-level function of the driver is that run -/
restate approx_eig_cx_is_run := PyamgV.C19T.approxEigCx_eq

/-! (E52) restart loop: model `C19T.asrCycle` / `asrLoop` / `asr` / `asrVec` (op `ext_c19t_asr`): the LAPACK
eigen-decomposition of the small `H` of every pass is an oracle input that the model verifies (`eigOk`: residual
`|H y - theta y|^2 <= vtolSq |y|^2`, `y != 0`); the theorems take `vtolSq = 0`. -/
/-- (E52) an oracle pair accepted with tolerance zero is an exact eigenpair of the leading block with `y != 0` -/
restate oracle_pair_is_ritz := PyamgV.C19T.eigOk_isRitz
/-- (E52) a pass that succeeds from `v0 != 0`: the Krylov run of `v0`, `(theta, y)` a Ritz pair of it, `error` the residual
coefficient `H_{m,m-1} y_{m-1}`, new start vector = the Ritz vector `V y != 0`, stopping flag as computed -/
restate asr_cycle_spec := PyamgV.C19T.asrCycle_spec
/-- (E52) **the loop**: between 1 and `restart + 1` passes, chained by the restart vectors, only the last may have
converged or broken down -/
restate asr_model_spec := PyamgV.C19T.asr_spec
/-- (E52) **every estimate the loop can return is `|theta|` of a Ritz pair of one of its passes, hence `<= rho` for
Hermitian `A`** (`|<x, A x>| <= rho <x, x>`) -/
restate asr_model_estimate_le := PyamgV.C19T.asr_estimate_le
/-- (E52) the loop commutes with homomorphisms of the vector operations ... -/
restate asr_model_hom := PyamgV.C19T.asr_hom
/-- (E52) ... so the statement holds for the `Vector` instance the driver runs, and the list-level function `asrCx`
(argument checks of `approximate_spectral_radius` included) is that loop -/
restate cvec_asr_estimate_le := PyamgV.C19T.cvec_asr_estimate_le
restate asr_cx_is_loop := PyamgV.C19T.asrCx_eq

/-! (E52) `condest` (model `C19T.condestO`, op `ext_c19t_condest`) and `cond` (model `C19T.condCert`: `max sigma / min sigma` of
singular triples verified by `svdCert`, op `ext_c19t_cond`) -/
/-- (E52) Ritz values of `A^H A` are real and lie in `[smin^2, smax^2]` whenever `smin^2 <x,x> <= <Ax,Ax> <= smax^2 <x,x>` -/
restate normal_ritz_between := PyamgV.C19T.normal_ritz_between
/-- (E52) a successful `condest` run: Krylov run of `A^H A`, verified oracle, `sqrt (max |ev| / min |ev|)` -/
restate condest_model_spec := PyamgV.C19T.condestO_spec
/-- (E52) **`condest <= smax / smin = cond_2`** for the model -/
restate condest_model_le_cond := PyamgV.C19T.condestO_le_cond
restate cvec_condest_le_cond := PyamgV.C19T.cvec_condest_le_cond
restate condest_cx_is_run := PyamgV.C19T.condestCx_eq
/-- (E52) an accepted certificate (tolerance zero): `A v_i = sigma_i u_i`, `U^H U = V^H V = V V^H = I`, `sigma_i` real -/
restate svd_certificate_spec := PyamgV.C19T.svdCert_spec
/-- (E52) `|x|^2 = sum |c_i|^2`, `|A x|^2 = sum sigma_i^2 |c_i|^2` for `c_i = v_i^H x` -/
restate svd_certificate_norms := PyamgV.C19T.svd_norms
/-- (E52) `(min sigma)^2 |x|^2 <= |A x|^2 <= (max sigma)^2 |x|^2`: the accepted values are the extreme singular values -/
restate svd_certificate_bounds := PyamgV.C19T.svd_bounds
/-- (E52) **`cond`**: the value is `max sigma / min sigma` with these bounds -- the 2-norm condition number by definition -/
restate cond_certificate_spec := PyamgV.C19T.condCert_spec
restate cond_certificate_bounds := PyamgV.C19T.condCert_bounds
restate cond_cx_is_cert := PyamgV.C19T.condCertCx_eq
/-- (E52) **`condest <= cond` between the two executable models** -/
restate condest_le_cond_models := PyamgV.C19T.cvec_condest_le_condCert

/-! ### non-vacuity: the models do what the theorems say on concrete irregular inputs -/
open PyamgV.C19 in
example : scaleMajor (α := Rat) #[2, 1/2] [[(1, 3), (0, 1)], [(1, 4), (1, -2)]] = [[(1, 6), (0, 2)], [(1, 2), (1, -1)]] := by
  decide +kernel
open PyamgV.C19 in
example : filterRowsMax (α := Rat) nsqQ (1/2) [[(0, 1), (1, 3/10), (1, 3/10)], [(1, 2), (0, -1)]]
    = [[(0, 1)], [(1, 2), (0, -1)]] := by decide +kernel
open PyamgV.C19 in
example : filterRowDiag (α := Rat) nsqQ (1/2) true 0 [(1, 1), (0, 4), (2, 3)] = [(1, 0), (0, 5), (2, 3)] := by decide +kernel
open PyamgV.C19 in
example : Mat.pinv (α := Rat) id #[#[1, 2], #[2, 4]] = some #[#[1/25, 2/25], #[2/25, 4/25]] := by decide +kernel
open PyamgV.C19 in
example : truncCheck (α := Rat) nsqQ 2 [(0, 1), (1, -3), (2, 2), (3, 1/2)] = true
    ∧ truncateRow (α := Rat) nsqQ 2 [(0, 1), (1, -3), (2, 2), (3, 1/2)] = [(3, 0), (0, 0), (2, 2), (1, -3)] := by decide +kernel
open PyamgV.C19 in
example : sortedRow (α := Rat) nsqQ [(0, 1), (1, -3), (2, 2), (3, 1/2), (4, -3), (5, 0)]
    = [(5, 0), (3, 1/2), (0, 1), (2, 2), (4, -3), (1, -3)] := by decide +kernel
/-- a flagged block row of `filterOp` (2 pattern columns, `nd = 1`): hypotheses of
`filter_operator_model_constraint` hold and the corrected row maps `B` to `Bf` -/
example : let r := PyamgV.C19.filterOp (α := Rat) id 1 1 1 #[#[0, 2]] #[#[1, 5, 2]] #[#[1], #[7], #[2]] #[#[3]]
    r.2 = [true] ∧ r.1 = #[#[3/5, 0, 6/5]] := by decide +kernel
open PyamgV.C19 in
example : bsrExpand (α := Rat) 2 1 (bsrScaleRows 2 1 #[2, 3] [[(0, #[1, 5])]]) = [[(0, 2)], [(0, 15)]] := by decide +kernel
open PyamgV.C19 in
example : symRescale (α := Rat) sqrtAbsQ? 2 [[(0, 4), (1, 2)], [(1, -16), (0, 8)]]
    = some ([2, 4], [1/2, 1/4], [[(0, 1), (1, 1/4)], [(1, -1), (0, 1)]]) := by decide +kernel

/-- (E26) rectangular rank-one input: hypotheses of `pinv_total_rat` hold (`Shaped 3 2`), the model returns
the Moore-Penrose inverse -/
example : PyamgV.C19.Shaped 3 2 (#[#[1, 2], #[2, 4], #[0, 0]] : PyamgV.C19.Mat Rat)
    ∧ PyamgV.C19.Mat.pinv (α := Rat) id #[#[1, 2], #[2, 4], #[0, 0]]
      = some #[#[1/25, 2/25, 0], #[2/25, 4/25, 0]] := by
  refine ⟨⟨rfl, fun i hi => ?_⟩, by decide +kernel⟩
  match i, hi with
  | 0, _ => rfl
  | 1, _ => rfl
  | 2, _ => rfl
/-- (E26) complex rank-one block -/
example : PyamgV.C19.Mat.pinv (α := CRat) CRat.conj #[#[⟨1, 0⟩, ⟨0, 1⟩], #[⟨0, 1⟩, ⟨-1, 0⟩]]
    = some #[#[⟨1/4, 0⟩, ⟨0, -1/4⟩], #[⟨0, -1/4⟩, ⟨-1/4, 0⟩]] := by decide +kernel
/-- (E26) `scale_block_inverse` with a singular block -/
example : PyamgV.C19.scaleBlockInverse (α := Rat) id 1 #[#[2, 1], #[3, 0]]
    = some (#[#[1, 1/2], #[0, 0]], #[#[1/2, 0], #[0, 0]]) := by decide +kernel
/-- (E26) COO fallback: unsorted triples with a duplicated position -/
example : PyamgV.C19.cooScale (α := Rat) true #[2, 1/2] 2 [(1, 0, 3), (0, 1, 2), (1, 0, 1), (0, 0, 5)]
    = [[(0, 10), (1, 4)], [(0, 2)]] := by decide +kernel

/-- (E39) exact run of the Arnoldi model (`A = [[2,1],[1,2]]`, `v0 = (3,4)`, all norms rational): orthonormal `V`,
`H = V^T A V = [[74/25, 7/25],[7/25, 26/25]]` with eigenvalues `1, 3` = the eigenvalues of `A` (breakdown in pass 2,
`H_{2,1} = 0`); the symmetric branch returns the same columns -/
example : PyamgV.C19S.approxEigRat [[2, 1], [1, 2]] (1/1000000) false 5 [3, 4]
      = some ([[3/5, 4/5], [4/5, -3/5], [0, 0]], [[74/25, 7/25], [7/25, 26/25, 0]], true)
    ∧ PyamgV.C19S.approxEigRat [[2, 1], [1, 2]] (1/1000000) true 5 [3, 4]
      = some ([[3/5, 4/5], [4/5, -3/5]], [[74/25, 7/25], [7/25, 26/25, 0]], true) := by decide +kernel
/-- (E39) **what the code does for a nonsymmetric matrix**: `A = [[0,1],[0,0]]` is nilpotent (`rho(A) = 0`), the
one-pass estimate from `v0 = (3,4)` is the Rayleigh quotient `12/25 > 0`: Ritz values lie in the numerical range, not
below the spectral radius; the property promises the bound for Hermitian matrices only -/
example : PyamgV.C19S.approxEigRat [[0, 1], [0, 0]] (1/1000000) false 1 [3, 4]
      = some ([[3/5, 4/5], [4/5, -3/5]], [[12/25, 16/25]], false) := by decide +kernel

/-- (E39) the standing assumptions (`Exact`) hold over the real numbers with `Real.sqrt` and a positive tolerance: for
every real matrix, every start vector `!= 0` and every number of passes, every Ritz value of the `Vector` run is
bounded by every Rayleigh bound of the matrix -/
example {n : Nat} (A : Vector (Vector ℝ n) n) (v0 : Vector ℝ n) (hv0 : PyamgV.C07.toFn v0 ≠ 0) (k : Nat) (ρ θ : ℝ)
    (hray : ∀ x, |(PyamgV.C07.dotForm ℝ n).a (PyamgV.C07.linOf A x) x| ≤ ρ * (PyamgV.C07.dotForm ℝ n).a x x)
    (y : Nat → ℝ)
    (hr : PyamgV.C19S.ArnF.IsRitz (PyamgV.C19S.vecRun A Real.sqrt (1 / 10 ^ 10) false v0 k).cols.length
      (PyamgV.C19S.hEntry (PyamgV.C19S.vecRun A Real.sqrt (1 / 10 ^ 10) false v0 k).cols) θ y) : |θ| ≤ ρ :=
  (PyamgV.C19S.vec_arnoldi_ritz A Real.sqrt (1 / 10 ^ 10) (fun _ h => Real.mul_self_sqrt h) (by positivity)
    v0 hv0 k θ y hr).1 ρ hray

set_option synthInstance.maxSize 1024 in
/-- (E52) exact run of the complex model: `A = [[2, i], [-i, 2]]` (Hermitian, eigenvalues 1 and 3), `v0 = (3, 4i)`:
orthonormal `V` for the conjugated inner product, `H = V^H A V = [[26/25, 7/25], [7/25, 74/25]]` real symmetric with
eigenvalues 1, 3; the Lanczos branch returns the same columns -/
example : PyamgV.C19T.approxEigCxRat [[⟨2, 0⟩, ⟨0, 1⟩], [⟨0, -1⟩, ⟨2, 0⟩]] ⟨1/1000000, 0⟩ false 5 [⟨3, 0⟩, ⟨0, 4⟩]
      = some ([[⟨3/5, 0⟩, ⟨0, 4/5⟩], [⟨-4/5, 0⟩, ⟨0, 3/5⟩], [⟨0, 0⟩, ⟨0, 0⟩]],
          [[⟨26/25, 0⟩, ⟨7/25, 0⟩], [⟨7/25, 0⟩, ⟨74/25, 0⟩, ⟨0, 0⟩]], true)
    ∧ PyamgV.C19T.approxEigCxRat [[⟨2, 0⟩, ⟨0, 1⟩], [⟨0, -1⟩, ⟨2, 0⟩]] ⟨1/1000000, 0⟩ true 5 [⟨3, 0⟩, ⟨0, 4⟩]
      = some ([[⟨3/5, 0⟩, ⟨0, 4/5⟩], [⟨-4/5, 0⟩, ⟨0, 3/5⟩]],
          [[⟨26/25, 0⟩, ⟨7/25, 0⟩], [⟨7/25, 0⟩, ⟨74/25, 0⟩, ⟨0, 0⟩]], true) := by decide +kernel
set_option synthInstance.maxSize 1024 in
/-- (E52) the restart loop on that matrix, verification tolerance zero.  `maxiter = 5`: one pass (breakdown), the oracle
eigenpairs `(1, (7,-1))`, `(3, (1,7))` of `H` are accepted, the estimate is 3 = rho with `error = 0`; a perturbed
eigenvector is refused.  `maxiter = 1`, `restart = 1`: two passes with `theta = 26/25`, `error = 7/25` (not converged for
`tol = 1/100`), one pass for `tol = 1/2`; `maxiter = 0` is rejected as the code does -/
example : PyamgV.C19T.asrSummary (PyamgV.C19T.asrCxRat false [[⟨2, 0⟩, ⟨0, 1⟩], [⟨0, -1⟩, ⟨2, 0⟩]] ⟨1/1000000, 0⟩ ⟨1/100, 0⟩ 0 0 5 3
        [⟨3, 0⟩, ⟨0, 4⟩] [([⟨1, 0⟩, ⟨3, 0⟩], [[⟨7, 0⟩, ⟨-1, 0⟩], [⟨1, 0⟩, ⟨7, 0⟩]], none)])
      = some [(⟨3, 0⟩, ⟨0, 0⟩, true, true)]
    ∧ PyamgV.C19T.asrError (PyamgV.C19T.asrCxRat false [[⟨2, 0⟩, ⟨0, 1⟩], [⟨0, -1⟩, ⟨2, 0⟩]] ⟨1/1000000, 0⟩ ⟨1/100, 0⟩ 0 0 5 3
        [⟨3, 0⟩, ⟨0, 4⟩] [([⟨1, 0⟩, ⟨3, 0⟩], [[⟨7, 0⟩, ⟨-1, 0⟩], [⟨1, 0⟩, ⟨6, 0⟩]], some 1)]) = some "oracle-residual"
    ∧ PyamgV.C19T.asrSummary (PyamgV.C19T.asrCxRat false [[⟨2, 0⟩, ⟨0, 1⟩], [⟨0, -1⟩, ⟨2, 0⟩]] ⟨1/1000000, 0⟩ ⟨1/100, 0⟩ 0 0 1 1
        [⟨3, 0⟩, ⟨0, 4⟩] [([⟨26/25, 0⟩], [[⟨1, 0⟩]], none), ([⟨26/25, 0⟩], [[⟨1, 0⟩]], some 0)])
      = some [(⟨26/25, 0⟩, ⟨7/25, 0⟩, false, false), (⟨26/25, 0⟩, ⟨7/25, 0⟩, false, false)]
    ∧ PyamgV.C19T.asrSummary (PyamgV.C19T.asrCxRat false [[⟨2, 0⟩, ⟨0, 1⟩], [⟨0, -1⟩, ⟨2, 0⟩]] ⟨1/1000000, 0⟩ ⟨1/2, 0⟩ 0 0 1 1
        [⟨3, 0⟩, ⟨0, 4⟩] [([⟨26/25, 0⟩], [[⟨1, 0⟩]], none), ([⟨26/25, 0⟩], [[⟨1, 0⟩]], some 0)])
      = some [(⟨26/25, 0⟩, ⟨7/25, 0⟩, true, false)]
    ∧ PyamgV.C19T.asrError (PyamgV.C19T.asrCxRat false [[⟨2, 0⟩, ⟨0, 1⟩], [⟨0, -1⟩, ⟨2, 0⟩]] ⟨1/1000000, 0⟩ ⟨1/100, 0⟩ 0 0 0 3
        [⟨3, 0⟩, ⟨0, 4⟩] []) = some "expected maxiter > 0" := by decide +kernel
set_option synthInstance.maxSize 1024 in
/-- (E52) `condest` of that matrix through `A^H A` (eigenvalues 1, 9): estimate `sqrt (9/1) = 3 = cond_2`; `cond` of
`[[0, 2i], [1, 0]]` from the accepted triples `sigma = (1, 2)`, `U = [e_2, i e_1]`, `V = I`: 2 -/
example : PyamgV.C19T.condestSummary (PyamgV.C19T.condestCxRat [[⟨2, 0⟩, ⟨0, 1⟩], [⟨0, -1⟩, ⟨2, 0⟩]] ⟨1/1000000, 0⟩ 0 false 5
        [⟨3, 0⟩, ⟨0, 4⟩] [⟨1, 0⟩, ⟨9, 0⟩] [[⟨7, 0⟩, ⟨-1, 0⟩], [⟨1, 0⟩, ⟨7, 0⟩]]) = some (⟨3, 0⟩, ⟨9, 0⟩, ⟨1, 0⟩)
    ∧ PyamgV.C19T.exceptVal (PyamgV.C19T.condCertCxRat 0 2 [[⟨0, 0⟩, ⟨0, 2⟩], [⟨1, 0⟩, ⟨0, 0⟩]]
        [[⟨0, 0⟩, ⟨1, 0⟩], [⟨0, 1⟩, ⟨0, 0⟩]] [[⟨1, 0⟩, ⟨0, 0⟩], [⟨0, 0⟩, ⟨1, 0⟩]] [⟨1, 0⟩, ⟨2, 0⟩]) = some ⟨2, 0⟩
    ∧ PyamgV.C19T.exceptVal (PyamgV.C19T.condCertCxRat 0 2 [[⟨0, 0⟩, ⟨0, 2⟩], [⟨1, 0⟩, ⟨0, 0⟩]]
        [[⟨0, 0⟩, ⟨1, 0⟩], [⟨0, 1⟩, ⟨0, 0⟩]] [[⟨1, 0⟩, ⟨0, 0⟩], [⟨0, 0⟩, ⟨1, 0⟩]] [⟨1, 0⟩, ⟨3, 0⟩]) = none := by decide +kernel

/-- (E52) the standing assumptions hold over the real numbers with `Real.sqrt`: for every complex Hermitian matrix (pairs
of reals), every start vector `!= 0`, every oracle that the model accepts with tolerance zero, every `tol`, `maxiter`,
`restart`: the value the restart loop returns is bounded by every `rho` with `|x^H A x| <= rho x^H x` -/
example {n : Nat} (A : Vector (Vector (PyamgV.C19T.Cx ℝ) n) n) (hA : PyamgV.C07.CH.IsHerm A) (ρ : ℝ)
    (hray : ∀ x, |(PyamgV.C19T.cdot n x (PyamgV.C07.linOf A x)).re| ≤ ρ * (PyamgV.C19T.cdot n x x).re)
    (tol tieTol : PyamgV.C19T.Cx ℝ) (maxiter restart : Nat) (v0 : Vector (PyamgV.C19T.Cx ℝ) n)
    (hv0 : PyamgV.C07.toFn v0 ≠ 0)
    (oracle : List (List (PyamgV.C19T.Cx ℝ) × List (List (PyamgV.C19T.Cx ℝ)) × Option Nat))
    (cs : List (PyamgV.C19T.Cyc (PyamgV.C19T.Cx ℝ) (Vector (PyamgV.C19T.Cx ℝ) n)))
    (h : PyamgV.C19T.cvecAsr A Real.sqrt (1 / 10 ^ 10) tol tieTol maxiter restart v0 oracle = .ok cs) :
    ∃ r, PyamgV.C19T.asrRho (PyamgV.C19T.Cx.absC Real.sqrt) cs = some r ∧ r.re ≤ ρ :=
  let ⟨_, _, _, r, h1, h2, _⟩ := PyamgV.C19T.cvec_asr_estimate_le A Real.sqrt (1 / 10 ^ 10)
    (fun _ h => Real.mul_self_sqrt h) Real.sqrt_nonneg (by positivity) hA ρ hray tol tieTol maxiter restart v0 hv0 oracle cs h
  ⟨r, h1, h2⟩

/-- wave 6 (DESIGN 11.13): the executable inverse has no absolute cutoff -- for every regular `G` and
`s ≠ 0` the inverse of `s • G` exists and is `s⁻¹ •` the inverse of `G` (units of the matrix) -/
restate inverse_homogeneous := PyamgV.C19.Mat.inv_homogeneous
/-- the same as a statement about the direct solve: the solve of `s • G` with `s • b` is the solve of `G` with `b` -/
restate inverse_homogeneous_solve := PyamgV.C19.Mat.inv_homogeneous_solve

end PyamgV.Props.C19
