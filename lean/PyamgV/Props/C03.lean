import PyamgV.Props.Restate
import PyamgV.Proofs.C03Witness
import PyamgV.Proofs.SorAdjoint
import PyamgV.Proofs.GsArrayRefine
import PyamgV.Proofs.ExtC05RefineOp

/-! # C03 — a cycle is the textbook multigrid recursion: fixed, linear and consistent

Model: `Model/C03Cyc.lean` — `cycM`/`cycT` (`MultilevelSolver.__solve`, V/W/F with
`cycles_per_level`, line by line), `solveM` (the un-accelerated loop of `solve`, one-level case
included), `precM` (`aspreconditioner`), `mopM` (the textbook operator as a matrix), `traceM` (the
textbook order of visits) on dense rational data.  The driver runs exactly these definitions on
`levels[i].A/P/R`, the probed smoother maps and the probed coarse solver of real hierarchies and
compares with the real `solve` / `aspreconditioner` (harness/props/c03.py).

Meaning: a list denotes the sequence `sem v = (i ↦ v.getD i 0)`, a matrix the linear map `msem A`
on `ℕ → ℚ`; all model operations are zero-padding, so **no theorem below has a shape hypothesis**:
they hold for every list of levels (≥ 2 levels; the one-level case is separate), every cycle type,
every `cycles_per_level`, every right-hand side and initial guess.  Nothing relates
`levels[i+1].A` to `R A P` (no Galerkin condition), `R` is independent of `P` (AIR). -/
namespace PyamgV.Props.C03

/-! ## one cycle is `x ← x + M (b − A x)`, `M` the textbook composition -/

/-- (new) `sem (cycM S c cpl (L :: Ls) x b) = sem x + msem (mopM S c cpl (L :: Ls)) (sem b − A₀ (sem x))`:
one cycle of the model of `__solve` is the linear iteration whose operator is the *matrix* `mopM`,
a function of the hierarchy data, the cycle type and `cycles_per_level` only -/
restate cycle_is_linear_iteration := PyamgV.C03.cycM_affine
/-- (new) under `sem`, the executable model is the abstract recursion `cyc` of `Proofs/Cycle.lean` -/
restate model_refines_abstract_cycle := PyamgV.C03.cycM_sem
/-- (new) the executable matrix `mopM` denotes the abstract textbook operator `MopL`: pre-smoother,
`P · Mc · R`, post-smoother with `Mc` = coarse solve on the last level, else V: one V-cycle,
W: two W-cycles, F: one F-cycle followed by `cycles_per_level` V-cycles on the next level -/
restate operator_matrix_is_textbook_operator := PyamgV.C03.msem_mopM
/-- (new) abstract form over any ordered field and any module, every level with its own matrix
(no Galerkin condition): `cyc` is a linear iteration with operator `MopL` -/
restate abstract_cycle_is_linear_iteration := PyamgV.cycL_isLinIter
/-- (restated) the Galerkin special case proved in the design round -/
restate galerkin_cycle_is_linear_iteration := PyamgV.cyc_isLinIter

/-- (extension E12) on a Galerkin hierarchy (`levels[i+1].A = R A P`) the operator `MopL` of
`abstract_cycle_is_linear_iteration` is the operator `Mop` of `galerkin_cycle_is_linear_iteration`; the array
model of C05 (`C05.denseM`) is proved to be the matrix of this operator in Props/C05.lean
(`denseM_is_textbook_operator`) -/
restate textbook_operator_galerkin_case := PyamgV.MopL_eq_Mop

/-! ## consequences -/

/-- (new) the exact solution is a fixed point of every cycle -/
restate exact_solution_is_fixed_point := PyamgV.C03.cycM_fixed_point
/-- (new) `k` cycles propagate the error by `e ↦ e − M A e`, `k` times -/
restate k_cycles_error_propagation := PyamgV.C03.cycM_iter_error
/-- (new) `solve(maxiter = 1)` performs exactly one step whatever the tolerance -/
restate one_cycle_call_is_one_step := PyamgV.C03.loopM_one
/-- (new) `k` one-cycle calls equal one `k`-cycle call, provided the residual test of the latter does
not fire before the `k`-th cycle (otherwise it returns that earlier iterate) -/
restate k_one_cycle_calls_eq_one_k_cycle_call := PyamgV.C03.solveM_k_calls
/-- (new) the preconditioner `aspreconditioner(cycle)` applied to `v` is `M v` for the requested
cycle type (with `cycles_per_level = 1`), whatever the tolerance test inside `solve` does -/
restate preconditioner_is_M := PyamgV.C03.precM_eq
/-- (new) one-level hierarchy: the preconditioner is the coarse solver -/
restate preconditioner_one_level := PyamgV.C03.precM_one_level
/-- (new) the preconditioner is additive and homogeneous -/
restate preconditioner_additive := PyamgV.C03.precM_additive
restate preconditioner_homogeneous := PyamgV.C03.precM_homogeneous
/-- (new) one-level hierarchy: `x ← S b` has the form `x + S (b − A x)` when `S A = I` -/
restate one_level_cycle := PyamgV.C03.oneLevel_affine

/-! ## order and number of visits -/

/-- (new) the model of `__solve` makes its smoother and coarse-solver calls in the textbook order -/
restate visits_in_textbook_order := PyamgV.C03.cycT_spec
/-- (new) coarse-solver calls per cycle on `m + 2` levels: V: 1, W: `2^m`, F: `1 + cpl·m` -/
restate coarse_solves_V := PyamgV.C03.nCoarse_V
restate coarse_solves_W := PyamgV.C03.nCoarse_W
restate coarse_solves_F := PyamgV.C03.nCoarse_F
/-- (new) visits of the level `d` below the entry level per cycle: V: 1, W: `2^d`, F: `1 + cpl·d` --
"the coarser level is visited once for V, twice for W, F-cycle followed by `cpl` V-cycles for F" -/
restate level_visits_V := PyamgV.C03.visits_V
restate level_visits_W := PyamgV.C03.visits_W
restate level_visits_F := PyamgV.C03.visits_F
/-- (new) on two levels all cycle types coincide (why W/F cases need at least three levels) -/
restate two_level_operators_coincide := PyamgV.C03.mopM_two_level
restate two_level_cycles_coincide := PyamgV.C03.cycM_two_level

/-! ## the smoothers are linear iterations (kernel models of C09) -/

/-- (restated) a Gauss–Seidel sweep in any row order is `x + Q (b − A x)` -/
restate gauss_seidel_sweep_is_linear_iteration := PyamgV.gsSweep_isLinIter
/-- (restated) the executable Gauss–Seidel kernel model (`K.gaussSeidel`, compared with the real kernel by
C09 and with the installed smoother closures by this check) is the proof-side sweep `gsSweepFn` -/
restate gauss_seidel_kernel_model_is_sweep := PyamgV.gaussSeidel_refines
/-- (restated) an SOR sweep in any row order is `x + Q (b − A x)` -/
restate sor_sweep_is_linear_iteration := PyamgV.sorSweep_isLinIter
/-- (restated) composition of linear iterations (several sweeps, iterations, symmetric sweeps) -/
restate linear_iterations_compose := PyamgV.IsLinIter.comp

/-! ## the cycle argument matters (non-degeneracy), evaluated by the kernel -/

restate witness_V_ne_W := PyamgV.C03.Witness.V_ne_W
restate witness_F1_ne_F2 := PyamgV.C03.Witness.F1_ne_F2
restate witness_F1_ne_W := PyamgV.C03.Witness.F1_ne_W
restate witness_F1_ne_V := PyamgV.C03.Witness.F1_ne_V
/-- `cycles_per_level` must be forwarded below the finest level (four levels) -/
restate witness_F2_forwarded := PyamgV.C03.Witness.F2_deep
restate witness_run_F2 := PyamgV.C03.Witness.run_F2
/-- the hypothesis `S A = I` of `one_level_cycle` cannot be dropped (known finding one-level-singular-x0-ignored) -/
restate witness_one_level_singular := PyamgV.C03.Witness.one_level_singular

/-! non-vacuity: the fixed-point hypothesis is satisfiable on a concrete system, and the theorem
then yields the fixed point for the four-level witness hierarchy -/
open PyamgV.C03 PyamgV.C03.Witness in
example : sem (cycM S4 .F 2 [L0, L1, L2] [1, 2, 3] [0, 0, 4]) = sem [1, 2, 3] :=
  cycM_fixed_point S4 .F 2 L0 [L1, L2] [1, 2, 3] [0, 0, 4]
    (by rw [← sem_matVec, exact_solution_example])
/-! the early-stop hypothesis of `k_one_cycle_calls_eq_one_k_cycle_call` holds for a test that never fires -/
open PyamgV.C03 PyamgV.C03.Witness in
example (b x0 : Vec) : iterN (fun x => solveM S4 .W 1 [L0, L1, L2] (fun _ => true) 1 b x) 3 x0 =
    solveM S4 .W 1 [L0, L1, L2] (fun _ => false) 3 b x0 :=
  solveM_k_calls S4 .W 1 [L0, L1, L2] (fun _ => false) (fun _ => true) b x0 2 (fun _ _ _ => rfl)

end PyamgV.Props.C03
