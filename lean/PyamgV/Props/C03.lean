import PyamgV.Props.Restate
import PyamgV.Proofs.C03Witness
import PyamgV.Proofs.SorAdjoint
import PyamgV.Proofs.GsArrayRefine
import PyamgV.Proofs.ExtC05RefineOp
import PyamgV.Proofs.ExtSolvePathEx
import PyamgV.Proofs.ExtSmoothersCycle
import PyamgV.Proofs.ExtSmoothersRefine
import PyamgV.Proofs.ExtC03XWitness
import PyamgV.Proofs.ExtC03YWitness
import PyamgV.Proofs.ExtC03YRat
import PyamgV.Proofs.ExtPy3Cycle

/-! # C03 — a cycle is the textbook multigrid recursion: fixed, linear and consistent

Model: `Model/C03Cyc.lean` — `cycM`/`cycT` (`MultilevelSolver.__solve`, V/W/F with
`cycles_per_level`, line by line), `solveM` (the un-accelerated loop of `solve`, one-level case
included), `precM` (`aspreconditioner`), `mopM` (the textbook operator as a matrix), `traceM` (the
textbook order of visits) on dense rational data.  The driver runs exactly these definitions on
`levels[i].A/P/R`, the probed smoother maps and the probed coarse solver of real hierarchies and
compares with the real `solve` / `aspreconditioner` (harness/props/c03.py).

Meaning: a list denotes the sequence `sem v = (i ↦ v.getD i 0)`, a matrix the linear map `msem A`
on `ℕ → ℚ`; all model operations are zero-padding, so **no theorem below has a shape hypothesis**:
they hold for every list of levels (≥ 2 levels; the one-level case is separate), every cycle type,
every `cycles_per_level`, every right-hand side and initial guess.  Nothing relates
`levels[i+1].A` to `R A P` (no Galerkin condition), `R` is independent of `P` (AIR). -/
namespace PyamgV.Props.C03

/-! ## one cycle is `x ← x + M (b − A x)`, `M` the textbook composition -/

/-- (new) `sem (cycM S c cpl (L :: Ls) x b) = sem x + msem (mopM S c cpl (L :: Ls)) (sem b − A₀ (sem x))`:
one cycle of the model of `__solve` is the linear iteration whose operator is the *matrix* `mopM`,
a function of the hierarchy data, the cycle type and `cycles_per_level` only -/
restate cycle_is_linear_iteration := PyamgV.C03.cycM_affine
/-- (new) under `sem`, the executable model is the abstract recursion `cyc` of `Proofs/Cycle.lean` -/
restate model_refines_abstract_cycle := PyamgV.C03.cycM_sem
/-- (new) the executable matrix `mopM` denotes the abstract textbook operator `MopL`: pre-smoother,
`P · Mc · R`, post-smoother with `Mc` = coarse solve on the last level, else V: one V-cycle,
W: two W-cycles, F: one F-cycle followed by `cycles_per_level` V-cycles on the next level -/
restate operator_matrix_is_textbook_operator := PyamgV.C03.msem_mopM
/-- (new) abstract form over any ordered field and any module, every level with its own matrix
(no Galerkin condition): `cyc` is a linear iteration with operator `MopL` -/
restate abstract_cycle_is_linear_iteration := PyamgV.cycL_isLinIter
/-- (restated) the Galerkin special case proved in the design round -/
restate galerkin_cycle_is_linear_iteration := PyamgV.cyc_isLinIter

/-- (extension E12) on a Galerkin hierarchy (`levels[i+1].A = R A P`) the operator `MopL` of
`abstract_cycle_is_linear_iteration` is the operator `Mop` of `galerkin_cycle_is_linear_iteration`; the array
model of C05 (`C05.denseM`) is proved to be the matrix of this operator in Props/C05.lean
(`denseM_is_textbook_operator`) -/
restate textbook_operator_galerkin_case := PyamgV.MopL_eq_Mop

/-! ## consequences -/

/-- (new) the exact solution is a fixed point of every cycle -/
restate exact_solution_is_fixed_point := PyamgV.C03.cycM_fixed_point
/-- (new) `k` cycles propagate the error by `e ↦ e − M A e`, `k` times -/
restate k_cycles_error_propagation := PyamgV.C03.cycM_iter_error
/-- (new) `solve(maxiter = 1)` performs exactly one step whatever the tolerance -/
restate one_cycle_call_is_one_step := PyamgV.C03.loopM_one
/-- (new) `k` one-cycle calls equal one `k`-cycle call, provided the residual test of the latter does
not fire before the `k`-th cycle (otherwise it returns that earlier iterate) -/
restate k_one_cycle_calls_eq_one_k_cycle_call := PyamgV.C03.solveM_k_calls
/-- (new) the preconditioner `aspreconditioner(cycle)` applied to `v` is `M v` for the requested
cycle type (with `cycles_per_level = 1`), whatever the tolerance test inside `solve` does -/
restate preconditioner_is_M := PyamgV.C03.precM_eq
/-- (new) one-level hierarchy: the preconditioner is the coarse solver -/
restate preconditioner_one_level := PyamgV.C03.precM_one_level
/-- (new) the preconditioner is additive and homogeneous -/
restate preconditioner_additive := PyamgV.C03.precM_additive
restate preconditioner_homogeneous := PyamgV.C03.precM_homogeneous
/-- (new) one-level hierarchy: `x ← S b` has the form `x + S (b − A x)` when `S A = I` -/
restate one_level_cycle := PyamgV.C03.oneLevel_affine

/-! ## order and number of visits -/

/-- (new) the model of `__solve` makes its smoother and coarse-solver calls in the textbook order -/
restate visits_in_textbook_order := PyamgV.C03.cycT_spec
/-- (new) coarse-solver calls per cycle on `m + 2` levels: V: 1, W: `2^m`, F: `1 + cpl·m` -/
restate coarse_solves_V := PyamgV.C03.nCoarse_V
restate coarse_solves_W := PyamgV.C03.nCoarse_W
restate coarse_solves_F := PyamgV.C03.nCoarse_F
/-- (new) visits of the level `d` below the entry level per cycle: V: 1, W: `2^d`, F: `1 + cpl·d` --
"the coarser level is visited once for V, twice for W, F-cycle followed by `cpl` V-cycles for F" -/
restate level_visits_V := PyamgV.C03.visits_V
restate level_visits_W := PyamgV.C03.visits_W
restate level_visits_F := PyamgV.C03.visits_F
/-- (new) on two levels all cycle types coincide (why W/F cases need at least three levels) -/
restate two_level_operators_coincide := PyamgV.C03.mopM_two_level
restate two_level_cycles_coincide := PyamgV.C03.cycM_two_level

/-! ## the smoothers are linear iterations (kernel models of C09) -/

/-- (restated) a Gauss–Seidel sweep in any row order is `x + Q (b − A x)` -/
restate gauss_seidel_sweep_is_linear_iteration := PyamgV.gsSweep_isLinIter
/-- (restated) the executable Gauss–Seidel kernel model (`K.gaussSeidel`, compared with the real kernel by
C09 and with the installed smoother closures by this check) is the proof-side sweep `gsSweepFn` -/
restate gauss_seidel_kernel_model_is_sweep := PyamgV.gaussSeidel_refines
/-- (restated) an SOR sweep in any row order is `x + Q (b − A x)` -/
restate sor_sweep_is_linear_iteration := PyamgV.sorSweep_isLinIter
/-- (restated) composition of linear iterations (several sweeps, iterations, symmetric sweeps) -/
restate linear_iterations_compose := PyamgV.IsLinIter.comp

/-! ## the cycle argument matters (non-degeneracy), evaluated by the kernel -/

restate witness_V_ne_W := PyamgV.C03.Witness.V_ne_W
restate witness_F1_ne_F2 := PyamgV.C03.Witness.F1_ne_F2
restate witness_F1_ne_W := PyamgV.C03.Witness.F1_ne_W
restate witness_F1_ne_V := PyamgV.C03.Witness.F1_ne_V
/-- `cycles_per_level` must be forwarded below the finest level (four levels) -/
restate witness_F2_forwarded := PyamgV.C03.Witness.F2_deep
restate witness_run_F2 := PyamgV.C03.Witness.run_F2
/-- the hypothesis `S A = I` of `one_level_cycle` cannot be dropped (known finding one-level-singular-x0-ignored) -/
restate witness_one_level_singular := PyamgV.C03.Witness.one_level_singular

/-! non-vacuity: the fixed-point hypothesis is satisfiable on a concrete system, and the theorem
then yields the fixed point for the four-level witness hierarchy -/
open PyamgV.C03 PyamgV.C03.Witness in
example : sem (cycM S4 .F 2 [L0, L1, L2] [1, 2, 3] [0, 0, 4]) = sem [1, 2, 3] :=
  cycM_fixed_point S4 .F 2 L0 [L1, L2] [1, 2, 3] [0, 0, 4]
    (by rw [← sem_matVec, exact_solution_example])
/-! the early-stop hypothesis of `k_one_cycle_calls_eq_one_k_cycle_call` holds for a test that never fires -/
open PyamgV.C03 PyamgV.C03.Witness in
example (b x0 : Vec) : iterN (fun x => solveM S4 .W 1 [L0, L1, L2] (fun _ => true) 1 b x) 3 x0 =
    solveM S4 .W 1 [L0, L1, L2] (fun _ => false) 3 b x0 :=
  solveM_k_calls S4 .W 1 [L0, L1, L2] (fun _ => false) (fun _ => true) b x0 2 (fun _ _ _ => rfl)

/-! ## polynomial / Chebyshev, Richardson, (block) Jacobi and NE/NR smoothers are linear iterations (extension E22)

So far these entered the check as probed matrices only; Proofs/ExtSmoothers*.lean gives their operators explicitly. -/

/-- (E22) a list of linear iterations applied one after the other is a linear iteration (operator: `compM`-fold) -/
restate linear_iterations_compose_list := PyamgV.IsLinIter.foldl
restate linear_iteration_fixed_point := PyamgV.IsLinIter.fixed_point
restate linear_iteration_error_propagation := PyamgV.IsLinIter.error
/-- (E22) `relaxation.polynomial(coefficients = c0 :: cs)` (Chebyshev, Richardson), the `norm(x) == 0` shortcut
included, is `x + p(A)(b − A x)`; `p(A) = Σ_k coefficients[k] A^(deg−k)` -/
restate polynomial_is_linear_iteration := PyamgV.polynomial_isLinIter
restate polynomial_iterations_is_linear_iteration := PyamgV.polynomial_iter_isLinIter
restate polynomial_operator_is_polynomial := PyamgV.polyOp_eq_sum
restate polynomial_fixed_point := PyamgV.polynomial_fixed_point
/-- (E22) Richardson = polynomial of degree 0, `Q = ω I` -/
restate richardson_is_polynomial := PyamgV.richardson_is_polynomial
restate richardson_is_linear_iteration := PyamgV.richardson_isLinIter
/-- (E22) weighted Jacobi / block Jacobi, `Q = ω D⁻¹`; the kernel's formula `(1−ω) x + ω Dinv (b − N x)` -/
restate jacobi_is_linear_iteration := PyamgV.jacobi_isLinIter
restate block_jacobi_is_linear_iteration := PyamgV.blockJacobi_isLinIter
/-- (E22) one full Kaczmarz (`gauss_seidel_ne`) sweep over any row list is `x + Q (b − A x)`, `Q` the `compM`-product
of the rank-one row operators `ω Dinv[i] a_i (·)_i` -/
restate kaczmarz_row_is_linear_iteration := PyamgV.ne_row_isLinIter
restate kaczmarz_sweep_is_linear_iteration := PyamgV.ne_sweep_isLinIter
restate kaczmarz_sweep_fixed_point := PyamgV.ne_sweep_fixed_point
/-- (E22) one full `gauss_seidel_nr` sweep (the loop on the pair `(x, r)`, `r = b − A x` on entry) over any column list -/
restate nr_sweep_is_linear_iteration := PyamgV.nr_sweep_isLinIter
restate nr_sweep_fixed_point := PyamgV.nr_sweep_fixed_point
restate nr_loop_keeps_residual := PyamgV.nrLoop_eq
restate jacobi_ne_is_linear_iteration := PyamgV.jacobi_ne_isLinIter
/-- (E22) the family (closed under composition and `iterations = k`) satisfies the `IsLinIter` hypothesis -/
restate smoother_family_is_linear_iteration := PyamgV.LinSmoother.isLinIter
/-- (E22) **a cycle whose smoothers belong to the family is the linear iteration with the textbook operator `MopL`**,
no Galerkin condition, and the exact solution is its fixed point -/
restate cycle_is_linear_iteration_of_smoother_family := PyamgV.cycle_isLinIter_of_smoother_family
restate cycle_fixed_point_of_smoother_family := PyamgV.cycle_fixed_point_of_smoother_family
/-- (E22) the executable array model of `relaxation.polynomial` (driver op `ext_poly`) is that linear iteration -/
restate polynomial_model_is_linear_iteration := PyamgV.polynomial_array_isLinIter
restate polynomial_model_fixed_point := PyamgV.polynomial_array_fixed_point

/-! ## the solve path: C08's plan, C01's loop and this cycle model composed (extension E17, Proofs/ExtSolvePath.lean)

`SolvePath.solvePyM` = C01's statement-by-statement `solvePy` (all caller-visible options) with `cycM` as the cycle
(one-level branch: the coarse solver applied to `b`); `SolvePath.callPrecond` = the `M` of an accelerator call of
`C08.plan` (`aspreconditioner(cycle)` run through `solvePy` with `maxiter = 1`, no `x0`) applied to a vector.  The
driver runs both (`ext_e17_solve`, `ext_e17_precond`) against the real `solve` on the hierarchies of this check. -/

/-- (E17) the vector C01's loop returns on this cycle model is what this property's own loop model `solveM` returns
with the residual test `below ∘ resnorm`: the two loop models of `solve` agree, for every combination of options -/
restate python_loop_on_cycle_is_solveM := PyamgV.SolvePath.solvePyM_x
/-- (E17) … and it is the bookkeeping loop `PyamgV.solve` on `stepM` seen through the options -/
restate python_loop_on_cycle_is_bookkeeping_loop := PyamgV.SolvePath.solvePyM_eq
/-- (E17) `aspreconditioner(cycle).matvec` run through C01's model of `solve` is `precM` -/
restate python_preconditioner_is_precM := PyamgV.SolvePath.precPy_eq_precM
/-- (E17) the preconditioner the accelerated branch (C08's plan) hands to the Krylov method, for the upper-cased
cycle string `V`/`W`/`F`, applied to `v`, is `M v` with `M = mopM c 1` of the requested cycle type -/
restate accelerated_solve_preconditioner_is_M := PyamgV.SolvePath.plan_precond_is_M
/-- (E17) error propagation of the stand-alone solve: the returned vector after `k` cycles and the `j`-th callback
argument have errors `(I − M A)^k e₀`, `(I − M A)^(j+1) e₀`; `k`, `info` and the stopping rule as in C01 -/
restate standalone_solve_error_propagation := PyamgV.SolvePath.solvePyM_error_propagation
/-- (E17) `k_cycles_error_propagation` with the propagator as a linear map, `e_k = (I − M A)^k e_0` -/
restate k_cycles_error_propagation_pow := PyamgV.SolvePath.cycM_iter_error_pow
/-- (E17) under C02's hypotheses (`WFG`) one cycle of this model does not increase the energy norm of the error … -/
restate cycle_model_nonexpansive := PyamgV.SolvePath.cycM_nonexp
/-- (E17) … hence the error energies of the iterates of the stand-alone solve (returned vector, callback arguments)
are non-increasing -/
restate standalone_solve_energy_monotone := PyamgV.SolvePath.solvePyM_energy_monotone
/-- (E17) non-vacuity: a concrete two-level hierarchy of this model (damped Jacobi, `R = Pᵀ`, exact Galerkin coarse
solve) satisfies C02's hypotheses -/
restate example_hierarchy_wfg := PyamgV.SolvePath.Ex.wfg
restate example_standalone_solve_energy := PyamgV.SolvePath.Ex.example_solve_energy
/-- (E17) concrete runs of the composed definitions, evaluated by the kernel -/
restate example_standalone_solve_run := PyamgV.SolvePath.Ex.example_run
restate example_accelerated_preconditioner := PyamgV.SolvePath.Ex.example_precond

/-! non-vacuity (E22): a level on `ℚ²`, `A = [[2,−1],[−1,2]]`, with a degree-1 polynomial pre-smoother and a Kaczmarz
post-sweep is in the family -/
open PyamgV PyamgV.ExSm in
example : WFLS [({ A := A2, P := LinearMap.id, R := LinearMap.id,
                   pre := polyFn A2 (-1/5) [1], post := neSweepFn e2 (3/2) rows2,
                   Qpre := polyOp A2 (-1/5) [1], Qpost := sweepM A2 (rows2.map (neRowOp (3/2))) } : LinLevel ℚ (ℚ × ℚ))] :=
  ⟨LinSmoother.polynomial _ _, LinSmoother.neSweep e2 _ rows2 (fun r hr => (rows2_ok r hr).1), trivial⟩

/-! ## the cycle with every linear smoother family as an executed kernel (extension E38)

Model/ExtC03XCyc.lean: `cycX` / `solveX` / `precX` = `cycM` / `solveM` / `precM` with the two smoother calls of a level being
RECORDED RELAXATION CALLS (`C03X.Sm`): the validated executable models of `relaxation.polynomial` (Richardson, Chebyshev),
`block_jacobi`, `block_gauss_seidel`, `jacobi_ne`, `gauss_seidel_ne`, `gauss_seidel_nr`, `cf_jacobi` / `fc_jacobi`,
`schwarz` (recorded subdomains and subdomain inverses), `gauss_seidel` / `sor`, `jacobi` (Model/KRelax.lean,
Model/ExtC09Block.lean, Model/ExtSmoothers.lean -- the definitions C09 compares bit-exactly with the kernels) run on the
recorded CSR / CSC / BSR copy of the level matrix, or a matrix `Q` as before.  The driver (`c03x_run`, `c03x_q`) runs exactly
these definitions on the level matrices of real hierarchies plus the recorded data and compares with the real `solve`,
`aspreconditioner` and the installed closures.  `Sm.OK A s` (decidable; evaluated by the driver before every run): the
recorded call is a call for the level matrix `A` -- its matrix copy is `A` entry by entry, indices are in range, rows have
one non-zero stored diagonal entry where the kernel divides by it, `Dinv_i A_ii = I` for the block methods (Schwarz needs
no such condition: any recorded blocks give a linear iteration). -/

/-- (E38) **every recorded relaxation call for the level matrix is the linear iteration `x ← x + Q (b − A x)`**,
`Q = Sm.opQ s`: `sem (applySm A s x b) = sem x + Q (sem b − A (sem x))` for all lists `x`, `b` -/
restate recorded_smoother_is_linear_iteration := PyamgV.C03X.sm_semLin
/-- (E38) ... so each of them satisfies the `IsLinIter` hypothesis of `abstract_cycle_is_linear_iteration` -/
restate recorded_smoother_isLinIter := PyamgV.C03X.sm_isLinIter
/-- (E38) `cycle_is_linear_iteration` for the extended model: one cycle is `x + M (b − A₀ x)`, `M = MopX` = the textbook
composition (`MopL`) of the recorded smoothers' operators, `P`, `R`, the coarse solver -/
restate extended_cycle_is_linear_iteration := PyamgV.C03X.cycX_affine
/-- (E38) under `sem`, the extended model is the abstract recursion `cyc` -/
restate extended_model_refines_abstract_cycle := PyamgV.C03X.cycX_sem
/-- (E38) `exact_solution_is_fixed_point` for the extended model -/
restate extended_exact_solution_is_fixed_point := PyamgV.C03X.cycX_fixed_point
/-- (E38) `k_cycles_error_propagation` for the extended model -/
restate extended_k_cycles_error_propagation := PyamgV.C03X.cycX_iter_error
/-- (E38) `preconditioner_is_M` for the extended model -/
restate extended_preconditioner_is_M := PyamgV.C03X.precX_eq
/-- (E38) `k_one_cycle_calls_eq_one_k_cycle_call` for the extended model -/
restate extended_k_one_cycle_calls := PyamgV.C03X.solveX_k_calls
/-- (E38) with matrix smoothers the extended model IS `cycM`, and its operator is the matrix `mopM` -/
restate extended_model_contains_matrix_model := PyamgV.C03X.cycX_mat
restate extended_operator_is_mopM_for_matrix_smoothers := PyamgV.C03X.mopX_mat
/-- (E38) the generic step: a cycle whose smoothers are `SemLin` is a linear iteration with operator `MopL` -/
restate generic_cycle_is_linear_iteration := PyamgV.C03X.cycF_affine
/-- (E38) an array kernel that computes a linear iteration for `msem A` is a `SemLin` smoother of the level matrix `A` -/
restate array_kernel_on_padded_lists := PyamgV.C03X.semLin_viaArr
/-- (E38) the dense forms of the recorded CSR / CSC / BSR arrays denote the sparse operators the kernel theorems are about -/
restate csr_copy_denotes_csr_operator := PyamgV.C03X.msem_csrDense
restate csc_copy_denotes_csc_operator := PyamgV.C03X.msem_cscDense
restate bsr_copy_denotes_bsr_operator := PyamgV.C03X.msem_bsrDense
/-- (E38) the families one by one (array kernel model = function-level model, which is a linear iteration) -/
restate polynomial_call_is_linear_iteration := PyamgV.C03X.poly_semLin
restate block_jacobi_call_is_linear_iteration := PyamgV.C03X.bjac_semLin
restate block_gauss_seidel_call_is_linear_iteration := PyamgV.C03X.bgs_semLin
restate jacobi_ne_call_is_linear_iteration := PyamgV.C03X.jacne_semLin
restate gauss_seidel_ne_call_is_linear_iteration := PyamgV.C03X.gsne_semLin
restate gauss_seidel_nr_call_is_linear_iteration := PyamgV.C03X.gsnr_semLin
restate cf_fc_jacobi_call_is_linear_iteration := PyamgV.C03X.cfjac_semLin
restate schwarz_call_is_linear_iteration := PyamgV.C03X.schwarz_semLin
restate gauss_seidel_sor_call_is_linear_iteration := PyamgV.C03X.gs_semLin
restate jacobi_call_is_linear_iteration := PyamgV.C03X.jac_semLin
/-- (E38) the kernel loop of `gauss_seidel_nr` keeps `r = b − A x` (array model) -/
restate gauss_seidel_nr_kernel_keeps_residual := PyamgV.C03X.nr_fold
/-- (E38) non-vacuity and necessity of the hypothesis, evaluated by the kernel: recorded calls of every family satisfy
`AllOK`; a stale matrix copy and a wrong inverse block are rejected, and with the wrong block the conclusion fails -/
restate witness_all_families_ok := PyamgV.C03X.Witness.all_ok
restate witness_stale_copy_rejected := PyamgV.C03X.Witness.stale_copy_rejected
restate witness_wrong_inverse_rejected := PyamgV.C03X.Witness.wrong_inverse_rejected
restate witness_wrong_inverse_moves_solution := PyamgV.C03X.Witness.wrong_inverse_moves_solution
restate witness_extended_run_V := PyamgV.C03X.Witness.run_V
restate witness_extended_run_blocks := PyamgV.C03X.Witness.run_blocks
restate witness_polynomial_nontrivial := PyamgV.C03X.Witness.poly_nontrivial

/-! non-vacuity (E38): the fixed-point theorem applied to the concrete recorded hierarchies -/
open PyamgV.C03 PyamgV.C03X PyamgV.C03X.Witness in
example : sem (cycX S2 .W 2 [L1, L2, L3, L4, L5] [1, 2] [0, 3]) = sem [1, 2] :=
  cycX_fixed_point S2 .W 2 L1 [L2, L3, L4, L5] all_ok [1, 2] [0, 3] (by rw [← sem_matVec]; exact congrArg sem exact_solution)
open PyamgV.C03 PyamgV.C03X PyamgV.C03X.Witness in
example (v : Vec) : sem (precX S2 .F [L3, L4] (fun _ => true) v) = MopX S2 .F 1 [L3, L4] (sem v) :=
  precX_eq S2 .F L3 [L4] (fun L hL => all_ok L (by simp at hL ⊢; rcases hL with h | h <;> simp [h])) (fun _ => true) v

/-! ## the extended cycle model over an arbitrary field: complex hierarchies, smoothers of BSR levels (extension E55)

Model/ExtC03YCyc.lean: `cycY` / `solveY` / `precY` = the extended model of E38 with the SCALAR TYPE AS A PARAMETER (all kernel
models are scalar-polymorphic and are compared by C09 with the real kernels on real and complex data) and a conjugation `conj`
(what the `_ne` / `_nr` kernels apply to the stored entries: `id` for real data, `CRat.conj` for the Gaussian rationals), plus
three more recorded calls: `bsrgs` / `bsrjac` (`gauss_seidel` / `sor` / `jacobi` on a BSR level: the point kernels on the point
rows of the BSR arrays) and `cfbjac` (`cf_block_jacobi` / `fc_block_jacobi` with inverse diagonal blocks).  The driver
(`c03y_run`, `c03y_q`, scalar tag `r` / `c`) runs exactly these definitions over `Rat` and over `CRat` on the level matrices of
real, complex Hermitian and complex nonsymmetric hierarchies plus the recorded data and compares with the real `solve`,
`aspreconditioner` and the installed closures.  The theorems hold over EVERY field `𝕜` with decidable equality and every map
`conj : 𝕜 → 𝕜` -- no order is used (the affine structure of a cycle is algebraic); `Field CRat` (Proofs/ExtComplexGs.lean) is
built from the operations of Model/CRat.lean, so they are statements about the complex runs of the driver. -/

/-- (E55) **every recorded relaxation call for the level matrix is the linear iteration `x ← x + Q (b − A x)`, over any field**:
`sem (applySm conj A s x b) = sem x + Sm.opQ conj s (sem b − A (sem x))` for all lists `x`, `b` -- polynomial / Chebyshev /
Richardson, block Jacobi, block Gauss-Seidel, `jacobi_ne`, `gauss_seidel_ne`, `gauss_seidel_nr` (with the conjugation),
CF / FC Jacobi, Schwarz, Gauss-Seidel / SOR, Jacobi, the point smoothers of BSR levels, CF / FC block Jacobi, matrices -/
restate field_recorded_smoother_is_linear_iteration := PyamgV.C03Y.sm_semLin
restate field_recorded_smoother_isLinIter := PyamgV.C03Y.sm_isLinIter
/-- (E55) `cycle_is_linear_iteration` over any field: one cycle of `cycY` is `x + M (b − A₀ x)`, `M = MopY` = the textbook
composition (`MopL`) of the recorded smoothers' operators, `P`, `R`, the coarse solver; V / W / F, any `cycles_per_level` -/
restate field_cycle_is_linear_iteration := PyamgV.C03Y.cycY_affine
/-- (E55) under `sem`, the scalar-polymorphic model is the abstract recursion `cyc` -/
restate field_model_refines_abstract_cycle := PyamgV.C03Y.cycY_sem
/-- (E55) `exact_solution_is_fixed_point` over any field -/
restate field_exact_solution_is_fixed_point := PyamgV.C03Y.cycY_fixed_point
/-- (E55) `k_cycles_error_propagation` over any field -/
restate field_k_cycles_error_propagation := PyamgV.C03Y.cycY_iter_error
/-- (E55) `preconditioner_is_M` over any field: `aspreconditioner(cycle)` of the model is the linear map `M` of the requested
cycle type (`cycles_per_level = 1`) whatever the tolerance test does -/
restate field_preconditioner_is_M := PyamgV.C03Y.precY_eq
/-- (E55) `k_one_cycle_calls_eq_one_k_cycle_call` over any scalar -/
restate field_k_one_cycle_calls := PyamgV.C03Y.solveY_k_calls
restate field_one_cycle_call_is_one_step := PyamgV.C03Y.loopY_one
/-- (E55) the generic steps over a field -/
restate field_generic_cycle_is_linear_iteration := PyamgV.C03Y.cycF_affine
restate field_array_kernel_on_padded_lists := PyamgV.C03Y.semLin_viaArr
restate field_csr_copy_denotes_csr_operator := PyamgV.C03Y.msem_csrDense
restate field_csc_copy_denotes_csc_operator := PyamgV.C03Y.msem_cscDense
restate field_bsr_copy_denotes_bsr_operator := PyamgV.C03Y.msem_bsrDense
/-- (E55) the families one by one over a field (array kernel model = function-level model, which is a linear iteration) -/
restate field_polynomial_call_is_linear_iteration := PyamgV.C03Y.poly_semLin
restate field_block_jacobi_call_is_linear_iteration := PyamgV.C03Y.bjac_semLin
restate field_block_gauss_seidel_call_is_linear_iteration := PyamgV.C03Y.bgs_semLin
/-- (E55) Kaczmarz with an arbitrary conjugation: the row operator is `ω Dinv_i conj(a_i) (·)_i` -/
restate field_gauss_seidel_ne_call_is_linear_iteration := PyamgV.C03Y.gsne_semLin
/-- (E55) `jacobi_ne`: `Q = ω Aᴴ diag(A Aᴴ)⁻¹` with `Aᴴ` the entry-wise `conj` of the transpose -/
restate field_jacobi_ne_call_is_linear_iteration := PyamgV.C03Y.jacne_semLin
/-- (E55) `gauss_seidel_nr` (CSC arrays): the kernel loop keeps `r = b − A x`; column operator `ω Dinv_i e_i ⟨conj(A e_i), ·⟩` -/
restate field_gauss_seidel_nr_call_is_linear_iteration := PyamgV.C03Y.gsnr_semLin
restate field_gauss_seidel_nr_kernel_keeps_residual := PyamgV.C03Y.nr_fold
restate field_cf_fc_jacobi_call_is_linear_iteration := PyamgV.C03Y.cfjac_semLin
restate field_schwarz_call_is_linear_iteration := PyamgV.C03Y.schwarz_semLin
restate field_gauss_seidel_sor_call_is_linear_iteration := PyamgV.C03Y.gs_semLin
restate field_jacobi_call_is_linear_iteration := PyamgV.C03Y.jac_semLin
/-- (E55) **the smoothers of BSR levels**: `gauss_seidel` / `sor` (`bsr_gauss_seidel`, resp. `tocsr` + the SOR kernel) and
`jacobi` (`bsr_jacobi`) are the point kernels on the point rows `bsrToCsr` of the BSR arrays -- a linear iteration of the level
matrix `bsrDense M` when every point row stores one non-zero diagonal entry -/
restate bsr_point_gauss_seidel_sor_is_linear_iteration := PyamgV.C03Y.bsrgs_semLin
restate bsr_point_jacobi_is_linear_iteration := PyamgV.C03Y.bsrjac_semLin
/-- (E55) meaning of the point rows: stored row `p` of `bsrToCsr M` lists, for every stored block of block row `p / bs` in storage
order, the `bs` entries of its row `p % bs`; hence the dense form of the point rows IS the dense form of the BSR arrays -/
restate bsr_point_rows_are_block_rows := PyamgV.C03Y.bsrToCsr_row
restate bsr_point_rows_denote_bsr_matrix := PyamgV.C03Y.csrDense_bsrToCsr
/-- (E55) **CF / FC block Jacobi** (`block_jacobi_indexed` kernel, `Dinv_i A_ii = I`): `c_iterations` sweeps
`x + ω E_C D⁻¹ E_Cᵀ (b − A x)` and `f_iterations` sweeps over the F block rows in the stated order, `iterations` times -/
restate cf_fc_block_jacobi_is_linear_iteration := PyamgV.C03Y.cfbjac_semLin
restate block_jacobi_indexed_kernel_is_splitting_update := PyamgV.C03Y.bjacIdx_refines
/-- (E55) the order-free abstract steps the above rest on (E23's `CF` theorems; stated here for completeness) -/
restate field_abstract_cycle_is_linear_iteration := PyamgV.CF.cycL_isLinIter
restate field_linear_iterations_compose_list := PyamgV.C03Y.IsLinIter.foldl
restate field_polynomial_is_linear_iteration := PyamgV.C03Y.polynomial_isLinIter
restate field_polynomial_model_refines := PyamgV.C03Y.polynomial_refines
/-- (E55) **the scalar-polymorphic model contains the rational extended model of E38**: over `ℚ` with `conj = id` and the
recorded calls of E38 read as recorded calls of the new model (`RatInst.ofSm`), `cycY` / `solveY` / `precY` ARE `cycX` / `solveX` /
`precX`, every recorded call is the same map and `AllOK` is the same predicate -- the driver ops `c03x_run` and `c03y_run r` run
one model -/
restate field_model_contains_rational_model := PyamgV.C03Y.RatInst.cycY_eq_cycX
restate field_solve_contains_rational_solve := PyamgV.C03Y.RatInst.solveY_eq_solveX
restate field_preconditioner_contains_rational_preconditioner := PyamgV.C03Y.RatInst.precY_eq_precX
restate field_recorded_call_is_rational_recorded_call := PyamgV.C03Y.RatInst.applySm_eq
restate field_hypothesis_is_rational_hypothesis := PyamgV.C03Y.RatInst.allOK_iff
/-- (E55) non-vacuity and necessity over the Gaussian rationals, evaluated by the kernel: recorded complex calls of every family
(Hermitian and nonsymmetric level matrix, complex damping parameters, BSR point smoothers, CF / FC block Jacobi) satisfy
`AllOK`; the conjugate copy, the conjugate inverse block and BSR arrays of another matrix are rejected; without the
conjugation the `_ne` / `_nr` kernels give other iterates -/
restate witness_complex_all_families_ok := PyamgV.C03Y.Witness.all_ok
restate witness_complex_stale_copy_rejected := PyamgV.C03Y.Witness.stale_copy_rejected
restate witness_complex_wrong_inverse_rejected := PyamgV.C03Y.Witness.wrong_inverse_rejected
restate witness_bsr_point_rows_checked := PyamgV.C03Y.Witness.bsr_point_rows_checked
restate witness_conjugation_matters_ne := PyamgV.C03Y.Witness.conj_matters_ne
restate witness_conjugation_matters_nr := PyamgV.C03Y.Witness.conj_matters_nr
restate witness_conjugated_kaczmarz_fixed_point := PyamgV.C03Y.Witness.conj_fixed_point_ne
restate witness_complex_run_blocks := PyamgV.C03Y.Witness.run_blocks
restate witness_cf_block_jacobi_nontrivial := PyamgV.C03Y.Witness.cfbjac_nontrivial
/-- (E55) the field-generic theorems applied to the executable complex model (instances of Model/CRat.lean) -/
restate witness_complex_fixed_point := PyamgV.C03Y.Witness.fixed_point_complex
restate witness_complex_nonsymmetric_fixed_point := PyamgV.C03Y.Witness.fixed_point_complex_nonsymmetric
restate witness_complex_preconditioner_is_M := PyamgV.C03Y.Witness.precond_complex

/-! non-vacuity (E55): the error-propagation theorem on the concrete complex hierarchy, the driver's scalar operations -/
open PyamgV PyamgV.C03Y PyamgV.C03Y.Witness in
example (k : Nat) (x : Vec CRat) :
    sem ([c 1 0, c 1 0] : Vec CRat) - sem (PyamgV.C03.iterN (fun x => cycY CRat.conj S2 .V 1 [L1, L6] x [c 2 (-1), c 2 1]) k x) =
      Nat.iterate (fun e => e - MopY CRat.conj S2 .V 1 [L1, L6] (msem L1.A e)) k (sem ([c 1 0, c 1 0] : Vec CRat) - sem x) :=
  cycY_iter_error CRat.conj S2 .V 1 L1 [L6] (fun L hL => all_ok L (by simp at hL ⊢; rcases hL with h | h <;> simp [h]))
    [c 1 0, c 1 0] [c 2 (-1), c 2 1] (by rw [← sem_matVec]; exact congrArg sem exact_solution) k x

/-! ## extension E57: `MultilevelSolver.__solve` as GENERATED from the working tree

`Generated/PyLogic3_cycle.lean` (`harness/py2lean3_cycle.py`) is the translation of the method with the numerical work
abstracted as events; `ExtPy3Cyc.runCycle L c k` runs it on the `L`-level mock hierarchy.  FINITE grids (evaluated by
the kernel): `m + 1` levels for `m ∈ {1..5}`, cycle `V / W / F`, `cycles_per_level ∈ {1, 2, 3}` -- see META['partial']:
no theorem for all depths. -/

/-- (E57, finite grid) the generated `__solve` calls the smoothers and the coarse solver in the order `C03.traceM`,
which is the order of the hand-written model (`visits_in_textbook_order`) -/
restate generated_cycle_visits_grid_5x3x3 := PyamgV.ExtPy3Cyc.cycle_visits_grid_5x3x3
/-- (E57, finite grid) the WHOLE trace of the generated `__solve` is the hand-written textbook data flow
`ExtPy3Cyc.specCyc`: pre-smoothing on `(A_l, x, b)`, `b - A_l @ x`, restriction by `R_l`, zero coarse iterate, coarse
solve on the last level / recursive visits on ONE coarse iterate, `x + P_l @ coarse_x`, post-smoothing -/
restate generated_cycle_trace_grid_5x3x3 := PyamgV.ExtPy3Cyc.cycle_trace_grid_5x3x3
/-- (E57, finite grid) the smoother / coarse-solver calls of `specCyc` are `C03.traceM` -/
restate generated_cycle_spec_visits_grid_5x3x3 := PyamgV.ExtPy3Cyc.specCyc_visits_grid_5x3x3

/-- non-vacuity (E57): 45 grid points; the deepest W-cycle of the grid has 280 events, 16 of them coarse solves -/
example : PyamgV.ExtPy3Cyc.grid.length = 45 ∧
    (PyamgV.ExtPy3Cyc.specCyc .W 1 0 5 (.obj "x") (.obj "b") 0).length = 280 ∧
    ((PyamgV.ExtPy3Cyc.visits 6 (PyamgV.ExtPy3Cyc.specCyc .W 1 0 5 (.obj "x") (.obj "b") 0)).count "self.coarse_solver") = 16 := by
  decide +kernel

end PyamgV.Props.C03
