import PyamgV.Props.Restate
import PyamgV.Proofs.StencilPf
import PyamgV.Proofs.StencilSym
import PyamgV.Proofs.C20Stencil
import PyamgV.Proofs.C20Poisson
import PyamgV.Proofs.C20PoissonDom
import PyamgV.Proofs.C20PoissonMat
import PyamgV.Proofs.C20Diffusion
import PyamgV.Proofs.C20Spd
import PyamgV.Proofs.ExtC20ElasticPD
import PyamgV.Proofs.ExtC20Twin
import PyamgV.Proofs.ExtC20SpectrumReal
import PyamgV.Proofs.ExtC20CompThm

/-! # C20 — gallery operators equal the discretisations they document

Models (all run by the driver against the real functions on every check): `Stencil.stencilGrid`
(`stencil_grid`: strides, boundary zeroing, out-of-range diagonals, duplicate diagonals) with its front end
`C20.stencilDense` (dense odd-shaped stencil array, argument checks, offsets `index - shape//2`),
`C20.poisson` (`FD`/`FE` stencils in any dimension), `C20.diffusion2d`, `C20.diffusion3dFD`,
`C20.q12d` = argument handling + `C20.q12dCore` (`q12d_local`, node numbering, connectivity offsets,
rigid-body modes, Dirichlet elimination).  A matrix is the list of `(row, col, value)` triples it is
assembled from (duplicates add); `entry`, `rowdot`, `rowsum`, `qform` read such a list as a matrix.
Every theorem holds for every dimension / grid shape (1-wide and non-square included) / stencil shape /
anisotropy ratio / spacing / pair of Lame parameters named in its statement. -/
namespace PyamgV.Props.C20

/-! ## stencil_grid -/
/-- one stencil entry `(off, v)` generates exactly the triples `(p, q, v)` with `coords q = coords p + off`, both
points inside the grid (row-major numbering): homogeneous Dirichlet truncation -/
restate stencil_contrib_mem := PyamgV.Stencil.contrib_mem
/-- the result is the concatenation of the contributions of the stencil entries (duplicates add) -/
restate stencil_grid_eq := PyamgV.Stencil.stencilGrid_eq
/-- a stencil closed under negation of offsets gives a symmetric matrix -/
restate stencil_grid_symm := PyamgV.Stencil.stencilGrid_symm
/-- the matrix entry by entry (`entry` adds duplicates): entry `(p, q)` is the sum of the stencil values whose
offset carries grid point `p` to grid point `q`, both inside the grid -/
restate stencil_grid_entry := PyamgV.C20.stencilGrid_entry
/-- `stencil_grid` as called with a dense odd-shaped array: `(p, q, w)` is generated iff `w` is a nonzero
stencil entry whose offset `index - shape//2` carries grid point `p` to grid point `q` -/
restate stencil_dense_entry := PyamgV.C20.stencilDense_entry
/-- accepted arguments = odd extents, equal dimensions, non-empty grid with positive extents -/
restate stencil_dense_ok_iff := PyamgV.C20.stencilDense_ok_iff

/-! ## poisson -/
/-- FD and FE Poisson matrices are symmetric, in every dimension and on every grid shape -/
restate poisson_symm := PyamgV.C20.poisson_symm
/-- sign pattern: entries lie inside the matrix, diagonal entries are `2N` resp. `3^N - 1`, all others `-1` -/
restate poisson_entries := PyamgV.C20.poisson_entries
/-- weak diagonal dominance: every row sum is non-negative (with the sign pattern: a symmetric Z-matrix
with positive diagonal, weakly diagonally dominant — a symmetric M-matrix once nonsingular) -/
restate poisson_rowsum_nonneg := PyamgV.C20.poisson_rowsum_nonneg

/-- matrix level (multiplicities included): symmetric -/
restate poisson_entry_symm := PyamgV.C20.poisson_entry_symm
/-- matrix level: off-diagonal entries are non-positive (Z-matrix) -/
restate poisson_offdiag_nonpos := PyamgV.C20.poisson_offdiag_nonpos
/-- matrix level: the diagonal entry of every row is `2N` resp. `3^N - 1` -/
restate poisson_diag := PyamgV.C20.poisson_diag

/-! ### extension E21: Kronecker structure, strict definiteness, closed-form spectrum
`qf n M x = Σ_{p<n} x_p Σ_{q<n} M p q x_q`, `mv n M x p = Σ_{q<n} M p q x_q` on an entry function `M`;
`tri = tridiag(-1,2,-1)`, `triJ = tridiag(1,1,1)`; `prod grid` = number of grid points. -/
/-- `xᵀ A x` read off the triples is the quadratic form of the entry function (all triples inside the matrix) -/
restate qform_is_entry_form := PyamgV.C20.qform_eq_qf
/-- `xᵀ A x = Σ_p x_p (A x)_p` for the readings `qform`, `rowdot` -/
restate qform_is_sum_rowdot := PyamgV.C20.qform_eq_sum_rowdot
/-- **Kronecker-sum structure of the FD matrix of the model**: on the grid `g :: gs`, index `p = c * prod gs + r`,
`A (cP+r) (c'P+r') = [r = r'] tri c c' + [c = c'] A_gs r r'` -/
restate poisson_fd_kron := PyamgV.C20.poissonFD_kron
/-- 1-D energy identity: `yᵀ tridiag(-1,2,-1) y = y_0² + Σ_edges (y_c - y_{c+1})² + y_last²` (edges + the two
Dirichlet boundary terms) -/
restate poisson_energy_1d := PyamgV.C20.qf_tri_sos
/-- N-D energy identity (recursive): `xᵀ A x = Σ_lines (1-D energy along the first axis) + Σ_slices xᵀ A_rest x` -/
restate poisson_fd_energy := PyamgV.C20.fd_qf_cons
/-- **the FD Poisson matrix is positive definite** in every dimension `≥ 1`, on every grid shape:
`xᵀ A x ≥ 0`, and `= 0` only if `x` vanishes on the whole grid -/
restate poisson_fd_posdef := PyamgV.C20.poissonFD_posdef
/-- `xᵀ A x > 0` for `x ≠ 0` -/
restate poisson_fd_qform_pos := PyamgV.C20.poissonFD_qform_pos
/-- **the FD Poisson matrix is nonsingular**: `A x = 0` on the grid forces `x = 0` on the grid -/
restate poisson_fd_nonsingular := PyamgV.C20.poissonFD_nonsingular
/-- energy identity of any symmetric matrix: `xᵀ M x = Σ_p rowsum_p x_p² + ½ Σ_{p,q} (-M p q)(x_p - x_q)²` -/
restate dominant_energy := PyamgV.C20.qf_energy
/-- FE matrix of the model: `A = 3^N I - W`, `W p q` = number of offsets in `{-1,0,1}^N` carrying `p` to `q` -/
restate poisson_fe_split := PyamgV.C20.fe_split
/-- **Kronecker-product structure of the FE coupling pattern**: `W_{g::gs} = tridiag(1,1,1) ⊗ W_gs` -/
restate poisson_fe_kron := PyamgV.C20.wsum_kron
/-- **the FE Poisson matrix is positive definite** in every dimension `≥ 1`, on every grid shape -/
restate poisson_fe_posdef := PyamgV.C20.poissonFE_posdef
/-- **the FE Poisson matrix is nonsingular** -/
restate poisson_fe_nonsingular := PyamgV.C20.poissonFE_nonsingular
/-- what the front end `poisson grid type` returns (FD and FE) is positive definite and nonsingular: with
`poisson_symm`, `poisson_offdiag_nonpos`: a nonsingular symmetric M-matrix -/
restate poisson_posdef := PyamgV.C20.poisson_posdef

/-- Chebyshev `U_j(c)` by recurrence over any commutative ring; 1-D residual form for EVERY `c`:
`(tridiag(-1,2,-1) v)_j = (2 - 2c) v_j + [j = n-1] U_n(c)`, `v_j = U_j(c)` -/
restate cheb_residual_1d := PyamgV.C20.mv_triR_cheb
/-- **1-D spectrum, algebraic form** (any commutative ring): for every root `c` of `U_n`, `v_j = U_j(c)` is an
eigenvector of `tridiag(-1,2,-1)` of size `n` for `2 - 2c` -/
restate cheb_eigen_1d := PyamgV.C20.mv_triR_cheb_root
/-- eigenvectors of a Kronecker sum `T ⊗ I + I ⊗ M'`: products, for the sum of the eigenvalues (any commutative ring) -/
restate kron_sum_eigen := PyamgV.C20.mv_kron_eigen
/-- eigenvectors of a Kronecker product `T ⊗ M'`: products, for the product of the eigenvalues -/
restate kron_prod_eigen := PyamgV.C20.mv_kronprod_eigen
/-- the model's matrix acting on vectors over a field `K` of characteristic zero (`rowdotK`) is `rowdot` for `K = Rat` -/
restate rowdotK_is_rowdot := PyamgV.C20.rowdotK_rat
/-- **1-D Poisson spectrum on the model's matrix**: for every root `c` (in any field of characteristic zero) of
`U_n`: `(A v)_j = (2 - 2c) v_j`, `v_j = U_j(c)` -/
restate poisson_1d_spectrum := PyamgV.C20.poisson1d_spectrum
/-- **tensor-product lift, FD**: products of 1-D eigenvectors (any, not only Chebyshev) are eigenvectors of the
N-D matrix of the model for the sum of the 1-D eigenvalues -/
restate poisson_fd_tensor_eigen := PyamgV.C20.poissonFD_tensor_eigen
/-- **closed-form spectrum, FD, every dimension / grid**: roots `c_i` of `U_{g_i}` give the eigenpair
`(Σ_i (2 - 2 c_i), v(p) = Π_i U_{coords_i p}(c_i))` -/
restate poisson_fd_spectrum := PyamgV.C20.poissonFD_spectrum
/-- these eigenvectors are not zero: `v(0) = 1` -/
restate poisson_spectrum_nonzero := PyamgV.C20.poissonFD_spectrum_nonzero
/-- **tensor-product lift, FE**: eigenvalue `3^N - Π_i (3 - l_i)` -/
restate poisson_fe_tensor_eigen := PyamgV.C20.poissonFE_tensor_eigen
/-- **closed-form spectrum, FE**: eigenvalue `3^N - Π_i (1 + 2 c_i)` -/
restate poisson_fe_spectrum := PyamgV.C20.poissonFE_spectrum
/-- over the reals: `cos(k π / (n+1))`, `1 ≤ k ≤ n`, is a root of `U_n` (`U_j(cos θ) sin θ = sin((j+1) θ)`) -/
restate cheb_root_cos := PyamgV.C20.chebU_root_cos
/-- the documented closed form over the reals, 1-D: `λ_k = 2 - 2 cos(k π / (n+1))` -/
restate poisson_1d_spectrum_real := PyamgV.C20.poisson1d_spectrum_real
/-- ... N-D FD: `Σ_i (2 - 2 cos(k_i π / (g_i + 1)))` for every multi-index `1 ≤ k_i ≤ g_i` -/
restate poisson_fd_spectrum_real := PyamgV.C20.poissonFD_spectrum_real
/-- ... N-D FE: `3^N - Π_i (1 + 2 cos(k_i π / (g_i + 1)))` -/
restate poisson_fe_spectrum_real := PyamgV.C20.poissonFE_spectrum_real
/-- executable rational form (what the driver evaluates: `chebUQ`, `tvecQ`, `eigQ`, `rowdot`), FD and FE -/
restate poisson_spectrum_rat := PyamgV.C20.poisson_spectrum_rat
/-- executable 1-D residual form for every rational `c` -/
restate poisson_1d_residual_rat := PyamgV.C20.poisson1d_residual_rat

/-! ### extension E45: COMPLETENESS of the closed-form spectrum (the `prod grid` closed-form eigenpairs exhaust the
spectrum, with multiplicities).  Real vectors; `ip n x y = Σ_{p<n} x_p y_p`; `kidx grid m` = the `m`-th index tuple
`(k_1..k_N)`, `1 ≤ k_i ≤ g_i`, `m < prod grid` (row-major; executable twin `kidxQ`/`tuplesQ` run by the driver);
`tuples grid` = all of them; `Vnd grid m` = the product eigenvector of `poisson_fd_spectrum_real` for `kidx grid m`;
`eigFD grid ks = Σ_i (2 - 2 cos(k_i π/(g_i+1)))`, `eigFE grid ks = 3^N - Π_i (1 + 2 cos(k_i π/(g_i+1)))`;
`toMat n M` = the real `n × n` matrix `(M i j)`, `fdR`/`feR grid` = the entries of the model's triple list cast to `ℝ`;
`OrthoEigen n M V lam` = `M` symmetric, `V m` (`m < n`) pairwise orthogonal, not zero, `M (V m) = lam m · V m`. -/
/-- the abstract statement used throughout: a symmetric matrix is self-adjoint, so eigenvectors for different
eigenvalues are orthogonal -/
restate symm_eigvec_orthogonal := PyamgV.C20.Comp.orth_of_ne
/-- `n` pairwise orthogonal nonzero vectors of `ℝ^n` satisfy `Σ_m V_m(i) V_m(j) / ‖V_m‖² = δ_ij` (they are a basis) -/
restate ortho_complete_rel := PyamgV.C20.Comp.complete_rel
/-- index tuples: `kidx grid m` is a valid tuple for `m < prod grid` -/
restate spectrum_index_valid := PyamgV.C20.Comp.kidx_valid
/-- ... every valid tuple has a number `m < prod grid` -/
restate spectrum_index_surj := PyamgV.C20.Comp.kidx_surj
/-- ... exactly one -/
restate spectrum_index_inj := PyamgV.C20.Comp.kidx_inj
/-- `tuples grid` lists exactly the tuples `1 ≤ k_i ≤ g_i` -/
restate spectrum_tuples_mem := PyamgV.C20.Comp.mem_tuples
/-- ... each once -/
restate spectrum_tuples_nodup := PyamgV.C20.Comp.tuples_nodup
/-- ... `prod grid` of them: as many as the matrix has rows -/
restate spectrum_tuples_length := PyamgV.C20.Comp.tuples_length
/-- the executable enumeration the driver runs is `tuples` -/
restate spectrum_tuplesQ_eq := PyamgV.C20.Comp.tuplesQ_eq
/-- `Vnd grid m` is E21's product eigenvector of the index tuple `kidx grid m` -/
restate spectrum_vector_eq := PyamgV.C20.Comp.Vnd_eq
/-- 1-D: the closed-form eigenvalues `2 - 2 cos(k π/(n+1))` are strictly increasing in `k` (pairwise distinct) -/
restate poisson_1d_eigenvalues_distinct := PyamgV.C20.Comp.poisson1d_eigenvalues_strictMono
/-- 1-D: the Chebyshev vectors are an orthogonal eigenbasis of the model's `tridiag(-1,2,-1)` -/
restate poisson_1d_orthobasis := PyamgV.C20.Comp.ortho1d_model
/-- **1-D completeness**: every eigenvalue of the model's 1-D matrix (eigenvector not zero) is
`2 - 2 cos(k π/(n+1))` for some `1 ≤ k ≤ n` -/
restate poisson_1d_eigenvalue_complete := PyamgV.C20.Comp.poisson1d_eigenvalue_complete
/-- **1-D: the closed-form eigenvectors span `ℝ^n`** (explicit coefficients `⟨v_k, x⟩ / ‖v_k‖²`) -/
restate poisson_1d_span := PyamgV.C20.Comp.poisson1d_span
/-- **1-D: geometric multiplicity one**: every eigenvector for `2 - 2 cos(k π/(n+1))` is a multiple of `v_k` -/
restate poisson_1d_eigvec_unique := PyamgV.C20.Comp.poisson1d_eigvec_unique
/-- **1-D characteristic polynomial** `= Π_{k=1..n} (X - (2 - 2 cos(k π/(n+1))))` -/
restate poisson_1d_charpoly := PyamgV.C20.Comp.poisson1d_charpoly
/-- **1-D: algebraic multiplicity one** -/
restate poisson_1d_simple := PyamgV.C20.Comp.poisson1d_simple
/-- N-D: `⟨u ⊗ w, u' ⊗ w'⟩ = ⟨u, u'⟩ ⟨w, w'⟩` -/
restate tensor_inner_product := PyamgV.C20.Comp.ip_prod
/-- N-D: the product vectors of different index tuples are orthogonal -/
restate poisson_tensor_orthogonal := PyamgV.C20.Comp.poisson_tensor_orth
/-- N-D: their squared norms are positive -/
restate poisson_tensor_norm_pos := PyamgV.C20.Comp.poisson_tensor_norm_pos
/-- N-D completeness relation `Σ_m V_m(i) V_m(j) / ‖V_m‖² = δ_ij` -/
restate poisson_tensor_complete := PyamgV.C20.Comp.poisson_tensor_complete
/-- **N-D: the `prod grid` product vectors span `ℝ^(prod grid)`** -/
restate poisson_tensor_span := PyamgV.C20.Comp.poisson_tensor_span
/-- **N-D: they are linearly independent** (so: a basis) -/
restate poisson_tensor_linindep := PyamgV.C20.Comp.poisson_tensor_linindep
/-- FD / FE: the product vectors are an orthogonal eigenbasis of the model's matrix -/
restate poisson_fd_orthobasis := PyamgV.C20.Comp.fd_ortho
restate poisson_fe_orthobasis := PyamgV.C20.Comp.fe_ortho
/-- **N-D completeness, FD**: every eigenvalue of the model's matrix is `Σ_i (2 - 2 cos(k_i π/(g_i+1)))` for some
index tuple -/
restate poisson_fd_eigenvalue_complete := PyamgV.C20.Comp.poissonFD_eigenvalue_complete
/-- **eigenspaces, FD**: every eigenvector for `mu` is a combination of the product vectors whose closed-form value
is `mu` (which are linearly independent: geometric multiplicity = number of such tuples) -/
restate poisson_fd_eigenspace := PyamgV.C20.Comp.poissonFD_eigenspace
/-- **characteristic polynomial, FD** `= Π_tuples (X - eigFD)` -/
restate poisson_fd_charpoly := PyamgV.C20.Comp.poissonFD_charpoly
/-- **multiplicities, FD**: algebraic multiplicity of `mu` = number of index tuples with `eigFD grid ks = mu` -/
restate poisson_fd_multiplicity := PyamgV.C20.Comp.poissonFD_multiplicity
/-- **N-D completeness, FE**: every eigenvalue is `3^N - Π_i (1 + 2 cos(k_i π/(g_i+1)))` for some index tuple -/
restate poisson_fe_eigenvalue_complete := PyamgV.C20.Comp.poissonFE_eigenvalue_complete
/-- **eigenspaces, FE** -/
restate poisson_fe_eigenspace := PyamgV.C20.Comp.poissonFE_eigenspace
/-- **characteristic polynomial, FE** -/
restate poisson_fe_charpoly := PyamgV.C20.Comp.poissonFE_charpoly
/-- **multiplicities, FE** -/
restate poisson_fe_multiplicity := PyamgV.C20.Comp.poissonFE_multiplicity
/-- the matrices of the four statements above are the model's: entry `(i, j)` = `entry` of the triple list, cast -/
restate poisson_fd_matrix_entries := PyamgV.C20.Comp.toMat_fd_apply
restate poisson_fe_matrix_entries := PyamgV.C20.Comp.toMat_fe_apply

/-! ## diffusion stencils -/
/-- FE stencil sums to zero for every `eps` and every pair `(C, S)` -/
restate diffusion2d_fe_sum_zero := PyamgV.C20.diffusion2dFE_sum
/-- FD stencil sums to zero for every `eps` when `C² + S² = 1` -/
restate diffusion2d_fd_sum_zero := PyamgV.C20.diffusion2dFD_sum
/-- 3d FD stencil sums to zero for every pair of ratios and every three (cos, sin) pairs -/
restate diffusion3d_fd_sum_zero := PyamgV.C20.diffusion3dFD_sum
/-- the 2d stencils are point-symmetric (⇒ symmetric operator by `stencil_grid_symm`) -/
restate diffusion2d_point_symmetric := PyamgV.C20.diffusion2d_reflect

/-! ## elasticity -/
/-- `q12d_local`: symmetric for every `F` and every pair of Lame parameters -/
restate q12d_local_symm := PyamgV.C20.kloc_symm
/-- `q12d_local` on a rectangle annihilates the translations and the rotation `(-y, x)` of its nodes -/
restate q12d_local_rigid := PyamgV.C20.kloc_rigid
/-- `q12d_local` on a rectangle is positive semi-definite when `mu ≥ 0`, `lame + mu ≥ 0` (Simpson sum of squares) -/
restate q12d_local_psd := PyamgV.C20.kloc_psd
/-- what `q12d` returns when it accepts its arguments (`q12dCore` on the mesh, nonzero spacings) -/
restate q12d_some := PyamgV.C20.q12d_some
/-- the returned stiffness matrix is symmetric (free and Dirichlet) -/
restate q12d_symm := PyamgV.C20.q12dCore_symm
/-- the returned stiffness matrix is positive semi-definite (free and Dirichlet) for positive spacings,
`mu ≥ 0`, `lame + mu ≥ 0` -/
restate q12d_psd := PyamgV.C20.q12dCore_psd
/-- `E > 0`, `-1 < nu < 1/2` give such Lame parameters -/
restate q12d_lame_ok := PyamgV.C20.lame_ok
/-- the returned rigid-body modes lie in the nullspace of the unconstrained operator: every component
of `A_free B` vanishes -/
restate q12d_free_nullspace := PyamgV.C20.q12dCore_free_nullspace
/-- with Dirichlet elimination `(A B)` vanishes in the rows of the nodes all of whose neighbours are kept -/
restate q12d_dirichlet_inner_rows := PyamgV.C20.q12dCore_dirichlet_inner
/-- such rows have no entry in a column of a constrained node (they are the rows not coupled to the boundary) -/
restate q12d_inner_uncoupled := PyamgV.C20.uncoupled_of_inner

/-! ### extension E21: strict definiteness of the Dirichlet operator -/
/-- a zero-energy displacement of a rectangle (`mu > 0`, `lame + mu > 0`) that vanishes at the two lower nodes
vanishes at the two upper nodes -/
restate q12d_local_bottom_zero := PyamgV.C20.kloc_bottom_zero
/-- **the Dirichlet stiffness matrix is positive definite**: `xᵀ A x = 0` only if `x` vanishes on all `ndof`
degrees of freedom (every grid shape, positive spacings, `mu > 0`, `lame + mu > 0`) -/
restate q12d_dirichlet_definite := PyamgV.C20.q12dCore_dirichlet_definite
/-- `E > 0`, `-1 < nu < 1/2` give `mu > 0`, `lame + mu > 0` -/
restate q12d_lame_pos := PyamgV.C20.lame_pos
/-- what `q12d(..., dirichlet_boundary=True)` returns is positive definite -/
restate q12d_dirichlet_posdef := PyamgV.C20.q12d_dirichlet_posdef

/-! ## non-vacuity -/
open PyamgV.C20 in
example : (∃ T, stencilDense [3] [-1, 2, -1] [4] = .ok T) :=
  (stencilDense_ok_iff _ _ _).2 ⟨by decide, rfl, by decide, by decide⟩
open PyamgV.C20 in
example : ((poisson [2, 3] false).map List.length) = some 20 := by decide
open PyamgV.C20 in
example : inner 4 4 12 := by unfold inner; decide
open PyamgV.C20 in
example : (0 : Rat) < 100000 ∧ (-1 : Rat) < 3 / 10 ∧ (3 / 10 : Rat) < 1 / 2 := by norm_num
open PyamgV.C20 in
example : (4 / 5 : Rat) * (4 / 5) + (3 / 5) * (3 / 5) = 1 := by norm_num
open PyamgV.C20 in
example : (q12dCore 1 2 1 1 1 1 false).A.length = 128 ∧ (q12dCore 1 2 1 1 1 1 false).B.length = 12 := by
  simp [q12dCore, assemble, elems, elemTriples, modeRows]

open PyamgV.C20 in
example : List.Forall₂ (fun g c => chebUQ c g = 0) [2, 3, 5] [(1 / 2 : Rat), 0, -1 / 2] := by
  refine .cons ?_ (.cons ?_ (.cons ?_ .nil)) <;> (simp only [chebUQ, chebPair]; norm_num)
open PyamgV.C20 in
example : (q12dCore 3 3 1 2 1 1 true).ndof = 8 := by decide
open PyamgV.C20 in
example : ∃ T, poisson [2, 3] true = some T := ⟨_, rfl⟩
open PyamgV.C20 in
example : List.Forall₂ (fun g k => 1 ≤ k ∧ k ≤ g) [4, 7] [4, 1] := by
  refine .cons ?_ (.cons ?_ .nil) <;> decide

open PyamgV.C20 PyamgV.C20.Comp PyamgV.Stencil in
/-- E45: the hypotheses of the completeness theorems are satisfiable (an eigenvector that is not zero) -/
example : ∃ (mu : ℝ) (w : Nat → ℝ), (∃ p < prod [2, 3], w p ≠ 0) ∧
    ∀ p < prod [2, 3], rowdotK (stencilGrid [2, 3] (poissonFD [2, 3].length)) w p = mu * w p :=
  ⟨_, Vnd [2, 3] 4, ⟨0, by decide, by rw [Vnd_zero]; exact one_ne_zero⟩,
    fun p hp => poissonFD_spectrum_real [2, 3] (kidx [2, 3] 4) (kidx_valid _ _ (by decide)) p hp⟩
open PyamgV.C20.Comp in
example : tuples [2, 3] = [[1, 1], [1, 2], [1, 3], [2, 1], [2, 2], [2, 3]] := by decide

end PyamgV.Props.C20
