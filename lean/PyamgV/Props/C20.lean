import PyamgV.Props.Restate
import PyamgV.Proofs.StencilPf
import PyamgV.Proofs.StencilSym
import PyamgV.Proofs.C20Stencil
import PyamgV.Proofs.C20Poisson
import PyamgV.Proofs.C20PoissonDom
import PyamgV.Proofs.C20PoissonMat
import PyamgV.Proofs.C20Diffusion
import PyamgV.Proofs.C20Spd

/-! # C20 — gallery operators equal the discretisations they document

Models (all run by the driver against the real functions on every check): `Stencil.stencilGrid`
(`stencil_grid`: strides, boundary zeroing, out-of-range diagonals, duplicate diagonals) with its front end
`C20.stencilDense` (dense odd-shaped stencil array, argument checks, offsets `index - shape//2`),
`C20.poisson` (`FD`/`FE` stencils in any dimension), `C20.diffusion2d`, `C20.diffusion3dFD`,
`C20.q12d` = argument handling + `C20.q12dCore` (`q12d_local`, node numbering, connectivity offsets,
rigid-body modes, Dirichlet elimination).  A matrix is the list of `(row, col, value)` triples it is
assembled from (duplicates add); `entry`, `rowdot`, `rowsum`, `qform` read such a list as a matrix.
Every theorem holds for every dimension / grid shape (1-wide and non-square included) / stencil shape /
anisotropy ratio / spacing / pair of Lame parameters named in its statement. -/
namespace PyamgV.Props.C20

/-! ## stencil_grid -/
/-- one stencil entry `(off, v)` generates exactly the triples `(p, q, v)` with `coords q = coords p + off`, both
points inside the grid (row-major numbering): homogeneous Dirichlet truncation -/
restate stencil_contrib_mem := PyamgV.Stencil.contrib_mem
/-- the result is the concatenation of the contributions of the stencil entries (duplicates add) -/
restate stencil_grid_eq := PyamgV.Stencil.stencilGrid_eq
/-- a stencil closed under negation of offsets gives a symmetric matrix -/
restate stencil_grid_symm := PyamgV.Stencil.stencilGrid_symm
/-- the matrix entry by entry (`entry` adds duplicates): entry `(p, q)` is the sum of the stencil values whose
offset carries grid point `p` to grid point `q`, both inside the grid -/
restate stencil_grid_entry := PyamgV.C20.stencilGrid_entry
/-- `stencil_grid` as called with a dense odd-shaped array: `(p, q, w)` is generated iff `w` is a nonzero
stencil entry whose offset `index - shape//2` carries grid point `p` to grid point `q` -/
restate stencil_dense_entry := PyamgV.C20.stencilDense_entry
/-- accepted arguments = odd extents, equal dimensions, non-empty grid with positive extents -/
restate stencil_dense_ok_iff := PyamgV.C20.stencilDense_ok_iff

/-! ## poisson -/
/-- FD and FE Poisson matrices are symmetric, in every dimension and on every grid shape -/
restate poisson_symm := PyamgV.C20.poisson_symm
/-- sign pattern: entries lie inside the matrix, diagonal entries are `2N` resp. `3^N - 1`, all others `-1` -/
restate poisson_entries := PyamgV.C20.poisson_entries
/-- weak diagonal dominance: every row sum is non-negative (with the sign pattern: a symmetric Z-matrix
with positive diagonal, weakly diagonally dominant — a symmetric M-matrix once nonsingular) -/
restate poisson_rowsum_nonneg := PyamgV.C20.poisson_rowsum_nonneg

/-- matrix level (multiplicities included): symmetric -/
restate poisson_entry_symm := PyamgV.C20.poisson_entry_symm
/-- matrix level: off-diagonal entries are non-positive (Z-matrix) -/
restate poisson_offdiag_nonpos := PyamgV.C20.poisson_offdiag_nonpos
/-- matrix level: the diagonal entry of every row is `2N` resp. `3^N - 1` -/
restate poisson_diag := PyamgV.C20.poisson_diag

/-! ## diffusion stencils -/
/-- FE stencil sums to zero for every `eps` and every pair `(C, S)` -/
restate diffusion2d_fe_sum_zero := PyamgV.C20.diffusion2dFE_sum
/-- FD stencil sums to zero for every `eps` when `C² + S² = 1` -/
restate diffusion2d_fd_sum_zero := PyamgV.C20.diffusion2dFD_sum
/-- 3d FD stencil sums to zero for every pair of ratios and every three (cos, sin) pairs -/
restate diffusion3d_fd_sum_zero := PyamgV.C20.diffusion3dFD_sum
/-- the 2d stencils are point-symmetric (⇒ symmetric operator by `stencil_grid_symm`) -/
restate diffusion2d_point_symmetric := PyamgV.C20.diffusion2d_reflect

/-! ## elasticity -/
/-- `q12d_local`: symmetric for every `F` and every pair of Lame parameters -/
restate q12d_local_symm := PyamgV.C20.kloc_symm
/-- `q12d_local` on a rectangle annihilates the translations and the rotation `(-y, x)` of its nodes -/
restate q12d_local_rigid := PyamgV.C20.kloc_rigid
/-- `q12d_local` on a rectangle is positive semi-definite when `mu ≥ 0`, `lame + mu ≥ 0` (Simpson sum of squares) -/
restate q12d_local_psd := PyamgV.C20.kloc_psd
/-- what `q12d` returns when it accepts its arguments (`q12dCore` on the mesh, nonzero spacings) -/
restate q12d_some := PyamgV.C20.q12d_some
/-- the returned stiffness matrix is symmetric (free and Dirichlet) -/
restate q12d_symm := PyamgV.C20.q12dCore_symm
/-- the returned stiffness matrix is positive semi-definite (free and Dirichlet) for positive spacings,
`mu ≥ 0`, `lame + mu ≥ 0` -/
restate q12d_psd := PyamgV.C20.q12dCore_psd
/-- `E > 0`, `-1 < nu < 1/2` give such Lame parameters -/
restate q12d_lame_ok := PyamgV.C20.lame_ok
/-- the returned rigid-body modes lie in the nullspace of the unconstrained operator: every component
of `A_free B` vanishes -/
restate q12d_free_nullspace := PyamgV.C20.q12dCore_free_nullspace
/-- with Dirichlet elimination `(A B)` vanishes in the rows of the nodes all of whose neighbours are kept -/
restate q12d_dirichlet_inner_rows := PyamgV.C20.q12dCore_dirichlet_inner
/-- such rows have no entry in a column of a constrained node (they are the rows not coupled to the boundary) -/
restate q12d_inner_uncoupled := PyamgV.C20.uncoupled_of_inner

/-! ## non-vacuity -/
open PyamgV.C20 in
example : (∃ T, stencilDense [3] [-1, 2, -1] [4] = .ok T) :=
  (stencilDense_ok_iff _ _ _).2 ⟨by decide, rfl, by decide, by decide⟩
open PyamgV.C20 in
example : ((poisson [2, 3] false).map List.length) = some 20 := by decide
open PyamgV.C20 in
example : inner 4 4 12 := by unfold inner; decide
open PyamgV.C20 in
example : (0 : Rat) < 100000 ∧ (-1 : Rat) < 3 / 10 ∧ (3 / 10 : Rat) < 1 / 2 := by norm_num
open PyamgV.C20 in
example : (4 / 5 : Rat) * (4 / 5) + (3 / 5) * (3 / 5) = 1 := by norm_num
open PyamgV.C20 in
example : (q12dCore 1 2 1 1 1 1 false).A.length = 128 ∧ (q12dCore 1 2 1 1 1 1 false).B.length = 12 := by
  simp [q12dCore, assemble, elems, elemTriples, modeRows]

end PyamgV.Props.C20
