import PyamgV.Props.Restate
import PyamgV.Proofs.KrylovLoop
import PyamgV.Proofs.CgStatus
import PyamgV.Proofs.C06Loop
import PyamgV.Proofs.C06Resid
import PyamgV.Proofs.C06Gmres
import PyamgV.Proofs.C06CRat
import PyamgV.Driver.C06
import PyamgV.Proofs.ExtC06Gmres
import PyamgV.Model.ExtC06GmresExample
import PyamgV.Proofs.ExtCGVecHh
import PyamgV.Model.ExtCGExample
import Mathlib.Analysis.Real.Sqrt

/-! # C06 — Krylov solvers: status, residual history and callback tell the truth

Models (`Model/C06Krylov.lean`, import-free, run by the driver op `c06_run` on `Rat` and on Gaussian
rationals and compared with the public functions of `pyamg/krylov` on every run): `cg`, `cr`,
`cgne`, `cgnr`, `bicgstab`, `steepestDescent`, `minimalResidual` — the recurrences with
preconditioner, periodic residual recomputation, every documented criterion, breakdown exits and the
complete bookkeeping, all instances of one control skeleton `run` — and `gmresCtl`, the control
flow of `gmres_mgs` / `gmres_householder` / `fgmres` (op `c06_gctl`).

`Truthful o x0 maxiter H C` (defined next to the models) is the conjunction of the clauses of the
property for an output `o = (x, status, history², callback log)`:
history = `H` of `x0` and of every callback iterate, in order (one entry per iterate, the last one
belonging to the returned `x`); at most `maxiter` callbacks; status `0` ⇒ `C x`; positive status ⇒
status = `maxiter` = number of callbacks and `¬ C x`; for status `≥ 0` the returned `x` is the last
callback argument; `C x0` ⇒ `x0` is returned unchanged with status `0`, one entry, no callback.
In the solver theorems `H x = ‖b − A x‖²` (resp. `‖M(b − A x)‖²`) and `C x` is the documented
criterion evaluated from the true residual of `x`: the recursively updated residual the code tests
is proved equal to `b − A x` for every state of the loop, with no condition on `A`, `M`, `alpha`,
`beta`, `omega` (exact arithmetic; any commutative ring of scalars).

Extension E16 — the GMRES family as theorems.  `Model/ExtC06Gmres.lean` holds executable models of the *complete*
functions `gmres_mgs`, `gmres_householder`, `fgmres` (the inner iterations of the C07 models `gmresStep`, `ghStep`,
`fgStep` under the control flow of the three files: what is appended to `residuals`, what `callback` receives, the
early `break` on the Givens estimate, the explicit residual at the end of a cycle, stagnation exit, restarts, the
returned status); op `ext_c06_gmres` runs them in binary64 and the check compares status, every history entry,
every callback iterate and `x` with the public functions.  Over an ordered field with an exact square root the
running estimate `|g[inner+1]|` the code records is proved equal to `‖M(b − A x)‖₂` (fgmres: `‖b − A x‖₂`) of the
iterate handed to `callback` (`gmres_mgs_estimate`, `gmres_householder_estimate`, `fgmres_estimate`; a non-zero
estimate certifies the absence of a breakdown, so no breakdown hypothesis is left), hence `GTruthful`: the C06
clauses for the complete runs, for a positive threshold and `max_inner ≤ n` (`gmres_dims_inner_le`). -/
namespace PyamgV.Props.C06
open PyamgV PyamgV.C06

/-! ### the control skeleton -/
/-- visited states ↔ history ↔ callback log, statuses, what each status says (executable skeleton) -/
restate run_bookkeeping := PyamgV.C06.run_spec
/-- with an invariant that makes record and test functions of the iterate: the C06 clauses -/
restate run_truthful := PyamgV.C06.run_truthful
/-- the design-round skeleton (status/nres/ncb counters only) -/
restate skeleton_spec := PyamgV.KL.solve_spec
/-- CG over an abstract inner-product space: status 0 ⇒ criterion for the true residual -/
restate cg_status_true_residual := PyamgV.PCG.cg_status_spec

/-! ### the recursive residual is the true residual -/
restate recursive_residual_is_true_residual := PyamgV.C06.resid_axpy

/-! ### the seven recurrence solvers (the executable models themselves) -/
restate cg_truthful := PyamgV.C06.cg_truthful
restate cr_truthful := PyamgV.C06.cr_truthful
/-- iteration limit = `clampNE n maxiter` (`maxiter > 1.3 n` is replaced by `ceil(1.3 n) + 2`) -/
restate cgne_truthful := PyamgV.C06.cgne_truthful
/-- criterion = `critNR`: 'MrMr' and 'rMr' test `M Aᴴ r` (known finding: the docstring says `M r`) -/
restate cgnr_truthful := PyamgV.C06.cgnr_truthful
/-- `n ≥ 2` (the one-dimensional shortcut is a known finding); covers the half-step exit -/
restate bicgstab_truthful := PyamgV.C06.bicgstab_truthful
restate steepest_descent_truthful := PyamgV.C06.sd_truthful
/-- history and criterion in the preconditioned norm `‖M(b − A x)‖` -/
restate minimal_residual_truthful := PyamgV.C06.mr_truthful

/-! ### GMRES family: control flow -/
restate gmres_control_spec := PyamgV.C06.gmres_ctl_spec
restate gmres_converged_x0 := PyamgV.C06.gmres_ctl_converged_x0

/-! ### GMRES family: history values and callback iterates (extension E16) -/
/-- Arnoldi data + Givens sweep + solved triangular system ⇒ `‖c − B(x₀ + Σ y_j z_j)‖² = (Q_k βe₀)_k²`: the
squared residual norm of the GMRES iterate is the square of the entry `g[k]` of the rotated right-hand side -/
restate gmres_estimate_is_residual_norm := PyamgV.Gmres.resnorm_of_givens
/-- the same from the invariant of the executable Givens bookkeeping (`givensUpdate`, `backSub`) -/
restate gmres_estimate_list_level := PyamgV.C07.givL_resnorm
/-- `g[k+1] ≠ 0` ⇒ the rotation was computed, `g[k] ≠ 0`, the new diagonal entry of `R` is non-zero -/
restate gmres_nonzero_estimate_live_rotation := PyamgV.C07.givensUpdate_nb
/-- … by induction: a non-zero estimate certifies a non-singular triangular factor -/
restate gmres_nonzero_estimate_no_breakdown := PyamgV.C07.nb_step
/-- `_gmres_mgs.py`, inner-iteration model: `g[m+1] ≠ 0`, `m + 1 < n` ⇒ `‖M (b − A x_{m+1})‖₂ = |g[m+1]|` for the
iterate `x_{m+1}` the callback receives (no breakdown hypothesis: `gmSeq_nb`) -/
restate gmres_mgs_estimate := PyamgV.C07.gmres_mgs_estimate
/-- `_gmres_householder.py` -/
restate gmres_householder_estimate := PyamgV.C07.gmres_hh_estimate
/-- `_fgmres.py`: the norm of the true residual `b − A x_{m+1}`, for any preconditioner maps -/
restate fgmres_estimate := PyamgV.C07.fgmres_estimate
/-- control flow of the complete runs: estimate invariant ⇒ the C06 clauses (`GTruthful`) -/
restate gmres_run_truthful_of_estimate := PyamgV.ExtC06.gRun_truthful
/-- the iteration limits computed from `restart` / `maxiter` never exceed `n` -/
restate gmres_dims_inner_le := PyamgV.ExtC06.gmresDims_inner_le
/-- complete `gmres_mgs` model over a module: history entry `k` = `‖M(b − A ·)‖₂` of callback iterate `k`, last entry
and last callback = returned `x`, status `0` ⇒ the recomputed residual meets the criterion, positive status = number
of iterations and the criterion fails, converged `x0` returned unchanged -/
restate gmres_mgs_truthful := PyamgV.ExtC06.gmres_mgs_run_truthful
restate gmres_householder_truthful := PyamgV.ExtC06.gmres_hh_run_truthful
/-- `fgmres`: history and criterion in the norm of the true residual `b − A x` (since 925d7a0 its counter is the
number of callbacks, as in the other two files) -/
restate fgmres_truthful := PyamgV.ExtC06.fgmres_run_truthful
/-- the same for the `Vector K n` instance the driver executes (op `ext_c06_gmres`, in binary64 there) -/
restate gmres_mgs_vec_truthful := PyamgV.ExtC06.gmres_mgs_vec_truthful
restate gmres_householder_vec_truthful := PyamgV.ExtC06.gmres_hh_vec_truthful
restate fgmres_vec_truthful := PyamgV.ExtC06.fgmres_vec_truthful

/-! ### the theorems are about what the driver runs -/
/-- the ops `c06_run <solver> r …` evaluate exactly the functions of the theorems above at `K = Rat`
(the scalar operations found through Mathlib's `CommRing ℚ` are the core ones, by `rfl`) -/
theorem driver_runs_models_rat (A M : Mat Rat) (b x0 : Vec Rat) (c : Crit) (tol2 : Rat) (mi : Nat) :
    Drv.C06.runR "cg" A M b x0 c tol2 mi = some (cg A M b x0 c tol2 mi) ∧
    Drv.C06.runR "cr" A M b x0 c tol2 mi = some (cr A M b x0 c tol2 mi) ∧
    Drv.C06.runR "cgne" A M b x0 c tol2 mi = some (cgne A M b x0 c tol2 mi) ∧
    Drv.C06.runR "cgnr" A M b x0 c tol2 mi = some (cgnr A M b x0 c tol2 mi) ∧
    Drv.C06.runR "bicgstab" A M b x0 c tol2 mi = some (bicgstab A M b x0 c tol2 mi) ∧
    Drv.C06.runR "steepest_descent" A M b x0 c tol2 mi = some (steepestDescent A M b x0 c tol2 mi) ∧
    Drv.C06.runR "minimal_residual" A M b x0 c tol2 mi = some (minimalResidual A M b x0 tol2 mi) :=
  ⟨rfl, rfl, rfl, rfl, rfl, rfl, rfl⟩

/-- the same for the complex runs (`c06_run <solver> c …`), through `CommRing CRat` -/
theorem driver_runs_models_crat (A M : Mat CRat) (b x0 : Vec CRat) (c : Crit) (tol2 : Rat) (mi : Nat) :
    Drv.C06.runC "cg" A M b x0 c tol2 mi = some (cg A M b x0 c tol2 mi) ∧
    Drv.C06.runC "cr" A M b x0 c tol2 mi = some (cr A M b x0 c tol2 mi) ∧
    Drv.C06.runC "cgne" A M b x0 c tol2 mi = some (cgne A M b x0 c tol2 mi) ∧
    Drv.C06.runC "cgnr" A M b x0 c tol2 mi = some (cgnr A M b x0 c tol2 mi) ∧
    Drv.C06.runC "bicgstab" A M b x0 c tol2 mi = some (bicgstab A M b x0 c tol2 mi) ∧
    Drv.C06.runC "steepest_descent" A M b x0 c tol2 mi = some (steepestDescent A M b x0 c tol2 mi) ∧
    Drv.C06.runC "minimal_residual" A M b x0 c tol2 mi = some (minimalResidual A M b x0 tol2 mi) :=
  ⟨rfl, rfl, rfl, rfl, rfl, rfl, rfl⟩

/-- the solver theorem applies to the complex model as run by the driver -/
theorem cg_truthful_complex (A M : Mat CRat) (b x0 : Vec CRat) (n : Nat) (c : Crit) (tol2 : Rat) (maxiter : Nat)
    (hm : 1 ≤ maxiter) (hA : A.length = n) (hM : M.length = n) (hb : b.length = n) (hx : x0.length = n) :
    Truthful (cg A M b x0 c tol2 maxiter) x0 maxiter (trueRes2 A b) (critOf c (mkThr A M b tol2) A M b) :=
  PyamgV.C06.cg_truthful A M b n x0 c tol2 maxiter hm hA hM hb hx

/-! ### non-vacuity: concrete runs of the executable models -/
/-- CG on a 2×2 SPD system: two iterations, status 0, three history entries, the second callback
iterate is the returned (exact) solution -/
example : (cg (K := Rat) [[4, 1], [1, 3]] [[1, 0], [0, 1]] [1, 2] [0, 0] .rr (1 / 10000) 5).status = 0 ∧
    (cg (K := Rat) [[4, 1], [1, 3]] [[1, 0], [0, 1]] [1, 2] [0, 0] .rr (1 / 10000) 5).log.length = 2 ∧
    (cg (K := Rat) [[4, 1], [1, 3]] [[1, 0], [0, 1]] [1, 2] [0, 0] .rr (1 / 10000) 5).x = [1 / 11, 7 / 11] := by
  decide +kernel
/-- iteration limit: status = maxiter = 1 -/
example : (cg (K := Rat) [[4, 1], [1, 3]] [[1, 0], [0, 1]] [1, 2] [0, 0] .rr (1 / 10000) 1).status = 1 := by
  decide +kernel
/-- a converged initial guess comes back unchanged -/
example : (cg (K := Rat) [[4, 1], [1, 3]] [[1, 0], [0, 1]] [1, 2] [1 / 11, 7 / 11] .rMr (1 / 10000) 5).x = [1 / 11, 7 / 11] ∧
    (cg (K := Rat) [[4, 1], [1, 3]] [[1, 0], [0, 1]] [1, 2] [1 / 11, 7 / 11] .rMr (1 / 10000) 5).status = 0 ∧
    (cg (K := Rat) [[4, 1], [1, 3]] [[1, 0], [0, 1]] [1, 2] [1 / 11, 7 / 11] .rMr (1 / 10000) 5).res2 = [0] ∧
    (cg (K := Rat) [[4, 1], [1, 3]] [[1, 0], [0, 1]] [1, 2] [1 / 11, 7 / 11] .rMr (1 / 10000) 5).log = [] := by
  decide +kernel
/-- BiCGStab on the identity: the half step already solves the system (the `fin` exit): status 0,
one callback, two history entries, the last one zero -/
example : (bicgstab (K := Rat) [[1, 0], [0, 1]] [[1, 0], [0, 1]] [1, 1] [0, 0] .rr (1 / 100) 5).status = 0 ∧
    (bicgstab (K := Rat) [[1, 0], [0, 1]] [[1, 0], [0, 1]] [1, 1] [0, 0] .rr (1 / 100) 5).log = [[1, 1]] ∧
    (bicgstab (K := Rat) [[1, 0], [0, 1]] [[1, 0], [0, 1]] [1, 1] [0, 0] .rr (1 / 100) 5).res2 = [2, 0] := by
  decide +kernel
/-- complex CG (Gaussian rationals) on a Hermitian 2×2 system: converges in two iterations -/
example : (cg (K := CRat) [[⟨2, 0⟩, ⟨0, 1⟩], [⟨0, -1⟩, ⟨2, 0⟩]] [[⟨1, 0⟩, ⟨0, 0⟩], [⟨0, 0⟩, ⟨1, 0⟩]]
      [⟨1, 0⟩, ⟨0, 0⟩] [⟨0, 0⟩, ⟨0, 0⟩] .rr (1 / 100) 5).status = 0 ∧
    (cg (K := CRat) [[⟨2, 0⟩, ⟨0, 1⟩], [⟨0, -1⟩, ⟨2, 0⟩]] [[⟨1, 0⟩, ⟨0, 0⟩], [⟨0, 0⟩, ⟨1, 0⟩]]
      [⟨1, 0⟩, ⟨0, 0⟩] [⟨0, 0⟩, ⟨0, 0⟩] .rr (1 / 100) 5).x = [⟨2 / 3, 0⟩, ⟨0, 1 / 3⟩] := by
  decide +kernel
/-- GMRES control: restart 2, 3 cycles, nothing converges: 6 iterations, status 6 -/
example : gmresCtl false 5 (some 2) (some 3) false (fun _ => false) (fun _ => false) (fun _ => false)
    = some ⟨6, 6, 6⟩ := by decide
/-- early inner exit at the first step of the second cycle, confirmed by the explicit residual -/
example : gmresCtl false 5 (some 2) (some 3) false (fun k => k == 3) (fun k => k == 3) (fun _ => false)
    = some ⟨0, 3, 3⟩ := by decide


/-! ### non-vacuity of the GMRES theorems (extension E16) -/
/-- the hypotheses of the complete-run theorems are satisfiable: over `ℝ` with `Real.sqrt`, any `3 × 3` system, any
positive threshold, restart 2 with 2 cycles -/
example (A M : Vector (Vector ℝ 3) 3) (b x0 : Vector ℝ 3) :
    ExtC06.GTruthful
      (ExtC06.gRun (ExtC06.mgsEng (C07.vecOps (fun a => a) A M) Real.sqrt C07.posK C07.nzK 3 b) ExtC06.ltK ExtC06.absK
        (1 / 2) (fun _ _ => false) ⟨2, 2⟩ x0) x0
      (ExtC06.mgsEng (C07.vecOps (fun a => a) A M) Real.sqrt C07.posK C07.nzK 3 b).resn
      (fun x => ExtC06.ltK ((ExtC06.mgsEng (C07.vecOps (fun a => a) A M) Real.sqrt C07.posK C07.nzK 3 b).resn x) (1 / 2))
      ⟨2, 2⟩ :=
  PyamgV.ExtC06.gmres_mgs_vec_truthful A M Real.sqrt b (fun _ h => Real.mul_self_sqrt h) Real.sqrt_nonneg (1 / 2)
    (by norm_num) _ ⟨2, 2⟩ (by decide) (by decide) (by decide) x0
/-- a concrete run of the three complete models evaluated by the kernel (all square roots rational): the recorded
estimate `4` is the residual norm of the callback iterate `(3/5, 0)`; the cycle ends at the solution, status `0` -/
example : (ExtC06.Ex.runM (5/2)).status = 0 ∧ (ExtC06.Ex.runM (5/2)).niter = 2 ∧ (ExtC06.Ex.runM (5/2)).hist = [5, 4, 0] ∧
    (ExtC06.Ex.runM (5/2)).log = [#v[3/5, 0], #v[5, -10]] ∧ (ExtC06.Ex.runM (5/2)).x = #v[5, -10] ∧
    (ExtC06.Ex.runH (5/2)).status = 0 ∧ (ExtC06.Ex.runH (5/2)).hist = [5, 4, 0] ∧
    (ExtC06.Ex.runH (5/2)).log = [#v[3/5, 0], #v[5, -10]] ∧
    (ExtC06.Ex.runF (5/2)).status = 0 ∧ (ExtC06.Ex.runF (5/2)).hist = [5, 4, 0] ∧
    (ExtC06.Ex.runF (5/2)).log = [#v[3/5, 0], #v[5, -10]] ∧
    [ExtC06.Ex.resn₀ #v[0, 0], ExtC06.Ex.resn₀ #v[3/5, 0], ExtC06.Ex.resn₀ #v[5, -10]] = [5, 4, 0] :=
  ExtC06.Ex.full_cycle
/-- early inner exit confirmed by the explicit residual; the iteration left by `break` is counted -/
example : (ExtC06.Ex.runM (9/2)).status = 0 ∧ (ExtC06.Ex.runM (9/2)).niter = 1 ∧ (ExtC06.Ex.runM (9/2)).hist = [5, 4] ∧
    (ExtC06.Ex.runM (9/2)).log = [#v[3/5, 0]] ∧
    (ExtC06.Ex.runF (9/2)).status = 0 ∧ (ExtC06.Ex.runF (9/2)).niter = 1 ∧ (ExtC06.Ex.runF (9/2)).hist = [5, 4] ∧
    (ExtC06.Ex.runF (9/2)).log = [#v[3/5, 0]] :=
  ExtC06.Ex.early_exit


/-! ### extension E43 — the complex GMRES family

`Model/ExtCGGmres.lean`: the engines `cmgsEng`, `chhEng`, `cfgEng` (complex inner iterations: conjugated inner products,
`zlartg` rotations, complex `_mysign`; recorded estimate `np.abs(g[inner+1])`, explicitly computed residual norm
`sqrt(real(<r, r>))`, both real) under the same control flow `gRun`; op `ext_cg_full` runs them on pairs of binary64
numbers and the check compares status, every history entry, every callback iterate and `x` with the public functions on
complex systems.  Theorems: over a field with an involution and an exact square root of its non-negative reals -- in
particular the pairs `CP F` over an ordered field `F` with an exact square root -- the recorded estimate is the norm of
the (preconditioned; `fgmres`: true) residual of the iterate handed to `callback` (a non-zero estimate certifies "no
breakdown"), hence all C06 clauses `GTruthful` for a threshold `> 0` and `max_inner ≤ n`. -/

/-- the rotated-basis invariant ⇒ `‖c − B x_k‖² = |g[k]|²` (any orthogonalisation) -/
restate complex_gmres_estimate_is_residual_norm := PyamgV.ExtCG.rb_estimate
/-- a non-zero new entry of `g` ⇒ the rotation was live and the previous entry was non-zero -/
restate complex_gmres_nonzero_estimate_live_rotation := PyamgV.ExtCG.cgiv_live
restate complex_gmres_mgs_estimate := PyamgV.ExtCG.cgmres_mgs_estimate
restate complex_gmres_householder_estimate := PyamgV.ExtCG.cgmres_hh_estimate
restate complex_fgmres_estimate := PyamgV.ExtCG.cfgmres_estimate
/-- the estimates over pairs: `|g[m+1]| = ‖M (b − A x_{m+1})‖₂` with the modulus / norm of the pair model -/
restate complex_gmres_mgs_pairs_estimate := PyamgV.ExtCG.cgmres_mgs_cp_estimate
restate complex_gmres_householder_pairs_estimate := PyamgV.ExtCG.cgmres_hh_cp_estimate
restate complex_fgmres_pairs_estimate := PyamgV.ExtCG.cfgmres_cp_estimate
/-- the complete complex runs, module level -/
restate complex_gmres_mgs_truthful := PyamgV.ExtCG.cgmres_mgs_run_truthful
restate complex_gmres_householder_truthful := PyamgV.ExtCG.cgmres_hh_run_truthful
restate complex_fgmres_truthful := PyamgV.ExtCG.cfgmres_run_truthful
/-- … on `Vector K n` -/
restate complex_gmres_mgs_vec_truthful := PyamgV.ExtCG.cgmres_mgs_vec_truthful
restate complex_gmres_householder_vec_truthful := PyamgV.ExtCG.cgmres_hh_vec_truthful
restate complex_fgmres_vec_truthful := PyamgV.ExtCG.cfgmres_vec_truthful
/-- … and over pairs `(re, im)`: the engines `cgmresFullFloat` runs in binary64 (op `ext_cg_full`) -/
restate complex_gmres_mgs_pairs_truthful := PyamgV.ExtCG.cgmres_mgs_cp_truthful
restate complex_gmres_householder_pairs_truthful := PyamgV.ExtCG.cgmres_hh_cp_truthful
restate complex_fgmres_pairs_truthful := PyamgV.ExtCG.cfgmres_cp_truthful

/-- the hypotheses of the complete-run pair theorems are satisfiable: over `ℝ` with `Real.sqrt`, any complex `3 × 3`
system, any positive threshold, restart 2 with 2 cycles -/
example (A M : Vector (Vector (ExtCG.CP ℝ) 3) 3) (b x0 : Vector (ExtCG.CP ℝ) 3) :
    ExtC06.GTruthful
      (ExtC06.gRun (ExtCG.chhEng (C07.hopsVec ExtCG.CP.conj A M) ExtCG.CP.conj (ExtCG.CP.sqrtRe Real.sqrt)
        (ExtCG.sgnCP Real.sqrt) ExtCG.nzK (ExtCG.CP.mod Real.sqrt) (fun z => Real.sqrt z.re) 3 b) ExtCG.ltF (fun a => a)
        (1 / 2) (fun _ _ => false) ⟨2, 2⟩ x0) x0
      (fun x => Real.sqrt (C07.vdot ExtCG.CP.conj (ExtCG.presV A M b x) (ExtCG.presV A M b x)).re)
      (fun x => ExtCG.ltF (Real.sqrt (C07.vdot ExtCG.CP.conj (ExtCG.presV A M b x) (ExtCG.presV A M b x)).re) (1 / 2))
      ⟨2, 2⟩ :=
  PyamgV.ExtCG.cgmres_hh_cp_truthful Real.sqrt (fun _ h => Real.mul_self_sqrt h) A M b (1 / 2) (by norm_num) _ ⟨2, 2⟩
    (by decide) (by decide) (by decide) x0
/-- a concrete complex run of the three complete models evaluated by the kernel over `CP Rat` (`A = [[3i, 1], [4, 2i]]`,
`b = (5, 0)`; all square roots rational): the recorded estimate `4` is the residual norm of the callback iterate
`(−3i/5, 0)`; the cycle ends at the solution `(−i, 2)`, status `0` -/
example : (ExtCG.Ex.runM (5/2)).status = 0 ∧ (ExtCG.Ex.runM (5/2)).niter = 2 ∧ (ExtCG.Ex.runM (5/2)).hist = [5, 4, 0] ∧
    (ExtCG.Ex.runM (5/2)).log = [#v[⟨0, -3/5⟩, ⟨0, 0⟩], #v[⟨0, -1⟩, ⟨2, 0⟩]] ∧
    (ExtCG.Ex.runM (5/2)).x = #v[⟨0, -1⟩, ⟨2, 0⟩] ∧
    (ExtCG.Ex.runH (5/2)).status = 0 ∧ (ExtCG.Ex.runH (5/2)).hist = [5, 4, 0] ∧
    (ExtCG.Ex.runH (5/2)).log = [#v[⟨0, -3/5⟩, ⟨0, 0⟩], #v[⟨0, -1⟩, ⟨2, 0⟩]] ∧
    (ExtCG.Ex.runF (5/2)).status = 0 ∧ (ExtCG.Ex.runF (5/2)).hist = [5, 4, 0] ∧
    (ExtCG.Ex.runF (5/2)).log = [#v[⟨0, -3/5⟩, ⟨0, 0⟩], #v[⟨0, -1⟩, ⟨2, 0⟩]] ∧
    [ExtCG.Ex.resn₀ #v[⟨0, 0⟩, ⟨0, 0⟩], ExtCG.Ex.resn₀ #v[⟨0, -3/5⟩, ⟨0, 0⟩], ExtCG.Ex.resn₀ #v[⟨0, -1⟩, ⟨2, 0⟩]] =
      [5, 4, 0] :=
  ExtCG.Ex.full_cycle
/-- early inner exit (complex), confirmed by the explicit residual -/
example : (ExtCG.Ex.runM (9/2)).status = 0 ∧ (ExtCG.Ex.runM (9/2)).niter = 1 ∧ (ExtCG.Ex.runM (9/2)).hist = [5, 4] ∧
    (ExtCG.Ex.runM (9/2)).log = [#v[⟨0, -3/5⟩, ⟨0, 0⟩]] ∧
    (ExtCG.Ex.runH (9/2)).status = 0 ∧ (ExtCG.Ex.runH (9/2)).niter = 1 ∧ (ExtCG.Ex.runH (9/2)).hist = [5, 4] ∧
    (ExtCG.Ex.runF (9/2)).status = 0 ∧ (ExtCG.Ex.runF (9/2)).niter = 1 ∧ (ExtCG.Ex.runF (9/2)).hist = [5, 4] ∧
    (ExtCG.Ex.runF (9/2)).log = [#v[⟨0, -3/5⟩, ⟨0, 0⟩]] :=
  ExtCG.Ex.early_exit

end PyamgV.Props.C06
