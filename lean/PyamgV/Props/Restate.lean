import Lean
/-! `restate new := Old.theorem` declares `new` (in the current namespace) as a theorem with exactly
the statement of `Old.theorem`, proved by it.  Property files use it to collect, under
`PyamgV.Props.Cxx`, the theorems that decide property Cxx without copying long binder lists; the
statement is the one printed by `#check @new`. The axiom audit sees through it. -/
open Lean Elab Command

syntax (name := restateCmd) (docComment)? "restate " ident " := " ident : command

@[command_elab restateCmd] def elabRestate : CommandElab := fun stx => do
  let doc? := stx[0].getOptional?
  let new := stx[2]
  let old := stx[4]
  let oldName ← liftCoreM <| realizeGlobalConstNoOverloadWithInfo old
  let ci ← getConstInfo oldName
  let isProp ← liftTermElabM <| Meta.isProp ci.type
  unless isProp do throwError "restate: {oldName} is not a theorem (its type is not a Prop)"
  let ns ← getCurrNamespace
  let newName := ns ++ new.getId
  let decl := Declaration.thmDecl {
    name := newName, levelParams := ci.levelParams, type := ci.type,
    value := mkConst oldName (ci.levelParams.map mkLevelParam) }
  liftCoreM <| addDecl decl
  if let some d := doc? then
    liftTermElabM <| addDocString newName mkNullNode ⟨d⟩
